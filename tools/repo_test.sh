#!/bin/sh
# Runs the repository's pinned suite (guard off) and prints the pass/fail totals.
cd /repo && CARGO_NET_OFFLINE=true cargo test --workspace --no-fail-fast --offline 2>&1 | awk '/^test result/ {p+=$4; f+=$6} /^test .* FAILED/ {print} END {print "passed=" p " failed=" f; exit (f>0 || p!=93)}'
