#!/bin/bash
# Runs every stored seeded change against the check of its own property (quick tier) and prints one line each.
cd /verif
for d in seeded/*/; do
  id=$(basename $d); prop=${id%-*}
  res=$(tools/try_seed.sh /verif/$d $prop 2>&1 | grep -E "^== |VIOLATION" | tr '\n' ' ')
  echo "$id: $res" | cut -c1-200
done
rm -rf replays
