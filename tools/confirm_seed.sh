#!/bin/bash
# usage: confirm_seed.sh <worktree dir with OUT/> <seed id for /verif/seeded>
# Re-confirms independently: demo passes without the change, fails with it, existing suite passes with it.
set -u
W=$1; ID=$2
cd $W || exit 2
CRATE=$(python3 -c "import json;print(json.load(open('OUT/meta.json'))['crate_for_demo'])")
TD=$W/target
git checkout -q -- . ; rm -rf $CRATE/tests
mkdir -p $CRATE/tests && cp OUT/demo.rs $CRATE/tests/demo.rs
cargo test -p $CRATE --test demo --offline --target-dir $TD > /tmp/confirm_$ID.base.log 2>&1; base_rc=$?
git apply OUT/patch.diff || { echo "patch does not apply"; exit 2; }
cargo test -p $CRATE --test demo --offline --target-dir $TD > /tmp/confirm_$ID.mut.log 2>&1; mut_rc=$?
rm -rf $CRATE/tests
suite=$(cargo test --workspace --no-fail-fast --offline --target-dir $TD 2>&1 | awk '/^test result/ {p+=$4; f+=$6} END {print p " passed " f " failed"}')
echo "$ID: demo on unchanged tree rc=$base_rc; demo with change rc=$mut_rc; suite with change: $suite"
if [ $base_rc -eq 0 ] && [ $mut_rc -ne 0 ] && [ "$suite" = "93 passed 0 failed" ]; then
  mkdir -p /verif/seeded/$ID
  git diff -- . ':!OUT' > /verif/seeded/$ID/patch.diff
  cp OUT/demo.rs /verif/seeded/$ID/demo.rs
  python3 - "$ID" "$suite" <<'PY'
import json,sys
m=json.load(open('OUT/meta.json'))
m['confirmed']={"demo_passes_on_unchanged_tree":True,"demo_fails_with_change":True,"existing_suite_with_change":sys.argv[2],
  "how":"tools/confirm_seed.sh in a scratch worktree of /repo (fix commits included): cargo test -p <crate> --test demo before/after git apply; cargo test --workspace with the change"}
json.dump(m,open(f'/verif/seeded/{sys.argv[1]}/meta.json','w'),indent=1)
PY
  echo "  kept in /verif/seeded/$ID"
else
  echo "  NOT confirmed"; tail -5 /tmp/confirm_$ID.base.log; tail -5 /tmp/confirm_$ID.mut.log
fi
