#!/bin/bash
# usage: sweep.sh <tier> <seed...> : runs every claimed check with each seed; prints anything that is not a clean exit 0
tier=$1; shift
for seed in "$@"; do
  for c in $(python3 -c "import json;print(' '.join(sorted(json.load(open('/verif/props.json')))))"); do
    out=$(VERIF_SEED=$seed ./check $c --tier $tier 2>&1); rc=$?
    if [ $rc -ne 0 ]; then echo "seed=$seed $c rc=$rc"; echo "$out" | grep -E "VIOLATION" ; fi
  done
  echo "seed $seed done"
done
