#!/bin/bash
# usage: mk_seed.sh <property id> <suffix>   e.g. mk_seed.sh C07 b
# creates the worktree /tmp/seed/<id><suffix> and the prompt /tmp/seed/<id><suffix>.prompt.txt for a seed-writing sub-agent
set -eu
P=$1; S=$2; ID=$P$S
mkdir -p /tmp/seed
git -C /repo worktree add --detach /tmp/seed/$ID HEAD >/dev/null 2>&1
python3 - "$P" "$ID" <<'PY'
import json,sys,glob
pid,ID=sys.argv[1],sys.argv[2]
for l in open('/verif/properties.jsonl'):
    d=json.loads(l)
    if d['id']==pid: break
prop=f"Property {pid}: {d['title']}\n\nStatement: {d['statement']}\n\nQuantified over: {d['quantifier']['text']}\n\nWhy the existing tests cannot settle it: {d['why_tests_cant']}\n\nAnchored in files: {', '.join(d['anchors']['files'])}\nObserved at: {'; '.join(d['anchors']['observe_at'])}\n"
used=[]
for m in sorted(glob.glob(f'/verif/seeded/{pid}-*/meta.json')):
    try: used.append(json.load(open(m)).get('what_breaks','')[:400])
    except Exception: pass
if used:
    prop+="\n\nNOTE: other reviewers already used these changes:\n"+"\n".join(f"- {u}" for u in used)+"\nPick a DIFFERENT mechanism in a different function or code path, preferably one that needs a multi-step sequence, a particular nesting, or two sites that each look fine alone.\n"
t=open('/verif/tools/seed_prompt.tmpl').read().replace('@ID@',ID).replace('@PROPERTY@',prop)
# the property id inside meta.json must be the plain id
t=t.replace('{"property": "%s"'%ID,'{"property": "%s"'%pid)
open(f'/tmp/seed/{ID}.prompt.txt','w').write(t)
print(f'/tmp/seed/{ID}.prompt.txt')
PY
