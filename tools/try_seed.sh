#!/bin/bash
# usage: try_seed.sh <seed dir under /tmp/seed or /verif/seeded> <property ids to check...>
# Applies the seeded patch to /repo, runs the given checks (quick tier), restores /repo.
set -u
SD=$1; shift
PATCH=$SD/patch.diff
[ -f "$PATCH" ] || PATCH=$SD/OUT/patch.diff
cd /repo && git status --short | grep -q . && { echo "/repo not clean"; exit 2; }
git -C /repo apply "$PATCH" || { echo "patch does not apply"; exit 2; }
# restore /repo and rebuild the harness against the restored tree (so no mutated binary is left behind)
# (set TRY_SEED_NO_REBUILD=1 in long loops: every check rebuilds the harness itself; rebuild once at the end)
trap 'git -C /repo checkout -- . ; [ -n "${TRY_SEED_NO_REBUILD:-}" ] || (cd /verif/harness && CARGO_NET_OFFLINE=true cargo build >/dev/null 2>&1)' EXIT
cd /verif
for p in "$@"; do
  out=$(./check $p 2>&1); rc=$?
  echo "== $p rc=$rc"; echo "$out" | grep -E "VIOLATION|KNOWN" | cut -c1-220
  if [ $rc -ne 0 ]; then f=$(echo "$out" | grep -o 'replay=[^ ]*' | head -1 | cut -d= -f2); python3 - "$f" <<'PY'
import json,sys
try:
    d=json.load(open(sys.argv[1])); print("   kind:",d.get("kind"),"family:",d.get("family")); print("   case:",(d.get("case") or "")[:300]); print("   reason:",(d.get("oracle_reason") or "")[:300])
except Exception as e: print("   (no replay)",e)
PY
  fi
done
