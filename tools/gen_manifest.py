#!/usr/bin/env python3
"""Regenerates MANIFEST.json from props.json (claimed properties) and properties.jsonl."""
import json, os
ROOT = os.path.dirname(os.path.dirname(os.path.abspath(__file__)))
props = json.load(open(os.path.join(ROOT, "props.json")))
all_ids = [json.loads(l)["id"] for l in open(os.path.join(ROOT, "properties.jsonl"))]
checks = []
for pid in all_ids:
    if pid not in props:
        continue
    sp = props[pid]
    checks.append({
        "property_id": pid,
        "quick_cmd": f"./check {pid} --tier quick",
        "thorough_cmd": f"./check {pid} --tier thorough",
        "evidence_file": f"evidence/{pid}.json",
        "replay_cmd_template": f"./check {pid} --replay {{path}}",
        "engine": "lean4-proof+correspondence",
        "level_claimed": {
            "category": "proof",
            "text": sp.get("level_text", ""),
            "design_ref": sp.get("design_ref", "DESIGN.md §8 " + pid),
        },
        "level_note": sp.get("level_note", ""),
        "technique": sp.get("technique", "Lean 4 theorem about a hand-written model of the code; model tied to /repo by differential correspondence run; executable statement evaluated on the implementation's outputs"),
    })
na = []
na_reasons = json.load(open(os.path.join(ROOT, "not_applicable.json")))
for pid in all_ids:
    if pid not in props:
        na.append({"property_id": pid, "reason": na_reasons.get(pid, "not yet claimed: the check for this property is still being built (see DESIGN.md §11 build order)")})
manifest = {
    "version": 1,
    "setup_cmd": "./setup.sh",
    "hooks": {
        "guard": "tephra_verif",
        "enable": "no source hooks are needed (every observable is public API); the harness passes --cfg tephra_verif via harness/.cargo/config.toml for uniformity",
        "baseline_off_cmd": "cd /repo && cargo test --workspace --no-fail-fast --offline",
        "source_commits": [],
        "add_only": True,
    },
    "engines": [{
        "name": "lean4-proof+correspondence",
        "path": "check",
        "serves_properties": [c["property_id"] for c in checks],
        "kind_free_text": "Lean 4 model + theorems (lean/), Rust differential harness against /repo (harness/), Python driver (check)",
    }],
    "checks": checks,
    "not_applicable": na,
    "notes": "fix: commits in /repo are listed in known_findings.json (fixed:). Evidence is rewritten by every run.",
}
json.dump(manifest, open(os.path.join(ROOT, "MANIFEST.json"), "w"), indent=1)
print("claimed:", [c["property_id"] for c in checks])
