#!/usr/bin/env python3
"""Self-validation of the checks by mechanical mutation of /repo (development tool, not a registered check).

usage: mutate.py --seed N --count K [--only <substring of path>] [--log <file>]

For each sampled mutant: apply it to /repo's working tree (never committed), build; if it does not
compile -> `nocompile`; run the repository's suite; if a test fails -> `killed-by-tests` (not interesting:
the brief asks about changes the tests let through); otherwise run every registered quick check and record
which ones report a violation.  /repo is restored after every mutant (and on exit).  One JSON line per mutant.
"""
import argparse, glob, json, os, random, re, subprocess, sys, time

REPO = "/repo"
VERIF = "/verif"

OPS = [
    (r" == ", " != "), (r" != ", " == "),
    (r" < ", " <= "), (r" <= ", " < "), (r" > ", " >= "), (r" >= ", " > "),
    (r" && ", " || "), (r" \|\| ", " && "),
    (r" \+ 1\b", " + 0"), (r" - 1\b", " - 0"), (r" \+ 1\b", " + 2"),
    (r"\btrue\b", "false"), (r"\bfalse\b", "true"),
    (r"\.is_some\(\)", ".is_none()"), (r"\.is_none\(\)", ".is_some()"),
    (r"\bif !", "if "), (r"\bwhile !", "while "),
    (r"\.min\(", ".max("), (r"\.max\(", ".min("),
    (r"\.start\(\)", ".end()"), (r"\.end\(\)", ".start()"),
    (r"\bSome\(0\)", "Some(1)"), (r"\b0\b", "1"), (r"\b1\b", "0"),
    (r"\.pop\(\)", ".last().cloned()"),
    (r"\bbreak;", "continue;"),
    (r"\.clone\(\)", ""),
]
STMT = re.compile(r"^\s+(self|lexer|succ\.lexer|base_lexer|ctx|local|shared|vals|opened|res)[\w\.]*(\s*(=|\+=|-=)\s|\.(set_\w+|push|pop|clear|truncate|insert|remove|take|advance\w*|next|skip\w*)\().*;\s*$")

SKIP_LINE = re.compile(r"^\s*(//|#\[|use |pub use |event!|span!|let _trace|debug_assert|assert|panic!|const |pub const |write!|writeln!)|tracing|Level::|fmt::|f\.debug")


def files(only):
    out = []
    for f in sorted(glob.glob(REPO + "/tephra*/src/**/*.rs", recursive=True)):
        if "/test" in f or "tephra-tracing" in f:
            continue
        if only and only not in f:
            continue
        out.append(f)
    return out


def sites(only):
    res = []
    for f in files(only):
        lines = open(f).read().split("\n")
        in_test = False
        for i, l in enumerate(lines):
            if "#[cfg(test)]" in l:
                in_test = True
            if in_test or SKIP_LINE.search(l):
                continue
            code = l.split("//")[0]
            for k, (pat, rep) in enumerate(OPS):
                for m in re.finditer(pat, code):
                    res.append((f, i, "op%d" % k, m.start(), m.end(), rep))
            if STMT.match(code):
                res.append((f, i, "del", 0, len(l), ""))
    return res


def sh(cmd, timeout, cwd=None, env=None):
    try:
        p = subprocess.run(cmd, shell=True, cwd=cwd, env=env, stdout=subprocess.PIPE, stderr=subprocess.STDOUT,
                           text=True, timeout=timeout)
        return p.returncode, p.stdout
    except subprocess.TimeoutExpired as e:
        return 124, (e.stdout or b"").decode(errors="replace") if isinstance(e.stdout, bytes) else (e.stdout or "")


def restore():
    subprocess.run(["git", "-C", REPO, "checkout", "--", "."], check=False)


def main():
    ap = argparse.ArgumentParser()
    ap.add_argument("--seed", type=int, default=1)
    ap.add_argument("--count", type=int, default=10)
    ap.add_argument("--only", default="")
    ap.add_argument("--log", default="/root/scratch/mutants.jsonl")
    ap.add_argument("--jobs", type=int, default=5)
    a = ap.parse_args()
    rc, out = sh("git -C /repo status --short", 60)
    if out.strip():
        print("/repo not clean"); return 2
    all_sites = sites(a.only)
    rng = random.Random(a.seed)
    rng.shuffle(all_sites)
    checks = sorted(json.load(open(VERIF + "/props.json")))
    env = dict(os.environ, CARGO_NET_OFFLINE="true")
    done = 0
    try:
        for (f, i, op, s, e, rep) in all_sites:
            if done >= a.count or os.path.exists('/root/scratch/mutate.stop'):
                break
            lines = open(f).read().split("\n")
            orig = lines[i]
            if op == "del":
                mut = re.match(r"^\s*", orig).group(0) + "// " + orig.strip()
            else:
                mut = orig[:s] + rep + orig[e:]
            if mut == orig:
                continue
            lines[i] = mut
            open(f, "w").write("\n".join(lines))
            rec = {"file": f[len(REPO) + 1:], "line": i + 1, "op": op, "orig": orig.strip(), "mut": mut.strip()}
            t0 = time.time()
            rc, out = sh("cargo build --workspace --offline 2>&1 | tail -3", 600, cwd=REPO, env=env)
            if "error" in out and "Finished" not in out:
                rec["outcome"] = "nocompile"
            else:
                rc, out = sh(VERIF + "/tools/repo_test.sh", 600, env=env)
                if rc != 0:
                    rec["outcome"] = "killed-by-tests"
                else:
                    rc, out = sh("printf '%s\\n' " + " ".join(checks) +
                                 " | xargs -P %d -I{} sh -c './check {} 2>&1 | grep -E \"^VIOLATION\" | head -1; true'" % a.jobs,
                                 3600, cwd=VERIF, env=env)
                    hit = sorted(set(re.findall(r"property=(C\d\d)", out)))
                    nf = sorted(set(re.findall(r"property=(C\d\d) replay=\S+ no-failing-input-found", out)))
                    rec["outcome"] = "caught" if hit else "SURVIVED"
                    rec["caught_by"] = hit
                    rec["correspondence_only"] = nf
                    done += 1
            rec["secs"] = round(time.time() - t0)
            restore()
            with open(a.log, "a") as lf:
                lf.write(json.dumps(rec) + "\n")
            print(json.dumps(rec), flush=True)
    finally:
        restore()
        sh("cargo build --offline", 600, cwd=VERIF + "/harness", env=env)
    return 0


if __name__ == "__main__":
    sys.exit(main())
