#!/bin/bash
# Region/line coverage of /repo's sources under the harness families (quick tier, seed 1): which code the
# correspondence check reaches.  Needs the nightly toolchain's llvm-tools.  Scratch output under /root/scratch/cov
# (removed at the end unless KEEP=1).  Not part of any registered check.
set -u
OUT=/root/scratch/cov
B=$(dirname "$(find ~/.rustup/toolchains/nightly-x86_64-unknown-linux-gnu -name llvm-cov | head -1)")
mkdir -p $OUT && rm -f $OUT/*.profraw
(cd /verif/harness && CARGO_NET_OFFLINE=true RUSTFLAGS="-C instrument-coverage --cfg tephra_verif" cargo +nightly build --target-dir $OUT/target 2>&1 | tail -1)
(cd /verif/harness-color && CARGO_NET_OFFLINE=true RUSTFLAGS="-C instrument-coverage --cfg tephra_verif" cargo +nightly build --target-dir $OUT/target-color 2>&1 | tail -1)
H=$OUT/target/debug/tephra-harness
HC=$OUT/target-color/debug/tephra-harness-color
for f in spanops nav lines window lexiter lexops peg rep capture errors bracket list recover twice scoped ctxops term nopanic render; do
  LLVM_PROFILE_FILE="$OUT/$f.profraw" $H $f quick 1 > $OUT/$f.txt 2>/dev/null
done
LLVM_PROFILE_FILE="$OUT/rendercolor.profraw" $HC < $OUT/render.txt > /dev/null 2>&1
$B/llvm-profdata merge -sparse $OUT/*.profraw -o $OUT/all.profdata
$B/llvm-cov report $H -object $HC -instr-profile=$OUT/all.profdata --ignore-filename-regex='(\.cargo|rustc|/verif/|rustup)' 2>/dev/null | awk '{printf "%-45s regions %5s missed %5s (%s)  lines %5s missed %5s (%s)\n", $1, $2, $3, $4, $8, $9, $10}'
$B/llvm-cov export $H -object $HC -instr-profile=$OUT/all.profdata -format=lcov --ignore-filename-regex='(\.cargo|rustc|/verif/|rustup)' > $OUT/all.lcov 2>/dev/null
python3 - <<'PY'
import collections
cur=None; unc=collections.defaultdict(list)
for l in open('/root/scratch/cov/all.lcov'):
    l=l.strip()
    if l.startswith('SF:'): cur=l[3:]
    elif l.startswith('DA:'):
        n,c=l[3:].split(',')[:2]
        if int(c)==0: unc[cur].append(int(n))
def ranges(ns):
    out=[];s=p=None
    for n in ns:
        if s is None: s=p=n
        elif n==p+1: p=n
        else: out.append((s,p)); s=p=n
    if s is not None: out.append((s,p))
    return out
print("\nuncovered lines:")
for f in sorted(unc):
    print(f, ' '.join(f"{a}-{b}" if a!=b else str(a) for a,b in ranges(unc[f])))
PY
[ "${KEEP:-0}" = 1 ] || rm -rf $OUT
