//! Re-renders `render` cases with real ANSI colours (tephra-error built without
//! its `no-color` feature).  stdin: case lines of family `render`; stdout: the
//! same cases as family `rendercolor` with colour forced on; observation =
//! coloured output | owned-copy flag | plain output (colour disabled).

#[path = "../../harness/src/render.rs"]
mod render;

use std::io::BufRead;

fn parse_text(s: &str) -> String {
    if s.is_empty() || s == "-" {
        return String::new();
    }
    s.split(',')
        .filter_map(|item| item.split(':').next().and_then(|c| c.parse::<u32>().ok()).and_then(char::from_u32))
        .collect()
}

fn parse_le(s: &str) -> tephra_span::LineEnding {
    match s {
        "cr" => tephra_span::LineEnding::Cr,
        "crlf" => tephra_span::LineEnding::CrLf,
        _ => tephra_span::LineEnding::Lf,
    }
}

fn main() {
    std::panic::set_hook(Box::new(|_| {}));
    colored::control::set_override(true);
    let stdin = std::io::stdin();
    let mut out = String::new();
    for line in stdin.lock().lines() {
        let line = match line { Ok(l) => l, Err(_) => break };
        let parts: Vec<&str> = line.split('\t').collect();
        if parts.len() < 9 || parts[0] != "render" { continue; }
        let f = &parts[1..parts.len() - 1];
        let mut c = match render::parse_case(f, parse_text(f[0]), parse_le(f[1])) { Some(c) => c, None => continue };
        c.color = true;
        let coloured = render::render_obs(&c);
        c.color = false;
        let plain = render::render_obs(&c);
        let plain_out = plain.split('|').next().unwrap_or("").to_string();
        out.push_str("rendercolor");
        for (i, x) in f.iter().enumerate() {
            out.push('\t');
            out.push_str(if i == 4 { "1" } else { x });
        }
        out.push('\t');
        out.push_str(&format!("{}|{}", coloured, plain_out));
        out.push('\n');
    }
    print!("{out}");
}
