fn main() { println!("{}", "x".len()); }
