#!/bin/sh
# Builds the framework from files on disk only (offline): the Lean project
# (model, proofs, property theorems, native driver) and the Rust harness
# against /repo's working tree.
set -e
cd "$(dirname "$0")"
mkdir -p .build evidence
(cd lean && lake build)
cp -n /repo/Cargo.lock harness/Cargo.lock 2>/dev/null || true
(cd harness && CARGO_NET_OFFLINE=true CARGO_TARGET_DIR="$PWD/../.build/target" cargo build --offline)
cp -n /repo/Cargo.lock harness-color/Cargo.lock 2>/dev/null || true
(cd harness-color && CARGO_NET_OFFLINE=true CARGO_TARGET_DIR="$PWD/../.build/target-color" cargo build --offline)
