//! Families over the lexer: `lexiter` (C04, C03) and `lexops` (C05, C03).

use crate::gen::*;
use crate::l0::Tier;
use crate::scan::*;
use crate::wire::{self, guarded, Out};
use std::rc::Rc;
use tephra::Lexer;
use tephra_span::{ColumnMetrics, LineEnding, SourceText};

pub const LEX_ALPHABET: &[char] = &['a', 'b', 'd', ' ', '\t', '\n', '\r', ',', '#', 'é'];
pub const LEX_ALPHABET_Q: &[char] = &['a', 'd', ' ', '\n', ',', '#'];

pub fn filter_fn(mask: u32) -> Rc<dyn Fn(&Tok) -> bool> {
    Rc::new(move |t: &Tok| passes(mask, t))
}

pub fn parse_filter(s: &str) -> Option<u32> {
    if s == "n" { None } else { s.parse().ok() }
}

pub fn show_filter(f: Option<u32>) -> String {
    f.map_or("n".to_string(), |m| m.to_string())
}

fn show_tok(t: &Tok) -> String {
    format!("{}.{}", t.kind, t.tag)
}

////////////////////////////////////////////////////////////////////////////////
// lexiter
////////////////////////////////////////////////////////////////////////////////

pub fn lexiter_obs(text: &str, m: ColumnMetrics, sc: usize, filter: Option<u32>) -> String {
    guarded(|| {
        let source = SourceText::new(text).with_column_metrics(m);
        let mut lexer = Lexer::new(Sc::new(sc), source);
        if let Some(mask) = filter {
            lexer = lexer.with_filter(Some(filter_fn(mask)));
        }
        let mut items = Vec::new();
        let mut guard = 0;
        loop {
            let t = match lexer.next() {
                Some(t) => t,
                None => break,
            };
            let span = lexer.token_span();
            let clip = source.clipped(span);
            items.push(format!(
                "{}:{}:{}:{}",
                show_tok(&t),
                wire::span(span),
                wire::span(lexer.parse_span()),
                wire::codes(clip.as_str()).replace(',', ".")
            ));
            guard += 1;
            if guard > text.len() + 2 { break; }
        }
        // the iterator adaptor of the lexer yields the same tokens with the same token spans
        let mut second = Lexer::new(Sc::new(sc), source);
        if let Some(mask) = filter {
            second = second.with_filter(Some(filter_fn(mask)));
        }
        let via_iter: Vec<String> = second
            .iter_with_spans()
            .take(text.len() + 3)
            .map(|(t, sp)| format!("{}:{}", show_tok(&t), wire::span(sp)))
            .collect();
        let manual: Vec<String> = items.iter().map(|it| it.splitn(3, ':').take(2).collect::<Vec<_>>().join(":")).collect();
        format!("[{}]|{}|{}", items.join(";"), wire::pos(lexer.cursor_pos()), wire::b(via_iter == manual))
    })
}

fn lexiter_case(out: &mut Out, text: &str, le: LineEnding, tab: u8, sc: usize, filter: Option<u32>) {
    let m = metrics(le, tab);
    out.case(
        "lexiter",
        &[wire::text(text), le_name(le).to_string(), tab.to_string(), sc.to_string(), show_filter(filter)],
        || lexiter_obs(text, m, sc, filter),
    );
}

pub fn lexiter(out: &mut Out, tier: &Tier, rng: &mut Rng) {
    let (alpha, l): (&[char], usize) = if tier.thorough { (LEX_ALPHABET, 5) } else { (LEX_ALPHABET_Q, 4) };
    for text in all_texts_up_to(alpha, l) {
        // every filter mask x two scanners on LF; other endings sampled
        for sc in [1usize, 3, 5] {
            lexiter_case(out, &text, LineEnding::Lf, 4, sc, None);
            for mask in 1..16u32 {
                if !tier.thorough && !(mask == 1 || mask == 3 || mask == 5 || mask == 15) { continue; }
                lexiter_case(out, &text, LineEnding::Lf, 4, sc, Some(mask));
            }
        }
        let le = *rng.pick(LINE_ENDINGS);
        lexiter_case(out, &text, le, 1 + rng.below(8) as u8, rng.below(8), Some(rng.below(16) as u32));
    }
    let extra = if tier.thorough { 60000 } else { 12000 };
    for _ in 0..extra {
        let text = random_text(rng, ALPHABET, 16);
        let le = *rng.pick(LINE_ENDINGS);
        let filter = if rng.chance(1, 4) { None } else { Some(rng.below(16) as u32) };
        lexiter_case(out, &text, le, 1 + rng.below(9) as u8, rng.below(8), filter);
    }
}

////////////////////////////////////////////////////////////////////////////////
// lexops
////////////////////////////////////////////////////////////////////////////////

#[derive(Clone, Debug, PartialEq)]
pub enum Op {
    Next,
    Peek,
    /// `is_empty_with_filter`
    EmptyQ,
    NextIf(u32),
    NextIfEq(u32),
    AdvanceTo(u32),
    AdvanceUpTo(u32),
    SetFilter(Option<u32>),
    WithFilter(Option<u32>),
    StartSublex,
    IntoSublexer,
    Spans,
    ForkBegin,
    ForkEnd,
    WithLineEnding(LineEnding),
    WithTabWidth(u8),
    WithMetrics(LineEnding, u8),
}

pub fn show_op(op: &Op) -> String {
    match op {
        Op::Next => "n".into(),
        Op::Peek => "p".into(),
        Op::EmptyQ => "z".into(),
        Op::NextIf(k) => format!("i{k}"),
        Op::NextIfEq(k) => format!("e{k}"),
        Op::AdvanceTo(k) => format!("t{k}"),
        Op::AdvanceUpTo(k) => format!("u{k}"),
        Op::SetFilter(f) => format!("f{}", show_filter(*f)),
        Op::WithFilter(f) => format!("W{}", show_filter(*f)),
        Op::StartSublex => "s".into(),
        Op::IntoSublexer => "S".into(),
        Op::Spans => "q".into(),
        Op::ForkBegin => "[".into(),
        Op::ForkEnd => "]".into(),
        Op::WithLineEnding(le) => format!("L{}", le_name(*le)),
        Op::WithTabWidth(t) => format!("T{t}"),
        Op::WithMetrics(le, t) => format!("M{}:{}", le_name(*le), t),
    }
}

pub fn parse_op(s: &str) -> Option<Op> {
    let (h, r) = s.split_at(1);
    Some(match h {
        "n" => Op::Next,
        "p" => Op::Peek,
        "z" => Op::EmptyQ,
        "i" => Op::NextIf(r.parse().ok()?),
        "e" => Op::NextIfEq(r.parse().ok()?),
        "t" => Op::AdvanceTo(r.parse().ok()?),
        "u" => Op::AdvanceUpTo(r.parse().ok()?),
        "f" => Op::SetFilter(parse_filter(r)),
        "W" => Op::WithFilter(parse_filter(r)),
        "s" => Op::StartSublex,
        "S" => Op::IntoSublexer,
        "q" => Op::Spans,
        "[" => Op::ForkBegin,
        "]" => Op::ForkEnd,
        "L" => Op::WithLineEnding(wire::parse_le(r)),
        "T" => Op::WithTabWidth(r.parse().ok()?),
        "M" => {
            let mut it = r.split(':');
            Op::WithMetrics(wire::parse_le(it.next()?), it.next()?.parse().ok()?)
        }
        _ => return None,
    })
}

pub fn show_ops(ops: &[Op]) -> String {
    if ops.is_empty() { "-".to_string() } else { ops.iter().map(show_op).collect::<Vec<_>>().join(" ") }
}

pub fn parse_ops(s: &str) -> Vec<Op> {
    if s == "-" { return Vec::new(); }
    s.split(' ').filter_map(parse_op).collect()
}

/// Extract a canonical fingerprint from the lexer's `Debug` rendering:
/// positions in order, buffer presence, scanner counters, tokens, flags.
pub fn fingerprint(dbg: &str) -> String {
    let mut out = String::new();
    // positions: every "byte: N, page: Page { line: L, column: C }"
    let mut rest = dbg;
    let mut poss = Vec::new();
    while let Some(i) = rest.find("byte: ") {
        rest = &rest[i + 6..];
        let b: String = rest.chars().take_while(|c| c.is_ascii_digit()).collect();
        let li = rest.find("line: ").map(|j| &rest[j + 6..]).unwrap_or("");
        let l: String = li.chars().take_while(|c| c.is_ascii_digit()).collect();
        let ci = rest.find("column: ").map(|j| &rest[j + 8..]).unwrap_or("");
        let c: String = ci.chars().take_while(|c| c.is_ascii_digit()).collect();
        poss.push(format!("{b},{l},{c}"));
    }
    // the last position is the source text's offset: drop it
    poss.pop();
    out.push_str(&poss.join("/"));
    out.push('~');
    out.push_str(if dbg.contains("buffer: None") { "nobuf" } else { "buf" });
    // scanner counters S<n> and tokens T<k>.<t>, in order of appearance
    let mut marks = Vec::new();
    let bytes: Vec<char> = dbg.chars().collect();
    let mut i = 0;
    while i < bytes.len() {
        if (bytes[i] == 'S' || bytes[i] == 'T') && i + 1 < bytes.len() && bytes[i + 1].is_ascii_digit()
            && (i == 0 || !bytes[i - 1].is_alphanumeric())
        {
            let mut j = i + 1;
            while j < bytes.len() && (bytes[j].is_ascii_digit() || bytes[j] == '.') { j += 1; }
            marks.push(bytes[i..j].iter().collect::<String>());
            i = j;
        } else {
            i += 1;
        }
    }
    out.push('~');
    out.push_str(&marks.join("/"));
    out.push('~');
    out.push_str(if dbg.contains("filter: true") { "F1" } else { "F0" });
    out.push_str(if dbg.contains("recover: true") { "R1" } else { "R0" });
    out
}

/// `<number of chars>:<checksum>`, checksum = sum of code point * (index mod 7 + 1), modulo 1000003
/// (lean/TephraModel/LexDisplay.lean `textPrint`).
pub fn text_print(s: &str) -> String {
    let mut n = 0usize;
    let mut acc = 0u64;
    for (i, c) in s.chars().enumerate() {
        acc = (acc + (c as u64) * ((i % 7) as u64 + 1)) % 1_000_003;
        n = i + 1;
    }
    format!("{n}:{acc}")
}

/// `format!("{}", lexer)` (`impl Display for Lexer`); `None`: formatting panicked.
fn display_text(lexer: &Lexer<'_, Sc>) -> Option<String> {
    std::panic::catch_unwind(std::panic::AssertUnwindSafe(|| format!("{}", lexer))).ok()
}

fn state_obs(lexer: &Lexer<'_, Sc>) -> String {
    // the remaining read-only accessors of the lexer, appended after the fingerprint; last, a
    // fingerprint of the lexer's `Display` text
    let more = format!(
        "{};{};{};{};{};{}",
        wire::opt_span(lexer.peek_parse_span()),
        wire::opt_pos(lexer.peek_cursor_pos()),
        wire::b(lexer.is_empty()),
        crate::gen::le_name(lexer.line_ending()),
        lexer.tab_width(),
        display_text(lexer).map_or("panic".to_string(), |s| text_print(&s))
    );
    format!(
        "{}/{}/{}/{}/{}/{}",
        wire::span(lexer.token_span()),
        wire::span(lexer.parse_span()),
        wire::pos(lexer.cursor_pos()),
        wire::opt_span(lexer.peek_token_span()),
        fingerprint(&format!("{:?}", lexer)),
        more
    )
}

fn show_opt_tok(t: Option<Tok>) -> String {
    t.map_or("none".to_string(), |t| show_tok(&t))
}

/// Apply one op to `lexer`, returning its output.
fn apply<'t>(lexer: &mut Lexer<'t, Sc>, op: &Op) -> String {
    match op {
        Op::Next => show_opt_tok(lexer.next()),
        Op::Peek => show_opt_tok(lexer.peek()),
        Op::EmptyQ => wire::b(lexer.is_empty_with_filter()).to_string(),
        Op::NextIf(k) => show_opt_tok(lexer.next_if(|t| t.kind == *k)),
        Op::NextIfEq(k) => show_opt_tok(lexer.next_if_eq(&tok(*k))),
        Op::AdvanceTo(k) => wire::b(lexer.advance_to(|t| t.kind == *k)).to_string(),
        Op::AdvanceUpTo(k) => wire::b(lexer.advance_up_to(|t| t.kind == *k)).to_string(),
        Op::SetFilter(f) => {
            let old = lexer.set_filter(f.map(filter_fn));
            wire::b(old.is_some()).to_string()
        }
        Op::WithFilter(f) => {
            *lexer = lexer.clone().with_filter(f.map(filter_fn));
            "-".to_string()
        }
        Op::StartSublex => {
            lexer.start_sublex();
            "-".to_string()
        }
        Op::IntoSublexer => {
            *lexer = lexer.clone().into_sublexer();
            "-".to_string()
        }
        Op::Spans => "-".to_string(),
        Op::WithLineEnding(le) => {
            *lexer = lexer.clone().with_line_ending(*le);
            "-".to_string()
        }
        Op::WithTabWidth(t) => {
            *lexer = lexer.clone().with_tab_width(*t);
            "-".to_string()
        }
        Op::WithMetrics(le, t) => {
            *lexer = lexer.clone().with_column_metrics(metrics(*le, *t));
            "-".to_string()
        }
        Op::ForkBegin | Op::ForkEnd => "-".to_string(),
    }
}

/// Run a history. Observation: for every op, `output@state` (ops inside a fork
/// act on the clone and show the clone's state; `]` shows the original again).
pub fn run_history(text: &str, m: ColumnMetrics, sc: usize, ops: &[Op]) -> String {
    run_history_with(text, m, sc, ops, &|o, lexer| format!("{}@{}", o, state_obs(lexer)))
}

/// Decoding aid (replay family `lexdisp`, same input fields as `lexops`): for every op the whole
/// `Display` text of the lexer, as dot-separated code points.
pub fn display_history(text: &str, m: ColumnMetrics, sc: usize, ops: &[Op]) -> String {
    run_history_with(text, m, sc, ops, &|_, lexer| {
        display_text(lexer).map_or("panic".to_string(), |s| crate::render::encode(&s))
    })
}

fn run_history_with(text: &str, m: ColumnMetrics, sc: usize, ops: &[Op],
                    show: &dyn Fn(&str, &Lexer<'_, Sc>) -> String) -> String {
    guarded(|| {
        let source = SourceText::new(text).with_column_metrics(m);
        let mut stack: Vec<Lexer<'_, Sc>> = vec![Lexer::new(Sc::new(sc), source)];
        let mut obs = Vec::new();
        for op in ops {
            match op {
                Op::ForkBegin => {
                    let c = stack.last().unwrap().clone();
                    stack.push(c);
                    obs.push(show("-", stack.last().unwrap()));
                }
                Op::ForkEnd => {
                    if stack.len() > 1 { let _ = stack.pop(); }
                    obs.push(show("-", stack.last().unwrap()));
                }
                _ => {
                    let lexer = stack.last_mut().unwrap();
                    let o = apply(lexer, op);
                    obs.push(show(&o, lexer));
                }
            }
        }
        obs.join(" ")
    })
}

/// The projection of a history onto advances and filter changes (fork bodies,
/// lookahead, sub-lex marks and span queries erased).
pub fn project(ops: &[Op]) -> Vec<Op> {
    let mut out = Vec::new();
    let mut depth = 0usize;
    for op in ops {
        match op {
            Op::ForkBegin => depth += 1,
            Op::ForkEnd => depth = depth.saturating_sub(1),
            _ if depth > 0 => {}
            Op::Peek | Op::EmptyQ | Op::StartSublex | Op::IntoSublexer | Op::Spans => {}
            _ => out.push(op.clone()),
        }
    }
    out
}

pub fn lexops_obs(text: &str, m: ColumnMetrics, sc: usize, ops: &[Op]) -> String {
    let full = run_history(text, m, sc, ops);
    let proj = run_history(text, m, sc, &project(ops));
    format!("{}#{}", full, proj)
}

fn random_op(rng: &mut Rng, allow_builders: bool, allow_sublex: bool) -> Op {
    let kinds = [0u32, 3, 4, 12];
    match rng.below(if allow_builders { 16 } else { 13 }) {
        0 | 1 | 2 => Op::Next,
        3 => Op::Peek,
        4 => if rng.chance(1, 3) { Op::EmptyQ } else { Op::Peek },
        5 => Op::NextIf(*rng.pick(&kinds)),
        6 => Op::NextIfEq(*rng.pick(&kinds)),
        7 => Op::AdvanceTo(*rng.pick(&kinds)),
        8 => Op::AdvanceUpTo(*rng.pick(&kinds)),
        9 => Op::SetFilter(if rng.chance(1, 3) { None } else { Some(*rng.pick(&[1u32, 3, 5, 15, 2, 4, 8])) }),
        // the builder form of a filter change, also in the middle of a history
        10 => if rng.chance(1, 2) { Op::WithFilter(if rng.chance(1, 3) { None } else { Some(*rng.pick(&[1u32, 3, 5, 15, 2, 4, 8])) }) }
              else { Op::SetFilter(if rng.chance(1, 3) { None } else { Some(*rng.pick(&[1u32, 3, 5, 15, 2, 4, 8])) }) },
        11 => if allow_sublex { if rng.chance(1, 2) { Op::StartSublex } else { Op::IntoSublexer } } else { Op::Spans },
        12 => Op::Spans,
        13 => Op::WithLineEnding(*rng.pick(LINE_ENDINGS)),
        14 => Op::WithTabWidth(1 + rng.below(8) as u8),
        _ => Op::WithFilter(if rng.chance(1, 3) { None } else { Some(*rng.pick(&[1u32, 3, 5, 15])) }),
    }
}

fn random_history(rng: &mut Rng, max_len: usize, builders_first: bool, allow_sublex: bool) -> Vec<Op> {
    let mut ops = Vec::new();
    if builders_first {
        // every order of the builder calls
        let mut b = vec![
            // (also filters that keep whitespace, and no filter: the eagerly buffered first token
            // may then be a tab or a line break, measured before the metrics builders run)
            Op::WithFilter(if rng.chance(1, 6) { None } else { Some(*rng.pick(&[1u32, 3, 5, 15, 2, 4, 8, 6])) }),
            Op::WithLineEnding(*rng.pick(LINE_ENDINGS)),
            Op::WithTabWidth(1 + rng.below(8) as u8),
            Op::WithMetrics(*rng.pick(LINE_ENDINGS), 1 + rng.below(8) as u8),
        ];
        for i in (1..b.len()).rev() { b.swap(i, rng.below(i + 1)); }
        b.truncate(rng.below(5));
        ops.extend(b);
    }
    // structured stream: filter on, a few advances, a sub-lex mark (with or
    // without a lookahead before it), a filter change, more advances
    if !builders_first && allow_sublex && rng.chance(1, 4) {
        ops.push(if rng.chance(1, 2) { Op::WithFilter(Some(*rng.pick(&[1u32, 3, 5, 15]))) }
                 else { Op::SetFilter(Some(*rng.pick(&[1u32, 3, 5, 15]))) });
        for _ in 0..rng.below(3) { ops.push(random_op(rng, false, false)); }
        if rng.chance(1, 2) { ops.push(Op::Peek); }
        ops.push(if rng.chance(1, 2) { Op::StartSublex } else { Op::IntoSublexer });
        if rng.chance(1, 3) { ops.push(Op::Peek); }
        ops.push(Op::SetFilter(if rng.chance(1, 2) { None } else { Some(*rng.pick(&[1u32, 2, 4, 8])) }));
        for _ in 0..1 + rng.below(3) { ops.push(random_op(rng, false, false)); }
        return ops;
    }
    // structured stream with a metrics builder in the middle: filter on, advances, a lookahead
    // across filtered tokens, a metrics builder (the held positions, the buffered lookahead
    // included, are re-measured), advances
    if !builders_first && !allow_sublex && rng.chance(1, 6) {
        let masks = [1u32, 3, 5, 15];
        ops.push(Op::WithFilter(Some(*rng.pick(&masks))));
        for _ in 0..1 + rng.below(2) { ops.push(Op::Next); }
        if rng.chance(3, 4) { ops.push(Op::Peek); }
        ops.push(match rng.below(3) {
            0 => Op::WithTabWidth(1 + rng.below(8) as u8),
            1 => Op::WithLineEnding(*rng.pick(LINE_ENDINGS)),
            _ => Op::WithMetrics(*rng.pick(LINE_ENDINGS), 1 + rng.below(8) as u8),
        });
        ops.push(Op::Spans);
        for _ in 0..1 + rng.below(3) { ops.push(random_op(rng, false, false)); }
        return ops;
    }
    // structured stream without sub-lex marks: filter on, advances, a lookahead
    // (peek / failed conditional advance / advance_up_to), a filter change, advances
    if !builders_first && !allow_sublex && rng.chance(1, 3) {
        let masks = [1u32, 3, 5, 15, 2, 4, 6, 8];
        ops.push(if rng.chance(1, 2) { Op::WithFilter(Some(*rng.pick(&masks))) } else { Op::SetFilter(Some(*rng.pick(&masks))) });
        for _ in 0..1 + rng.below(2) { ops.push(Op::Next); }
        ops.push(match rng.below(4) { 0 => Op::Peek, 1 => Op::NextIf(*rng.pick(&[0u32, 3, 4, 12])), 2 => Op::NextIfEq(*rng.pick(&[0u32, 3, 4, 12])), _ => Op::AdvanceUpTo(*rng.pick(&[0u32, 3, 4])) });
        if rng.chance(1, 4) { ops.push(Op::ForkBegin); ops.push(random_op(rng, false, false)); ops.push(Op::ForkEnd); }
        ops.push(Op::SetFilter(if rng.chance(1, 2) { None } else { Some(*rng.pick(&masks)) }));
        for _ in 0..1 + rng.below(3) { ops.push(random_op(rng, false, false)); }
        return ops;
    }
    let n = rng.below(max_len + 1);
    let mut depth = 0;
    for _ in 0..n {
        if rng.chance(1, 8) && depth == 0 {
            ops.push(Op::ForkBegin);
            depth += 1;
        } else if depth > 0 && rng.chance(1, 3) {
            ops.push(Op::ForkEnd);
            depth -= 1;
        } else {
            ops.push(random_op(rng, false, allow_sublex));
        }
    }
    while depth > 0 { ops.push(Op::ForkEnd); depth -= 1; }
    ops
}

fn lexops_case(out: &mut Out, text: &str, le: LineEnding, tab: u8, sc: usize, ops: &[Op]) {
    let m = metrics(le, tab);
    out.case(
        "lexops",
        &[wire::text(text), le_name(le).to_string(), tab.to_string(), sc.to_string(), show_ops(ops)],
        || lexops_obs(text, m, sc, ops),
    );
}

pub fn lexops(out: &mut Out, tier: &Tier, rng: &mut Rng) {
    // exhaustive short histories over a small op alphabet on short texts
    let base_ops = [
        Op::Next, Op::Peek, Op::EmptyQ, Op::NextIf(0), Op::AdvanceUpTo(4), Op::AdvanceTo(4),
        Op::SetFilter(Some(1)), Op::SetFilter(None), Op::StartSublex, Op::Spans,
    ];
    let hl = if tier.thorough { 4 } else { 3 };
    let texts: Vec<String> = all_texts_up_to(&['a', ' ', ',', '#'], if tier.thorough { 4 } else { 3 });
    let mut hist: Vec<Vec<Op>> = vec![vec![]];
    for _ in 0..hl {
        let mut next = Vec::new();
        for h in &hist {
            for op in &base_ops {
                let mut h2 = h.clone();
                h2.push(op.clone());
                next.push(h2);
            }
        }
        hist = next;
    }
    for (ti, text) in texts.iter().enumerate() {
        for (hi, h) in hist.iter().enumerate() {
            // full product is large: take a deterministic slice per text in the quick tier
            if !tier.thorough && (hi + ti) % 4 != 0 { continue; }
            lexops_case(out, text, LineEnding::Lf, 4, 1, h);
        }
    }
    let extra = if tier.thorough { 150000 } else { 24000 };
    for i in 0..extra {
        let text = random_text(rng, LEX_ALPHABET, 8);
        let le = *rng.pick(LINE_ENDINGS);
        let tab = 1 + rng.below(8) as u8;
        let h = random_history(rng, 9, i % 3 == 0, i % 2 == 0);
        // builder-order histories: half of the texts begin with metrics-sensitive characters
        let text = if i % 3 == 0 && rng.chance(1, 2) {
            format!("{}{}", rng.pick(&["\t", "\r", "\n", "\r\n", "\t\t", "\r\r"]), text)
        } else { text };
        lexops_case(out, &text, le, tab, 1 + 2 * rng.below(4), &h);
    }
}

pub fn replay(family: &str, f: &[&str]) -> Option<String> {
    match family {
        "lexiter" => {
            let m = metrics(wire::parse_le(f[1]), f[2].parse().ok()?);
            Some(lexiter_obs(&wire::parse_text(f[0]), m, f[3].parse().ok()?, parse_filter(f[4])))
        }
        "lexops" => {
            let m = metrics(wire::parse_le(f[1]), f[2].parse().ok()?);
            Some(lexops_obs(&wire::parse_text(f[0]), m, f[3].parse().ok()?, &parse_ops(f[4])))
        }
        "lexdisp" => {
            let m = metrics(wire::parse_le(f[1]), f[2].parse().ok()?);
            Some(display_history(&wire::parse_text(f[0]), m, f[3].parse().ok()?, &parse_ops(f[4])))
        }
        _ => None,
    }
}
