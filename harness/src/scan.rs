//! The harness scanners (DESIGN §5): one token per symbol, maximal whitespace
//! runs, `#` rejected; optionally stateful (tokens carry the number of scans
//! that preceded them) and/or with a two-character token `aa` (maximal munch).
//! Implemented a second time in lean/TephraModel/Scan.lean.

use tephra::Scanner;
use tephra_span::{Pos, SourceTextRef};

pub const K_WS: u32 = 12;
pub const K_AA: u32 = 13;
pub const K_HASH: u32 = 14;

/// A token: `kind` decides equality (what the combinators compare); `tag` is the
/// number of successful scans that preceded the one producing it (stateful
/// scanners only, else 0) and is only ever observed, never compared.
#[derive(Clone, Copy)]
pub struct Tok {
    pub kind: u32,
    pub tag: u32,
}

impl PartialEq for Tok {
    fn eq(&self, other: &Self) -> bool {
        self.kind == other.kind
    }
}

impl std::fmt::Debug for Tok {
    fn fmt(&self, f: &mut std::fmt::Formatter<'_>) -> std::fmt::Result {
        write!(f, "T{}.{}", self.kind, self.tag)
    }
}

impl std::fmt::Display for Tok {
    fn fmt(&self, f: &mut std::fmt::Formatter<'_>) -> std::fmt::Result {
        write!(f, "{}", kind_name(self.kind))
    }
}

pub fn tok(kind: u32) -> Tok {
    Tok { kind, tag: 0 }
}

pub fn kind_name(kind: u32) -> String {
    match kind {
        0 => "a".into(),
        1 => "b".into(),
        2 => "c".into(),
        3 => "d".into(),
        4 => ",".into(),
        5 => ";".into(),
        6 => "(".into(),
        7 => ")".into(),
        8 => "[".into(),
        9 => "]".into(),
        10 => "{".into(),
        11 => "}".into(),
        12 => "ws".into(),
        13 => "aa".into(),
        14 => "#".into(),
        k => format!("other{}", k - 100),
    }
}

pub fn is_ws(c: char) -> bool {
    c == ' ' || c == '\t' || c == '\r' || c == '\n'
}

/// `None`: rejected by the scanner.
pub fn kind_of(c: char) -> Option<u32> {
    Some(match c {
        'a' => 0,
        'b' => 1,
        'c' => 2,
        'd' => 3,
        ',' => 4,
        ';' => 5,
        '(' => 6,
        ')' => 7,
        '[' => 8,
        ']' => 9,
        '{' => 10,
        '}' => 11,
        '#' => return None,
        c if is_ws(c) => K_WS,
        c => 100 + c as u32,
    })
}

/// Token classes for filters: a filter id is a 4-bit mask of *rejected* classes.
pub fn class_of(kind: u32) -> u32 {
    match kind {
        12 => 0,      // whitespace
        4 | 5 => 1,   // separators
        3 => 2,       // the letter d
        k if k >= 100 => 3, // other
        _ => 4,       // never rejected
    }
}

pub fn passes(mask: u32, t: &Tok) -> bool {
    let c = class_of(t.kind);
    c >= 4 || (mask >> c) & 1 == 0
}

#[derive(Clone, PartialEq)]
pub struct Sc {
    pub stateful: bool,
    pub munch: bool,
    /// state-dependent tokenization: `#` is a token, but only at the start of a
    /// line (the previous token was whitespace containing a line feed, or there
    /// was none); elsewhere it is rejected
    pub hash: bool,
    pub count: u32,
    pub at_line_start: bool,
    /// total number of `scan` calls made on this object and its ancestors (for C02).
    pub calls: std::rc::Rc<std::cell::Cell<u64>>,
}

impl std::fmt::Debug for Sc {
    fn fmt(&self, f: &mut std::fmt::Formatter<'_>) -> std::fmt::Result {
        write!(f, "S{}", self.count * 2 + self.at_line_start as u32)
    }
}

impl Sc {
    pub fn new(id: usize) -> Self {
        Sc { stateful: id & 1 == 1, munch: id & 2 == 2, hash: id & 4 == 4, count: 0, at_line_start: true,
             calls: Default::default() }
    }
}

impl Scanner for Sc {
    type Token = Tok;

    fn scan(&mut self, source: SourceTextRef<'_>, base: Pos) -> Option<(Tok, Pos)> {
        self.calls.set(self.calls.get() + 1);
        let text = source.as_str();
        let c = text[base.byte..].chars().next()?;
        let kind = if self.hash && c == '#' {
            if self.at_line_start { K_HASH } else { return None; }
        } else {
            kind_of(c)?
        };
        let (kind, adv) = if kind == K_WS {
            (K_WS, source.position_after_chars_matching(base, is_ws)?)
        } else if self.munch && c == 'a' && text[base.byte..].starts_with("aa") {
            (K_AA, source.position_after_str(base, "aa")?)
        } else {
            (kind, source.next_position(base)?)
        };
        let tag = if self.stateful { self.count } else { 0 };
        self.count += 1;
        self.at_line_start = kind == K_WS && text[base.byte..adv.byte].contains('\n');
        Some((Tok { kind, tag }, adv))
    }
}
