//! Correspondence / oracle harness: runs the real tephra crates (path
//! dependencies on /repo, i.e. the current working tree) on generated cases and
//! prints one line per case: family, input fields, canonicalised observation.
//!
//! usage: tephra-harness <family> <quick|thorough> <seed> [shard shards [start_at]]
//!        tephra-harness replay        (case lines on stdin; observations recomputed)

mod gen;
mod wire;
mod l0;
mod scan;
mod lex;
mod grammar;
mod run;
mod render;
mod rendergen;

fn main() {
    let args: Vec<String> = std::env::args().collect();
    // Panics are observations here, not noise.
    if std::env::var("HARNESS_PANIC_MSG").is_err() { std::panic::set_hook(Box::new(|_| {})); }
    if args.len() >= 2 && args[1] == "replay" {
        replay();
        return;
    }
    if args.len() < 4 {
        eprintln!("usage: {} <family> <quick|thorough> <seed> [shard shards [start_at]]", args[0]);
        std::process::exit(2);
    }
    let family = args[1].as_str();
    let tier = l0::Tier { thorough: args[2] == "thorough" };
    let seed: u64 = args[3].parse().unwrap_or(1);
    let shard: usize = args.get(4).and_then(|s| s.parse().ok()).unwrap_or(0);
    let shards: usize = args.get(5).and_then(|s| s.parse().ok()).unwrap_or(1);
    let mut rng = gen::Rng::new(seed ^ fam_salt(family));
    let start_at: usize = args.get(6).and_then(|s| s.parse().ok()).unwrap_or(0);
    let mut out = wire::Out::new(shard, shards, start_at);
    match family {
        "spanops" => l0::spanops(&mut out, &tier, &mut rng),
        "nav" => l0::nav(&mut out, &tier, &mut rng),
        "lines" => l0::lines(&mut out, &tier, &mut rng),
        "window" => l0::window(&mut out, &tier, &mut rng),
        "lexiter" => lex::lexiter(&mut out, &tier, &mut rng),
        "lexops" => lex::lexops(&mut out, &tier, &mut rng),
        "render" => rendergen::render(&mut out, &tier, &mut rng),
        "peg" | "rep" | "capture" | "errors" | "bracket" | "list" | "recover" | "twice" | "scoped" | "ctxops"
        | "term" | "nopanic" => run::family(&mut out, family, &tier, &mut rng),
        _ => {
            eprintln!("unknown family {family}");
            std::process::exit(2);
        }
    }
    out.flush();
}

/// Replays case lines from stdin.  Like generation it runs under a watchdog: a case that takes
/// longer than `wire::TIMEOUT_MS` is answered with the observation `timeout`, and the process exits
/// with status 3 after printing `RESUME <next line index>` on stderr (`replay <n>` skips n lines).
fn replay() {
    use std::io::BufRead;
    let start_at: usize = std::env::args().nth(2).and_then(|s| s.parse().ok()).unwrap_or(0);
    let pending: std::sync::Arc<std::sync::Mutex<Option<(String, std::time::Instant, usize)>>> = Default::default();
    {
        let pending = pending.clone();
        std::thread::spawn(move || loop {
            std::thread::sleep(std::time::Duration::from_millis(200));
            let g = pending.lock().unwrap();
            if let Some((header, t0, idx)) = g.as_ref() {
                if t0.elapsed().as_millis() as u64 > wire::TIMEOUT_MS {
                    use std::io::Write;
                    println!("{header}\ttimeout");
                    let _ = std::io::stdout().flush();
                    eprintln!("RESUME {}", idx + 1);
                    std::process::exit(3);
                }
            }
        });
    }
    let stdin = std::io::stdin();
    for (idx, line) in stdin.lock().lines().enumerate() {
        let line = match line { Ok(l) => l, Err(_) => break };
        if idx < start_at { continue; }
        let parts: Vec<&str> = line.split('\t').collect();
        if parts.len() < 2 { continue; }
        let family = parts[0];
        // the last field is the recorded observation; everything between is input
        let fields = &parts[1..parts.len() - 1];
        {
            let mut header = String::from(family);
            for f in fields { header.push('\t'); header.push_str(f); }
            *pending.lock().unwrap() = Some((header, std::time::Instant::now(), idx));
        }
        let obs = std::panic::catch_unwind(|| l0::replay(family, fields).or_else(|| lex::replay(family, fields)).or_else(|| run::replay(family, fields)).or_else(|| rendergen::replay(family, fields)))
            .ok()
            .flatten()
            .unwrap_or_else(|| "unreplayable".to_string());
        let mut out = String::from(family);
        for f in fields { out.push('\t'); out.push_str(f); }
        out.push('\t');
        out.push_str(&obs);
        *pending.lock().unwrap() = None;
        println!("{out}");
    }
}

fn fam_salt(f: &str) -> u64 {
    f.bytes().fold(0xcbf2_9ce4_8422_2325u64, |h, b| (h ^ b as u64).wrapping_mul(0x100_0000_01b3))
}
