//! Families over the span crate: `spanops` (C17), `nav` (C19, C03), `lines`
//! (C18), `window` (C20).

use crate::gen::*;
use crate::wire::{self, guarded, Out};
use tephra_span::{ColumnMetrics, LineEnding, Pos, SourceText, Span};

pub struct Tier {
    pub thorough: bool,
}

fn all_spans(ps: &[Pos]) -> Vec<Span> {
    let mut out = Vec::new();
    for i in 0..ps.len() {
        for j in i..ps.len() {
            out.push(Span::enclosing(ps[i], ps[j]));
        }
    }
    out
}

////////////////////////////////////////////////////////////////////////////////
// spanops
////////////////////////////////////////////////////////////////////////////////

pub fn spanops_obs(x: Span, y: Span) -> String {
    guarded(|| {
        [
            wire::span(x.enclose(y)),
            wire::opt_span(x.intersect(y)),
            wire::spans(x.union(y)),
            wire::spans(x.minus(y)),
            wire::b(x.contains(&y.start())).to_string(),
            wire::b(x.contains(&y.end())).to_string(),
            wire::b(x.intersects(y)).to_string(),
            wire::b(x.adjacent(y)).to_string(),
        ]
        .join("|")
    })
}

pub fn spanops(out: &mut Out, tier: &Tier, rng: &mut Rng) {
    let (alpha, n): (&[char], usize) = if tier.thorough { (&['a', '\n', '\t'], 6) } else { (&['a', '\n'], 5) };
    let mut texts = all_texts(alpha, n);
    // a few fixed mixed texts (tabs, wide chars, CRLF)
    texts.push("a\tb\n世c".to_string());
    texts.push("\n \n\n \nabcd".to_string());
    for text in &texts {
        let m = metrics(LineEnding::Lf, 4);
        let ps = positions(text, m);
        let sp = all_spans(&ps);
        for x in &sp {
            for y in &sp {
                out.case("spanops", &[wire::span(*x), wire::span(*y)], || spanops_obs(*x, *y));
            }
        }
    }
    // random: positions of a random longer text
    let extra = if tier.thorough { 20000 } else { 2000 };
    for _ in 0..extra {
        let text = random_text(rng, ALPHABET, 12);
        let le = *rng.pick(LINE_ENDINGS);
        let m = metrics(le, 1 + rng.below(8) as u8);
        let ps = positions(&text, m);
        let pick = |rng: &mut Rng| ps[rng.below(ps.len())];
        let x = Span::enclosing(pick(rng), pick(rng));
        let y = Span::enclosing(pick(rng), pick(rng));
        out.case("spanops", &[wire::span(x), wire::span(y)], || spanops_obs(x, y));
    }
}

////////////////////////////////////////////////////////////////////////////////
// nav
////////////////////////////////////////////////////////////////////////////////

/// Character-class predicates shared with the Lean driver (by id).
pub fn class_pred(id: usize) -> impl Fn(char) -> bool + Copy {
    move |c: char| match id {
        0 => c == 'a' || c == 'b' || c == 'c' || c == 'd',
        1 => c == ' ' || c == '\t' || c == '\r' || c == '\n',
        2 => true,
        3 => (c as u32) >= 128,
        // predicates that tell the two halves of a CRLF apart
        4 => c != '\n',
        5 => c != '\r',
        6 => c == '\r' || c == 'a',
        7 => c == '\n' || c == '\t',
        _ => false,
    }
}

pub fn nav_obs(text: &str, m: ColumnMetrics, p: Pos, pat: &str, pred: usize) -> String {
    let f = class_pred(pred);
    [
        guarded(|| wire::opt_pos(m.next_position(text, p))),
        guarded(|| wire::opt_pos(m.previous_position(text, p))),
        guarded(|| wire::pos(m.line_start_position(text, p))),
        guarded(|| wire::pos(m.line_end_position(text, p))),
        guarded(|| wire::opt_pos(m.previous_line_end_position(text, p))),
        guarded(|| wire::opt_pos(m.next_line_start_position(text, p))),
        guarded(|| wire::pos(m.start_position(text, p))),
        guarded(|| wire::pos(m.end_position(text, p))),
        guarded(|| wire::opt_pos(m.position_after_str(text, p, pat))),
        guarded(|| wire::opt_pos(m.position_after_chars_matching(text, p, f))),
        guarded(|| wire::opt_pos(m.next_position_after_chars_matching(text, p, f))),
        guarded(|| wire::b(m.is_line_break(text, p.byte)).to_string()),
        // `SourceText::iter_columns`: the positions after each column step from `p` (first 12)
        guarded(|| {
            let source = tephra_span::SourceText::new(text).with_column_metrics(m);
            let v: Vec<String> = source.iter_columns(p).take(12)
                .map(|(s, q)| format!("{}:{}", s.len(), wire::pos(q).replace(',', ".")))
                .collect();
            format!("[{}]", v.join(";"))
        }),
    ]
    .join("|")
}

fn nav_case(out: &mut Out, text: &str, le: LineEnding, tab: u8, p: Pos, pat: &str, pred: usize) {
    let m = metrics(le, tab);
    out.case(
        "nav",
        &[
            wire::text(text),
            le_name(le).to_string(),
            tab.to_string(),
            wire::pos(p),
            wire::text(pat),
            pred.to_string(),
        ],
        || nav_obs(text, m, p, pat, pred),
    );
}

pub fn nav(out: &mut Out, tier: &Tier, rng: &mut Rng) {
    // exhaustive part: all texts up to L over the reduced alphabet x 3 endings x
    // a few tab widths x every aligned base; pattern = a prefix-ish of the rest
    // or a random short one.
    let l = if tier.thorough { 5 } else { 4 };
    let alpha: &[char] = if tier.thorough { POS_ALPHABET } else { &['a', '\t', '\r', '\n', 'é'] };
    let tabs: &[u8] = if tier.thorough { &[1, 2, 3, 4, 8, 9] } else { &[1, 4] };
    for text in all_texts_up_to(alpha, l) {
        for &le in LINE_ENDINGS {
            for &tab in tabs {
                let m = metrics(le, tab);
                for p in positions(&text, m) {
                    // patterns: the next 0..3 chars of the text at p, and a mutation
                    let rest: Vec<char> = text[p.byte..].chars().collect();
                    let k = rng.below(4).min(rest.len());
                    let mut pat: String = rest[..k].iter().collect();
                    if rng.chance(1, 4) {
                        pat.push(*rng.pick(alpha));
                    }
                    if rng.chance(1, 8) && !pat.is_empty() {
                        pat.remove(0);
                    }
                    nav_case(out, &text, le, tab, p, &pat, rng.below(8));
                }
            }
        }
    }
    let extra = if tier.thorough { 60000 } else { 12000 };
    for _ in 0..extra {
        let text = random_text(rng, ALPHABET, 14);
        let le = *rng.pick(LINE_ENDINGS);
        let tab = 1 + rng.below(9) as u8;
        let m = metrics(le, tab);
        let ps = positions(&text, m);
        let p = ps[rng.below(ps.len())];
        let rest: Vec<char> = text[p.byte..].chars().collect();
        let k = rng.below(4).min(rest.len());
        let mut pat: String = rest[..k].iter().collect();
        match rng.below(6) {
            0 => pat.push(*rng.pick(ALPHABET)),
            1 => pat = random_text(rng, ALPHABET, 3),
            2 => pat.clear(),
            _ => {}
        }
        nav_case(out, &text, le, tab, p, &pat, rng.below(8));
    }
}

////////////////////////////////////////////////////////////////////////////////
// lines
////////////////////////////////////////////////////////////////////////////////

pub fn lines_obs(text: &str, m: ColumnMetrics, sp: Span) -> String {
    let src = SourceText::new(text).with_column_metrics(m);
    let widen = guarded(|| wire::span(sp.widen_to_line(src)));
    let split = guarded(|| {
        let mut it = sp.split_lines(src);
        let mut parts = Vec::new();
        let mut guard = 0;
        loop {
            let l = it.len();
            match it.next() {
                Some(piece) => parts.push(format!("{}:{}", l, wire::span(piece))),
                None => break,
            }
            guard += 1;
            if guard > text.len() + 4 { break; }
        }
        format!("[{}]|{}", parts.join(";"), it.len())
    });
    format!("{}|{}", widen, split)
}

pub fn lines(out: &mut Out, tier: &Tier, rng: &mut Rng) {
    let l = if tier.thorough { 6 } else { 4 };
    let alpha: &[char] = &['a', ' ', '\t', 'é', '\r', '\n'];
    let alpha_q: &[char] = &['a', '\t', 'é', '\r', '\n'];
    let texts = all_texts_up_to(if tier.thorough { alpha } else { alpha_q }, l);
    for text in &texts {
        for &le in LINE_ENDINGS {
            let m = metrics(le, 4);
            let ps = positions(text, m);
            for sp in all_spans(&ps) {
                out.case(
                    "lines",
                    &[wire::text(text), le_name(le).to_string(), "4".to_string(), wire::span(sp)],
                    || lines_obs(text, m, sp),
                );
            }
        }
    }
    let extra = if tier.thorough { 40000 } else { 8000 };
    for _ in 0..extra {
        let text = random_text(rng, ALPHABET, 16);
        let le = *rng.pick(LINE_ENDINGS);
        let tab = 1 + rng.below(9) as u8;
        let m = metrics(le, tab);
        let ps = positions(&text, m);
        let sp = Span::enclosing(ps[rng.below(ps.len())], ps[rng.below(ps.len())]);
        out.case(
            "lines",
            &[wire::text(&text), le_name(le).to_string(), tab.to_string(), wire::span(sp)],
            || lines_obs(&text, m, sp),
        );
    }
}

////////////////////////////////////////////////////////////////////////////////
// window
////////////////////////////////////////////////////////////////////////////////

fn window_obs_of(win: SourceText<&str>, p: Pos, sub: Span) -> String {
    [
        guarded(|| wire::codes(win.as_str())),
        guarded(|| wire::pos(win.start_position())),
        guarded(|| wire::pos(win.end_position())),
        guarded(|| wire::span(win.full_span())),
        guarded(|| wire::opt_pos(win.next_position(p))),
        guarded(|| wire::opt_pos(win.previous_position(p))),
        guarded(|| wire::pos(win.line_start_position(p))),
        guarded(|| wire::pos(win.line_end_position(p))),
        guarded(|| wire::opt_pos(win.previous_line_end_position(p))),
        guarded(|| wire::opt_pos(win.next_line_start_position(p))),
        guarded(|| wire::span(sub.widen_to_line(win))),
        guarded(|| wire::spans(sub.split_lines(win).take(64))),
    ]
    .join("|")
}

/// `outer`: the window is cut out of an intermediate source that itself does not start at the
/// origin: `('c', o)` = the window `parent.clipped(o)`, `('s', o)` = a source built over the bytes of
/// `o` with `with_start_position(o.start())`.
pub fn window_obs(text: &str, m: ColumnMetrics, w: Span, p: Pos, sub: Span, outer: Option<(char, Span)>) -> String {
    let parent = SourceText::new(text).with_column_metrics(m).with_name("src");
    let r = std::panic::catch_unwind(|| {
        let mid;
        let win = match outer {
            None => parent.clipped(w),
            Some(('c', o)) => { mid = parent.clipped(o); mid.clipped(w) }
            Some((_, o)) => {
                mid = SourceText::new(&text[o.start().byte..o.end().byte])
                    .with_column_metrics(m)
                    .with_name("src")
                    .with_start_position(o.start());
                mid.clipped(w)
            }
        };
        let a = window_obs_of(win, p, sub);
        // owned round trip: every result must be the same
        let owned = win.to_owned();
        let back = owned.borrow();
        let b = window_obs_of(back, p, sub);
        let same = a == b
            && back.name() == win.name()
            && back.column_metrics() == win.column_metrics()
            && back.start_position() == win.start_position();
        format!("{}|{}", a, wire::b(same))
    });
    r.unwrap_or_else(|_| "panic".to_string())
}

pub fn window(out: &mut Out, tier: &Tier, rng: &mut Rng) {
    let l = if tier.thorough { 5 } else { 4 };
    let alpha: &[char] = &['a', '\t', 'é', '\r', '\n'];
    let mut emit = |text: &str, le: LineEnding, tab: u8, rng: &mut Rng, all: bool| {
        let m = metrics(le, tab);
        let ps = positions(text, m);
        for i in 0..ps.len() {
            for j in i..ps.len() {
                if !all && !rng.chance(1, 3) { continue; }
                let w = Span::enclosing(ps[i], ps[j]);
                for k in i..=j {
                    let p = ps[k];
                    let k2 = k + rng.below(j - k + 1);
                    let sub = Span::enclosing(p, ps[k2]);
                    out.case(
                        "window",
                        &[
                            wire::text(text),
                            le_name(le).to_string(),
                            tab.to_string(),
                            wire::span(w),
                            wire::pos(p),
                            wire::span(sub),
                        ],
                        || window_obs(text, m, w, p, sub, None),
                    );
                    // a third of the cases again, with the window cut out of an enclosing window (or out
                    // of a source that starts at a non-zero position)
                    if rng.chance(1, 3) {
                        let o = Span::enclosing(ps[rng.below(i + 1)], ps[j + rng.below(ps.len() - j)]);
                        let route = if rng.chance(1, 2) { 'c' } else { 's' };
                        out.case(
                            "window",
                            &[
                                wire::text(text),
                                le_name(le).to_string(),
                                tab.to_string(),
                                wire::span(w),
                                wire::pos(p),
                                wire::span(sub),
                                format!("{}{}", route, wire::span(o)),
                            ],
                            || window_obs(text, m, w, p, sub, Some((route, o))),
                        );
                    }
                }
            }
        }
    };
    for text in all_texts_up_to(alpha, l) {
        for &le in LINE_ENDINGS {
            emit(&text, le, 4, rng, true);
        }
    }
    let extra = if tier.thorough { 3000 } else { 200 };
    for _ in 0..extra {
        let text = random_text(rng, ALPHABET, 10);
        let le = *rng.pick(LINE_ENDINGS);
        let tab = 1 + rng.below(9) as u8;
        emit(&text, le, tab, rng, false);
    }
}

////////////////////////////////////////////////////////////////////////////////
// replay
////////////////////////////////////////////////////////////////////////////////

/// Recompute the observation of one case from its input fields.
pub fn replay(family: &str, f: &[&str]) -> Option<String> {
    use crate::wire::*;
    match family {
        "spanops" => Some(spanops_obs(parse_span(f[0]), parse_span(f[1]))),
        "nav" => {
            let m = metrics(parse_le(f[1]), f[2].parse().ok()?);
            Some(nav_obs(&parse_text(f[0]), m, parse_pos(f[3]), &parse_text(f[4]), f[5].parse().ok()?))
        }
        "lines" => {
            let m = metrics(parse_le(f[1]), f[2].parse().ok()?);
            Some(lines_obs(&parse_text(f[0]), m, parse_span(f[3])))
        }
        "window" => {
            let m = metrics(parse_le(f[1]), f[2].parse().ok()?);
            let outer = if f.len() > 6 && (f[6].starts_with('c') || f[6].starts_with('s')) {
                Some((f[6].chars().next()?, parse_span(&f[6][1..])))
            } else { None };
            Some(window_obs(&parse_text(f[0]), m, parse_span(f[3]), parse_pos(f[4]), parse_span(f[5]), outer))
        }
        _ => None,
    }
}
