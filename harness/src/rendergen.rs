//! Generator and replay for the `render` family (C16).

use crate::gen::*;
use crate::l0::Tier;
use crate::render::*;
use crate::wire::{self, Out};
use tephra_span::{LineEnding, Pos, Span};

fn spans_of(ps: &[Pos], rng: &mut Rng, n: usize) -> Vec<Span> {
    (0..n).map(|_| Span::enclosing(ps[rng.below(ps.len())], ps[rng.below(ps.len())])).collect()
}

fn emit(out: &mut Out, c: &RenderCase) {
    let fields = case_fields(c, wire::text(&c.text), le_name(c.le));
    out.case("render", &fields, || render_obs(c));
}

fn line_break(le: LineEnding) -> &'static str {
    match le { LineEnding::Lf => "\n", LineEnding::Cr => "\r", LineEnding::CrLf => "\r\n" }
}

pub fn render(out: &mut Out, tier: &Tier, rng: &mut Rng) {
    // (a) small texts, exhaustively: every display span x every single highlight
    let small: Vec<String> = all_texts_up_to(&['a', '\t', '\n', 'é', '\u{301}'], if tier.thorough { 4 } else { 3 });
    for text in &small {
        for &le in &[LineEnding::Lf] {
            let m = metrics(le, 4);
            let ps = positions(text, m);
            for i in 0..ps.len() {
                for j in i..ps.len() {
                    let disp = Span::enclosing(ps[i], ps[j]);
                    for a in i..=j {
                        for b in a..=j {
                            if !tier.thorough && rng.chance(1, 2) { continue; }
                            let c = RenderCase { text: text.clone(), le, tab: 4, named: false, color: rng.chance(1, 2), mtype: 1,
                                displays: vec![(disp, vec![(Span::enclosing(ps[a], ps[b]), 1 + rng.below(4))])] };
                            emit(out, &c);
                        }
                    }
                }
            }
        }
    }
    // (b) multi-line samples with 1-3 highlights, all line endings
    let n = if tier.thorough { 40000 } else { 8000 };
    for _ in 0..n {
        let le = *rng.pick(LINE_ENDINGS);
        let nlines = 1 + rng.below(5);
        let mut text = String::new();
        for l in 0..nlines {
            let len = rng.below(5);
            for _ in 0..len { text.push(*rng.pick(&['a', 'b', ' ', '\t', 'é', '世', 'a', 'b', '\u{301}', '\u{200B}', '\r'])); }
            if l + 1 < nlines || rng.chance(1, 4) { text.push_str(line_break(le)); }
        }
        let tab = 1 + rng.below(8) as u8;
        let m = metrics(le, tab);
        let ps = positions(&text, m);
        let ndisp = 1 + rng.below(2);
        let mut displays = Vec::new();
        for _ in 0..ndisp {
            let disp = Span::enclosing(ps[rng.below(ps.len())], ps[rng.below(ps.len())]);
            let nh = rng.below(4);
            let hls: Vec<(Span, usize)> = spans_of(&ps, rng, nh).into_iter().map(|s| (s, rng.below(5))).collect();
            displays.push((disp, hls));
        }
        let c = RenderCase { text, le, tab, named: rng.chance(1, 2), color: rng.chance(1, 2), mtype: 1, displays };
        emit(out, &c);
    }
    // (c) long documents reaching line numbers 9/10/11, 99/100/101, 999/1000
    let targets: &[usize] = if tier.thorough { &[8, 9, 10, 11, 12, 98, 99, 100, 101, 102, 998, 999, 1000, 1001] } else { &[9, 10, 11, 99, 100, 101, 1000] };
    for &last in targets {
        for &le in LINE_ENDINGS {
            let mut text = String::new();
            for l in 0..=last {
                text.push_str(if l % 3 == 0 { "ab" } else { "c\td" });
                if l < last { text.push_str(line_break(le)); }
            }
            let m = metrics(le, 4);
            let ps = positions(&text, m);
            // spans among the positions of the last three lines
            let tail: Vec<Pos> = ps.iter().copied().filter(|p| p.page.line + 3 > last).collect();
            for k in 0..(if tier.thorough { 12 } else { 4 }) {
                let disp = Span::enclosing(tail[rng.below(tail.len())], tail[rng.below(tail.len())]);
                let hls: Vec<(Span, usize)> = spans_of(&tail, rng, 1 + k % 3).into_iter().map(|s| (s, 1)).collect();
                let c = RenderCase { text: text.clone(), le, tab: 4, named: k % 2 == 0, color: k % 3 == 0, mtype: 1, displays: vec![(disp, hls)] };
                emit(out, &c);
            }
        }
    }
}

pub fn replay(family: &str, f: &[&str]) -> Option<String> {
    if family != "render" { return None; }
    let c = parse_case(f, wire::parse_text(f[0]), wire::parse_le(f[1]))?;
    Some(render_obs(&c))
}
