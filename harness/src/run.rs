//! Running grammar cases against the real combinators, and the generators of
//! the grammar-level families (peg, rep, capture, errors, bracket, list,
//! recover, twice, scoped, ctxops, term, nopanic).

use crate::gen::*;
use crate::grammar::*;
use crate::l0::Tier;
use crate::lex::{parse_filter, show_filter};
use crate::wire::{self, Out};
use std::cell::RefCell;
use std::rc::Rc;
use tephra::Context;
use tephra_span::{LineEnding, SourceText};

#[derive(Clone, Debug)]
pub struct Case {
    pub text: String,
    pub le: LineEnding,
    pub tab: u8,
    pub sc: usize,
    pub filter: Option<u32>,
    pub sink: bool,
    /// number of error transforms pushed on the initial context (tags 90, 91, ..)
    pub nctx: usize,
    /// how many times the same compiled parser object is invoked in sequence
    pub invocations: usize,
    pub g: G,
}

pub fn case_fields(c: &Case) -> Vec<String> {
    vec![
        wire::text(&c.text),
        le_name(c.le).to_string(),
        c.tab.to_string(),
        c.sc.to_string(),
        show_filter(c.filter),
        wire::b(c.sink).to_string(),
        c.nctx.to_string(),
        c.invocations.to_string(),
        show_g(&c.g),
    ]
}

pub fn parse_case(f: &[&str]) -> Option<Case> {
    Some(Case {
        text: wire::parse_text(f[0]),
        le: wire::parse_le(f[1]),
        tab: f[2].parse().ok()?,
        sc: f[3].parse().ok()?,
        filter: parse_filter(f[4]),
        sink: f[5] == "1",
        nctx: f[6].parse().ok()?,
        invocations: f[7].parse().ok()?,
        g: parse_g(f[8])?,
    })
}

/// Observation of one case: results of each invocation, sink log, probe log,
/// number of report renderings that panicked, and the plain rendering of the
/// source report of the first returned error (`report=`, `-` if there is none) and
/// of the first error the sink received (`sinkreport=`).  After a failed invocation the
/// next one starts again from the lexer the failed one was given.
pub fn run_case(c: &Case) -> String {
    wire::guarded(|| run_case_inner(c))
}

/// `twice` (C08): the same case under `Context::empty()` and under a sink.
pub fn run_case_twice(c: &Case) -> String {
    let mut a = c.clone();
    a.sink = false;
    let mut b = c.clone();
    b.sink = true;
    format!("{}#{}", run_case(&a), run_case(&b))
}

fn run_case_inner(c: &Case) -> String {
    let m = metrics(c.le, c.tab);
    let source = SourceText::new(c.text.as_str()).with_column_metrics(m);
    let sink_log: Rc<RefCell<Vec<String>>> = Default::default();
    let render_panics: Rc<RefCell<usize>> = Default::default();
    let sink_report: Rc<RefCell<Option<String>>> = Default::default();
    let env = Env { source, probes: Default::default(), render_panics: Rc::clone(&render_panics) };
    let mut ctx = if c.sink {
        let log = Rc::clone(&sink_log);
        let rp = Rc::clone(&render_panics);
        let sr = Rc::clone(&sink_report);
        Context::new(Some(Box::new(move |e| {
            let e = take_report(&mut sr.borrow_mut(), e, source);
            let (d, p) = describe(e, source);
            if p { *rp.borrow_mut() += 1; }
            log.borrow_mut().push(d);
        })))
    } else {
        Context::empty()
    };
    for i in 0..c.nctx {
        ctx.push(tag_transform(90 + i as u32));
    }
    let mut parser = build(&c.g, &env);
    let mut lexer = initial_lexer(source, c.sc, c.filter);
    let mut results = Vec::new();
    let mut report: Option<String> = None;
    for _ in 0..c.invocations.max(1) {
        match parser(lexer.clone(), ctx.clone()) {
            Ok(succ) => {
                // formatting any reachable lexer state must not panic (C01)
                let l2 = succ.lexer.clone();
                if std::panic::catch_unwind(std::panic::AssertUnwindSafe(|| { let _ = format!("{}", l2); })).is_err() {
                    *render_panics.borrow_mut() += 1;
                }
                results.push(format!("ok:{}:{}", show_val(&succ.value), show_lexer(&succ.lexer)));
                lexer = succ.lexer;
            }
            Err(e) => {
                // the report of the first returned error is rendered from the error object the
                // parser returned; its canonical description from a structural copy
                let e = take_report(&mut report, e, source);
                let (d, p) = describe(e, source);
                if p { *render_panics.borrow_mut() += 1; }
                results.push(format!("err:{}", d));
            }
        }
    }
    let sink = sink_log.borrow().join(",");
    let probes = env.probes.borrow().join("~");
    let rp = *render_panics.borrow();
    let sink_report = sink_report.borrow().clone();
    format!("{}|sink=[{}]|probes=[{}]|fmtpanics={}|report={}|sinkreport={}", results.join("&"), sink, probes, rp,
        report.unwrap_or_else(|| "-".to_string()), sink_report.unwrap_or_else(|| "-".to_string()))
}

////////////////////////////////////////////////////////////////////////////////
// Generators
////////////////////////////////////////////////////////////////////////////////

const ITEM_KINDS: &[u32] = &[0, 1, 2, 3];

fn pick_kinds(rng: &mut Rng, from: &[u32], max: usize) -> Vec<u32> {
    // mostly short lists; one in five is longer (4..=8 kinds, also from outside `from`): the
    // report of a failed `any` abbreviates lists of five or more expected tokens
    if max >= 3 && rng.chance(1, 5) {
        let n = 4 + rng.below(5);
        let wide: &[u32] = &[0, 1, 2, 3, 4, 5, 6, 7, 8, 9, 10, 11, 12];
        return (0..n).map(|i| if i % 2 == 0 { *rng.pick(from) } else { *rng.pick(wide) }).collect();
    }
    let n = 1 + rng.below(max);
    (0..n).map(|_| *rng.pick(from)).collect()
}

fn gen_pe(rng: &mut Rng, depth: usize) -> PE {
    if depth == 0 || rng.chance(1, 2) {
        return PE::Var(*rng.pick(ITEM_KINDS));
    }
    match rng.below(3) {
        0 => PE::Not(Box::new(gen_pe(rng, depth - 1))),
        1 => PE::And(Box::new(gen_pe(rng, depth - 1)), Box::new(gen_pe(rng, depth - 1))),
        _ => PE::Or(Box::new(gen_pe(rng, depth - 1)), Box::new(gen_pe(rng, depth - 1))),
    }
}

pub fn gen_leaf(rng: &mut Rng) -> G {
    let ks: &[u32] = &[0, 1, 2, 3, 4, 12];
    match rng.below(12) {
        0 => G::Empty,
        1 | 2 | 3 | 4 => G::One(*rng.pick(ks)),
        5 => G::Any(pick_kinds(rng, ks, 3)),
        6 => G::AnyIndex(pick_kinds(rng, ks, 3)),
        7 => G::Seq(pick_kinds(rng, ks, 3)),
        8 => G::SeqCount(pick_kinds(rng, ks, 3)),
        9 => G::Pred(gen_pe(rng, 2)),
        10 => G::EndOfText,
        _ => G::One(0),
    }
}

/// The C06 grammar family.
pub fn gen_peg(rng: &mut Rng, depth: usize) -> G {
    if depth == 0 || rng.chance(1, 4) {
        return gen_leaf(rng);
    }
    let d = depth - 1;
    let b = |rng: &mut Rng| Box::new(gen_peg(rng, d));
    match rng.below(19) {
        0 => G::Left(b(rng), b(rng)),
        1 => G::Right(b(rng), b(rng)),
        2 | 3 => G::Both(b(rng), b(rng)),
        4 => G::Center(b(rng), b(rng), b(rng)),
        5 => G::Map(b(rng)),
        6 => G::Discard(b(rng)),
        7 | 8 => G::Either(b(rng), b(rng)),
        9 => G::Maybe(b(rng)),
        10 => G::RequireIf(rng.chance(1, 2), b(rng)),
        11 => G::Cond(rng.chance(1, 2), b(rng)),
        12 => G::Implies(b(rng), b(rng)),
        13 => G::Antecedent(b(rng), b(rng)),
        14 => G::Consequent(b(rng), b(rng)),
        15 => G::CondImplies(b(rng), *rng.pick(ITEM_KINDS), b(rng)),
        16 => G::FilterWith(*rng.pick(&[1u32, 3, 5, 0]), b(rng)),
        17 => G::Unfiltered(b(rng)),
        _ => G::Sub(b(rng)),
    }
}

/// A non-nullable item parser (consumes at least one token whenever it succeeds).
pub fn gen_item(rng: &mut Rng, depth: usize) -> G {
    if depth == 0 || rng.chance(1, 2) {
        return match rng.below(4) {
            0 => G::Any(pick_kinds(rng, ITEM_KINDS, 2)),
            1 => G::Seq(pick_kinds(rng, ITEM_KINDS, 2)),
            2 => G::Pred(PE::Or(Box::new(PE::Var(0)), Box::new(PE::Var(1)))),
            _ => G::One(*rng.pick(ITEM_KINDS)),
        };
    }
    let d = depth - 1;
    match rng.below(5) {
        0 => G::Both(Box::new(gen_item(rng, d)), Box::new(gen_peg(rng, d))),
        1 => G::Either(Box::new(gen_item(rng, d)), Box::new(gen_item(rng, d))),
        2 => G::Right(Box::new(gen_peg(rng, 0)), Box::new(gen_item(rng, d))),
        3 => G::Map(Box::new(gen_item(rng, d))),
        _ => G::Left(Box::new(gen_item(rng, d)), Box::new(G::Maybe(Box::new(gen_item(rng, d))))),
    }
}

fn gen_bounds(rng: &mut Rng, max: usize) -> (usize, Option<usize>) {
    // one time in sixteen: bounds around the sizes at which buffers are preallocated (16), to go
    // with the long token runs of `stretch`
    if rng.chance(1, 16) {
        // (`usize::MAX` is how "no real upper bound" is spelled with a bounded combinator)
        let hi = if rng.chance(1, 4) { usize::MAX } else { 15 + rng.below(4) };
        let lo = *rng.pick(&[0usize, 1, 16, 17]);
        return (lo.min(hi), Some(hi));
    }
    let lo = rng.below(max + 1);
    let hi = if rng.chance(1, 3) { None } else { Some(lo + rng.below(max + 1 - lo)) };
    (lo, hi)
}

/// The C07 family: repetition over C06 items.
pub fn gen_rep(rng: &mut Rng) -> G {
    let (lo, hi) = gen_bounds(rng, 4);
    let item = Box::new(gen_item(rng, 1));
    let sep = Box::new(match rng.below(3) { 0 => G::One(4), 1 => G::Empty, _ => G::Any(vec![4, 5]) });
    let stop = Box::new(match rng.below(3) { 0 => G::One(5), 1 => G::EndOfText, _ => G::One(3) });
    let v = rng.below(2) as u8;
    let core = match rng.below(5) {
        0 => G::Repeat(v, lo, hi, item),
        1 => G::RepeatUntil(v, lo, hi, stop, item),
        2 => G::Intersperse(v, lo, hi, item, sep),
        3 => G::IntersperseUntil(v, lo, hi, stop, item, sep),
        _ => G::IntersperseDefault(lo, hi, item, 4),
    };
    // often followed by something, to observe where the returned lexer is
    match rng.below(4) {
        // the same repetition parser object applied to several groups, some of them too short for
        // its lower bound (it then fails after having accepted items, and an alternative takes over)
        3 => {
            let (lo, hi) = (2 + rng.below(2), if rng.chance(1, 2) { None } else { Some(4) });
            let grp = match rng.below(3) {
                0 => G::Intersperse(rng.below(2) as u8, lo, hi, Box::new(G::One(0)), Box::new(G::One(4))),
                1 => G::Repeat(rng.below(2) as u8, lo, hi, Box::new(G::Any(vec![0, 1]))),
                // a token sequence that may fail after having matched a prefix
                _ => if rng.chance(1, 2) { G::Seq(vec![0, 1, 2]) } else { G::SeqCount(vec![0, 1, 0]) },
            };
            let alt = G::Either(Box::new(grp), Box::new(G::Discard(Box::new(G::Repeat(0, 0, Some(2), Box::new(G::Any(vec![0, 1, 4])))))));
            G::Repeat(0, 0, None, Box::new(G::Both(Box::new(alt), Box::new(G::One(5)))))
        }
        0 => core,
        1 => G::Both(Box::new(core), Box::new(gen_leaf(rng))),
        _ => G::Both(Box::new(G::Maybe(Box::new(G::One(0)))), Box::new(core)),
    }
}

pub fn gen_rec(rng: &mut Rng) -> Rec {
    let ks: &[u32] = &[4, 5, 0, 3];
    match rng.below(4) {
        0 => Rec::Before(*rng.pick(ks)),
        1 => Rec::After(*rng.pick(ks)),
        2 => Rec::BeforeAny(pick_kinds(rng, ks, 2)),
        _ => Rec::AfterAny(pick_kinds(rng, ks, 2)),
    }
}

/// Recovering wrappers around a failing-prone parser (C12).
pub fn gen_recover(rng: &mut Rng) -> G {
    let inner = Box::new(match rng.below(4) {
        0 => G::One(0),
        1 => G::Seq(vec![0, 1]),
        2 => G::Both(Box::new(G::One(0)), Box::new(G::One(1))),
        _ => gen_item(rng, 1),
    });
    let r = G::Recover(rng.below(4) as u8, inner, gen_rec(rng));
    match rng.below(12) {
        // an unbounded repetition of a recovering parser: every round must consume something or
        // fail, whatever the closure remembers from the round before
        // (C02's precondition: the body consumes whenever it succeeds, so only recover-AFTER
        // strategies around a non-nullable parser; recover-before may succeed without consuming)
        10 | 11 => {
            let ks: &[u32] = &[4, 5, 0, 3];
            let rec = if rng.chance(1, 2) { Rec::After(*rng.pick(ks)) } else { Rec::AfterAny(pick_kinds(rng, ks, 2)) };
            // (one body in four has a stabilising parser inside: the shape on which finding F07r shows
            // as non-termination)
            let inner = match rng.below(4) {
                0 => G::One(0),
                1 | 2 => G::Seq(vec![0, 1]),
                _ => G::Left(Box::new(G::One(0)), Box::new(G::Stabilize(Box::new(G::One(5))))),
            };
            let body = G::Recover(rng.below(4) as u8, Box::new(inner), rec);
            if rng.chance(1, 2) { G::Repeat(rng.below(4) as u8, 0, None, Box::new(body)) }
            else { G::Repeat(rng.below(4) as u8, 0, None, Box::new(G::Both(Box::new(body), Box::new(G::Maybe(Box::new(G::One(1))))))) }
        }
        // a second, different recovery on the lexer the first one left recovering (no stabilising
        // parser in between): with or without plain tokens consumed between the two
        8 | 9 => {
            let inner2 = Box::new(match rng.below(3) { 0 => G::One(0), 1 => G::Seq(vec![1, 0]), _ => gen_item(rng, 1) });
            let r2 = G::Recover(rng.below(4) as u8, inner2, gen_rec(rng));
            let second = match rng.below(3) {
                0 => r2,
                1 => G::Right(Box::new(G::Any(vec![4, 5, 0, 3])), Box::new(r2)),
                _ => G::Right(Box::new(G::Repeat(0, 0, Some(2), Box::new(G::Any(vec![4, 5])))), Box::new(r2)),
            };
            G::Both(Box::new(r), Box::new(second))
        }
        // the recovery token is consumed by a plain parser, then a stabilising parser runs on the
        // still-recovering lexer
        6 => G::Both(Box::new(r), Box::new(G::Right(Box::new(G::Any(vec![4, 5])), Box::new(G::Stabilize(Box::new(gen_item(rng, 1))))))),
        7 => G::Both(Box::new(r), Box::new(G::Right(Box::new(G::Any(vec![4, 5])),
                Box::new(G::Unrecoverable(Box::new(G::List(rng.below(4) as u8, 0, None, Box::new(G::One(0)), 4, vec![9]))))))),
        0 => r,
        1 => G::Repeat(0, 0, Some(1 + rng.below(3)), Box::new(G::Both(Box::new(r), Box::new(G::Maybe(Box::new(G::Any(vec![4, 5]))))))),
        2 => G::Both(Box::new(r), Box::new(gen_leaf(rng))),
        3 => G::Stabilize(Box::new(G::Both(Box::new(r), Box::new(G::Maybe(Box::new(G::One(5))))))),
        4 => G::Both(Box::new(r.clone()), Box::new(G::Stabilize(Box::new(gen_leaf(rng))))),
        _ => G::Center(Box::new(G::Maybe(Box::new(G::One(2)))), Box::new(r), Box::new(G::Maybe(Box::new(G::Any(vec![4, 5]))))),
    }
}

pub fn gen_bracket(rng: &mut Rng, inner_depth: usize) -> G {
    // kinds as parallel slices: ( ) = 6 7, [ ] = 8 9, { } = 10 11
    let all: [(u32, u32); 3] = [(6, 7), (8, 9), (10, 11)];
    let mut pairs: Vec<(u32, u32)> = all.iter().copied().filter(|_| rng.chance(2, 3)).collect();
    if pairs.is_empty() { pairs.push(all[rng.below(3)]); }
    if rng.chance(1, 2) { pairs.reverse(); }
    let opens: Vec<u32> = pairs.iter().map(|p| p.0).collect();
    let closes: Vec<u32> = pairs.iter().map(|p| p.1).collect();
    // (the abort predicate may also accept one of the bracket tokens themselves, as the library's own
    // test grammar does with its close bracket: brackets are classified before the abort test)
    let abort: Vec<u32> = match rng.below(5) {
        0 => vec![], 1 => vec![5], 2 => vec![4, 5],
        3 => vec![*rng.pick(&closes)],
        _ => vec![5, *rng.pick(&[6u32, 7, 8, 9, 10, 11])],
    };
    let inner = match rng.below(4) {
        0 => G::Probe(1),
        1 => G::Right(Box::new(G::Probe(1)), Box::new(gen_peg(rng, inner_depth))),
        2 => G::Right(Box::new(G::Probe(1)), Box::new(G::Repeat(0, 0, None, Box::new(G::Any(vec![0, 1, 4]))))),
        _ => gen_peg(rng, inner_depth),
    };
    G::Bracket(rng.below(4) as u8, opens, Box::new(inner), closes, abort)
}

pub fn gen_list(rng: &mut Rng) -> G {
    let (lo, hi) = if rng.chance(1, 2) { (0, None) } else { gen_bounds(rng, 3) };
    // item parsers: non-nullable, free of separator/abort tokens, and *local* (their verdict on a
    // segment does not depend on what follows the segment: no end_of_text, no negative lookahead)
    let item = Box::new(match rng.below(8) {
        0 => G::One(0),
        1 => G::Any(vec![0, 1]),
        2 => G::Seq(vec![0, 1]),
        3 => G::Both(Box::new(G::One(0)), Box::new(G::Maybe(Box::new(G::One(1))))),
        4 => G::Either(Box::new(G::Seq(vec![0, 1])), Box::new(G::One(0))),
        5 => G::Repeat(rng.below(4) as u8, 1, Some(2), Box::new(G::Any(vec![0, 1, 2]))),
        6 => G::Spanned(Box::new(G::Both(Box::new(G::One(0)), Box::new(G::Maybe(Box::new(G::One(1))))))),
        _ => G::Right(Box::new(G::One(2)), Box::new(G::Any(vec![0, 1]))),
    });
    let abort: Vec<u32> = match rng.below(3) { 0 => vec![9], 1 => vec![5, 9], _ => vec![5] };
    if rng.chance(1, 6) {
        // rows of items: the item parser is itself a (recovering) list
        let inner = G::List(1 + 2 * rng.below(2) as u8, rng.below(2), None, Box::new(G::One(0)), 4, vec![5, 9]);
        let outer = G::List(rng.below(4) as u8, 0, None, Box::new(inner), 5, vec![9]);
        return if rng.chance(1, 2) { outer } else { G::Bracket(rng.below(4) as u8, vec![8], Box::new(outer), vec![9], vec![]) };
    }
    let l = G::List(rng.below(4) as u8, lo, hi, item, 4, abort);
    match rng.below(4) {
        0 | 1 => l,
        2 => G::Bracket(rng.below(4) as u8, vec![8], Box::new(l), vec![9], vec![]),
        _ => G::Both(Box::new(l), Box::new(G::Maybe(Box::new(G::Any(vec![5, 9]))))),
    }
}

/// "Committed" grammars for C08: recovering nodes only outside speculative positions.
pub fn gen_committed(rng: &mut Rng, depth: usize) -> G {
    if depth == 0 {
        return match rng.below(5) {
            0 => G::Recover(rng.below(4) as u8, Box::new(gen_item(rng, 1)), gen_rec(rng)),
            1 => gen_bracket_plain(rng),
            2 => gen_list_plain(rng),
            3 => G::Stabilize(Box::new(gen_item(rng, 1))),
            _ => gen_item(rng, 1),
        };
    }
    let d = depth - 1;
    match rng.below(5) {
        0 => G::Both(Box::new(gen_committed(rng, d)), Box::new(gen_committed(rng, d))),
        1 => G::Left(Box::new(gen_committed(rng, d)), Box::new(gen_committed(rng, d))),
        2 => G::Either(Box::new(gen_item(rng, 1)), Box::new(gen_committed(rng, d))),
        3 => G::Center(Box::new(G::Maybe(Box::new(G::One(2)))), Box::new(gen_committed(rng, d)), Box::new(G::Maybe(Box::new(G::One(5))))),
        _ => G::Right(Box::new(G::Maybe(Box::new(G::One(12)))), Box::new(gen_committed(rng, d))),
    }
}

fn gen_bracket_plain(rng: &mut Rng) -> G {
    // the inner parser may itself recover (a committed position): its recovery token may well be
    // absent from the text while the bracket can still recover
    let inner = match rng.below(4) {
        0 => G::Recover(rng.below(4) as u8, Box::new(gen_item(rng, 1)), gen_rec(rng)),
        1 => G::Both(Box::new(gen_item(rng, 1)), Box::new(G::Recover(rng.below(4) as u8, Box::new(G::One(0)), gen_rec(rng)))),
        _ => gen_item(rng, 1),
    };
    G::Bracket(rng.below(4) as u8, vec![8, 6], Box::new(inner), vec![9, 7], vec![5])
}

fn gen_list_plain(rng: &mut Rng) -> G {
    if rng.chance(1, 3) {
        let inner = G::List(1 + 2 * rng.below(2) as u8, 1, None, Box::new(G::One(0)), 4, vec![5, 9]);
        let outer = G::List(rng.below(4) as u8, 0, None, Box::new(inner), 5, vec![9]);
        return G::Bracket(rng.below(4) as u8, vec![8], Box::new(outer), vec![9], vec![]);
    }
    let item = if rng.chance(1, 3) {
        // a recovering item (committed position inside the list's own recovery)
        G::Recover(rng.below(4) as u8, Box::new(G::One(0)), gen_rec(rng))
    } else {
        G::One(0)
    };
    G::List(rng.below(4) as u8, 0, None, Box::new(item), 4, vec![5, 9])
}

/// C09: q1; ..; qn; P with wrappers and probes.
pub fn gen_scoped(rng: &mut Rng) -> G {
    let wrap = |rng: &mut Rng, q: G| -> G {
        let b = Box::new(q);
        match rng.below(11) {
            0 => G::Maybe(b),
            1 => G::Unrecoverable(b),
            2 => G::Raw(b),
            3 => G::RequireIf(rng.chance(1, 2), b),
            // the consequent of an implication runs in the enclosing context: it may probe and recover
            4 => {
                let cons = match rng.below(4) {
                    0 => G::Maybe(Box::new(G::One(1))),
                    1 => G::Probe(5),
                    2 => G::Both(Box::new(G::Probe(5)), Box::new(G::Recover(1, Box::new(G::One(1)), Rec::Before(5)))),
                    _ => G::Right(Box::new(G::Maybe(Box::new(G::One(1)))), Box::new(G::Probe(5))),
                };
                match rng.below(3) {
                    0 => G::Implies(b, Box::new(cons)),
                    1 => G::Antecedent(b, Box::new(cons)),
                    _ => G::Consequent(b, Box::new(cons)),
                }
            }
            5 => G::FilterWith(*rng.pick(&[1u32, 3, 0]), b),
            6 => G::Unfiltered(b),
            7 => G::Stabilize(b),
            8 => G::CtxPushed(70 + rng.below(3) as u32, b),
            // a stabilising parser whose failure is absorbed by an alternative (with a sink, unlike
            // under `maybe`): when the lexer is still recovering it retries before giving up
            9 => G::Either(Box::new(G::Stabilize(b)), Box::new(G::Maybe(Box::new(G::One(1))))),
            _ => G::Maybe(b),
        }
    };
    let q = |rng: &mut Rng| -> G {
        let base = match rng.below(4) {
            0 => G::One(0),
            1 => G::Both(Box::new(G::One(0)), Box::new(G::Probe(2))),
            2 => G::Right(Box::new(G::Probe(2)), Box::new(G::One(3))),
            _ => G::Maybe(Box::new(G::One(3))),
        };
        // qi may fail: wrap failing ones in maybe at the outside so the sequence continues
        let w = wrap(rng, base);
        if rng.chance(1, 2) { G::Maybe(Box::new(w)) } else { w }
    };
    let p = match rng.below(3) {
        0 => G::Recover(rng.below(2) as u8, Box::new(G::Seq(vec![1, 1])), Rec::Before(5)),
        1 => G::Both(Box::new(G::Probe(3)), Box::new(G::Recover(1, Box::new(G::One(1)), Rec::After(5)))),
        _ => G::Both(Box::new(G::Probe(3)), Box::new(gen_list_plain(rng))),
    };
    let n = 1 + rng.below(3);
    let mut g = G::Both(Box::new(G::Probe(9)), Box::new(p));
    for _ in 0..n {
        g = G::Both(Box::new(q(rng)), Box::new(g));
    }
    // one time in three the wrapped siblings run on a lexer that an earlier recovery left recovering
    if rng.chance(1, 3) {
        let pre = G::Recover(1, Box::new(G::Seq(vec![2, 2])), Rec::BeforeAny(vec![0, 3]));
        g = G::Both(Box::new(pre), Box::new(g));
    }
    G::Both(Box::new(G::Probe(0)), Box::new(g))
}

/// C15: trees of context operations with probes.
pub fn gen_ctx(rng: &mut Rng, depth: usize, next_tag: &mut u32) -> G {
    if depth == 0 || rng.chance(1, 5) {
        *next_tag += 1;
        return G::Probe(*next_tag);
    }
    let d = depth - 1;
    *next_tag += 1;
    let tag = *next_tag;
    match rng.below(8) {
        0 => G::CtxPushed(tag, Box::new(gen_ctx(rng, d, next_tag))),
        1 => G::CtxPush(tag, Box::new(gen_ctx(rng, d, next_tag))),
        2 => G::CtxLocked(rng.chance(2, 3), Box::new(gen_ctx(rng, d, next_tag))),
        3 => G::Raw(Box::new(gen_ctx(rng, d, next_tag))),
        4 => G::Unrecoverable(Box::new(gen_ctx(rng, d, next_tag))),
        5 => {
            let a = gen_ctx(rng, d, next_tag);
            let b = gen_ctx(rng, d, next_tag);
            let c = gen_ctx(rng, d, next_tag);
            G::Center(Box::new(a), Box::new(b), Box::new(c))
        }
        _ => {
            let a = gen_ctx(rng, d, next_tag);
            let b = gen_ctx(rng, d, next_tag);
            G::Both(Box::new(a), Box::new(b))
        }
    }
}

const TOKEN_ALPHABET: &[char] = &['a', 'b', 'c', 'd', ',', ';', ' ', '#'];
const TOKEN_ALPHABET_Q: &[char] = &['a', 'b', 'd', ',', ' ', '#'];

fn token_text(rng: &mut Rng, max_len: usize, extra: &[char]) -> String {
    let n = rng.below(max_len + 1);
    let mut s = String::new();
    for _ in 0..n {
        let c = match rng.below(10) {
            0 | 1 => ' ',
            2 => ',',
            3 if !extra.is_empty() => *rng.pick(extra),
            4 if !extra.is_empty() => *rng.pick(extra),
            5 => *rng.pick(&['\n', '\t', '#', ';', 'é', '\r']),
            _ => *rng.pick(&['a', 'b', 'c', 'd', 'a', 'b']),
        };
        s.push(c);
    }
    s
}

fn kind_char(k: u32) -> &'static str {
    match k {
        0 => "a", 1 => "b", 2 => "c", 3 => "d", 4 => ",", 5 => ";", 6 => "(", 7 => ")", 8 => "[", 9 => "]",
        10 => "{", 11 => "}", 12 => " ", 13 => "aa", 14 => "#", _ => "é",
    }
}

/// A token string derived from the grammar (mostly one it accepts): the texts
/// the structured stream of every grammar-level family starts from.
pub fn derive(g: &G, rng: &mut Rng, out: &mut Vec<&'static str>, depth: usize) {
    use G::*;
    if depth > 12 { return; }
    let d = depth + 1;
    let pick = |rng: &mut Rng, ks: &Vec<u32>| -> &'static str { if ks.is_empty() { "a" } else { kind_char(ks[rng.below(ks.len())]) } };
    match g {
        Empty | EndOfText | Probe(_) => {}
        One(k) => out.push(kind_char(*k)),
        Any(ks) | AnyIndex(ks) => out.push(pick(rng, ks)),
        Seq(ks) => for k in ks { out.push(kind_char(*k)); },
        SeqCount(ks) => { let n = rng.below(ks.len() + 1); for k in &ks[..n] { out.push(kind_char(*k)); } }
        Pred(_) => out.push(*rng.pick(&["a", "b", "c", "d"])),
        Left(a, b) | Right(a, b) | Both(a, b) => { derive(a, rng, out, d); derive(b, rng, out, d); }
        Center(a, b, c) => { derive(a, rng, out, d); derive(b, rng, out, d); derive(c, rng, out, d); }
        Map(a) | Discard(a) | FilterWith(_, a) | Unfiltered(a) | Sub(a) | Spanned(a) | Text(a) | Raw(a)
        | Unrecoverable(a) | Stabilize(a) | CtxPushed(_, a) | CtxPush(_, a) | CtxLocked(_, a) | UpTo(a, _) => derive(a, rng, out, d),
        Either(a, b) => if rng.chance(1, 2) { derive(a, rng, out, d) } else { derive(b, rng, out, d) },
        Maybe(a) | RequireIf(_, a) | Cond(_, a) => if rng.chance(2, 3) { derive(a, rng, out, d) },
        Implies(a, b) | Antecedent(a, b) | Consequent(a, b) | CondImplies(a, _, b) => {
            if rng.chance(2, 3) { derive(a, rng, out, d); derive(b, rng, out, d); }
        }
        Repeat(_, lo, hi, a) => {
            let n = lo + rng.below(3);
            let n = hi.map_or(n, |h| n.min(h.saturating_add(rng.below(2))));
            for _ in 0..n { derive(a, rng, out, d); }
        }
        RepeatUntil(_, lo, _, st, a) => { for _ in 0..lo + rng.below(3) { derive(a, rng, out, d); } if rng.chance(1, 2) { derive(st, rng, out, d); } }
        Intersperse(_, lo, _, a, s) => {
            let n = lo + rng.below(3);
            for i in 0..n { if i > 0 { derive(s, rng, out, d); } derive(a, rng, out, d); }
            if rng.chance(1, 4) { derive(s, rng, out, d); }
        }
        IntersperseUntil(_, lo, _, st, a, s) => {
            let n = lo + rng.below(3);
            for i in 0..n { if i > 0 { derive(s, rng, out, d); } derive(a, rng, out, d); }
            if rng.chance(1, 2) { derive(st, rng, out, d); }
        }
        IntersperseDefault(lo, _, a, k) => {
            let n = lo + rng.below(3);
            for i in 0..n { if i > 0 { out.push(kind_char(*k)); } derive(a, rng, out, d); }
            if rng.chance(1, 4) { out.push(kind_char(*k)); }
        }
        Recover(_, a, r) => {
            derive(a, rng, out, d);
            if rng.chance(1, 2) {
                out.push(match r { Rec::Before(k) | Rec::After(k) => kind_char(*k), Rec::BeforeAny(ks) | Rec::AfterAny(ks) => pick(rng, ks) });
            }
        }
        Bracket(_, o, a, c, _) => {
            let i = rng.below(o.len().max(1));
            out.push(kind_char(*o.get(i).unwrap_or(&8)));
            derive(a, rng, out, d);
            out.push(kind_char(*c.get(i).unwrap_or(&9)));
        }
        List(_, _, _, a, s, ab) => {
            let n = rng.below(4);
            for i in 0..n { if i > 0 { out.push(kind_char(*s)); } derive(a, rng, out, d); }
            if n > 0 && rng.chance(1, 3) { out.push(kind_char(*s)); }
            if rng.chance(1, 3) { out.push(pick(rng, ab)); }
        }
    }
}

/// Derive a text from the grammar, then (often) disturb it: drop / insert / swap a
/// token, sprinkle filtered tokens and the occasional rejected character.
pub fn derived_text(g: &G, rng: &mut Rng) -> String {
    let mut toks: Vec<&'static str> = Vec::new();
    derive(g, rng, &mut toks, 0);
    if toks.len() > 14 { toks.truncate(14); }
    let noise = ["a", "b", "c", "d", ",", ";", "]", ")", "[", "(", "#", " "];
    for _ in 0..rng.below(3) {
        match rng.below(4) {
            0 if !toks.is_empty() => { let i = rng.below(toks.len()); let _ = toks.remove(i); }
            1 => { let i = rng.below(toks.len() + 1); toks.insert(i, *rng.pick(&noise)); }
            2 if toks.len() > 1 => { let i = rng.below(toks.len() - 1); toks.swap(i, i + 1); }
            _ => {}
        }
    }
    let mut s = String::new();
    for t in toks {
        // (one gap in eight is a lone CR or LF: a zero-width character unless it is the configured
        // line break)
        if rng.chance(1, 4) { s.push(if rng.chance(1, 8) { *rng.pick(&['\r', '\n']) } else { ' ' }); }
        s.push_str(t);
    }
    if rng.chance(1, 4) { s.push(' '); }
    s
}

/// A random properly nested bracket string over `( ) [ ] { }` with items `a`, then (half of the
/// time) one token replaced, removed or inserted.
fn nested_brackets_text(rng: &mut Rng) -> String {
    fn go(rng: &mut Rng, depth: usize, out: &mut Vec<char>) {
        let pairs = [('(', ')'), ('[', ']'), ('{', '}')];
        let n = 1 + rng.below(if depth == 0 { 2 } else { 3 });
        for _ in 0..n {
            if depth >= 4 || rng.chance(1, 3) { out.push('a'); continue; }
            let (o, c) = *rng.pick(&pairs);
            // a run of the same kind, or a single pair
            let run = if rng.chance(1, 3) { 2 + rng.below(2) } else { 1 };
            for _ in 0..run { out.push(o); }
            go(rng, depth + run, out);
            for _ in 0..run { out.push(c); }
        }
    }
    let mut v = Vec::new();
    let (o, c) = *rng.pick(&[('(', ')'), ('[', ']'), ('{', '}')]);
    v.push(o);
    go(rng, 1, &mut v);
    v.push(c);
    if rng.chance(1, 2) { v.push(*rng.pick(&['a', ';', ')', ']'])); }
    if v.len() > 24 { v.truncate(24); }
    if rng.chance(1, 2) && !v.is_empty() {
        let i = rng.below(v.len());
        let r = *rng.pick(&['(', ')', '[', ']', '{', '}', 'a']);
        match rng.below(3) { 0 => v[i] = r, 1 => { let _ = v.remove(i); } _ => v.insert(i, r) }
    }
    let sep = if rng.chance(1, 2) { " " } else { "" };
    v.iter().map(|c| c.to_string()).collect::<Vec<_>>().join(sep)
}

fn stretch(text: String, rng: &mut Rng) -> String {
    let chars: Vec<char> = text.chars().collect();
    let cands: Vec<usize> = (0..chars.len()).filter(|&i| !chars[i].is_whitespace()).collect();
    let (at, c) = if cands.is_empty() || rng.chance(1, 4) {
        (rng.below(chars.len() + 1), *rng.pick(&[',', ';', 'a', 'b']))
    } else {
        let i = *rng.pick(&cands);
        (i, chars[i])
    };
    let between: &str = match rng.below(4) { 0 => " ", 1 => "b", 2 => "a ", _ => "" };
    let k = 8 + rng.below(11);
    let mut out: String = chars[..at].iter().collect();
    for _ in 0..k {
        out.push(c);
        out.push_str(between);
    }
    out.extend(chars[at..].iter());
    out
}

fn mk(text: String, rng: &mut Rng, g: G) -> Case {
    // two thirds of the texts are derived from the grammar itself
    let text = if rng.chance(2, 3) { derived_text(&g, rng) } else { text };
    // one case in twelve: a long run (8..=18) of one of the text's tokens, alone or alternating with
    // another token (retry budgets, counters, runs of recovery points)
    let text = if rng.chance(1, 12) { stretch(text, rng) } else { text };
    // a third of the cases run under other metrics and with line structure in the text
    let (le, tab, text) = if rng.chance(1, 3) {
        let le = *rng.pick(LINE_ENDINGS);
        let brk = match le { LineEnding::Lf => "\n", LineEnding::Cr => "\r", LineEnding::CrLf => "\r\n" };
        let text = text.replacen(' ', brk, 1).replacen(' ', "\t", 1);
        (le, 1 + rng.below(8) as u8, text)
    } else { (LineEnding::Lf, 4, text) };
    Case {
        text,
        le,
        tab,
        sc: 1 + 2 * rng.below(4),
        filter: if rng.chance(3, 4) { Some(1) } else { None },
        sink: rng.chance(1, 2),
        nctx: 0,
        invocations: 1,
        g,
    }
}

fn emit(out: &mut Out, family: &str, c: &Case) {
    if family == "twice" {
        out.case(family, &case_fields(c), || run_case_twice(c));
    } else {
        out.case(family, &case_fields(c), || run_case(c));
    }
}

pub fn family(out: &mut Out, family: &str, tier: &Tier, rng: &mut Rng) {
    let n = match (family, tier.thorough) {
        (_, true) => 60000,
        (_, false) => 15000,
    };
    // exhaustive small part: a fixed set of small grammars x all short token strings
    if family == "peg" {
        let texts = all_texts_up_to(if tier.thorough { TOKEN_ALPHABET } else { TOKEN_ALPHABET_Q }, if tier.thorough { 4 } else { 3 });
        let mut gs: Vec<G> = Vec::new();
        for _ in 0..(if tier.thorough { 120 } else { 24 }) { gs.push(gen_peg(rng, 2)); }
        for g in &gs {
            for t in &texts {
                for filter in [Some(1u32), None] {
                    let c = Case { text: t.clone(), le: LineEnding::Lf, tab: 4, sc: 1, filter, sink: false, nctx: 0, invocations: 1, g: g.clone() };
                    emit(out, family, &c);
                }
            }
        }
    }
    // exhaustive small-scope parts (deterministic detection of small witnesses)
    let fixed = |text: &String, g: &G, sink: bool, filter: Option<u32>, inv: usize| Case {
        text: text.clone(), le: LineEnding::Lf, tab: 4, sc: 1, filter, sink, nctx: 0, invocations: inv, g: g.clone(),
    };
    if family == "bracket" {
        let texts = all_texts_up_to(&['(', ')', '[', ']', 'a'], if tier.thorough { 5 } else { 4 });
        let gs = vec![
            G::Bracket(2, vec![6, 8], Box::new(G::Probe(1)), vec![7, 9], vec![]),
            G::Bracket(3, vec![8, 6], Box::new(G::Right(Box::new(G::Probe(1)), Box::new(G::Repeat(0, 0, None, Box::new(G::Any(vec![0, 6, 7, 8, 9])))))), vec![9, 7], vec![]),
            G::Bracket(0, vec![6], Box::new(G::Probe(1)), vec![7], vec![8]),
            G::Bracket(2, vec![6, 8, 10], Box::new(G::Probe(1)), vec![7, 9, 11], vec![0]),
        ];
        for g in &gs { for t in &texts { emit(out, family, &fixed(t, g, true, Some(1), 1)); } }
    }
    if family == "list" {
        let texts = all_texts_up_to(&['a', 'b', ',', ';', ']'], if tier.thorough { 5 } else { 4 });
        let gs = vec![
            G::List(0, 0, None, Box::new(G::One(0)), 4, vec![9]),
            G::List(3, 1, Some(2), Box::new(G::One(0)), 4, vec![5, 9]),
            G::List(1, 0, Some(2), Box::new(G::Seq(vec![0, 1])), 4, vec![9]),
            G::List(2, 0, None, Box::new(G::List(3, 1, None, Box::new(G::One(0)), 4, vec![5, 9])), 5, vec![9]),
        ];
        for g in &gs { for t in &texts { for sink in [true, false] { emit(out, family, &fixed(t, g, sink, Some(1), 1)); } } }
    }
    if family == "recover" {
        let texts = all_texts_up_to(&['a', 'b', ',', ';'], if tier.thorough { 5 } else { 4 });
        let gs = vec![
            G::Recover(0, Box::new(G::One(0)), Rec::Before(5)),
            G::Recover(1, Box::new(G::One(0)), Rec::After(5)),
            G::Recover(2, Box::new(G::Seq(vec![0, 1])), Rec::AfterAny(vec![4, 5])),
            G::Recover(3, Box::new(G::One(0)), Rec::BeforeAny(vec![4, 5])),
        ];
        for g in &gs { for t in &texts { for inv in [1usize, 3] { emit(out, family, &fixed(t, g, true, Some(1), inv)); } } }
    }
    if family == "rep" {
        let texts = all_texts_up_to(&['a', 'b', ',', ';'], if tier.thorough { 5 } else { 4 });
        let item = || Box::new(G::One(0));
        let gs = vec![
            G::Repeat(0, 1, Some(2), item()),
            G::Intersperse(0, 0, Some(2), item(), Box::new(G::One(4))),
            G::RepeatUntil(0, 0, Some(1), Box::new(G::One(5)), item()),
            G::RepeatUntil(1, 2, Some(2), Box::new(G::One(5)), item()),
            G::IntersperseUntil(0, 1, None, Box::new(G::One(5)), item(), Box::new(G::One(4))),
            G::IntersperseDefault(1, Some(3), item(), 4),
        ];
        for g in &gs { for t in &texts {
            let g2 = G::Both(Box::new(g.clone()), Box::new(G::Maybe(Box::new(G::Any(vec![0, 1, 4, 5])))));
            emit(out, family, &fixed(t, &g2, false, Some(1), 1));
        } }
    }
    for i in 0..n {
        let c = match family {
            "peg" if i % 12 == 10 => {
                // a parser that stops at a token it only looked at (or did not look at), directly
                // followed by a sub-parse whose first step reads the stream under another filter:
                // whether a look-ahead is buffered when the sub-parse begins must not be observable
                let stopper = match rng.below(5) {
                    0 => G::SeqCount(vec![0, 0]),
                    1 => G::Maybe(Box::new(G::One(1))),
                    2 => G::SeqCount(vec![0, 1]),
                    3 => G::Both(Box::new(G::One(0)), Box::new(G::SeqCount(vec![1]))),
                    _ => G::Repeat(0, 0, Some(2), Box::new(G::One(0))),
                };
                let inner = match rng.below(3) {
                    0 => G::Unfiltered(Box::new(G::Maybe(Box::new(G::One(12))))),
                    1 => G::FilterWith(0, Box::new(G::Any(vec![12, 1, 0]))),
                    _ => G::Unfiltered(Box::new(G::Any(vec![12, 1, 0, 2]))),
                };
                let g = G::Both(Box::new(stopper), Box::new(G::Sub(Box::new(inner))));
                let mut c = mk(String::new(), rng, g);
                let mut text = String::new();
                for _ in 0..rng.below(3) { text.push('a'); if rng.chance(1, 3) { text.push(' '); } }
                text.push_str(*rng.pick(&[" ", "  ", "", "\t", " \n"]));
                text.push_str(*rng.pick(&["b", "c", "a", "", "b a"]));
                c.text = text; c.le = LineEnding::Lf; c.tab = 4; c.filter = Some(1);
                c
            }
            "peg" if i % 12 == 11 => {
                // the same primitive parser objects applied at several places of one text: an ordered
                // choice whose first alternative may fail after having matched a prefix, repeated
                let ks: &[u32] = &[0, 1, 2, 3];
                let (a, b, c, d) = (*rng.pick(ks), *rng.pick(ks), *rng.pick(ks), *rng.pick(ks));
                let first = if rng.chance(1, 2) { G::Seq(vec![a, b, c]) } else { G::Both(Box::new(G::Seq(vec![a, b])), Box::new(G::One(c))) };
                let second = match rng.below(3) { 0 => G::Seq(vec![a, b, d]), 1 => G::Seq(vec![a]), _ => G::Any(vec![a, b, c, d]) };
                let g = G::Both(
                    Box::new(G::Repeat(rng.below(2) as u8, 0, None, Box::new(G::Either(Box::new(first), Box::new(second))))),
                    Box::new(G::Maybe(Box::new(gen_leaf(rng)))));
                mk(token_text(rng, 9, &[]), rng, g)
            }
            "peg" => { let d = 1 + rng.below(3); let g = gen_peg(rng, d); mk(token_text(rng, 7, &[]), rng, g) }
            "rep" if i % 16 == 14 => {
                // one repetition parser object applied to several `;`-terminated groups, some too short for
                // its lower bound (it fails after having accepted items; an alternative takes the group)
                // and some long enough: state kept across applications of the object shows as a wrong
                // value in a later group
                let (lo, hi) = (2 + rng.below(2), if rng.chance(1, 2) { None } else { Some(4) });
                let grp = match rng.below(3) {
                    0 => G::Intersperse(rng.below(2) as u8, lo, hi, Box::new(G::One(0)), Box::new(G::One(4))),
                    1 => G::Repeat(rng.below(2) as u8, lo, hi, Box::new(G::Any(vec![0, 1]))),
                    _ => G::IntersperseDefault(lo, hi, Box::new(G::One(0)), 4),
                };
                let with_sep = !matches!(grp, G::Repeat(..));
                let alt = G::Either(Box::new(grp), Box::new(G::Discard(Box::new(G::Repeat(0, 0, Some(3), Box::new(G::Any(vec![0, 1, 4])))))));
                let g = G::Repeat(0, 0, None, Box::new(G::Both(Box::new(alt), Box::new(G::One(5)))));
                let mut c = mk(String::new(), rng, g);
                let mut text = String::new();
                for _ in 0..2 + rng.below(3) {
                    let n = if rng.chance(1, 2) { 1 + rng.below(lo - 1) } else { lo + rng.below(2) };
                    for k in 0..n {
                        if k > 0 && with_sep { text.push_str(if rng.chance(1, 4) { " , " } else { "," }); }
                        text.push('a');
                    }
                    text.push_str(*rng.pick(&[";", "; ", " ;"]));
                }
                c.text = text; c.le = LineEnding::Lf; c.tab = 4; c.filter = Some(1);
                c
            }
            "rep" if i % 16 == 15 => {
                // repetitions whose items recover through the sink (bracketed or recovering items):
                // a malformed-but-recoverable item at an optional position must still be taken
                let item = match rng.below(3) {
                    0 => G::Bracket(rng.below(4) as u8, vec![6], Box::new(G::One(0)), vec![7], vec![]),
                    1 => G::Recover(rng.below(2) as u8, Box::new(G::Both(Box::new(G::One(6)), Box::new(G::One(0)))), Rec::After(7)),
                    _ => G::Left(Box::new(G::Recover(1, Box::new(G::One(0)), Rec::Before(5))), Box::new(G::One(5))),
                };
                let (lo, hi) = gen_bounds(rng, 3);
                let g = match rng.below(3) {
                    0 => G::Repeat(rng.below(2) as u8, lo, hi, Box::new(item)),
                    1 => G::Intersperse(rng.below(2) as u8, lo, hi, Box::new(item), Box::new(G::One(4))),
                    _ => G::Both(Box::new(G::Repeat(0, lo, hi, Box::new(item))), Box::new(G::Maybe(Box::new(G::One(3))))),
                };
                let mut c = mk(String::new(), rng, g);
                let n = 1 + rng.below(4);
                let mut text = String::new();
                for k in 0..n {
                    if k > 0 { text.push_str(*rng.pick(&["", " ", ",", " , "])); }
                    text.push_str(*rng.pick(&["(a)", "(a)", "(b)", "( a )", "a;", "b;", "(a", "()"]));
                }
                text.push_str(*rng.pick(&["", " d", ";"]));
                c.text = text; c.le = LineEnding::Lf; c.tab = 4; c.filter = Some(1);
                c.sink = rng.chance(3, 4);
                c
            }
            "rep" => { let g = gen_rep(rng); mk(token_text(rng, 9, &[]), rng, g) }
            "capture" => {
                let inner = if rng.chance(1, 2) { gen_peg(rng, 2) } else { gen_rep(rng) };
                let cap = if rng.chance(1, 2) { G::Spanned(Box::new(inner)) } else { G::Text(Box::new(inner)) };
                let g = match rng.below(4) {
                    0 => cap,
                    1 => G::Both(Box::new(G::One(0)), Box::new(cap)),
                    2 => G::Both(Box::new(G::Maybe(Box::new(G::One(0)))), Box::new(G::Both(Box::new(cap), Box::new(G::Maybe(Box::new(G::One(1))))))),
                    _ => G::Center(Box::new(G::One(0)), Box::new(cap), Box::new(G::Maybe(Box::new(G::One(3))))),
                };
                mk(token_text(rng, 8, &[]), rng, g)
            }
            "errors" if i % 10 == 9 => {
                // errors whose parse span crosses line breaks (what a report displays depends on which
                // end of the span it is anchored at): a consumed prefix spread over several lines, then
                // a leaf that fails on a rejected character, a wrong token or the end of the text
                let ks: Vec<u32> = (0..1 + rng.below(3)).map(|_| *rng.pick(&[0u32, 1, 2, 3])).collect();
                let leaf = match rng.below(6) {
                    0 => G::EndOfText,
                    1 => G::SeqCount(vec![0]),
                    2 => G::One(1),
                    3 => G::Any(vec![0, 1]),
                    4 => G::AnyIndex(vec![2, 1]),
                    _ => G::Seq(vec![0, 1]),
                };
                let g = G::Both(Box::new(G::Seq(ks.clone())), Box::new(leaf));
                let mut c = mk(String::new(), rng, g);
                let le = *rng.pick(LINE_ENDINGS);
                let brk = match le { LineEnding::Lf => "\n", LineEnding::Cr => "\r", LineEnding::CrLf => "\r\n" };
                let mut text = String::new();
                for (j, k) in ks.iter().enumerate() {
                    if j > 0 { text.push_str(if rng.chance(2, 3) { brk } else { " " }); }
                    text.push_str(kind_char(*k));
                }
                text.push_str(*rng.pick(&["", " ", brk, brk]));
                text.push_str(*rng.pick(&["#", "", "d", ";", "a#", "#a", "a"]));
                c.text = text; c.le = le; c.tab = 4; c.filter = Some(1);
                c
            }
            "errors" => {
                let g = match rng.below(5) {
                    0 => gen_peg(rng, 2),
                    1 => gen_rep(rng),
                    2 => gen_bracket(rng, 1),
                    3 => gen_list(rng),
                    _ => G::Both(Box::new(G::Repeat(0, 0, None, Box::new(G::Any(vec![0, 1])))), Box::new(gen_leaf(rng))),
                };
                mk(token_text(rng, 8, &['(', ')', '[', ']']), rng, g)
            }
            "bracket" if i % 4 == 3 => {
                // texts that ARE nested bracket structures (runs of one kind inside another kind,
                // sibling pairs, depth up to four), then disturbed by at most one token
                let g = gen_bracket(rng, 1);
                let mut c = mk(String::new(), rng, g);
                c.text = nested_brackets_text(rng);
                c.le = LineEnding::Lf; c.tab = 4;
                c
            }
            "bracket" => { let g = gen_bracket(rng, 1); mk(token_text(rng, 9, &['(', ')', '[', ']', '{', '}']), rng, g) }
            "list" if i % 32 == 30 => {
                // long lists around the preallocation limit (16 entries) with bounds in the same range
                let hi = 15 + rng.below(4);
                let lo = *rng.pick(&[0usize, 2, 16, hi]);
                let item = if rng.chance(1, 2) { G::One(0) } else { G::Any(vec![0, 1]) };
                let g = G::List(1 + 2 * rng.below(2) as u8, lo.min(hi), Some(hi), Box::new(item), 4, vec![9]);
                let mut c = mk(String::new(), rng, g);
                let n = 13 + rng.below(8);
                let mut text = String::new();
                for k in 0..n {
                    if k > 0 { text.push_str(if rng.chance(1, 6) { " , " } else { "," }); }
                    text.push_str(if rng.chance(1, 12) { "c" } else { "a" });
                }
                text.push_str(*rng.pick(&["", "]", ",]", " ] a"]));
                c.text = text; c.le = LineEnding::Lf; c.tab = 4; c.filter = Some(1);
                c
            }
            "list" if i % 16 == 15 => {
                // the same bracket parser object applied to several items, some of them with a
                // close bracket of the wrong kind inside an enclosing bracket of another kind
                let item = G::Bracket(rng.below(4) as u8, vec![6, 8], Box::new(G::Maybe(Box::new(G::One(0)))), vec![7, 9], vec![]);
                let nested = G::Bracket(rng.below(4) as u8, vec![6, 8], Box::new(item.clone()), vec![7, 9], vec![]);
                let g = match rng.below(3) {
                    0 => G::List(rng.below(4) as u8, 0, None, Box::new(nested), 4, vec![5]),
                    1 => G::Repeat(rng.below(4) as u8, 0, None, Box::new(G::Both(Box::new(G::Maybe(Box::new(nested))), Box::new(G::One(4))))),
                    _ => G::List(rng.below(4) as u8, 0, None, Box::new(item), 4, vec![5]),
                };
                let shapes = ["(a)", "[a]", "([a])", "[(a)]", "((a))", "[[a]]", "()", "([])"];
                let n = 2 + rng.below(3);
                let mut items: Vec<String> = (0..n).map(|_| rng.pick(&shapes).to_string()).collect();
                for _ in 0..1 + rng.below(2) {
                    let k = rng.below(items.len());
                    let closes: Vec<usize> = items[k].char_indices().filter(|(_, c)| *c == ')' || *c == ']').map(|(j, _)| j).collect();
                    if let Some(&j) = closes.get(rng.below(closes.len().max(1))) {
                        let c = if items[k].as_bytes()[j] == b')' { "]" } else { ")" };
                        items[k].replace_range(j..j + 1, c);
                    }
                }
                let mut c = mk(items.join(","), rng, g);
                c.text = items.join(if rng.chance(1, 2) { "," } else { ", " });
                c.le = LineEnding::Lf; c.tab = 4;
                c.sink = rng.chance(3, 4);
                c
            }
            "list" => { let g = gen_list(rng); mk(token_text(rng, 9, &[',', ',', ']', '[', ';']), rng, g) }
            "recover" => {
                let g = gen_recover(rng);
                let mut c = mk(token_text(rng, 10, &[',', ';', ';']), rng, g);
                c.sink = rng.chance(4, 5);
                c.invocations = 1 + rng.below(4);
                c
            }
            "twice" if i % 8 == 7 => {
                // list items that are rules with their own pushed context and a reporting combinator
                // below it; texts with a trailing separator right before the abort token, so that the
                // list's speculative (sink-less) trailing-item attempt runs the rule at the abort token
                let inner = match rng.below(3) {
                    0 => G::Recover(rng.below(2) as u8, Box::new(G::One(0)), Rec::Before(4)),
                    1 => G::List(3, 1, None, Box::new(G::One(0)), 5, vec![4, 9]),
                    _ => G::Bracket(0, vec![6], Box::new(G::One(0)), vec![7], vec![]),
                };
                let item = if rng.chance(3, 4) { G::CtxPushed(70 + rng.below(3) as u32, Box::new(inner)) } else { inner };
                let list = G::List(rng.below(4) as u8, rng.below(2), None, Box::new(item), 4, vec![9]);
                let g = if rng.chance(1, 2) { list } else { G::Bracket(0, vec![8], Box::new(list), vec![9], vec![]) };
                let mut c = mk(String::new(), rng, g);
                let n = 1 + rng.below(3);
                let mut text = String::from(if rng.chance(1, 2) { "[" } else { "" });
                for k in 0..n {
                    if k > 0 { text.push_str(*rng.pick(&[",", " , "])); }
                    text.push_str(*rng.pick(&["a", "a", "a;a", "(a)", "b"]));
                }
                text.push_str(*rng.pick(&[",", " ,", ", ", ""]));
                text.push_str(*rng.pick(&["]", " ]", "", "] a"]));
                c.text = text; c.le = LineEnding::Lf; c.tab = 4; c.filter = Some(1);
                c.sink = i % 2 == 0; c.nctx = rng.below(3);
                c
            }
            "twice" => { let d = rng.below(3); let g = gen_committed(rng, d); let mut c = mk(token_text(rng, 9, &[',', ';', '[', ']', '(', ')']), rng, g); c.sink = i % 2 == 0; c.nctx = if rng.chance(1, 3) { 1 + rng.below(4) } else { 0 }; c }
            "scoped" if i % 8 == 5 => {
                // a filter scope around a parser that starts (or ends) a recovery, then a sibling that
                // depends on the recovery state the scope's parser left behind
                let rec = match rng.below(2) {
                    0 => G::Recover(1, Box::new(G::One(0)), Rec::After(5)),
                    _ => G::Recover(rng.below(2) as u8, Box::new(G::Both(Box::new(G::One(0)), Box::new(G::One(1)))), Rec::After(5)),
                };
                let scoped = match rng.below(4) {
                    0 => G::FilterWith(*rng.pick(&[1u32, 3]), Box::new(rec)),
                    1 => G::Unfiltered(Box::new(rec)),
                    2 => G::FilterWith(1, Box::new(G::Stabilize(Box::new(G::One(0))))),
                    _ => rec,
                };
                let pre = if rng.chance(1, 2) { Some(G::Recover(1, Box::new(G::Seq(vec![2, 2])), Rec::After(5))) } else { None };
                let later = G::Either(Box::new(G::Stabilize(Box::new(G::One(1)))), Box::new(G::Maybe(Box::new(G::One(3)))));
                let mut g = G::Both(Box::new(scoped), Box::new(G::Both(Box::new(G::Probe(5)), Box::new(G::Both(Box::new(later), Box::new(G::Probe(9)))))));
                if let Some(p) = pre { g = G::Both(Box::new(p), Box::new(g)); }
                let g = G::Both(Box::new(G::Probe(0)), Box::new(g));
                let mut c = mk(String::new(), rng, g);
                let mut text = String::from(*rng.pick(&["", "c ; ", "c d ; "]));
                for _ in 0..2 + rng.below(4) {
                    text.push_str(*rng.pick(&["a ", "d ", "a ; ", "d ; ", "c ", "; ", "b ", "b ; ", "a"]));
                }
                c.text = text; c.le = LineEnding::Lf; c.tab = 4; c.filter = Some(1);
                c.sink = rng.chance(4, 5); c.nctx = rng.below(3);
                c
            }
            "scoped" if i % 8 == 6 => {
                // one `raw` parser object applied under different contexts: `stabilize` runs its first
                // attempt in the caller's context and its retries without the sink.  The lexer arrives
                // recovering (an earlier, unstabilised recovery), the wrapped parser reports through the
                // sink and then fails, so the retries happen.
                let pre = G::Recover(1, Box::new(G::Seq(vec![2, 2])), Rec::After(5));
                let p = G::Both(
                    Box::new(G::Recover(rng.below(2) as u8, Box::new(G::One(0)), Rec::Before(5))),
                    Box::new(G::One(1)));
                let wrapped = if rng.chance(3, 4) { G::Raw(Box::new(p)) } else { p };
                // (absorbed by an alternative, not by `maybe`, which would take the sink away itself)
                let st = G::Either(Box::new(G::Stabilize(Box::new(wrapped))), Box::new(G::Maybe(Box::new(G::One(3)))));
                let g = G::Both(Box::new(G::Probe(0)), Box::new(G::Both(Box::new(pre),
                    Box::new(G::Both(Box::new(st), Box::new(G::Probe(9)))))));
                let mut c = mk(String::new(), rng, g);
                let mut text = String::from(*rng.pick(&["c ; ", "c d ; ", "c c ", "b ; ", "; "]));
                for _ in 0..1 + rng.below(4) {
                    text.push_str(*rng.pick(&["a ", "d ", "a ; ", "d ; ", "a b ", "; ", "b ", "b ; "]));
                }
                c.text = text; c.le = LineEnding::Lf; c.tab = 4; c.filter = Some(1);
                c.sink = rng.chance(4, 5); c.nctx = rng.below(3);
                c
            }
            "scoped" if i % 8 == 7 => {
                // a list whose item can succeed on nothing (so the optional trailing item after a
                // trailing separator SUCCEEDS at the abort token), followed by siblings that need
                // the context intact: probes and a recovering parser
                let item = match rng.below(3) {
                    0 => G::Maybe(Box::new(G::One(0))),
                    1 => G::SeqCount(vec![0]),
                    _ => G::List(rng.below(4) as u8, 0, None, Box::new(G::One(0)), 5, vec![4, 9]),
                };
                let list = G::List(rng.below(4) as u8, 0, None, Box::new(item), 4, vec![9]);
                let after = match rng.below(3) {
                    0 => G::Both(Box::new(G::Probe(9)), Box::new(G::Recover(1, Box::new(G::One(1)), Rec::Before(5)))),
                    1 => G::Both(Box::new(G::Maybe(Box::new(G::One(9)))), Box::new(G::Probe(9))),
                    _ => G::Probe(9),
                };
                let g = G::Both(Box::new(G::Probe(0)), Box::new(G::Both(Box::new(list), Box::new(after))));
                let mut c = mk(String::new(), rng, g);
                let n = 1 + rng.below(3);
                let mut text = String::new();
                for k in 0..n {
                    if k > 0 { text.push_str(*rng.pick(&[",", " , ", ", "])); }
                    text.push_str(*rng.pick(&["a", "a", "", "a;a"]));
                }
                text.push_str(*rng.pick(&[",", " ,", ", ", ""]));
                text.push_str(*rng.pick(&["]", "] d", "]b;", "", " ]"]));
                c.text = text; c.le = LineEnding::Lf; c.tab = 4; c.filter = Some(1);
                c.sink = rng.chance(3, 4); c.nctx = rng.below(3);
                c
            }
            "scoped" => { let g = gen_scoped(rng); let mut c = mk(token_text(rng, 8, &[';', ',']), rng, g); c.sink = rng.chance(3, 4); c.nctx = rng.below(4); c }
            "ctxops" => {
                let mut t = 0;
                let d = 1 + rng.below(4); let g = gen_ctx(rng, d, &mut t);
                let mut c = mk(String::from("a"), rng, g);
                c.sink = rng.chance(3, 4);
                c.nctx = rng.below(4);
                c
            }
            "term" | "nopanic" => {
                let g = match rng.below(10) {
                    8 | 9 => gen_recover(rng),
                    0 => gen_peg(rng, 2),
                    1 => gen_rep(rng),
                    2 => gen_bracket(rng, 1),
                    3 => gen_list(rng),
                    4 => gen_recover(rng),
                    5 => gen_committed(rng, 2),
                    6 => G::Stabilize(Box::new(gen_peg(rng, 2))),
                    _ => gen_scoped(rng),
                };
                let text = if family == "nopanic" && rng.chance(1, 2) { random_text(rng, ALPHABET, 10) } else { token_text(rng, 10, &['(', ')', '[', ']', ',', ';']) };
                let mut c = mk(text, rng, g);
                if family == "nopanic" {
                    c.le = *rng.pick(LINE_ENDINGS);
                    c.tab = 1 + rng.below(8) as u8;
                }
                c
            }
            _ => return,
        };
        let mut c = c;
        if matches!(family, "bracket" | "list" | "errors" | "term" | "nopanic" | "peg" | "rep" | "capture") && rng.chance(1, 3) {
            // one case in three applies the same compiled parser object two or three times
            c.invocations = 2 + rng.below(2);
        }
        emit(out, family, &c);
    }
}

pub fn replay(family: &str, f: &[&str]) -> Option<String> {
    match family {
        "twice" => Some(run_case_twice(&parse_case(f)?)),
        "peg" | "rep" | "capture" | "errors" | "bracket" | "list" | "recover" | "scoped" | "ctxops"
        | "term" | "nopanic" => Some(run_case(&parse_case(f)?)),
        _ => None,
    }
}
