//! Deterministic generation: one SplitMix64 state per run, the shared alphabet,
//! text enumeration.

use tephra_span::{ColumnMetrics, LineEnding, Pos};

#[derive(Clone)]
pub struct Rng(pub u64);

impl Rng {
    pub fn new(seed: u64) -> Self {
        Rng(seed.wrapping_mul(0x9E37_79B9_7F4A_7C15).wrapping_add(0x1234_5678_9ABC_DEF1))
    }
    pub fn next(&mut self) -> u64 {
        self.0 = self.0.wrapping_add(0x9E37_79B9_7F4A_7C15);
        let mut z = self.0;
        z = (z ^ (z >> 30)).wrapping_mul(0xBF58_476D_1CE4_E5B9);
        z = (z ^ (z >> 27)).wrapping_mul(0x94D0_49BB_1331_11EB);
        z ^ (z >> 31)
    }
    pub fn below(&mut self, n: usize) -> usize {
        if n == 0 { 0 } else { (self.next() % (n as u64)) as usize }
    }
    pub fn chance(&mut self, num: usize, den: usize) -> bool {
        self.below(den) < num
    }
    pub fn pick<'a, T>(&mut self, xs: &'a [T]) -> &'a T {
        &xs[self.below(xs.len())]
    }
}

/// The full alphabet of DESIGN §5.
pub const ALPHABET: &[char] = &[
    'a', 'b', 'c', 'd', ' ', '\t', '\r', '\n', ',', ';',
    '(', ')', '[', ']', '{', '}', '#',
    'é', '世', '😀', '\u{301}', '\u{200B}',
];

/// Reduced alphabet for exhaustive enumeration of position-level families.
pub const POS_ALPHABET: &[char] = &['a', ' ', '\t', '\r', '\n', 'é', '世', '\u{301}'];

pub const LINE_ENDINGS: &[LineEnding] = &[LineEnding::Lf, LineEnding::Cr, LineEnding::CrLf];

pub fn le_name(le: LineEnding) -> &'static str {
    match le {
        LineEnding::Lf => "lf",
        LineEnding::Cr => "cr",
        LineEnding::CrLf => "crlf",
    }
}

/// The documented defaults (LF, tab width 4) are *not* set explicitly, so that the library's own
/// defaults (`DEFAULT_LINE_ENDING`, `DEFAULT_TAB_WIDTH`) are what such cases run with; the model
/// holds them as literals.
pub fn metrics(le: LineEnding, tab: u8) -> ColumnMetrics {
    let mut m = ColumnMetrics::new();
    if le != LineEnding::Lf {
        m = m.with_line_ending(le);
    }
    if tab != 4 {
        m = m.with_tab_width(tab);
    }
    m
}

/// All strings over `alphabet` of length exactly `n`.
pub fn all_texts(alphabet: &[char], n: usize) -> Vec<String> {
    let mut out = vec![String::new()];
    for _ in 0..n {
        let mut next = Vec::with_capacity(out.len() * alphabet.len());
        for s in &out {
            for c in alphabet {
                let mut t = s.clone();
                t.push(*c);
                next.push(t);
            }
        }
        out = next;
    }
    out
}

pub fn all_texts_up_to(alphabet: &[char], n: usize) -> Vec<String> {
    let mut out = Vec::new();
    for k in 0..=n {
        out.extend(all_texts(alphabet, k));
    }
    out
}

pub fn random_text(rng: &mut Rng, alphabet: &[char], max_len: usize) -> String {
    let n = rng.below(max_len + 1);
    let mut s = String::new();
    for _ in 0..n {
        // bias towards line structure
        let c = if rng.chance(1, 5) {
            *rng.pick(&['\n', '\r', '\t'])
        } else {
            *rng.pick(alphabet)
        };
        s.push(c);
    }
    // make CRLF pairs likely
    if rng.chance(1, 2) {
        s = s.replace("\r", "\r\n");
    }
    s
}

/// The aligned positions of `text` as the implementation's own forward
/// measurement reports them (`next_position` chain from `Pos::ZERO`).
pub fn positions(text: &str, m: ColumnMetrics) -> Vec<Pos> {
    let mut out = vec![Pos::ZERO];
    let mut p = Pos::ZERO;
    while let Some(q) = m.next_position(text, p) {
        out.push(q);
        p = q;
        if out.len() > text.len() + 2 { break; }
    }
    out
}
