//! The grammar AST `G` (DESIGN §5), its S-expression form, its compilation onto
//! the real generic combinators, and the canonical rendering of values, errors
//! and lexer states.  Mirrored by lean/TephraModel/Grammar.lean + Run.lean.

use crate::lex::filter_fn;
use crate::scan::*;
use crate::wire;
use simple_predicates::Expr;
use std::cell::RefCell;
use std::rc::Rc;
use tephra::error::*;
use tephra::{Context, Lexer, ParseError, ParseResult, ParseResultExt as _, Success};
use tephra_combinator::*;
use tephra_error::{recover_after, recover_after_any, recover_before, recover_before_any, Recover};
use tephra_span::Span;

////////////////////////////////////////////////////////////////////////////////
// AST
////////////////////////////////////////////////////////////////////////////////

#[derive(Clone, Debug, PartialEq)]
pub enum Rec {
    Before(u32),
    After(u32),
    BeforeAny(Vec<u32>),
    AfterAny(Vec<u32>),
}

/// Token predicate expressions for `pred` (a fragment of `simple_predicates::Expr`).
#[derive(Clone, Debug, PartialEq)]
pub enum PE {
    Var(u32),
    Not(Box<PE>),
    And(Box<PE>, Box<PE>),
    Or(Box<PE>, Box<PE>),
}

type B = Box<G>;

#[derive(Clone, Debug, PartialEq)]
pub enum G {
    Empty,
    One(u32),
    Any(Vec<u32>),
    AnyIndex(Vec<u32>),
    Seq(Vec<u32>),
    SeqCount(Vec<u32>),
    Pred(PE),
    EndOfText,
    Left(B, B),
    Right(B, B),
    Both(B, B),
    Center(B, B, B),
    Map(B),
    Discard(B),
    Either(B, B),
    Maybe(B),
    RequireIf(bool, B),
    Cond(bool, B),
    Implies(B, B),
    Antecedent(B, B),
    Consequent(B, B),
    /// cond_implies(left, |v| v is the token of this kind, right)
    CondImplies(B, u32, B),
    FilterWith(u32, B),
    Unfiltered(B),
    Sub(B),
    Spanned(B),
    Text(B),
    /// variant: 0 repeat, 1 repeat_count
    Repeat(u8, usize, Option<usize>, B),
    /// variant: 0 repeat_until, 1 repeat_count_until; (stop, item)
    RepeatUntil(u8, usize, Option<usize>, B, B),
    /// variant: 0 intersperse, 1 intersperse_count; (item, sep)
    Intersperse(u8, usize, Option<usize>, B, B),
    /// variant: 0 intersperse_until, 1 intersperse_count_until; (stop, item, sep)
    IntersperseUntil(u8, usize, Option<usize>, B, B, B),
    IntersperseDefault(usize, Option<usize>, B, u32),
    Raw(B),
    Unrecoverable(B),
    /// variant: 0 recover, 1 recover_default, 2 recover_delayed, 3 recover_default_delayed
    Recover(u8, B, Rec),
    Stabilize(B),
    /// variant: 0 bracket, 1 bracket_default, 2 bracket_index, 3 bracket_default_index
    Bracket(u8, Vec<u32>, B, Vec<u32>, Vec<u32>),
    /// variant: 0 list, 1 list_bounded, 2 list_default, 3 list_bounded_default
    List(u8, usize, Option<usize>, B, u32, Vec<u32>),
    UpTo(B, Vec<u32>),
    /// harness-only leaf: records where it was started and what the context does
    Probe(u32),
    CtxPushed(u32, B),
    CtxPush(u32, B),
    CtxLocked(bool, B),
}

////////////////////////////////////////////////////////////////////////////////
// S-expressions
////////////////////////////////////////////////////////////////////////////////

fn nums(v: &[u32]) -> String {
    if v.is_empty() { "-".into() } else { v.iter().map(|x| x.to_string()).collect::<Vec<_>>().join(",") }
}

fn hi(h: &Option<usize>) -> String {
    h.map_or("inf".to_string(), |n| n.to_string())
}

pub fn show_rec(r: &Rec) -> String {
    match r {
        Rec::Before(k) => format!("(before {k})"),
        Rec::After(k) => format!("(after {k})"),
        Rec::BeforeAny(ks) => format!("(before_any {})", nums(ks)),
        Rec::AfterAny(ks) => format!("(after_any {})", nums(ks)),
    }
}

pub fn show_pe(p: &PE) -> String {
    match p {
        PE::Var(k) => format!("(v {k})"),
        PE::Not(a) => format!("(not {})", show_pe(a)),
        PE::And(a, b) => format!("(and {} {})", show_pe(a), show_pe(b)),
        PE::Or(a, b) => format!("(or {} {})", show_pe(a), show_pe(b)),
    }
}

pub fn show_g(g: &G) -> String {
    use G::*;
    let b = |x: bool| if x { "1" } else { "0" };
    match g {
        Empty => "(empty)".into(),
        One(k) => format!("(one {k})"),
        Any(ks) => format!("(any {})", nums(ks)),
        AnyIndex(ks) => format!("(any_index {})", nums(ks)),
        Seq(ks) => format!("(seq {})", nums(ks)),
        SeqCount(ks) => format!("(seq_count {})", nums(ks)),
        Pred(p) => format!("(pred {})", show_pe(p)),
        EndOfText => "(end_of_text)".into(),
        Left(a, c) => format!("(left {} {})", show_g(a), show_g(c)),
        Right(a, c) => format!("(right {} {})", show_g(a), show_g(c)),
        Both(a, c) => format!("(both {} {})", show_g(a), show_g(c)),
        Center(a, c, d) => format!("(center {} {} {})", show_g(a), show_g(c), show_g(d)),
        Map(a) => format!("(map {})", show_g(a)),
        Discard(a) => format!("(discard {})", show_g(a)),
        Either(a, c) => format!("(either {} {})", show_g(a), show_g(c)),
        Maybe(a) => format!("(maybe {})", show_g(a)),
        RequireIf(p, a) => format!("(require_if {} {})", b(*p), show_g(a)),
        Cond(p, a) => format!("(cond {} {})", b(*p), show_g(a)),
        Implies(a, c) => format!("(implies {} {})", show_g(a), show_g(c)),
        Antecedent(a, c) => format!("(antecedent {} {})", show_g(a), show_g(c)),
        Consequent(a, c) => format!("(consequent {} {})", show_g(a), show_g(c)),
        CondImplies(a, k, c) => format!("(cond_implies {} {} {})", show_g(a), k, show_g(c)),
        FilterWith(m, a) => format!("(filter_with {} {})", m, show_g(a)),
        Unfiltered(a) => format!("(unfiltered {})", show_g(a)),
        Sub(a) => format!("(sub {})", show_g(a)),
        Spanned(a) => format!("(spanned {})", show_g(a)),
        Text(a) => format!("(text {})", show_g(a)),
        Repeat(v, lo, h, a) => format!("(repeat {} {} {} {})", v, lo, hi(h), show_g(a)),
        RepeatUntil(v, lo, h, s, a) => format!("(repeat_until {} {} {} {} {})", v, lo, hi(h), show_g(s), show_g(a)),
        Intersperse(v, lo, h, a, s) => format!("(intersperse {} {} {} {} {})", v, lo, hi(h), show_g(a), show_g(s)),
        IntersperseUntil(v, lo, h, st, a, s) => {
            format!("(intersperse_until {} {} {} {} {} {})", v, lo, hi(h), show_g(st), show_g(a), show_g(s))
        }
        IntersperseDefault(lo, h, a, k) => format!("(intersperse_default {} {} {} {})", lo, hi(h), show_g(a), k),
        Raw(a) => format!("(raw {})", show_g(a)),
        Unrecoverable(a) => format!("(unrecoverable {})", show_g(a)),
        Recover(v, a, r) => format!("(recover {} {} {})", v, show_g(a), show_rec(r)),
        Stabilize(a) => format!("(stabilize {})", show_g(a)),
        Bracket(v, o, a, c, ab) => format!("(bracket {} {} {} {} {})", v, nums(o), show_g(a), nums(c), nums(ab)),
        List(v, lo, h, a, s, ab) => format!("(list {} {} {} {} {} {})", v, lo, hi(h), show_g(a), s, nums(ab)),
        UpTo(a, ab) => format!("(up_to {} {})", show_g(a), nums(ab)),
        Probe(t) => format!("(probe {t})"),
        CtxPushed(t, a) => format!("(ctx_pushed {} {})", t, show_g(a)),
        CtxPush(t, a) => format!("(ctx_push {} {})", t, show_g(a)),
        CtxLocked(p, a) => format!("(ctx_locked {} {})", b(*p), show_g(a)),
    }
}

#[derive(Debug, Clone)]
pub enum Sx {
    Atom(String),
    List(Vec<Sx>),
}

pub fn parse_sx(s: &str) -> Option<Sx> {
    let toks: Vec<String> = s.replace('(', " ( ").replace(')', " ) ").split_whitespace().map(String::from).collect();
    let mut pos = 0;
    fn go(toks: &[String], pos: &mut usize) -> Option<Sx> {
        let t = toks.get(*pos)?;
        *pos += 1;
        if t == "(" {
            let mut items = Vec::new();
            while toks.get(*pos)? != ")" {
                items.push(go(toks, pos)?);
            }
            *pos += 1;
            Some(Sx::List(items))
        } else {
            Some(Sx::Atom(t.clone()))
        }
    }
    go(&toks, &mut pos)
}

fn atom(s: &Sx) -> Option<&str> {
    if let Sx::Atom(a) = s { Some(a.as_str()) } else { None }
}
fn p_nums(s: &Sx) -> Option<Vec<u32>> {
    let a = atom(s)?;
    if a == "-" { return Some(vec![]); }
    a.split(',').map(|x| x.parse().ok()).collect()
}
fn p_u(s: &Sx) -> Option<u32> { atom(s)?.parse().ok() }
fn p_us(s: &Sx) -> Option<usize> { atom(s)?.parse().ok() }
fn p_hi(s: &Sx) -> Option<Option<usize>> {
    let a = atom(s)?;
    if a == "inf" { Some(None) } else { Some(Some(a.parse().ok()?)) }
}
fn p_b(s: &Sx) -> Option<bool> { Some(atom(s)? == "1") }

pub fn sx_rec(s: &Sx) -> Option<Rec> {
    if let Sx::List(v) = s {
        Some(match atom(&v[0])? {
            "before" => Rec::Before(p_u(&v[1])?),
            "after" => Rec::After(p_u(&v[1])?),
            "before_any" => Rec::BeforeAny(p_nums(&v[1])?),
            "after_any" => Rec::AfterAny(p_nums(&v[1])?),
            _ => return None,
        })
    } else { None }
}

pub fn sx_pe(s: &Sx) -> Option<PE> {
    if let Sx::List(v) = s {
        Some(match atom(&v[0])? {
            "v" => PE::Var(p_u(&v[1])?),
            "not" => PE::Not(Box::new(sx_pe(&v[1])?)),
            "and" => PE::And(Box::new(sx_pe(&v[1])?), Box::new(sx_pe(&v[2])?)),
            "or" => PE::Or(Box::new(sx_pe(&v[1])?), Box::new(sx_pe(&v[2])?)),
            _ => return None,
        })
    } else { None }
}

pub fn sx_g(s: &Sx) -> Option<G> {
    use G::*;
    let v = if let Sx::List(v) = s { v } else { return None };
    let g = |i: usize| -> Option<B> { Some(Box::new(sx_g(v.get(i)?)?)) };
    Some(match atom(v.first()?)? {
        "empty" => Empty,
        "one" => One(p_u(&v[1])?),
        "any" => Any(p_nums(&v[1])?),
        "any_index" => AnyIndex(p_nums(&v[1])?),
        "seq" => Seq(p_nums(&v[1])?),
        "seq_count" => SeqCount(p_nums(&v[1])?),
        "pred" => Pred(sx_pe(&v[1])?),
        "end_of_text" => EndOfText,
        "left" => Left(g(1)?, g(2)?),
        "right" => Right(g(1)?, g(2)?),
        "both" => Both(g(1)?, g(2)?),
        "center" => Center(g(1)?, g(2)?, g(3)?),
        "map" => Map(g(1)?),
        "discard" => Discard(g(1)?),
        "either" => Either(g(1)?, g(2)?),
        "maybe" => Maybe(g(1)?),
        "require_if" => RequireIf(p_b(&v[1])?, g(2)?),
        "cond" => Cond(p_b(&v[1])?, g(2)?),
        "implies" => Implies(g(1)?, g(2)?),
        "antecedent" => Antecedent(g(1)?, g(2)?),
        "consequent" => Consequent(g(1)?, g(2)?),
        "cond_implies" => CondImplies(g(1)?, p_u(&v[2])?, g(3)?),
        "filter_with" => FilterWith(p_u(&v[1])?, g(2)?),
        "unfiltered" => Unfiltered(g(1)?),
        "sub" => Sub(g(1)?),
        "spanned" => Spanned(g(1)?),
        "text" => Text(g(1)?),
        "repeat" => Repeat(p_u(&v[1])? as u8, p_us(&v[2])?, p_hi(&v[3])?, g(4)?),
        "repeat_until" => RepeatUntil(p_u(&v[1])? as u8, p_us(&v[2])?, p_hi(&v[3])?, g(4)?, g(5)?),
        "intersperse" => Intersperse(p_u(&v[1])? as u8, p_us(&v[2])?, p_hi(&v[3])?, g(4)?, g(5)?),
        "intersperse_until" => IntersperseUntil(p_u(&v[1])? as u8, p_us(&v[2])?, p_hi(&v[3])?, g(4)?, g(5)?, g(6)?),
        "intersperse_default" => IntersperseDefault(p_us(&v[1])?, p_hi(&v[2])?, g(3)?, p_u(&v[4])?),
        "raw" => Raw(g(1)?),
        "unrecoverable" => Unrecoverable(g(1)?),
        "recover" => Recover(p_u(&v[1])? as u8, g(2)?, sx_rec(&v[3])?),
        "stabilize" => Stabilize(g(1)?),
        "bracket" => Bracket(p_u(&v[1])? as u8, p_nums(&v[2])?, g(3)?, p_nums(&v[4])?, p_nums(&v[5])?),
        "list" => List(p_u(&v[1])? as u8, p_us(&v[2])?, p_hi(&v[3])?, g(4)?, p_u(&v[5])?, p_nums(&v[6])?),
        "up_to" => UpTo(g(1)?, p_nums(&v[2])?),
        "probe" => Probe(p_u(&v[1])?),
        "ctx_pushed" => CtxPushed(p_u(&v[1])?, g(2)?),
        "ctx_push" => CtxPush(p_u(&v[1])?, g(2)?),
        "ctx_locked" => CtxLocked(p_b(&v[1])?, g(2)?),
        _ => return None,
    })
}

pub fn parse_g(s: &str) -> Option<G> {
    sx_g(&parse_sx(s)?)
}

////////////////////////////////////////////////////////////////////////////////
// Values
////////////////////////////////////////////////////////////////////////////////

#[derive(Clone, Debug, Default, PartialEq)]
pub enum Val {
    #[default]
    Default,
    Unit,
    Tok(Tok),
    Idx(usize),
    Count(usize),
    Toks(Vec<Tok>),
    Pair(Box<Val>, Box<Val>),
    None,
    Some(Box<Val>),
    List(Vec<Val>),
    Spanned(Span, Box<Val>),
    Text(String),
    Mapped(Box<Val>),
}

pub fn show_val(v: &Val) -> String {
    match v {
        Val::Default => "D".into(),
        Val::Unit => "u".into(),
        Val::Tok(t) => format!("t{}.{}", t.kind, t.tag),
        Val::Idx(n) => format!("i{n}"),
        Val::Count(n) => format!("n{n}"),
        Val::Toks(ts) => format!("T[{}]", ts.iter().map(|t| format!("t{}.{}", t.kind, t.tag)).collect::<Vec<_>>().join(",")),
        Val::Pair(a, b) => format!("({},{})", show_val(a), show_val(b)),
        Val::None => "N".into(),
        Val::Some(a) => format!("S({})", show_val(a)),
        Val::List(vs) => format!("L[{}]", vs.iter().map(show_val).collect::<Vec<_>>().join(",")),
        Val::Spanned(s, a) => format!("sp({},{})", wire::span(*s).replace(',', "."), show_val(a)),
        Val::Text(s) => format!("x\"{}\"", wire::codes(s).replace(',', ".")),
        Val::Mapped(a) => format!("m({})", show_val(a)),
    }
}

fn opt(v: Option<Val>) -> Val {
    match v {
        Some(x) => Val::Some(Box::new(x)),
        None => Val::None,
    }
}

////////////////////////////////////////////////////////////////////////////////
// Errors: probe error, tagging transform, canonical description
////////////////////////////////////////////////////////////////////////////////

#[derive(Debug)]
pub struct ProbeError(pub u32);
impl std::fmt::Display for ProbeError {
    fn fmt(&self, f: &mut std::fmt::Formatter<'_>) -> std::fmt::Result { write!(f, "probe {}", self.0) }
}
impl std::error::Error for ProbeError {}
impl ParseError for ProbeError {
    fn into_error(self: Box<Self>) -> Box<dyn std::error::Error + Send + Sync + 'static> { self }
}

/// What an error transform with tag `tag` turns an error into.
#[derive(Debug)]
pub struct Tagged {
    pub tag: u32,
    pub inner: Box<dyn ParseError>,
}
impl std::fmt::Display for Tagged {
    fn fmt(&self, f: &mut std::fmt::Formatter<'_>) -> std::fmt::Result { write!(f, "[{}] {}", self.tag, self.inner) }
}
impl std::error::Error for Tagged {}
impl ParseError for Tagged {
    fn error_span(&self) -> Option<Span> { self.inner.error_span() }
    fn is_recoverable(&self) -> bool { self.inner.is_recoverable() }
    fn into_error(self: Box<Self>) -> Box<dyn std::error::Error + Send + Sync + 'static> { self }
}

pub fn tag_transform<'t>(tag: u32) -> tephra::ErrorTransform<'t> {
    Rc::new(move |e| Box::new(Tagged { tag, inner: e }) as Box<dyn ParseError>)
}

fn dspan(s: Span) -> String { wire::span(s).replace(',', ".") }

fn show_expected(e: &Expected<Tok>) -> String {
    match e {
        Expected::Token(t) => format!("t{}", t.kind),
        Expected::Tokens(ts) => format!("ts{}", ts.iter().map(|t| t.kind.to_string()).collect::<Vec<_>>().join(".")),
        Expected::EndOfText => "eot".into(),
        Expected::AnyToken => "any".into(),
        Expected::Other(_) => "other".into(),
    }
}

fn show_found(f: &Found<Tok>) -> String {
    match f {
        Found::Token(t) => format!("{}.{}", t.kind, t.tag),
        Found::EndOfText => "eot".into(),
    }
}

/// Canonical description of an error (tag trail outermost-last) and, separately,
/// whether rendering it as a source report panics.
pub fn describe(err: Box<dyn ParseError>, source: tephra_span::SourceTextRef<'_>) -> (String, bool) {
    let mut trail: Vec<u32> = Vec::new();
    let mut cur: Box<dyn std::error::Error + Send + Sync> = err.into_error();
    loop {
        match cur.downcast::<Tagged>() {
            Ok(t) => {
                trail.push(t.tag);
                cur = t.inner.into_error();
            }
            Err(other) => {
                cur = other;
                break;
            }
        }
    }
    // trail was collected outermost-first; report innermost-first (application order)
    trail.reverse();
    let tr = trail.iter().map(|t| t.to_string()).collect::<Vec<_>>().join(".");
    let render = |f: &mut dyn FnMut() -> String| -> bool {
        std::panic::catch_unwind(std::panic::AssertUnwindSafe(|| { let _ = f(); })).is_err()
    };
    let (body, render_panic) = if let Some(e) = cur.downcast_ref::<UnexpectedTokenError<Tok>>() {
        let d = format!("unexp{{es={};ts={};exp={};found={}}}", dspan(e.error_span), dspan(e.token_span),
            show_expected(&e.expected), show_found(&e.found));
        let e2 = e.clone();
        (d, render(&mut || format!("{}{}", e2.clone().into_source_error(source), e2)))
    } else if let Some(e) = cur.downcast_ref::<UnrecognizedTokenError>() {
        let e2 = e.clone();
        (format!("unrec{{es={}}}", dspan(e.error_span)),
         render(&mut || format!("{}{}", e2.clone().into_source_error(source), e2)))
    } else if cur.downcast_ref::<RecoverError>().is_some() {
        ("recover".to_string(), render(&mut || format!("{}{}", Box::new(RecoverError).into_source_error(source), RecoverError)))
    } else if let Some(e) = cur.downcast_ref::<ParseBoundaryError>() {
        let e2 = *e;
        (format!("boundary{{es={};end={}}}", dspan(e.error_span), wire::pos(e.expected_end_pos).replace(',', ".")),
         render(&mut || format!("{}{}", e2.into_source_error(source), e2)))
    } else if let Some(e) = cur.downcast_ref::<MatchBracketError>() {
        let e2 = *e;
        let d = match e {
            MatchBracketError::NoneFound { expected_start } => format!("bracket{{none={}}}", dspan(*expected_start)),
            MatchBracketError::Unclosed { found_start } => format!("bracket{{unclosed={}}}", dspan(*found_start)),
            MatchBracketError::Unopened { found_end } => format!("bracket{{unopened={}}}", dspan(*found_end)),
            MatchBracketError::Mismatch { found_start, found_end } => {
                format!("bracket{{mismatch={}/{}}}", dspan(*found_start), dspan(*found_end))
            }
        };
        (d, render(&mut || format!("{}{}", e2.into_source_error(source), e2)))
    } else if let Some(e) = cur.downcast_ref::<RepeatCountError>() {
        let e2 = *e;
        (format!("count{{es={};found={};min={};max={}}}", dspan(e.error_span), e.found, e.expected_min,
            e.expected_max.map_or("inf".to_string(), |n| n.to_string())),
         render(&mut || format!("{}{}", e2.into_source_error(source), e2)))
    } else if let Some(e) = cur.downcast_ref::<ProbeError>() {
        (format!("probe{{{}}}", e.0), false)
    } else {
        ("unknown".to_string(), false)
    };
    (format!("E[{}]{}", tr, body), render_panic)
}

/// A structural copy of an error (the library's error types are `Clone` with public fields; the
/// harness's `Tagged` wrapper is rebuilt around the copy).  `None`: an error type unknown here.
pub fn clone_err(e: &dyn ParseError) -> Option<Box<dyn ParseError>> {
    let r = e.as_error();
    if let Some(t) = r.downcast_ref::<Tagged>() {
        let inner = clone_err(&*t.inner)?;
        Some(Box::new(Tagged { tag: t.tag, inner }))
    } else if let Some(x) = r.downcast_ref::<UnexpectedTokenError<Tok>>() {
        Some(Box::new(x.clone()))
    } else if let Some(x) = r.downcast_ref::<UnrecognizedTokenError>() {
        Some(Box::new(x.clone()))
    } else if r.downcast_ref::<RecoverError>().is_some() {
        Some(Box::new(RecoverError))
    } else if let Some(x) = r.downcast_ref::<ParseBoundaryError>() {
        Some(Box::new(*x))
    } else if let Some(x) = r.downcast_ref::<MatchBracketError>() {
        Some(Box::new(*x))
    } else if let Some(x) = r.downcast_ref::<RepeatCountError>() {
        Some(Box::new(*x))
    } else if let Some(x) = r.downcast_ref::<ProbeError>() {
        Some(Box::new(ProbeError(x.0)))
    } else {
        None
    }
}

/// The text inside `Expected::Other` of the innermost error, if that is what it carries.
fn other_msg(e: &dyn ParseError) -> Option<String> {
    let r = e.as_error();
    if let Some(t) = r.downcast_ref::<Tagged>() {
        other_msg(&*t.inner)
    } else if let Some(x) = r.downcast_ref::<UnexpectedTokenError<Tok>>() {
        match &x.expected {
            Expected::Other(m) => Some(m.clone()),
            _ => None,
        }
    } else {
        None
    }
}

/// The `report=` field: the error converted into a source report by the library
/// (`ParseError::into_source_error` on the boxed error exactly as the parser returned it) and
/// formatted with colour disabled, as code points.  The text of `Expected::Other` (for `pred`: the
/// `Debug` rendering of a `simple_predicates::DnfVec`, outside the model) is replaced by `<pred>`.
pub fn report_of(err: Box<dyn ParseError>, source: tephra_span::SourceTextRef<'_>) -> String {
    let other = other_msg(&*err);
    let r = std::panic::catch_unwind(std::panic::AssertUnwindSafe(|| {
        format!("{}", err.into_source_error(source).with_color(false))
    }));
    match r {
        Ok(text) => {
            let text = match other {
                Some(m) => text.replacen(&format!("expected {}; found ", m), "expected <pred>; found ", 1),
                None => text,
            };
            crate::render::encode(&text)
        }
        Err(_) => "panic".to_string(),
    }
}

/// Fill `slot` (if still empty) with the report of `err`, rendered from the error object itself;
/// hands back a structural copy for the canonical description.
pub fn take_report(slot: &mut Option<String>, err: Box<dyn ParseError>, source: tephra_span::SourceTextRef<'_>)
    -> Box<dyn ParseError>
{
    if slot.is_some() { return err; }
    match clone_err(&*err) {
        Some(copy) => {
            *slot = Some(report_of(err, source));
            copy
        }
        None => {
            *slot = Some("unknown".to_string());
            err
        }
    }
}

////////////////////////////////////////////////////////////////////////////////
// Compilation onto the real combinators
////////////////////////////////////////////////////////////////////////////////

pub type P<'t> = Box<dyn FnMut(Lexer<'t, Sc>, Context<'t, Sc>) -> ParseResult<'t, Sc, Val> + 't>;

#[derive(Clone)]
pub struct Env<'t> {
    pub source: tephra_span::SourceTextRef<'t>,
    pub probes: Rc<RefCell<Vec<String>>>,
    pub render_panics: Rc<RefCell<usize>>,
}

fn leak(ks: &[u32]) -> &'static [Tok] {
    Box::leak(ks.iter().map(|k| tok(*k)).collect::<Vec<_>>().into_boxed_slice())
}

fn kinds_pred(ks: &[u32]) -> impl Fn(&Tok) -> bool + Clone + 'static {
    let ks: Vec<u32> = ks.to_vec();
    move |t: &Tok| ks.contains(&t.kind)
}

fn pe_expr(p: &PE) -> Expr<Tok> {
    match p {
        PE::Var(k) => Expr::Var(tok(*k)),
        PE::Not(a) => Expr::Not(Box::new(pe_expr(a))),
        PE::And(a, b) => Expr::And(Box::new(pe_expr(a)), Box::new(pe_expr(b))),
        PE::Or(a, b) => Expr::Or(Box::new(pe_expr(a)), Box::new(pe_expr(b))),
    }
}

pub fn make_rec(r: &Rec) -> Recover<Tok> {
    match r {
        Rec::Before(k) => recover_before(tok(*k)),
        Rec::After(k) => recover_after(tok(*k)),
        Rec::BeforeAny(ks) => recover_before_any(ks.iter().map(|k| tok(*k)).collect::<Vec<_>>()),
        Rec::AfterAny(ks) => recover_after_any(ks.iter().map(|k| tok(*k)).collect::<Vec<_>>()),
    }
}

/// The remaining filtered stream of a lexer (iterating a clone).
pub fn rest_of(lexer: &Lexer<'_, Sc>) -> String {
    let mut c = lexer.clone();
    let mut items = Vec::new();
    let mut guard = 0;
    while let Some(t) = c.next() {
        items.push(format!("{}.{}@{}", t.kind, t.tag, dspan(c.token_span())));
        guard += 1;
        if guard > 2000 { break; }
    }
    format!("[{}]", items.join(","))
}

pub fn show_lexer(lexer: &Lexer<'_, Sc>) -> String {
    format!(
        "cur={};ts={};ps={};f={};r={};rest={}",
        wire::pos(lexer.cursor_pos()).replace(',', "."),
        dspan(lexer.token_span()),
        dspan(lexer.parse_span()),
        wire::b(lexer.filter().is_some()),
        wire::b(lexer.recover_state().is_some()),
        rest_of(lexer)
    )
}

pub fn build<'t>(g: &G, env: &Env<'t>) -> P<'t> {
    use G::*;
    let bx = |g: &G| build(g, env);
    match g {
        Empty => Box::new(|l, c| empty(l, c).map_value(|_| Val::Unit)),
        One(k) => {
            let mut p = one(tok(*k));
            Box::new(move |l, c| p(l, c).map_value(Val::Tok))
        }
        Any(ks) => {
            let mut p = any(leak(ks));
            Box::new(move |l, c| p(l, c).map_value(Val::Tok))
        }
        AnyIndex(ks) => {
            let mut p = any_index(leak(ks));
            Box::new(move |l, c| p(l, c).map_value(Val::Idx))
        }
        Seq(ks) => {
            let mut p = seq(leak(ks));
            Box::new(move |l, c| p(l, c).map_value(Val::Toks))
        }
        SeqCount(ks) => {
            let mut p = seq_count(leak(ks));
            Box::new(move |l, c| p(l, c).map_value(Val::Count))
        }
        Pred(pe) => {
            let mut p = pred(pe_expr(pe));
            Box::new(move |l, c| p(l, c).map_value(Val::Tok))
        }
        EndOfText => Box::new(|l, c| end_of_text(l, c).map_value(|_| Val::Unit)),
        Left(a, b) => Box::new(left(bx(a), bx(b))),
        Right(a, b) => Box::new(right(bx(a), bx(b))),
        Both(a, b) => {
            let mut p = both(bx(a), bx(b));
            Box::new(move |l, c| p(l, c).map_value(|(x, y)| Val::Pair(Box::new(x), Box::new(y))))
        }
        Center(a, b, d) => Box::new(center(bx(a), bx(b), bx(d))),
        Map(a) => Box::new(map(bx(a), |v| Val::Mapped(Box::new(v)))),
        Discard(a) => {
            let mut p = discard(bx(a));
            Box::new(move |l, c| p(l, c).map_value(|_| Val::Unit))
        }
        Either(a, b) => Box::new(either(bx(a), bx(b))),
        Maybe(a) => {
            let mut p = maybe(bx(a));
            Box::new(move |l, c| p(l, c).map_value(opt))
        }
        // The predicates answer `flag` only while their combinator is being applied; asked at any
        // other time (when the combinator is built, say) they answer the opposite: a predicate is a
        // function the combinator must call when it parses, its answer may change between calls.
        RequireIf(flag, a) => {
            let flag = *flag;
            let live = Rc::new(std::cell::Cell::new(false));
            let live2 = live.clone();
            let mut p = require_if(move || if live2.get() { flag } else { !flag }, bx(a));
            Box::new(move |l, c| {
                live.set(true);
                let r = p(l, c);
                live.set(false);
                r.map_value(opt)
            })
        }
        Cond(flag, a) => {
            let flag = *flag;
            let live = Rc::new(std::cell::Cell::new(false));
            let live2 = live.clone();
            let mut p = cond(move || if live2.get() { flag } else { !flag }, bx(a));
            Box::new(move |l, c| {
                live.set(true);
                let r = p(l, c);
                live.set(false);
                r.map_value(opt)
            })
        }
        Implies(a, b) => {
            let mut p = implies(bx(a), bx(b));
            Box::new(move |l, c| p(l, c).map_value(|v| opt(v.map(|(x, y)| Val::Pair(Box::new(x), Box::new(y))))))
        }
        Antecedent(a, b) => {
            let mut p = antecedent(bx(a), bx(b));
            Box::new(move |l, c| p(l, c).map_value(opt))
        }
        Consequent(a, b) => {
            let mut p = consequent(bx(a), bx(b));
            Box::new(move |l, c| p(l, c).map_value(opt))
        }
        CondImplies(a, k, b) => {
            let k = *k;
            let mut p = cond_implies(bx(a), move |v: &Val| matches!(v, Val::Tok(t) if t.kind == k), bx(b));
            Box::new(move |l, c| {
                p(l, c).map_value(|v| opt(v.map(|(x, y)| Val::Pair(Box::new(x), Box::new(opt(y))))))
            })
        }
        FilterWith(m, a) => {
            let m = *m;
            Box::new(filter_with(move |t: &Tok| passes(m, t), bx(a)))
        }
        Unfiltered(a) => Box::new(unfiltered(bx(a))),
        Sub(a) => Box::new(sub(bx(a))),
        Spanned(a) => {
            let mut p = spanned(bx(a));
            Box::new(move |l, c| p(l, c).map_value(|s: tephra::Spanned<Val>| Val::Spanned(s.span, Box::new(s.value))))
        }
        Text(a) => {
            let mut p = text(bx(a));
            Box::new(move |l, c| p(l, c).map_value(|s: &str| Val::Text(s.to_string())))
        }
        Repeat(v, lo, h, a) => {
            let (lo, h) = (*lo, *h);
            if *v == 0 {
                let mut p = repeat(lo, h, bx(a));
                Box::new(move |l, c| p(l, c).map_value(Val::List))
            } else {
                let mut p = repeat_count(lo, h, bx(a));
                Box::new(move |l, c| p(l, c).map_value(Val::Count))
            }
        }
        RepeatUntil(v, lo, h, s, a) => {
            let (lo, h) = (*lo, *h);
            if *v == 0 {
                let mut p = repeat_until(lo, h, bx(s), bx(a));
                Box::new(move |l, c| p(l, c).map_value(Val::List))
            } else {
                let mut p = repeat_count_until(lo, h, bx(s), bx(a));
                Box::new(move |l, c| p(l, c).map_value(Val::Count))
            }
        }
        Intersperse(v, lo, h, a, s) => {
            let (lo, h) = (*lo, *h);
            if *v == 0 {
                let mut p = intersperse(lo, h, bx(a), bx(s));
                Box::new(move |l, c| p(l, c).map_value(Val::List))
            } else {
                let mut p = intersperse_count(lo, h, bx(a), bx(s));
                Box::new(move |l, c| p(l, c).map_value(Val::Count))
            }
        }
        IntersperseUntil(v, lo, h, st, a, s) => {
            let (lo, h) = (*lo, *h);
            if *v == 0 {
                let mut p = intersperse_until(lo, h, bx(st), bx(a), bx(s));
                Box::new(move |l, c| p(l, c).map_value(Val::List))
            } else {
                let mut p = intersperse_count_until(lo, h, bx(st), bx(a), bx(s));
                Box::new(move |l, c| p(l, c).map_value(Val::Count))
            }
        }
        IntersperseDefault(lo, h, a, k) => {
            let mut p = intersperse_default(*lo, *h, bx(a), tok(*k));
            Box::new(move |l, c| p(l, c).map_value(Val::List))
        }
        Raw(a) => Box::new(raw(bx(a))),
        Unrecoverable(a) => Box::new(unrecoverable(bx(a))),
        Recover(v, a, r) => {
            // The recover closure object is created once per grammar node, so that
            // re-invocations of this parser exercise the same object (C12).
            let rec = make_rec(r);
            match *v {
                0 => {
                    let mut p = recover(bx(a), rec);
                    Box::new(move |l, c| p(l, c).map_value(opt))
                }
                1 => Box::new(recover_default(bx(a), rec)),
                2 => {
                    let mut p = recover_delayed(bx(a));
                    Box::new(move |l, c| p(l, c, Rc::clone(&rec)).map_value(opt))
                }
                _ => {
                    let mut p = recover_default_delayed(bx(a));
                    Box::new(move |l, c| p(l, c, Rc::clone(&rec)))
                }
            }
        }
        Stabilize(a) => Box::new(stabilize(bx(a))),
        Bracket(v, o, a, cl, ab) => {
            let (o, cl) = (leak(o), leak(cl));
            let ab = kinds_pred(ab);
            match *v {
                0 => {
                    let mut p = bracket(o, bx(a), cl, ab);
                    Box::new(move |l, c| p(l, c).map_value(opt))
                }
                1 => Box::new(bracket_default(o, bx(a), cl, ab)),
                2 => {
                    let mut p = bracket_index(o, bx(a), cl, ab);
                    Box::new(move |l, c| p(l, c).map_value(|(x, i)| Val::Pair(Box::new(opt(x)), Box::new(Val::Idx(i)))))
                }
                _ => {
                    let mut p = bracket_default_index(o, bx(a), cl, ab);
                    Box::new(move |l, c| p(l, c).map_value(|(x, i)| Val::Pair(Box::new(x), Box::new(Val::Idx(i)))))
                }
            }
        }
        List(v, lo, h, a, s, ab) => {
            let (lo, h) = (*lo, *h);
            let ab = kinds_pred(ab);
            let s = tok(*s);
            let optlist = |vs: Vec<Option<Val>>| Val::List(vs.into_iter().map(opt).collect());
            match *v {
                0 => {
                    let mut p = list(bx(a), s, ab);
                    Box::new(move |l, c| p(l, c).map_value(optlist))
                }
                1 => {
                    let mut p = list_bounded(lo, h, bx(a), s, ab);
                    Box::new(move |l, c| p(l, c).map_value(optlist))
                }
                2 => {
                    let mut p = list_default(bx(a), s, ab);
                    Box::new(move |l, c| p(l, c).map_value(Val::List))
                }
                _ => {
                    let mut p = list_bounded_default(lo, h, bx(a), s, ab);
                    Box::new(move |l, c| p(l, c).map_value(Val::List))
                }
            }
        }
        UpTo(a, ab) => Box::new(up_to(bx(a), kinds_pred(ab))),
        Probe(tag) => {
            let tag = *tag;
            let env = env.clone();
            Box::new(move |lexer, ctx| {
                // delivery of a probe error through this context, and explicit application
                let sent = match ctx.send_error(Box::new(ProbeError(tag))) {
                    Ok(()) => "sent".to_string(),
                    Err(e) => format!("back:{}", describe(e, env.source).0),
                };
                let applied: ParseResult<'_, Sc, ()> = Err(Box::new(ProbeError(tag)));
                let applied = match applied.apply_context(ctx.clone()) {
                    Err(e) => describe(e, env.source).0,
                    Ok(_) => "?".into(),
                };
                env.probes.borrow_mut().push(format!("P{}:{}:{}:{}", tag, sent, applied, show_lexer(&lexer)));
                Ok(Success { lexer, value: Val::Unit })
            })
        }
        CtxPushed(tag, a) => {
            let tag = *tag;
            let mut p = bx(a);
            Box::new(move |l, c| p(l, c.pushed(tag_transform(tag))))
        }
        CtxPush(tag, a) => {
            let tag = *tag;
            let mut p = bx(a);
            Box::new(move |l, mut c| {
                c.push(tag_transform(tag));
                p(l, c)
            })
        }
        CtxLocked(flag, a) => {
            let flag = *flag;
            let mut p = bx(a);
            Box::new(move |l, c| p(l, c.locked(flag)))
        }
    }
}

/// Initial lexer for a case.
pub fn initial_lexer<'t>(source: tephra_span::SourceTextRef<'t>, sc: usize, filter: Option<u32>) -> Lexer<'t, Sc> {
    let lexer = Lexer::new(Sc::new(sc), source);
    match filter {
        Some(m) => lexer.with_filter(Some(filter_fn(m))),
        None => lexer,
    }
}
