//! Family `render` (C16): building a `SourceError` with span displays and
//! highlights and rendering it.  Shared (via `#[path]`) with the separate crate
//! `harness-color`, which is built without tephra-error's `no-color` feature.

use tephra_error::error::SourceError;
use tephra_error::{Highlight, MessageType, SpanDisplay};
use tephra_span::{ColumnMetrics, LineEnding, Pos, SourceText, Span};

pub struct RenderCase {
    pub text: String,
    pub le: LineEnding,
    pub tab: u8,
    pub named: bool,
    pub color: bool,
    pub mtype: usize,
    /// (display span, highlights (span, message type))
    pub displays: Vec<(Span, Vec<(Span, usize)>)>,
}

pub fn mtype(i: usize) -> MessageType {
    match i {
        1 => MessageType::Error,
        2 => MessageType::Warning,
        3 => MessageType::Note,
        4 => MessageType::Help,
        _ => MessageType::Info,
    }
}

fn dpos(p: Pos) -> String {
    format!("{}.{}.{}", p.byte, p.page.line, p.page.column)
}
pub fn dspan(s: Span) -> String {
    format!("{}.{}", dpos(s.start()), dpos(s.end()))
}
fn pspan(s: &str) -> Option<Span> {
    let v: Vec<usize> = s.split('.').filter_map(|x| x.parse().ok()).collect();
    if v.len() != 6 { return None; }
    Some(Span::enclosing(Pos::new(v[0], v[1], v[2]), Pos::new(v[3], v[4], v[5])))
}

pub fn show_displays(d: &[(Span, Vec<(Span, usize)>)]) -> String {
    if d.is_empty() { return "-".into(); }
    d.iter()
        .map(|(sp, hls)| {
            format!(
                "{}/{}",
                dspan(*sp),
                if hls.is_empty() { "-".to_string() } else {
                    hls.iter().map(|(h, t)| format!("{}:{}", dspan(*h), t)).collect::<Vec<_>>().join(",")
                }
            )
        })
        .collect::<Vec<_>>()
        .join(";")
}

pub fn parse_displays(s: &str) -> Option<Vec<(Span, Vec<(Span, usize)>)>> {
    if s == "-" { return Some(vec![]); }
    s.split(';')
        .map(|d| {
            let (sp, hls) = d.split_once('/')?;
            let hls = if hls == "-" { vec![] } else {
                hls.split(',')
                    .map(|h| {
                        let (hs, t) = h.split_once(':')?;
                        Some((pspan(hs)?, t.parse().ok()?))
                    })
                    .collect::<Option<Vec<_>>>()?
            };
            Some((pspan(sp)?, hls))
        })
        .collect()
}

pub fn encode(s: &str) -> String {
    if s.is_empty() { return "-".into(); }
    s.chars().map(|c| (c as u32).to_string()).collect::<Vec<_>>().join(".")
}

/// Render the case; the observation is the output (code points), and whether
/// an owned copy of the error renders identically.
pub fn render_obs(c: &RenderCase) -> String {
    let r = std::panic::catch_unwind(std::panic::AssertUnwindSafe(|| {
        let mut m = ColumnMetrics::new();
        // the defaults are left to the library (see gen::metrics)
        if c.le != LineEnding::Lf { m = m.with_line_ending(c.le); }
        if c.tab != 4 { m = m.with_tab_width(c.tab); }
        let mut source = SourceText::new(c.text.as_str()).with_column_metrics(m);
        if c.named {
            source = source.with_name("src");
        }
        let mut err = SourceError::new(source, "msg").with_color(c.color);
        // `SourceError::new` makes an error-type display; other types go through a CodeDisplay-level API
        // only via Lexer's Display, so the message type is varied on the highlights instead.
        let _ = c.mtype;
        for (d, (sp, hls)) in c.displays.iter().enumerate() {
            // Equivalent builder routes are alternated so that every public way of putting a report
            // together is exercised (the model has one representation for all of them).
            let mut sd = if hls.len() == 1 && hls[0].0 == *sp && hls[0].1 == 1 && d % 2 == 1 {
                SpanDisplay::new_error_highlight(source, *sp, "h0")
            } else {
                let mut sd = SpanDisplay::new(source, *sp);
                for (i, (h, t)) in hls.iter().enumerate() {
                    let hl = Highlight::new(*h, format!("h{i}"));
                    let hl = if (i + d) % 2 == 0 { hl.with_message_type(mtype(*t)) } else {
                        match *t {
                            1 => hl.with_error_type(),
                            2 => hl.with_warning_type(),
                            3 => hl.with_note_type(),
                            4 => hl.with_help_type(),
                            _ => hl.with_info_type(),
                        }
                    };
                    sd = sd.with_highlight(hl);
                }
                sd
            };
            if c.named && d % 2 == 1 {
                sd = sd.with_source_name("src");
            }
            if d % 2 == 0 { err = err.with_span_display(sd); } else { err.push_span_display(sd); }
        }
        let borrowed = format!("{}", err);
        let owned = format!("{}", err.into_owned());
        format!("{}|{}", encode(&borrowed), if owned == borrowed { "1" } else { "0" })
    }));
    r.unwrap_or_else(|_| "panic".to_string())
}

pub fn case_fields(c: &RenderCase, text_wire: String, le: &str) -> Vec<String> {
    vec![
        text_wire,
        le.to_string(),
        c.tab.to_string(),
        (c.named as u8).to_string(),
        (c.color as u8).to_string(),
        c.mtype.to_string(),
        show_displays(&c.displays),
    ]
}

pub fn parse_case(f: &[&str], text: String, le: LineEnding) -> Option<RenderCase> {
    Some(RenderCase {
        text,
        le,
        tab: f[2].parse().ok()?,
        named: f[3] == "1",
        color: f[4] == "1",
        mtype: f[5].parse().ok()?,
        displays: parse_displays(f[6])?,
    })
}
