//! Line protocol formatting (mirrors lean/TephraModel/Wire.lean).

use std::panic::{catch_unwind, AssertUnwindSafe};
use tephra_span::{Pos, Span};
use unicode_width::UnicodeWidthChar;

pub fn text(s: &str) -> String {
    if s.is_empty() {
        return "-".to_string();
    }
    s.chars()
        .map(|c| format!("{}:{}:{}", c as u32, c.len_utf8(), UnicodeWidthChar::width(c).unwrap_or(0)))
        .collect::<Vec<_>>()
        .join(",")
}

pub fn codes(s: &str) -> String {
    if s.is_empty() {
        return "-".to_string();
    }
    s.chars().map(|c| format!("{}", c as u32)).collect::<Vec<_>>().join(",")
}

pub fn pos(p: Pos) -> String {
    format!("{},{},{}", p.byte, p.page.line, p.page.column)
}

pub fn span(s: Span) -> String {
    format!("{},{}", pos(s.start()), pos(s.end()))
}

pub fn opt_pos(p: Option<Pos>) -> String {
    p.map_or("none".to_string(), pos)
}

pub fn opt_span(p: Option<Span>) -> String {
    p.map_or("none".to_string(), span)
}

pub fn spans<I: IntoIterator<Item = Span>>(it: I) -> String {
    format!("[{}]", it.into_iter().map(span).collect::<Vec<_>>().join(";"))
}

pub fn b(x: bool) -> &'static str {
    if x { "1" } else { "0" }
}

/// Run `f` under `catch_unwind`; a panic becomes the observation `panic`.
pub fn guarded<F: FnOnce() -> String>(f: F) -> String {
    match catch_unwind(AssertUnwindSafe(f)) {
        Ok(s) => s,
        Err(_) => "panic".to_string(),
    }
}

pub struct Out {
    pub lines: usize,
    idx: usize,
    shard: usize,
    shards: usize,
    buf: String,
}

impl Out {
    pub fn new(shard: usize, shards: usize) -> Self {
        Out { lines: 0, idx: 0, shard, shards: shards.max(1), buf: String::with_capacity(1 << 20) }
    }
    /// Emit one case. The observation is computed only if the case belongs to
    /// this shard (cases are numbered in generation order).
    pub fn case<F: FnOnce() -> String>(&mut self, family: &str, fields: &[String], obs: F) {
        let mine = self.idx % self.shards == self.shard;
        self.idx += 1;
        if !mine {
            return;
        }
        let obs = obs();
        self.buf.push_str(family);
        for f in fields {
            self.buf.push('\t');
            self.buf.push_str(f);
        }
        self.buf.push('\t');
        self.buf.push_str(&obs);
        self.buf.push('\n');
        self.lines += 1;
        if self.buf.len() > (1 << 20) {
            self.flush();
        }
    }
    pub fn flush(&mut self) {
        use std::io::Write;
        let stdout = std::io::stdout();
        let mut h = stdout.lock();
        let _ = h.write_all(self.buf.as_bytes());
        self.buf.clear();
    }
}

////////////////////////////////////////////////////////////////////////////////
// Parsing (replay mode)
////////////////////////////////////////////////////////////////////////////////

pub fn parse_text(s: &str) -> String {
    if s.is_empty() || s == "-" {
        return String::new();
    }
    s.split(',')
        .filter_map(|item| item.split(':').next().and_then(|c| c.parse::<u32>().ok()).and_then(char::from_u32))
        .collect()
}

pub fn parse_nats(s: &str) -> Vec<usize> {
    if s.is_empty() || s == "-" {
        return Vec::new();
    }
    s.split(',').filter_map(|x| x.parse().ok()).collect()
}

pub fn parse_pos(s: &str) -> Pos {
    let v = parse_nats(s);
    Pos::new(v[0], v[1], v[2])
}

pub fn parse_span(s: &str) -> Span {
    let v = parse_nats(s);
    Span::enclosing(Pos::new(v[0], v[1], v[2]), Pos::new(v[3], v[4], v[5]))
}

pub fn parse_le(s: &str) -> tephra_span::LineEnding {
    match s {
        "cr" => tephra_span::LineEnding::Cr,
        "crlf" => tephra_span::LineEnding::CrLf,
        _ => tephra_span::LineEnding::Lf,
    }
}
