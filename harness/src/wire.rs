//! Line protocol formatting (mirrors lean/TephraModel/Wire.lean).

use std::panic::{catch_unwind, AssertUnwindSafe};
use tephra_span::{Pos, Span};
use unicode_width::UnicodeWidthChar;

pub fn text(s: &str) -> String {
    if s.is_empty() {
        return "-".to_string();
    }
    s.chars()
        .map(|c| format!("{}:{}:{}", c as u32, c.len_utf8(), UnicodeWidthChar::width(c).unwrap_or(0)))
        .collect::<Vec<_>>()
        .join(",")
}

pub fn codes(s: &str) -> String {
    if s.is_empty() {
        return "-".to_string();
    }
    s.chars().map(|c| format!("{}", c as u32)).collect::<Vec<_>>().join(",")
}

pub fn pos(p: Pos) -> String {
    format!("{},{},{}", p.byte, p.page.line, p.page.column)
}

pub fn span(s: Span) -> String {
    format!("{},{}", pos(s.start()), pos(s.end()))
}

pub fn opt_pos(p: Option<Pos>) -> String {
    p.map_or("none".to_string(), pos)
}

pub fn opt_span(p: Option<Span>) -> String {
    p.map_or("none".to_string(), span)
}

pub fn spans<I: IntoIterator<Item = Span>>(it: I) -> String {
    format!("[{}]", it.into_iter().map(span).collect::<Vec<_>>().join(";"))
}

pub fn b(x: bool) -> &'static str {
    if x { "1" } else { "0" }
}

/// Run `f` under `catch_unwind`; a panic becomes the observation `panic`.
pub fn guarded<F: FnOnce() -> String>(f: F) -> String {
    match catch_unwind(AssertUnwindSafe(f)) {
        Ok(s) => s,
        Err(_) => "panic".to_string(),
    }
}

/// Output buffer with sharding, resumption and a watchdog: a case whose
/// observation takes longer than `TIMEOUT_MS` is reported as `timeout`, the
/// buffer is flushed and the process exits with status 3 after printing
/// `RESUME <next case index>` on stderr (the driver restarts from there).
pub struct Out {
    pub lines: usize,
    idx: usize,
    shard: usize,
    shards: usize,
    start_at: usize,
    shared: std::sync::Arc<std::sync::Mutex<Shared>>,
}

struct Shared {
    buf: String,
    pending: Option<(String, std::time::Instant, usize)>,
}

pub const TIMEOUT_MS: u64 = 3000;

fn write_stdout(s: &str) {
    use std::io::Write;
    let stdout = std::io::stdout();
    let mut h = stdout.lock();
    let _ = h.write_all(s.as_bytes());
    let _ = h.flush();
}

impl Out {
    pub fn new(shard: usize, shards: usize, start_at: usize) -> Self {
        let shared = std::sync::Arc::new(std::sync::Mutex::new(Shared { buf: String::with_capacity(1 << 20), pending: None }));
        let w = std::sync::Arc::clone(&shared);
        let _ = std::thread::spawn(move || loop {
            std::thread::sleep(std::time::Duration::from_millis(100));
            let mut g = match w.lock() { Ok(g) => g, Err(p) => p.into_inner() };
            if let Some((header, since, idx)) = g.pending.clone() {
                if since.elapsed().as_millis() as u64 > TIMEOUT_MS {
                    let mut out = std::mem::take(&mut g.buf);
                    out.push_str(&header);
                    out.push_str("\ttimeout\n");
                    write_stdout(&out);
                    eprintln!("RESUME {}", idx + 1);
                    std::process::exit(3);
                }
            }
        });
        Out { lines: 0, idx: 0, shard, shards: shards.max(1), start_at, shared }
    }
    /// Emit one case. The observation is computed only if the case belongs to
    /// this shard (cases are numbered in generation order).
    pub fn case<F: FnOnce() -> String>(&mut self, family: &str, fields: &[String], obs: F) {
        let idx = self.idx;
        let mine = idx % self.shards == self.shard && idx >= self.start_at;
        self.idx += 1;
        if !mine {
            return;
        }
        let mut header = String::from(family);
        for f in fields {
            header.push('\t');
            header.push_str(f);
        }
        {
            let mut g = self.shared.lock().unwrap();
            g.pending = Some((header.clone(), std::time::Instant::now(), idx));
        }
        let obs = obs();
        let mut g = self.shared.lock().unwrap();
        g.pending = None;
        g.buf.push_str(&header);
        g.buf.push('\t');
        g.buf.push_str(&obs);
        g.buf.push('\n');
        self.lines += 1;
        if g.buf.len() > (1 << 20) {
            let out = std::mem::take(&mut g.buf);
            write_stdout(&out);
        }
    }
    pub fn flush(&mut self) {
        let mut g = self.shared.lock().unwrap();
        let out = std::mem::take(&mut g.buf);
        write_stdout(&out);
    }
}

////////////////////////////////////////////////////////////////////////////////
// Parsing (replay mode)
////////////////////////////////////////////////////////////////////////////////

pub fn parse_text(s: &str) -> String {
    if s.is_empty() || s == "-" {
        return String::new();
    }
    s.split(',')
        .filter_map(|item| item.split(':').next().and_then(|c| c.parse::<u32>().ok()).and_then(char::from_u32))
        .collect()
}

pub fn parse_nats(s: &str) -> Vec<usize> {
    if s.is_empty() || s == "-" {
        return Vec::new();
    }
    s.split(',').filter_map(|x| x.parse().ok()).collect()
}

pub fn parse_pos(s: &str) -> Pos {
    let v = parse_nats(s);
    Pos::new(v[0], v[1], v[2])
}

pub fn parse_span(s: &str) -> Span {
    let v = parse_nats(s);
    Span::enclosing(Pos::new(v[0], v[1], v[2]), Pos::new(v[3], v[4], v[5]))
}

pub fn parse_le(s: &str) -> tephra_span::LineEnding {
    match s {
        "cr" => tephra_span::LineEnding::Cr,
        "crlf" => tephra_span::LineEnding::CrLf,
        _ => tephra_span::LineEnding::Lf,
    }
}
