/-
  TephraModel.LexOps — operation histories over the lexer model (C05).

  `Op τ` is one public `Lexer` call (predicates are arbitrary functions on
  tokens); `forkBegin … forkEnd` clones the current lexer, runs the enclosed
  operations on the clone and discards it.  `exec` interprets a history on a
  stack of lexers (top = the clone currently operated on) and returns, for
  every operation, its output and the state of the lexer it acted on.
  `project` erases everything but advances and filter/metrics configuration;
  `delivered` extracts what the advances outside forks delivered.
-/
import TephraModel.Lexer

namespace Tephra.LexOps
open Tephra

inductive Op (τ : Type) where
  | next | peek | emptyQ
  | nextIf (p : τ → Bool) | advanceTo (p : τ → Bool) | advanceUpTo (p : τ → Bool)
  | setFilter (f : Option Nat) | withFilter (f : Option Nat)
  | startSublex | intoSublexer | spans | forkBegin | forkEnd
  | withLineEnding (le : LineEnding) | withTabWidth (t : Nat) | withMetrics (le : LineEnding) (t : Nat)

inductive Out (τ : Type) where
  | tok (t : Option τ)
  | flag (b : Bool)
  | unit
deriving Repr, DecidableEq

variable {σ τ : Type}

/-- One non-fork operation (`forkBegin`/`forkEnd` are handled by `exec`). -/
def applyOp (E : LexEnv σ τ) (lx : Lexer σ τ) : Op τ → Out τ × Lexer σ τ
  | .next => let r := lx.next E; (.tok r.1, r.2)
  | .peek => let r := lx.peek E; (.tok r.1, r.2)
  | .emptyQ => let r := lx.isEmptyWithFilter E; (.flag r.1, r.2)
  | .nextIf p => let r := lx.nextIf E p; (.tok r.1, r.2)
  | .advanceTo p => let r := lx.advanceTo E p; (.flag r.1, r.2)
  | .advanceUpTo p => let r := lx.advanceUpTo E p; (.flag r.1, r.2)
  | .setFilter f => let r := lx.setFilter E f; (.flag r.1.isSome, r.2)
  | .withFilter f => (.unit, lx.withFilter E f)
  | .startSublex => (.unit, lx.startSublex E)
  | .intoSublexer => (.unit, lx.intoSublexer E)
  | .spans => (.unit, lx)
  | .withLineEnding le => (.unit, lx.withLineEnding E le)
  | .withTabWidth t => (.unit, lx.withTabWidth E t)
  | .withMetrics le t => (.unit, lx.withColumnMetrics E ⟨le, t⟩)
  | .forkBegin => (.unit, lx)
  | .forkEnd => (.unit, lx)

/-- Run a history on a stack of lexers. -/
def exec (E : LexEnv σ τ) : List (Lexer σ τ) → List (Op τ) → List (Out τ × Lexer σ τ)
  | _, [] => []
  | [], _ => []
  | top :: rest, op :: ops =>
    match op with
    | .forkBegin => (.unit, top) :: exec E (top :: top :: rest) ops
    | .forkEnd =>
      let stack := match rest with
        | [] => [top]
        | _ => rest
      (.unit, stack.headD top) :: exec E stack ops
    | _ =>
      let r := applyOp E top op
      r :: exec E (r.2 :: rest) ops

def isAdvance : Op τ → Bool
  | .next | .nextIf _ | .advanceTo _ | .advanceUpTo _ => true
  | _ => false

def isSublex : Op τ → Bool
  | .startSublex | .intoSublexer => true
  | _ => false

/-- Erase fork bodies, lookahead, sub-lex marks and span queries. -/
def projectAux : Nat → List (Op τ) → List (Op τ)
  | _, [] => []
  | depth, op :: ops =>
    match op with
    | .forkBegin => projectAux (depth + 1) ops
    | .forkEnd => projectAux (depth - 1) ops
    | .peek | .emptyQ | .startSublex | .intoSublexer | .spans => projectAux depth ops
    | _ => if depth > 0 then projectAux depth ops else op :: projectAux depth ops

def project (ops : List (Op τ)) : List (Op τ) := projectAux 0 ops

/-- What the advances outside forks delivered: the output, and for a delivered
token its span. -/
def deliveredAux : Nat → List (Op τ) → List (Out τ × Lexer σ τ) → List (Out τ × Option Span)
  | _, [], _ => []
  | _, _, [] => []
  | depth, op :: ops, o :: os =>
    match op with
    | .forkBegin => deliveredAux (depth + 1) ops os
    | .forkEnd => deliveredAux (depth - 1) ops os
    | _ =>
      if depth == 0 && isAdvance op then
        let sp := match o.1 with
          | .tok (some _) => some o.2.tokenSpan
          | _ => none
        (o.1, sp) :: deliveredAux depth ops os
      else deliveredAux depth ops os

def delivered (ops : List (Op τ)) (obs : List (Out τ × Lexer σ τ)) : List (Out τ × Option Span) :=
  deliveredAux 0 ops obs

/-- No sub-lex mark outside forks. -/
def sublexFreeAux : Nat → List (Op τ) → Bool
  | _, [] => true
  | depth, op :: ops =>
    match op with
    | .forkBegin => sublexFreeAux (depth + 1) ops
    | .forkEnd => sublexFreeAux (depth - 1) ops
    | _ => (depth > 0 || !isSublex op) && sublexFreeAux depth ops

def sublexFree (ops : List (Op τ)) : Bool := sublexFreeAux 0 ops

/-- No metrics builder at all (metrics fixed at construction). -/
def metricsFree : List (Op τ) → Bool
  | [] => true
  | .withLineEnding _ :: _ | .withTabWidth _ :: _ | .withMetrics _ _ :: _ => false
  | _ :: ops => metricsFree ops

end Tephra.LexOps
