/-
  TephraModel.Render — the rustc-style report renderer of tephra-error
  (display.rs: `CodeDisplay`, `SpanDisplay`, `MultiSplitLines`, `write_gutter`;
  highlight.rs: `Highlight` with its riser state machine; message.rs, note.rs;
  error/source.rs: `SourceError`), mirrored line by line.

  Colour is a parameter: `paint : Style → String → String` (what the `colored`
  crate does to a string).  With colour disabled the Rust takes separate code
  paths; with colour enabled but the crate's `no-color` feature on, the colour
  code paths run with `paint` = identity.  `{:>w$}` is `padLeft`.
-/
import TephraModel.Span

namespace Tephra.Render
open Tephra

inductive MType where
  | info | error | warning | note | help
deriving Repr, DecidableEq, Inhabited

inductive Color where
  | brightWhite | brightRed | brightYellow | brightBlue | brightGreen
deriving Repr, DecidableEq, Inhabited

structure Style where
  color : Color
  bold : Bool
deriving Repr, DecidableEq, Inhabited

def MType.color : MType → Color
  | .info => .brightWhite
  | .error => .brightRed
  | .warning => .brightYellow
  | .note => .brightBlue
  | .help => .brightGreen

def MType.underline : MType → String
  | .error | .warning => "^"
  | .info | .note => "-"
  | .help => "~"

def MType.label : MType → String
  | .info => "info"
  | .error => "error"
  | .warning => "warning"
  | .note => "note"
  | .help => "help"

/-- what `colored` emits for a styled string when colours are really on -/
def ansi (st : Style) (s : String) : String :=
  let code := match st.color with
    | .brightWhite => "97" | .brightRed => "91" | .brightYellow => "93"
    | .brightBlue => "94" | .brightGreen => "92"
  "\x1b[" ++ (if st.bold then "1;" else "") ++ code ++ "m" ++ s ++ "\x1b[0m"

def plainPaint (_ : Style) (s : String) : String := s

structure Highlight where
  span : Span
  startMsg : Option String
  endMsg : Option String
  mtype : MType
deriving Repr, DecidableEq, Inhabited

structure Note where
  ntype : MType
  text : String
deriving Repr, DecidableEq, Inhabited

structure SpanDisplay where
  name : Option String
  span : Span
  highlights : List Highlight
  notes : List Note
  gutter : Nat
deriving Repr, Inhabited

structure CodeDisplay where
  message : String
  mtype : MType
  codeId : Option String
  spans : List SpanDisplay
  notes : List Note
  colorEnabled : Bool
deriving Repr, Inhabited

def rep (s : String) (n : Nat) : String := String.join (List.replicate n s)

/-- `{:>w$}` -/
def padLeft (w : Nat) (s : String) : String := rep " " (w - s.length) ++ s

/-- number of decimal digits (the repaired gutter width) -/
def gutterWidth (line : Nat) : Nat := (toString line).length

def textString (t : Text) : String := String.ofList (t.map fun c => Char.ofNat c.code)

/-! ### `Display` of spans -/

def showPage (p : Pos) : String := s!"{p.line}:{p.col}"

def showSpan (x : Span) : String :=
  let page := if x.s.line = x.e.line ∧ x.s.col = x.e.col then showPage x.s else showPage x.s ++ "-" ++ showPage x.e
  if x.s.byte = x.e.byte then s!"{page}, byte {x.s.byte}" else s!"{page}, bytes {x.s.byte}-{x.e.byte}"

/-! ### message types and notes -/

def writeMType (paint : Style → String → String) (color : Bool) (m : MType) : String :=
  if color then
    match m with
    | .info => "info"
    | m => paint ⟨m.color, true⟩ m.label
  else m.label

def writeNote (paint : Style → String → String) (color : Bool) (n : Note) : String :=
  writeMType paint color n.ntype ++ ": " ++ n.text

/-! ### highlights -/

namespace Highlight

def isMultiline (h : Highlight) : Bool := h.span.s.line != h.span.e.line

def hasMessageForLine (h : Highlight) (line : Nat) : Bool :=
  (h.span.s.line == line && (h.startMsg.isSome || h.span.s.col != 0)) ||
  (h.span.e.line == line && (h.endMsg.isSome || h.span.e.col != 0))

end Highlight

inductive Riser where
  | unused | waiting | started | ended
deriving Repr, DecidableEq, Inhabited

/-- `write_riser_for_line` (repaired): output and new state.  A highlight that starts above
the current line is started; the riser starts on the source row of the start line (column 0)
or below the highlight's own start mark row, and ends on its own end mark row. -/
def writeRiser (paint : Style → String → String) (color : Bool) (h : Highlight) (line : Nat) (st : Riser)
    (active : Bool) : String × Riser :=
  let st := if st == .waiting && line > h.span.s.line then Riser.started else st
  let st := if st == .started && line > h.span.e.line then Riser.ended else st
  match st with
  | .unused => ("", .unused)
  | .ended => (" ", .ended)
  | .waiting =>
    if line == h.span.s.line && !active && h.span.s.col == 0 && !h.hasMessageForLine line then
      ((if color then paint ⟨h.mtype.color, false⟩ "/" else "/"), .started)
    else if line == h.span.s.line && active then (" ", .started)
    else (" ", .waiting)
  | .started =>
    if line == h.span.e.line && !active && h.span.e.col == 0 && !h.hasMessageForLine line then
      ((if color then paint ⟨h.mtype.color, false⟩ "\\" else "\\"), .ended)
    else if line == h.span.e.line && active then ("|", .ended)
    else ("|", .started)

/-- risers of all highlights for one row; `activeIdx` = index of the highlight whose message row this is -/
def writeRisers (paint : Style → String → String) (color : Bool) (line : Nat) (activeIdx : Option Nat) :
    Nat → List Highlight → List Riser → String × List Riser
  | _, [], _ => ("", [])
  | _, _, [] => ("", [])
  | i, h :: hs, st :: sts =>
    let (o, st') := writeRiser paint color h line st (activeIdx == some i)
    let (os, sts') := writeRisers paint color line activeIdx (i + 1) hs sts
    (o ++ os, st' :: sts')

/-- `write_message_for_line`; `none` = the `todo!()` for two messages on one line -/
def writeMessage (paint : Style → String → String) (color : Bool) (h : Highlight) (line : Nat)
    (extraSpacer : Bool) : Option String :=
  let c : Style := ⟨h.mtype.color, false⟩
  let pc := fun (s : String) => if color then paint c s else s
  if h.span.s.line == line && h.span.e.line == line then
    let lead := (if extraSpacer then " " else "") ++ rep " " h.span.s.col
    let marks :=
      if h.span.isEmpty then pc "\\"
      else String.join (List.replicate (Nat.max (h.span.e.col - h.span.s.col) 1) (pc h.mtype.underline))
    match h.startMsg, h.endMsg with
    | some msg, none | none, some msg => some (lead ++ marks ++ " " ++ pc msg ++ "\n")
    | some _, some _ => none
    | none, none => some (lead ++ marks ++ "\n")
  else if h.span.s.line == line then
    let lead := (if extraSpacer then pc "_" else "") ++
      (if h.span.s.col > 0 then String.join (List.replicate (h.span.s.col - 1) (pc "_")) else "")
    let tail := match h.startMsg with
      | some msg => if color then " " ++ pc msg ++ "\n" else " " ++ msg   -- (sic) no newline without colour
      | none => "\n"
    some (lead ++ pc "^" ++ tail)
  else if h.span.e.line == line then
    let lead := (if extraSpacer then pc "_" else "") ++
      (if h.span.e.col > 0 then String.join (List.replicate (h.span.e.col - 1) (pc "_")) else "")
    let tail := match h.endMsg with
      | some msg => " " ++ pc msg ++ "\n"
      | none => "\n"
    some (lead ++ pc "^" ++ tail)
  else some ""

/-! ### gutter, source rows, message rows -/

def writeGutter (paint : Style → String → String) (color : Bool) (value : String) (w : Nat) : String :=
  if color then
    paint ⟨.brightBlue, true⟩ (padLeft w value) ++ " " ++ paint ⟨.brightBlue, true⟩ "|" ++ " "
  else padLeft w value ++ " | "

/-- the message rows below one source line -/
def messageRows (paint : Style → String → String) (color : Bool) (w : Nat) (line : Nat) (hls : List Highlight)
    (multi : Bool) : Nat → List Highlight → List Riser → Res (String × List Riser)
  | _, [], sts => .ok ("", sts)
  | i, mh :: rest, sts =>
    if !mh.hasMessageForLine line then messageRows paint color w line hls multi (i + 1) rest sts
    else
      let (ris, sts') := writeRisers paint color line (some i) 0 hls sts
      match writeMessage paint color mh line multi with
      | none => .panic
      | some msg =>
        match messageRows paint color w line hls multi (i + 1) rest sts' with
        | .panic => .panic
        | .ok (more, sts'') => .ok (writeGutter paint color "" w ++ ris ++ msg ++ more, sts'')

/-- the loop over source lines of `MultiSplitLines::write_with_color_enablement` -/
def lineRows (paint : Style → String → String) (color : Bool) (src : Source) (w : Nat) (hls : List Highlight) :
    List Span → List Riser → Res String
  | [], _ => .ok ""
  | sp :: more, sts =>
    let line := sp.s.line
    let (ris, sts1) := writeRisers paint color line none 0 hls sts
    let multi := hls.any (·.isMultiline)
    match src.clipped sp with
    | .panic => .panic
    | .ok piece =>
      match messageRows paint color w line hls multi 0 hls sts1 with
      | .panic => .panic
      | .ok (msgs, sts2) =>
        match lineRows paint color src w hls more sts2 with
        | .panic => .panic
        | .ok rest =>
          .ok (writeGutter paint color (toString line) w ++ ris ++ (if multi then " " else "") ++
               textString piece.text ++ "\n" ++ msgs ++ rest)

def writeSpanDisplay (paint : Style → String → String) (color : Bool) (src : Source) (sd : SpanDisplay) :
    Res String :=
  let nameSep := match sd.name with
    | some n => n ++ ":"
    | none => ""
  let arrow := if color then paint ⟨.brightBlue, true⟩ "-->" else "-->"
  let header := rep " " sd.gutter ++ arrow ++ " " ++ nameSep ++ "(" ++ showSpan sd.span ++ ")\n"
  -- `riser width < 255`
  if (sd.highlights.filter (·.isMultiline)).length ≥ 256 then .panic else
  match (SplitLines.ofSpan sd.span src).collect (sd.span.e.line - sd.span.s.line + 2) with
  | .panic => .panic
  | .ok (pieces, _) =>
    let states := sd.highlights.map fun h => if h.isMultiline then Riser.waiting else Riser.unused
    match lineRows paint color src sd.gutter sd.highlights (pieces.map (·.2)) states with
    | .panic => .panic
    | .ok rows =>
      let notes := String.join (sd.notes.map fun n =>
        rep " " sd.gutter ++ " = " ++ writeNote paint color n ++ "\n")
      .ok (header ++ writeGutter paint color "" sd.gutter ++ "\n" ++ rows ++ notes)

def writeSpanDisplays (paint : Style → String → String) (color : Bool) (src : Source) :
    List SpanDisplay → Res String
  | [] => .ok ""
  | sd :: more =>
    match writeSpanDisplay paint color src sd, writeSpanDisplays paint color src more with
    | .ok a, .ok b => .ok (a ++ b)
    | _, _ => .panic

/-- `CodeDisplay::write_with_color_enablement` -/
def writeCodeDisplay (paint : Style → String → String) (src : Source) (cd : CodeDisplay) : Res String :=
  let color := cd.colorEnabled
  let header :=
    if color then
      writeMType paint true cd.mtype ++ (match cd.codeId with | some c => "[" ++ c ++ "]" | none => "") ++
      paint ⟨.brightWhite, true⟩ ":" ++ " " ++ paint ⟨.brightWhite, true⟩ cd.message ++ "\n"
    else writeMType paint false cd.mtype ++ ": " ++ cd.message ++ "\n"
  match writeSpanDisplays paint color src cd.spans with
  | .panic => .panic
  | .ok body => .ok (header ++ body ++ String.join (cd.notes.map (writeNote paint color)))

/-- `SpanDisplay::new(source, span)` -/
def SpanDisplay.new (src : Source) (name : Option String) (span : Span) : Res SpanDisplay :=
  match span.widenToLine src with
  | .panic => .panic
  | .ok wide => .ok { name, span := wide, highlights := [], notes := [], gutter := gutterWidth span.e.line }

end Tephra.Render
