/-
  Family `spanops` (C17): input = two spans; observation = results of the seven
  `Span` operations.
-/
import TephraModel.Wire
import TephraModel.Spec.SpanAlg

namespace Tephra.Fam.SpanOps
open Tephra Tephra.Wire

structure Obs where
  enclose : Span
  intersect : Option Span
  union : List Span
  minus : List Span
  containsS : Bool
  containsE : Bool
  intersects : Bool
  adjacent : Bool
deriving Repr, DecidableEq

/-- What the model of the code returns. -/
def model (x y : Span) : Obs :=
  { enclose := x.enclose y
    intersect := x.intersect y
    union := x.union y
    minus := x.minus y
    containsS := x.contains y.s
    containsE := x.contains y.e
    intersects := x.intersects y
    adjacent := x.adjacent y }

/-- The executable statement of C17 on an observation. -/
def holds (x y : Span) (o : Obs) : Bool :=
  Spec.encloseOK x y o.enclose &&
  Spec.intersectOK x y o.intersect &&
  Spec.unionOK x y o.union &&
  Spec.minusOK x y o.minus &&
  Spec.containsOK x y.s o.containsS &&
  Spec.containsOK x y.e o.containsE &&
  Spec.intersectsOK x y o.intersects &&
  Spec.adjacentOK x y o.adjacent

/-- Which clause fails (for the replay file). -/
def why (x y : Span) (o : Obs) : String :=
  let parts := [("enclose", Spec.encloseOK x y o.enclose),
    ("intersect", Spec.intersectOK x y o.intersect),
    ("union", Spec.unionOK x y o.union),
    ("minus", Spec.minusOK x y o.minus),
    ("contains(start)", Spec.containsOK x y.s o.containsS),
    ("contains(end)", Spec.containsOK x y.e o.containsE),
    ("intersects", Spec.intersectsOK x y o.intersects),
    ("adjacent", Spec.adjacentOK x y o.adjacent)]
  ",".intercalate ((parts.filter (fun p => !p.2)).map (·.1))

def showObs (o : Obs) : String :=
  "|".intercalate [showSpan o.enclose, showOptSpan o.intersect, showSpans o.union,
    showSpans o.minus, showBool o.containsS, showBool o.containsE,
    showBool o.intersects, showBool o.adjacent]

def parseSpans (s : String) : List Span :=
  let inner := (s.drop 1).dropEnd 1
  if inner.isEmpty then [] else (inner.toString.splitOn ";").map parseSpan

def parseObs (s : String) : Option Obs :=
  match s.splitOn "|" with
  | [e, i, u, m, cs, ce, it, ad] =>
    some { enclose := parseSpan e
           intersect := if i == "none" then none else some (parseSpan i)
           union := parseSpans u
           minus := parseSpans m
           containsS := cs == "1"
           containsE := ce == "1"
           intersects := it == "1"
           adjacent := ad == "1" }
  | _ => none

/-- fields: spanA, spanB, implObs → (modelObs, verdict) -/
def run (fields : List String) : String × String :=
  match fields with
  | [a, b, impl] =>
    let x := parseSpan a
    let y := parseSpan b
    let mo := showObs (model x y)
    if impl == "panic" then (mo, "FAIL panic") else
    match parseObs impl with
    | none => (mo, "FAIL unparsable observation")
    | some o =>
      if !(Spec.coh [x.s, x.e, y.s, y.e] && Spec.spanWF x && Spec.spanWF y) then (mo, "SKIP precondition")
      else if holds x y o then (mo, "ok") else (mo, "FAIL " ++ why x y o)
  | _ => ("?", "FAIL bad case line")

end Tephra.Fam.SpanOps
