/-
  Family `nav` (C19, C03): input = text, metrics, canonical base position,
  pattern, character-class predicate id; observation = results of the twelve
  `ColumnMetrics` navigation methods.
-/
import TephraModel.Wire
import TephraModel.Spec.Nav

namespace Tephra.Fam.Nav
open Tephra Tephra.Wire

/-- Character-class predicates shared with the harness (by id). -/
def classPred (id : Nat) (c : Ch) : Bool :=
  match id with
  | 0 => c.code == 97 || c.code == 98 || c.code == 99 || c.code == 100
  | 1 => c.code == 32 || c.code == 9 || c.code == 13 || c.code == 10
  | 2 => true
  | 3 => c.code ≥ 128
  | 4 => c.code != 10
  | 5 => c.code != 13
  | 6 => c.code == 13 || c.code == 97
  | 7 => c.code == 10 || c.code == 9
  | _ => false

structure Obs where
  next : Res (Option Pos)
  prev : Res (Option Pos)
  lineStart : Res Pos
  lineEnd : Res Pos
  prevLineEnd : Res (Option Pos)
  nextLineStart : Res (Option Pos)
  start : Res Pos
  end_ : Res Pos
  afterStr : Res (Option Pos)
  afterChars : Res (Option Pos)
  nextAfterChars : Res (Option Pos)
  isBreak : Res Bool
deriving Repr, DecidableEq

def model (m : Metrics) (t : Text) (p : Pos) (pat : Text) (f : Ch → Bool) : Obs :=
  { next := nextPosition m t p
    prev := previousPosition m t p
    lineStart := lineStartPosition m t p
    lineEnd := lineEndPosition m t p
    prevLineEnd := previousLineEndPosition m t p
    nextLineStart := nextLineStartPosition m t p
    start := startPosition m t p
    end_ := endPosition m t p
    afterStr := positionAfterStr m t p pat
    afterChars := positionAfterCharsMatching m f t p
    nextAfterChars := nextPositionAfterCharsMatching m f t p
    isBreak := isLineBreak m t p.byte }

def ofSpec (s : Spec.NavSpec) : Obs :=
  { next := .ok s.next, prev := .ok s.prev, lineStart := .ok s.lineStart, lineEnd := .ok s.lineEnd
    prevLineEnd := .ok s.prevLineEnd, nextLineStart := .ok s.nextLineStart, start := .ok s.start
    end_ := .ok s.end_, afterStr := .ok s.afterStr, afterChars := .ok s.afterChars
    nextAfterChars := .ok s.nextAfterChars, isBreak := .ok s.isBreak }

def fieldsOf (o : Obs) : List String :=
  [showRes showOptPos o.next, showRes showOptPos o.prev, showRes showPos o.lineStart,
   showRes showPos o.lineEnd, showRes showOptPos o.prevLineEnd, showRes showOptPos o.nextLineStart,
   showRes showPos o.start, showRes showPos o.end_, showRes showOptPos o.afterStr,
   showRes showOptPos o.afterChars, showRes showOptPos o.nextAfterChars, showRes showBool o.isBreak]

def fieldNames : List String :=
  ["next", "previous", "line_start", "line_end", "previous_line_end", "next_line_start",
   "start_position", "end_position", "position_after_str", "position_after_chars_matching",
   "next_position_after_chars_matching", "is_line_break"]

def showObs (o : Obs) : String := "|".intercalate (fieldsOf o)

def diffNames (a b : List String) : String :=
  ",".intercalate (((fieldNames.zip (a.zip b)).filter (fun x => x.2.1 != x.2.2)).map (·.1))

/-- `SourceText::iter_columns(p)`: repeated `next_position`; each item is the byte length of the
step and the position after it (first `n` items) -/
def iterColumns (m : Metrics) (t : Text) : Nat → Pos → Res (List (Nat × Pos))
  | 0, _ => .ok []
  | n + 1, p =>
    match nextPosition m t p with
    | .panic => .panic
    | .ok none => .ok []
    | .ok (some q) =>
      -- `&self.text[s.byte..e.byte]`
      if q.byte < p.byte then .panic else
      match iterColumns m t n q with
      | .panic => .panic
      | .ok rest => .ok ((q.byte - p.byte, q) :: rest)

/-- the column steps of `suf` as the specification sees them: one character, or one whole line break -/
def specColumns (m : Metrics) (pre : Text) : Nat → Text → List (Nat × Pos)
  | 0, _ => []
  | _, [] => []
  | n + 1, c :: rest =>
    match m.le, rest with
    | .crlf, d :: rest' =>
      if c.code == 13 && d.code == 10 then
        (c.size + d.size, Spec.canon m (pre ++ [c, d])) :: specColumns m (pre ++ [c, d]) n rest'
      else (c.size, Spec.canon m (pre ++ [c])) :: specColumns m (pre ++ [c]) n rest
    | _, _ => (c.size, Spec.canon m (pre ++ [c])) :: specColumns m (pre ++ [c]) n rest

def showColumns (l : List (Nat × Pos)) : String :=
  "[" ++ ";".intercalate (l.map fun (k, q) => s!"{k}:{q.byte}.{q.line}.{q.col}") ++ "]"

/-- fields: text, le, tab, pos, pattern, predId, implObs -/
def run (fields : List String) : String × String :=
  match fields with
  | [t, le, tab, p, pat, pid, impl] =>
    let t := parseText t
    let m : Metrics := ⟨parseLE le, nat! tab⟩
    let p := parsePos p
    let pat := parseText pat
    let f := classPred (nat! pid)
    let mo := showObs (model m t p pat f) ++ "|" ++ showRes showColumns (iterColumns m t 12 p)
    match Spec.cutAt m t p.byte with
    | none => (mo, "SKIP base is not an aligned boundary")
    | some (pre, suf) =>
      if Spec.canon m pre != p then (mo, "SKIP base is not canonical") else
      let so := fieldsOf (ofSpec (Spec.navSpec m pre suf pat f)) ++ [showColumns (specColumns m pre 12 suf)]
      let io := impl.splitOn "|"
      if io == so then (mo, "ok")
      else (mo, "FAIL " ++ diffNames io so ++ (if io.getLast? != so.getLast? then ",iter_columns" else "") ++
        " expected " ++ "|".intercalate so)
  | _ => ("?", "FAIL bad case line")

end Tephra.Fam.Nav
