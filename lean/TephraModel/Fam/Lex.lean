/-
  Families `lexiter` (C04, C03) and `lexops` (C05, C03).
-/
import TephraModel.Wire
import TephraModel.Scan
import TephraModel.LexOps
import TephraModel.Spec.Raw
import TephraModel.Spec.Canon
import TephraModel.LexDisplay

namespace Tephra.Fam.Lex
open Tephra Tephra.Wire

def showTok (t : Tok) : String := s!"{t.kind}.{t.tag}"
def showOptTok : Option Tok → String
  | none => "none"
  | some t => showTok t

def parseFilter (s : String) : Option Nat := if s == "n" then none else some (nat! s)

def dotCodes (t : Text) : String :=
  if t.isEmpty then "-" else ".".intercalate (t.map fun c => toString c.code)

def textUnder (t : Text) (x : Span) : String :=
  match Source.sliceBytes t x.s.byte x.e.byte with
  | .ok mid => dotCodes mid
  | .panic => "panic"

def showItem (t : Text) (it : Tok × Span × Span) : String :=
  s!"{showTok it.1}:{showSpan it.2.1}:{showSpan it.2.2}:{textUnder t it.2.1}"

/-! ### lexiter -/

def iterModel (cfg : ScanCfg) (t : Text) (m : Metrics) (filter : Option Nat) :
    List (Tok × Span × Span) × Pos :=
  let E := lexEnv cfg t
  let lx0 : Lexer Nat Tok := Lexer.new 1 m (bytes t)
  let lx := match filter with
    | none => lx0
    | some f => lx0.withFilter E (some f)
  let r := lx.iterWithSpans E
  (r.1, r.2.cursor)

def iterSpec (cfg : ScanCfg) (t : Text) (m : Metrics) (filter : Option Nat) : List (Tok × Span × Span) :=
  let raw := Spec.rawFrom (scanText cfg t) m (bytes t + 1) 1 Pos.zero
  let keep := fun (tok : Tok) => match filter with
    | none => true
    | some f => passesMask f tok
  Spec.delivered keep raw

def showItems (t : Text) (l : List (Tok × Span × Span)) : String :=
  "[" ++ ";".intercalate (l.map (showItem t)) ++ "]"

/-- every endpoint of every delivered span is canonical (C03) -/
def itemsCanon (m : Metrics) (t : Text) (l : List (Tok × Span × Span)) : Bool :=
  l.all fun it => Spec.isCanon m t it.2.1.s && Spec.isCanon m t it.2.1.e &&
    Spec.isCanon m t it.2.2.s && Spec.isCanon m t it.2.2.e

/-- fields: text, le, tab, scanner id, filter, implObs -/
def runIter (fields : List String) : String × String :=
  match fields with
  | [t, le, tab, sc, f, impl] =>
    let t := parseText t
    let m : Metrics := ⟨parseLE le, nat! tab⟩
    let cfg := ScanCfg.ofId (nat! sc)
    let f := parseFilter f
    let (items, cur) := iterModel cfg t m f
    -- last field: `iter_with_spans` agrees with `next` + `token_span` (it is that loop in the model)
    let mo := showItems t items ++ "|" ++ showPos cur ++ "|1"
    let spec := iterSpec cfg t m f
    let so := showItems t spec
    let implItems := (impl.splitOn "|").headD ""
    let raw := Spec.rawFrom (scanText cfg t) m (bytes t + 1) 1 Pos.zero
    let reasons :=
      (if implItems == so then [] else ["C04: delivered stream differs, expected " ++ so]) ++
      (if Spec.tiles Pos.zero raw then [] else ["C04: raw stream does not tile"]) ++
      (if (impl.splitOn "|").getD 2 "1" == "1" then [] else ["C04: iter_with_spans does not yield the tokens and spans of next + token_span"]) ++
      (if itemsCanon m t spec || implItems != so then [] else ["C03: a delivered position is not canonical"])
    (mo, if reasons.isEmpty then "ok" else "FAIL " ++ "; ".intercalate reasons)
  | _ => ("?", "FAIL bad case line")

/-! ### lexops -/

abbrev Op := LexOps.Op Tok

def kindIs (k : Nat) : Tok → Bool := fun t => t.kind == k

def parseOp (s : String) : Option Op :=
  let h := s.take 1 |>.toString
  let r := s.drop 1 |>.toString
  if h == "n" then some .next else if h == "p" then some .peek else if h == "z" then some .emptyQ
  else if h == "i" then some (.nextIf (kindIs (nat! r))) else if h == "e" then some (.nextIf (kindIs (nat! r)))
  else if h == "t" then some (.advanceTo (kindIs (nat! r))) else if h == "u" then some (.advanceUpTo (kindIs (nat! r)))
  else if h == "f" then some (.setFilter (parseFilter r)) else if h == "W" then some (.withFilter (parseFilter r))
  else if h == "s" then some .startSublex else if h == "S" then some .intoSublexer
  else if h == "q" then some .spans else if h == "[" then some .forkBegin else if h == "]" then some .forkEnd
  else if h == "L" then some (.withLineEnding (parseLE r)) else if h == "T" then some (.withTabWidth (nat! r))
  else if h == "M" then
    match r.splitOn ":" with
    | [a, b] => some (.withMetrics (parseLE a) (nat! b))
    | _ => none
  else none

def parseOps (s : String) : List Op :=
  if s == "-" then [] else (s.splitOn " ").filterMap parseOp

abbrev Lx := Lexer Nat Tok

def fingerprint (lx : Lx) : String :=
  let poss := [lx.parseStart, lx.tokenStart, lx.cursor] ++
    (match lx.buffer with
     | some b => [b.peekStart, b.peekCursor]
     | none => [])
  let marks := (match lx.buffer with
     | some b => [s!"S{b.peekScanner}", "T" ++ showTok b.token]
     | none => []) ++ [s!"S{lx.scanner}"]
  "/".intercalate (poss.map showPos) ++ "~" ++ (if lx.buffer.isSome then "buf" else "nobuf") ++ "~" ++
    "/".intercalate marks ++ "~" ++ (if lx.filter.isSome then "F1" else "F0") ++
    (if lx.recover.isSome then "R1" else "R0")

def showLE : LineEnding → String
  | .lf => "lf" | .cr => "cr" | .crlf => "crlf"

/-- `format!("{}", lexer)` in the model: the harness scanners' `Debug` is `S<state>`; the
observation carries a fingerprint `<chars>:<checksum>` of the text (`panic` if formatting panics) -/
def displayObs (t : Text) (lx : Lx) : String :=
  LexDisplay.showRendered (LexDisplay.renderLexer (LexDisplay.lexerSource t lx) s!"S{lx.scanner}" lx)

def stateObs (t : Text) (lx : Lx) : String :=
  "/".intercalate [showSpan lx.tokenSpan, showSpan lx.parseSpan, showPos lx.cursorPos,
    showOptSpan lx.peekTokenSpan, fingerprint lx,
    -- the remaining read-only accessors: peek_parse_span, peek_cursor_pos, is_empty, line_ending, tab_width;
    -- last: the lexer's `Display` text (fingerprint)
    ";".intercalate [showOptSpan lx.peekParseSpan, showOptPos lx.peekCursorPos, showBool lx.isEmpty,
      showLE lx.metrics.le, toString lx.metrics.tab, displayObs t lx]]

def showOut : LexOps.Out Tok → String
  | .tok t => showOptTok t
  | .flag b => showBool b
  | .unit => "-"

def project (ops : List Op) : List Op := LexOps.project ops

/-- `next_if_eq(t)` is `next_if(|x| x == t)` in the model (token equality is by kind). -/
def histModel (cfg : ScanCfg) (t : Text) (m : Metrics) (ops : List Op) : String :=
  let E := lexEnv cfg t
  " ".intercalate ((LexOps.exec E [Lexer.new 1 m (bytes t)] ops).map fun (o, lx) =>
    showOut o ++ "@" ++ stateObs t lx)

/-- Decoding aid (family `lexdisp`, the input fields of `lexops`; the harness side is its `replay`
mode): the whole `Display` text of the lexer after every op, as dot-separated code points. -/
def runDisp (fields : List String) : String × String :=
  match fields with
  | [t, le, tab, sc, opsS, impl] =>
    let t := parseText t
    let m : Metrics := ⟨parseLE le, nat! tab⟩
    let E := lexEnv (ScanCfg.ofId (nat! sc)) t
    let mo := " ".intercalate ((LexOps.exec E [Lexer.new 1 m (bytes t)] (parseOps opsS)).map fun (_, lx) =>
      match LexDisplay.renderLexer (LexDisplay.lexerSource t lx) s!"S{lx.scanner}" lx with
      | .ok s => if s.isEmpty then "-" else ".".intercalate (s.toList.map fun ch => toString ch.toNat)
      | .panic => "panic")
    (mo, if mo == impl then "ok" else "FAIL the Display text of the lexer differs")
  | _ => ("?", "FAIL bad case line")

/-! Oracle: evaluated on the implementation's observation strings. -/

def isAdvance (op : Op) : Bool := LexOps.isAdvance op

/-- (output, token span) of every advancing op outside forks, given per-op observation strings. -/
def deliveredOf (ops : List Op) (obs : List String) : List String :=
  let rec go (depth : Nat) : List Op → List String → List String
    | [], _ => []
    | _, [] => []
    | op :: ops, o :: os =>
      match op with
      | .forkBegin => go (depth + 1) ops os
      | .forkEnd => go (depth - 1) ops os
      | _ =>
        if depth == 0 && isAdvance op then
          let out := (o.splitOn "@").headD ""
          let st := ((o.splitOn "@").getD 1 "").splitOn "/"
          -- a delivered token: output is `k.t`; then its span matters
          let item := if out == "none" || out == "0" || out == "1" then out else out ++ "@" ++ (st.headD "")
          item :: go depth ops os
        else go depth ops os
  go 0 ops obs

/-- positions mentioned in a state observation: token span, parse span, cursor, peek span -/
def positionsOf (o : String) : List Pos :=
  let st := ((o.splitOn "@").getD 1 "").splitOn "/"
  let sp := fun (s : String) => if s == "none" || s == "" then [] else
    let x := parseSpan s; [x.s, x.e]
  sp (st.getD 0 "") ++ sp (st.getD 1 "") ++ [parsePos (st.getD 2 "")] ++ sp (st.getD 3 "")

/-- metrics in force after each op (builder calls change them) -/
def metricsTrace (m : Metrics) : List Op → List Metrics
  | [] => []
  | op :: ops =>
    let m' := match op with
      | .withLineEnding le => { m with le := le }
      | .withTabWidth t => { m with tab := t }
      | .withMetrics le t => ⟨le, t⟩
      | _ => m
    m' :: metricsTrace m' ops

def scans : Op → Bool
  | .spans | .forkBegin | .forkEnd | .withLineEnding _ | .withTabWidth _ | .withMetrics _ _ => false
  | _ => true

/-- F11 signature: a metrics builder call after an op that may have scanned. -/
def metricsAfterScan (ops : List Op) : Bool :=
  let rec go (scanned : Bool) : List Op → Bool
    | [] => false
    | op :: ops =>
      match op with
      | .withLineEnding _ | .withTabWidth _ | .withMetrics _ _ => scanned || go scanned ops
      | _ => go (scanned || scans op) ops
  go false ops

/-- F19 signature: outside forks, a sub-lex mark followed by a filter change with
no token delivered in between. -/
def sublexThenFilter (ops : List Op) (obs : List String) : Bool :=
  let rec go (depth : Nat) (pending : Bool) : List Op → List String → Bool
    | [], _ => false
    | _, [] => false
    | op :: ops, o :: os =>
      match op with
      | .forkBegin => go (depth + 1) pending ops os
      | .forkEnd => go (depth - 1) pending ops os
      | _ =>
        if depth > 0 then go depth pending ops os else
        match op with
        | .startSublex | .intoSublexer => go depth true ops os
        | .setFilter _ | .withFilter _ => pending || go depth pending ops os
        | _ =>
          let out := (o.splitOn "@").headD ""
          -- a token was consumed: `next` / `next_if` returned one, or `advance_to` answered true
          -- (`advance_up_to` stops in front of its token and may consume nothing)
          let consuming := match op with
            | .next | .nextIf _ | .advanceTo _ => true
            | _ => false
          let deliveredTok := consuming && out != "none" && out != "0"
          go depth (pending && !deliveredTok) ops os
  go 0 false ops obs

/-- fields: text, le, tab, scanner id, ops, implObs (`full#projected`) -/
def runOps (fields : List String) : String × String :=
  match fields with
  | [t, le, tab, sc, opsS, impl] =>
    let t := parseText t
    let m : Metrics := ⟨parseLE le, nat! tab⟩
    let cfg := ScanCfg.ofId (nat! sc)
    let ops := parseOps opsS
    let pops := project ops
    let mo := histModel cfg t m ops ++ "#" ++ histModel cfg t m pops
    if impl == "panic" then (mo, "FAIL C01: panic") else
    match impl.splitOn "#" with
    | [full, proj] =>
      let fobs := if full.isEmpty then [] else full.splitOn " "
      let pobs := if proj.isEmpty then [] else proj.splitOn " "
      let df := deliveredOf ops fobs
      let dp := deliveredOf pops pobs
      -- (the finding is attributed only when the implementation behaves exactly as the model of
      -- the pinned code does; a different behaviour on such a history is a violation of its own)
      let f19 := sublexThenFilter ops fobs && impl == mo
      let r1 := if df == dp then [] else
        [(if f19 then "C05: F19-sublex-mark-then-filter-change " else "C05: ") ++
          "delivered tokens differ from the advance-only history: " ++ " ".intercalate df ++ " vs " ++ " ".intercalate dp]
      -- sequential scanner state: a delivered token's tag is the index of its raw token
      let raw := Spec.rawFrom (scanText cfg t) m (bytes t + 1) 1 Pos.zero
      let tagOK := if !cfg.stateful then true else df.all fun d =>
        let out := (d.splitOn "@").headD ""
        if out == "none" || out == "0" || out == "1" then true else
        match out.splitOn "." with
        | [_, tg] =>
          let sp := parseSpan ((d.splitOn "@").getD 1 "")
          (raw.findIdx? (fun r => r.start.byte == sp.s.byte)) == some (nat! tg)
        | _ => false
      let r2 := if tagOK then [] else ["C05: a delivered token was not produced from the sequential scanner state"]
      -- C03: every reported position canonical under the metrics then in force
      let ms := metricsTrace m ops
      let canonOK := (fobs.zip ms).all fun (o, mm) => (positionsOf o).all (Spec.isCanon mm t)
      let r3 := if canonOK then [] else
        ["C03: " ++ "a reported position is not canonical"]
      -- C04 (tiling, seen through histories): with no filter installed, a plain `next` delivers the
      -- token that starts exactly at the cursor (nothing can be skipped)
      let tilingOK :=
        let rec go (depth : Nat) (prevCursor : String) (prevFiltered : Bool) : List Op → List String → Bool
          | [], _ => true
          | _, [] => true
          | op :: ops, o :: os =>
            match op with
            | .forkBegin => go (depth + 1) prevCursor prevFiltered ops os
            | .forkEnd => go (depth - 1) prevCursor prevFiltered ops os
            | _ =>
              if depth > 0 then go depth prevCursor prevFiltered ops os else
              let out := (o.splitOn "@").headD ""
              let st := ((o.splitOn "@").getD 1 "").splitOn "/"
              let curNow := st.getD 2 ""
              let filteredNow := (o.splitOn "~F1").length > 1
              let ok := match op with
                | .next =>
                  if !prevFiltered && out != "none" then
                    let ts := parseSpan (st.headD "")
                    showPos ts.s == prevCursor
                  else true
                | _ => true
              ok && go depth curNow filteredNow ops os
        go 0 "0,0,0" false ops fobs
      let r4 := if tilingOK then [] else ["C04: an unfiltered lexer skipped text: the delivered token does not start at the cursor"]
      -- C04 (parse span, seen through histories): after each token delivered by `next` / `next_if`
      -- the parse span runs from the start of the first token delivered since the parse began
      -- (the start of the history or the last sub-lex mark) to the end of the last one.  An
      -- `advance_to` / `advance_up_to` consumes tokens the observation does not show: tracking stops
      -- until the next sub-lex mark.
      let parseSpanOK :=
        let rec goPS (depth : Nat) (first : Option Pos) (known : Bool) : List Op → List String → Bool
          | [], _ => true
          | _, [] => true
          | op :: ops, o :: os =>
            match op with
            | .forkBegin => goPS (depth + 1) first known ops os
            | .forkEnd => goPS (depth - 1) first known ops os
            | _ =>
              if depth > 0 then goPS depth first known ops os else
              let out := (o.splitOn "@").headD ""
              let st := ((o.splitOn "@").getD 1 "").splitOn "/"
              match op with
              | .startSublex | .intoSublexer => goPS depth none true ops os
              | .advanceTo _ | .advanceUpTo _ => goPS depth first false ops os
              | .next | .nextIf _ =>
                if out == "none" || !known then goPS depth first known ops os else
                let ts := parseSpan (st.headD "")
                let ps := parseSpan (st.getD 1 "")
                let f := first.getD ts.s
                -- (start compared by byte offset: a metrics builder in between re-measures line and column)
                (ps.s.byte == f.byte && ps.e == ts.e) && goPS depth (some f) known ops os
              | _ => goPS depth first known ops os
        goPS 0 none true ops fobs
      let r6 := if parseSpanOK then [] else ["C04: after a delivered token the parse span does not run from the first delivered token to the last"]
      -- C01: the lexer's `Display` was formatted after every op (last `;` item of a state observation)
      let r5 := if (impl.splitOn ";panic").length > 1 then ["C01: formatting the lexer (Display) panicked"] else []
      let reasons := r1 ++ r2 ++ r3 ++ r4 ++ r5 ++ r6
      (mo, if reasons.isEmpty then "ok" else "FAIL " ++ "; ".intercalate reasons)
    | _ => (mo, "FAIL unparsable observation")
  | _ => ("?", "FAIL bad case line")

end Tephra.Fam.Lex
