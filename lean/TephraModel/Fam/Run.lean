/-
  Grammar-level families: peg, rep, capture, errors, bracket, list, recover,
  twice, scoped, ctxops, term, nopanic.  One case format for all of them.
-/
import TephraModel.Run
import TephraModel.Report

namespace Tephra.Fam.RunF
open Tephra Tephra.Wire

structure Case where
  text : Text
  m : Metrics
  cfg : ScanCfg
  filter : Option Nat
  sink : Bool
  nctx : Nat
  invocations : Nat
  g : G
deriving Inhabited

def parseFilter (s : String) : Option Nat := if s == "n" then none else some (nat! s)

def parseCase : List String → Option Case
  | [t, le, tab, sc, f, sink, nctx, inv, g] =>
    some { text := parseText t, m := ⟨parseLE le, nat! tab⟩, cfg := ScanCfg.ofId (nat! sc),
           filter := parseFilter f, sink := sink == "1", nctx := nat! nctx, invocations := nat! inv,
           g := GWire.parseG g }
  | _ => none

def fuel : Nat := 4000

structure Outcome where
  results : List RRes
  world : World
deriving Inhabited

def initialLexer (R : RunEnv) (c : Case) : Lx :=
  let lx0 : Lx := Lexer.new 1 c.m (bytes c.text)
  match c.filter with
  | none => lx0
  | some f => lx0.withFilter R.E (some f)

def initialCtx (c : Case) : Ctx :=
  ⟨c.sink, (List.range c.nctx).reverse.map (· + 90), false⟩

/-- invoke the same parser `k` times, each from the lexer the previous one returned -/
def invoke (R : RunEnv) (g : G) (ctx : Ctx) : Nat → Lx → World → List RRes × World
  | 0, _, W => ([], W)
  | k + 1, lx, W =>
    match run R fuel g lx ctx W with
    | (.ok v lx', W') =>
      let (rest, W'') := invoke R g ctx k lx' W'
      (.ok v lx' :: rest, W'')
    | (r, W') =>
      -- after a failure the next invocation starts again from the same lexer
      let (rest, W'') := invoke R g ctx k lx W'
      (r :: rest, W'')

def runCase (c : Case) : Outcome :=
  let R : RunEnv := ⟨lexEnv c.cfg c.text, c.text⟩
  let (rs, W) := invoke R c.g (initialCtx c) (Nat.max c.invocations 1) (initialLexer R c) World.init
  ⟨rs, W⟩

def showRes (R : RunEnv) : RRes → String
  | .ok v lx => "ok:" ++ GWire.showVal v ++ ":" ++ showLexer R lx
  | .err e => "err:" ++ GWire.showErr e
  | .panic => "panic"
  | .fuel => "timeout"

/-- the first returned error of the case (the first result that is an `err:`) -/
def firstErr : List RRes → Option PErr
  | [] => none
  | .err e :: _ => some e
  | _ :: rest => firstErr rest

/-- the plain rendering of the source report of an error (code points), `-` if there is none -/
def showReport (c : Case) : Option PErr → String
  | none => "-"
  | some e =>
    match Report.renderError ⟨c.text, c.m, Pos.zero⟩ Report.harnessEnv e with
    | .ok s => Report.encode s
    | .panic => "panic"

def showOutcome (c : Case) (o : Outcome) : String :=
  let R : RunEnv := ⟨lexEnv c.cfg c.text, c.text⟩
  if o.results.any (fun r => match r with | .panic => true | _ => false) then "panic"
  else if o.results.any (fun r => match r with | .fuel => true | _ => false) then "timeout"
  else
    "&".intercalate (o.results.map (showRes R)) ++ "|sink=[" ++ ",".intercalate (o.world.log.map GWire.showErr) ++
    "]|probes=[" ++ "~".intercalate o.world.probes ++ "]|fmtpanics=0|report=" ++ showReport c (firstErr o.results) ++
    "|sinkreport=" ++ showReport c o.world.log.head?

/-- Oracles are added per family in Fam/Oracles.lean; here: correspondence only. -/
def run (fields : List String) : String × String :=
  match parseCase (fields.dropLast) with
  | none => ("?", "FAIL bad case line")
  | some c => (showOutcome c (runCase c), "ok")

end Tephra.Fam.RunF
