/-
  Oracles of the grammar-level families: the executable statements of C06, C07,
  C14 (reference PEG evaluator), evaluated on the implementation's observation.
-/
import TephraModel.Fam.Run
import TephraModel.Spec.Peg
import TephraModel.Spec.Ctx
import TephraModel.Spec.Bracket
import TephraModel.Spec.Canon
import TephraModel.Spec.ListSpec

namespace Tephra.Fam.Oracles
open Tephra Tephra.Wire Tephra.Fam.RunF

/-- Raw stream of a case and how it ends. -/
def rawOf (c : Case) : List (Spec.RawTok Tok) × Spec.Term :=
  let raw := Spec.rawFrom (scanText c.cfg c.text) c.m (bytes c.text + 1) 1 Pos.zero
  let stopByte := match raw.getLast? with
    | some r => r.stop.byte
    | none => 0
  (raw, if stopByte ≥ bytes c.text then .eot else .rejected)

/-- State of the reference evaluator at the start of a case (`with_filter` skips
leading rejected tokens eagerly: they are not part of the parse). -/
def initialPState (c : Case) : Spec.PState :=
  let (raw, term) := rawOf c
  let s : Spec.PState := ⟨raw, term, c.filter⟩
  if c.filter.isSome then s.skipFiltered else s

def showView (s : Spec.PState) : String :=
  "[" ++ ",".intercalate (s.view.map fun r => s!"{r.tok.kind}.{r.tok.tag}@{GWire.dotSpan ⟨r.start, r.stop⟩}") ++ "]"

/-- Replace every empty captured span `sp(a.b.c.a.e.f,` by `sp(empty,`. -/
def normalizeSp (s : String) : String :=
  match s.splitOn "sp(" with
  | [] => s
  | first :: chunks =>
    first ++ String.join (chunks.map fun ch =>
      match ch.splitOn "," with
      | spanStr :: rest =>
        let ns := spanStr.splitOn "."
        if ns.length == 6 && ns.getD 0 "" == ns.getD 3 "x" then "sp(empty," ++ ",".intercalate rest
        else "sp(" ++ ch
      | [] => "sp(" ++ ch)

def firstResult (impl : String) : String := (impl.splitOn "|").headD ""

/-- value and remaining-stream parts of an `ok:<val>:<lexstate>` result -/
def okParts (res : String) : Option (String × String × String) :=
  if !res.startsWith "ok:" then none else
  let body := (res.drop 3).toString
  match body.splitOn ":cur=" with
  | [v, st] =>
    let rest := ((st.splitOn ";rest=").getD 1 "")
    let f := (((st.splitOn ";f=").getD 1 "").take 1).toString
    some (v, f, rest)
  | _ => none

/-- an observation without the rendered reports (`report=` / `sinkreport=` fields): known findings
are attributed when the implementation behaves like the model of the pinned code in everything
but the wording of reports (which C01 and C13 compare) -/
def stripReports (obs : String) : String :=
  "#".intercalate ((obs.splitOn "#").map fun half =>
    "|".intercalate ((half.splitOn "|").filter fun f => !(f.startsWith "report=" || f.startsWith "sinkreport=")))

def sameObs (a b : String) : Bool := stripReports a == stripReports b

/-- The PEG oracle (C06 / C07 / C14 depending on the family). -/
def pegOracle (prop : String) (c : Case) (impl : String) (modelObs : String) : String :=
  if !Spec.supported c.g then "SKIP grammar outside the PEG family" else
  if prop == "C14" && Spec.captureOverFilterChange c.g then "SKIP capture over a filter change" else
  let s0 := initialPState c
  let res := firstResult impl
  -- Recorded finding F27: a temporary filter installed while nothing has been consumed yet
  -- (parse start / sub) eagerly skips the tokens it rejects; they are gone when the filter is
  -- restored.  Attributed only when the grammar changes the filter and the implementation
  -- behaves exactly as the Lean model of the pinned code does.
  let prop := if Spec.changesFilter c.g && sameObs impl modelObs
    then prop ++ ": F27-eager-skip-under-temporary-filter" else prop
  -- every application of the same parser object is judged: after a success the next one
  -- continues where the returned lexer stands, after a failure it starts from the same place
  let results := (firstResult impl).splitOn "&"
  let rec walk (fuel : Nat) (k : Nat) (s : Spec.PState) : List String → List String
    | [] => []
    | res :: more =>
      match fuel with
      | 0 => []
      | fuel + 1 =>
      let tag := if k == 0 then "" else s!"application {k + 1}: "
      match Spec.peg c.text 4000 c.g s with
      | .fuel => ["?fuel"]
      | .unsupported => ["?unsupported"]
      | .fail =>
        (if res.startsWith "err:" then []
         else [s!"{tag}reference semantics rejects this input but the parser returned {res}"]) ++
        walk fuel (k + 1) s more
      | .ok v s1 =>
        match okParts res with
        | none => [s!"{tag}reference semantics accepts (value {GWire.showVal v}) but the parser returned {res}"]
        | some (iv, f, rest) =>
          let ev := normalizeSp (GWire.showVal v)
          (if normalizeSp iv == ev then [] else [s!"{tag}value {iv} expected {ev}"]) ++
          (if rest == showView s1 then [] else [s!"{tag}remaining stream {rest} expected {showView s1}"]) ++
          (if f == (if c.filter.isSome then "1" else "0") then [] else [s!"{tag}filter not restored"]) ++
          walk fuel (k + 1) s1 more
  let problems := walk 8 0 s0 results
  if problems.contains "?fuel" then "SKIP reference evaluator out of fuel"
  else if problems.contains "?unsupported" then "SKIP grammar outside the PEG family"
  else if problems.isEmpty then "ok" else s!"FAIL {prop}: " ++ " && ".intercalate problems

/-! ### parsing the implementation's observation -/

structure ImplObs where
  results : List String
  sink : List String
  probes : List String
  fmtPanics : Nat
deriving Repr, Inhabited

def inner (s : String) (pre : String) : String :=
  -- strip `pre[` … `]`
  ((s.drop (pre.length + 1)).dropEnd 1).toString

def parseObs (impl : String) : Option ImplObs :=
  -- the fields `report=…` / `sinkreport=…` (the rendered reports of the first returned error and of
  -- the first error the sink received) are not inputs of any oracle here: they are compared with the
  -- model's rendering by the correspondence check
  match (impl.splitOn "|").take 4 with
  | [rs, sk, pr, fp] =>
    let sk := inner sk "sink="
    let pr := inner pr "probes="
    some { results := rs.splitOn "&"
           sink := if sk.isEmpty then [] else sk.splitOn ","
           probes := if pr.isEmpty then [] else pr.splitOn "~"
           fmtPanics := nat! ((fp.splitOn "=").getD 1 "0") }
  | _ => none

def restOfState (st : String) : String := (st.splitOn ";rest=").getD 1 ""
def flagOfState (st : String) (key : String) : String := ((((st.splitOn (";" ++ key ++ "=")).getD 1 "").take 1).toString)

def showTrail (t : List Nat) : String := ".".intercalate (t.map toString)

/-! ### C15: context operation trees -/

def ctxOracle (c : Case) (impl : String) : String :=
  match Spec.expectedProbes c.g ((List.range c.nctx).reverse.map (· + 90)) false c.sink, parseObs impl with
  | none, _ => "SKIP not a context-operation tree"
  | _, none => "FAIL C15: unparsable observation"
  | some exp, some o =>
    let prefixOf := fun (e : Spec.ProbeExp) =>
      let applied := s!"E[{showTrail e.trail}]probe\{{e.tag}}"
      if e.sent then s!"P{e.tag}:sent:{applied}:" else s!"P{e.tag}:back:E[]probe\{{e.tag}}:{applied}:"
    let expSink := (exp.filter (·.sent)).map fun e => s!"E[{showTrail e.trail}]probe\{{e.tag}}"
    let problems :=
      (if o.probes.length == exp.length then [] else [s!"{o.probes.length} probes ran, expected {exp.length}"]) ++
      ((o.probes.zip exp).filterMap fun (p, e) =>
        if p.startsWith (prefixOf e) then none else some s!"probe {e.tag}: got {(p.splitOn ":cur=").headD p} expected {prefixOf e}") ++
      (if o.sink == expSink then [] else [s!"sink received {o.sink} expected {expSink}"])
    if problems.isEmpty then "ok" else "FAIL C15: " ++ " && ".intercalate problems

/-! ### C09: scoped combinators leave the surrounding configuration intact -/

/-- (delivered?, applied trail, filter flag) seen by a probe record -/
def probeView (p : String) : String × String × String × String :=
  let fs := p.splitOn ":"
  let tag := fs.headD ""
  let trailOf := fun (e : String) => (e.splitOn "]").headD ""
  if fs.getD 1 "" == "sent" then (tag, "sent", trailOf (fs.getD 2 ""), flagOfState (fs.getD 3 "") "f")
  else (tag, "back", trailOf (fs.getD 3 ""), flagOfState (fs.getD 4 "") "f")

def scopedOracle (c : Case) (impl : String) : String :=
  match parseObs impl with
  | none => if impl == "panic" || impl == "timeout" then "ok" else "FAIL C09: unparsable observation"
  | some o =>
    let outer := (o.probes.map probeView).filter fun v => v.1 == "P0" || v.1 == "P9" || v.1 == "P3"
    -- tokens delivered to the outer probes must all pass the (restored) filter
    let kindsOf := fun (p : String) =>
      let r := restOfState p
      let inner := ((r.drop 1).dropEnd 1).toString
      if inner.isEmpty then [] else (inner.splitOn ",").map fun it => nat! ((it.splitOn ".").headD "")
    let leaked := (o.probes.filter fun p => let v := probeView p; v.1 == "P0" || v.1 == "P9" || v.1 == "P3").any fun p =>
      (kindsOf p).any fun k => !Spec.keeps c.filter ⟨k, 0⟩
    match outer with
    | [] => "SKIP no outer probes"
    | first :: rest =>
      let bad := rest.filter fun v => v.2 != first.2
      if !bad.isEmpty then
        s!"FAIL C09: the enclosing context/filter seen at {first.1} is {first.2}, but at {(bad.headD first).1} it is {(bad.headD first).2}"
      else if leaked then "FAIL C09: after a scoped combinator returned, the lexer delivers a token its filter rejects"
      else "ok"

/-! ### C10: bracket matching -/

def spanOfIdx (view : List (Spec.RawTok Tok)) (i : Nat) : String :=
  match view[i]? with
  | some r => GWire.dotSpan ⟨r.start, r.stop⟩
  | none => "?"

def viewFrom (view : List (Spec.RawTok Tok)) (i : Nat) : String :=
  "[" ++ ",".intercalate ((view.drop i).map fun r => s!"{r.tok.kind}.{r.tok.tag}@{GWire.dotSpan ⟨r.start, r.stop⟩}") ++ "]"

def startsWithProbe : G → Bool
  | .probe _ => true
  | .right (.probe _) _ => true
  | _ => false

def bracketOracle (c : Case) (impl : String) : String :=
  match c.g, parseObs impl with
  | .bracket v opens a closes abort, some o =>
    let s0 := initialPState c
    let view := s0.view
    let res := o.results.headD ""
    let startPos : Pos := match s0.rest.head? with
      | some r => r.start
      | none => match (rawOf c).1.getLast? with
        | some r => r.stop
        | none => Pos.zero
    match Spec.refMatch opens closes abort (view.map (·.tok.kind)) with
    | .matched iOpen iClose kind =>
      let p1 := if startsWithProbe a then
          match o.probes.head? with
          | some p => if restOfState p == viewFrom view (iOpen + 1) then []
                      else [s!"inner parser started at {restOfState p}, expected {viewFrom view (iOpen + 1)}"]
          | none => ["inner parser was not started"]
        else []
      let p2 := if res.startsWith "ok:" then
          (if restOfState res == viewFrom view (iClose + 1) then []
           else [s!"returned lexer continues at {restOfState res}, expected {viewFrom view (iClose + 1)}"]) ++
          (if v < 2 || (((res.splitOn ":cur=").headD "").endsWith s!",i{kind})") then []
           else [s!"reported index is not {kind}"])
        else if res.startsWith "err:E[]bracket" then [s!"properly nested brackets rejected: {res}"] else []
      let ps := p1 ++ p2
      if ps.isEmpty then "ok" else "FAIL C10: " ++ " && ".intercalate ps
    | r =>
      let expected : List String := match r with
        | .noneFound none => ["bracket{none=" ++ GWire.dotSpan ⟨startPos, startPos⟩ ++ "}"]
        | .noneFound (some i) => ["bracket{none=" ++ spanOfIdx view i ++ "}"]
        | .unopened i => ["bracket{unopened=" ++ spanOfIdx view i ++ "}"]
        | .unclosed i0 => ["bracket{unclosed=" ++ spanOfIdx view i0 ++ "}"]
        | .mismatch i0 top i => ["bracket{mismatch=" ++ spanOfIdx view i0 ++ "/" ++ spanOfIdx view i ++ "}",
                                 "bracket{mismatch=" ++ spanOfIdx view top ++ "/" ++ spanOfIdx view i ++ "}"]
        | _ => []
      if expected.any (fun e => res == "err:E[]" ++ e) then "ok"
      else s!"FAIL C10: reference matcher says {expected.headD "?"}, the combinator returned {(res.splitOn ":cur=").headD res}"
  | .bracket .., none => if impl == "panic" || impl == "timeout" then "FAIL C10: " ++ impl else "FAIL C10: unparsable observation"
  | _, _ => "SKIP not a top-level bracket"

/-! ### C12: recovery resumes exactly at the requested token, every time -/

def recPoint (r : Rec) (view : List (Spec.RawTok Tok)) : Option Nat :=
  match r with
  | .before k => view.findIdx? (·.tok.kind == k)
  | .beforeAny ks => view.findIdx? (fun x => ks.contains x.tok.kind)
  | .after k => (view.findIdx? (·.tok.kind == k)).bind fun i => if i + 1 < view.length then some (i + 1) else none
  | .afterAny ks => (view.findIdx? (fun x => ks.contains x.tok.kind)).bind fun i =>
      if i + 1 < view.length then some (i + 1) else none
  | .sepOrAbort sep ab => view.findIdx? (fun x => x.tok.kind == sep || ab.contains x.tok.kind)

def isAfter : Rec → Bool
  | .after _ | .afterAny _ => true
  | _ => false

/-- walk the invocations; returns the problems found and whether the F07r signature applies -/
def recoverWalk (c : Case) (v : Nat) (inner : G) (r : Rec) :
    List String → Spec.PState → Nat → Bool → List String × Nat × Bool
  | [], _, nsink, sig => ([], nsink, sig)
  | res :: more, s, nsink, failedBefore =>
    let dflt := if v % 2 == 0 then "N" else "D"
    match Spec.peg c.text 4000 inner s with
    | .ok val s1 =>
      let ev := if v % 2 == 0 then "S(" ++ GWire.showVal val ++ ")" else GWire.showVal val
      let p := match okParts res with
        | some (iv, _, rest) =>
          (if normalizeSp iv == normalizeSp ev then [] else [s!"value {iv} expected {ev}"]) ++
          (if rest == showView s1 then [] else [s!"after success the stream is {rest}, expected {showView s1}"])
        | none => [s!"wrapped parser accepts but the result is {(res.splitOn ":cur=").headD res}"]
      let (ps, n, sg) := recoverWalk c v inner r more s1 nsink failedBefore
      (p ++ ps, n, sg)
    | .fail =>
      if !c.sink then
        let p := if res.startsWith "err:" && !res.startsWith "err:E[]recover" then []
                 else [s!"without a sink the wrapped parser's error must be returned, got {(res.splitOn ":cur=").headD res}"]
        let (ps, n, sg) := recoverWalk c v inner r more s nsink failedBefore
        (p ++ ps, n, sg)
      else
        match recPoint r s.view with
        | some i =>
          let s1 : Spec.PState := { s with rest := s.rest.drop (s.rest.length - (s.rest.dropWhile (fun x => !(s.view.drop i).head?.any (· == x))).length) }
          let expRest := viewFrom s.view i
          let p := match okParts res with
            | some (iv, _, rest) =>
              (if iv == dflt then [] else [s!"placeholder {iv} expected {dflt}"]) ++
              (if rest == expRest then [] else [s!"resumed at {rest}, expected {expRest}"])
            | none => [s!"recovery point exists but the result is {(res.splitOn ":cur=").headD res}"]
          let tagged := if p.isEmpty then [] else (if failedBefore && isAfter r then p.map ("F07r-flag-left-set-by-failed-recovery " ++ ·) else p)
          let (ps, n, sg) := recoverWalk c v inner r more s1 (nsink + 1) failedBefore
          (tagged ++ ps, n, sg)
        | none =>
          let p := if res == "err:E[]recover" then [] else [s!"no recovery point: expected a recovery error, got {(res.splitOn ":cur=").headD res}"]
          let tagged := if p.isEmpty then [] else (if failedBefore && isAfter r then p.map ("F07r-flag-left-set-by-failed-recovery " ++ ·) else p)
          let (ps, n, sg) := recoverWalk c v inner r more s (nsink + 1) true
          (tagged ++ ps, n, sg)
    | _ => (["?"], nsink, failedBefore)

/-- one recovering parser started in state `s` with an error sink: the expected value
text, the state it resumes in and the number of errors it reports; `some none` = a recovery
error is expected; `none` = the reference evaluator ran out of fuel -/
def recStep (c : Case) (v : Nat) (inner : G) (r : Rec) (s : Spec.PState) :
    Option (Option (String × Spec.PState × Nat)) :=
  match Spec.peg c.text 4000 inner s with
  | .ok val s1 => some (some ((if v % 2 == 0 then "S(" ++ GWire.showVal val ++ ")" else GWire.showVal val), s1, 0))
  | .fail =>
    match recPoint r s.view with
    | some i =>
      let s1 : Spec.PState := { s with rest := s.rest.drop (s.rest.length - (s.rest.dropWhile (fun x => !(s.view.drop i).head?.any (· == x))).length) }
      some (some ((if v % 2 == 0 then "N" else "D"), s1, 1))
    | none => some none
  | _ => none

/-- what a sequence of parsers, some of them recovering, must do (error sink attached) -/
inductive SeqExp where
  | ok (v : String) (s : Spec.PState) (nerr : Nat)
  /-- a recovering parser has no recovery point: a recovery error, after `nerr` reported errors -/
  | recErr (nerr : Nat)
  /-- a plain parser fails: its own error is returned, after `nerr` reported errors -/
  | plainErr (nerr : Nat)
  | fuel
  | unsupported

/-- Recovering parsers composed *in sequence* (`both`/`left`/`right`/`center`/`stabilize`) with
plain parsers of the PEG family: every recovering parser that fails resumes at *its own*
recovery token whatever recovery state the lexer it was started on carries (C12), and the
plain parsers see the stream from there. -/
def seqEval (c : Case) : G → Spec.PState → SeqExp
  | .recover v _ inner r, s =>
    if !Spec.supported inner then .unsupported else
    match recStep c v inner r s with
    | none => .fuel
    | some none => .recErr 1
    | some (some (val, s1, n)) => .ok val s1 n
  -- `stabilize` only matters when its parser fails (it then retries from further recovery
  -- points of whatever recovery is in force): judged only when the parser succeeds
  | .stabilize a, s =>
    (match seqEval c a s with
    | .ok v s1 n => .ok v s1 n
    | .fuel => .fuel
    | _ => .unsupported)
  | .both a b, s =>
    if Spec.supported (.both a b) then seqLeaf (.both a b) s else
    match seqEval c a s with
    | .ok va s1 n1 =>
      (match seqEval c b s1 with
      | .ok vb s2 n2 => .ok ("(" ++ va ++ "," ++ vb ++ ")") s2 (n1 + n2)
      | .recErr n => .recErr (n1 + n) | .plainErr n => .plainErr (n1 + n) | e => e)
    | e => e
  | .left a b, s =>
    if Spec.supported (.left a b) then seqLeaf (.left a b) s else
    match seqEval c a s with
    | .ok va s1 n1 =>
      (match seqEval c b s1 with
      | .ok _ s2 n2 => .ok va s2 (n1 + n2)
      | .recErr n => .recErr (n1 + n) | .plainErr n => .plainErr (n1 + n) | e => e)
    | e => e
  | .right a b, s =>
    if Spec.supported (.right a b) then seqLeaf (.right a b) s else
    match seqEval c a s with
    | .ok _ s1 n1 =>
      (match seqEval c b s1 with
      | .ok vb s2 n2 => .ok vb s2 (n1 + n2)
      | .recErr n => .recErr (n1 + n) | .plainErr n => .plainErr (n1 + n) | e => e)
    | e => e
  | .center a b d, s =>
    if Spec.supported (.center a b d) then seqLeaf (.center a b d) s else
    match seqEval c a s with
    | .ok _ s1 n1 =>
      (match seqEval c b s1 with
      | .ok vb s2 n2 =>
        (match seqEval c d s2 with
        | .ok _ s3 n3 => .ok vb s3 (n1 + n2 + n3)
        | .recErr n => .recErr (n1 + n2 + n) | .plainErr n => .plainErr (n1 + n2 + n) | e => e)
      | .recErr n => .recErr (n1 + n) | .plainErr n => .plainErr (n1 + n) | e => e)
    | e => e
  | g, s => if Spec.supported g then seqLeaf g s else .unsupported
where
  seqLeaf (g : G) (s : Spec.PState) : SeqExp :=
    match Spec.peg c.text 4000 g s with
    | .ok val s1 => .ok (GWire.showVal val) s1 0
    | .fail => .plainErr 0
    | _ => .fuel

/-- walk the invocations of a sequence containing recovering parsers, up to the first
recovery error (after which closure flags may be left set: finding F07r, judged by the
single-parser oracle) -/
def recoverSeqWalk (c : Case) (g : G) : List String → Spec.PState → Nat → List String × Nat × Bool
  | [], _, nsink => ([], nsink, true)
  | res :: more, s, nsink =>
    let got := (res.splitOn ":cur=").headD res
    match seqEval c g s with
    | .fuel | .unsupported => (["?"], nsink, false)
    | .recErr n =>
      ((if res == "err:E[]recover" then [] else [s!"a recovery in the sequence has no recovery point: expected a recovery error, got {got}"]),
       nsink + n, false)
    | .plainErr n =>
      let p := if res.startsWith "err:" && !res.startsWith "err:E[]recover" then []
        else [s!"a plain parser of the sequence fails after every recovery found its point: its error must be returned, got {got}"]
      let (ps, k, full) := recoverSeqWalk c g more s (nsink + n)
      (p ++ ps, k, full)
    | .ok ev s1 n =>
      let p := match okParts res with
        | some (iv, _, rest) =>
          (if normalizeSp iv == normalizeSp ev then [] else [s!"value {iv} expected {ev}"]) ++
          (if rest == showView s1 then [] else [s!"after the sequence the stream is {rest}, expected {showView s1}: a recovery did not resume at its own token"])
        | none => [s!"every recovery of the sequence has a recovery point but the result is {got}"]
      let (ps, k, full) := recoverSeqWalk c g more s1 (nsink + n)
      (p ++ ps, k, full)

def hasRecover : G → Bool
  | .recover .. => true
  | .stabilize a => hasRecover a
  | .both a b | .left a b | .right a b => hasRecover a || hasRecover b
  | .center a b d => hasRecover a || hasRecover b || hasRecover d
  | _ => false

def recoverSeqOracle (c : Case) (o : ImplObs) : String :=
  if !c.sink then "SKIP recoveries in sequence without a sink" else
  let (ps, nsink, full) := recoverSeqWalk c c.g o.results (initialPState c) 0
  if ps.contains "?" then "SKIP sequence outside the PEG family or evaluator out of fuel" else
  let ps := ps ++ (if full && o.sink.length != nsink then [s!"{o.sink.length} errors reported, expected exactly {nsink}"] else [])
  if ps.isEmpty then "ok" else "FAIL C12: " ++ " && ".intercalate ps

def recoverOracle (c : Case) (impl : String) : String :=
  match c.g, parseObs impl with
  | .recover v _ inner r, some o =>
    if !Spec.supported inner then "SKIP wrapped parser outside the PEG family" else
    let (ps, nsink, _) := recoverWalk c v inner r o.results (initialPState c) 0 false
    if ps.contains "?" then "SKIP reference evaluator out of fuel" else
    let ps := ps ++ (if c.sink && o.sink.length != nsink then [s!"{o.sink.length} errors reported, expected exactly {nsink}"] else [])
    if ps.isEmpty then "ok" else "FAIL C12: " ++ " && ".intercalate ps
  | .recover .., none => "FAIL C12: " ++ impl
  | g, some o => if hasRecover g then recoverSeqOracle c o else "SKIP not a sequence with a recovering parser"
  | _, none => "FAIL C12: " ++ impl

/-! ### C11: delimited lists parse segment by segment -/

/-- drop raw tokens until `n` tokens the filter keeps have been dropped -/
def dropKept (f : Option Nat) : List (Spec.RawTok Tok) → Nat → List (Spec.RawTok Tok)
  | l, 0 => l
  | [], _ => []
  | r :: rest, n + 1 => if Spec.keeps f r.tok then dropKept f rest n else dropKept f rest (n + 1)

/-- the smallest and largest byte offset mentioned by the span / position fields of a
reported error (`es=`, `ts=`: spans of six numbers; `end=`: a position of three) -/
def errByteRange (e : String) : Option (Nat × Nat) :=
  let body := ((e.splitOn "{").getD 1 "").dropEndWhile (· == '}') |>.toString
  let bytes := (body.splitOn ";").flatMap fun fld =>
    match fld.splitOn "=" with
    | [k, v] =>
      let ns := (v.splitOn ".").map nat!
      if k == "es" || k == "ts" then [ns.getD 0 0, ns.getD 3 0]
      else if k == "end" then [ns.getD 0 0]
      else []
    | _ => []
  match bytes with
  | [] => none
  | b :: bs => some (bs.foldl min b, bs.foldl max b)

/-- the byte bounds of each segment of the list (as `Spec.listSpec` splits them): from the
start of the separator before it (or the start of the list) to the end of the separator or
abort token after it (or the end of the text), inclusive -/
def segmentBounds (sep : Nat) (abort : List Nat) (startByte len : Nat) (view : List (Spec.RawTok Tok)) :
    List (Nat × Nat) :=
  let rec go (left : Nat) : List (Spec.RawTok Tok) → List (Nat × Nat)
    | [] => [(left, len)]
    | r :: rest =>
      if abort.contains r.tok.kind then [(left, r.stop.byte)]
      else if r.tok.kind == sep then (left, r.stop.byte) :: go r.start.byte rest
      else go left rest
  go startByte view

/-- `tail`: a plain parser of the PEG family run after the list (`both list tail`): it sees the
stream from where the list stopped. -/
def listOracleCore (c : Case) (o : ImplObs) (v lo : Nat) (hi : Option Nat) (item : G) (sep : Nat) (abort : List Nat)
    (tail : Option G) : String :=
    if !Spec.supported item then "SKIP item parser outside the PEG family" else
    if !(tail.map Spec.supported).getD true then "SKIP parser after the list outside the PEG family" else
    let lo := if v % 2 == 0 then 0 else lo
    let hi : Option Nat := if v % 2 == 0 then none else hi
    let s0 := initialPState c
    let view := s0.view
    let res := o.results.headD ""
    let got := (res.splitOn ":cur=").headD res
    -- what the whole parser yields once the list has yielded `lv` and stopped after `k` kept tokens:
    -- `none` = evaluator out of fuel, `some none` = the parser after the list fails
    let after (lv : String) (k : Nat) : Option (Option (String × String)) :=
      match tail with
      | none => some (some (lv, viewFrom view k))
      | some t =>
        match Spec.peg c.text 4000 t { s0 with rest := dropKept s0.filter s0.rest k } with
        | .ok tv s2 => some (some ("(" ++ lv ++ "," ++ GWire.showVal tv ++ ")", showView s2))
        | .fail => some none
        | _ => none
    let judge (lv : String) (k : Nat) (nerr : Nat) (pre : String) : List String :=
      match after lv k with
      | none => ["?"]
      | some none =>
        (if res.startsWith "err:" && !res.startsWith "err:E[]recover" then []
         else [s!"{pre}the parser after the list fails on what the list left: its error must be returned, got {got}"])
      | some (some (ev, er)) =>
        (match okParts res with
         | some (iv, _, rest) =>
           (if normalizeSp iv == normalizeSp ev then [] else [s!"{pre}entries {iv} expected {ev}"]) ++
           (if rest == er then [] else [s!"{pre}returned lexer continues at {rest}, expected {er}"])
         | none => [s!"{pre}the list must succeed, got {got}"]) ++
        (if o.results.length == 1 && o.sink.length != nerr then [s!"{pre}{o.sink.length} errors reported, expected {nerr}"] else [])
    let verdict (ps : List String) (tag : String) :=
      if ps.contains "?" then "SKIP reference evaluator out of fuel" else
      if ps.isEmpty then "ok" else "FAIL C11: " ++ tag ++ " && ".intercalate ps
    if hi == some 0 then
      -- the upper bound stops the list before its first segment: no entry, nothing consumed,
      -- nothing examined (so nothing reported), sink or no sink
      verdict (judge "L[]" 0 0 "upper bound 0: ") ""
    else
    let ex := Spec.listSpec c.text c.filter hi item sep abort view
    let entries := ex.entries
    let showEntry := fun (e : Option Val) =>
      match e with
      | some val => if v < 2 then "S(" ++ GWire.showVal val ++ ")" else GWire.showVal val
      | none => if v < 2 then "N" else "D"
    let expVal := "L[" ++ ",".intercalate (entries.map showEntry) ++ "]"
    let nbad := ex.nbad
    let tooFew := entries.length < lo
    if c.sink then
      -- the k-th reported error belongs to the k-th bad segment and lies within its delimiters
      let bounds := segmentBounds sep abort 0 (bytes c.text) view
      let badBounds := ((entries.zip bounds).filter (·.1.isNone)).map (·.2)
      let located : List String :=
        if o.results.length == 1 && o.sink.length == nbad + (if tooFew then 1 else 0) then
          ((o.sink.take nbad).zip badBounds).filterMap fun (e, (l, r)) =>
            match errByteRange e with
            | some (lo', hi') =>
              if l ≤ lo' && hi' ≤ r then none
              else some s!"the error {e} of a bad segment is not between its delimiters (bytes {l}..{r})"
            | none => none
        else []
      if ex.lastBadAtEnd && res == "err:E[]recover" then
        -- finding F21: the list gives up with a recovery error — after having reported every bad
        -- segment (the last one included) and before any count error
        if o.results.length == 1 && o.sink.length != nbad then
          s!"FAIL C11: the last segment is bad and runs to the end of the text: {o.sink.length} errors reported, expected {nbad}"
        else "FAIL C11: F21-bad-last-segment-without-abort-token the list must succeed, got err:E[]recover"
      else
      verdict (judge expVal ex.consumed (nbad + (if tooFew then 1 else 0)) "" ++ located) ""
    else
      if nbad == 0 && !tooFew then verdict (judge expVal ex.consumed 0 "all segments are good: ") ""
      else if res.startsWith "err:" then
        (if nbad == 0 && !res.startsWith "err:E[]count" then "FAIL C11: expected the count error, got " ++ res
         else if nbad > 0 && res.startsWith "err:E[]recover" then
           "FAIL C11: without a sink the first bad segment's own error must be returned, got a recovery error"
         else "ok")
      else s!"FAIL C11: without a sink a bad segment (or too few entries) must fail the list, got {got}"

/-- C10 seen through a list whose item is a bracket parser (the same parser object applied to
every item): no bracket error may be reported inside an item that is one properly nested
bracket (the filtered stream is split at the separators; the generated items contain none). -/
def listOfBracketsOracle (c : Case) (o : ImplObs) (opens closes babort : List Nat) (sep : Nat) (abort : List Nat) : String :=
  let view := (initialPState c).view
  let body := view.takeWhile (fun r => !abort.contains r.tok.kind)
  let segs := (Spec.splitAtSep sep body).filter (!·.isEmpty)
  let wellNested := segs.filter fun seg =>
    match Spec.refMatch opens closes babort (seg.map (·.tok.kind)) with
    | .matched i0 iClose _ => i0 == 0 && iClose + 1 == seg.length
    | _ => false
  let bad := o.sink.filter fun e =>
    e.startsWith "E[]bracket{" &&
    (match errByteRange ((e.replace "mismatch=" "es=").replace "unclosed=" "es=" |>.replace "unopened=" "es=" |>.replace "none=" "es=" |>.replace "/" ";ts=") with
     | some (lo, _) => wellNested.any fun seg =>
         (match seg.head?, seg.getLast? with
          | some a, some b => a.start.byte ≤ lo && lo < b.stop.byte
          | _, _ => false)
     | none => false)
  if bad.isEmpty then "ok"
  else s!"FAIL C10: a bracket error is reported inside an item that is one properly nested bracket: {bad.headD ""}"

def listOracle (c : Case) (impl : String) : String :=
  match c.g, parseObs impl with
  | .list _ _ _ _ (.bracket _ opens inner closes babort) sep abort, some o =>
    -- (an inner parser that is itself a bracket parser reports bracket errors of its own)
    if Spec.supported inner then listOfBracketsOracle c o opens closes babort sep abort
    else "SKIP list of brackets whose inner parser is outside the PEG family"
  | .list v _ lo hi item sep abort, some o => listOracleCore c o v lo hi item sep abort none
  | .both (.list v _ lo hi item sep abort) tail, some o => listOracleCore c o v lo hi item sep abort (some tail)
  | .list .., none => "FAIL C11: " ++ impl
  | _, _ => "SKIP not a top-level list"

/-! ### C08: error collection never changes the meaning of valid input -/

def cursorOf (res : String) : String := (((res.splitOn ":cur=").getD 1 "").splitOn ";").headD ""

/-- the error `e` (`E[]body`, as a combinator returns it) after the transforms of the `n` contexts
pushed on the initial context (tags 90, 91, …; innermost first) -/
def withInitialTags (n : Nat) (e : String) : String :=
  if n == 0 || !e.startsWith "E[]" then e else
  "E[" ++ ".".intercalate ((List.range n).reverse.map fun i => toString (90 + i)) ++ "]" ++ (e.drop 3).toString

/-- `E[tags]body` without its tags -/
def stripTrail (e : String) : String :=
  if e.startsWith "E[" then "E[]" ++ "]".intercalate ((e.splitOn "]").drop 1) else e

/-- `hasCtx`: the grammar itself pushes error contexts (rules with their own transforms): the
diagnostic then carries those tags as well, and clause (c) compares the errors without tags (which
transforms apply, and in which order, is C15's matter). -/
def twiceOracle (nctx : Nat) (hasCtx : Bool) (impl : String) : String :=
  match impl.splitOn "#" with
  | [a, b] =>
    match parseObs a, parseObs b with
    | some oa, some ob =>
      let ra := oa.results.headD ""
      let rb := ob.results.headD ""
      let p1 := if ra.startsWith "ok:" then
          (if rb.startsWith "ok:" && ((ra.splitOn ":cur=").headD "") == ((rb.splitOn ":cur=").headD "") &&
              cursorOf ra == cursorOf rb && ob.sink.isEmpty then []
           else [s!"(a) sink-less parse succeeds with {(ra.splitOn ":cur=").headD ra} at {cursorOf ra}; with a sink: {(rb.splitOn ":cur=").headD rb} at {cursorOf rb}, sink {ob.sink}"])
        else []
      let p2 := if rb.startsWith "ok:" && ob.sink.isEmpty then
          (if ra == rb then [] else [s!"(b) sink-enabled success reported nothing but differs from the sink-less result {(ra.splitOn ":cur=").headD ra}"])
        else []
      let p3 := if ra.startsWith "err:" then
          let e := (ra.drop 4).toString
          -- the diagnostic is what the sink receives: the error after the transforms of the context
          (if rb == ra || ob.sink.head? == some (withInitialTags nctx e) ||
              (hasCtx && ob.sink.head?.map stripTrail == some (stripTrail e)) then []
           else [s!"(c) sink-less parse fails with {e}; with a sink the result is {(rb.splitOn ":cur=").headD rb} and the first diagnostic {ob.sink.head?}"])
        else []
      let ps := p1 ++ p2 ++ p3
      if ps.isEmpty then "ok" else "FAIL C08: " ++ " && ".intercalate ps
    | _, _ => if a == "panic" || b == "panic" || a == "timeout" || b == "timeout" then "ok" else "FAIL C08: unparsable observation"
  | _ => "FAIL C08: unparsable observation"

/-! ### C13: errors identify the offending token and stay inside the source -/

def parseDotSpan (s : String) : Option Span :=
  match (s.splitOn ".").map nat! with
  | [a, b, c, d, e, f] => some ⟨⟨a, b, c⟩, ⟨d, e, f⟩⟩
  | _ => none

def fieldOf (body : String) (key : String) : String :=
  (((body.splitOn (key ++ "=")).getD 1 "").splitOn ";").headD "" |>.replace "}" ""

def spanOK (c : Case) (sp : Span) : Bool :=
  Spec.isCanon c.m c.text sp.s && Spec.isCanon c.m c.text sp.e && sp.s.byte ≤ sp.e.byte

/-- a filter-scoping or sub-lexing node ANYWHERE in the grammar (also below recovering,
stabilising, bracket, list or context nodes, which `Spec.changesFilter` does not descend into) -/
def anyFilterChange (g : G) : Bool :=
  let r := reprStr g
  (r.splitOn "filterWith").length > 1 || (r.splitOn "unfiltered").length > 1 || (r.splitOn "G.sub").length > 1

/-- checks on one rendered error `E[..]kind{..}` -/
def errorProblems (c : Case) (e : String) : List String :=
  let raw := (rawOf c).1
  let body := ((e.splitOn "]").drop 1 |> "]".intercalate)
  let spansIn := fun (keys : List String) => keys.filterMap fun k =>
    let f := fieldOf body k
    if f.isEmpty then none else
      (f.splitOn "/").foldl (fun acc x => match acc, parseDotSpan x with
        | some l, some sp => some (sp :: l)
        | _, _ => none) (some [])
  let allSpans := (spansIn ["es", "ts", "none", "unclosed", "unopened", "mismatch"]).foldl (· ++ ·) []
  let p0 := if allSpans.all (spanOK c) then [] else [s!"a span of {e} is not a canonical in-bounds span with start <= end"]
  let p1 := if body.startsWith "unexp{" then
      match parseDotSpan (fieldOf body "es"), parseDotSpan (fieldOf body "ts") with
      | some es, some ts =>
        let found := fieldOf body "found"
        if found == "eot" then
          -- end of text only when no token remains: nothing the initial filter keeps starts at or after ts.e
          (if anyFilterChange c.g then [] else
            if raw.any (fun r => r.start.byte ≥ ts.e.byte && Spec.keeps c.filter r.tok) then
              [s!"{e} reports end of text although a token remains"] else [])
        else
          match found.splitOn "." with
          | [k, tg] =>
            let tokOK := raw.any fun r => r.tok.kind == nat! k && r.start == ts.s && r.stop == ts.e &&
              (!c.cfg.stateful || r.tok.tag == nat! tg)
            (if tokOK then [] else [s!"{e}: the token span is not the span of the found token"]) ++
            (if es.e.byte ≤ ts.s.byte then [] else [s!"{e}: the parse-so-far span ends after the found token begins"])
          | _ => []
      | _, _ => [s!"unparsable spans in {e}"]
    else []
  p0 ++ p1

def errorsOracle (c : Case) (impl : String) : String :=
  match parseObs impl with
  | none => if impl == "panic" || impl == "timeout" then "ok" else "FAIL C13: unparsable observation"
  | some o =>
    let errs := (o.results.filterMap fun r => if r.startsWith "err:" then some (r.drop 4).toString else none) ++ o.sink
    let ps := (errs.map (errorProblems c)).foldl (· ++ ·) []
    if ps.isEmpty then "ok" else "FAIL C13: " ++ " && ".intercalate ps

/-- C13, "boundary errors quote the actual extents": a boundary error raised for a list segment
whose item accepts a proper, non-empty prefix of the segment (PEG reference on the segment's kept
tokens) must end its parsed extent where that prefix ends — not before, and not after the first
token the item left. -/
def boundaryProblems (c : Case) (errs : List String) (item : G) (sep : Nat) (abort : List Nat) : List String :=
  if !Spec.supported item || anyFilterChange c.g then [] else
  let view := (initialPState c).view
  let body := view.takeWhile (fun r => !abort.contains r.tok.kind)
  let segs := Spec.splitAtSep sep body
  errs.filterMap fun e =>
    let b := ((e.splitOn "]").drop 1 |> "]".intercalate)
    if !b.startsWith "boundary{" then none else
    match parseDotSpan (fieldOf b "es") with
    | none => none
    | some es =>
      match segs.find? (fun seg => (seg.head?.map (·.start.byte)) == some es.s.byte) with
      | none => none
      | some seg =>
        match Spec.peg c.text 4000 item ⟨seg, .eot, c.filter⟩ with
        | .ok _ s1 =>
          let consumed := seg.length - s1.view.length
          if consumed == 0 || s1.view.isEmpty then none else
          match seg[consumed - 1]? with
          | some last =>
            if es.e.byte == last.stop.byte then none
            else some s!"the boundary error {e} does not quote the extent of what was parsed (it ends at byte {last.stop.byte})"
          | none => none
        | _ => none

def termOracle (impl : String) : String :=
  if impl == "timeout" || (impl.splitOn "#").any (· == "timeout") then "FAIL C02: the parse did not terminate" else "ok"

def nopanicOracle (impl : String) : String :=
  if impl == "panic" || (impl.splitOn "#").any (· == "panic") then "FAIL C01: panic"
  else if impl == "timeout" then "FAIL C02: the parse did not terminate"
  else
    let fp := ((impl.splitOn "fmtpanics=").getD 1 "0")
    if fp.startsWith "0" then "ok" else "FAIL C01: formatting an error report or a lexer state panicked"

/-- the property a family primarily serves (for clauses evaluated on every family) -/
def famProp (fam : String) : String :=
  if fam == "peg" then "C06" else if fam == "rep" then "C07" else if fam == "capture" then "C14"
  else if fam == "bracket" then "C10" else if fam == "list" then "C11" else if fam == "errors" then "C13"
  else if fam == "scoped" then "C09" else if fam == "ctxops" then "C15" else if fam == "recover" then "C12"
  else "C06"

def run (fam : String) (fields : List String) : String × String :=
  match parseCase fields.dropLast with
  | none => ("?", "FAIL bad case line")
  | some c =>
    let impl := fields.getLast?.getD ""
    let mo := if fam == "twice" then
        showOutcome { c with sink := false } (runCase { c with sink := false }) ++ "#" ++
        showOutcome { c with sink := true } (runCase { c with sink := true })
      else showOutcome c (runCase c)
    let verdict :=
      if fam == "peg" then pegOracle "C06" c impl mo
      else if fam == "rep" then pegOracle "C07" c impl mo
      else if fam == "capture" then pegOracle "C14" c impl mo
      else if fam == "ctxops" then ctxOracle c impl
      else if fam == "scoped" then scopedOracle c impl
      else if fam == "bracket" then bracketOracle c impl
      else if fam == "recover" then recoverOracle c impl
      else if fam == "list" then listOracle c impl
      else if fam == "twice" then twiceOracle c.nctx (((reprStr c.g).splitOn "ctxPush").length > 1) impl
      else if fam == "errors" then errorsOracle c impl
      else if fam == "term" then termOracle impl
      else if fam == "nopanic" then nopanicOracle impl
      else "ok"
    -- a recorded finding is attributed only when the implementation behaves exactly as the Lean
    -- model of the pinned code does (the model reproduces every recorded finding): a changed
    -- behaviour inside the same class of inputs is reported as a violation of its own
    let verdict := if sameObs impl mo then verdict else
      (verdict.replace "F07r-flag-left-set-by-failed-recovery " "").replace "F21-bad-last-segment-without-abort-token " ""
    -- a run that does not terminate in the model either is C02's matter (finding F07r-hang), not a
    -- statement about where recovery resumes
    let verdict := if impl == "timeout" && mo == "timeout" && verdict == "FAIL C12: timeout" then "ok" else verdict
    -- finding F07r seen as non-termination: an unbounded repetition whose body is a recover-AFTER
    -- parser with a stabilising parser (or list) inside can succeed in place once a scan has run off
    -- the end with the closure's flag set; attributed only when the model of the pinned code does
    -- not terminate either
    let f07rHang := impl == "timeout" && mo == "timeout" &&
      (let r := reprStr c.g
       (r.splitOn "Rec.after").length > 1 && ((r.splitOn "G.stabilize").length > 1 || (r.splitOn "G.list").length > 1) &&
       ((r.splitOn "G.repeat_").length > 1 || (r.splitOn "G.intersperse").length > 1))
    -- cross-cutting clauses, evaluated on every grammar-level case
    -- C03: every span captured in a value is canonical
    let spanVals := ((firstResult impl).splitOn "sp(").drop 1 |>.filterMap fun ch => parseDotSpan ((ch.splitOn ",").headD "")
    let c03 := if spanVals.all (spanOK c) then "ok" else "FAIL C03: a captured span is not a canonical in-bounds span"
    let errV := if fam == "twice" then "ok" else errorsOracle c impl
    let c03e := if errV.startsWith "FAIL" && (errV.splitOn "is not a canonical in-bounds span").length > 1
      then "FAIL C03: an error span is not a canonical in-bounds span" else "ok"
    -- C13 on bracket errors: the error returned must be the one that names the offending bracket
    -- (what the reference matcher reports), not merely some bracket error
    let c13b := if fam == "bracket" && verdict.startsWith "FAIL C10: reference matcher says" &&
        (verdict.splitOn "the combinator returned err:").length > 1
      then "FAIL C13: the bracket error does not name the offending bracket: " ++ (verdict.drop 10).toString else "ok"
    -- re-applying the same parser object: after a failed application the next one starts from the
    -- same lexer, so it must fail in the same way (a parser is a function of its input; closures
    -- that carry state across applications must not let it show).  Recover-after strategies are
    -- left to the C12 oracle (finding F07r is exactly such a leak).
    let reapply :=
      if fam == "twice" || fam == "recover" || ((fields.getD 8 "").splitOn "(after").length > 1 then "ok" else
      match parseObs impl with
      | some o =>
        let rec go : List String → Option String
          | a :: b :: rest =>
            if a.startsWith "err:" && a != b then some s!"application after a failed one gave {(b.splitOn ":cur=").headD b}, the failed one gave {a}"
            else go (b :: rest)
          | _ => none
        match go o.results with
        | some msg => "FAIL " ++ famProp fam ++ ": re-applying the same parser object to the same input: " ++ msg
        | none => "ok"
      | none => "ok"
    -- C13 on boundary errors of list segments
    let c13x :=
      if fam != "list" then "ok" else
      match parseObs impl with
      | some o =>
        if o.results.length != 1 then "ok" else
        let errs := (o.results.filterMap fun r => if r.startsWith "err:" then some (r.drop 4).toString else none) ++ o.sink
        let ps := match c.g with
          | .list _ _ _ _ item sep abort => boundaryProblems c errs item sep abort
          | .both (.list _ _ _ _ item sep abort) _ => boundaryProblems c errs item sep abort
          | _ => []
        if ps.isEmpty then "ok" else "FAIL C13: " ++ " && ".intercalate ps
      | none => "ok"
    let extra := [nopanicOracle impl, c03, c03e, c13b, c13x, reapply] ++
      (if fam == "errors" || fam == "twice" then [] else [errV])
    let fails := ([verdict] ++ extra).filterMap fun v =>
      if v.startsWith "FAIL " then some (v.drop 5).toString else none
    let fails := if f07rHang then fails.map fun f =>
        if f == "C02: the parse did not terminate" then "C02: F07r-repetition-succeeds-in-place the parse did not terminate" else f
      else fails
    let verdict := if !fails.isEmpty then "FAIL " ++ "; ".intercalate fails else verdict
    (mo, verdict)

end Tephra.Fam.Oracles
