/-
  Families `lines` (C18) and `window` (C20).
-/
import TephraModel.Wire
import TephraModel.Spec.Lines

namespace Tephra.Fam.Lines
open Tephra Tephra.Wire

structure Obs where
  widen : Res Span
  split : Res (List (Nat × Span) × Nat)
deriving Repr, DecidableEq

def model (m : Metrics) (t : Text) (x : Span) : Obs :=
  let src : Source := ⟨t, m, Pos.zero⟩
  { widen := x.widenToLine src
    split := (SplitLines.ofSpan x src).collect (bytes t + 4) }

def ofSpec (w : Span) (s : List (Nat × Span)) : Obs := { widen := .ok w, split := .ok (s, 0) }

def showSplit (r : List (Nat × Span) × Nat) : String :=
  "[" ++ ";".intercalate (r.1.map fun (l, sp) => s!"{l}:{showSpan sp}") ++ "]|" ++ toString r.2

def showObs (o : Obs) : String :=
  showRes showSpan o.widen ++ "|" ++ showRes showSplit o.split

/-- fields: text, le, tab, span, implObs -/
def run (fields : List String) : String × String :=
  match fields with
  | [t, le, tab, sp, impl] =>
    let t := parseText t
    let m : Metrics := ⟨parseLE le, nat! tab⟩
    let x := parseSpan sp
    let mo := showObs (model m t x)
    if !(Spec.isCanon m t x.s && Spec.isCanon m t x.e) then (mo, "SKIP span is not canonical") else
    match Spec.cut3 m t x.s.byte x.e.byte with
    | none => (mo, "SKIP span is not canonical")
    | some (a, mid, z) =>
      let so := showObs (ofSpec (Spec.widenSpec m a mid z) (Spec.splitSpec m a mid z))
      if impl == so then (mo, "ok") else (mo, "FAIL expected " ++ so)
  | _ => ("?", "FAIL bad case line")

end Tephra.Fam.Lines

namespace Tephra.Fam.Window
open Tephra Tephra.Wire

structure Obs where
  text : Res Text
  start : Res Pos
  end_ : Res Pos
  full : Res Span
  next : Res (Option Pos)
  prev : Res (Option Pos)
  lineStart : Res Pos
  lineEnd : Res Pos
  prevLineEnd : Res (Option Pos)
  nextLineStart : Res (Option Pos)
  widen : Res Span
  split : Res (List Span)
deriving Repr, DecidableEq

def collectSpans (fuel : Nat) (it : SplitLines) : Res (List Span) :=
  match it.collect fuel with
  | .panic => .panic
  | .ok (l, _) => .ok (l.map (·.2))

def model (m : Metrics) (t : Text) (w : Span) (p : Pos) (sub : Span) : Res Obs :=
  let parent : Source := ⟨t, m, Pos.zero⟩
  match parent.clipped w with
  | .panic => .panic
  | .ok win =>
    .ok { text := .ok win.text
          start := .ok win.startPosition
          end_ := win.endPosition
          full := win.fullSpan
          next := win.nextPosition p
          prev := win.previousPosition p
          lineStart := win.lineStartPosition p
          lineEnd := win.lineEndPosition p
          prevLineEnd := win.previousLineEndPosition p
          nextLineStart := win.nextLineStartPosition p
          widen := sub.widenToLine win
          split := collectSpans 64 (SplitLines.ofSpan sub win) }

/-- The same observation, the window being cut out of an intermediate source that does not start
at the origin: route `c` = `parent.clipped(outer).clipped(w)`, route `s` = a source over the bytes
of `outer` with `with_start_position(outer.start())`, then `.clipped(w)`. -/
def modelNested (m : Metrics) (t : Text) (route : Char) (outer w : Span) (p : Pos) (sub : Span) : Res Obs :=
  let parent : Source := ⟨t, m, Pos.zero⟩
  let mid : Res Source :=
    if route == 'c' then parent.clipped outer
    else match Source.sliceBytes t outer.s.byte outer.e.byte with
      | .panic => .panic
      | .ok bytes => .ok ⟨bytes, m, outer.s⟩
  match mid with
  | .panic => .panic
  | .ok mid =>
  match mid.clipped w with
  | .panic => .panic
  | .ok win =>
    .ok { text := .ok win.text
          start := .ok win.startPosition
          end_ := win.endPosition
          full := win.fullSpan
          next := win.nextPosition p
          prev := win.previousPosition p
          lineStart := win.lineStartPosition p
          lineEnd := win.lineEndPosition p
          prevLineEnd := win.previousLineEndPosition p
          nextLineStart := win.nextLineStartPosition p
          widen := sub.widenToLine win
          split := collectSpans 64 (SplitLines.ofSpan sub win) }

def ofSpec (s : Spec.WindowSpec) : Obs :=
  { text := .ok s.text, start := .ok s.start, end_ := .ok s.end_, full := .ok s.full
    next := .ok s.next, prev := .ok s.prev, lineStart := .ok s.lineStart, lineEnd := .ok s.lineEnd
    prevLineEnd := .ok s.prevLineEnd, nextLineStart := .ok s.nextLineStart
    widen := .ok s.widen, split := .ok s.split }

def fieldsOf (o : Obs) : List String :=
  [showRes showCodes o.text, showRes showPos o.start, showRes showPos o.end_, showRes showSpan o.full,
   showRes showOptPos o.next, showRes showOptPos o.prev, showRes showPos o.lineStart,
   showRes showPos o.lineEnd, showRes showOptPos o.prevLineEnd, showRes showOptPos o.nextLineStart,
   showRes showSpan o.widen, showRes showSpans o.split]

def fieldNames : List String :=
  ["text", "start_position", "end_position", "full_span", "next", "previous", "line_start", "line_end",
   "previous_line_end", "next_line_start", "widen_to_line", "split_lines", "owned_roundtrip"]

def diffNames (a b : List String) : String :=
  ",".intercalate (((fieldNames.zip (a.zip b)).filter (fun x => x.2.1 != x.2.2)).map (·.1))

def runWith (t le tab w p sub : String) (outer : Option String) (impl : String) : String × String :=
    let t := parseText t
    let m : Metrics := ⟨parseLE le, nat! tab⟩
    let w := parseSpan w
    let p := parsePos p
    let sub := parseSpan sub
    let outerSp : Option (Char × Span) := outer.map fun o => ((o.toList.headD 'c'), parseSpan (o.drop 1).toString)
    let mo := match (match outerSp with
        | none => model m t w p sub
        | some (r, o) => modelNested m t r o w p sub) with
      | .panic => "panic"
      | .ok o => "|".intercalate (fieldsOf o ++ ["1"])
    let canonOK := fun (q : Pos) => Spec.isCanon m t q
    -- a window of a window is the window of the document: the specification does not mention `outer`
    let outerOK := match outerSp with
      | none => true
      | some (_, o) => canonOK o.s && canonOK o.e && decide (o.s.byte ≤ w.s.byte) && decide (w.e.byte ≤ o.e.byte)
    if !(canonOK w.s && canonOK w.e && canonOK p && canonOK sub.s && canonOK sub.e && outerOK) then
      (mo, "SKIP positions are not canonical") else
    match Spec.cut3 m t w.s.byte w.e.byte, Spec.cutAt m t p.byte, Spec.cut3 m t sub.s.byte sub.e.byte with
    | some (wa, wmid, wz), some (pre, suf), some (sa, smid, sz) =>
      let so := fieldsOf (ofSpec (Spec.windowSpec m wa wmid wz pre suf sa smid sz)) ++ ["1"]
      let io := impl.splitOn "|"
      if io == so then (mo, "ok") else
      let names := diffNames io so
      (mo, "FAIL " ++ names ++ " expected " ++ "|".intercalate so)
    | _, _, _ => (mo, "SKIP positions are not canonical")

/-- fields: text, le, tab, window span, inner pos, sub span, [route ++ outer span], implObs -/
def run (fields : List String) : String × String :=
  match fields with
  | [t, le, tab, w, p, sub, impl] => runWith t le tab w p sub none impl
  | [t, le, tab, w, p, sub, outer, impl] => runWith t le tab w p sub (some outer) impl
  | _ => ("?", "FAIL bad case line")

end Tephra.Fam.Window
