/-
  Families `render` (plain / colour code paths with the crate's `no-color`
  feature) and `rendercolor` (real ANSI escapes, built by harness-color): C16.
-/
import TephraModel.Wire
import TephraModel.Spec.RenderSpec
import TephraModel.Spec.Canon

namespace Tephra.Fam.RenderF
open Tephra Tephra.Wire Tephra.Render

def parseDot6 (s : String) : Span :=
  match (s.splitOn ".").map nat! with
  | [a, b, c, d, e, f] => Span.enclosing ⟨a, b, c⟩ ⟨d, e, f⟩
  | _ => ⟨Pos.zero, Pos.zero⟩

def mtypeOf (i : Nat) : MType :=
  match i with
  | 1 => .error | 2 => .warning | 3 => .note | 4 => .help | _ => .info

/-- displays: `span/hl,hl;…`, hl = `span:mtype` -/
def parseDisplays (s : String) : List (Span × List (Span × Nat)) :=
  if s == "-" then [] else
  (s.splitOn ";").map fun d =>
    match d.splitOn "/" with
    | [sp, hls] =>
      (parseDot6 sp, if hls == "-" then [] else (hls.splitOn ",").map fun h =>
        match h.splitOn ":" with
        | [hs, t] => (parseDot6 hs, nat! t)
        | _ => (⟨Pos.zero, Pos.zero⟩, 0))
    | _ => (⟨Pos.zero, Pos.zero⟩, [])

structure Case where
  text : Text
  m : Metrics
  named : Bool
  color : Bool
  displays : List (Span × List (Span × Nat))

def parseCase : List String → Option Case
  | [t, le, tab, named, color, _mt, ds] =>
    some ⟨parseText t, ⟨parseLE le, nat! tab⟩, named == "1", color == "1", parseDisplays ds⟩
  | _ => none

def highlightsOf (hls : List (Span × Nat)) : List Highlight :=
  (List.range hls.length).filterMap fun i =>
    hls[i]?.map fun (sp, t) => ⟨sp, none, some s!"h{i}", mtypeOf t⟩

/-- the model of `SourceError::new(source, "msg").with_color(c).with_span_display(…)…` rendered -/
def modelRender (paint : Style → String → String) (c : Case) : Res String :=
  let src : Source := ⟨c.text, c.m, Pos.zero⟩
  let name := if c.named then some "src" else none
  let rec build : List (Span × List (Span × Nat)) → Res (List SpanDisplay)
    | [] => .ok []
    | (sp, hls) :: more =>
      match SpanDisplay.new src name sp, build more with
      | .ok sd, .ok rest => .ok ({ sd with highlights := highlightsOf hls } :: rest)
      | _, _ => .panic
  match build c.displays with
  | .panic => .panic
  | .ok sds =>
    writeCodeDisplay paint src
      { message := "msg", mtype := .error, codeId := none, spans := sds, notes := [], colorEnabled := c.color }

def encode (s : String) : String :=
  if s.isEmpty then "-" else ".".intercalate (s.toList.map fun ch => toString ch.toNat)

def showModel (r : Res String) : String :=
  match r with
  | .ok s => encode s ++ "|1"
  | .panic => "panic"

/-- remove `ESC [ … m` sequences -/
def stripAnsi (cs : List Nat) : List Nat :=
  let rec go (fuel : Nat) (cs : List Nat) (inEsc : Bool) : List Nat :=
    match fuel, cs with
    | 0, _ => []
    | _, [] => []
    | n + 1, c :: rest =>
      if inEsc then (if c == 109 then go n rest false else go n rest true)
      else if c == 27 then go n rest true
      else c :: go n rest false
  go (cs.length + 1) cs false

/-- the specification's rendering of a case (plain text) -/
def specRender (c : Case) : Option (String × Bool) :=
  let src : Source := ⟨c.text, c.m, Pos.zero⟩
  let name := if c.named then some "src" else none
  let one := fun (d : Span × List (Span × Nat)) =>
    match d.1.widenToLine src with
    | .panic => none
    | .ok wide =>
      match (SplitLines.ofSpan wide src).collect (wide.e.line - wide.s.line + 2) with
      | .panic => none
      | .ok (pieces, _) =>
        let lines := pieces.filterMap fun (_, sp) =>
          match Source.sliceBytes c.text sp.s.byte sp.e.byte with
          | .ok mid => some (sp.s.line, textString mid)
          | .panic => none
        let hls := highlightsOf d.2
        some ((name, wide, gutterWidth d.1.e.line, lines, hls), hls.all (Spec.wellBehaved wide.s.line wide.e.line))
  let ds := c.displays.map one
  if ds.any (·.isNone) then none else
  let ds := ds.filterMap id
  some ("\n".intercalate (Spec.reportRows .error "msg" (ds.map (·.1))) ++ "\n", ds.all (·.2))

def decode (s : String) : List Nat := if s == "-" then [] else (s.splitOn ".").map nat!

/-- fields: case…, implObs.  `ansi`: the observation carries real escape codes. -/
def run (ansiMode : Bool) (fields : List String) : String × String :=
  match parseCase fields.dropLast with
  | none => ("?", "FAIL bad case line")
  | some c =>
    let impl := fields.getLast?.getD ""
    let mo := showModel (modelRender (if ansiMode then ansi else plainPaint) c) ++
      (if ansiMode then
        (match modelRender plainPaint { c with color := false } with
         | .ok s => "|" ++ encode s
         | .panic => "|panic")
       else "")
    if impl == "panic" then (mo, "FAIL C01: rendering panicked; C16: rendering panicked, no report was produced") else
    let canonOK := c.displays.all fun (sp, hls) =>
      Spec.isCanon c.m c.text sp.s && Spec.isCanon c.m c.text sp.e &&
      hls.all fun (h, _) => Spec.isCanon c.m c.text h.s && Spec.isCanon c.m c.text h.e
    if !canonOK then (mo, "SKIP spans are not canonical") else
    let parts := impl.splitOn "|"
    let out := decode (parts.headD "")
    let ownedSame := parts.getD 1 "" == "1"
    -- in ANSI mode a second observation follows: the plain rendering of the same display
    let plainOfColoured := stripAnsi out
    match specRender c with
    | none => (mo, "SKIP display could not be laid out")
    | some (exp, _well) =>
      let expCodes := exp.toList.map (·.toNat)
      let p1 := if plainOfColoured == expCodes then [] else
        ["C16: " ++ "rendered rows differ from the specified layout: got " ++
          encode (String.ofList (plainOfColoured.map Char.ofNat)) ++ " expected " ++ encode exp]
      let p2 := if ownedSame then [] else ["C16: an owned copy of the error renders differently"]
      let p3 := if !ansiMode then [] else
        (if parts.getD 2 "" == encode (String.ofList (plainOfColoured.map Char.ofNat)) then []
         else ["C16: the plain rendering is not the coloured rendering with escape codes removed"])
      let ps := p1 ++ p2 ++ p3
      (mo, if ps.isEmpty then "ok" else "FAIL " ++ "; ".intercalate ps)

end Tephra.Fam.RenderF
