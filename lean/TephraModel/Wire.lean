/-
  TephraModel.Wire — parsing and printing for the line protocol shared with the
  Rust harness.  Fields are TAB separated; inside a field, items are separated
  by `,` (numbers) or `;` (groups).  Not part of any theorem.
-/
import TephraModel.Span

namespace Tephra.Wire
open Tephra

def nat! (s : String) : Nat := s.toNat?.getD 0

def splitNats (s : String) (sep : String := ",") : List Nat :=
  if s.isEmpty || s == "-" then [] else (s.splitOn sep).map nat!

/-- text: `code:size:width` items separated by `,`; `-` is the empty text. -/
def parseText (s : String) : Text :=
  if s.isEmpty || s == "-" then [] else
  (s.splitOn ",").map fun item =>
    match (item.splitOn ":").map nat! with
    | [c, sz, w] => ⟨c, sz, w⟩
    | _ => ⟨0, 1, 0⟩

def parseLE (s : String) : LineEnding :=
  if s == "cr" then .cr else if s == "crlf" then .crlf else .lf

def parsePos (s : String) : Pos :=
  match splitNats s with
  | [b, l, c] => ⟨b, l, c⟩
  | _ => Pos.zero

def parseSpan (s : String) : Span :=
  match splitNats s with
  | [b, l, c, b2, l2, c2] => ⟨⟨b, l, c⟩, ⟨b2, l2, c2⟩⟩
  | _ => ⟨Pos.zero, Pos.zero⟩

def showPos (p : Pos) : String := s!"{p.byte},{p.line},{p.col}"
def showSpan (x : Span) : String := s!"{showPos x.s},{showPos x.e}"
def showOptPos : Option Pos → String
  | none => "none"
  | some p => showPos p
def showOptSpan : Option Span → String
  | none => "none"
  | some p => showSpan p
def showSpans (l : List Span) : String := "[" ++ ";".intercalate (l.map showSpan) ++ "]"
def showBool (b : Bool) : String := if b then "1" else "0"
def showCodes (t : Text) : String :=
  if t.isEmpty then "-" else ",".intercalate (t.map fun c => toString c.code)

def showRes {α} (f : α → String) : Res α → String
  | .ok a => f a
  | .panic => "panic"

end Tephra.Wire
