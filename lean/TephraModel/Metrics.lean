/-
  TephraModel.Metrics — every method of `ColumnMetrics` (tephra-span/src/metrics.rs).

  Each Rust method `f(&self, text, base, ..)` has two layers here:
  * a *core* function on the text already split at `base.byte`
    (`suf` = `text[base.byte..]`, `revPre` = `text[..base.byte]` reversed);
  * a wrapper `f m t p ..` that performs the split (`none` ⇒ the Rust slice
    panics ⇒ `Res.panic`).
  Assumption recorded in the trusted base: `tab_width ≥ 1` (0 divides by zero
  in Rust; outside every property's quantifier).
-/
import TephraModel.Basic

namespace Tephra

/-- Code points of `LineEnding::as_str()`. -/
def lbCodes (m : Metrics) : List Nat :=
  match m.le with
  | .lf => [10]
  | .cr => [13]
  | .crlf => [13, 10]

/-- `line_break.len()` (the literal is ASCII). -/
def lbLen (m : Metrics) : Nat := (lbCodes m).length

/-- `t.starts_with(codes)` on code points; returns the rest. -/
def stripCodes : Text → List Nat → Option Text
  | t, [] => some t
  | [], _ :: _ => none
  | c :: rest, k :: ks => if c.code = k then stripCodes rest ks else none

/-- `text[byte..].starts_with(line_break)`: the suffix after the break. -/
def breakAt (m : Metrics) (suf : Text) : Option Text := stripCodes suf (lbCodes m)

/-- `text[..byte].ends_with(line_break)` on the reversed prefix. -/
def breakBefore (m : Metrics) (revPre : Text) : Option Text :=
  stripCodes revPre (lbCodes m).reverse

/-- One non-break step of `next_position`. -/
def stepCh (m : Metrics) (p : Pos) (c : Ch) : Pos :=
  if c.code = 9 then
    { byte := p.byte + 1, line := p.line, col := p.col + (m.tab - p.col % m.tab) }
  else
    { byte := p.byte + c.size, line := p.line, col := p.col + c.width }

/-- `next_position` on the suffix at `p`; also returns the remaining suffix. -/
def stepSuf (m : Metrics) (p : Pos) (suf : Text) : Option (Pos × Text) :=
  match breakAt m suf with
  | some rest => some ({ byte := p.byte + lbLen m, line := p.line + 1, col := 0 }, rest)
  | none =>
    match suf with
    | [] => none
    | c :: rest => some (stepCh m p c, rest)

theorem stripCodes_length {t rest : Text} {ks : List Nat}
    (h : stripCodes t ks = some rest) : rest.length + ks.length = t.length := by
  induction ks generalizing t with
  | nil => simp [stripCodes] at h; simp [h]
  | cons k ks ih =>
    cases t with
    | nil => simp [stripCodes] at h
    | cons c r =>
      simp only [stripCodes] at h
      split at h
      · have := ih h; simp; omega
      · simp at h

theorem breakAt_length {m : Metrics} {suf rest : Text}
    (h : breakAt m suf = some rest) : rest.length < suf.length := by
  have := stripCodes_length h
  have h2 : 0 < (lbCodes m).length := by unfold lbCodes; split <;> simp
  omega

theorem stepSuf_length {m : Metrics} {p q : Pos} {suf rest : Text}
    (h : stepSuf m p suf = some (q, rest)) : rest.length < suf.length := by
  unfold stepSuf at h
  split at h
  · rename_i r hb
    simp at h; obtain ⟨_, rfl⟩ := h
    exact breakAt_length hb
  · split at h
    · simp at h
    · simp at h; obtain ⟨_, rfl⟩ := h; simp

/-- `end_position`: iterate `next_position` to the end of the text. -/
def endSuf (m : Metrics) (p : Pos) (suf : Text) : Pos :=
  match h : stepSuf m p suf with
  | none => p
  | some (q, rest) => endSuf m q rest
termination_by suf.length
decreasing_by exact stepSuf_length h

/-- `line_end_position`: advance until a line break or the end of the text. -/
def lineEndSuf (m : Metrics) (p : Pos) : Text → Pos
  | [] => p
  | c :: rest =>
    match breakAt m (c :: rest) with
    | some _ => p
    | none => lineEndSuf m (stepCh m p c) rest

/-- Same, also returning the remaining suffix (starting at the break, if any). -/
def lineEndSuf' (m : Metrics) (p : Pos) : Text → Pos × Text
  | [] => (p, [])
  | c :: rest =>
    match breakAt m (c :: rest) with
    | some _ => (p, c :: rest)
    | none => lineEndSuf' m (stepCh m p c) rest

/-- `line_start_position` (repaired): walk back over the reversed prefix until
the preceding text ends with a complete line break.  Returns the start byte and
the reversed prefix *before* the line start. -/
def lineStartRev (m : Metrics) : Text → Nat → Nat × Text
  | [], b => (b, [])
  | c :: r, b =>
    match breakBefore m (c :: r) with
    | some _ => (b, c :: r)
    | none => lineStartRev m r (b - c.size)

/-- `position_after_str` on the suffix at `p`. `pat` is the part of the
pattern not yet matched. -/
def afterStrSuf (m : Metrics) (p : Pos) (suf pat : Text) : Option Pos :=
  match h : stepSuf m p suf with
  | none => none
  | some (q, rest) =>
    -- `pattern.get(a..b) == Some(text[end..adv])`
    match stripCodes pat ((suf.take (suf.length - rest.length)).map (·.code)) with
    | none => none
    | some pat' => if pat'.isEmpty then some q else afterStrSuf m q rest pat'
termination_by suf.length
decreasing_by exact stepSuf_length h

/-- loop of `position_after_chars_matching`. -/
def afterMatchingSuf (m : Metrics) (f : Ch → Bool) (p : Pos) (suf : Text) : Pos :=
  match h : stepSuf m p suf with
  | none => p
  | some (q, rest) =>
    if (suf.take (suf.length - rest.length)).all f then afterMatchingSuf m f q rest else p
termination_by suf.length
decreasing_by exact stepSuf_length h

/-! ### Wrappers with the byte-offset interface of the Rust API -/

def nextPosition (m : Metrics) (t : Text) (p : Pos) : Res (Option Pos) :=
  match splitAtByte t p.byte with
  | none => .panic
  | some (_, suf) => .ok ((stepSuf m p suf).map (·.1))

def isLineBreak (m : Metrics) (t : Text) (b : Nat) : Res Bool :=
  match splitAtByte t b with
  | none => .panic
  | some (_, suf) => .ok (breakAt m suf).isSome

def endPosition (m : Metrics) (t : Text) (p : Pos) : Res Pos :=
  -- `while end.byte < text.len()`: past the end nothing is sliced.
  if bytes t ≤ p.byte then .ok p else
  match splitAtByte t p.byte with
  | none => .panic
  | some (_, suf) => .ok (endSuf m p suf)

def lineEndPosition (m : Metrics) (t : Text) (p : Pos) : Res Pos :=
  if bytes t ≤ p.byte then .ok p else
  match splitAtByte t p.byte with
  | none => .panic
  | some (_, suf) => .ok (lineEndSuf m p suf)

def lineStartPosition (m : Metrics) (t : Text) (p : Pos) : Res Pos :=
  if p.byte = 0 then .ok ⟨0, p.line, 0⟩ else
  match splitAtByte t p.byte with
  | none => .panic
  | some (pre, _) => .ok ⟨(lineStartRev m pre.reverse p.byte).1, p.line, 0⟩

/-- forward re-measuring loop of `previous_position`'s tab case. -/
def measureTo (m : Metrics) (target : Nat) (p : Pos) (suf : Text) : Res Pos :=
  if p.byte = target then .ok p else
  match h : stepSuf m p suf with
  | none => .panic   -- `.expect("next position is guaranteed")`
  | some (q, rest) => measureTo m target q rest
termination_by suf.length
decreasing_by exact stepSuf_length h

def previousPosition (m : Metrics) (t : Text) (p : Pos) : Res (Option Pos) :=
  match splitAtByte t p.byte with
  | none => .panic
  | some (pre, _) =>
    match breakBefore m pre.reverse with
    | some _ => do
      -- repaired: the end of the previous line, measured from its start
      let prevByte ← csub p.byte (lbLen m)
      let line ← csub p.line 1
      let ls ← lineStartPosition m t ⟨prevByte, line, 0⟩
      match splitAtByte t prevByte with
      | none => .panic
      | some (pre', _) => endPosition m pre' ls
    | none =>
      match pre.reverse with
      | [] => .ok none
      | c :: _ =>
        if c.code = 9 then do
          let ls ← lineStartPosition m t p
          let target ← csub p.byte 1
          match splitAtByte t ls.byte with
          | none => .panic
          | some (_, suf) => (measureTo m target ls suf).bind (fun q => .ok (some q))
        else do
          let b ← csub p.byte c.size
          let col ← csub p.col c.width
          .ok (some ⟨b, p.line, col⟩)

def previousLineEndPosition (m : Metrics) (t : Text) (p : Pos) : Res (Option Pos) := do
  let ls ← lineStartPosition m t p
  previousPosition m t ls

def nextLineStartPosition (m : Metrics) (t : Text) (p : Pos) : Res (Option Pos) := do
  let le ← lineEndPosition m t p
  nextPosition m t le

/-- `start_position`: iterate `previous_position` back to byte 0. -/
def startPosition (m : Metrics) (t : Text) (p : Pos) : Res Pos :=
  if h0 : p.byte = 0 then .ok p else
  match previousPosition m t p with
  | .panic => .panic
  | .ok none => .ok p
  | .ok (some q) =>
    -- progress guard: unreachable for texts whose characters have size ≥ 1
    if h : q.byte < p.byte then startPosition m t q else .panic
termination_by p.byte

def positionAfterStr (m : Metrics) (t : Text) (p : Pos) (pat : Text) : Res (Option Pos) :=
  match splitAtByte t p.byte with
  | none => .panic
  | some (_, suf) => .ok (afterStrSuf m p suf pat)

def positionAfterCharsMatching (m : Metrics) (f : Ch → Bool) (t : Text) (p : Pos) :
    Res (Option Pos) :=
  match splitAtByte t p.byte with
  | none => .panic
  | some (_, suf) =>
    let e := afterMatchingSuf m f p suf
    .ok (if e = p then none else some e)

def nextPositionAfterCharsMatching (m : Metrics) (f : Ch → Bool) (t : Text) (p : Pos) :
    Res (Option Pos) :=
  match splitAtByte t p.byte with
  | none => .panic
  | some (_, suf) =>
    match stepSuf m p suf with
    | none => .ok none
    | some (q, rest) =>
      .ok (if (suf.take (suf.length - rest.length)).all f then some q else none)

end Tephra
