/-
  TephraModel.Span — `Span` and its interval operations (tephra-span/src/span.rs),
  `SourceText` with a start offset (source.rs), `SplitLines`.
-/
import TephraModel.Metrics

namespace Tephra

/-- `Span { byte: ByteSpan, page: PageSpan }` carries exactly two positions. -/
structure Span where
  s : Pos
  e : Pos
deriving Repr, DecidableEq, Inhabited

def Pos.min (a b : Pos) : Pos := if Pos.le a b then a else b
def Pos.max (a b : Pos) : Pos := if Pos.le a b then b else a

namespace Span

def at_ (p : Pos) : Span := ⟨p, p⟩

/-- `Span::enclosing`: swaps when `a.byte > b.byte`. -/
def enclosing (a b : Pos) : Span := if a.byte > b.byte then ⟨b, a⟩ else ⟨a, b⟩

def isEmpty (x : Span) : Bool := x.s.byte == x.e.byte
def len (x : Span) : Nat := x.e.byte - x.s.byte

def contains (x : Span) (p : Pos) : Bool := Pos.le x.s p && Pos.le p x.e

def intersects (x y : Span) : Bool :=
  x.contains y.s || x.contains y.e || y.contains x.s || y.contains x.e

def adjacent (x y : Span) : Bool := x.s == y.e || x.e == y.s

def enclose (x y : Span) : Span :=
  let start := if Pos.lt x.s y.s then x.s else y.s
  let end_ := if Pos.lt y.e x.e then x.e else y.e
  enclosing start end_

/-- `Few<Span>` as a list of 0..2 spans. -/
def union (x y : Span) : List Span :=
  if x.intersects y then [x.enclose y] else [x, y]

def intersect (x y : Span) : Option Span :=
  let start? : Option Pos :=
    match x.contains y.s, y.contains x.s with
    | true, true => some x.s
    | true, false => some y.s
    | false, true => some x.s
    | false, false => none
  let end? : Option Pos :=
    match x.contains y.e, y.contains x.e with
    | true, true => some x.e
    | true, false => some y.e
    | false, true => some x.e
    | false, false => none
  match start?, end? with
  | some a, some b => some (enclosing a b)
  | _, _ => none

/-- `Span::minus` (repaired). -/
def minus (x y : Span) : List Span :=
  let lEnd := Pos.min y.s x.e
  let rStart := Pos.max y.e x.s
  let l := if Pos.lt x.s y.s then [enclosing x.s lEnd] else []
  let r := if Pos.lt y.e x.e then [enclosing rStart x.e] else []
  l ++ r

end Span

/-! ### SourceText -/

/-- `SourceText { text, name, metrics, offset }` (the name plays no role in any
position computation and is kept only for the renderer). -/
structure Source where
  text : Text
  metrics : Metrics
  offset : Pos
deriving Repr, Inhabited

namespace Source

def len (src : Source) : Nat := bytes src.text

/-- `Pos::with_byte_offset`: rebases the byte only. -/
def withByteOffset (p : Pos) (off : Nat) (f : Pos → Res (Option Pos)) : Res (Option Pos) := do
  let b ← csub p.byte off
  let r ← f { p with byte := b }
  .ok (r.map fun q => { q with byte := q.byte + off })

def withByteOffset1 (p : Pos) (off : Nat) (f : Pos → Res Pos) : Res Pos := do
  let b ← csub p.byte off
  let q ← f { p with byte := b }
  .ok { q with byte := q.byte + off }

/-- `SourceText::end_position` (repaired: measured from the start's page position). -/
def endPosition (src : Source) : Res Pos := do
  let e ← Tephra.endPosition src.metrics src.text ⟨0, src.offset.line, src.offset.col⟩
  .ok { e with byte := e.byte + src.offset.byte }

def startPosition (src : Source) : Pos := src.offset

def fullSpan (src : Source) : Res Span := do
  let e ← src.endPosition
  .ok (Span.enclosing src.offset e)

def nextPosition (src : Source) (p : Pos) : Res (Option Pos) :=
  withByteOffset p src.offset.byte (Tephra.nextPosition src.metrics src.text)

/-- `SourceText::previous_position` (repaired: a result on the first line of a text
whose start position has a non-zero column is re-measured from that start). -/
def previousPosition (src : Source) (p : Pos) : Res (Option Pos) := do
  let r ← withByteOffset p src.offset.byte (Tephra.previousPosition src.metrics src.text)
  match r with
  | none => .ok none
  | some prev =>
    if prev.line = src.offset.line ∧ src.offset.col ≠ 0 then
      match csub prev.byte src.offset.byte with
      | .panic => .panic
      | .ok n =>
        match splitAtByte src.text n with
        | none => .panic
        | some (pre, _) =>
          match Tephra.endPosition src.metrics pre ⟨0, src.offset.line, src.offset.col⟩ with
          | .panic => .panic
          | .ok e => .ok (some { e with byte := e.byte + src.offset.byte })
    else .ok (some prev)

def lineEndPosition (src : Source) (p : Pos) : Res Pos :=
  withByteOffset1 p src.offset.byte (Tephra.lineEndPosition src.metrics src.text)

/-- `SourceText::line_start_position` (repaired: the start of the text is the
text's start position, not column 0). -/
def lineStartPosition (src : Source) (p : Pos) : Res Pos := do
  let r ← withByteOffset1 p src.offset.byte (Tephra.lineStartPosition src.metrics src.text)
  .ok (if r.byte = src.offset.byte then src.offset else r)

/-- `SourceText::previous_line_end_position` (repaired: through the text's own
`line_start_position` and `previous_position`). -/
def previousLineEndPosition (src : Source) (p : Pos) : Res (Option Pos) := do
  let ls ← src.lineStartPosition p
  src.previousPosition ls

def nextLineStartPosition (src : Source) (p : Pos) : Res (Option Pos) :=
  withByteOffset p src.offset.byte (Tephra.nextLineStartPosition src.metrics src.text)

def positionAfterStr (src : Source) (p : Pos) (pat : Text) : Res (Option Pos) :=
  withByteOffset p src.offset.byte (fun q => Tephra.positionAfterStr src.metrics src.text q pat)

def positionAfterCharsMatching (src : Source) (f : Ch → Bool) (p : Pos) : Res (Option Pos) :=
  withByteOffset p src.offset.byte (Tephra.positionAfterCharsMatching src.metrics f src.text)

def nextPositionAfterCharsMatching (src : Source) (f : Ch → Bool) (p : Pos) :
    Res (Option Pos) :=
  withByteOffset p src.offset.byte (Tephra.nextPositionAfterCharsMatching src.metrics f src.text)

/-- `pos_in_bounds` (the `debug_assert!` of `clipped`). -/
def posInBounds (src : Source) (p : Pos) : Res Bool := do
  let e ← src.endPosition
  .ok (decide (src.offset.byte ≤ p.byte) && decide (p.byte ≤ e.byte)
        && Pos.pageLe src.offset p && Pos.pageLe p e)

/-- `text[s..e]` -/
def sliceBytes (t : Text) (s e : Nat) : Res Text :=
  if e < s then .panic else
  match splitAtByte t s with
  | none => .panic
  | some (_, suf) =>
    match splitAtByte suf (e - s) with
    | none => .panic
    | some (mid, _) => .ok mid

/-- `SourceText::clipped` (debug assertions on, as in the repo's dev profile). -/
def clipped (src : Source) (sp : Span) : Res Source := do
  let b1 ← src.posInBounds sp.s
  let b2 ← src.posInBounds sp.e
  if !(b1 && b2) then .panic else
  let s ← csub sp.s.byte src.offset.byte
  let e ← csub sp.e.byte src.offset.byte
  let mid ← sliceBytes src.text s e
  .ok { text := mid, metrics := src.metrics, offset := sp.s }

end Source

namespace Span

def isFull (x : Span) (src : Source) : Bool := x.e.byte - x.s.byte == src.len

/-- `Span::widen_to_line`. -/
def widenToLine (x : Span) (src : Source) : Res Span :=
  if x.isFull src then .ok x else do
    let a ← src.lineStartPosition x.s
    let b ← src.lineEndPosition x.e
    .ok (enclosing a b)

end Span

/-! ### SplitLines -/

structure SplitLines where
  src : Source
  start : Pos
  stop : Pos
deriving Repr, Inhabited

namespace SplitLines

def ofSpan (x : Span) (src : Source) : SplitLines := ⟨src, x.s, x.e⟩

/-- `ExactSizeIterator::len` (repaired). -/
def len (it : SplitLines) : Nat := (it.stop.line + 1) - it.start.line

/-- `Iterator::next`. -/
def next (it : SplitLines) : Res (Option Span × SplitLines) :=
  if it.start.line > it.stop.line then .ok (none, it)
  else if it.start.line = it.stop.line then
    .ok (some (Span.enclosing it.start it.stop),
         { it with start := { it.start with line := it.start.line + 1 } })
  else do
    let e ← it.src.lineEndPosition it.start
    let n ← it.src.nextPosition e
    match n with
    | none => .panic    -- `.expect("next line < end line")`
    | some q => .ok (some (Span.enclosing it.start e), { it with start := q })

/-- Collect all pieces, recording `len()` before every `next()` and once at the end.
Fuel bounds the number of `next` calls (`stop.line - start.line + 2` suffices). -/
def collect : Nat → SplitLines → Res (List (Nat × Span) × Nat)
  | 0, it => .ok ([], it.len)
  | fuel + 1, it =>
    match it.next with
    | .panic => .panic
    | .ok (none, it') => .ok ([], it'.len)
    | .ok (some sp, it') =>
      match collect fuel it' with
      | .panic => .panic
      | .ok (rest, l) => .ok ((it.len, sp) :: rest, l)

end SplitLines

end Tephra
