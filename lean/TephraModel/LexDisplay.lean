/-
  TephraModel.LexDisplay — `impl Display for Lexer` (tephra/src/lexer.rs):

      let mut spans = SpanDisplay::new(self.source_text,
              Span::enclosing(self.parse_start, self.cursor))
          .with_highlight(Highlight::new(self.token_span(), format!("token ({})", self.token_span())))
          .with_highlight(Highlight::new(self.parse_span(), format!("parse ({})", self.parse_span())))
          .with_highlight(Highlight::new(Span::at(self.cursor),
              format!("cursor ({}), scanner: {:?}", Span::at(self.cursor), self.scanner)));
      if let Some(span) = self.peek_token_span() {
          spans = spans.with_highlight(Highlight::new(span, format!("peek ({})", span)));
      }
      CodeDisplay::new("Lexer").with_color(true).with_note_type().with_span_display(spans)
          .write(f, self.source_text)

  `Highlight::new(span, msg)` is an info-type highlight carrying `msg` as its *end*
  message (highlight.rs); `CodeDisplay::new` is an info-type display with colour on,
  `with_note_type` makes it a note (header label `note`), `write` renders with the
  display's own colour flag (`true`): the colour code paths run.  What `colored`
  does to a string is the renderer model's `paint` parameter; with the crate's
  `no-color` feature (tephra-error's default, the harness's build) it is the identity,
  `plainPaint`.

  What the library cannot know is a parameter: the `Debug` text of the user's scanner
  and the name of the source text.
-/
import TephraModel.Render
import TephraModel.Lexer

namespace Tephra.LexDisplay
open Tephra Tephra.Render

variable {σ τ : Type}

/-- `Highlight::new(span, message)`: info type, the message sits at the end of the span -/
def infoHighlight (sp : Span) (msg : String) : Highlight := ⟨sp, none, some msg, .info⟩

/-- the highlights in the order they are attached: token, parse, cursor, and the buffered
token's span if `peek_token_span()` is `Some` (`{}` of a span is `Render.showSpan`) -/
def lexerHighlights (scannerDebug : String) (lx : Lexer σ τ) : List Highlight :=
  [ infoHighlight lx.tokenSpan ("token (" ++ showSpan lx.tokenSpan ++ ")"),
    infoHighlight lx.parseSpan ("parse (" ++ showSpan lx.parseSpan ++ ")"),
    infoHighlight (Span.at_ lx.cursor)
      ("cursor (" ++ showSpan (Span.at_ lx.cursor) ++ "), scanner: " ++ scannerDebug) ] ++
  (match lx.peekTokenSpan with
   | some sp => [infoHighlight sp ("peek (" ++ showSpan sp ++ ")")]
   | none => [])

/-- the `CodeDisplay` built by `Display for Lexer`.  `src` is the lexer's `source_text` (its
metrics are the lexer's metrics), `scannerDebug` is `format!("{:?}", self.scanner)`, `name`
the source's name.  `.panic`: `SpanDisplay::new` (`widen_to_line`) panicked. -/
def lexerDisplay (src : Source) (scannerDebug : String) (lx : Lexer σ τ)
    (name : Option String := none) : Res CodeDisplay :=
  match SpanDisplay.new src name (Span.enclosing lx.parseStart lx.cursor) with
  | .panic => .panic
  | .ok sd =>
    .ok { message := "Lexer", mtype := .note, codeId := none,
          spans := [{ sd with highlights := lexerHighlights scannerDebug lx }],
          notes := [], colorEnabled := true }

/-- `format!("{}", lexer)` (built with the `no-color` feature: the colour code paths with the
identity painter) -/
def renderLexer (src : Source) (scannerDebug : String) (lx : Lexer σ τ)
    (name : Option String := none) : Res String :=
  match lexerDisplay src scannerDebug lx name with
  | .panic => .panic
  | .ok cd => writeCodeDisplay plainPaint src { cd with colorEnabled := true }

/-- the source text a lexer over the whole of `t` holds: offset zero, the lexer's metrics -/
def lexerSource (t : Text) (lx : Lexer σ τ) : Source := ⟨t, lx.metrics, Pos.zero⟩

/-! ### the protocol's fingerprint of the text -/

/-- Σ codepoint(i) · (i mod 7 + 1), modulo 1000003 -/
def checksumFrom : Nat → Nat → List Char → Nat
  | _, acc, [] => acc
  | i, acc, c :: r => checksumFrom (i + 1) ((acc + c.toNat * (i % 7 + 1)) % 1000003) r

/-- `<number of chars>:<checksum>` -/
def textPrint (s : String) : String :=
  let cs := s.toList
  toString cs.length ++ ":" ++ toString (checksumFrom 0 0 cs)

def showRendered : Res String → String
  | .ok s => textPrint s
  | .panic => "panic"

end Tephra.LexDisplay
