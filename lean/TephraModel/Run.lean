/-
  TephraModel.Run — the interpreter: every combinator of tephra-combinator
  (primitive.rs, join.rs, alt.rs, control.rs, misc.rs, repeat.rs, bracket.rs,
  list.rs), `Context` (tephra/src/context.rs), the recovery closures
  (tephra-error/src/recover.rs) and `Lexer::advance_to_recover`, mirrored line
  by line on top of the lexer model.

  * `Ctx` is a value: after the `fix:` commits no combinator mutates a shared
    context cell, so a context is (sink present?, transform chain innermost
    first, locked).  The only shared mutable state left is the `found` flag of
    `recover_after*` closures, kept in `World.found` by closure identity.
  * Every loop takes fuel (`RRes.fuel` = out of fuel); C02 is the statement that
    enough fuel always exists.
  * `RRes.panic` is produced exactly where the Rust would panic (`unwrap` on
    `None`, `assert!`/`debug_assert!`, slice off a boundary).
-/
import TephraModel.Grammar

set_option linter.unusedVariables false

namespace Tephra

abbrev Lx := Lexer Nat Tok

structure Ctx where
  sink : Bool
  chain : List Nat
  locked : Bool
deriving Repr, DecidableEq, Inhabited

structure World where
  specs : List (Nat × Rec)
  found : List Nat
  log : List PErr
  probes : List String
deriving Repr, Inhabited

def World.init : World := ⟨[], [], [], []⟩

inductive RRes where
  | ok (v : Val) (lx : Lx)
  | err (e : PErr)
  | panic
  | fuel
deriving Repr, Inhabited

structure RunEnv where
  E : LexEnv Nat Tok
  text : Text

namespace Ctx
def pushed (c : Ctx) (tag : Nat) : Ctx := if c.locked then c else ⟨c.sink, tag :: c.chain, false⟩
def withoutSink (c : Ctx) : Ctx := { c with sink := false }
def rawCtx (c : Ctx) : Ctx := { c with chain := [], locked := true }
def apply (c : Ctx) (e : PErr) : PErr := { e with trail := e.trail ++ c.chain }
end Ctx

/-- `Context::send_error`: `none` = delivered to the sink; `some e` = handed back. -/
def sendError (c : Ctx) (e : PErr) (W : World) : Option PErr × World :=
  if c.sink then (none, { W with log := W.log ++ [c.apply e] }) else (some e, W)

def mkErr (b : ErrBody) : PErr := ⟨[], b⟩

/-! ### recovery closures and `advance_to_recover` -/

def World.register (W : World) (id : Nat) (r : Rec) : World :=
  if W.specs.any (·.1 == id) then W else { W with specs := (id, r) :: W.specs }

/-- Call the recover closure `id` on a token. -/
def askRecover (W : World) (id : Nat) (t : Tok) : Bool × World :=
  match ((W.specs.find? (·.1 == id)).map (·.2) : Option Rec) with
  | none => (true, W)
  | some (.before k) => (t.kind == k, W)
  | some (.beforeAny ks) => (ks.contains t.kind, W)
  | some (.sepOrAbort sep abort) => (t.kind == sep || abort.contains t.kind, W)
  | some (.after k) =>
    if W.found.contains id then (true, { W with found := W.found.erase id })
    else (false, if t.kind == k then { W with found := id :: W.found } else W)
  | some (.afterAny ks) =>
    if W.found.contains id then (true, { W with found := W.found.erase id })
    else (false, if ks.contains t.kind then { W with found := id :: W.found } else W)

/-- the `while let Some(token) = self.peek()` loop of `advance_to_recover` -/
def recoverLoop (R : RunEnv) (id : Nat) : Nat → Lx → World → Option Lx × World
  | 0, lx, W => (none, W)
  | n + 1, lx, W =>
    match lx.peek R.E with
    | (none, lx') => (none, W)
    | (some t, lx') =>
      let (b, W') := askRecover W id t
      if b then (some lx', W')
      else recoverLoop R id n (lx'.next R.E).2 W'

/-- `Lexer::advance_to_recover`: `some lx` = Ok (the span is not used by any caller),
`none` = `Err(RecoverError)`. -/
def advanceToRecover (R : RunEnv) (lx : Lx) (W : World) : Option Lx × World :=
  match lx.recover with
  | none => (some lx, W)
  | some id => recoverLoop R id (lx.len + 2) lx W

/-! ### observations of a lexer (used by `probe` and by result rendering) -/

def restOf (R : RunEnv) (lx : Lx) : String :=
  let items := (lx.iterWithSpans R.E).1
  "[" ++ ",".intercalate (items.map fun (t, sp, _) => s!"{t.kind}.{t.tag}@{GWire.dotSpan sp}") ++ "]"

def showLexer (R : RunEnv) (lx : Lx) : String :=
  "cur=" ++ GWire.dotPos lx.cursor ++ ";ts=" ++ GWire.dotSpan lx.tokenSpan ++ ";ps=" ++ GWire.dotSpan lx.parseSpan ++
  ";f=" ++ (if lx.filter.isSome then "1" else "0") ++ ";r=" ++ (if lx.recover.isSome then "1" else "0") ++
  ";rest=" ++ restOf R lx

/-! ### bracket matching (`match_nested_brackets`) -/

inductive MatchRes where
  | found (open_ close : Lx) (idx : Nat)
  | err (e : ErrBody)
  | panic
  | fuel

def position (ks : List Nat) (k : Nat) : Option Nat := ks.findIdx? (· == k)

def matchLoop (R : RunEnv) (opens closes abort : List Nat) (startSpan : Span) :
    Nat → Lx → Option Lx → List (Nat × Nat) → MatchRes
  | 0, _, _, _ => .fuel
  | n + 1, lexer, openLexer, opened =>
    match lexer.peek R.E with
    | (none, _) =>
      match openLexer with
      | none => .err (.bracketNone startSpan)
      | some ol =>
        match ol.peekTokenSpan with
        | some s => .err (.bracketUnclosed s)
        | none => .panic
    | (some tok, lexer) =>
      let continue_ := fun (openLexer : Option Lx) (opened : List (Nat × Nat)) =>
        matchLoop R opens closes abort startSpan n (lexer.next R.E).2 openLexer opened
      match position closes tok.kind with
      | some idx =>
        match opened with
        | [] =>
          match lexer.peekTokenSpan with
          | some s => .err (.bracketUnopened s)
          | none => .panic
        | (t, cnt) :: rest =>
          if t != idx then
            match openLexer.bind (·.peekTokenSpan), lexer.peekTokenSpan with
            | some a, some b => .err (.bracketMismatch a b)
            | _, _ => .panic
          else if cnt > 1 then continue_ openLexer ((t, cnt - 1) :: rest)
          else if rest.isEmpty then
            match openLexer with
            | some ol => .found ol lexer idx
            | none => .panic
          else continue_ openLexer rest
      | none =>
        match position opens tok.kind with
        | some idx =>
          let openLexer' := match openLexer with
            | none => some lexer
            | some ol => some ol
          let opened' := match opened with
            | [] => [(idx, 1)]
            | (t, cnt) :: rest => if t != idx then (idx, 1) :: (t, cnt) :: rest else (t, cnt + 1) :: rest
          continue_ openLexer' opened'
        | none =>
          if abort.contains tok.kind && openLexer.isNone then
            match lexer.peekTokenSpan with
            | some s => .err (.bracketNone s)
            | none => .panic
          else continue_ openLexer opened

/-! ### the interpreter -/

def hiReached (hi : Option Nat) (n : Nat) : Bool :=
  match hi with
  | none => false
  | some h => n ≥ h

def hiAllows (hi : Option Nat) (n : Nat) : Bool :=
  match hi with
  | none => true
  | some h => n < h

def hiBelow (hi : Option Nat) (lo : Nat) : Bool :=
  match hi with
  | none => false
  | some h => decide (h < lo)

def optVal : Option Val → Val
  | Option.none => Val.none
  | Option.some v => Val.some v

mutual

/-- `run fuel g lexer ctx world` -/
def run (R : RunEnv) : Nat → G → Lx → Ctx → World → RRes × World
  | 0, _, _, _, W => (.fuel, W)
  | n + 1, g, lx, ctx, W =>
    match g with
    | .empty => (.ok .unit lx, W)
    | .one k =>
      let es := lx.parseSpan
      match lx.next R.E with
      | (Option.some t, lx') =>
        if t.kind == k then (.ok (.tok t) lx', W)
        else (.err (mkErr (.unexp es lx'.tokenSpan (.token k) (.token t))), W)
      | (Option.none, lx') => (.err (mkErr (.unexp es lx'.tokenSpan (.token k) .eot)), W)
    | .any ks =>
      if ks.isEmpty then (.panic, W) else
      let es := lx.parseSpan
      match lx.peek R.E with
      | (Option.some t, lx') =>
        match ks.find? (· == t.kind) with
        | Option.some k => (.ok (.tok ⟨k, 0⟩) (lx'.next R.E).2, W)
        | Option.none =>
          (.err (mkErr (.unexp es (lx'.peekTokenSpan.getD lx'.tokenSpan) (.tokens ks) (.token t))), W)
      | (Option.none, lx') => (.err (mkErr (.unexp es lx'.tokenSpan (.tokens ks) .eot)), W)
    | .anyIndex ks =>
      if ks.isEmpty then (.panic, W) else
      let es := lx.parseSpan
      match lx.peek R.E with
      | (Option.some t, lx') =>
        match position ks t.kind with
        | Option.some i => (.ok (.idx i) (lx'.next R.E).2, W)
        | Option.none =>
          (.err (mkErr (.unexp es (lx'.peekTokenSpan.getD lx'.tokenSpan) (.tokens ks) (.token t))), W)
      | (Option.none, lx') => (.err (mkErr (.unexp es lx'.tokenSpan (.tokens ks) .eot)), W)
    | .seq ks => (seqLoop R lx.parseSpan ks lx [], W)
    | .seqCount ks => (seqCountLoop R lx.parseSpan ks lx 0, W)
    | .pred p =>
      let es := lx.parseSpan
      match lx.next R.E with
      | (Option.none, lx') => (.err (mkErr (.unexp es lx'.tokenSpan .other .eot)), W)
      | (Option.some t, lx') =>
        if p.eval t then (.ok (.tok t) lx', W)
        else (.err (mkErr (.unexp es lx'.tokenSpan .other (.token t))), W)
    | .endOfText =>
      let es := lx.parseSpan
      match lx.peek R.E with
      | (Option.some t, lx') =>
        (.err (mkErr (.unexp es (lx'.peekTokenSpan.getD lx'.tokenSpan) .eot (.token t))), W)
      | (Option.none, lx') =>
        if ((lx'.next R.E).2).isEmpty then (.ok .unit lx', W) else (.err (mkErr (.unrec es)), W)
    | .both a b =>
      match run R n a lx ctx W with
      | (.ok v1 lx1, W1) =>
        match run R n b lx1 ctx W1 with
        | (.ok v2 lx2, W2) => (.ok (.pair v1 v2) lx2, W2)
        | r => r
      | r => r
    | .left a b =>
      match run R n (.both a b) lx ctx W with
      | (.ok (.pair v1 _) lx2, W2) => (.ok v1 lx2, W2)
      | r => r
    | .right a b =>
      match run R n (.both a b) lx ctx W with
      | (.ok (.pair _ v2) lx2, W2) => (.ok v2 lx2, W2)
      | r => r
    | .center a b c =>
      match run R n a lx ctx W with
      | (.ok _ lx1, W1) =>
        match run R n b lx1 ctx W1 with
        | (.ok v lx2, W2) =>
          match run R n c lx2 ctx W2 with
          | (.ok _ lx3, W3) => (.ok v lx3, W3)
          | r => r
        | r => r
      | r => r
    | .map a =>
      match run R n a lx ctx W with
      | (.ok v lx1, W1) => (.ok (.mapped v) lx1, W1)
      | r => r
    | .someOf a =>
      match run R n a lx ctx W with
      | (.ok v lx1, W1) => (.ok (.some v) lx1, W1)
      | r => r
    | .discard a =>
      match run R n a lx ctx W with
      | (.ok _ lx1, W1) => (.ok .unit lx1, W1)
      | r => r
    | .either a b =>
      match run R n a lx ctx W with
      | (.err _, W1) => run R n b lx ctx W1
      | r => r
    | .maybe a =>
      match run R n a lx ctx.withoutSink W with
      | (.ok v lx1, W1) => (.ok (.some v) lx1, W1)
      | (.err _, W1) => (.ok .none lx, W1)
      | r => r
    | .unrecoverable a => run R n a lx ctx.withoutSink W
    | .raw a => run R n a lx ctx.rawCtx W
    | .requireIf flag a =>
      if flag then
        match run R n a lx ctx W with
        | (.ok v lx1, W1) => (.ok (.some v) lx1, W1)
        | r => r
      else run R n (.maybe a) lx ctx W
    | .cond flag a =>
      if flag then
        match run R n a lx ctx W with
        | (.ok v lx1, W1) => (.ok (.some v) lx1, W1)
        | r => r
      else (.ok .none lx, W)
    | .implies a b =>
      match run R n (.maybe a) lx ctx W with
      | (.ok .none lx1, W1) => (.ok .none lx1, W1)
      | (.ok (.some l) lx1, W1) =>
        match run R n b lx1 ctx W1 with
        | (.ok r lx2, W2) => (.ok (.some (.pair l r)) lx2, W2)
        | r => r
      | r => r
    | .antecedent a b =>
      match run R n (.implies a b) lx ctx W with
      | (.ok (.some (.pair l _)) lx2, W2) => (.ok (.some l) lx2, W2)
      | r => r
    | .consequent a b =>
      match run R n (.implies a b) lx ctx W with
      | (.ok (.some (.pair _ r)) lx2, W2) => (.ok (.some r) lx2, W2)
      | r => r
    | .condImplies a k b =>
      match run R n (.maybe a) lx ctx W with
      | (.ok .none lx1, W1) => (.ok .none lx1, W1)
      | (.ok (.some l) lx1, W1) =>
        let branch := match l with
          | .tok t => t.kind == k
          | _ => false
        if branch then
          match run R n b lx1 ctx W1 with
          | (.ok r lx2, W2) => (.ok (.some (.pair l (.some r))) lx2, W2)
          | r => r
        else (.ok (.some (.pair l .none)) lx1, W1)
      | r => r
    | .filterWith mask a =>
      let (old, lx1) := lx.setFilter R.E (Option.some mask)
      match run R n a lx1 ctx W with
      | (.ok v lx2, W2) => (.ok v (lx2.setFilter R.E old).2, W2)
      | r => r
    | .unfiltered a =>
      let (old, lx1) := lx.setFilter R.E Option.none
      match run R n a lx1 ctx W with
      | (.ok v lx2, W2) => (.ok v (lx2.setFilter R.E old).2, W2)
      | r => r
    | .sub a => run R n a (lx.intoSublexer R.E) ctx W
    | .spanned a =>
      let lx1 := (lx.peek R.E).2
      let start := (lx1.peekTokenSpan.getD (Span.at_ lx1.tokenSpan.e)).s
      match run R n a lx1 ctx W with
      | (.ok v lx2, W2) =>
        let e := lx2.parseSpan.e
        let e' := if e.byte < start.byte then start else e
        (.ok (.spanned (Span.enclosing start e') v) lx2, W2)
      | r => r
    | .text a =>
      let lx1 := (lx.peek R.E).2
      let start := (lx1.peekTokenSpan.getD (Span.at_ lx1.tokenSpan.e)).s.byte
      match run R n a lx1 ctx W with
      | (.ok _ lx2, W2) =>
        let e := Nat.max lx2.parseSpan.e.byte start
        match Source.sliceBytes R.text start e with
        | .ok mid => (.ok (.text mid) lx2, W2)
        | .panic => (.panic, W2)
      | r => r
    | .repeat_ v lo hi a => countOf v (interLoopStart R n lo hi a .empty lx ctx W)
    | .intersperse v lo hi a sep => countOf v (interLoopStart R n lo hi a sep lx ctx W)
    | .intersperseDefault lo hi a sepk => interLoopStart R n lo hi a (.discard (.one sepk)) lx ctx W
    | .repeatUntil v lo hi stop a => countOf v (untilStart R n lo hi stop a .empty lx ctx W)
    | .intersperseUntil v lo hi stop a sep => countOf v (untilStart R n lo hi stop a sep lx ctx W)
    | .recover v id a r =>
      if v % 2 == 0 then recoverDefault R n .none id r (.someOf a) lx ctx W
      else recoverDefault R n .dflt id r a lx ctx W
    | .stabilize a =>
      let first := run R n a lx ctx W
      stabLoop R n a lx ctx first.1 first.2
    | .bracket v opens a closes abort =>
      if opens.isEmpty || closes.isEmpty || opens.length != closes.length || opens.any (closes.contains ·)
      then (.panic, W) else
      match matchLoop R opens closes abort (Span.at_ lx.cursor) (lx.len + 2) lx Option.none [] with
      | .fuel => (.fuel, W)
      | .panic => (.panic, W)
      | .err e => (.err (mkErr e), W)
      | .found open_ close idx =>
        let inner := ((open_.next R.E).2).intoSublexer R.E
        let close' := (close.next R.E).2
        let optional := v % 2 == 0
        let body := if optional then G.someOf a else a
        let pack := fun (x : Val) => if v ≥ 2 then Val.pair x (.idx idx) else x
        match run R n body inner ctx W with
        | (.ok x _, W1) => (.ok (pack x) close', W1)
        | (.err e, W1) =>
          match sendError ctx e W1 with
          | (Option.some e', W2) => (.err e', W2)
          | (Option.none, W2) => (.ok (pack (if optional then .none else .dflt)) close', W2)
        | r => r
    | .upTo a abort =>
      match run R n a lx ctx W with
      | (.ok v lx1, W1) =>
        match lx1.peek R.E with
        | (Option.none, lx2) => (.ok v lx2, W1)
        | (Option.some t, lx2) =>
          if abort.contains t.kind then (.ok v lx2, W1)
          else
            let es := lx2.parseSpan
            let lx3 := (lx2.advanceTo R.E (fun t => abort.contains t.kind)).2
            (.err (mkErr (.boundary es lx3.cursor)), W1)
      | r => r
    | .list v id lo hi a sep abort =>
      -- `list` / `list_default` are the unbounded forms: (0, None)
      let lo := if v % 2 == 0 then 0 else lo
      let hi := if v % 2 == 0 then Option.none else hi
      match hi with
      | Option.some 0 => (.ok (.list []) lx, W)
      | _ =>
        if (hiBelow hi lo) then (.panic, W) else
        listLoop R n v id lo hi a sep abort lx ctx W []
    | .probe tag =>
      let pe := mkErr (.probe tag)
      let (back, W1) := sendError ctx pe W
      let sent := match back with
        | Option.none => "sent"
        | Option.some e => "back:" ++ GWire.showErr e
      let applied := GWire.showErr (ctx.apply pe)
      let line := s!"P{tag}:{sent}:{applied}:{showLexer R lx}"
      (.ok .unit lx, { W1 with probes := W1.probes ++ [line] })
    | .ctxPushed tag a => run R n a lx (ctx.pushed tag) W
    | .ctxPush tag a => run R n a lx (ctx.pushed tag) W
    | .ctxLocked flag a => run R n a lx { ctx with locked := flag } W

/-- value of the counting variants -/
def countOf (v : Nat) (r : RRes × World) : RRes × World :=
  if v == 0 then r else
  match r with
  | (.ok (.list l) lx, W) => (.ok (.count l.length) lx, W)
  | r => r

def seqLoop (R : RunEnv) (es : Span) : List Nat → Lx → List Tok → RRes
  | [], lx, acc => .ok (.toks acc.reverse) lx
  | k :: ks, lx, acc =>
    match lx.next R.E with
    | (Option.some t, lx') =>
      if t.kind == k then seqLoop R es ks lx' (t :: acc)
      else .err (mkErr (.unexp es lx'.tokenSpan (.token k) (.token t)))
    | (Option.none, lx') => .err (mkErr (.unexp es lx'.tokenSpan (.token k) .eot))

def seqCountLoop (R : RunEnv) (es : Span) : List Nat → Lx → Nat → RRes
  | [], lx, c => .ok (.count c) lx
  | k :: ks, lx, c =>
    if lx.isEmpty then .ok (.count c) lx else
    match lx.peek R.E with
    | (Option.some t, lx') =>
      if t.kind == k then seqCountLoop R es ks (lx'.next R.E).2 (c + 1)
      else .ok (.count c) lx'
    | (Option.none, lx') =>
      if ((lx'.next R.E).2).isEmpty then .ok (.count c) lx' else .err (mkErr (.unrec es))

/-- `right(sep, item)` -/
def sepItem (R : RunEnv) (n : Nat) (a sep : G) (lx : Lx) (ctx : Ctx) (W : World) : RRes × World :=
  match n with
  | 0 => (.fuel, W)
  | n + 1 =>
    match run R n sep lx ctx W with
    | (.ok _ lx1, W1) => run R n a lx1 ctx W1
    | r => r

/-- `intersperse(low, high, item, sep)` -/
def interLoopStart (R : RunEnv) (n : Nat) (lo : Nat) (hi : Option Nat) (a sep : G) (lx : Lx) (ctx : Ctx)
    (W : World) : RRes × World :=
  match n with
  | 0 => (.fuel, W)
  | n + 1 =>
    if (hiBelow hi lo) then (.panic, W) else
    if hi == Option.some 0 then (.ok (.list []) lx, W) else
    match run R n a lx ctx W with
    | (.ok v lx1, W1) => interLoop R n lo hi a sep [v] lx1 ctx W1
    | (.err e, W1) => if lo == 0 then (.ok (.list []) lx, W1) else (.err e, W1)
    | r => r

/-- the two `while` loops of `intersperse` (`vals` in reverse order) -/
def interLoop (R : RunEnv) (n : Nat) (lo : Nat) (hi : Option Nat) (a sep : G) (vals : List Val) (lx : Lx)
    (ctx : Ctx) (W : World) : RRes × World :=
  match n with
  | 0 => (.fuel, W)
  | n + 1 =>
    if vals.length < lo then
      match sepItem R n a sep lx ctx W with
      | (.ok v lx1, W1) => interLoop R n lo hi a sep (v :: vals) lx1 ctx W1
      | r => r
    else if hiAllows hi vals.length then
      match sepItem R n a sep lx ctx W with
      | (.ok v lx1, W1) =>
        if hiReached hi (vals.length + 1) then (.ok (.list (v :: vals).reverse) lx1, W1)
        else interLoop R n lo hi a sep (v :: vals) lx1 ctx W1
      | (.err _, W1) => (.ok (.list vals.reverse) lx, W1)
      | r => r
    else (.ok (.list vals.reverse) lx, W)

/-- `intersperse_until(low, high, stop, item, sep)` -/
def untilStart (R : RunEnv) (n : Nat) (lo : Nat) (hi : Option Nat) (stop a sep : G) (lx : Lx) (ctx : Ctx)
    (W : World) : RRes × World :=
  match n with
  | 0 => (.fuel, W)
  | n + 1 =>
    if (hiBelow hi lo) then (.panic, W) else
    if hi == Option.some 0 then (.ok (.list []) lx, W) else
    match run R n stop lx ctx W with
    | (.ok _ _, W0) => (.ok (.list []) lx, W0)
    | (.err _, W0) =>
      match run R n a lx ctx W0 with
      | (.ok v lx1, W1) => untilLoop R n lo hi stop a sep [v] lx1 ctx W1
      | (.err e, W1) => if lo == 0 then (.ok (.list []) lx, W1) else (.err e, W1)
      | r => r
    | r => r

def untilLoop (R : RunEnv) (n : Nat) (lo : Nat) (hi : Option Nat) (stop a sep : G) (vals : List Val) (lx : Lx)
    (ctx : Ctx) (W : World) : RRes × World :=
  match n with
  | 0 => (.fuel, W)
  | n + 1 =>
    if vals.length < lo then
      match run R n stop lx ctx W with
      | (.ok _ _, W0) => (.ok (.list vals.reverse) lx, W0)
      | (.err _, W0) =>
        match sepItem R n a sep lx ctx W0 with
        | (.ok v lx1, W1) => untilLoop R n lo hi stop a sep (v :: vals) lx1 ctx W1
        | r => r
      | r => r
    else if hiAllows hi vals.length then
      match run R n stop lx ctx W with
      | (.ok _ _, W0) => (.ok (.list vals.reverse) lx, W0)
      | (.err _, W0) =>
        match sepItem R n a sep lx ctx W0 with
        | (.ok v lx1, W1) =>
          if hiReached hi (vals.length + 1) then (.ok (.list (v :: vals).reverse) lx1, W1)
          else untilLoop R n lo hi stop a sep (v :: vals) lx1 ctx W1
        | (.err _, W1) => (.ok (.list vals.reverse) lx, W1)
        | r => r
      | r => r
    else (.ok (.list vals.reverse) lx, W)

/-- `recover_default(parser, recover)` with default value `dv` -/
def recoverDefault (R : RunEnv) (n : Nat) (dv : Val) (id : Nat) (r : Rec) (body : G) (lx : Lx) (ctx : Ctx)
    (W : World) : RRes × World :=
  match n with
  | 0 => (.fuel, W)
  | n + 1 =>
    let W := W.register id r
    let base := lx.setRecoverState (Option.some id)
    match run R n body lx ctx W with
    | (.err e, W1) =>
      match sendError ctx e W1 with
      | (Option.some e', W2) => (.err e', W2)
      | (Option.none, W2) =>
        match advanceToRecover R base W2 with
        | (Option.some lx', W3) => (.ok dv lx', W3)
        | (Option.none, W3) => (.err (mkErr .recover), W3)
    | r => r

/-- the retry loop of `stabilize` (`lx` is the combinator's own lexer, `res` the
result of the latest attempt) -/
def stabLoop (R : RunEnv) (n : Nat) (a : G) (lx : Lx) (ctx : Ctx) (res : RRes) (W : World) : RRes × World :=
  match n with
  | 0 => (.fuel, W)
  | n + 1 =>
    match res with
    | .ok v lx' => (.ok v (lx'.setRecoverState Option.none), W)
    | .err e =>
      match advanceToRecover R lx W with
      | (Option.some lx1, W1) =>
        if lx1.cursor == lx.cursor then (.err e, W1)
        else
          let r := run R n (.unrecoverable a) lx1 ctx W1
          stabLoop R n a lx1 ctx r.1 r.2
      | (Option.none, W1) => (.err (mkErr .recover), W1)
    | r => (r, W)

/-- the `for idx in 0i32..` loop of `list_bounded_default` (`vals` in reverse order) -/
def listLoop (R : RunEnv) (n : Nat) (v id lo : Nat) (hi : Option Nat) (a : G) (sep : Nat) (abort : List Nat)
    (lexer : Lx) (ctx : Ctx) (W : World) (vals : List Val) : RRes × World :=
  match n with
  | 0 => (.fuel, W)
  | n + 1 =>
    let optional := v < 2
    let item := if optional then G.someOf a else a
    let dv := if optional then Val.none else Val.dflt
    let pat := Rec.sepOrAbort sep abort
    let finish := fun (lexer : Lx) (vals : List Val) (W : World) =>
      if !(vals.isEmpty || lexer.recover.isNone) then (RRes.panic, W) else
      if vals.length < lo then
        let e := mkErr (.count lexer.parseSpan vals.length lo hi)
        match sendError ctx e W with
        | (Option.some e', W1) => (RRes.err e', W1)
        | (Option.none, W1) => (RRes.ok (.list vals.reverse) lexer, W1)
      else (RRes.ok (.list vals.reverse) lexer, W)
    match lexer.peek R.E with
    | (Option.none, lexer) => finish lexer vals W
    | (Option.some tok, lexer) =>
      if abort.contains tok.kind then
        if vals.isEmpty then finish lexer vals W
        else
          -- trailing value: stabilize(maybe(up_to(parser, sep_or_abort)))
          match run R n (.stabilize (.maybe (.upTo item (sep :: abort)))) lexer ctx W with
          | (.ok (.some x) _, W1) => finish lexer (x :: vals) W1
          | (.ok _ _, W1) => finish lexer vals W1
          | r => r
      else
        -- a value: stabilize(recover_default(up_to(parser, sep_or_abort), recover_pat))
        let first := recoverDefault R n dv id pat (.upTo item (sep :: abort)) lexer ctx W
        match stabValue R n dv id pat (.upTo item (sep :: abort)) lexer ctx first.1 first.2 with
        | (.ok x lexer1, W1) =>
          let vals := x :: vals
          if hiReached hi vals.length then finish lexer1 vals W1 else
          match lexer1.peek R.E with
          | (Option.none, lexer2) => finish lexer2 vals W1
          | (Option.some t2, lexer2) =>
            if abort.contains t2.kind then finish lexer2 vals W1
            else if lexer2.isEmpty then finish lexer2 vals W1
            else
              match recoverDefault R n .dflt id pat (.discard (.one sep)) lexer2 ctx W1 with
              | (.ok _ lexer3, W2) =>
                listLoop R n v id lo hi a sep abort (lexer3.intoSublexer R.E) ctx W2 vals
              | r => r
        | r => r

/-- `stabilize` around `recover_default(body, pat)` (used by `list`): the retry runs
`unrecoverable(recover_default(body, pat))`. -/
def stabValue (R : RunEnv) (n : Nat) (dv : Val) (id : Nat) (pat : Rec) (body : G) (lx : Lx) (ctx : Ctx)
    (res : RRes) (W : World) : RRes × World :=
  match n with
  | 0 => (.fuel, W)
  | n + 1 =>
    match res with
    | .ok v lx' => (.ok v (lx'.setRecoverState Option.none), W)
    | .err e =>
      match advanceToRecover R lx W with
      | (Option.some lx1, W1) =>
        if lx1.cursor == lx.cursor then (.err e, W1)
        else
          let r := recoverDefault R n dv id pat body lx1 ctx.withoutSink W1
          stabValue R n dv id pat body lx1 ctx r.1 r.2
      | (Option.none, W1) => (.err (mkErr .recover), W1)
    | r => (r, W)

end

end Tephra
