/-
  TephraModel.Lexer — `Lexer` (tephra/src/lexer.rs), every public method except
  `advance_to_recover` (see Recover.lean) and `Display` (see Render).

  The user's `Scanner` is a parameter:
      scan : σ → Metrics → Pos → Option (τ × Pos) × σ
  (`Scanner::scan(&mut self, source, base)`: the state may change even when no
  token is produced; the source text is fixed, only its metrics can change).
  A token filter is an id interpreted by `passes : Nat → τ → Bool`.

  Loops over the scanner (`buffer_next`, `next_nonfiltered`) recurse on the
  distance to the end of the text; a scanner step that does not move forward
  inside the text (excluded by the scanner contract `ScanOK`, under which the
  Rust loop would not terminate) stops the loop as if the scanner had returned
  `None`.
-/
import TephraModel.Span

set_option linter.unusedVariables false

namespace Tephra

structure Buf (σ τ : Type) where
  peekScanner : σ
  peekStart : Pos
  peekCursor : Pos
  token : τ
deriving Repr, DecidableEq, Inhabited

structure Lexer (σ τ : Type) where
  metrics : Metrics
  len : Nat
  scanner : σ
  filter : Option Nat
  recover : Option Nat
  buffer : Option (Buf σ τ)
  parseStart : Pos
  tokenStart : Pos
  cursor : Pos
deriving Repr, DecidableEq, Inhabited

/-- The environment a lexer runs in: the user's scanner and the filter table. -/
structure LexEnv (σ τ : Type) where
  scan : σ → Metrics → Pos → Option (τ × Pos) × σ
  passes : Nat → τ → Bool
  /-- the position of byte offset `b` of the text measured from its start with metrics `m`
  (`metrics.end_position(&text[..b], start)`; used only by the metrics builders) -/
  measure : Metrics → Nat → Pos

namespace Lexer
variable {σ τ : Type} (E : LexEnv σ τ)

def new (scanner : σ) (metrics : Metrics) (len : Nat) : Lexer σ τ :=
  { metrics, len, scanner, filter := none, recover := none, buffer := none,
    parseStart := Pos.zero, tokenStart := Pos.zero, cursor := Pos.zero }

/-- `self.filter.as_ref().map_or(false, |f| !(f)(&tok))` -/
def filtered (lx : Lexer σ τ) (tok : τ) : Bool :=
  match lx.filter with
  | none => false
  | some f => !E.passes f tok

def isEmpty (lx : Lexer σ τ) : Bool := decide (lx.len ≤ lx.cursor.byte)

def tokenSpan (lx : Lexer σ τ) : Span := Span.enclosing lx.tokenStart lx.cursor
def parseSpan (lx : Lexer σ τ) : Span := Span.enclosing lx.parseStart lx.cursor
def cursorPos (lx : Lexer σ τ) : Pos := lx.cursor

def peekTokenSpan (lx : Lexer σ τ) : Option Span :=
  lx.buffer.bind fun b =>
    if b.peekStart = b.peekCursor then none else some (Span.enclosing b.peekStart b.peekCursor)

def peekParseSpan (lx : Lexer σ τ) : Option Span :=
  lx.buffer.map fun b =>
    if b.peekStart = lx.cursor then Span.enclosing lx.parseStart b.peekCursor
    else Span.enclosing lx.parseStart lx.cursor

def peekCursorPos (lx : Lexer σ τ) : Option Pos := lx.buffer.map (·.peekCursor)

/-- the `while let` loop of `buffer_next`; `behind` is computed once before it. -/
def bufferLoop (behind : Bool) (lx : Lexer σ τ) (peekScanner : σ) (peekCursor : Pos) : Lexer σ τ :=
  match E.scan peekScanner lx.metrics peekCursor with
  | (none, _) => lx
  | (some (tok, adv), ps') =>
    if lx.filtered E tok then
      let lx' := if behind then
          { lx with scanner := ps', cursor := adv, parseStart := adv, tokenStart := adv }
        else lx
      if h : peekCursor.byte < adv.byte ∧ adv.byte ≤ lx.len then
        bufferLoop behind lx' ps' adv
      else lx'
    else
      { lx with buffer := some ⟨ps', peekCursor, adv, tok⟩ }
termination_by lx.len - peekCursor.byte
decreasing_by
  cases behind <;> simp_all <;> omega

def bufferNext (lx : Lexer σ τ) : Lexer σ τ :=
  if lx.buffer.isSome then lx
  else bufferLoop E (lx.parseStart == lx.cursor) lx lx.scanner lx.cursor

def peek (lx : Lexer σ τ) : Option τ × Lexer σ τ :=
  if lx.len ≤ lx.cursor.byte then (none, lx)
  else
    let lx' := lx.bufferNext E
    (lx'.buffer.map (·.token), lx')

/-- `Lexer::is_empty_with_filter`: buffers the next token (eagerly skipping filtered
ones where `buffer_next` does), then tests the cursor. -/
def isEmptyWithFilter (lx : Lexer σ τ) : Bool × Lexer σ τ :=
  let lx' := lx.bufferNext E
  (decide (lx'.len ≤ lx'.cursor.byte), lx')

/-- the unbuffered loop of `next_nonfiltered`. -/
def nextLoop (behind : Bool) (lx : Lexer σ τ) : Option τ × Lexer σ τ :=
  match E.scan lx.scanner lx.metrics lx.cursor with
  | (none, s') => (none, { lx with scanner := s' })
  | (some (tok, adv), s') =>
    if lx.filtered E tok then
      let lx' := if behind then
          { lx with scanner := s', cursor := adv, parseStart := adv, tokenStart := adv }
        else { lx with scanner := s', cursor := adv }
      if h : lx.cursor.byte < adv.byte ∧ adv.byte ≤ lx.len then
        nextLoop behind lx'
      else (none, lx')
    else
      let ps := if behind then lx.tokenStart else lx.parseStart
      (some tok, { lx with scanner := s', parseStart := ps, tokenStart := lx.cursor, cursor := adv })
termination_by lx.len - lx.cursor.byte
decreasing_by
  cases behind <;> simp_all <;> omega

/-- `Iterator::next` = `next_nonfiltered`. -/
def next (lx : Lexer σ τ) : Option τ × Lexer σ τ :=
  if lx.len ≤ lx.cursor.byte then (none, lx)
  else
    match lx.buffer with
    | some buf =>
      (some buf.token,
        { lx with buffer := none, scanner := buf.peekScanner, tokenStart := buf.peekStart,
                  parseStart := if lx.parseStart = lx.cursor then buf.peekStart else lx.parseStart,
                  cursor := buf.peekCursor })
    | none => nextLoop E (lx.parseStart == lx.cursor) lx

def nextIf (pred : τ → Bool) (lx : Lexer σ τ) : Option τ × Lexer σ τ :=
  match lx.peek E with
  | (some t, lx') => if pred t then lx'.next E else (none, lx')
  | (none, lx') => (none, lx')

def setFilter (f : Option Nat) (lx : Lexer σ τ) : Option Nat × Lexer σ τ :=
  (lx.filter, ({ lx with filter := f, buffer := none } : Lexer σ τ).bufferNext E)

def withFilter (f : Option Nat) (lx : Lexer σ τ) : Lexer σ τ :=
  ((lx.setFilter E f).2).bufferNext E

/-- `remeasure_positions` (repair of the builder-order defect): one position re-measured for the
lexer's current metrics; a position at the start of the text is left alone. -/
def remeasure (m : Metrics) (p : Pos) : Pos := if p.byte = 0 then p else E.measure m p.byte

def remeasureAll (lx : Lexer σ τ) : Lexer σ τ :=
  { lx with
    parseStart := remeasure E lx.metrics lx.parseStart
    tokenStart := remeasure E lx.metrics lx.tokenStart
    cursor := remeasure E lx.metrics lx.cursor
    buffer := lx.buffer.map fun b =>
      { b with peekStart := remeasure E lx.metrics b.peekStart, peekCursor := remeasure E lx.metrics b.peekCursor } }

/-- the metrics builders re-measure the positions the lexer already holds -/
def withColumnMetrics (m : Metrics) (lx : Lexer σ τ) : Lexer σ τ :=
  remeasureAll E { lx with metrics := m }
def withLineEnding (le : LineEnding) (lx : Lexer σ τ) : Lexer σ τ :=
  remeasureAll E { lx with metrics := { lx.metrics with le := le } }
def withTabWidth (tab : Nat) (lx : Lexer σ τ) : Lexer σ τ :=
  remeasureAll E { lx with metrics := { lx.metrics with tab := tab } }

def setRecoverState (r : Option Nat) (lx : Lexer σ τ) : Lexer σ τ := { lx with recover := r }

def startSublex (lx : Lexer σ τ) : Lexer σ τ :=
  ({ lx with parseStart := lx.cursor, tokenStart := lx.cursor } : Lexer σ τ).bufferNext E

def intoSublexer (lx : Lexer σ τ) : Lexer σ τ := lx.startSublex E

/-- `advance_up_to`: stop *before* the first token satisfying `pred`. -/
def advanceUpTo (pred : τ → Bool) (lx : Lexer σ τ) : Bool × Lexer σ τ :=
  match lx.peek E with
  | (none, lx') => (false, lx')
  | (some t, lx') =>
    if pred t then (true, lx')
    else
      match lx'.next E with
      | (_, lx'') =>
        if h : lx.cursor.byte < lx''.cursor.byte ∧ lx''.len = lx.len ∧ lx''.cursor.byte ≤ lx.len then
          advanceUpTo pred lx''
        else (false, lx'')
termination_by lx.len - lx.cursor.byte
decreasing_by omega

/-- `advance_to`: stop *after* the first token satisfying `pred`. -/
def advanceTo (pred : τ → Bool) (lx : Lexer σ τ) : Bool × Lexer σ τ :=
  match h0 : lx.next E with
  | (none, lx') => (false, lx')
  | (some t, lx') =>
    if pred t then (true, lx')
    else if h : lx.cursor.byte < lx'.cursor.byte ∧ lx'.len = lx.len ∧ lx'.cursor.byte ≤ lx.len then
      advanceTo pred lx'
    else (false, lx')
termination_by lx.len - lx.cursor.byte
decreasing_by omega

/-- `iter_with_spans().collect()`, also recording `parse_span` after each token.
Returns the delivered list and the final lexer. -/
def iterWithSpans (lx : Lexer σ τ) : List (τ × Span × Span) × Lexer σ τ :=
  match h0 : lx.next E with
  | (none, lx') => ([], lx')
  | (some t, lx') =>
    if h : lx.cursor.byte < lx'.cursor.byte ∧ lx'.len = lx.len ∧ lx'.cursor.byte ≤ lx.len then
      let r := iterWithSpans lx'
      ((t, lx'.tokenSpan, lx'.parseSpan) :: r.1, r.2)
    else ([(t, lx'.tokenSpan, lx'.parseSpan)], lx')
termination_by lx.len - lx.cursor.byte
decreasing_by omega

end Lexer
end Tephra
