/-
  TephraModel.Spec.SpanAlg — C17: span operations as interval algebra over
  byte offsets.  Executable statements (`…OK : … → Bool`): the same definitions
  are (a) proved of the model in TephraProps.C17 and (b) evaluated by the driver
  on what the real `Span` methods returned.

  Points are doubled so that "touching" and "overlapping" are distinguishable:
  byte `b` is point `2b`, the gap between `b` and `b+1` is point `2b+1`.
-/
import TephraModel.Span

namespace Tephra.Spec
open Tephra

/-- Coherence of operands: they are spans of one text, so positions with equal
byte offsets are equal, and start ≤ end. -/
def coh (ps : List Pos) : Bool :=
  ps.all fun a => ps.all fun b => (a.byte != b.byte) || a == b

def spanWF (x : Span) : Bool := x.s.byte ≤ x.e.byte

def fromOperands (x y : Span) (p : Pos) : Bool :=
  p == x.s || p == x.e || p == y.s || p == y.e

def inSpan (p : Span) (q : Nat) : Bool := 2 * p.s.byte ≤ q && q ≤ 2 * p.e.byte
def inInterior (p : Span) (q : Nat) : Bool := 2 * p.s.byte < q && q < 2 * p.e.byte
def covers (ps : List Span) (q : Nat) : Bool := ps.any (inSpan · q)

def touch (x y : Span) : Bool :=
  max x.s.byte y.s.byte ≤ min x.e.byte y.e.byte

def resultWF (x y r : Span) : Bool :=
  spanWF r && fromOperands x y r.s && fromOperands x y r.e

/-- enclose: the smallest span containing both. -/
def encloseOK (x y r : Span) : Bool :=
  resultWF x y r && r.s.byte == min x.s.byte y.s.byte && r.e.byte == max x.e.byte y.e.byte

/-- intersect: the common part, present exactly when they touch or overlap. -/
def intersectOK (x y : Span) (r : Option Span) : Bool :=
  match r with
  | none => !touch x y
  | some r => touch x y && resultWF x y r &&
      r.s.byte == max x.s.byte y.s.byte && r.e.byte == min x.e.byte y.e.byte

/-- union: one span (the enclosure) when they touch, both otherwise. -/
def unionOK (x y : Span) (r : List Span) : Bool :=
  if touch x y then
    match r with
    | [u] => encloseOK x y u
    | _ => false
  else r == [x, y]

/-- minus: pieces of `x`, none meeting the interior of `y`, together covering
everything of `x` that lies outside (the closed span) `y`; at most two, in order. -/
def minusOK (x y : Span) (ps : List Span) : Bool :=
  ps.length ≤ 2 &&
  ps.all (fun p => resultWF x y p && x.s.byte ≤ p.s.byte && p.e.byte ≤ x.e.byte) &&
  (match ps with
   | [a, b] => a.e.byte ≤ b.s.byte
   | _ => true) &&
  (List.range (2 * x.e.byte + 2)).all (fun q =>
    ((!(inSpan x q && !inSpan y q)) || covers ps q) &&
    ((!inInterior y q) || !covers ps q))

def containsOK (x : Span) (p : Pos) (r : Bool) : Bool :=
  r == (decide (x.s.byte ≤ p.byte) && decide (p.byte ≤ x.e.byte))

def intersectsOK (x y : Span) (r : Bool) : Bool := r == touch x y

def adjacentOK (x y : Span) (r : Bool) : Bool :=
  r == (x.s.byte == y.e.byte || x.e.byte == y.s.byte)

end Tephra.Spec
