/-
  TephraModel.Spec.Ctx — C15: which transforms an error raised at each probe of
  a context-operation tree passes through, computed from the *tree* (the
  nesting of push / pushed / locked / raw / unrecoverable operations around the
  probe), not from any store.
-/
import TephraModel.Grammar

namespace Tephra.Spec
open Tephra

structure ProbeExp where
  tag : Nat
  /-- delivered to the sink (true) or handed back to the caller (false) -/
  sent : Bool
  /-- tags of the transforms applied, in application order (innermost first) -/
  trail : List Nat
deriving Repr, DecidableEq

/-- `active`: tags of the error contexts active here, innermost first;
`locked`: pushes are ignored; `sink`: an error sink is reachable. -/
def expectedProbes : G → (active : List Nat) → (locked : Bool) → (sink : Bool) → Option (List ProbeExp)
  | .probe t, active, _, sink => some [⟨t, sink, active⟩]
  | .ctxPushed t a, active, locked, sink =>
    if locked then expectedProbes a active locked sink else expectedProbes a (t :: active) false sink
  | .ctxPush t a, active, locked, sink =>
    if locked then expectedProbes a active locked sink else expectedProbes a (t :: active) false sink
  | .ctxLocked flag a, active, _, sink => expectedProbes a active flag sink
  | .raw a, _, _, sink => expectedProbes a [] true sink
  | .unrecoverable a, active, locked, _ => expectedProbes a active locked false
  | .both a b, active, locked, sink => do
    let x ← expectedProbes a active locked sink
    let y ← expectedProbes b active locked sink
    pure (x ++ y)
  | .center a b c, active, locked, sink => do
    let x ← expectedProbes a active locked sink
    let y ← expectedProbes b active locked sink
    let z ← expectedProbes c active locked sink
    pure (x ++ y ++ z)
  | _, _, _, _ => none

end Tephra.Spec
