/-
  TephraModel.Spec.Canon — the independent specification of positions.

  Nothing here mirrors Rust code.  A text is cut, left to right, into lines at
  every occurrence of the configured line ending; the canonical position of a
  byte offset is (offset, number of line endings wholly before it, display
  width of the text since the last line ending, tabs advancing to the next tab
  stop).  All navigation specs (C19), line specs (C18) and window specs (C20)
  are stated over the table `lineTable`.
-/
import TephraModel.Metrics

namespace Tephra.Spec
open Tephra

/-- Lines of a text under the configured ending (left to right). Never empty. -/
def linesOf (m : Metrics) : Text → List Text
  | [] => [[]]
  | c :: rest =>
    match hb : breakAt m (c :: rest) with
    | some rest' => [] :: linesOf m rest'
    | none =>
      match linesOf m rest with
      | l :: ls => (c :: l) :: ls
      | [] => [[c]]
termination_by t => t.length
decreasing_by
  · have := breakAt_length hb; simpa using this
  · simp

/-- Display width of a run of characters starting at column `c0`. -/
def colWidth (tab : Nat) (c0 : Nat) (l : Text) : Nat :=
  l.foldl (fun col c => if c.code = 9 then col + (tab - col % tab) else col + c.width) c0

/-- Canonical position reached after reading `t` from position `p`. -/
def canonFrom (m : Metrics) (p : Pos) (t : Text) : Pos :=
  let ls := linesOf m t
  { byte := p.byte + bytes t
    line := p.line + (ls.length - 1)
    col := if ls.length = 1 then colWidth m.tab p.col (ls.getLast!) else colWidth m.tab 0 (ls.getLast!) }

/-- Canonical position of the offset just after the prefix `pre`. -/
def canon (m : Metrics) (pre : Text) : Pos := canonFrom m Pos.zero pre

/-- `pre ++ suf` is cut at an *aligned* offset: not between the CR and the LF of
a CRLF line ending. (For LF and CR every character boundary is aligned.) -/
def aligned (m : Metrics) (pre suf : Text) : Bool :=
  match m.le with
  | .crlf =>
    match pre.getLast?, suf.head? with
    | some a, some b =>
      -- the CR must itself start a break in the left-to-right cut, i.e. the cut
      -- `pre.dropLast ++ (a :: suf)` has a break at its head
      !(a.code == 13 && b.code == 10)
    | _, _ => true
  | _ => true

/-- All (prefix, suffix) cuts of a text at character boundaries. -/
def cuts : Text → List (Text × Text)
  | [] => [([], [])]
  | c :: rest => ([], c :: rest) :: (cuts rest).map (fun (p, s) => (c :: p, s))

/-- Aligned cuts only. -/
def alignedCuts (m : Metrics) (t : Text) : List (Text × Text) :=
  (cuts t).filter (fun (p, s) => aligned m p s)

/-- `Canon m t p`: `p` is the canonical position of an aligned offset of `t`. -/
def isCanon (m : Metrics) (t : Text) (p : Pos) : Bool :=
  (alignedCuts m t).any (fun (pre, _) => canon m pre == p)

/-- The aligned cut at byte `b`, if `b` is an aligned boundary. -/
def cutAt (m : Metrics) (t : Text) (b : Nat) : Option (Text × Text) :=
  (alignedCuts m t).find? (fun (pre, _) => bytes pre == b)

/-- Canonical position of byte `b` (none: not an aligned boundary of `t`). -/
def canonAt (m : Metrics) (t : Text) (b : Nat) : Option Pos :=
  (cutAt m t b).map (fun (pre, _) => canon m pre)

/-- Line table: for each line its (start byte, end byte) — the end excludes the
line ending. -/
def lineTable (m : Metrics) (t : Text) : List (Nat × Nat) :=
  let rec go (start : Nat) : List Text → List (Nat × Nat)
    | [] => []
    | l :: ls => (start, start + bytes l) :: go (start + bytes l + lbLen m) ls
  go 0 (linesOf m t)

/-- Index of the line containing aligned byte `b`. -/
def lineIndexOf (m : Metrics) (t : Text) (b : Nat) : Option Nat :=
  (lineTable m t).findIdx? (fun (s, e) => s ≤ b && b ≤ e)

end Tephra.Spec
