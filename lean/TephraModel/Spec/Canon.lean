/-
  TephraModel.Spec.Canon — the independent specification of positions.

  Nothing here mirrors Rust code.  A text is cut, left to right, into lines at
  every occurrence of the configured line ending; the canonical position of a
  byte offset is (offset, number of line endings wholly before it, display
  width of the text since the last line ending, tabs advancing to the next tab
  stop).  Navigation (C19), line (C18) and window (C20) statements are written
  over a *cut* `t = pre ++ suf` of the text at an aligned offset.
-/
import TephraModel.Metrics

namespace Tephra.Spec
open Tephra

/-- Lines of a text under the configured ending (left to right). Never empty. -/
def linesOf (m : Metrics) : Text → List Text
  | [] => [[]]
  | c :: rest =>
    match hb : breakAt m (c :: rest) with
    | some rest' => [] :: linesOf m rest'
    | none =>
      match linesOf m rest with
      | l :: ls => (c :: l) :: ls
      | [] => [[c]]
termination_by t => t.length
decreasing_by
  · have := breakAt_length hb; simpa using this
  · simp

/-- Display width of a run of characters starting at column `c0`. -/
def colWidth (tab : Nat) (c0 : Nat) (l : Text) : Nat :=
  l.foldl (fun col c => if c.code = 9 then col + (tab - col % tab) else col + c.width) c0

/-- Canonical position reached after reading `t` from position `p`. -/
def canonFrom (m : Metrics) (p : Pos) (t : Text) : Pos :=
  let ls := linesOf m t
  { byte := p.byte + bytes t
    line := p.line + (ls.length - 1)
    col := if ls.length = 1 then colWidth m.tab p.col (ls.getLast!) else colWidth m.tab 0 (ls.getLast!) }

/-- Canonical position of the offset just after the prefix `pre`. -/
def canon (m : Metrics) (pre : Text) : Pos := canonFrom m Pos.zero pre

/-- `pre ++ suf` is cut at an *aligned* offset: not between the CR and the LF of
a CRLF line ending. (For LF and CR every character boundary is aligned.) -/
def aligned (m : Metrics) (pre suf : Text) : Bool :=
  match m.le with
  | .crlf =>
    match pre.getLast?, suf.head? with
    | some a, some b => !(a.code == 13 && b.code == 10)
    | _, _ => true
  | _ => true

/-- The aligned cut at byte `b`, if `b` is an aligned boundary (`splitAtByte` is
the plain "split a character list at a byte offset"). -/
def cutAt (m : Metrics) (t : Text) (b : Nat) : Option (Text × Text) :=
  match splitAtByte t b with
  | some (pre, suf) => if aligned m pre suf then some (pre, suf) else none
  | none => none

/-- Canonical position of byte `b` (none: not an aligned boundary of `t`). -/
def canonAt (m : Metrics) (t : Text) (b : Nat) : Option Pos :=
  (cutAt m t b).map (fun (pre, _) => canon m pre)

/-- `p` is the canonical position of an aligned offset of `t`. -/
def isCanon (m : Metrics) (t : Text) (p : Pos) : Bool := canonAt m t p.byte == some p

end Tephra.Spec
