/-
  TephraModel.Spec.Committed — C08: grammars whose recovering combinators occur
  only in committed (non-speculative) positions.
-/
import TephraModel.Grammar

namespace Tephra.Spec
open Tephra

/-- no combinator that reports to the sink (recover*, stabilize, bracket*, list*, probe) -/
def recoveryFree : G → Bool
  | .recover .. | .stabilize _ | .bracket .. | .list .. | .probe _ => false
  | .empty | .one _ | .any _ | .anyIndex _ | .seq _ | .seqCount _ | .pred _ | .endOfText => true
  | .left a b | .right a b | .both a b | .either a b | .implies a b | .antecedent a b | .consequent a b =>
    recoveryFree a && recoveryFree b
  | .center a b c => recoveryFree a && recoveryFree b && recoveryFree c
  | .condImplies a _ b => recoveryFree a && recoveryFree b
  | .map a | .discard a | .maybe a | .requireIf _ a | .cond _ a | .filterWith _ a | .unfiltered a | .sub a
  | .spanned a | .text a | .raw a | .unrecoverable a | .upTo a _ | .ctxPushed _ a | .ctxPush _ a
  | .ctxLocked _ a | .someOf a => recoveryFree a
  | .repeat_ _ _ _ a => recoveryFree a
  | .repeatUntil _ _ _ st a => recoveryFree st && recoveryFree a
  | .intersperse _ _ _ a sp => recoveryFree a && recoveryFree sp
  | .intersperseUntil _ _ _ st a sp => recoveryFree st && recoveryFree a && recoveryFree sp
  | .intersperseDefault _ _ a _ => recoveryFree a

/-- Recovering combinators only outside the left side of `either`, repetition
bodies, separators and stop parsers.  (Under `maybe` / `unrecoverable` — and so
under `require_if false`, antecedents — the sink is off in both runs, so
anything may occur there.) -/
def committed : G → Bool
  | .empty | .one _ | .any _ | .anyIndex _ | .seq _ | .seqCount _ | .pred _ | .endOfText | .probe _ => true
  | .left a b | .right a b | .both a b => committed a && committed b
  | .center a b c => committed a && committed b && committed c
  | .either a b => recoveryFree a && committed b
  | .maybe _ | .unrecoverable _ => true
  | .requireIf flag a => if flag then committed a else true
  | .cond _ a => committed a
  | .implies _ b | .antecedent _ b | .consequent _ b | .condImplies _ _ b => committed b
  | .map a | .discard a | .filterWith _ a | .unfiltered a | .sub a | .spanned a | .text a | .raw a
  | .upTo a _ | .ctxPushed _ a | .ctxPush _ a | .ctxLocked _ a | .someOf a => committed a
  | .repeat_ _ _ _ a => recoveryFree a
  | .repeatUntil _ _ _ st a => recoveryFree st && recoveryFree a
  | .intersperse _ _ _ a sp => recoveryFree a && recoveryFree sp
  | .intersperseUntil _ _ _ st a sp => recoveryFree st && recoveryFree a && recoveryFree sp
  | .intersperseDefault _ _ a _ => recoveryFree a
  | .recover _ _ a _ => committed a
  | .stabilize a => committed a
  | .bracket _ _ a _ _ => committed a
  | .list _ _ _ _ a _ _ => committed a

end Tephra.Spec
