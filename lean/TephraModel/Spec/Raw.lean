/-
  TephraModel.Spec.Raw — C04/C05: the raw token stream of a text under a
  scanner (scan sequentially from position zero, no filter), and what a lexer
  must deliver: that stream with the rejected tokens removed.
  Generic in the scanner; nothing here mirrors `lexer.rs`.
-/
import TephraModel.Lexer

namespace Tephra.Spec
open Tephra

structure RawTok (τ : Type) where
  tok : τ
  start : Pos
  stop : Pos
deriving Repr, DecidableEq

/-- Scan sequentially from `p` until the scanner returns `None` (end of text or a
rejected position).  Fuel = number of tokens at most (a token is at least a byte). -/
def rawFrom {σ τ} (scan : σ → Metrics → Pos → Option (τ × Pos) × σ) (m : Metrics) :
    Nat → σ → Pos → List (RawTok τ)
  | 0, _, _ => []
  | fuel + 1, s, p =>
    match scan s m p with
    | (none, _) => []
    | (some (tok, adv), s') => ⟨tok, p, adv⟩ :: rawFrom scan m fuel s' adv

/-- What an exhaustive advance delivers with filter `f`: each kept raw token with
its span and the parse span so far (from the first delivered token's start). -/
def delivered {τ} (keep : τ → Bool) (raw : List (RawTok τ)) : List (τ × Span × Span) :=
  let kept := raw.filter (fun r => keep r.tok)
  match kept with
  | [] => []
  | first :: _ => kept.map fun r => (r.tok, ⟨r.start, r.stop⟩, ⟨first.start, r.stop⟩)

/-- Tiling: the raw stream starts at `p`, is contiguous and every token is non-empty. -/
def tiles {τ} (p : Pos) : List (RawTok τ) → Bool
  | [] => true
  | r :: rest => r.start == p && decide (r.start.byte < r.stop.byte) && tiles r.stop rest

end Tephra.Spec
