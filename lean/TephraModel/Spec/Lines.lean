/-
  TephraModel.Spec.Lines — C18 (widening / splitting by lines) and C20
  (windows report parent positions).  A span of `t` is given by two aligned
  cuts: `t = a ++ mid ++ z`, the span being `[canon a, canon (a ++ mid)]`.
-/
import TephraModel.Spec.Nav
import TephraModel.Span

namespace Tephra.Spec
open Tephra

/-- widen: from the start of the line containing the span's start to the end of
the line containing its end. -/
def widenSpec (m : Metrics) (a mid z : Text) : Span :=
  let cl := curLinePre m a
  ⟨canon m (a.take (a.length - cl.length)), canon m (a ++ mid ++ curLineSuf m z)⟩

/-- split: one piece per line of `mid` (the text under the span), in order, each
with the number of pieces still to come (itself included). `i` is the number
of characters of `t` before the piece. -/
def piecesFrom (m : Metrics) (t : Text) (i : Nat) : List Text → List (Nat × Span)
  | [] => []
  | l :: ls =>
    (ls.length + 1, ⟨canon m (t.take i), canon m (t.take (i + l.length))⟩)
      :: piecesFrom m t (i + l.length + lbLen m) ls

def splitSpec (m : Metrics) (a mid z : Text) : List (Nat × Span) :=
  piecesFrom m (a ++ mid ++ z) a.length (linesOf m mid)

def clampLo (w : Span) (p : Pos) : Pos := if p.byte < w.s.byte then w.s else p
def clampHi (w : Span) (p : Pos) : Pos := if w.e.byte < p.byte then w.e else p
def keepIfIn (w : Span) (p : Option Pos) : Option Pos :=
  p.bind fun q => if w.s.byte ≤ q.byte && q.byte ≤ w.e.byte then some q else none

structure WindowSpec where
  text : Text
  start : Pos
  end_ : Pos
  full : Span
  next : Option Pos
  prev : Option Pos
  lineStart : Pos
  lineEnd : Pos
  prevLineEnd : Option Pos
  nextLineStart : Option Pos
  widen : Span
  split : List Span
deriving Repr, DecidableEq

/-- What a window onto `wmid` (the text is `wa ++ wmid ++ wz`) must answer at the
aligned cut `pre ++ suf` inside it and for the sub-span `sa ++ smid ++ sz`: the
parent's answers restricted to the window. -/
def windowSpec (m : Metrics) (wa wmid wz : Text) (pre suf : Text) (sa smid sz : Text) : WindowSpec :=
  let w : Span := ⟨canon m wa, canon m (wa ++ wmid)⟩
  let nav := navSpec m pre suf [] (fun _ => true)
  let wd := widenSpec m sa smid sz
  { text := wmid
    start := w.s
    end_ := w.e
    full := w
    next := keepIfIn w nav.next
    prev := keepIfIn w nav.prev
    lineStart := clampLo w nav.lineStart
    lineEnd := clampHi w nav.lineEnd
    prevLineEnd := keepIfIn w nav.prevLineEnd
    nextLineStart := keepIfIn w nav.nextLineStart
    widen := ⟨clampLo w wd.s, clampHi w wd.e⟩
    split := (splitSpec m sa smid sz).map (·.2) }

/-- Cut `t` at two aligned byte offsets `b₁ ≤ b₂`. -/
def cut3 (m : Metrics) (t : Text) (b1 b2 : Nat) : Option (Text × Text × Text) := do
  let (p1, _) ← cutAt m t b1
  let (p2, s2) ← cutAt m t b2
  if p1.length ≤ p2.length then some (p1, p2.drop p1.length, s2) else none

end Tephra.Spec
