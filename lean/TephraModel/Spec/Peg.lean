/-
  TephraModel.Spec.Peg — C06 / C07 / C14: ordered-choice (PEG) semantics of the
  primitive, sequencing, alternative, optional, conditional, implication,
  filter-scoping, capture and repetition combinators, as a reference evaluator
  over the *raw token stream* and the current filter.

  Nothing here refers to the lexer model: a state is the list of raw tokens not
  yet passed, how the stream ends (end of text / a position the scanner
  rejects), and the filter in force.  "Consuming" a token drops everything up
  to and including it.
-/
import TephraModel.Grammar
import TephraModel.Spec.Raw

namespace Tephra.Spec
open Tephra

inductive Term where
  | eot
  | rejected
deriving Repr, DecidableEq, Inhabited

structure PState where
  rest : List (RawTok Tok)
  term : Term
  filter : Option Nat
deriving Repr, Inhabited

def keeps (f : Option Nat) (t : Tok) : Bool :=
  match f with
  | none => true
  | some m => passesMask m t

namespace PState

def skipFiltered (s : PState) : PState :=
  { s with rest := s.rest.dropWhile (fun r => !keeps s.filter r.tok) }

def view (s : PState) : List (RawTok Tok) := s.rest.filter (fun r => keeps s.filter r.tok)

/-- The first kept token and the state after consuming it. -/
def pop (s : PState) : Option (RawTok Tok × PState) :=
  match s.skipFiltered.rest with
  | [] => none
  | r :: rest' => some (r, { s with rest := rest' })

end PState

inductive PRes where
  | ok (v : Val) (s : PState)
  | fail
  | fuel
  | unsupported
deriving Repr, Inhabited

def bindOk (r : PRes) (f : Val → PState → PRes) : PRes :=
  match r with
  | .ok v s => f v s
  | r => r

/-- greedy `seq` -/
def pegSeq : List Nat → PState → List Tok → PRes
  | [], s, acc => .ok (.toks acc.reverse) s
  | k :: ks, s, acc =>
    match s.pop with
    | some (r, s') => if r.tok.kind == k then pegSeq ks s' (r.tok :: acc) else .fail
    | none => .fail

/-- `seq_count`: length of the matching prefix; fails only when it runs into a
position the scanner rejects. -/
def pegSeqCount : List Nat → PState → Nat → PRes
  | [], s, c => .ok (.count c) s
  | k :: ks, s, c =>
    match s.pop with
    | some (r, s') => if r.tok.kind == k then pegSeqCount ks s' (c + 1) else .ok (.count c) s
    | none => if s.term == .rejected then .fail else .ok (.count c) s

def emptySpan : Span := ⟨Pos.zero, Pos.zero⟩

/-- Span / text captured for the raw tokens `consumed`: from the first kept one
to the last one (the consumed prefix always ends with a kept token). -/
def capturedSpan (f : Option Nat) (consumed : List (RawTok Tok)) : Option Span :=
  match consumed.find? (fun r => keeps f r.tok), consumed.getLast? with
  | some a, some b => some ⟨a.start, b.stop⟩
  | _, _ => none

def hiAllows (hi : Option Nat) (n : Nat) : Bool :=
  match hi with
  | none => true
  | some h => n < h

mutual

def peg (text : Text) : Nat → G → PState → PRes
  | 0, _, _ => .fuel
  | n + 1, g, s =>
    match g with
    | .empty => .ok .unit s
    | .one k =>
      match s.pop with
      | some (r, s') => if r.tok.kind == k then .ok (.tok r.tok) s' else .fail
      | none => .fail
    | .any ks =>
      match s.pop with
      | some (r, s') => if ks.contains r.tok.kind then .ok (.tok ⟨r.tok.kind, 0⟩) s' else .fail
      | none => .fail
    | .anyIndex ks =>
      match s.pop with
      | some (r, s') =>
        match ks.findIdx? (· == r.tok.kind) with
        | some i => .ok (.idx i) s'
        | none => .fail
      | none => .fail
    | .seq ks => pegSeq ks s []
    | .seqCount ks => pegSeqCount ks s 0
    | .pred p =>
      match s.pop with
      | some (r, s') => if p.eval r.tok then .ok (.tok r.tok) s' else .fail
      | none => .fail
    | .endOfText => if s.view.isEmpty && s.term == .eot then .ok .unit s else .fail
    | .both a b =>
      bindOk (peg text n a s) fun v1 s1 => bindOk (peg text n b s1) fun v2 s2 => .ok (.pair v1 v2) s2
    | .left a b =>
      bindOk (peg text n a s) fun v1 s1 => bindOk (peg text n b s1) fun _ s2 => .ok v1 s2
    | .right a b =>
      bindOk (peg text n a s) fun _ s1 => bindOk (peg text n b s1) fun v2 s2 => .ok v2 s2
    | .center a b c =>
      bindOk (peg text n a s) fun _ s1 => bindOk (peg text n b s1) fun v s2 =>
        bindOk (peg text n c s2) fun _ s3 => .ok v s3
    | .map a => bindOk (peg text n a s) fun v s1 => .ok (.mapped v) s1
    | .someOf a => bindOk (peg text n a s) fun v s1 => .ok (.some v) s1
    | .discard a => bindOk (peg text n a s) fun _ s1 => .ok .unit s1
    | .either a b =>
      match peg text n a s with
      | .fail => peg text n b s
      | r => r
    | .maybe a =>
      match peg text n a s with
      | .ok v s1 => .ok (.some v) s1
      | .fail => .ok .none s
      | r => r
    | .requireIf flag a =>
      if flag then bindOk (peg text n a s) fun v s1 => .ok (.some v) s1
      else peg text n (.maybe a) s
    | .cond flag a =>
      if flag then bindOk (peg text n a s) fun v s1 => .ok (.some v) s1 else .ok .none s
    | .implies a b =>
      match peg text n a s with
      | .ok l s1 => bindOk (peg text n b s1) fun r s2 => .ok (.some (.pair l r)) s2
      | .fail => .ok .none s
      | r => r
    | .antecedent a b =>
      match peg text n a s with
      | .ok l s1 => bindOk (peg text n b s1) fun _ s2 => .ok (.some l) s2
      | .fail => .ok .none s
      | r => r
    | .consequent a b =>
      match peg text n a s with
      | .ok _ s1 => bindOk (peg text n b s1) fun r s2 => .ok (.some r) s2
      | .fail => .ok .none s
      | r => r
    | .condImplies a k b =>
      match peg text n a s with
      | .ok l s1 =>
        let branch := match l with
          | .tok t => t.kind == k
          | _ => false
        if branch then bindOk (peg text n b s1) fun r s2 => .ok (.some (.pair l (.some r))) s2
        else .ok (.some (.pair l .none)) s1
      | .fail => .ok .none s
      | r => r
    | .filterWith mask a =>
      bindOk (peg text n a { s with filter := some mask }) fun v s1 => .ok v { s1 with filter := s.filter }
    | .unfiltered a =>
      bindOk (peg text n a { s with filter := none }) fun v s1 => .ok v { s1 with filter := s.filter }
    | .sub a => peg text n a s.skipFiltered
    | .spanned a =>
      bindOk (peg text n a s) fun v s1 =>
        let consumed := s.rest.take (s.rest.length - s1.rest.length)
        match capturedSpan s.filter consumed with
        | some sp => .ok (.spanned sp v) s1
        | none => .ok (.spanned emptySpan v) s1
    | .text a =>
      bindOk (peg text n a s) fun _ s1 =>
        let consumed := s.rest.take (s.rest.length - s1.rest.length)
        match capturedSpan s.filter consumed with
        | some sp =>
          match Source.sliceBytes text sp.s.byte sp.e.byte with
          | .ok mid => .ok (.text mid) s1
          | .panic => .fail
        | none => .ok (.text []) s1
    | .repeat_ v lo hi a => countOfP v (pegRep text n lo hi none a .empty s)
    | .intersperse v lo hi a sep => countOfP v (pegRep text n lo hi none a sep s)
    | .intersperseDefault lo hi a sepk => pegRep text n lo hi none a (.one sepk) s
    | .repeatUntil v lo hi stop a => countOfP v (pegRep text n lo hi (some stop) a .empty s)
    | .intersperseUntil v lo hi stop a sep => countOfP v (pegRep text n lo hi (some stop) a sep s)
    | _ => .unsupported

def countOfP (v : Nat) (r : PRes) : PRes :=
  if v == 0 then r else
  match r with
  | .ok (.list l) s => .ok (.count l.length) s
  | r => r

/-- Repetition (C07): take items greedily — the first item alone, every later one
preceded by a separator, separator and item succeeding or failing together —
stop at the first that fails or when `hi` items were taken; fail when fewer
than `lo` were taken.  With a stop parser: at every item boundary, stop
(successfully, consuming nothing more) as soon as it would succeed. -/
def pegRep (text : Text) (n : Nat) (lo : Nat) (hi : Option Nat) (stop : Option G) (a sep : G) (s : PState) : PRes :=
  match n with
  | 0 => .fuel
  | n + 1 =>
    if hi == some 0 then .ok (.list []) s else
    pegRepLoop text n lo hi stop a sep [] s

def pegRepLoop (text : Text) (n : Nat) (lo : Nat) (hi : Option Nat) (stop : Option G) (a sep : G)
    (vals : List Val) (s : PState) : PRes :=
  match n with
  | 0 => .fuel
  | n + 1 =>
    if !hiAllows hi vals.length then .ok (.list vals.reverse) s else
    let stopped := match stop with
      | none => false
      | some st => match peg text n st s with
        | .ok _ _ => true
        | _ => false
    if stopped then .ok (.list vals.reverse) s else
    let next : PRes :=
      if vals.isEmpty then peg text n a s
      else bindOk (peg text n sep s) fun _ s1 => peg text n a s1
    match next with
    | .ok v s1 => pegRepLoop text n lo hi stop a sep (v :: vals) s1
    | .fail => if vals.length < lo then .fail else .ok (.list vals.reverse) s
    | r => r

end

/-- Does the grammar stay inside the C06/C07/C14 family? -/
def supported : G → Bool
  | .empty | .one _ | .any _ | .anyIndex _ | .seq _ | .seqCount _ | .pred _ | .endOfText => true
  | .left a b | .right a b | .both a b | .either a b | .implies a b | .antecedent a b | .consequent a b =>
    supported a && supported b
  | .center a b c => supported a && supported b && supported c
  | .map a | .discard a | .maybe a | .requireIf _ a | .cond _ a | .filterWith _ a | .unfiltered a | .sub a
  | .spanned a | .text a | .someOf a => supported a
  | .condImplies a _ b => supported a && supported b
  | .repeat_ _ _ _ a => supported a
  | .repeatUntil _ _ _ st a => supported st && supported a
  | .intersperse _ _ _ a sp => supported a && supported sp
  | .intersperseUntil _ _ _ st a sp => supported st && supported a && supported sp
  | .intersperseDefault _ _ a _ => supported a
  | _ => false

/-- Filter-changing or sub-lexing nodes anywhere in the grammar. -/
def changesFilter : G → Bool
  | .filterWith _ _ | .unfiltered _ | .sub _ => true
  | .left a b | .right a b | .both a b | .either a b | .implies a b | .antecedent a b | .consequent a b =>
    changesFilter a || changesFilter b
  | .center a b c => changesFilter a || changesFilter b || changesFilter c
  | .map a | .discard a | .maybe a | .requireIf _ a | .cond _ a | .spanned a | .text a | .someOf a => changesFilter a
  | .condImplies a _ b => changesFilter a || changesFilter b
  | .repeat_ _ _ _ a => changesFilter a
  | .repeatUntil _ _ _ st a => changesFilter st || changesFilter a
  | .intersperse _ _ _ a sp => changesFilter a || changesFilter sp
  | .intersperseUntil _ _ _ st a sp => changesFilter st || changesFilter a || changesFilter sp
  | .intersperseDefault _ _ a _ => changesFilter a
  | _ => false

/-- A capture whose wrapped parser changes the filter: outside the C14 statement. -/
def captureOverFilterChange : G → Bool
  | .spanned a | .text a => changesFilter a || captureOverFilterChange a
  | .left a b | .right a b | .both a b | .either a b | .implies a b | .antecedent a b | .consequent a b =>
    captureOverFilterChange a || captureOverFilterChange b
  | .center a b c => captureOverFilterChange a || captureOverFilterChange b || captureOverFilterChange c
  | .map a | .discard a | .maybe a | .requireIf _ a | .cond _ a | .filterWith _ a | .unfiltered a | .sub a
  | .someOf a => captureOverFilterChange a
  | .condImplies a _ b => captureOverFilterChange a || captureOverFilterChange b
  | .repeat_ _ _ _ a => captureOverFilterChange a
  | .repeatUntil _ _ _ st a => captureOverFilterChange st || captureOverFilterChange a
  | .intersperse _ _ _ a sp => captureOverFilterChange a || captureOverFilterChange sp
  | .intersperseUntil _ _ _ st a sp => captureOverFilterChange st || captureOverFilterChange a || captureOverFilterChange sp
  | .intersperseDefault _ _ a _ => captureOverFilterChange a
  | _ => false

end Tephra.Spec
