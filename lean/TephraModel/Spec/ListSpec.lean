/-
  TephraModel.Spec.ListSpec — C11: delimited lists, segment by segment.

  The filtered tokens before the first abort token are split at each separator
  (one trailing empty segment dropped); each segment is judged in isolation by
  the reference PEG evaluator: the item parser must accept exactly the whole
  segment.  Nothing here refers to the lexer or to the list loop of list.rs.
-/
import TephraModel.Spec.Peg

namespace Tephra.Spec
open Tephra

/-- split a token list at separators -/
def splitAtSep (sep : Nat) : List (RawTok Tok) → List (List (RawTok Tok))
  | [] => [[]]
  | r :: rest =>
    match splitAtSep sep rest with
    | seg :: segs => if r.tok.kind == sep then [] :: seg :: segs else (r :: seg) :: segs
    | [] => [[r]]

structure ListExp where
  /-- one entry per segment taken: the item's value, or `none` for a placeholder -/
  entries : List (Option Val)
  /-- how many tokens of the filtered view the list consumes (the returned lexer continues there) -/
  consumed : Nat
  /-- the upper bound stopped the list -/
  stoppedEarly : Bool
  /-- the last segment taken is bad and runs to the end of the stream with no separator / abort token after it -/
  lastBadAtEnd : Bool
deriving Repr

def ListExp.nbad (e : ListExp) : Nat := (e.entries.filter (·.isNone)).length

/-- the item parser accepts exactly the whole segment -/
def evalSegment (text : Text) (filter : Option Nat) (item : G) (seg : List (RawTok Tok)) : Option Val :=
  match peg text 4000 item ⟨seg, .eot, filter⟩ with
  | .ok val s1 => if s1.view.isEmpty then some val else none
  | _ => none

def listSpec (text : Text) (filter : Option Nat) (hi : Option Nat) (item : G) (sep : Nat) (abort : List Nat)
    (view : List (RawTok Tok)) : ListExp :=
  let body := view.takeWhile (fun r => !abort.contains r.tok.kind)
  let segsAll := splitAtSep sep body
  let segsAll := if (segsAll.getLast?.map (·.isEmpty)).getD false then segsAll.dropLast else segsAll
  let segs := match hi with
    | some h => segsAll.take h
    | none => segsAll
  let stoppedEarly : Bool := match hi with
    | some h => decide (segs.length ≥ h)
    | none => false
  let entries := segs.map (evalSegment text filter item)
  let consumed := if stoppedEarly then (segs.map (·.length)).foldl (· + ·) 0 + (segs.length - 1) else body.length
  let lastBadAtEnd := segs.length == segsAll.length && body.length == view.length &&
      (match entries.getLast? with | some none => true | _ => false) &&
      !(match body.getLast? with | some r => r.tok.kind == sep | none => true)
  { entries, consumed, stoppedEarly, lastBadAtEnd }

end Tephra.Spec
