/-
  TephraModel.Spec.Nav — C19: what each navigation method must return at an
  aligned cut `t = pre ++ suf` (the base position being `canon m pre`), stated
  with the forward-defined `linesOf` / `canon`.  Nothing here mirrors the Rust.
-/
import TephraModel.Spec.Canon

namespace Tephra.Spec
open Tephra

/-- The first unit of a suffix: a whole line ending, or else one character. -/
def firstUnit (m : Metrics) (suf : Text) : Option Text :=
  match breakAt m suf with
  | some rest => some (suf.take (suf.length - rest.length))
  | none => suf.head?.map ([·])

/-- The last unit of a prefix: a whole line ending, or else one character. -/
def lastUnit (m : Metrics) (pre : Text) : Option Text :=
  match breakBefore m pre.reverse with
  | some rrest => some (pre.drop rrest.length)
  | none => pre.getLast?.map ([·])

/-- The part of `pre` on the current line (after the last line ending in `pre`). -/
def curLinePre (m : Metrics) (pre : Text) : Text := (linesOf m pre).getLast!

/-- The part of `suf` on the current line (before the first line ending in `suf`). -/
def curLineSuf (m : Metrics) (suf : Text) : Text := (linesOf m suf).head!

/-- Longest prefix of `suf` made of whole units all of whose characters satisfy `f`. -/
def matchingRun (m : Metrics) (f : Ch → Bool) (suf : Text) : Text :=
  match h : firstUnit m suf with
  | none => []
  | some u =>
    if hu : u.length = 0 then [] else
    if u.all f then u ++ matchingRun m f (suf.drop u.length) else []
termination_by suf.length
decreasing_by
  have : u.length ≤ suf.length := by
    unfold firstUnit at h
    split at h
    · simp at h; subst h; simp
    · cases suf <;> simp at h; subst h; simp
  simp; omega

structure NavSpec where
  next : Option Pos
  prev : Option Pos
  lineStart : Pos
  lineEnd : Pos
  prevLineEnd : Option Pos
  nextLineStart : Option Pos
  start : Pos
  end_ : Pos
  afterStr : Option Pos
  afterChars : Option Pos
  nextAfterChars : Option Pos
  isBreak : Bool
deriving Repr, DecidableEq

/-- The navigation results required at the aligned cut `pre ++ suf`. -/
def navSpec (m : Metrics) (pre suf : Text) (pat : Text) (f : Ch → Bool) : NavSpec :=
  let cl := curLinePre m pre
  let lineStartPre := pre.take (pre.length - cl.length)
  let sl := curLineSuf m suf
  let run := matchingRun m f suf
  { next := (firstUnit m suf).map fun u => canon m (pre ++ u)
    prev := (lastUnit m pre).map fun u => canon m (pre.take (pre.length - u.length))
    lineStart := canon m lineStartPre
    lineEnd := canon m (pre ++ sl)
    prevLineEnd :=
      if (linesOf m pre).length ≤ 1 then none
      else some (canon m (lineStartPre.take (lineStartPre.length - lbLen m)))
    nextLineStart :=
      if (linesOf m suf).length ≤ 1 then none
      else some (canon m (pre ++ suf.take (sl.length + lbLen m)))
    start := Pos.zero
    end_ := canon m (pre ++ suf)
    -- pattern: non-empty, the text at the cut starts with it, and it ends on an aligned offset
    afterStr :=
      if pat.isEmpty then none
      else if pat.length ≤ suf.length && (suf.take pat.length).map (·.code) == pat.map (·.code)
              && aligned m (pre ++ suf.take pat.length) (suf.drop pat.length)
      then some (canon m (pre ++ suf.take pat.length)) else none
    afterChars := if run.isEmpty then none else some (canon m (pre ++ run))
    nextAfterChars :=
      match firstUnit m suf with
      | some u => if u.all f then some (canon m (pre ++ u)) else none
      | none => none
    isBreak := (linesOf m suf).length > 1 && (curLineSuf m suf).isEmpty }

end Tephra.Spec
