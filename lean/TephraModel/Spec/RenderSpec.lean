/-
  TephraModel.Spec.RenderSpec — C16: what a rendered report must look like, as a
  function from the display data to rows, written from the property (and the
  layout the test-suite pins), not from the riser state machine of
  highlight.rs.

  Layout of one span display (plain text):
    <w spaces>--> [name:](span)
    <w spaces> |
    for every line ℓ of the widened display span, in order, exactly once:
      <ℓ right-aligned in w> | <riser column per multi-line highlight>[ ]<line text verbatim>
      then one mark row per highlight that has a mark on ℓ, in highlight order:
      <w spaces> | <riser columns><marks> <message>
  Marks: a single-line highlight starts at its start column and is as wide as
  its display width (at least one mark; `\` for an empty span); a multi-line
  highlight has an end mark `^` under its last column preceded by `_`s, a start
  mark row of the same shape when it starts mid-line, and a riser: `/` on the
  start line's source row when it starts at column 0, then `|` on *every* row
  down to and including its end mark row, and a blank on every other row.
-/
import TephraModel.Render

namespace Tephra.Spec
open Tephra Tephra.Render

inductive RowId where
  | src (line : Nat)
  | mark (line : Nat) (k : Nat)
deriving Repr, DecidableEq, Inhabited

/-- where highlight `h` has mark rows -/
def hasMark (h : Highlight) (line : Nat) : Bool :=
  if h.isMultiline then (h.span.s.line == line && h.span.s.col != 0) || h.span.e.line == line
  else h.span.s.line == line

def rowIds (lines : List Nat) (hls : List Highlight) : List RowId :=
  lines.flatMap fun l =>
    RowId.src l :: ((List.range hls.length).filter (fun k => (hls[k]?.map (hasMark · l)).getD false)).map (RowId.mark l)

def RowId.line : RowId → Nat
  | .src l => l
  | .mark l _ => l

/-- the riser character of multi-line highlight `k` on row number `i`: `/` on the start row of a
highlight starting at column 0, blank on the start mark row of one starting mid-line, `|` on every
row after the start row down to and including the end mark row, blank elsewhere.  When the start
(end) line is not among the displayed lines, "after the start" ("not past the end") is decided by
the line number of the row. -/
def riserChar (ids : List RowId) (h : Highlight) (k : Nat) (i : Nat) : String :=
  let startRow := if h.span.s.col == 0 then RowId.src h.span.s.line else RowId.mark h.span.s.line k
  let endRow := RowId.mark h.span.e.line k
  let si := ids.findIdx? (· == startRow)
  let ei := ids.findIdx? (· == endRow)
  let rowLine := (ids[i]?.map RowId.line).getD 0
  let afterStart := match si with
    | some s => decide (s < i)
    | none => decide (h.span.s.line < rowLine)
  let atStart := si == some i
  let notPastEnd := match ei with
    | some e => decide (i ≤ e)
    | none => decide (rowLine < h.span.e.line)
  if atStart then (if h.span.s.col == 0 then "/" else " ")
  else if afterStart && notPastEnd then "|"
  else " "

def risers (ids : List RowId) (hls : List Highlight) (i : Nat) : String :=
  String.join ((List.range hls.length).map fun k =>
    match hls[k]? with
    | some h => if h.isMultiline then riserChar ids h k i else ""
    | none => "")

def markText (h : Highlight) (line : Nat) (multi : Bool) : String :=
  let msg := match h.endMsg with
    | some m => " " ++ m
    | none => ""
  if !h.isMultiline then
    (if multi then " " else "") ++ rep " " h.span.s.col ++
      (if h.span.isEmpty then "\\" else rep h.mtype.underline (Nat.max (h.span.e.col - h.span.s.col) 1)) ++ msg
  else if h.span.s.line == line then
    (if multi then "_" else "") ++ rep "_" (h.span.s.col - 1) ++ "^"
  else
    (if multi then "_" else "") ++ rep "_" (h.span.e.col - 1) ++ "^" ++ msg

/-- rows of one span display; `lines` = (line number, line text) of the widened span -/
def displayRows (name : Option String) (wide : Span) (w : Nat) (lines : List (Nat × String))
    (hls : List Highlight) : List String :=
  let ids := rowIds (lines.map (·.1)) hls
  let multi := hls.any (·.isMultiline)
  let nameSep := match name with
    | some n => n ++ ":"
    | none => ""
  let body := (List.range ids.length).map fun i =>
    match ids[i]? with
    | some (.src l) =>
      padLeft w (toString l) ++ " | " ++ risers ids hls i ++ (if multi then " " else "") ++
        ((lines.find? (·.1 == l)).map (·.2)).getD ""
    | some (.mark l k) =>
      padLeft w "" ++ " | " ++ risers ids hls i ++ ((hls[k]?.map (markText · l multi)).getD "")
    | none => ""
  [rep " " w ++ "--> " ++ nameSep ++ "(" ++ showSpan wide ++ ")", padLeft w "" ++ " | "] ++ body

/-- the whole report (plain): header, then every span display -/
def reportRows (mtype : MType) (message : String)
    (displays : List (Option String × Span × Nat × List (Nat × String) × List Highlight)) : List String :=
  (mtype.label ++ ": " ++ message) ::
    displays.flatMap fun (name, wide, w, lines, hls) => displayRows name wide w lines hls

/-- The shapes on which the pinned code is known to honour the layout (everything
else involving a multi-line highlight is finding F10): single-line highlights,
and multi-line highlights that start at column 0 on the first displayed line and
end mid-line on a displayed line. -/
def wellBehaved (firstLine lastLine : Nat) (h : Highlight) : Bool :=
  !h.isMultiline ||
  (h.span.s.col == 0 && h.span.s.line == firstLine && h.span.e.col != 0 && h.span.e.line ≤ lastLine)

end Tephra.Spec
