/-
  TephraModel.Spec.Bracket — C10: the reference bracket matcher: a plain stack
  of kinds over the filtered token stream (no run-length compression, no lexer).
-/
import TephraModel.Grammar

namespace Tephra.Spec
open Tephra

inductive MatchRef where
  /-- indices (into the filtered stream) of the open bracket and its partner, and the kind -/
  | matched (iOpen iClose kind : Nat)
  /-- no open bracket: `some i` = abort token at index i; `none` = end of stream -/
  | noneFound (i : Option Nat)
  | unopened (i : Nat)
  /-- end of stream with brackets open: index of the first open bracket -/
  | unclosed (iOpen0 : Nat)
  /-- close bracket `i` of the wrong kind: first open bracket, the open bracket it fails to match -/
  | mismatch (iOpen0 iOpenTop i : Nat)
deriving Repr, DecidableEq

/-- `stack`: open brackets (kind, index), innermost first; `first`: index of the first open. -/
def refMatchLoop (opens closes abort : List Nat) :
    List Nat → Nat → List (Nat × Nat) → Option Nat → MatchRef
  | [], _, _, none => .noneFound none
  | [], _, _, some i0 => .unclosed i0
  | k :: ks, i, stack, first =>
    match closes.findIdx? (· == k) with
    | some kind =>
      match stack with
      | [] => .unopened i
      | (topKind, topIdx) :: rest =>
        if topKind != kind then .mismatch (first.getD topIdx) topIdx i
        else if rest.isEmpty then .matched (first.getD topIdx) i kind
        else refMatchLoop opens closes abort ks (i + 1) rest first
    | none =>
      match opens.findIdx? (· == k) with
      | some kind => refMatchLoop opens closes abort ks (i + 1) ((kind, i) :: stack) (first.orElse fun _ => some i)
      | none =>
        if abort.contains k && first.isNone then .noneFound (some i)
        else refMatchLoop opens closes abort ks (i + 1) stack first

def refMatch (opens closes abort : List Nat) (kinds : List Nat) : MatchRef :=
  refMatchLoop opens closes abort kinds 0 [] none

end Tephra.Spec
