/-
  TephraModel.Scan — the harness scanners (second implementation of
  harness/src/scan.rs), the token type and the filter table.  These are *user
  callbacks* from the library's point of view: theorems quantify over arbitrary
  scanners and filter tables; this file only instantiates them for the
  executable driver.
-/
import TephraModel.Lexer

namespace Tephra

structure Tok where
  kind : Nat
  tag : Nat
deriving Repr, DecidableEq, Inhabited

/-- `PartialEq for Tok`: the kind decides. -/
def Tok.same (a b : Tok) : Bool := a.kind == b.kind

def isWs (c : Ch) : Bool := c.code == 32 || c.code == 9 || c.code == 13 || c.code == 10

def kWs : Nat := 12
def kAA : Nat := 13

def kindOf (code : Nat) : Option Nat :=
  if code == 97 then some 0 else if code == 98 then some 1 else if code == 99 then some 2
  else if code == 100 then some 3 else if code == 44 then some 4 else if code == 59 then some 5
  else if code == 40 then some 6 else if code == 41 then some 7 else if code == 91 then some 8
  else if code == 93 then some 9 else if code == 123 then some 10 else if code == 125 then some 11
  else if code == 35 then none
  else if code == 32 || code == 9 || code == 13 || code == 10 then some kWs
  else some (100 + code)

def classOf (kind : Nat) : Nat :=
  if kind == 12 then 0 else if kind == 4 || kind == 5 then 1 else if kind == 3 then 2
  else if kind ≥ 100 then 3 else 4

def passesMask (mask : Nat) (t : Tok) : Bool :=
  let c := classOf t.kind
  c ≥ 4 || (mask >>> c) % 2 == 0

structure ScanCfg where
  stateful : Bool
  munch : Bool
  /-- state-dependent tokenization: `#` is a token only at the start of a line -/
  hash : Bool
deriving Repr, DecidableEq, Inhabited

def ScanCfg.ofId (id : Nat) : ScanCfg := ⟨id % 2 == 1, (id / 2) % 2 == 1, (id / 4) % 2 == 1⟩

def kHash : Nat := 14

def resOpt {α} : Res (Option α) → Option α
  | .ok a => a
  | .panic => none

/-- `Sc::scan` over a source with offset zero.  The scanner state is
`2 * (number of tokens produced) + (at line start)`; initially `1`. -/
def scanText (cfg : ScanCfg) (t : Text) (st : Nat) (m : Metrics) (base : Pos) :
    Option (Tok × Pos) × Nat :=
  let src : Source := ⟨t, m, Pos.zero⟩
  let count := st / 2
  let atLineStart := st % 2 == 1
  match splitAtByte t base.byte with
  | none => (none, st)
  | some (_, suf) =>
    match suf with
    | [] => (none, st)
    | c :: rest =>
      let kind? : Option Nat :=
        if cfg.hash && c.code == 35 then (if atLineStart then some kHash else none) else kindOf c.code
      match kind? with
      | none => (none, st)
      | some kind =>
        let r : Option (Nat × Pos) :=
          if kind == kWs then
            (resOpt (src.positionAfterCharsMatching isWs base)).map (fun p => (kWs, p))
          else if cfg.munch && c.code == 97 && (rest.head?.map (·.code)) == some 97 then
            (resOpt (src.positionAfterStr base [⟨97, 1, 1⟩, ⟨97, 1, 1⟩])).map (fun p => (kAA, p))
          else
            (resOpt (src.nextPosition base)).map (fun p => (kind, p))
        match r with
        | none => (none, st)
        | some (k, adv) =>
          let chunk := match Source.sliceBytes t base.byte adv.byte with
            | .ok mid => mid
            | .panic => []
          let ls := k == kWs && chunk.any (·.code == 10)
          (some (⟨k, if cfg.stateful then count else 0⟩, adv), 2 * (count + 1) + (if ls then 1 else 0))

/-- `metrics.end_position(&text[..b], Pos::ZERO)`.  (Slicing at a byte that is not a character
boundary panics in Rust; the positions a lexer holds come from the scanner and are boundaries, so
that branch is unreachable and is totalised here.) -/
def measureText (t : Text) (m : Metrics) (b : Nat) : Pos :=
  match splitAtByte t b with
  | some (pre, _) =>
    (match endPosition m pre Pos.zero with
     | .ok q => q
     | .panic => ⟨b, 0, 0⟩)
  | none => ⟨b, 0, 0⟩

def lexEnv (cfg : ScanCfg) (t : Text) : LexEnv Nat Tok :=
  { scan := scanText cfg t, passes := passesMask, measure := measureText t }

end Tephra
