/-
  TephraModel.Basic — characters, texts, positions, column metrics.

  Mirrors tephra-span/src/position.rs and the data part of metrics.rs.
  Import-free (core only) so that the driver links as a native executable.

  A Rust `&str` is modelled as a list of characters, each carrying the two
  external facts the library asks of it: `len_utf8` (`size`) and
  `UnicodeWidthChar::width(..).unwrap_or(0)` (`width`).  Tab, CR and LF are
  recognised by code point (9, 13, 10).
-/

namespace Tephra

structure Ch where
  code : Nat
  size : Nat
  width : Nat
deriving Repr, DecidableEq, Inhabited

abbrev Text := List Ch

/-- Well-formed character: UTF-8 encodes every char in at least one byte, and
the three control characters the library special-cases are one byte wide. -/
def Ch.WF (c : Ch) : Prop :=
  1 ≤ c.size ∧ ((c.code = 9 ∨ c.code = 10 ∨ c.code = 13) → c.size = 1)

instance (c : Ch) : Decidable c.WF := by unfold Ch.WF; exact inferInstance

def Text.WF (t : Text) : Prop := ∀ c ∈ t, c.WF

inductive LineEnding | lf | cr | crlf
deriving Repr, DecidableEq, Inhabited

structure Metrics where
  le : LineEnding
  tab : Nat
deriving Repr, DecidableEq, Inhabited

/-- `Pos { byte, page: Page { line, column } }`.  Rust's derived `Ord` is
lexicographic on (byte, line, column). -/
structure Pos where
  byte : Nat
  line : Nat
  col : Nat
deriving Repr, DecidableEq, Inhabited

def Pos.zero : Pos := ⟨0, 0, 0⟩

/-- derived `Ord` for `Pos` (byte, then `Page` = (line, column)). -/
def Pos.lt (a b : Pos) : Bool :=
  a.byte < b.byte ||
  (a.byte == b.byte && (a.line < b.line || (a.line == b.line && a.col < b.col)))

def Pos.le (a b : Pos) : Bool := a == b || Pos.lt a b

/-- derived `Ord` for `Page` alone (line, column). -/
def Pos.pageLe (a b : Pos) : Bool :=
  a.line < b.line || (a.line == b.line && a.col ≤ b.col)

/-- `Page::shifted` / `Pos::shifted` (position.rs). -/
def Pos.shifted (self other : Pos) : Pos :=
  { byte := self.byte + other.byte
    line := self.line + other.line
    col := if other.col = 0 ∨ other.line > 0 then other.col else self.col + other.col }

def bytes (t : Text) : Nat := (t.map (·.size)).sum

/-- Result of a modelled Rust call: a value or a panic (slice off a char
boundary / out of range, `unwrap`/`expect` on `None`, arithmetic underflow
with overflow checks on). -/
inductive Res (α : Type) where
  | ok : α → Res α
  | panic : Res α
deriving Repr, DecidableEq, Inhabited

def Res.bind {α β} (r : Res α) (f : α → Res β) : Res β :=
  match r with
  | .ok a => f a
  | .panic => .panic

instance : Monad Res where
  pure := .ok
  bind := Res.bind

/-- `&text[..b]`, `&text[b..]`: `none` when `b` is not a char boundary of `t`
or is past the end (the Rust slice would panic). -/
def splitAtByte : Text → Nat → Option (Text × Text)
  | t, 0 => some ([], t)
  | [], _ + 1 => none
  | c :: rest, b + 1 =>
    if c.size ≤ b + 1 then
      match splitAtByte rest (b + 1 - c.size) with
      | some (pre, suf) => some (c :: pre, suf)
      | none => none
    else none

/-- Checked subtraction (`overflow-checks = true` in both profiles). -/
def csub (a b : Nat) : Res Nat := if b ≤ a then .ok (a - b) else .panic

end Tephra
