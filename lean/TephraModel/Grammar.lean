/-
  TephraModel.Grammar — the deep embedding `G` of the combinator family, values,
  errors, and their wire forms (mirrors harness/src/grammar.rs).
-/
import TephraModel.Wire
import TephraModel.Scan

namespace Tephra

/-- Recovery predicates (`tephra-error/src/recover.rs`) plus the closure that
`list_bounded_default` builds internally (`tok == sep || abort(tok)`). -/
inductive Rec where
  | before (k : Nat)
  | after (k : Nat)
  | beforeAny (ks : List Nat)
  | afterAny (ks : List Nat)
  | sepOrAbort (sep : Nat) (abort : List Nat)
deriving Repr, DecidableEq, Inhabited

inductive PE where
  | var (k : Nat)
  | not (a : PE)
  | and (a b : PE)
  | or (a b : PE)
deriving Repr, DecidableEq, Inhabited

def PE.eval (t : Tok) : PE → Bool
  | .var k => t.kind == k
  | .not a => !(a.eval t)
  | .and a b => a.eval t && b.eval t
  | .or a b => a.eval t || b.eval t

inductive G where
  | empty
  | one (k : Nat)
  | any (ks : List Nat)
  | anyIndex (ks : List Nat)
  | seq (ks : List Nat)
  | seqCount (ks : List Nat)
  | pred (p : PE)
  | endOfText
  | left (a b : G)
  | right (a b : G)
  | both (a b : G)
  | center (a b c : G)
  | map (a : G)
  | discard (a : G)
  | either (a b : G)
  | maybe (a : G)
  | requireIf (flag : Bool) (a : G)
  | cond (flag : Bool) (a : G)
  | implies (a b : G)
  | antecedent (a b : G)
  | consequent (a b : G)
  | condImplies (a : G) (k : Nat) (b : G)
  | filterWith (mask : Nat) (a : G)
  | unfiltered (a : G)
  | sub (a : G)
  | spanned (a : G)
  | text (a : G)
  | repeat_ (v : Nat) (lo : Nat) (hi : Option Nat) (a : G)
  | repeatUntil (v : Nat) (lo : Nat) (hi : Option Nat) (stop a : G)
  | intersperse (v : Nat) (lo : Nat) (hi : Option Nat) (a sep : G)
  | intersperseUntil (v : Nat) (lo : Nat) (hi : Option Nat) (stop a sep : G)
  | intersperseDefault (lo : Nat) (hi : Option Nat) (a : G) (sepk : Nat)
  | raw (a : G)
  | unrecoverable (a : G)
  /-- `id`: identity of the recover closure object (one per grammar node) -/
  | recover (v : Nat) (id : Nat) (a : G) (r : Rec)
  | stabilize (a : G)
  | bracket (v : Nat) (opens : List Nat) (a : G) (closes : List Nat) (abort : List Nat)
  | list (v : Nat) (id : Nat) (lo : Nat) (hi : Option Nat) (a : G) (sep : Nat) (abort : List Nat)
  | upTo (a : G) (abort : List Nat)
  | probe (tag : Nat)
  | ctxPushed (tag : Nat) (a : G)
  | ctxPush (tag : Nat) (a : G)
  | ctxLocked (flag : Bool) (a : G)
  /-- internal: `parser.map_value(Some)` (the `option_parser` wrappers) -/
  | someOf (a : G)
deriving Repr, Inhabited

inductive Val where
  | dflt
  | unit
  | tok (t : Tok)
  | idx (n : Nat)
  | count (n : Nat)
  | toks (l : List Tok)
  | pair (a b : Val)
  | none
  | some (a : Val)
  | list (l : List Val)
  | spanned (s : Span) (a : Val)
  | text (t : Text)
  | mapped (a : Val)
deriving Repr, Inhabited

inductive Expected where
  | token (k : Nat)
  | tokens (ks : List Nat)
  | eot
  | any
  | other
deriving Repr, DecidableEq, Inhabited

inductive Found where
  | token (t : Tok)
  | eot
deriving Repr, DecidableEq, Inhabited

inductive ErrBody where
  | unexp (es ts : Span) (exp : Expected) (found : Found)
  | unrec (es : Span)
  | recover
  | boundary (es : Span) (endp : Pos)
  | bracketNone (s : Span)
  | bracketUnclosed (s : Span)
  | bracketUnopened (s : Span)
  | bracketMismatch (s e : Span)
  | count (es : Span) (found min : Nat) (max : Option Nat)
  | probe (id : Nat)
deriving Repr, DecidableEq, Inhabited

/-- An error with the trail of transform tags applied to it so far (application order). -/
structure PErr where
  trail : List Nat
  body : ErrBody
deriving Repr, DecidableEq, Inhabited

/-! ### wire forms -/
namespace GWire
open Wire

def dotPos (p : Pos) : String := s!"{p.byte}.{p.line}.{p.col}"
def dotSpan (x : Span) : String := dotPos x.s ++ "." ++ dotPos x.e
def dotCodes (t : Text) : String :=
  if t.isEmpty then "-" else ".".intercalate (t.map fun c => toString c.code)
def showT (t : Tok) : String := s!"t{t.kind}.{t.tag}"

partial def showVal : Val → String
  | .dflt => "D"
  | .unit => "u"
  | .tok t => showT t
  | .idx n => s!"i{n}"
  | .count n => s!"n{n}"
  | .toks l => "T[" ++ ",".intercalate (l.map showT) ++ "]"
  | .pair a b => "(" ++ showVal a ++ "," ++ showVal b ++ ")"
  | .none => "N"
  | .some a => "S(" ++ showVal a ++ ")"
  | .list l => "L[" ++ ",".intercalate (l.map showVal) ++ "]"
  | .spanned s a => "sp(" ++ dotSpan s ++ "," ++ showVal a ++ ")"
  | .text t => "x\"" ++ dotCodes t ++ "\""
  | .mapped a => "m(" ++ showVal a ++ ")"

def showExpected : Expected → String
  | .token k => s!"t{k}"
  | .tokens ks => "ts" ++ ".".intercalate (ks.map toString)
  | .eot => "eot"
  | .any => "any"
  | .other => "other"

def showFound : Found → String
  | .token t => s!"{t.kind}.{t.tag}"
  | .eot => "eot"

def showBody : ErrBody → String
  | .unexp es ts e f => "unexp{es=" ++ dotSpan es ++ ";ts=" ++ dotSpan ts ++ ";exp=" ++ showExpected e ++
      ";found=" ++ showFound f ++ "}"
  | .unrec es => "unrec{es=" ++ dotSpan es ++ "}"
  | .recover => "recover"
  | .boundary es p => "boundary{es=" ++ dotSpan es ++ ";end=" ++ dotPos p ++ "}"
  | .bracketNone s => "bracket{none=" ++ dotSpan s ++ "}"
  | .bracketUnclosed s => "bracket{unclosed=" ++ dotSpan s ++ "}"
  | .bracketUnopened s => "bracket{unopened=" ++ dotSpan s ++ "}"
  | .bracketMismatch s e => "bracket{mismatch=" ++ dotSpan s ++ "/" ++ dotSpan e ++ "}"
  | .count es f mn mx => "count{es=" ++ dotSpan es ++ s!";found={f};min={mn};max=" ++
      (match mx with | Option.none => "inf" | Option.some n => toString n) ++ "}"
  | .probe id => "probe{" ++ toString id ++ "}"

def showErr (e : PErr) : String :=
  "E[" ++ ".".intercalate (e.trail.map toString) ++ "]" ++ showBody e.body

/-! S-expression reader -/

inductive Sx where
  | atom (s : String)
  | list (l : List Sx)
deriving Repr, Inhabited

def tokenize (s : String) : List String :=
  ((s.replace "(" " ( ").replace ")" " ) ").splitOn " " |>.filter (· != "")

partial def parseSxAux : List String → Option (Sx × List String)
  | [] => Option.none
  | "(" :: rest =>
    let rec items (acc : List Sx) : List String → Option (List Sx × List String)
      | [] => Option.none
      | ")" :: rest => Option.some (acc.reverse, rest)
      | toks => match parseSxAux toks with
        | Option.some (x, rest) => items (x :: acc) rest
        | Option.none => Option.none
    match items [] rest with
    | Option.some (l, rest) => Option.some (Sx.list l, rest)
    | Option.none => Option.none
  | t :: rest => Option.some (Sx.atom t, rest)

def parseSx (s : String) : Option Sx := (parseSxAux (tokenize s)).map (·.1)

def sxNums : Sx → List Nat
  | .atom a => splitNats a
  | _ => []
def sxNat : Sx → Nat
  | .atom a => nat! a
  | _ => 0
def sxHi : Sx → Option Nat
  | .atom a => if a == "inf" then Option.none else Option.some (nat! a)
  | _ => Option.none
def sxBool : Sx → Bool
  | .atom a => a == "1"
  | _ => false

def sxRec : Sx → Rec
  | .list [.atom "before", k] => .before (sxNat k)
  | .list [.atom "after", k] => .after (sxNat k)
  | .list [.atom "before_any", ks] => .beforeAny (sxNums ks)
  | .list [.atom "after_any", ks] => .afterAny (sxNums ks)
  | _ => .before 0

partial def sxPE : Sx → PE
  | .list [.atom "v", k] => .var (sxNat k)
  | .list [.atom "not", a] => .not (sxPE a)
  | .list [.atom "and", a, b] => .and (sxPE a) (sxPE b)
  | .list [.atom "or", a, b] => .or (sxPE a) (sxPE b)
  | _ => .var 0

/-- Reader state: next recover-object id (assigned in order of appearance). -/
partial def sxG (s : Sx) : StateM Nat G := do
  match s with
  | .list (.atom h :: args) =>
    let g1 := fun (i : Nat) => sxG (args.getD i (.atom ""))
    match h with
    | "empty" => pure .empty
    | "one" => pure (.one (sxNat (args.getD 0 default)))
    | "any" => pure (.any (sxNums (args.getD 0 default)))
    | "any_index" => pure (.anyIndex (sxNums (args.getD 0 default)))
    | "seq" => pure (.seq (sxNums (args.getD 0 default)))
    | "seq_count" => pure (.seqCount (sxNums (args.getD 0 default)))
    | "pred" => pure (.pred (sxPE (args.getD 0 default)))
    | "end_of_text" => pure .endOfText
    | "left" => do let a ← g1 0; let b ← g1 1; pure (.left a b)
    | "right" => do let a ← g1 0; let b ← g1 1; pure (.right a b)
    | "both" => do let a ← g1 0; let b ← g1 1; pure (.both a b)
    | "center" => do let a ← g1 0; let b ← g1 1; let c ← g1 2; pure (.center a b c)
    | "map" => do let a ← g1 0; pure (.map a)
    | "discard" => do let a ← g1 0; pure (.discard a)
    | "either" => do let a ← g1 0; let b ← g1 1; pure (.either a b)
    | "maybe" => do let a ← g1 0; pure (.maybe a)
    | "require_if" => do let a ← g1 1; pure (.requireIf (sxBool (args.getD 0 default)) a)
    | "cond" => do let a ← g1 1; pure (.cond (sxBool (args.getD 0 default)) a)
    | "implies" => do let a ← g1 0; let b ← g1 1; pure (.implies a b)
    | "antecedent" => do let a ← g1 0; let b ← g1 1; pure (.antecedent a b)
    | "consequent" => do let a ← g1 0; let b ← g1 1; pure (.consequent a b)
    | "cond_implies" => do let a ← g1 0; let b ← g1 2; pure (.condImplies a (sxNat (args.getD 1 default)) b)
    | "filter_with" => do let a ← g1 1; pure (.filterWith (sxNat (args.getD 0 default)) a)
    | "unfiltered" => do let a ← g1 0; pure (.unfiltered a)
    | "sub" => do let a ← g1 0; pure (.sub a)
    | "spanned" => do let a ← g1 0; pure (.spanned a)
    | "text" => do let a ← g1 0; pure (.text a)
    | "repeat" => do
      let a ← g1 3
      pure (.repeat_ (sxNat (args.getD 0 default)) (sxNat (args.getD 1 default)) (sxHi (args.getD 2 default)) a)
    | "repeat_until" => do
      let st ← g1 3; let a ← g1 4
      pure (.repeatUntil (sxNat (args.getD 0 default)) (sxNat (args.getD 1 default)) (sxHi (args.getD 2 default)) st a)
    | "intersperse" => do
      let a ← g1 3; let sp ← g1 4
      pure (.intersperse (sxNat (args.getD 0 default)) (sxNat (args.getD 1 default)) (sxHi (args.getD 2 default)) a sp)
    | "intersperse_until" => do
      let st ← g1 3; let a ← g1 4; let sp ← g1 5
      pure (.intersperseUntil (sxNat (args.getD 0 default)) (sxNat (args.getD 1 default)) (sxHi (args.getD 2 default)) st a sp)
    | "intersperse_default" => do
      let a ← g1 2
      pure (.intersperseDefault (sxNat (args.getD 0 default)) (sxHi (args.getD 1 default)) a (sxNat (args.getD 3 default)))
    | "raw" => do let a ← g1 0; pure (.raw a)
    | "unrecoverable" => do let a ← g1 0; pure (.unrecoverable a)
    | "recover" => do
      let id ← get; set (id + 1)
      let a ← g1 1
      pure (.recover (sxNat (args.getD 0 default)) id a (sxRec (args.getD 2 default)))
    | "stabilize" => do let a ← g1 0; pure (.stabilize a)
    | "bracket" => do
      let a ← g1 2
      pure (.bracket (sxNat (args.getD 0 default)) (sxNums (args.getD 1 default)) a (sxNums (args.getD 3 default))
        (sxNums (args.getD 4 default)))
    | "list" => do
      let id ← get; set (id + 1)
      let a ← g1 3
      pure (.list (sxNat (args.getD 0 default)) id (sxNat (args.getD 1 default)) (sxHi (args.getD 2 default)) a
        (sxNat (args.getD 4 default)) (sxNums (args.getD 5 default)))
    | "up_to" => do let a ← g1 0; pure (.upTo a (sxNums (args.getD 1 default)))
    | "probe" => pure (.probe (sxNat (args.getD 0 default)))
    | "ctx_pushed" => do let a ← g1 1; pure (.ctxPushed (sxNat (args.getD 0 default)) a)
    | "ctx_push" => do let a ← g1 1; pure (.ctxPush (sxNat (args.getD 0 default)) a)
    | "ctx_locked" => do let a ← g1 1; pure (.ctxLocked (sxBool (args.getD 0 default)) a)
    | _ => pure .empty
  | _ => pure .empty

def parseG (s : String) : G :=
  match parseSx s with
  | Option.some sx => (sxG sx |>.run 0).1
  | Option.none => .empty

end GWire
end Tephra
