/-
  TephraModel.Report — parse error → source report (`ParseError::into_source_error`)
  and the `Display` text of every error, mirrored from
  tephra-error/src/error/lexer.rs (`UnrecognizedTokenError`, `UnexpectedTokenError`,
  `Expected` / `Found` / `fmt_list`, `RecoverError`), error/delimit.rs
  (`ParseBoundaryError`, `MatchBracketError`, `RepeatCountError`), error.rs (the
  default `into_source_error`: the error's `Display` text as the message, no span
  display), error/source.rs (`SourceError::new` = an error-type `CodeDisplay`) and
  display.rs (`SpanDisplay::new_error_highlight`, `with_highlight`).

  What the library cannot know is a parameter (`Env`): how a token displays itself
  (`Display for Sc::Token`), the text carried by `Expected::Other` (for `pred` it is
  the `Debug` text of a third-party `DnfVec`), and the name of the source.

  Errors of other types — here the harness's `ProbeError` and `Tagged` (what its
  context transforms wrap an error in; neither overrides `into_source_error`) — take
  the default conversion: message = `Display` text, no span display.  `Tagged`
  displays as `[tag] inner`.
-/
import TephraModel.Render
import TephraModel.Grammar

namespace Tephra.Report
open Tephra Tephra.Render

structure Env where
  /-- `Display for Sc::Token`, as a function of the token kind -/
  tokName : Nat → String
  /-- the message inside `Expected::Other` -/
  otherMsg : String
  /-- `SourceText::name` -/
  name : Option String
deriving Inhabited

/-! ### `Display` texts -/

/-- `Display for Pos`: `{page}, byte {byte}` -/
def showPos (p : Pos) : String := showPage p ++ ", byte " ++ toString p.byte

/-- `fmt_list` -/
def fmtList (items : List String) : String := ", ".intercalate items

/-- `Expected::<T>::MAX_EXPECTED_DISPLAY` -/
def maxExpectedDisplay : Nat := 5

/-- `Display for Expected<T>` -/
def showExpected (E : Env) : Expected → String
  | .token k => E.tokName k
  | .tokens ks =>
    if ks.isEmpty then "nothing"
    else if ks.length == 1 then E.tokName (ks.headD 0)
    else if ks.length < maxExpectedDisplay then "one of " ++ fmtList (ks.map E.tokName)
    else "one of " ++ fmtList ((ks.take maxExpectedDisplay).map E.tokName)
  | .other => E.otherMsg
  | .eot => "end of text"
  | .any => "any token"

/-- `Display for Found<T>` -/
def showFound (E : Env) : Found → String
  | .token t => E.tokName t.kind
  | .eot => "end of text"

/-- `Expected::is_empty` -/
def Expected.isEmpty : Expected → Bool
  | .tokens ks => ks.isEmpty
  | _ => false

/-- `UnexpectedTokenError::expected_description` -/
def expectedDescription (E : Env) (exp : Expected) (found : Found) : String :=
  if Expected.isEmpty exp then "found " ++ showFound E found
  else "expected " ++ showExpected E exp ++ "; found " ++ showFound E found

/-- `RepeatCountError::expected_description`; `.panic` = `expected_max.expect("get max item count")` -/
def countDescription (found min : Nat) (max : Option Nat) : Res String :=
  if found < min then
    .ok ("expected " ++ toString min ++ " item" ++ (if min == 1 then "" else "s") ++ "; found " ++ toString found)
  else
    match max with
    | none => .panic
    | some mx =>
      if mx == min then
        .ok ("expected " ++ toString mx ++ " item" ++ (if mx == 1 then "" else "s") ++ "; found " ++ toString found)
      else
        .ok ("expected " ++ toString min ++ " to " ++ toString mx ++ " items; found " ++ toString found)

/-- `ParseBoundaryError::full_span` -/
def boundaryFull (es : Span) (endp : Pos) : Span := Span.enclosing es.s endp
/-- `ParseBoundaryError::unparsed_span` -/
def boundaryUnparsed (es : Span) (endp : Pos) : Span := Span.enclosing es.e endp

/-- `Display` of the error types (`ProbeError`: `probe {n}`) -/
def displayBody (E : Env) : ErrBody → Res String
  | .unexp _ ts exp found => .ok (expectedDescription E exp found ++ " " ++ showSpan ts)
  | .unrec es => .ok ("unrecognized token " ++ showPos es.e)
  | .recover => .ok "unable to recover from previous error"
  | .boundary es endp => .ok ("incomplete parse: unexpected text at " ++ showSpan (boundaryUnparsed es endp))
  | .bracketNone s => .ok ("bracket error: expected open bracket at " ++ showSpan s)
  | .bracketUnclosed s => .ok ("bracket error: unmatched open bracket at " ++ showSpan s)
  | .bracketUnopened s => .ok ("bracket error: unmatched close bracket at " ++ showSpan s)
  | .bracketMismatch s e => .ok ("bracket error: mismatched brackets at " ++ showSpan s ++ " and " ++ showSpan e)
  | .count _ found min max =>
    match countDescription found min max with
    | .ok d => .ok ("invalid item count: " ++ d)
    | .panic => .panic
  | .probe n => .ok ("probe " ++ toString n)

/-- `Display for Tagged`, outermost tag first (`trail` is in application order) -/
def tagPrefix (trail : List Nat) : String :=
  String.join (trail.reverse.map fun t => "[" ++ toString t ++ "] ")

def displayErr (E : Env) (e : PErr) : Res String :=
  match displayBody E e.body with
  | .ok s => .ok (tagPrefix e.trail ++ s)
  | .panic => .panic

/-! ### `into_source_error` -/

/-- `Highlight::new(span, message).with_error_type()` -/
def errorHighlight (sp : Span) (msg : String) : Highlight := ⟨sp, none, some msg, .error⟩

/-- `SourceError::new(source, message)` with the given span displays -/
def sourceError (msg : String) (sds : List SpanDisplay) : CodeDisplay :=
  { message := msg, mtype := .error, codeId := none, spans := sds, notes := [], colorEnabled := true }

/-- `SourceError::new(source, message).with_span_display(SpanDisplay::new(source, span)
.with_highlight(…)…)`: one span display, built from `span`, carrying `hls` -/
def oneDisplay (src : Source) (E : Env) (msg : String) (span : Span) (hls : List Highlight) : Res CodeDisplay :=
  match SpanDisplay.new src E.name span with
  | .ok sd => .ok (sourceError msg [{ sd with highlights := hls }])
  | .panic => .panic

/-- the overriding `into_source_error` of the library's own error types; `none`: the type keeps
the trait's default -/
def ownReport (src : Source) (E : Env) : ErrBody → Option (Res CodeDisplay)
  | .unexp _ ts exp found =>
    some (oneDisplay src E "unexpected token" ts [errorHighlight ts (expectedDescription E exp found)])
  | .unrec es => some (oneDisplay src E "unrecognized token" (Span.at_ es.e) [])
  | .boundary es endp =>
    some (oneDisplay src E "incomplete parse" (boundaryFull es endp)
      [errorHighlight (boundaryUnparsed es endp) "unexpected text"])
  | .bracketNone s =>
    some (oneDisplay src E "expected open bracket" s [errorHighlight s "bracket expected here"])
  | .bracketUnclosed s =>
    some (oneDisplay src E "unmatched open bracket" s [errorHighlight s "this bracket is not closed"])
  | .bracketUnopened s =>
    some (oneDisplay src E "unmatched close bracket" s [errorHighlight s "this bracket has no matching open"])
  | .bracketMismatch s e =>
    some (oneDisplay src E "mismatched brackets" s
      [errorHighlight s "the bracket here", errorHighlight e "... does not match the closing bracket here"])
  | .count es found min max =>
    some (match countDescription found min max with
      | .ok d => oneDisplay src E "invalid item count" es [errorHighlight es d]
      | .panic => .panic)
  | .recover => none
  | .probe _ => none

/-- the trait's default `into_source_error`: `SourceError::new(source, format!("{self}"))` -/
def defaultReport (E : Env) (e : PErr) : Res CodeDisplay :=
  match displayErr E e with
  | .ok msg => .ok (sourceError msg [])
  | .panic => .panic

/-- `Box<dyn ParseError>::into_source_error(source)`.  A tagged error is a `Tagged`, which
keeps the default. -/
def reportOf (src : Source) (E : Env) (e : PErr) : Res CodeDisplay :=
  if e.trail.isEmpty then
    match ownReport src E e.body with
    | some r => r
    | none => defaultReport E e
  else defaultReport E e

/-- `format!("{}", err.into_source_error(source).with_color(false))` -/
def renderError (src : Source) (E : Env) (e : PErr) : Res String :=
  match reportOf src E e with
  | .ok cd => writeCodeDisplay plainPaint src { cd with colorEnabled := false }
  | .panic => .panic

/-! ### the harness's instance -/

/-- harness/src/scan.rs `kind_name` (`Display for Tok`).  Kinds 15..99 are never produced (the
Rust would underflow there). -/
def harnessTokName (k : Nat) : String :=
  match k with
  | 0 => "a" | 1 => "b" | 2 => "c" | 3 => "d" | 4 => "," | 5 => ";" | 6 => "(" | 7 => ")"
  | 8 => "[" | 9 => "]" | 10 => "{" | 11 => "}" | 12 => "ws" | 13 => "aa" | 14 => "#"
  | k => "other" ++ toString (k - 100)

/-- The text of `Expected::Other` is abstracted: the harness replaces it by `<pred>` in the
observed report (it is the `Debug` rendering of `simple_predicates::DnfVec`, not modelled). -/
def harnessEnv : Env := ⟨harnessTokName, "<pred>", none⟩

/-- code points, dot separated (as the `render` family) -/
def encode (s : String) : String :=
  if s.isEmpty then "-" else ".".intercalate (s.toList.map fun ch => toString ch.toNat)

end Tephra.Report
