/-
  Driver — the model side of the line protocol.

  stdin:  one case per line, TAB separated:  family, input fields…, implementation observation
  stdout: one line per case:  model observation TAB verdict
          verdict = `ok` | `SKIP …` | `FAIL <which clause of the executable statement>`
  The verdict is the property's executable statement evaluated on what the
  *implementation* returned; the model observation is what the Lean model of
  the code returns on the same input.
-/
import TephraModel.Fam.SpanOps
import TephraModel.Fam.Nav
import TephraModel.Fam.Lines
import TephraModel.Fam.Lex
import TephraModel.Fam.Run
import TephraModel.Fam.Oracles
import TephraModel.Fam.Render

open Tephra

def handle (line : String) : String :=
  match line.splitOn "\t" with
  | fam :: fields =>
    let (m, v) :=
      if fam == "spanops" then Fam.SpanOps.run fields
      else if fam == "nav" then Fam.Nav.run fields
      else if fam == "lines" then Fam.Lines.run fields
      else if fam == "window" then Fam.Window.run fields
      else if fam == "lexiter" then Fam.Lex.runIter fields
      else if fam == "lexops" then Fam.Lex.runOps fields
      else if fam == "lexdisp" then Fam.Lex.runDisp fields
      else if fam == "render" then Fam.RenderF.run false fields
      else if fam == "rendercolor" then Fam.RenderF.run true fields
      else if ["peg", "rep", "capture", "errors", "bracket", "list", "recover", "twice", "scoped", "ctxops",
               "term", "nopanic"].contains fam then Fam.Oracles.run fam fields
      else ("?", "FAIL unknown family " ++ fam)
    m ++ "\t" ++ v
  | [] => "?\tFAIL empty line"

partial def loop (h : IO.FS.Stream) (out : IO.FS.Stream) : IO Unit := do
  let line ← h.getLine
  if line.isEmpty then return ()
  let line := (line.dropEndWhile (fun (c : Char) => c == (Char.ofNat 10) || c == (Char.ofNat 13))).toString
  out.putStrLn (handle line)
  loop h out

def main : IO Unit := do
  let stdin ← IO.getStdin
  let stdout ← IO.getStdout
  loop stdin stdout
