/-
  Forward measurement = canonical position (foundation of C03, C19, C18, C20).
-/
import TephraModel.Spec.Nav

namespace Tephra
open Tephra.Spec

theorem stripCodes_append {t rest : Text} {ks : List Nat} (h : stripCodes t ks = some rest) :
    t = t.take ks.length ++ rest ∧ (t.take ks.length).map (·.code) = ks := by
  induction ks generalizing t with
  | nil => simp [stripCodes] at h; simp [h]
  | cons k ks ih =>
    cases t with
    | nil => simp [stripCodes] at h
    | cons c r =>
      simp only [stripCodes] at h
      split at h
      · rename_i hc
        obtain ⟨h1, h2⟩ := ih h
        constructor
        · simp; exact h1
        · simp [hc, h2]
      · simp at h

/-- Under WF, the bytes of a matched line ending equal `lbLen`. -/
theorem breakAt_bytes {m : Metrics} {suf rest : Text} (hwf : Text.WF suf)
    (h : breakAt m suf = some rest) : bytes suf = lbLen m + bytes rest := by
  unfold breakAt at h
  obtain ⟨h1, h2⟩ := stripCodes_append h
  have hl : ∀ (l : Text), (∀ c ∈ l, c.WF) → (∀ c ∈ l, c.code = 10 ∨ c.code = 13) → bytes l = l.length := by
    intro l
    induction l with
    | nil => intros; simp [bytes]
    | cons c r ih =>
      intro hw hc
      have := (hw c (by simp)).2 (by have := hc c (by simp); omega)
      have ih' := ih (fun x hx => hw x (by simp [hx])) (fun x hx => hc x (by simp [hx]))
      simp [bytes] at ih' ⊢; omega
  have hcodes : ∀ c ∈ suf.take (lbCodes m).length, c.code = 10 ∨ c.code = 13 := by
    intro c hc
    have : c.code ∈ (suf.take (lbCodes m).length).map (·.code) := List.mem_map_of_mem hc
    rw [h2] at this
    unfold lbCodes at this; split at this <;> simp at this <;> omega
  have hwf' : ∀ c ∈ suf.take (lbCodes m).length, c.WF := fun c hc => hwf c (List.mem_of_mem_take hc)
  have hb := hl _ hwf' hcodes
  have hlen : (suf.take (lbCodes m).length).length = (lbCodes m).length := by
    have := congrArg List.length h2; simpa using this
  have hsplit : bytes suf = bytes (suf.take (lbCodes m).length) + bytes rest := by
    have := congrArg bytes h1
    simpa [bytes, List.map_append, List.sum_append] using this
  rw [hsplit, hb, hlen]; rfl

theorem linesOf_ne_nil (m : Metrics) (t : Text) : linesOf m t ≠ [] := by
  fun_induction linesOf m t <;> simp_all

theorem linesOf_break {m : Metrics} {t rest : Text}
    (h : breakAt m t = some rest) : linesOf m t = [] :: linesOf m rest := by
  cases t with
  | nil => unfold breakAt lbCodes at h; split at h <;> simp [stripCodes] at h
  | cons c r =>
    rw [linesOf]
    split
    · rename_i r' hb
      rw [h] at hb; simp at hb; subst hb; rfl
    · rename_i hb; rw [h] at hb; simp at hb

theorem linesOf_nobreak {m : Metrics} {c : Ch} {r : Text}
    (h : breakAt m (c :: r) = none) :
    ∃ l ls, linesOf m r = l :: ls ∧ linesOf m (c :: r) = (c :: l) :: ls := by
  have hne := linesOf_ne_nil m r
  cases hl : linesOf m r with
  | nil => exact absurd hl hne
  | cons l ls =>
    refine ⟨l, ls, rfl, ?_⟩
    rw [linesOf]
    split
    · rename_i hb; rw [h] at hb; simp at hb
    · simp [hl]

theorem canonFrom_break {m : Metrics} {p : Pos} {t rest : Text} (hwf : Text.WF t)
    (h : breakAt m t = some rest) :
    canonFrom m p t = canonFrom m { byte := p.byte + lbLen m, line := p.line + 1, col := 0 } rest := by
  have hne := linesOf_ne_nil m rest
  simp only [canonFrom, linesOf_break h, breakAt_bytes hwf h]
  cases hl : linesOf m rest with
  | nil => exact absurd hl hne
  | cons l ls =>
    cases ls <;> simp <;> omega

theorem canonFrom_nobreak {m : Metrics} {p : Pos} {c : Ch} {r : Text} (hwf : c.WF)
    (h : breakAt m (c :: r) = none) :
    canonFrom m p (c :: r) = canonFrom m (stepCh m p c) r := by
  obtain ⟨l, ls, h1, h2⟩ := linesOf_nobreak h
  have hs : c.code = 9 → c.size = 1 := fun h9 => hwf.2 (Or.inl h9)
  simp only [canonFrom, h1, h2]
  cases ls with
  | nil =>
    simp [stepCh, bytes, colWidth]
    split
    · rename_i h9; simp [hs h9]; omega
    · simp; omega
  | cons l' ls' =>
    simp [stepCh, bytes]
    split
    · rename_i h9; simp [hs h9]; omega
    · simp; omega

/-- `end_position` from `p` over `t` is the canonical position after `t`. -/
theorem endSuf_eq_canonFrom (m : Metrics) (p : Pos) (t : Text) (hwf : Text.WF t) :
    endSuf m p t = canonFrom m p t := by
  fun_induction endSuf m p t with
  | case1 p suf h =>
    unfold stepSuf at h
    split at h
    · simp at h
    · split at h
      · simp [canonFrom, linesOf, bytes, colWidth]
      · simp at h
  | case2 p suf q rest h ih =>
    unfold stepSuf at h
    split at h
    · rename_i r hb
      simp at h; obtain ⟨rfl, rfl⟩ := h
      have hwr : Text.WF r := by
        obtain ⟨h1, _⟩ := stripCodes_append hb
        intro c hc; apply hwf; rw [h1]; simp [hc]
      rw [ih hwr]
      exact (canonFrom_break hwf hb).symm
    · rename_i hb
      split at h
      · simp at h
      · rename_i c r
        simp at h; obtain ⟨rfl, rfl⟩ := h
        have hwr : Text.WF r := fun x hx => hwf x (by simp [hx])
        rw [ih hwr]
        exact (canonFrom_nobreak (hwf c (by simp)) hb).symm

end Tephra
