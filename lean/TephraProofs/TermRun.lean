/-
  TephraProofs.TermRun — C02, part 2 (continued): `run` and every loop of the
  mutual block return, on success, a well-formed lexer that is not behind the
  one they were given (`OkC`).  Induction on the fuel, all functions at once
  (`CurAt`), one lemma per constructor.
-/
import TephraProofs.TermCursor

set_option linter.unusedVariables false

namespace Tephra.Term
open Tephra

variable {R : RunEnv} {m : Metrics} {len : Nat}

/-- `OkC` for every fuelled function at fuel `n`. -/
structure CurAt (R : RunEnv) (m : Metrics) (len : Nat) (n : Nat) : Prop where
  run : ∀ g lx ctx W, WF m len lx → OkC m len lx (run R n g lx ctx W)
  listLoop : ∀ v id lo hi a sep abort lexer ctx W vals, WF m len lexer →
    OkC m len lexer (listLoop R n v id lo hi a sep abort lexer ctx W vals)
  stabValue : ∀ dv id pat body lx ctx res W, WF m len lx → OkC m len lx (res, W) →
    OkC m len lx (stabValue R n dv id pat body lx ctx res W)
  recoverDefault : ∀ dv id r body lx ctx W, WF m len lx → OkC m len lx (recoverDefault R n dv id r body lx ctx W)
  stabLoop : ∀ a lx ctx res W, WF m len lx → OkC m len lx (res, W) → OkC m len lx (stabLoop R n a lx ctx res W)
  untilStart : ∀ lo hi stop a sep lx ctx W, WF m len lx → OkC m len lx (untilStart R n lo hi stop a sep lx ctx W)
  untilLoop : ∀ lo hi stop a sep vals lx ctx W, WF m len lx →
    OkC m len lx (untilLoop R n lo hi stop a sep vals lx ctx W)
  sepItem : ∀ a sep lx ctx W, WF m len lx → OkC m len lx (sepItem R n a sep lx ctx W)
  interLoopStart : ∀ lo hi a sep lx ctx W, WF m len lx → OkC m len lx (interLoopStart R n lo hi a sep lx ctx W)
  interLoop : ∀ lo hi a sep vals lx ctx W, WF m len lx → OkC m len lx (interLoop R n lo hi a sep vals lx ctx W)

theorem not_ok_absurd {r : RRes × World} {v l} (h : r.1 = .ok v l)
    (hn : ∀ v l W, r = (.ok v l, W) → False) : False :=
  hn v l r.2 (by cases r; simp_all)

/-- split along the computation, then close each path. -/
macro "cur_tac" : tactic => `(tactic|
  (first | done | ((repeat' split at $(Lean.mkIdent `h):ident) <;> grind [OkC_ok])))

theorem run_cur_empty {n} (ok : ScanOK R.E m len) (ih : CurAt R m len n)  :
    ∀ lx ctx W, WF m len lx → OkC m len lx (run R (n+1) (.empty ) lx ctx W) := by
  obtain ⟨h1, h2, h3, h4, h5, h6, h7, h8, h9, h10⟩ := ih
  obtain ⟨f1, f2, f3, f4, f5, f6⟩ := lexFacts ok
  intro lx ctx W wf v lx' h
  simp only [run] at h
  cur_tac

theorem run_cur_one {n} (ok : ScanOK R.E m len) (ih : CurAt R m len n) {k} :
    ∀ lx ctx W, WF m len lx → OkC m len lx (run R (n+1) (.one k) lx ctx W) := by
  obtain ⟨h1, h2, h3, h4, h5, h6, h7, h8, h9, h10⟩ := ih
  obtain ⟨f1, f2, f3, f4, f5, f6⟩ := lexFacts ok
  intro lx ctx W wf v lx' h
  simp only [run] at h
  cur_tac

theorem run_cur_any {n} (ok : ScanOK R.E m len) (ih : CurAt R m len n) {ks} :
    ∀ lx ctx W, WF m len lx → OkC m len lx (run R (n+1) (.any ks) lx ctx W) := by
  obtain ⟨h1, h2, h3, h4, h5, h6, h7, h8, h9, h10⟩ := ih
  obtain ⟨f1, f2, f3, f4, f5, f6⟩ := lexFacts ok
  intro lx ctx W wf v lx' h
  simp only [run] at h
  cur_tac

theorem run_cur_anyIndex {n} (ok : ScanOK R.E m len) (ih : CurAt R m len n) {ks} :
    ∀ lx ctx W, WF m len lx → OkC m len lx (run R (n+1) (.anyIndex ks) lx ctx W) := by
  obtain ⟨h1, h2, h3, h4, h5, h6, h7, h8, h9, h10⟩ := ih
  obtain ⟨f1, f2, f3, f4, f5, f6⟩ := lexFacts ok
  intro lx ctx W wf v lx' h
  simp only [run] at h
  cur_tac

theorem run_cur_seq {n} (ok : ScanOK R.E m len) (ih : CurAt R m len n) {ks} :
    ∀ lx ctx W, WF m len lx → OkC m len lx (run R (n+1) (.seq ks) lx ctx W) := by
  obtain ⟨h1, h2, h3, h4, h5, h6, h7, h8, h9, h10⟩ := ih
  obtain ⟨f1, f2, f3, f4, f5, f6⟩ := lexFacts ok
  intro lx ctx W wf v lx' h
  simp only [run] at h
  exact seqLoop_cur ok _ _ _ _ W wf v lx' h

theorem run_cur_seqCount {n} (ok : ScanOK R.E m len) (ih : CurAt R m len n) {ks} :
    ∀ lx ctx W, WF m len lx → OkC m len lx (run R (n+1) (.seqCount ks) lx ctx W) := by
  obtain ⟨h1, h2, h3, h4, h5, h6, h7, h8, h9, h10⟩ := ih
  obtain ⟨f1, f2, f3, f4, f5, f6⟩ := lexFacts ok
  intro lx ctx W wf v lx' h
  simp only [run] at h
  exact seqCountLoop_cur ok _ _ _ _ W wf v lx' h

theorem run_cur_pred {n} (ok : ScanOK R.E m len) (ih : CurAt R m len n) {p} :
    ∀ lx ctx W, WF m len lx → OkC m len lx (run R (n+1) (.pred p) lx ctx W) := by
  obtain ⟨h1, h2, h3, h4, h5, h6, h7, h8, h9, h10⟩ := ih
  obtain ⟨f1, f2, f3, f4, f5, f6⟩ := lexFacts ok
  intro lx ctx W wf v lx' h
  simp only [run] at h
  cur_tac

theorem run_cur_endOfText {n} (ok : ScanOK R.E m len) (ih : CurAt R m len n)  :
    ∀ lx ctx W, WF m len lx → OkC m len lx (run R (n+1) (.endOfText ) lx ctx W) := by
  obtain ⟨h1, h2, h3, h4, h5, h6, h7, h8, h9, h10⟩ := ih
  obtain ⟨f1, f2, f3, f4, f5, f6⟩ := lexFacts ok
  intro lx ctx W wf v lx' h
  simp only [run] at h
  cur_tac

theorem run_cur_left {n} (ok : ScanOK R.E m len) (ih : CurAt R m len n) {a b} :
    ∀ lx ctx W, WF m len lx → OkC m len lx (run R (n+1) (.left a b) lx ctx W) := by
  obtain ⟨h1, h2, h3, h4, h5, h6, h7, h8, h9, h10⟩ := ih
  obtain ⟨f1, f2, f3, f4, f5, f6⟩ := lexFacts ok
  intro lx ctx W wf v lx' h
  simp only [run] at h
  cur_tac

theorem run_cur_right {n} (ok : ScanOK R.E m len) (ih : CurAt R m len n) {a b} :
    ∀ lx ctx W, WF m len lx → OkC m len lx (run R (n+1) (.right a b) lx ctx W) := by
  obtain ⟨h1, h2, h3, h4, h5, h6, h7, h8, h9, h10⟩ := ih
  obtain ⟨f1, f2, f3, f4, f5, f6⟩ := lexFacts ok
  intro lx ctx W wf v lx' h
  simp only [run] at h
  cur_tac

theorem run_cur_both {n} (ok : ScanOK R.E m len) (ih : CurAt R m len n) {a b} :
    ∀ lx ctx W, WF m len lx → OkC m len lx (run R (n+1) (.both a b) lx ctx W) := by
  obtain ⟨h1, h2, h3, h4, h5, h6, h7, h8, h9, h10⟩ := ih
  obtain ⟨f1, f2, f3, f4, f5, f6⟩ := lexFacts ok
  intro lx ctx W wf v lx' h
  simp only [run] at h
  cur_tac

theorem run_cur_center {n} (ok : ScanOK R.E m len) (ih : CurAt R m len n) {a b c} :
    ∀ lx ctx W, WF m len lx → OkC m len lx (run R (n+1) (.center a b c) lx ctx W) := by
  obtain ⟨h1, h2, h3, h4, h5, h6, h7, h8, h9, h10⟩ := ih
  obtain ⟨f1, f2, f3, f4, f5, f6⟩ := lexFacts ok
  intro lx ctx W wf v lx' h
  simp only [run] at h
  cur_tac

theorem run_cur_map {n} (ok : ScanOK R.E m len) (ih : CurAt R m len n) {a} :
    ∀ lx ctx W, WF m len lx → OkC m len lx (run R (n+1) (.map a) lx ctx W) := by
  obtain ⟨h1, h2, h3, h4, h5, h6, h7, h8, h9, h10⟩ := ih
  obtain ⟨f1, f2, f3, f4, f5, f6⟩ := lexFacts ok
  intro lx ctx W wf v lx' h
  simp only [run] at h
  cur_tac

theorem run_cur_discard {n} (ok : ScanOK R.E m len) (ih : CurAt R m len n) {a} :
    ∀ lx ctx W, WF m len lx → OkC m len lx (run R (n+1) (.discard a) lx ctx W) := by
  obtain ⟨h1, h2, h3, h4, h5, h6, h7, h8, h9, h10⟩ := ih
  obtain ⟨f1, f2, f3, f4, f5, f6⟩ := lexFacts ok
  intro lx ctx W wf v lx' h
  simp only [run] at h
  cur_tac

theorem run_cur_either {n} (ok : ScanOK R.E m len) (ih : CurAt R m len n) {a b} :
    ∀ lx ctx W, WF m len lx → OkC m len lx (run R (n+1) (.either a b) lx ctx W) := by
  obtain ⟨h1, h2, h3, h4, h5, h6, h7, h8, h9, h10⟩ := ih
  obtain ⟨f1, f2, f3, f4, f5, f6⟩ := lexFacts ok
  intro lx ctx W wf v lx' h
  simp only [run] at h
  cur_tac

theorem run_cur_maybe {n} (ok : ScanOK R.E m len) (ih : CurAt R m len n) {a} :
    ∀ lx ctx W, WF m len lx → OkC m len lx (run R (n+1) (.maybe a) lx ctx W) := by
  obtain ⟨h1, h2, h3, h4, h5, h6, h7, h8, h9, h10⟩ := ih
  obtain ⟨f1, f2, f3, f4, f5, f6⟩ := lexFacts ok
  intro lx ctx W wf v lx' h
  simp only [run] at h
  cur_tac

theorem run_cur_requireIf {n} (ok : ScanOK R.E m len) (ih : CurAt R m len n) {flag a} :
    ∀ lx ctx W, WF m len lx → OkC m len lx (run R (n+1) (.requireIf flag a) lx ctx W) := by
  obtain ⟨h1, h2, h3, h4, h5, h6, h7, h8, h9, h10⟩ := ih
  obtain ⟨f1, f2, f3, f4, f5, f6⟩ := lexFacts ok
  intro lx ctx W wf v lx' h
  simp only [run] at h
  cur_tac

theorem run_cur_cond {n} (ok : ScanOK R.E m len) (ih : CurAt R m len n) {flag a} :
    ∀ lx ctx W, WF m len lx → OkC m len lx (run R (n+1) (.cond flag a) lx ctx W) := by
  obtain ⟨h1, h2, h3, h4, h5, h6, h7, h8, h9, h10⟩ := ih
  obtain ⟨f1, f2, f3, f4, f5, f6⟩ := lexFacts ok
  intro lx ctx W wf v lx' h
  simp only [run] at h
  cur_tac

theorem run_cur_implies {n} (ok : ScanOK R.E m len) (ih : CurAt R m len n) {a b} :
    ∀ lx ctx W, WF m len lx → OkC m len lx (run R (n+1) (.implies a b) lx ctx W) := by
  obtain ⟨h1, h2, h3, h4, h5, h6, h7, h8, h9, h10⟩ := ih
  obtain ⟨f1, f2, f3, f4, f5, f6⟩ := lexFacts ok
  intro lx ctx W wf v lx' h
  simp only [run] at h
  cur_tac

theorem run_cur_antecedent {n} (ok : ScanOK R.E m len) (ih : CurAt R m len n) {a b} :
    ∀ lx ctx W, WF m len lx → OkC m len lx (run R (n+1) (.antecedent a b) lx ctx W) := by
  obtain ⟨h1, h2, h3, h4, h5, h6, h7, h8, h9, h10⟩ := ih
  obtain ⟨f1, f2, f3, f4, f5, f6⟩ := lexFacts ok
  intro lx ctx W wf v lx' h
  simp only [run] at h
  cur_tac

theorem run_cur_consequent {n} (ok : ScanOK R.E m len) (ih : CurAt R m len n) {a b} :
    ∀ lx ctx W, WF m len lx → OkC m len lx (run R (n+1) (.consequent a b) lx ctx W) := by
  obtain ⟨h1, h2, h3, h4, h5, h6, h7, h8, h9, h10⟩ := ih
  obtain ⟨f1, f2, f3, f4, f5, f6⟩ := lexFacts ok
  intro lx ctx W wf v lx' h
  simp only [run] at h
  cur_tac

theorem run_cur_condImplies {n} (ok : ScanOK R.E m len) (ih : CurAt R m len n) {a k b} :
    ∀ lx ctx W, WF m len lx → OkC m len lx (run R (n+1) (.condImplies a k b) lx ctx W) := by
  obtain ⟨h1, h2, h3, h4, h5, h6, h7, h8, h9, h10⟩ := ih
  obtain ⟨f1, f2, f3, f4, f5, f6⟩ := lexFacts ok
  intro lx ctx W wf v lx' h
  simp only [run] at h
  cur_tac

theorem run_cur_filterWith {n} (ok : ScanOK R.E m len) (ih : CurAt R m len n) {mask a} :
    ∀ lx ctx W, WF m len lx → OkC m len lx (run R (n+1) (.filterWith mask a) lx ctx W) := by
  obtain ⟨h1, h2, h3, h4, h5, h6, h7, h8, h9, h10⟩ := ih
  obtain ⟨f1, f2, f3, f4, f5, f6⟩ := lexFacts ok
  intro lx ctx W wf v lx' h
  simp only [run] at h
  cur_tac

theorem run_cur_unfiltered {n} (ok : ScanOK R.E m len) (ih : CurAt R m len n) {a} :
    ∀ lx ctx W, WF m len lx → OkC m len lx (run R (n+1) (.unfiltered a) lx ctx W) := by
  obtain ⟨h1, h2, h3, h4, h5, h6, h7, h8, h9, h10⟩ := ih
  obtain ⟨f1, f2, f3, f4, f5, f6⟩ := lexFacts ok
  intro lx ctx W wf v lx' h
  simp only [run] at h
  cur_tac

theorem run_cur_sub {n} (ok : ScanOK R.E m len) (ih : CurAt R m len n) {a} :
    ∀ lx ctx W, WF m len lx → OkC m len lx (run R (n+1) (.sub a) lx ctx W) := by
  obtain ⟨h1, h2, h3, h4, h5, h6, h7, h8, h9, h10⟩ := ih
  obtain ⟨f1, f2, f3, f4, f5, f6⟩ := lexFacts ok
  intro lx ctx W wf v lx' h
  simp only [run] at h
  cur_tac

theorem run_cur_spanned {n} (ok : ScanOK R.E m len) (ih : CurAt R m len n) {a} :
    ∀ lx ctx W, WF m len lx → OkC m len lx (run R (n+1) (.spanned a) lx ctx W) := by
  obtain ⟨h1, h2, h3, h4, h5, h6, h7, h8, h9, h10⟩ := ih
  obtain ⟨f1, f2, f3, f4, f5, f6⟩ := lexFacts ok
  intro lx ctx W wf v lx' h
  simp only [run] at h
  cur_tac

theorem run_cur_text {n} (ok : ScanOK R.E m len) (ih : CurAt R m len n) {a} :
    ∀ lx ctx W, WF m len lx → OkC m len lx (run R (n+1) (.text a) lx ctx W) := by
  obtain ⟨h1, h2, h3, h4, h5, h6, h7, h8, h9, h10⟩ := ih
  obtain ⟨f1, f2, f3, f4, f5, f6⟩ := lexFacts ok
  intro lx ctx W wf v lx' h
  simp only [run] at h
  cur_tac

theorem run_cur_repeat_ {n} (ok : ScanOK R.E m len) (ih : CurAt R m len n) {v lo hi a} :
    ∀ lx ctx W, WF m len lx → OkC m len lx (run R (n+1) (.repeat_ v lo hi a) lx ctx W) := by
  obtain ⟨h1, h2, h3, h4, h5, h6, h7, h8, h9, h10⟩ := ih
  obtain ⟨f1, f2, f3, f4, f5, f6⟩ := lexFacts ok
  intro lx ctx W wf v lx' h
  simp only [run] at h
  exact OkC_countOf (h9 _ _ _ _ _ _ _ wf) v lx' h

theorem run_cur_repeatUntil {n} (ok : ScanOK R.E m len) (ih : CurAt R m len n) {v lo hi stop a} :
    ∀ lx ctx W, WF m len lx → OkC m len lx (run R (n+1) (.repeatUntil v lo hi stop a) lx ctx W) := by
  obtain ⟨h1, h2, h3, h4, h5, h6, h7, h8, h9, h10⟩ := ih
  obtain ⟨f1, f2, f3, f4, f5, f6⟩ := lexFacts ok
  intro lx ctx W wf v lx' h
  simp only [run] at h
  exact OkC_countOf (h6 _ _ _ _ _ _ _ _ wf) v lx' h

theorem run_cur_intersperse {n} (ok : ScanOK R.E m len) (ih : CurAt R m len n) {v lo hi a sep} :
    ∀ lx ctx W, WF m len lx → OkC m len lx (run R (n+1) (.intersperse v lo hi a sep) lx ctx W) := by
  obtain ⟨h1, h2, h3, h4, h5, h6, h7, h8, h9, h10⟩ := ih
  obtain ⟨f1, f2, f3, f4, f5, f6⟩ := lexFacts ok
  intro lx ctx W wf v lx' h
  simp only [run] at h
  exact OkC_countOf (h9 _ _ _ _ _ _ _ wf) v lx' h

theorem run_cur_intersperseUntil {n} (ok : ScanOK R.E m len) (ih : CurAt R m len n) {v lo hi stop a sep} :
    ∀ lx ctx W, WF m len lx → OkC m len lx (run R (n+1) (.intersperseUntil v lo hi stop a sep) lx ctx W) := by
  obtain ⟨h1, h2, h3, h4, h5, h6, h7, h8, h9, h10⟩ := ih
  obtain ⟨f1, f2, f3, f4, f5, f6⟩ := lexFacts ok
  intro lx ctx W wf v lx' h
  simp only [run] at h
  exact OkC_countOf (h6 _ _ _ _ _ _ _ _ wf) v lx' h

theorem run_cur_intersperseDefault {n} (ok : ScanOK R.E m len) (ih : CurAt R m len n) {lo hi a sepk} :
    ∀ lx ctx W, WF m len lx → OkC m len lx (run R (n+1) (.intersperseDefault lo hi a sepk) lx ctx W) := by
  obtain ⟨h1, h2, h3, h4, h5, h6, h7, h8, h9, h10⟩ := ih
  obtain ⟨f1, f2, f3, f4, f5, f6⟩ := lexFacts ok
  intro lx ctx W wf v lx' h
  simp only [run] at h
  cur_tac

theorem run_cur_raw {n} (ok : ScanOK R.E m len) (ih : CurAt R m len n) {a} :
    ∀ lx ctx W, WF m len lx → OkC m len lx (run R (n+1) (.raw a) lx ctx W) := by
  obtain ⟨h1, h2, h3, h4, h5, h6, h7, h8, h9, h10⟩ := ih
  obtain ⟨f1, f2, f3, f4, f5, f6⟩ := lexFacts ok
  intro lx ctx W wf v lx' h
  simp only [run] at h
  cur_tac

theorem run_cur_unrecoverable {n} (ok : ScanOK R.E m len) (ih : CurAt R m len n) {a} :
    ∀ lx ctx W, WF m len lx → OkC m len lx (run R (n+1) (.unrecoverable a) lx ctx W) := by
  obtain ⟨h1, h2, h3, h4, h5, h6, h7, h8, h9, h10⟩ := ih
  obtain ⟨f1, f2, f3, f4, f5, f6⟩ := lexFacts ok
  intro lx ctx W wf v lx' h
  simp only [run] at h
  cur_tac

theorem run_cur_recover {n} (ok : ScanOK R.E m len) (ih : CurAt R m len n) {v id a r} :
    ∀ lx ctx W, WF m len lx → OkC m len lx (run R (n+1) (.recover v id a r) lx ctx W) := by
  obtain ⟨h1, h2, h3, h4, h5, h6, h7, h8, h9, h10⟩ := ih
  obtain ⟨f1, f2, f3, f4, f5, f6⟩ := lexFacts ok
  intro lx ctx W wf v lx' h
  simp only [run] at h
  cur_tac

theorem run_cur_stabilize {n} (ok : ScanOK R.E m len) (ih : CurAt R m len n) {a} :
    ∀ lx ctx W, WF m len lx → OkC m len lx (run R (n+1) (.stabilize a) lx ctx W) := by
  obtain ⟨h1, h2, h3, h4, h5, h6, h7, h8, h9, h10⟩ := ih
  obtain ⟨f1, f2, f3, f4, f5, f6⟩ := lexFacts ok
  intro lx ctx W wf v lx' h
  simp only [run] at h
  cur_tac

theorem run_cur_bracket {n} (ok : ScanOK R.E m len) (ih : CurAt R m len n) {v opens a closes abort} :
    ∀ lx ctx W, WF m len lx → OkC m len lx (run R (n+1) (.bracket v opens a closes abort) lx ctx W) := by
  obtain ⟨h1, h2, h3, h4, h5, h6, h7, h8, h9, h10⟩ := ih
  obtain ⟨f1, f2, f3, f4, f5, f6⟩ := lexFacts ok
  intro lx ctx W wf v lx' h
  simp only [run] at h
  split at h
  · cases h
  · split at h
    · cases h
    · cases h
    · cases h
    · next o c idx hm =>
      have hm' := matchLoop_cur ok opens closes abort _ lx _ lx none [] o c idx wf (Nat.le_refl _)
        (fun l hl => nomatch hl) hm
      have hn := f1 c hm'.2.1
      have hfin : WF m len (c.next R.E).2 ∧ lx.cursor.byte ≤ (c.next R.E).2.cursor.byte := ⟨hn.1, by omega⟩
      (repeat' split at h) <;> first | (cases h; exact hfin) | (cases h; done) | (exfalso; apply not_ok_absurd h; simp_all)

theorem run_cur_list {n} (ok : ScanOK R.E m len) (ih : CurAt R m len n) {v id lo hi a sep abort} :
    ∀ lx ctx W, WF m len lx → OkC m len lx (run R (n+1) (.list v id lo hi a sep abort) lx ctx W) := by
  obtain ⟨h1, h2, h3, h4, h5, h6, h7, h8, h9, h10⟩ := ih
  obtain ⟨f1, f2, f3, f4, f5, f6⟩ := lexFacts ok
  intro lx ctx W wf v lx' h
  simp only [run] at h
  cur_tac

theorem run_cur_upTo {n} (ok : ScanOK R.E m len) (ih : CurAt R m len n) {a abort} :
    ∀ lx ctx W, WF m len lx → OkC m len lx (run R (n+1) (.upTo a abort) lx ctx W) := by
  obtain ⟨h1, h2, h3, h4, h5, h6, h7, h8, h9, h10⟩ := ih
  obtain ⟨f1, f2, f3, f4, f5, f6⟩ := lexFacts ok
  intro lx ctx W wf v lx' h
  simp only [run] at h
  cur_tac

theorem run_cur_probe {n} (ok : ScanOK R.E m len) (ih : CurAt R m len n) {tag} :
    ∀ lx ctx W, WF m len lx → OkC m len lx (run R (n+1) (.probe tag) lx ctx W) := by
  obtain ⟨h1, h2, h3, h4, h5, h6, h7, h8, h9, h10⟩ := ih
  obtain ⟨f1, f2, f3, f4, f5, f6⟩ := lexFacts ok
  intro lx ctx W wf v lx' h
  simp only [run] at h
  cur_tac

theorem run_cur_ctxPushed {n} (ok : ScanOK R.E m len) (ih : CurAt R m len n) {tag a} :
    ∀ lx ctx W, WF m len lx → OkC m len lx (run R (n+1) (.ctxPushed tag a) lx ctx W) := by
  obtain ⟨h1, h2, h3, h4, h5, h6, h7, h8, h9, h10⟩ := ih
  obtain ⟨f1, f2, f3, f4, f5, f6⟩ := lexFacts ok
  intro lx ctx W wf v lx' h
  simp only [run] at h
  cur_tac

theorem run_cur_ctxPush {n} (ok : ScanOK R.E m len) (ih : CurAt R m len n) {tag a} :
    ∀ lx ctx W, WF m len lx → OkC m len lx (run R (n+1) (.ctxPush tag a) lx ctx W) := by
  obtain ⟨h1, h2, h3, h4, h5, h6, h7, h8, h9, h10⟩ := ih
  obtain ⟨f1, f2, f3, f4, f5, f6⟩ := lexFacts ok
  intro lx ctx W wf v lx' h
  simp only [run] at h
  cur_tac

theorem run_cur_ctxLocked {n} (ok : ScanOK R.E m len) (ih : CurAt R m len n) {flag a} :
    ∀ lx ctx W, WF m len lx → OkC m len lx (run R (n+1) (.ctxLocked flag a) lx ctx W) := by
  obtain ⟨h1, h2, h3, h4, h5, h6, h7, h8, h9, h10⟩ := ih
  obtain ⟨f1, f2, f3, f4, f5, f6⟩ := lexFacts ok
  intro lx ctx W wf v lx' h
  simp only [run] at h
  cur_tac

theorem run_cur_someOf {n} (ok : ScanOK R.E m len) (ih : CurAt R m len n) {a} :
    ∀ lx ctx W, WF m len lx → OkC m len lx (run R (n+1) (.someOf a) lx ctx W) := by
  obtain ⟨h1, h2, h3, h4, h5, h6, h7, h8, h9, h10⟩ := ih
  obtain ⟨f1, f2, f3, f4, f5, f6⟩ := lexFacts ok
  intro lx ctx W wf v lx' h
  simp only [run] at h
  cur_tac

/-! ### the loop functions -/

theorem advFact (ok : ScanOK R.E m len) : ∀ (lx : Lx) W lx1 W1, WF m len lx →
    advanceToRecover R lx W = (some lx1, W1) → WF m len lx1 ∧ lx.cursor.byte ≤ lx1.cursor.byte :=
  fun _ _ _ _ wf h => ⟨(advanceToRecover_wf ok wf h).1, (advanceToRecover_wf ok wf h).2.le⟩

theorem sepItem_cur {n} (ok : ScanOK R.E m len) (ih : CurAt R m len n) :
    ∀ a sep lx ctx W, WF m len lx → OkC m len lx (sepItem R (n+1) a sep lx ctx W) := by
  obtain ⟨h1, h2, h3, h4, h5, h6, h7, h8, h9, h10⟩ := ih
  intro a sep lx ctx W wf v lx' h
  simp only [sepItem] at h
  cur_tac

theorem interLoopStart_cur {n} (ok : ScanOK R.E m len) (ih : CurAt R m len n) :
    ∀ lo hi a sep lx ctx W, WF m len lx → OkC m len lx (interLoopStart R (n+1) lo hi a sep lx ctx W) := by
  obtain ⟨h1, h2, h3, h4, h5, h6, h7, h8, h9, h10⟩ := ih
  intro lo hi a sep lx ctx W wf v lx' h
  simp only [interLoopStart] at h
  cur_tac

theorem interLoop_cur {n} (ok : ScanOK R.E m len) (ih : CurAt R m len n) :
    ∀ lo hi a sep vals lx ctx W, WF m len lx → OkC m len lx (interLoop R (n+1) lo hi a sep vals lx ctx W) := by
  obtain ⟨h1, h2, h3, h4, h5, h6, h7, h8, h9, h10⟩ := ih
  intro lo hi a sep vals lx ctx W wf v lx' h
  simp only [interLoop] at h
  cur_tac

theorem untilStart_cur {n} (ok : ScanOK R.E m len) (ih : CurAt R m len n) :
    ∀ lo hi stop a sep lx ctx W, WF m len lx → OkC m len lx (untilStart R (n+1) lo hi stop a sep lx ctx W) := by
  obtain ⟨h1, h2, h3, h4, h5, h6, h7, h8, h9, h10⟩ := ih
  intro lo hi stop a sep lx ctx W wf v lx' h
  simp only [untilStart] at h
  cur_tac

theorem untilLoop_cur {n} (ok : ScanOK R.E m len) (ih : CurAt R m len n) :
    ∀ lo hi stop a sep vals lx ctx W, WF m len lx →
      OkC m len lx (untilLoop R (n+1) lo hi stop a sep vals lx ctx W) := by
  obtain ⟨h1, h2, h3, h4, h5, h6, h7, h8, h9, h10⟩ := ih
  intro lo hi stop a sep vals lx ctx W wf v lx' h
  simp only [untilLoop] at h
  cur_tac

theorem recoverDefault_cur {n} (ok : ScanOK R.E m len) (ih : CurAt R m len n) :
    ∀ dv id r body lx ctx W, WF m len lx → OkC m len lx (recoverDefault R (n+1) dv id r body lx ctx W) := by
  obtain ⟨h1, h2, h3, h4, h5, h6, h7, h8, h9, h10⟩ := ih
  obtain ⟨f1, f2, f3, f4, f5, f6⟩ := lexFacts ok
  have fA := advFact ok
  intro dv id r body lx ctx W wf v lx' h
  simp only [recoverDefault] at h
  cur_tac

theorem stabLoop_cur {n} (ok : ScanOK R.E m len) (ih : CurAt R m len n) :
    ∀ a lx ctx res W, WF m len lx → OkC m len lx (res, W) → OkC m len lx (stabLoop R (n+1) a lx ctx res W) := by
  obtain ⟨h1, h2, h3, h4, h5, h6, h7, h8, h9, h10⟩ := ih
  obtain ⟨f1, f2, f3, f4, f5, f6⟩ := lexFacts ok
  have fA := advFact ok
  intro a lx ctx res W wf hres
  cases res with
  | ok v0 l0 =>
    simp only [stabLoop, OkC_ok] at hres ⊢
    exact ⟨(f5 _ _ hres.1).1, hres.2⟩
  | panic => simp [stabLoop]
  | fuel => simp [stabLoop]
  | err e =>
    intro v lx' h
    simp only [stabLoop] at h
    split at h
    · next lx1 W1 hadv =>
      have ha := fA _ _ _ _ wf hadv
      split at h
      · cases h
      · have hr := h1 (.unrecoverable a) lx1 ctx W1 ha.1
        exact (h5 a lx1 ctx _ _ ha.1 hr).mono ha.2 v lx' h
    · cases h

theorem stabValue_cur {n} (ok : ScanOK R.E m len) (ih : CurAt R m len n) :
    ∀ dv id pat body lx ctx res W, WF m len lx → OkC m len lx (res, W) →
      OkC m len lx (stabValue R (n+1) dv id pat body lx ctx res W) := by
  obtain ⟨h1, h2, h3, h4, h5, h6, h7, h8, h9, h10⟩ := ih
  obtain ⟨f1, f2, f3, f4, f5, f6⟩ := lexFacts ok
  have fA := advFact ok
  intro dv id pat body lx ctx res W wf hres
  cases res with
  | ok v0 l0 =>
    simp only [stabValue, OkC_ok] at hres ⊢
    exact ⟨(f5 _ _ hres.1).1, hres.2⟩
  | panic => simp [stabValue]
  | fuel => simp [stabValue]
  | err e =>
    intro v lx' h
    simp only [stabValue] at h
    split at h
    · next lx1 W1 hadv =>
      have ha := fA _ _ _ _ wf hadv
      split at h
      · cases h
      · have hr := h4 dv id pat body lx1 ctx.withoutSink W1 ha.1
        exact (h3 dv id pat body lx1 ctx _ _ ha.1 hr).mono ha.2 v lx' h
    · cases h

theorem listFinish_cur {ctx lo hi} {lexer0 lexer : Lx} {vals W} (wf : WF m len lexer)
    (hle : lexer0.cursor.byte ≤ lexer.cursor.byte) : OkC m len lexer0 (listFinish ctx lo hi lexer vals W) := by
  unfold listFinish
  repeat' split
  all_goals simp [wf, hle]

theorem listLoop_cur {n} (ok : ScanOK R.E m len) (ih : CurAt R m len n) :
    ∀ v id lo hi a sep abort lexer ctx W vals, WF m len lexer →
      OkC m len lexer (listLoop R (n+1) v id lo hi a sep abort lexer ctx W vals) := by
  obtain ⟨h1, h2, h3, h4, h5, h6, h7, h8, h9, h10⟩ := ih
  obtain ⟨f1, f2, f3, f4, f5, f6⟩ := lexFacts ok
  intro v id lo hi a sep abort lexer ctx W vals wf
  rw [listLoop_succ]
  have hp := f2 lexer wf
  split
  · next lexer' heq =>
    simp only [heq] at hp
    exact listFinish_cur hp.1 hp.2
  · next tok lexer' heq =>
    simp only [heq] at hp
    split
    · split
      · exact listFinish_cur hp.1 hp.2
      · split
        · exact listFinish_cur hp.1 hp.2
        · exact listFinish_cur hp.1 hp.2
        · next hn1 hn2 =>
          intro v' l' h
          exfalso
          exact not_ok_absurd h (by intro v l W' e; cases v <;> simp_all)
    · have hrd := h4 (listDv v) id (.sepOrAbort sep abort) (listItem v a sep abort) lexer' ctx W hp.1
      have hsv := h3 (listDv v) id (.sepOrAbort sep abort) (listItem v a sep abort) lexer' ctx _ _ hp.1 hrd
      split
      · next x lexer1 W1 hs =>
        rw [hs] at hsv
        simp only [OkC_ok] at hsv
        have hp1 := f2 lexer1 hsv.1
        split
        · exact listFinish_cur hsv.1 (by omega)
        · split
          · next lexer2 heq2 =>
            simp only [heq2] at hp1
            exact listFinish_cur hp1.1 (by omega)
          · next t2 lexer2 heq2 =>
            simp only [heq2] at hp1
            split
            · exact listFinish_cur hp1.1 (by omega)
            · split
              · exact listFinish_cur hp1.1 (by omega)
              · have hr2 := h4 .dflt id (.sepOrAbort sep abort) (.discard (.one sep)) lexer2 ctx W1 hp1.1
                split
                · next v3 lexer3 W2 heq3 =>
                  rw [heq3] at hr2
                  simp only [OkC_ok] at hr2
                  have hs3 := f4 lexer3 hr2.1
                  exact (h2 v id lo hi a sep abort _ ctx W2 (x :: vals) hs3.1).mono (by omega)
                · next hn =>
                  intro v' l' h
                  exfalso
                  exact not_ok_absurd h (by intro v l W' e; exact hn _ _ _ e)
      · next hn =>
        intro v' l' h
        exfalso
        exact not_ok_absurd h (by intro v l W' e; exact hn _ _ _ e)

theorem run_cur {n} (ok : ScanOK R.E m len) (ih : CurAt R m len n) : ∀ g lx ctx W, WF m len lx →
    OkC m len lx (run R (n+1) g lx ctx W) := by
  intro g
  cases g
  · exact run_cur_empty ok ih
  · exact run_cur_one ok ih
  · exact run_cur_any ok ih
  · exact run_cur_anyIndex ok ih
  · exact run_cur_seq ok ih
  · exact run_cur_seqCount ok ih
  · exact run_cur_pred ok ih
  · exact run_cur_endOfText ok ih
  · exact run_cur_left ok ih
  · exact run_cur_right ok ih
  · exact run_cur_both ok ih
  · exact run_cur_center ok ih
  · exact run_cur_map ok ih
  · exact run_cur_discard ok ih
  · exact run_cur_either ok ih
  · exact run_cur_maybe ok ih
  · exact run_cur_requireIf ok ih
  · exact run_cur_cond ok ih
  · exact run_cur_implies ok ih
  · exact run_cur_antecedent ok ih
  · exact run_cur_consequent ok ih
  · exact run_cur_condImplies ok ih
  · exact run_cur_filterWith ok ih
  · exact run_cur_unfiltered ok ih
  · exact run_cur_sub ok ih
  · exact run_cur_spanned ok ih
  · exact run_cur_text ok ih
  · exact run_cur_repeat_ ok ih
  · exact run_cur_repeatUntil ok ih
  · exact run_cur_intersperse ok ih
  · exact run_cur_intersperseUntil ok ih
  · exact run_cur_intersperseDefault ok ih
  · exact run_cur_raw ok ih
  · exact run_cur_unrecoverable ok ih
  · exact run_cur_recover ok ih
  · exact run_cur_stabilize ok ih
  · exact run_cur_bracket ok ih
  · exact run_cur_list ok ih
  · exact run_cur_upTo ok ih
  · exact run_cur_probe ok ih
  · exact run_cur_ctxPushed ok ih
  · exact run_cur_ctxPush ok ih
  · exact run_cur_ctxLocked ok ih
  · exact run_cur_someOf ok ih

theorem cur_step {n} (ok : ScanOK R.E m len) (ih : CurAt R m len n) : CurAt R m len (n+1) :=
  ⟨run_cur ok ih, listLoop_cur ok ih, stabValue_cur ok ih, recoverDefault_cur ok ih, stabLoop_cur ok ih,
   untilStart_cur ok ih, untilLoop_cur ok ih, sepItem_cur ok ih, interLoopStart_cur ok ih, interLoop_cur ok ih⟩

theorem cur_zero : CurAt R m len 0 := by
  constructor <;> intros <;> simp [run, listLoop, stabValue, recoverDefault, stabLoop, untilStart, untilLoop,
    sepItem, interLoopStart, interLoop]

theorem cur_all (ok : ScanOK R.E m len) : ∀ n, CurAt R m len n := by
  intro n
  induction n with
  | zero => exact cur_zero
  | succ n ih => exact cur_step ok ih

/-- **Cursor monotonicity of `run`**: a successful parse returns a well-formed
lexer that is not behind the one it was given (and inside the text). -/
theorem run_cursor_mono (ok : ScanOK R.E m len) (n : Nat) (g : G) (lx : Lx) (ctx : Ctx) (W : World)
    (wf : WF m len lx) {v lx'} (h : (run R n g lx ctx W).1 = .ok v lx') :
    WF m len lx' ∧ lx.cursor.byte ≤ lx'.cursor.byte ∧ lx'.cursor.byte ≤ len :=
  have := (cur_all ok n).run g lx ctx W wf v lx' h
  ⟨this.1, this.2, this.1.cur⟩

end Tephra.Term
