/-
  Lemmas for C20: a window (`SourceText::clipped`) onto part of a parent text
  answers with the parent's positions.
-/
import TephraProofs.Lines

set_option linter.unusedSimpArgs false
set_option linter.unusedSectionVars false
set_option linter.unusedVariables false

namespace Tephra.LinesPf
open Tephra.Spec

/-! ### `clipped` -/

theorem colWidth_ge (tab : Nat) (l : Text) (c0 : Nat) : c0 ≤ colWidth tab c0 l := by
  induction l generalizing c0 with
  | nil => simp [colWidth]
  | cons c r ih =>
    simp only [colWidth, List.foldl_cons] at ih ⊢
    split
    · exact Nat.le_trans (Nat.le_add_right _ _) (ih _)
    · exact Nat.le_trans (Nat.le_add_right _ _) (ih _)

theorem pageLe_canonFrom (m : Metrics) (p : Pos) (y : Text) :
    Pos.pageLe p (canonFrom m p y) = true := by
  have hpos := linesOf_length_pos m y
  simp only [Pos.pageLe, canonFrom]
  by_cases h1 : (linesOf m y).length = 1
  · have := colWidth_ge m.tab (linesOf m y).getLast! p.col
    simp only [h1, if_true, Nat.sub_self, Nat.add_zero, Nat.lt_irrefl, beq_self_eq_true,
      Bool.true_and, Bool.false_or, decide_eq_true_eq, decide_false]
    exact this
  · have : p.line < p.line + ((linesOf m y).length - 1) := by omega
    simp [this]

theorem pageLe_zero (p : Pos) : Pos.pageLe Pos.zero p = true := by
  cases p with
  | mk b l c =>
    cases l with
    | zero => simp [Pos.pageLe, Pos.zero]
    | succ n => simp [Pos.pageLe, Pos.zero]

theorem src_end {m : Metrics} {t : Text} (hwf : Text.WF t) :
    Source.endPosition ⟨t, m, Pos.zero⟩ = .ok (canon m t) := by
  have := win_end (m := m) (wa := []) (pre' := t) (by simpa using hwf) (by simp)
  simpa only [List.nil_append, canon_nil] using this

/-- the canonical position of every aligned cut of the parent is in bounds -/
theorem posInBounds_canon {m : Metrics} {x y : Text} (hwf : Text.WF (x ++ y))
    (ha : aligned m x y = true) :
    Source.posInBounds ⟨x ++ y, m, Pos.zero⟩ (canon m x) = .ok true := by
  unfold Source.posInBounds
  simp only [src_end hwf, Res.ok_bind, Res.pure_eq, pageLe_zero]
  have h1 : Pos.pageLe (canon m x) (canon m (x ++ y)) = true := by
    rw [canon_append hwf ha]; exact pageLe_canonFrom m _ y
  rw [h1]
  simp [Pos.zero]

theorem sliceBytes_mid {a mid z : Text} (hwf : Text.WF (a ++ mid)) :
    Source.sliceBytes (a ++ mid ++ z) (bytes a) (bytes (a ++ mid)) = .ok mid := by
  obtain ⟨hw1, hw2⟩ := Text.WF_append.mp hwf
  unfold Source.sliceBytes
  have h1 : ¬ bytes (a ++ mid) < bytes a := by simp
  have h2 : bytes (a ++ mid) - bytes a = bytes mid := by simp
  rw [if_neg h1, List.append_assoc, splitAtByte_append _ hw1]
  simp only [h2, splitAtByte_append _ hw2]

/-- `clipped` on a span between two aligned cuts is the window text at the span's start -/
theorem clipped_correct (m : Metrics) (wa wmid wz : Text) (hwf : Text.WF (wa ++ wmid ++ wz))
    (ha1 : aligned m wa (wmid ++ wz) = true) (ha2 : aligned m (wa ++ wmid) wz = true) :
    Source.clipped ⟨wa ++ wmid ++ wz, m, Pos.zero⟩ ⟨canon m wa, canon m (wa ++ wmid)⟩ =
      .ok ⟨wmid, m, canon m wa⟩ := by
  have hb1 : Source.posInBounds ⟨wa ++ wmid ++ wz, m, Pos.zero⟩ (canon m wa) = .ok true := by
    have := posInBounds_canon (m := m) (x := wa) (y := wmid ++ wz)
      (by simpa [List.append_assoc] using hwf) ha1
    simpa [List.append_assoc] using this
  have hb2 := posInBounds_canon (m := m) (x := wa ++ wmid) (y := wz) hwf ha2
  unfold Source.clipped
  simp only [hb1, hb2, Res.ok_bind, Res.pure_eq]
  simp only [Pos.zero, csub_zero, Res.ok_bind, canon_byte,
    sliceBytes_mid (z := wz) (Text.WF_append.mp hwf).1]
  simp

/-- what the window family observes, given the window source -/
def winObs (win : Source) (p : Pos) (sub : Span) : Fam.Window.Obs :=
  { text := .ok win.text
    start := .ok win.startPosition
    end_ := win.endPosition
    full := win.fullSpan
    next := win.nextPosition p
    prev := win.previousPosition p
    lineStart := win.lineStartPosition p
    lineEnd := win.lineEndPosition p
    prevLineEnd := win.previousLineEndPosition p
    nextLineStart := win.nextLineStartPosition p
    widen := sub.widenToLine win
    split := Fam.Window.collectSpans 64 (SplitLines.ofSpan sub win) }

theorem window_model_eq (m : Metrics) (wa wmid wz : Text) (hwf : Text.WF (wa ++ wmid ++ wz))
    (ha1 : aligned m wa (wmid ++ wz) = true) (ha2 : aligned m (wa ++ wmid) wz = true)
    (p : Pos) (sub : Span) :
    Fam.Window.model m (wa ++ wmid ++ wz) ⟨canon m wa, canon m (wa ++ wmid)⟩ p sub =
      .ok (winObs ⟨wmid, m, canon m wa⟩ p sub) := by
  simp only [Fam.Window.model, clipped_correct m wa wmid wz hwf ha1 ha2, winObs]

/-! ### spec side: units and current lines across an aligned cut -/

theorem firstUnit_append {m : Metrics} {s x : Text} (hs : s ≠ []) (ha : aligned m s x = true) :
    firstUnit m (s ++ x) = firstUnit m s := by
  cases hb : breakAt m s with
  | some rest =>
    obtain ⟨B, hB, hBc, hBl⟩ := breakAt_split hb
    simp only [firstUnit, hb, breakAt_append x hb]
    rw [hB]; simp
  | none =>
    cases s with
    | nil => exact absurd rfl hs
    | cons c r =>
      have := breakAt_none_append hb ha
      simp only [List.cons_append, firstUnit, hb, this]
      simp

theorem firstUnit_nil (m : Metrics) : firstUnit m [] = none := by
  simp [firstUnit, breakAt_nil]

/-- current line of `s ++ x` seen from the front -/
theorem curLineSuf_append {m : Metrics} {s x : Text} (ha : aligned m s x = true) :
    curLineSuf m (s ++ x) =
      if (linesOf m s).length = 1 then s ++ curLineSuf m x else curLineSuf m s := by
  obtain ⟨I, cl, hs⟩ := linesOf_concat m s
  cases hx : linesOf m x with
  | nil => exact absurd hx (linesOf_ne_nil m x)
  | cons h ts =>
    have := linesOf_append m s x I cl h ts ha hs hx
    cases I with
    | nil =>
      simp at hs this
      obtain ⟨rem, hr, hcase⟩ := linesOf_decomp m s cl [] hs
      have hscl : s = cl := by
        rcases hcase with ⟨hrem, _⟩ | ⟨rest, _, hls⟩
        · rw [hr, hrem]; simp
        · exact absurd hls.symm (linesOf_ne_nil m rest)
      rw [curLineSuf_eq this, curLineSuf_eq hx, hs, ← hscl]; simp
    | cons i I' =>
      simp at hs this
      rw [curLineSuf_eq this, curLineSuf_eq hs, hs]; simp

/-- current line of `x ++ y` seen from the back -/
theorem curLinePre_append {m : Metrics} {x y : Text} (ha : aligned m x y = true) :
    curLinePre m (x ++ y) =
      if (linesOf m y).length = 1 then curLinePre m x ++ y else curLinePre m y := by
  obtain ⟨I, cl, hx⟩ := linesOf_concat m x
  obtain ⟨h, ts, hy⟩ : ∃ h ts, linesOf m y = h :: ts := by
    cases hy : linesOf m y with
    | nil => exact absurd hy (linesOf_ne_nil m y)
    | cons h ts => exact ⟨h, ts, rfl⟩
  have := linesOf_append m x y I cl h ts ha hx hy
  rcases List.eq_nil_or_concat ts with rfl | ⟨ts', l', rfl⟩
  · obtain ⟨rem, hr, hcase⟩ := linesOf_decomp m y h [] hy
    have hyh : y = h := by
      rcases hcase with ⟨hrem, _⟩ | ⟨rest, _, hls⟩
      · rw [hr, hrem]; simp
      · exact absurd hls.symm (linesOf_ne_nil m rest)
    rw [curLinePre_eq (I := I) (cl := cl ++ h) this, curLinePre_eq hx, hy, ← hyh]; simp
  · rw [List.concat_eq_append] at this hy
    have e1 : I ++ (cl ++ h) :: (ts' ++ [l']) = (I ++ (cl ++ h) :: ts') ++ [l'] := by simp
    have e2 : h :: (ts' ++ [l']) = (h :: ts') ++ [l'] := by simp
    rw [e1] at this
    have hcy : curLinePre m y = l' := curLinePre_eq (I := h :: ts') (by rw [hy, e2])
    rw [curLinePre_eq this, hcy, hy]; simp

/-! ### fields of the window observation against `windowSpec` -/

section fields
variable {m : Metrics} {wa pre' suf' wz : Text}

theorem keepIfIn_some {w : Span} {q : Pos} (h1 : w.s.byte ≤ q.byte) (h2 : q.byte ≤ w.e.byte) :
    keepIfIn w (some q) = some q := by simp [keepIfIn, h1, h2]

theorem keepIfIn_some_gt {w : Span} {q : Pos} (h : w.e.byte < q.byte) :
    keepIfIn w (some q) = none := by
  simp [keepIfIn]; intro _; omega

theorem wfield_next (hwf : Text.WF (wa ++ (pre' ++ suf') ++ wz))
    (ha2 : aligned m (wa ++ (pre' ++ suf')) wz = true)
    (hap : aligned m (wa ++ pre') (suf' ++ wz) = true) :
    Source.nextPosition ⟨pre' ++ suf', m, canon m wa⟩ (canon m (wa ++ pre')) =
      .ok (keepIfIn ⟨canon m wa, canon m (wa ++ (pre' ++ suf'))⟩
        (navSpec m (wa ++ pre') (suf' ++ wz) [] (fun _ => true)).next) := by
  have hwf' : Text.WF (wa ++ pre' ++ suf') := by
    have := (Text.WF_append.mp hwf).1; simpa [List.append_assoc] using this
  rw [win_next hwf' (aligned_of_append_right hap)]
  simp only [navSpec]
  by_cases hs : suf' = []
  · subst hs
    simp only [firstUnit_nil, Option.map_none, List.nil_append, List.append_nil]
    cases hu : firstUnit m wz with
    | none => simp [keepIfIn]
    | some u =>
      obtain ⟨rest, hr, hne⟩ := firstUnit_prefix hu
      have hwu : Text.WF u := by
        have := (Text.WF_append.mp hwf).2; rw [hr] at this; exact (Text.WF_append.mp this).1
      have := bytes_pos hwu hne
      simp only [Option.map_some]
      rw [keepIfIn_some_gt (by simp; omega)]
  · have hal : aligned m suf' wz = true := by
      rw [← List.append_assoc] at ha2; exact aligned_of_append_left ha2
    rw [firstUnit_append hs hal]
    cases hu : firstUnit m suf' with
    | none => simp [keepIfIn]
    | some u =>
      obtain ⟨rest, hr, hne⟩ := firstUnit_prefix hu
      simp only [Option.map_some]
      rw [keepIfIn_some (by simp) (by rw [hr]; simp)]

theorem curLineSuf_of_single {m : Metrics} {s : Text} (h : (linesOf m s).length = 1) :
    curLineSuf m s = s := by
  obtain ⟨rem, hr, hcase⟩ := curLineSuf_prefix m s
  rcases hcase with ⟨hrem, _⟩ | ⟨rest, _, hls⟩
  · rw [hrem] at hr; simpa using hr.symm
  · rw [hls] at h; have := linesOf_ne_nil m rest; simp at h; exact absurd h this

theorem curLineSuf_length_le (m : Metrics) (s : Text) : bytes (curLineSuf m s) ≤ bytes s := by
  obtain ⟨rem, hr, _⟩ := curLineSuf_prefix m s
  have := congrArg bytes hr
  rw [bytes_append] at this; omega

theorem wfield_lineEnd (hwf : Text.WF (wa ++ (pre' ++ suf') ++ wz))
    (ha2 : aligned m (wa ++ (pre' ++ suf')) wz = true)
    (hap : aligned m (wa ++ pre') (suf' ++ wz) = true) :
    Source.lineEndPosition ⟨pre' ++ suf', m, canon m wa⟩ (canon m (wa ++ pre')) =
      .ok (clampHi ⟨canon m wa, canon m (wa ++ (pre' ++ suf'))⟩
        (navSpec m (wa ++ pre') (suf' ++ wz) [] (fun _ => true)).lineEnd) := by
  have hwf' : Text.WF (wa ++ pre' ++ suf') := by
    have := (Text.WF_append.mp hwf).1; simpa [List.append_assoc] using this
  have hal : aligned m suf' wz = true := by
    rw [← List.append_assoc] at ha2; exact aligned_of_append_left ha2
  rw [win_lineEnd hwf' (aligned_of_append_right hap)]
  simp only [navSpec, curLineSuf_append hal]
  have e : wa ++ (pre' ++ suf') = wa ++ pre' ++ suf' := by simp
  split
  · rename_i h1
    rw [curLineSuf_of_single h1]
    simp only [clampHi, canon_byte, bytes_append]
    split
    · rw [e]
    · rename_i hlt
      have hw : Text.WF (curLineSuf m wz) := by
        obtain ⟨rem, hr, _⟩ := curLineSuf_prefix m wz
        have := (Text.WF_append.mp hwf).2; rw [hr] at this; exact (Text.WF_append.mp this).1
      have : curLineSuf m wz = [] := bytes_eq_zero hw (by omega)
      rw [this]; simp
  · have := curLineSuf_length_le m suf'
    simp only [clampHi, canon_byte, bytes_append]
    rw [if_neg (by omega)]

theorem wfield_lineStart (hwf : Text.WF (wa ++ (pre' ++ suf') ++ wz))
    (ha1 : aligned m wa (pre' ++ suf' ++ wz) = true) :
    Source.lineStartPosition ⟨pre' ++ suf', m, canon m wa⟩ (canon m (wa ++ pre')) =
      .ok (clampLo ⟨canon m wa, canon m (wa ++ (pre' ++ suf'))⟩
        (navSpec m (wa ++ pre') (suf' ++ wz) [] (fun _ => true)).lineStart) := by
  have hwf' : Text.WF (wa ++ pre') := by
    have := (Text.WF_append.mp hwf).1
    rw [← List.append_assoc] at this; exact (Text.WF_append.mp this).1
  have hal : aligned m wa pre' = true := by
    rw [List.append_assoc] at ha1; exact aligned_of_append_right ha1
  rw [win_lineStart hwf' hal suf']
  simp only [navSpec, curLinePre_append hal]
  split
  · rename_i h1
    obtain ⟨wa0, cla, I, e1, _, _, _, _, e6, e7, _⟩ := last_split m wa
    have e : (wa ++ pre').take ((wa ++ pre').length - (curLinePre m wa ++ pre').length) = wa0 := by
      rw [← e7, e6]
      have : (wa ++ pre').length - (cla ++ pre').length = wa.length - cla.length := by
        simp; omega
      rw [this, List.take_append_of_le_length (by omega)]
    rw [e]
    simp only [clampLo, canon_byte]
    split
    · rfl
    · rename_i hlt
      have hwc : Text.WF cla := by
        have := (Text.WF_append.mp hwf').1; rw [e1] at this; exact (Text.WF_append.mp this).2
      have hb : bytes wa = bytes wa0 + bytes cla := by
        have := congrArg bytes e1; rwa [bytes_append] at this
      have : cla = [] := bytes_eq_zero hwc (by omega)
      rw [e1, this]; simp
  · obtain ⟨p0, cl, I, e1, _, _, _, _, e6, e7, _⟩ := last_split m pre'
    have hlen : cl.length ≤ pre'.length := by rw [e1]; simp
    have e : (wa ++ pre').take ((wa ++ pre').length - (curLinePre m pre').length) =
        wa ++ pre'.take (pre'.length - (curLinePre m pre').length) := by
      rw [e6, List.take_append]
      have h1 : (wa ++ pre').length - cl.length - wa.length = pre'.length - cl.length := by
        simp; omega
      have h2 : wa.length ≤ (wa ++ pre').length - cl.length := by simp; omega
      rw [h1, List.take_of_length_le h2]
    rw [e]
    simp only [clampLo, canon_byte, bytes_append]
    rw [if_neg (by omega)]

theorem wfield_full {wmid : Text} (hwf : Text.WF (wa ++ wmid)) (ha : aligned m wa wmid = true) :
    Source.fullSpan ⟨wmid, m, canon m wa⟩ = .ok ⟨canon m wa, canon m (wa ++ wmid)⟩ := by
  unfold Source.fullSpan
  simp only [win_end hwf ha, Res.ok_bind, Res.pure_eq]
  rw [enclosing_of_le (by simp)]

/-! ### widen / split of a sub-span `(wa ++ a') | smid | (z' ++ wz)` inside the window -/

theorem clampLo_byte_le {w : Span} {p : Pos} {b : Nat} (h1 : p.byte ≤ b) (h2 : w.s.byte ≤ b) :
    (clampLo w p).byte ≤ b := by
  unfold clampLo; split <;> assumption

theorem clampHi_byte_ge {w : Span} {p : Pos} {b : Nat} (h1 : b ≤ p.byte) (h2 : b ≤ w.e.byte) :
    b ≤ (clampHi w p).byte := by
  unfold clampHi; split <;> assumption

theorem wfield_widen {a' smid z' : Text} (hwf : Text.WF (wa ++ (a' ++ smid ++ z') ++ wz))
    (ha1 : aligned m wa (a' ++ smid ++ z' ++ wz) = true)
    (ha2 : aligned m (wa ++ (a' ++ smid ++ z')) wz = true)
    (hs2 : aligned m (wa ++ a' ++ smid) (z' ++ wz) = true) :
    (⟨canon m (wa ++ a'), canon m (wa ++ a' ++ smid)⟩ : Span).widenToLine
        ⟨a' ++ smid ++ z', m, canon m wa⟩ =
      .ok ⟨clampLo ⟨canon m wa, canon m (wa ++ (a' ++ smid ++ z'))⟩
              (widenSpec m (wa ++ a') smid (z' ++ wz)).s,
           clampHi ⟨canon m wa, canon m (wa ++ (a' ++ smid ++ z'))⟩
              (widenSpec m (wa ++ a') smid (z' ++ wz)).e⟩ := by
  have hwfm : Text.WF (a' ++ smid ++ z') := (Text.WF_append.mp (Text.WF_append.mp hwf).1).2
  obtain ⟨hwas, hwz'⟩ := Text.WF_append.mp hwfm
  obtain ⟨hwa', hws⟩ := Text.WF_append.mp hwas
  -- the two navigation answers
  have hLS := wfield_lineStart (m := m) (wa := wa) (pre' := a') (suf' := smid ++ z') (wz := wz)
    (by simpa [List.append_assoc] using hwf) (by simpa [List.append_assoc] using ha1)
  have hLE := wfield_lineEnd (m := m) (wa := wa) (pre' := a' ++ smid) (suf' := z') (wz := wz)
    hwf ha2 (by simpa [List.append_assoc] using hs2)
  have e1 : a' ++ (smid ++ z') = a' ++ smid ++ z' := by simp
  have e2 : wa ++ (a' ++ smid) = wa ++ a' ++ smid := by simp
  rw [e1] at hLS
  rw [e2] at hLE
  have hs : (navSpec m (wa ++ a') (smid ++ z' ++ wz) [] (fun _ => true)).lineStart =
      (widenSpec m (wa ++ a') smid (z' ++ wz)).s := rfl
  have he : (navSpec m (wa ++ a' ++ smid) (z' ++ wz) [] (fun _ => true)).lineEnd =
      (widenSpec m (wa ++ a') smid (z' ++ wz)).e := rfl
  rw [hs] at hLS
  rw [he] at hLE
  unfold Span.widenToLine
  split
  · rename_i hfull
    simp [Span.isFull, Source.len] at hfull
    have ea : a' = [] := bytes_eq_zero hwa' (by omega)
    have ez : z' = [] := bytes_eq_zero hwz' (by omega)
    subst ea; subst ez
    -- in the full case the two answers are the window's own ends
    have h1 := win_lineStart (m := m) (wa := wa) (pre' := [])
      (by simpa using (Text.WF_append.mp (Text.WF_append.mp hwf).1).1) (by simp) ([] ++ smid ++ [])
    have h2 := win_lineEnd (m := m) (wa := wa) (pre' := [] ++ smid) (suf' := [])
      (by simpa [List.append_assoc] using (Text.WF_append.mp hwf).1) (by simp)
    simp only [List.nil_append, List.append_nil, linesOf_nil, List.length_cons, List.length_nil,
      if_true, curLineSuf_nil] at h1 h2 hLS hLE ⊢
    rw [h1] at hLS
    rw [h2] at hLE
    injection hLS with hLS
    injection hLE with hLE
    rw [← hLS, ← hLE]
  · simp only [hLS, hLE, Res.ok_bind, Res.pure_eq]
    rw [enclosing_of_le]
    have hb1 : (widenSpec m (wa ++ a') smid (z' ++ wz)).s.byte ≤ bytes (wa ++ a') := by
      simp only [widenSpec, canon_byte]; exact bytes_take_le _ _
    have hb2 : bytes (wa ++ a' ++ smid) ≤ (widenSpec m (wa ++ a') smid (z' ++ wz)).e.byte := by
      simp only [widenSpec, canon_byte, bytes_append]; omega
    have h1 := clampLo_byte_le (w := ⟨canon m wa, canon m (wa ++ (a' ++ smid ++ z'))⟩) hb1
      (by simp)
    have h2 := clampHi_byte_ge (w := ⟨canon m wa, canon m (wa ++ (a' ++ smid ++ z'))⟩) hb2
      (by simp)
    simp only [bytes_append] at h1 h2
    omega

theorem wfield_split {a' smid z' : Text} (hwf : Text.WF (wa ++ (a' ++ smid ++ z') ++ wz))
    (hs1 : aligned m (wa ++ a') (smid ++ (z' ++ wz)) = true)
    (hs2 : aligned m (wa ++ a' ++ smid) (z' ++ wz) = true)
    (fuel : Nat) (hfuel : (linesOf m smid).length + 1 ≤ fuel) :
    Fam.Window.collectSpans fuel (SplitLines.ofSpan ⟨canon m (wa ++ a'), canon m (wa ++ a' ++ smid)⟩
        ⟨a' ++ smid ++ z', m, canon m wa⟩) =
      .ok ((splitSpec m (wa ++ a') smid (z' ++ wz)).map (·.2)) := by
  have hz : aligned m (wa ++ a' ++ smid) z' = true := aligned_of_append_right hs2
  have hs1' : aligned m (wa ++ a') (smid ++ z') = true := by
    by_cases hsm : smid = []
    · subst hsm
      simp only [List.nil_append, List.append_nil] at hs1 hz ⊢
      exact hz
    · rw [aligned_append_right_iff hsm] at hs1 ⊢; exact hs1
  have := collect_split m wa z' (z' ++ wz) (linesOf m smid) a' smid (a' ++ smid ++ z')
    (wa ++ a' ++ smid ++ (z' ++ wz)) fuel rfl rfl (by simp)
    (Text.WF_append.mp hwf).1 hs1' hz hfuel
  unfold Fam.Window.collectSpans SplitLines.ofSpan
  simp only [this, splitSpec]

/-! ### next line start -/

theorem Source.nextLineStart_eq (src : Source) (p : Pos) :
    src.nextLineStartPosition p = (src.lineEndPosition p).bind src.nextPosition := by
  unfold Source.nextLineStartPosition Source.lineEndPosition Source.nextPosition
    Source.withByteOffset Source.withByteOffset1 Tephra.nextLineStartPosition
  cases h1 : csub p.byte src.offset.byte with
  | panic => rfl
  | ok b =>
    simp only [Res.ok_bind, Res.ok_bind']
    cases h2 : Tephra.lineEndPosition src.metrics src.text { p with byte := b } with
    | panic => rfl
    | ok le =>
      simp only [Res.ok_bind, Res.ok_bind', Res.pure_eq]
      have : csub (le.byte + src.offset.byte) src.offset.byte = .ok le.byte := by
        rw [csub_le (by omega)]; simp
      simp only [this, Res.ok_bind]

theorem wfield_nextLineStart (hwf : Text.WF (wa ++ (pre' ++ suf') ++ wz))
    (ha2 : aligned m (wa ++ (pre' ++ suf')) wz = true)
    (hap : aligned m (wa ++ pre') (suf' ++ wz) = true) :
    Source.nextLineStartPosition ⟨pre' ++ suf', m, canon m wa⟩ (canon m (wa ++ pre')) =
      .ok (keepIfIn ⟨canon m wa, canon m (wa ++ (pre' ++ suf'))⟩
        (navSpec m (wa ++ pre') (suf' ++ wz) [] (fun _ => true)).nextLineStart) := by
  have hwf' : Text.WF (wa ++ pre' ++ suf') := by
    have := (Text.WF_append.mp hwf).1; simpa [List.append_assoc] using this
  have hal : aligned m suf' wz = true := by
    rw [← List.append_assoc] at ha2; exact aligned_of_append_left ha2
  have hap' : aligned m (wa ++ pre') suf' = true := aligned_of_append_right hap
  obtain ⟨rem, hr, hcase⟩ := curLineSuf_prefix m suf'
  rw [Source.nextLineStart_eq, win_lineEnd hwf' hap']
  simp only [Res.ok_bind']
  -- re-cut the window text after the current line
  have etext : pre' ++ suf' = (pre' ++ curLineSuf m suf') ++ rem := by
    conv => lhs; rw [hr]
    simp
  have epos : wa ++ pre' ++ curLineSuf m suf' = wa ++ (pre' ++ curLineSuf m suf') := by simp
  have hwf2 : Text.WF (wa ++ (pre' ++ curLineSuf m suf') ++ rem) := by
    rw [List.append_assoc, ← etext, ← List.append_assoc]; exact hwf'
  rw [etext, epos]
  simp only [navSpec, curLineSuf_append hal]
  rcases hcase with ⟨hrem, hlen⟩ | ⟨rest, hb, hlines⟩
  · -- the window ends on the current line
    subst hrem
    rw [win_next hwf2 (by simp)]
    simp only [firstUnit_nil, Option.map_none, hlen, if_true]
    split
    · simp [keepIfIn]
    · rename_i hgt
      have hcs : curLineSuf m suf' = suf' := by simpa using hr.symm
      have hwzl : 2 ≤ (linesOf m wz).length := by
        rw [linesOf_append_length hal, hlen] at hgt; omega
      have hwzne : wz ≠ [] := by
        intro e; subst e; simp at hwzl
      rw [keepIfIn_some_gt]
      simp only [canon_byte, bytes_append, List.append_nil, List.take_append, bytes_append]
      obtain ⟨c, r, hc⟩ : ∃ c r, wz = c :: r := by
        cases wz with
        | nil => exact absurd rfl hwzne
        | cons c r => exact ⟨c, r, rfl⟩
      have hk : (suf' ++ curLineSuf m wz).length + lbLen m - suf'.length =
          ((curLineSuf m wz).length + lbLen m - 1) + 1 := by
        have := lbLen_pos m; simp; omega
      have hcw : 1 ≤ c.size := ((Text.WF_cons.mp (by rw [← hc]; exact (Text.WF_append.mp hwf).2)).1).1
      have htk : suf'.take ((suf' ++ curLineSuf m wz).length + lbLen m) = suf' :=
        List.take_of_length_le (by simp; omega)
      rw [htk, hk, hc, List.take_succ_cons, bytes_cons, hcs]
      omega
  · -- a line ending inside the window after the cut
    obtain ⟨B, hB, hBc, hBl⟩ := breakAt_split hb
    have hfu : firstUnit m rem = some B := by
      simp only [firstUnit, hb]; rw [hB]; simp
    rw [win_next hwf2 (aligned_of_starts_break hb), hfu]
    have hl2 : ¬ (linesOf m suf').length = 1 := by
      rw [hlines]; have := linesOf_ne_nil m rest; simp; exact this
    have hl3 : ¬ (linesOf m (suf' ++ wz)).length ≤ 1 := by
      rw [linesOf_append_length hal, hlines]
      have := linesOf_length_pos m rest
      have := linesOf_length_pos m wz
      simp; omega
    simp only [if_neg hl2, if_neg hl3, Option.map_some]
    have htake : (suf' ++ wz).take ((curLineSuf m suf').length + lbLen m) = curLineSuf m suf' ++ B := by
      apply take_prefix' (rest ++ wz)
      · conv => lhs; rw [hr, hB]
        simp
      · simp [hBl]
    rw [htake]
    have e3 : wa ++ (pre' ++ curLineSuf m suf') ++ B = wa ++ pre' ++ (curLineSuf m suf' ++ B) := by
      simp
    rw [e3, keepIfIn_some (by simp)]
    simp only [canon_byte, bytes_append]
    have h9 := congrArg bytes hr
    have h10 := congrArg bytes hB
    simp only [bytes_append] at h9 h10
    omega

end fields

/-! ### the former finding F13c (repaired in ef86ab4), concretely -/

theorem measureTo_here (m : Metrics) (p : Pos) (suf : Text) :
    measureTo m p.byte p suf = .ok p := by
  rw [measureTo]; simp

/-- window = byte 1..2 of `a⇥` (LF, tab 4): the window's `previous_position` at its end
now answers the parent's answer, column 1 (before the repair it answered column 0). -/
theorem former_F13c_prev :
    Source.previousPosition ⟨[⟨9, 1, 0⟩], ⟨.lf, 4⟩, ⟨1, 0, 1⟩⟩ ⟨2, 0, 4⟩ = .ok (some ⟨1, 0, 1⟩) := by
  have h := measureTo_here ⟨.lf, 4⟩ ⟨0, 0, 0⟩ [⟨9, 1, 0⟩]
  simp [Source.previousPosition, Source.withByteOffset, csub, Tephra.previousPosition, splitAtByte,
    breakBefore, lbCodes, stripCodes, lineStartPosition, lineStartRev, h, Tephra.endPosition, bytes]

theorem Source.ext' {s1 s2 : Source} (h1 : s1.text = s2.text) (h2 : s1.metrics = s2.metrics)
    (h3 : s1.offset = s2.offset) : s1 = s2 := by
  cases s1; cases s2; simp at *; exact ⟨h1, h2, h3⟩

end Tephra.LinesPf
