/-
  TephraProofs.RecoverSeq — C12, continued.

  1. `BodyKeepsInv` for every wrapped parser of the fragment `pegWithRep`
     (through `rep_sim`: a successful run returns a lexer related by `Abs` to a state
     of the reference evaluator, and `Abs` contains the lexer invariant), hence
     `invoke_explained_peg`: the invocation-history theorem with no hypothesis on the
     wrapped parser other than membership in the fragment.
  2. The recovering combinator does not look at the recover state stored in the lexer
     it is given: `Rq a b` (`b` is `a` with another stored recover state), the
     fragment `recBlind` (no `stabilize`, `list`, `probe` — the only combinators that
     read `Lexer.recover` of the lexer they are given), `run_blind` (results on
     `Rq`-related lexers are `PRq`-related: same world, same error, same value,
     `Rq`-related lexers), `recoverDefault_own_token` (identical results when the
     wrapped parser fails) and the sequence corollary `sequence_two_recoveries`.
-/
import TephraModel.Run
import TephraModel.Fam.Oracles
import TephraProofs.RunMatchers
import TephraProofs.BracketRefine
import TephraProofs.RecoverFrame
import TephraProofs.RecoverProof
import TephraProofs.PegAbs
import TephraProofs.PegRefine
import TephraProofs.Frame

set_option linter.unusedVariables false

namespace Tephra.RecoverSeq
open Tephra Tephra.Spec Tephra.BracketRefine Tephra.LexIter Tephra.RecoverProof Tephra.PegRefine
open Tephra.Fam.Oracles (recPoint)
open Tephra.RecoverFrame (specOf)

/-! ### 1. `BodyKeepsInv` on `pegWithRep` -/

section Keep
variable {m : Metrics} {len : Nat} {f : Option Nat}

/-- every well-formed lexer is related to a state of the reference evaluator -/
theorem abs_of_inv {E : LexEnv Nat Tok} (hp : PassOK E) {lx : Lx} (inv : Inv E m len f lx) :
    Abs E m len lx (stateOf len (rawAt E m len lx.scanner lx.cursor) lx.cursor f) :=
  ⟨inv, by
    show List.dropWhile _ _ = D E m len lx
    unfold D
    rw [nkeeps_fun hp, inv.hfil]; rfl, rfl⟩

theorem supported_of_pegWithRep : ∀ g : G, pegWithRep g = true → Spec.supported g = true := by
  intro g
  induction g <;> simp_all [pegWithRep, Spec.supported]

theorem bodyKeepsInv_peg (R : RunEnv) (ok : ScanOK R.E m len) (hp : PassOK R.E) (a : G)
    (ha : pegWithRep a = true) : BodyKeepsInv R m len f a := by
  intro n lx ctx W v lx1 W1 inv hr
  have hsim := rep_sim ok hp n n (Nat.le_refl n) (2 * n) (Nat.le_refl _) a lx _ ctx W ha (abs_of_inv hp inv)
  rw [hr] at hsim
  obtain ⟨s', _, a'⟩ := hsim
  have hfr := Frame.run_frame R n a lx ctx W v lx1 (by rw [hr])
  have hf : s'.filter = f := by rw [a'.filter, hfr.1, inv.hfil]
  rw [← hf]
  exact a'.inv

/-- `invoke_explained` for every wrapped parser of the fragment. -/
theorem invoke_explained_peg (R : RunEnv) (ok : ScanOK R.E m len) (hp : PassOK R.E) (ctx : Ctx) (v id : Nat)
    (a : G) (r : Rec) (ha : pegWithRep a = true) (k : Nat) (lx : Lx) (W : World)
    (inv : Inv R.E m len f lx) (hready : Ready id r W) :
    Explained (Ready id r) (Step R m len f ctx v id a r (Fam.RunF.fuel - 2)) lx W
      (Fam.RunF.invoke R (.recover v id a r) ctx k lx W).1 :=
  invoke_explained R ok ctx v id a r (supported_of_pegWithRep a ha) (bodyKeepsInv_peg R ok hp a ha) k lx W inv hready

end Keep

/-! ### 2. the lexer methods never look at the stored recover state -/

section Ops
variable {σ τ : Type} {E : LexEnv σ τ}

@[simp] theorem filtered_setRec (r : Option Nat) (lx : Lexer σ τ) (t : τ) :
    (lx.setRecoverState r).filtered E t = lx.filtered E t := rfl

theorem bufferLoop_setRec (r : Option Nat) (behind : Bool) (lx : Lexer σ τ) (ps : σ) (pc : Pos) :
    Lexer.bufferLoop E behind (lx.setRecoverState r) ps pc =
      (Lexer.bufferLoop E behind lx ps pc).setRecoverState r := by
  fun_induction Lexer.bufferLoop E behind lx ps pc with
  | case1 lx ps pc s' heq =>
    rw [Lexer.bufferLoop]
    simp only [LexInv.setRecoverState_metrics, heq]
  | case2 lx ps pc tok adv ps' heq hf lx' hg ih =>
    rw [Lexer.bufferLoop]
    simp only [LexInv.setRecoverState_metrics, heq, filtered_setRec, hf, if_true]
    rw [dif_pos (show pc.byte < adv.byte ∧ adv.byte ≤ (lx.setRecoverState r).len from hg), ← ih]
    cases behind <;> rfl
  | case3 lx ps pc tok adv ps' heq hf lx' hg =>
    rw [Lexer.bufferLoop]
    simp only [LexInv.setRecoverState_metrics, heq, filtered_setRec, hf, if_true]
    rw [dif_neg (show ¬ (pc.byte < adv.byte ∧ adv.byte ≤ (lx.setRecoverState r).len) from hg)]
    cases behind <;> rfl
  | case4 lx ps pc tok adv ps' heq hf =>
    rw [Lexer.bufferLoop]
    simp only [LexInv.setRecoverState_metrics, heq, filtered_setRec, hf]
    rfl

theorem bufferNext_setRec (r : Option Nat) (lx : Lexer σ τ) :
    (lx.setRecoverState r).bufferNext E = (lx.bufferNext E).setRecoverState r := by
  unfold Lexer.bufferNext
  show (if lx.buffer.isSome = true then _ else
    Lexer.bufferLoop E (lx.parseStart == lx.cursor) (lx.setRecoverState r) lx.scanner lx.cursor) = _
  split
  · rfl
  · exact bufferLoop_setRec r _ lx _ _

theorem peek_setRec (r : Option Nat) (lx : Lexer σ τ) :
    (lx.setRecoverState r).peek E = ((lx.peek E).1, (lx.peek E).2.setRecoverState r) := by
  unfold Lexer.peek
  show (if lx.len ≤ lx.cursor.byte then _ else _) = _
  split
  · rfl
  · simp only [bufferNext_setRec]; rfl

theorem nextLoop_setRec (r : Option Nat) (behind : Bool) (lx : Lexer σ τ) :
    Lexer.nextLoop E behind (lx.setRecoverState r) =
      ((Lexer.nextLoop E behind lx).1, (Lexer.nextLoop E behind lx).2.setRecoverState r) := by
  fun_induction Lexer.nextLoop E behind lx with
  | case1 lx s' heq =>
    rw [Lexer.nextLoop]
    show (match E.scan lx.scanner lx.metrics lx.cursor with
      | (none, s') => _
      | (some (tok, adv), s') => _) = _
    rw [heq]; rfl
  | case2 lx tok adv s' heq hf lx' hg ih =>
    rw [Lexer.nextLoop]
    show (match E.scan lx.scanner lx.metrics lx.cursor with
      | (none, s') => _
      | (some (tok, adv), s') => _) = _
    rw [heq]
    simp only [filtered_setRec, hf, if_true]
    rw [dif_pos (show (lx.setRecoverState r).cursor.byte < adv.byte ∧ adv.byte ≤ (lx.setRecoverState r).len from hg), ← ih]
    cases behind <;> rfl
  | case3 lx tok adv s' heq hf lx' hg =>
    rw [Lexer.nextLoop]
    show (match E.scan lx.scanner lx.metrics lx.cursor with
      | (none, s') => _
      | (some (tok, adv), s') => _) = _
    rw [heq]
    simp only [filtered_setRec, hf, if_true]
    rw [dif_neg (show ¬ ((lx.setRecoverState r).cursor.byte < adv.byte ∧ adv.byte ≤ (lx.setRecoverState r).len) from hg)]
    cases behind <;> rfl
  | case4 lx tok adv s' heq hf ps =>
    rw [Lexer.nextLoop]
    show (match E.scan lx.scanner lx.metrics lx.cursor with
      | (none, s') => _
      | (some (tok, adv), s') => _) = _
    rw [heq]
    simp only [filtered_setRec, hf]
    rfl

theorem next_setRec (r : Option Nat) (lx : Lexer σ τ) :
    (lx.setRecoverState r).next E = ((lx.next E).1, (lx.next E).2.setRecoverState r) := by
  unfold Lexer.next
  show (if lx.len ≤ lx.cursor.byte then _ else
    match lx.buffer with
    | some buf => _
    | none => Lexer.nextLoop E (lx.parseStart == lx.cursor) (lx.setRecoverState r)) = _
  by_cases h : lx.len ≤ lx.cursor.byte
  · simp only [h, if_true]
  · simp only [h, if_false]
    cases hb : lx.buffer with
    | some buf => rfl
    | none => exact nextLoop_setRec r _ lx

theorem setFilter_setRec (r : Option Nat) (f : Option Nat) (lx : Lexer σ τ) :
    (lx.setRecoverState r).setFilter E f = ((lx.setFilter E f).1, (lx.setFilter E f).2.setRecoverState r) := by
  unfold Lexer.setFilter
  rw [← bufferNext_setRec]
  rfl

theorem intoSublexer_setRec (r : Option Nat) (lx : Lexer σ τ) :
    (lx.setRecoverState r).intoSublexer E = (lx.intoSublexer E).setRecoverState r := by
  unfold Lexer.intoSublexer Lexer.startSublex
  rw [← bufferNext_setRec]
  rfl

theorem advanceTo_setRec (r : Option Nat) (pred : τ → Bool) (lx : Lexer σ τ) :
    (lx.setRecoverState r).advanceTo E pred =
      ((lx.advanceTo E pred).1, (lx.advanceTo E pred).2.setRecoverState r) := by
  fun_induction Lexer.advanceTo E pred lx with
  | case1 lx lx' h =>
    rw [Lexer.advanceTo]
    split
    · next lx'' heq =>
      simp only [next_setRec, h, Prod.mk.injEq] at heq
      obtain ⟨_, rfl⟩ := heq
      rfl
    · next t lx'' heq =>
      simp only [next_setRec, h, Prod.mk.injEq] at heq
      exact absurd heq.1 (by simp)
  | case2 lx t lx' h hp =>
    rw [Lexer.advanceTo]
    split
    · next lx'' heq =>
      simp only [next_setRec, h, Prod.mk.injEq] at heq
      exact absurd heq.1 (by simp)
    · next t' lx'' heq =>
      simp only [next_setRec, h, Prod.mk.injEq, Option.some.injEq] at heq
      obtain ⟨rfl, rfl⟩ := heq
      simp only [hp, if_true]
  | case3 lx t lx' h hp hg ih =>
    rw [Lexer.advanceTo]
    split
    · next lx'' heq =>
      simp only [next_setRec, h, Prod.mk.injEq] at heq
      exact absurd heq.1 (by simp)
    · next t' lx'' heq =>
      simp only [next_setRec, h, Prod.mk.injEq, Option.some.injEq] at heq
      obtain ⟨rfl, rfl⟩ := heq
      simp only [hp, Bool.false_eq_true, if_false]
      rw [dif_pos (show (lx.setRecoverState r).cursor.byte < (lx'.setRecoverState r).cursor.byte ∧
        (lx'.setRecoverState r).len = (lx.setRecoverState r).len ∧
        (lx'.setRecoverState r).cursor.byte ≤ (lx.setRecoverState r).len from hg)]
      exact ih
  | case4 lx t lx' h hp hg =>
    rw [Lexer.advanceTo]
    split
    · next lx'' heq =>
      simp only [next_setRec, h, Prod.mk.injEq] at heq
      exact absurd heq.1 (by simp)
    · next t' lx'' heq =>
      simp only [next_setRec, h, Prod.mk.injEq, Option.some.injEq] at heq
      obtain ⟨rfl, rfl⟩ := heq
      simp only [hp, Bool.false_eq_true, if_false]
      rw [dif_neg (show ¬ ((lx.setRecoverState r).cursor.byte < (lx'.setRecoverState r).cursor.byte ∧
        (lx'.setRecoverState r).len = (lx.setRecoverState r).len ∧
        (lx'.setRecoverState r).cursor.byte ≤ (lx.setRecoverState r).len) from hg)]

end Ops

@[simp] theorem peekTokenSpan_setRec {σ τ : Type} (r : Option Nat) (lx : Lexer σ τ) :
    (lx.setRecoverState r).peekTokenSpan = lx.peekTokenSpan := rfl
@[simp] theorem parseSpan_setRec {σ τ : Type} (r : Option Nat) (lx : Lexer σ τ) :
    (lx.setRecoverState r).parseSpan = lx.parseSpan := rfl
@[simp] theorem tokenSpan_setRec {σ τ : Type} (r : Option Nat) (lx : Lexer σ τ) :
    (lx.setRecoverState r).tokenSpan = lx.tokenSpan := rfl
@[simp] theorem isEmpty_setRec {σ τ : Type} (r : Option Nat) (lx : Lexer σ τ) :
    (lx.setRecoverState r).isEmpty = lx.isEmpty := rfl
@[simp] theorem cursor_setRec {σ τ : Type} (r : Option Nat) (lx : Lexer σ τ) :
    (lx.setRecoverState r).cursor = lx.cursor := rfl
@[simp] theorem len_setRec {σ τ : Type} (r : Option Nat) (lx : Lexer σ τ) :
    (lx.setRecoverState r).len = lx.len := rfl
@[simp] theorem setRec_setRec {σ τ : Type} (r r' : Option Nat) (lx : Lexer σ τ) :
    (lx.setRecoverState r).setRecoverState r' = lx.setRecoverState r' := rfl
@[simp] theorem setRec_self {σ τ : Type} (lx : Lexer σ τ) : lx.setRecoverState lx.recover = lx := rfl

/-! ### `match_nested_brackets` -/

def mrSetRec (r : Option Nat) : MatchRes → MatchRes
  | .found o c i => .found (o.setRecoverState r) (c.setRecoverState r) i
  | x => x

theorem matchLoop_setRec (R : RunEnv) (opens closes abort : List Nat) (sp : Span) (r : Option Nat) :
    ∀ (n : Nat) (lx : Lx) (ol : Option Lx) (opened : List (Nat × Nat)),
      matchLoop R opens closes abort sp n (lx.setRecoverState r) (ol.map (·.setRecoverState r)) opened =
        mrSetRec r (matchLoop R opens closes abort sp n lx ol opened) := by
  intro n
  induction n with
  | zero => intro lx ol opened; rfl
  | succ n ih =>
    intro lx ol opened
    simp only [matchLoop]
    rw [peek_setRec]
    generalize lx.peek R.E = pk
    obtain ⟨o, lx1⟩ := pk
    cases o with
    | none =>
      simp only []
      cases ol with
      | none => rfl
      | some ol0 =>
        simp only [Option.map_some, peekTokenSpan_setRec]
        cases ol0.peekTokenSpan <;> rfl
    | some tok =>
      simp only [next_setRec, peekTokenSpan_setRec]
      have hbind : (ol.map (·.setRecoverState r)).bind (·.peekTokenSpan) = ol.bind (·.peekTokenSpan) := by
        cases ol <;> rfl
      have hnone : (ol.map (·.setRecoverState r)).isNone = ol.isNone := by cases ol <;> rfl
      rw [hbind, hnone]
      cases hc : position closes tok.kind with
      | some idx =>
        simp only []
        cases opened with
        | nil =>
          simp only []
          cases lx1.peekTokenSpan <;> rfl
        | cons hd rest =>
          obtain ⟨t, cnt⟩ := hd
          simp only []
          by_cases h1 : (t != idx) = true
          · simp only [h1, if_true]
            cases ol.bind (·.peekTokenSpan) <;> cases lx1.peekTokenSpan <;> rfl
          · simp only [h1, Bool.false_eq_true, if_false]
            by_cases h2 : cnt > 1
            · simp only [h2, if_true]
              exact ih _ _ _
            · simp only [h2, if_false]
              by_cases h3 : rest.isEmpty = true
              · simp only [h3, if_true]
                cases ol <;> rfl
              · simp only [h3, Bool.false_eq_true, if_false]
                exact ih _ _ _
      | none =>
        simp only []
        cases ho : position opens tok.kind with
        | some idx =>
          simp only []
          cases ol with
          | none => exact ih _ (some lx1) _
          | some o => exact ih _ (some o) _
        | none =>
          simp only []
          by_cases h1 : (abort.contains tok.kind && ol.isNone) = true
          · simp only [h1, if_true]
            cases lx1.peekTokenSpan <;> rfl
          · simp only [h1, Bool.false_eq_true, if_false]
            exact ih _ _ _


/-! ### the relation "same lexer up to the stored recover state" -/

/-- `b` is `a` with some other stored recover state -/
def Rq (a b : Lx) : Prop := ∃ r, b = a.setRecoverState r

theorem Rq.refl (a : Lx) : Rq a a := ⟨a.recover, rfl⟩
theorem Rq.symm {a b : Lx} (h : Rq a b) : Rq b a := by
  obtain ⟨r, rfl⟩ := h; exact ⟨a.recover, rfl⟩
theorem Rq.trans {a b c : Lx} (h1 : Rq a b) (h2 : Rq b c) : Rq a c := by
  obtain ⟨r, rfl⟩ := h1; obtain ⟨r', rfl⟩ := h2; exact ⟨r', rfl⟩

/-- every field but `recover` agrees -/
theorem Rq_iff {a b : Lx} : Rq a b ↔ a.setRecoverState none = b.setRecoverState none := by
  constructor
  · rintro ⟨r, rfl⟩; rfl
  · intro h
    refine ⟨b.recover, ?_⟩
    have := congrArg (Lexer.setRecoverState b.recover) h
    simpa using this.symm

/-- results: same value and `Rq`-related lexers, or the same failure -/
def ResRq : RRes → RRes → Prop
  | .ok v l, .ok v' l' => v = v' ∧ Rq l l'
  | .err e, .err e' => e = e'
  | .panic, .panic => True
  | .fuel, .fuel => True
  | _, _ => False

/-- results and worlds -/
def PRq (x y : RRes × World) : Prop := ResRq x.1 y.1 ∧ x.2 = y.2

theorem PRq.refl (x : RRes × World) : PRq x x := by
  obtain ⟨r, W⟩ := x
  cases r <;> simp [PRq, ResRq, Rq.refl]

theorem PRq.ok (v : Val) (l : Lx) (r : Option Nat) (W : World) :
    PRq (.ok v l, W) (.ok v (l.setRecoverState r), W) := ⟨⟨rfl, r, rfl⟩, rfl⟩

theorem PRq.ok' {v : Val} {l l' : Lx} {W : World} (h : Rq l l') : PRq (.ok v l, W) (.ok v l', W) := ⟨⟨rfl, h⟩, rfl⟩

theorem PRq.elim {x y : RRes × World} (h : PRq x y) {P : Prop}
    (hok : ∀ v l r W, x = (.ok v l, W) → y = (.ok v (l.setRecoverState r), W) → P)
    (herr : ∀ e W, x = (.err e, W) → y = (.err e, W) → P)
    (hpanic : ∀ W, x = (.panic, W) → y = (.panic, W) → P)
    (hfuel : ∀ W, x = (.fuel, W) → y = (.fuel, W) → P) : P := by
  obtain ⟨r1, W1⟩ := x
  obtain ⟨r2, W2⟩ := y
  obtain ⟨h1, h2⟩ := h
  simp only at h2
  subst h2
  cases r1 <;> cases r2 <;> simp only [ResRq] at h1
  · obtain ⟨rfl, r, rfl⟩ := h1
    exact hok _ _ r _ rfl rfl
  · subst h1; exact herr _ _ rfl rfl
  · exact hpanic _ rfl rfl
  · exact hfuel _ rfl rfl

/-- a failure is the same failure, with the same world -/
theorem PRq.eq_of_not_ok {x y : RRes × World} (h : PRq x y) (hne : ∀ v l, x.1 ≠ .ok v l) : y = x := by
  refine h.elim (fun v l r W hx hy => ?_) (fun e W hx hy => ?_) (fun W hx hy => ?_) (fun W hx hy => ?_)
  · exact absurd (by rw [hx]) (hne v l)
  · rw [hx, hy]
  · rw [hx, hy]
  · rw [hx, hy]

def resSetRec (r : Option Nat) : RRes → RRes
  | .ok v l => .ok v (l.setRecoverState r)
  | x => x

theorem PRq.of_setRec (r : Option Nat) (x : RRes) (W : World) : PRq (x, W) (resSetRec r x, W) := by
  cases x <;> simp [PRq, ResRq, resSetRec]
  exact ⟨r, rfl⟩

theorem seqLoop_setRec (R : RunEnv) (es : Span) (r : Option Nat) : ∀ (ks : List Nat) (lx : Lx) (acc : List Tok),
    seqLoop R es ks (lx.setRecoverState r) acc = resSetRec r (seqLoop R es ks lx acc) := by
  intro ks
  induction ks with
  | nil => intro lx acc; rfl
  | cons k ks ih =>
    intro lx acc
    simp only [seqLoop, next_setRec]
    generalize lx.next R.E = nx
    obtain ⟨o, l1⟩ := nx
    cases o with
    | none => rfl
    | some t =>
      simp only [tokenSpan_setRec]
      split
      · exact ih _ _
      · rfl

theorem seqCountLoop_setRec (R : RunEnv) (es : Span) (r : Option Nat) : ∀ (ks : List Nat) (lx : Lx) (c : Nat),
    seqCountLoop R es ks (lx.setRecoverState r) c = resSetRec r (seqCountLoop R es ks lx c) := by
  intro ks
  induction ks with
  | nil => intro lx c; rfl
  | cons k ks ih =>
    intro lx c
    simp only [seqCountLoop, isEmpty_setRec, peek_setRec]
    split
    · rfl
    · generalize lx.peek R.E = pk
      obtain ⟨o, l1⟩ := pk
      cases o with
      | none =>
        simp only [next_setRec, isEmpty_setRec]
        split <;> rfl
      | some t =>
        simp only [next_setRec]
        split
        · exact ih _ _
        · rfl


/-! ### the fragment, and the fuel induction -/

/-- No `stabilize`, `list`, `probe` anywhere: these are the only combinators that read
the stored recover state of the lexer they are given (`stabilize` and `list` through
`advance_to_recover` on their own lexer and `list` through its final assertion,
`probe` by printing the lexer).  `recover*` itself is allowed: it overwrites the state
before it reads it. -/
def recBlind : G → Bool
  | .stabilize _ | .list _ _ _ _ _ _ _ | .probe _ => false
  | .empty | .one _ | .any _ | .anyIndex _ | .seq _ | .seqCount _ | .pred _ | .endOfText => true
  | .left a b | .right a b | .both a b | .either a b | .implies a b | .antecedent a b | .consequent a b =>
    recBlind a && recBlind b
  | .center a b c => recBlind a && recBlind b && recBlind c
  | .map a | .discard a | .maybe a | .requireIf _ a | .cond _ a | .filterWith _ a | .unfiltered a | .sub a
  | .spanned a | .text a | .someOf a | .raw a | .unrecoverable a | .ctxPushed _ a | .ctxPush _ a | .ctxLocked _ a
  | .upTo a _ => recBlind a
  | .condImplies a _ b => recBlind a && recBlind b
  | .repeat_ _ _ _ a => recBlind a
  | .repeatUntil _ _ _ st a => recBlind st && recBlind a
  | .intersperse _ _ _ a sp => recBlind a && recBlind sp
  | .intersperseUntil _ _ _ st a sp => recBlind st && recBlind a && recBlind sp
  | .intersperseDefault _ _ a _ => recBlind a
  | .recover _ _ a _ => recBlind a
  | .bracket _ _ a _ _ => recBlind a

theorem recBlind_of_pegWithRep : ∀ g : G, pegWithRep g = true → recBlind g = true := by
  intro g
  induction g <;> simp_all [pegWithRep, recBlind]

theorem countOf_PRq (v : Nat) {x y : RRes × World} (h : PRq x y) : PRq (countOf v x) (countOf v y) := by
  unfold countOf
  split
  · exact h
  · refine h.elim (fun v l r W hx hy => ?_) (fun e W hx hy => ?_) (fun W hx hy => ?_) (fun W hx hy => ?_) <;>
      rw [hx, hy]
    · cases v <;> first | exact PRq.ok _ _ _ _
    · exact PRq.refl _
    · exact PRq.refl _
    · exact PRq.refl _

structure QAt (R : RunEnv) (n : Nat) : Prop where
  run : ∀ g lx rs ctx W, recBlind g = true →
    PRq (run R n g lx ctx W) (run R n g (lx.setRecoverState rs) ctx W)
  sepItem : ∀ a sep lx rs ctx W, recBlind a = true → recBlind sep = true →
    PRq (sepItem R n a sep lx ctx W) (sepItem R n a sep (lx.setRecoverState rs) ctx W)
  interLoopStart : ∀ lo hi a sep lx rs ctx W, recBlind a = true → recBlind sep = true →
    PRq (interLoopStart R n lo hi a sep lx ctx W) (interLoopStart R n lo hi a sep (lx.setRecoverState rs) ctx W)
  interLoop : ∀ lo hi a sep vals lx rs ctx W, recBlind a = true → recBlind sep = true →
    PRq (interLoop R n lo hi a sep vals lx ctx W) (interLoop R n lo hi a sep vals (lx.setRecoverState rs) ctx W)
  untilStart : ∀ lo hi stop a sep lx rs ctx W, recBlind stop = true → recBlind a = true → recBlind sep = true →
    PRq (untilStart R n lo hi stop a sep lx ctx W) (untilStart R n lo hi stop a sep (lx.setRecoverState rs) ctx W)
  untilLoop : ∀ lo hi stop a sep vals lx rs ctx W, recBlind stop = true → recBlind a = true → recBlind sep = true →
    PRq (untilLoop R n lo hi stop a sep vals lx ctx W)
      (untilLoop R n lo hi stop a sep vals (lx.setRecoverState rs) ctx W)
  recoverDefault : ∀ dv id r body lx rs ctx W, recBlind body = true →
    PRq (recoverDefault R n dv id r body lx ctx W) (recoverDefault R n dv id r body (lx.setRecoverState rs) ctx W)

set_option hygiene false in
/-- case analysis on a `PRq` fact `h` about two scrutinees of the goal: rewrites both,
reduces the matches; leaves the four goals (ok: `v l r W1`; err: `e W1`; panic; fuel) -/
macro "prq " h:term : tactic =>
  `(tactic| (
    refine PRq.elim ($h) (fun v l r W1 hx hy => ?_) (fun e W1 hx hy => ?_) (fun W1 hx hy => ?_)
      (fun W1 hx hy => ?_) <;> rw [hx, hy] <;> (try simp only []) <;> clear hx hy))

theorem q_run_step (R : RunEnv) (n : Nat) (ih : QAt R n) (g : G) (lx : Lx) (rs : Option Nat) (ctx : Ctx) (W : World)
    (hg : recBlind g = true) : PRq (run R (n + 1) g lx ctx W) (run R (n + 1) g (lx.setRecoverState rs) ctx W) := by
  obtain ⟨ihr, ihsep, ihis, ihil, ihus, ihul, ihrd⟩ := ih
  cases g <;> simp only [recBlind, Bool.and_eq_true] at hg <;> simp only [run]
  case empty => exact PRq.ok _ _ _ _
  case one k =>
    simp only [next_setRec, parseSpan_setRec]
    generalize lx.next R.E = nx
    obtain ⟨o, l1⟩ := nx
    cases o with
    | none => exact PRq.refl _
    | some t =>
      simp only [tokenSpan_setRec]
      split
      · exact PRq.ok _ _ _ _
      · exact PRq.refl _
  case both a b =>
    prq (ihr a lx rs ctx W hg.1)
    · prq (ihr b l r ctx W1 hg.2)
      · exact PRq.ok _ _ _ _
      all_goals exact PRq.refl _
    all_goals exact PRq.refl _
  case any ks =>
    by_cases hk : ks.isEmpty = true <;> simp only [hk, if_true, Bool.false_eq_true, if_false]
    · exact PRq.refl _
    · simp only [peek_setRec, parseSpan_setRec]
      generalize lx.peek R.E = pk
      obtain ⟨o, l1⟩ := pk
      cases o with
      | none => exact PRq.refl _
      | some t =>
        simp only [next_setRec, peekTokenSpan_setRec, tokenSpan_setRec]
        split
        · exact PRq.ok _ _ _ _
        · exact PRq.refl _
  case anyIndex ks =>
    by_cases hk : ks.isEmpty = true <;> simp only [hk, if_true, Bool.false_eq_true, if_false]
    · exact PRq.refl _
    · simp only [peek_setRec, parseSpan_setRec]
      generalize lx.peek R.E = pk
      obtain ⟨o, l1⟩ := pk
      cases o with
      | none => exact PRq.refl _
      | some t =>
        simp only [next_setRec, peekTokenSpan_setRec, tokenSpan_setRec]
        split
        · exact PRq.ok _ _ _ _
        · exact PRq.refl _
  case seq ks =>
    simp only [parseSpan_setRec, seqLoop_setRec]
    exact PRq.of_setRec _ _ _
  case seqCount ks =>
    simp only [parseSpan_setRec, seqCountLoop_setRec]
    exact PRq.of_setRec _ _ _
  case pred p =>
    simp only [next_setRec, parseSpan_setRec]
    generalize lx.next R.E = nx
    obtain ⟨o, l1⟩ := nx
    cases o with
    | none => exact PRq.refl _
    | some t =>
      simp only [tokenSpan_setRec]
      split
      · exact PRq.ok _ _ _ _
      · exact PRq.refl _
  case endOfText =>
    simp only [peek_setRec, parseSpan_setRec]
    generalize lx.peek R.E = pk
    obtain ⟨o, l1⟩ := pk
    cases o with
    | some t => exact PRq.refl _
    | none =>
      simp only [next_setRec, isEmpty_setRec]
      split
      · exact PRq.ok _ _ _ _
      · exact PRq.refl _
  case left a b =>
    prq (ihr (.both a b) lx rs ctx W (by simp [recBlind, hg]))
    · cases v <;> exact PRq.ok _ _ _ _
    all_goals exact PRq.refl _
  case right a b =>
    prq (ihr (.both a b) lx rs ctx W (by simp [recBlind, hg]))
    · cases v <;> exact PRq.ok _ _ _ _
    all_goals exact PRq.refl _
  case center a b c =>
    prq (ihr a lx rs ctx W hg.1.1)
    · prq (ihr b l r ctx W1 hg.1.2)
      · prq (ihr c l r ctx W1 hg.2)
        · exact PRq.ok _ _ _ _
        all_goals exact PRq.refl _
      all_goals exact PRq.refl _
    all_goals exact PRq.refl _
  case map a =>
    prq (ihr a lx rs ctx W hg)
    · exact PRq.ok _ _ _ _
    all_goals exact PRq.refl _
  case someOf a =>
    prq (ihr a lx rs ctx W hg)
    · exact PRq.ok _ _ _ _
    all_goals exact PRq.refl _
  case discard a =>
    prq (ihr a lx rs ctx W hg)
    · exact PRq.ok _ _ _ _
    all_goals exact PRq.refl _
  case either a b =>
    prq (ihr a lx rs ctx W hg.1)
    · exact PRq.ok _ _ _ _
    · exact ihr b lx rs ctx W1 hg.2
    all_goals exact PRq.refl _
  case maybe a =>
    prq (ihr a lx rs ctx.withoutSink W hg)
    · exact PRq.ok _ _ _ _
    · exact PRq.ok _ _ _ _
    all_goals exact PRq.refl _
  case unrecoverable a => exact ihr a lx rs _ W hg
  case raw a => exact ihr a lx rs _ W hg
  case requireIf flag a =>
    cases flag <;> simp only [if_true, Bool.false_eq_true, if_false]
    · exact ihr (.maybe a) lx rs ctx W (by simp [recBlind, hg])
    · prq (ihr a lx rs ctx W hg)
      · exact PRq.ok _ _ _ _
      all_goals exact PRq.refl _
  case cond flag a =>
    cases flag <;> simp only [if_true, Bool.false_eq_true, if_false]
    · exact PRq.ok _ _ _ _
    · prq (ihr a lx rs ctx W hg)
      · exact PRq.ok _ _ _ _
      all_goals exact PRq.refl _
  case implies a b =>
    prq (ihr (.maybe a) lx rs ctx W (by simp [recBlind, hg]))
    · cases v with
      | some x =>
        simp only []
        prq (ihr b l r ctx W1 hg.2)
        · exact PRq.ok _ _ _ _
        all_goals exact PRq.refl _
      | _ => exact PRq.ok _ _ _ _
    all_goals exact PRq.refl _
  case antecedent a b =>
    prq (ihr (.implies a b) lx rs ctx W (by simp [recBlind, hg]))
    · cases v with
      | some x => cases x <;> exact PRq.ok _ _ _ _
      | _ => exact PRq.ok _ _ _ _
    all_goals exact PRq.refl _
  case consequent a b =>
    prq (ihr (.implies a b) lx rs ctx W (by simp [recBlind, hg]))
    · cases v with
      | some x => cases x <;> exact PRq.ok _ _ _ _
      | _ => exact PRq.ok _ _ _ _
    all_goals exact PRq.refl _
  case condImplies a k b =>
    prq (ihr (.maybe a) lx rs ctx W (by simp [recBlind, hg]))
    · cases v with
      | some x =>
        simp only []
        cases x with
        | tok t =>
          simp only []
          by_cases hb : (t.kind == k) = true <;> simp only [hb, if_true, Bool.false_eq_true, if_false]
          · prq (ihr b l r ctx W1 hg.2)
            · exact PRq.ok _ _ _ _
            all_goals exact PRq.refl _
          · exact PRq.ok _ _ _ _
        | _ =>
          simp only [Bool.false_eq_true, if_false]
          exact PRq.ok _ _ _ _
      | _ => exact PRq.ok _ _ _ _
    all_goals exact PRq.refl _
  case filterWith mask a =>
    simp only [setFilter_setRec]
    prq (ihr a (lx.setFilter R.E (some mask)).2 rs ctx W hg)
    · simp only [setFilter_setRec]
      exact PRq.ok _ _ _ _
    all_goals exact PRq.refl _
  case unfiltered a =>
    simp only [setFilter_setRec]
    prq (ihr a (lx.setFilter R.E none).2 rs ctx W hg)
    · simp only [setFilter_setRec]
      exact PRq.ok _ _ _ _
    all_goals exact PRq.refl _
  case sub a =>
    rw [intoSublexer_setRec]
    exact ihr a _ rs ctx W hg
  case spanned a =>
    simp only [peek_setRec, peekTokenSpan_setRec, tokenSpan_setRec]
    prq (ihr a (lx.peek R.E).2 rs ctx W hg)
    · simp only [parseSpan_setRec]
      exact PRq.ok _ _ _ _
    all_goals exact PRq.refl _
  case text a =>
    simp only [peek_setRec, peekTokenSpan_setRec, tokenSpan_setRec]
    prq (ihr a (lx.peek R.E).2 rs ctx W hg)
    · simp only [parseSpan_setRec]
      split
      · exact PRq.ok _ _ _ _
      · exact PRq.refl _
    all_goals exact PRq.refl _
  case repeat_ v lo hi a => exact countOf_PRq _ (ihis lo hi a .empty lx rs ctx W hg rfl)
  case intersperse v lo hi a sep => exact countOf_PRq _ (ihis lo hi a sep lx rs ctx W hg.1 hg.2)
  case intersperseDefault lo hi a sepk => exact ihis lo hi a (.discard (.one sepk)) lx rs ctx W hg rfl
  case repeatUntil v lo hi stop a => exact countOf_PRq _ (ihus lo hi stop a .empty lx rs ctx W hg.1 hg.2 rfl)
  case intersperseUntil v lo hi stop a sep =>
    exact countOf_PRq _ (ihus lo hi stop a sep lx rs ctx W hg.1.1 hg.1.2 hg.2)
  case recover v id a r =>
    split
    · exact ihrd _ id r (.someOf a) lx rs ctx W (by simp [recBlind, hg])
    · exact ihrd _ id r a lx rs ctx W hg
  case bracket v opens a closes abort =>
    split
    · exact PRq.refl _
    · have hm := matchLoop_setRec R opens closes abort (Span.at_ lx.cursor) rs (lx.len + 2) lx none []
      simp only [Option.map_none] at hm
      simp only [cursor_setRec, len_setRec, hm]
      cases matchLoop R opens closes abort (Span.at_ lx.cursor) (lx.len + 2) lx none [] with
      | fuel => exact PRq.refl _
      | panic => exact PRq.refl _
      | err e => exact PRq.refl _
      | found o c idx =>
        simp only [mrSetRec, next_setRec, intoSublexer_setRec]
        prq (ihr (if (v % 2 == 0) = true then G.someOf a else a) ((o.next R.E).2.intoSublexer R.E) rs ctx W
          (by split <;> simp [recBlind, hg]))
        · exact PRq.ok _ _ _ _
        · cases sendError ctx e W1 with
          | mk so W2 => cases so <;> first | exact PRq.ok _ _ _ _ | exact PRq.refl _
        all_goals exact PRq.refl _
  case upTo a abort =>
    prq (ihr a lx rs ctx W hg)
    · simp only [peek_setRec]
      generalize l.peek R.E = pk
      obtain ⟨o, l1⟩ := pk
      cases o with
      | none => exact PRq.ok _ _ _ _
      | some t =>
        simp only []
        split
        · exact PRq.ok _ _ _ _
        · simp only [parseSpan_setRec, advanceTo_setRec, cursor_setRec]
          exact PRq.refl _
    all_goals exact PRq.refl _
  case ctxPushed tag a => exact ihr a lx rs _ W hg
  case ctxPush tag a => exact ihr a lx rs _ W hg
  case ctxLocked flag a => exact ihr a lx rs _ W hg
  case stabilize a => exact absurd hg (by simp)
  case list => exact absurd hg (by simp)
  case probe => exact absurd hg (by simp)

theorem qAt_zero (R : RunEnv) : QAt R 0 := by
  constructor <;> intros <;>
    simp only [run, sepItem, interLoopStart, interLoop, untilStart, untilLoop, recoverDefault] <;> exact PRq.refl _

theorem qAt_succ (R : RunEnv) (n : Nat) (ih : QAt R n) : QAt R (n + 1) := by
  have hrun := q_run_step R n ih
  obtain ⟨ihr, ihsep, ihis, ihil, ihus, ihul, ihrd⟩ := ih
  refine ⟨hrun, ?_, ?_, ?_, ?_, ?_, ?_⟩
  · intro a sep lx rs ctx W ha hs
    simp only [sepItem]
    prq (ihr sep lx rs ctx W hs)
    · exact ihr a l r ctx W1 ha
    all_goals exact PRq.refl _
  · intro lo hi a sep lx rs ctx W ha hs
    simp only [interLoopStart]
    by_cases h1 : hiBelow hi lo = true <;> simp only [h1, if_true, Bool.false_eq_true, if_false]
    · exact PRq.refl _
    by_cases h2 : (hi == some 0) = true <;> simp only [h2, if_true, Bool.false_eq_true, if_false]
    · exact PRq.ok _ _ _ _
    prq (ihr a lx rs ctx W ha)
    · exact ihil lo hi a sep [v] l r ctx W1 ha hs
    · by_cases h3 : (lo == 0) = true <;> simp only [h3, if_true, Bool.false_eq_true, if_false]
      · exact PRq.ok _ _ _ _
      · exact PRq.refl _
    all_goals exact PRq.refl _
  · intro lo hi a sep vals lx rs ctx W ha hs
    simp only [interLoop]
    by_cases h1 : vals.length < lo <;> simp only [h1, if_true, if_false]
    · prq (ihsep a sep lx rs ctx W ha hs)
      · exact ihil lo hi a sep (v :: vals) l r ctx W1 ha hs
      all_goals exact PRq.refl _
    by_cases h2 : hiAllows hi vals.length = true <;> simp only [h2, if_true, Bool.false_eq_true, if_false]
    · prq (ihsep a sep lx rs ctx W ha hs)
      · by_cases h3 : hiReached hi (vals.length + 1) = true <;>
          simp only [h3, if_true, Bool.false_eq_true, if_false]
        · exact PRq.ok _ _ _ _
        · exact ihil lo hi a sep (v :: vals) l r ctx W1 ha hs
      · exact PRq.ok _ _ _ _
      all_goals exact PRq.refl _
    · exact PRq.ok _ _ _ _
  · intro lo hi stop a sep lx rs ctx W hst ha hs
    simp only [untilStart]
    by_cases h1 : hiBelow hi lo = true <;> simp only [h1, if_true, Bool.false_eq_true, if_false]
    · exact PRq.refl _
    by_cases h2 : (hi == some 0) = true <;> simp only [h2, if_true, Bool.false_eq_true, if_false]
    · exact PRq.ok _ _ _ _
    prq (ihr stop lx rs ctx W hst)
    · exact PRq.ok _ _ _ _
    · prq (ihr a lx rs ctx W1 ha)
      · exact ihul lo hi stop a sep [v] l r ctx W1 hst ha hs
      · by_cases h3 : (lo == 0) = true <;> simp only [h3, if_true, Bool.false_eq_true, if_false]
        · exact PRq.ok _ _ _ _
        · exact PRq.refl _
      all_goals exact PRq.refl _
    all_goals exact PRq.refl _
  · intro lo hi stop a sep vals lx rs ctx W hst ha hs
    simp only [untilLoop]
    by_cases h1 : vals.length < lo <;> simp only [h1, if_true, if_false]
    · prq (ihr stop lx rs ctx W hst)
      · exact PRq.ok _ _ _ _
      · prq (ihsep a sep lx rs ctx W1 ha hs)
        · exact ihul lo hi stop a sep (v :: vals) l r ctx W1 hst ha hs
        all_goals exact PRq.refl _
      all_goals exact PRq.refl _
    by_cases h2 : hiAllows hi vals.length = true <;> simp only [h2, if_true, Bool.false_eq_true, if_false]
    · prq (ihr stop lx rs ctx W hst)
      · exact PRq.ok _ _ _ _
      · prq (ihsep a sep lx rs ctx W1 ha hs)
        · by_cases h3 : hiReached hi (vals.length + 1) = true <;>
            simp only [h3, if_true, Bool.false_eq_true, if_false]
          · exact PRq.ok _ _ _ _
          · exact ihul lo hi stop a sep (v :: vals) l r ctx W1 hst ha hs
        · exact PRq.ok _ _ _ _
        all_goals exact PRq.refl _
      all_goals exact PRq.refl _
    · exact PRq.ok _ _ _ _
  · intro dv id r body lx rs ctx W hb
    simp only [recoverDefault, setRec_setRec]
    prq (ihr body lx rs ctx (W.register id r) hb)
    · exact PRq.ok _ _ _ _
    all_goals exact PRq.refl _

theorem qAt (R : RunEnv) : ∀ n, QAt R n
  | 0 => qAt_zero R
  | n + 1 => qAt_succ R n (qAt R n)

/-- **The stored recover state is not an input** of any parser of the fragment:
started on the same lexer with another stored recover state, it leaves the same
world, fails with the same error or succeeds with the same value and the same
lexer up to the stored recover state. -/
theorem run_blind (R : RunEnv) (n : Nat) (g : G) (lx : Lx) (rs : Option Nat) (ctx : Ctx) (W : World)
    (hg : recBlind g = true) : PRq (run R n g lx ctx W) (run R n g (lx.setRecoverState rs) ctx W) :=
  (qAt R n).run g lx rs ctx W hg

/-! ### the recovering combinator resumes at its own token, whatever the stored state -/

/-- The combinator itself never reads the stored recover state: if the wrapped
parser does the same (failing) thing on both lexers, the results are identical. -/
theorem recoverDefault_own_token_of_body (R : RunEnv) (n : Nat) (dv : Val) (id : Nat) (r : Rec) (body : G) (lx : Lx)
    (rs : Option Nat) (ctx : Ctx) (W : World)
    (hsame : run R n body (lx.setRecoverState rs) ctx (W.register id r) = run R n body lx ctx (W.register id r))
    (hfail : ∀ v l, (run R n body lx ctx (W.register id r)).1 ≠ .ok v l) :
    recoverDefault R (n + 1) dv id r body (lx.setRecoverState rs) ctx W =
      recoverDefault R (n + 1) dv id r body lx ctx W := by
  simp only [recoverDefault, setRec_setRec, hsame]

/-- **Own token, whatever state** (`recover_default`): for a wrapped parser of the
fragment `recBlind`, started on the same lexer with *any* stored recover state `rs`
(in particular the one left by an earlier, different recovering combinator):
if the wrapped parser fails the results are identical — same reported error, same
placeholder, same returned lexer, same world; in general they are `PRq`-related. -/
theorem recoverDefault_own_token (R : RunEnv) (n : Nat) (dv : Val) (id : Nat) (r : Rec) (body : G) (lx : Lx)
    (rs : Option Nat) (ctx : Ctx) (W : World) (hb : recBlind body = true) :
    PRq (recoverDefault R (n + 1) dv id r body lx ctx W)
      (recoverDefault R (n + 1) dv id r body (lx.setRecoverState rs) ctx W) ∧
    ((∀ v l, (run R n body lx ctx (W.register id r)).1 ≠ .ok v l) →
      recoverDefault R (n + 1) dv id r body (lx.setRecoverState rs) ctx W =
        recoverDefault R (n + 1) dv id r body lx ctx W) := by
  refine ⟨(qAt R (n + 1)).recoverDefault dv id r body lx rs ctx W hb, fun hfail => ?_⟩
  exact recoverDefault_own_token_of_body R n dv id r body lx rs ctx W
    ((run_blind R n body lx rs ctx _ hb).eq_of_not_ok hfail) hfail

theorem recBlind_bodyOf (v : Nat) (a : G) : recBlind (bodyOf v a) = recBlind a := by
  unfold bodyOf; split <;> simp [recBlind]

/-- the same for the `recover` node of `run` -/
theorem run_recover_own_token (R : RunEnv) (n v id : Nat) (a : G) (r : Rec) (lx : Lx) (rs : Option Nat) (ctx : Ctx)
    (W : World) (ha : recBlind a = true) :
    PRq (run R (n + 2) (.recover v id a r) lx ctx W) (run R (n + 2) (.recover v id a r) (lx.setRecoverState rs) ctx W) ∧
    ((∀ v' l, (run R n (bodyOf v a) lx ctx (W.register id r)).1 ≠ .ok v' l) →
      run R (n + 2) (.recover v id a r) (lx.setRecoverState rs) ctx W = run R (n + 2) (.recover v id a r) lx ctx W) := by
  rw [run_recover, run_recover]
  exact recoverDefault_own_token R n (dvOf v) id r (bodyOf v a) lx rs ctx W (by rw [recBlind_bodyOf]; exact ha)

/-! ### the state a recovery leaves in the lexer -/

theorem peek_recover {σ τ : Type} {E : LexEnv σ τ} (lx : Lexer σ τ) : (lx.peek E).2.recover = lx.recover := by
  have h := peek_setRec (E := E) lx.recover lx
  rw [setRec_self] at h
  exact congrArg (fun x => x.2.recover) h

theorem next_recover {σ τ : Type} {E : LexEnv σ τ} (lx : Lexer σ τ) : (lx.next E).2.recover = lx.recover := by
  have h := next_setRec (E := E) lx.recover lx
  rw [setRec_self] at h
  exact congrArg (fun x => x.2.recover) h

theorem recoverLoop_recover (R : RunEnv) (id : Nat) : ∀ (n : Nat) (lx : Lx) (W : World) (lx' : Lx) (W' : World),
    recoverLoop R id n lx W = (some lx', W') → lx'.recover = lx.recover := by
  intro n
  induction n with
  | zero => intro lx W lx' W' h; simp [recoverLoop] at h
  | succ n ih =>
    intro lx W lx' W' h
    simp only [recoverLoop] at h
    have hp := peek_recover (E := R.E) lx
    generalize lx.peek R.E = pk at h hp
    obtain ⟨o, l1⟩ := pk
    cases o with
    | none => simp at h
    | some t =>
      simp only at h hp
      split at h
      · cases h; exact hp
      · have := ih _ _ _ _ h
        rw [this, next_recover, hp]

theorem advanceToRecover_recover (R : RunEnv) (lx : Lx) (W : World) (lx' : Lx) (W' : World)
    (h : advanceToRecover R lx W = (some lx', W')) : lx'.recover = lx.recover := by
  unfold advanceToRecover at h
  split at h
  · cases h; rfl
  · exact recoverLoop_recover R _ _ _ _ _ _ h

/-- after a recovery (wrapped parser failed, placeholder returned) the returned lexer
is in the recovering state *of this combinator* -/
theorem recoverDefault_recovered_state (R : RunEnv) (n : Nat) (dv : Val) (id : Nat) (r : Rec) (body : G) (lx : Lx)
    (ctx : Ctx) (W W1 : World) (e : PErr) (hbody : run R n body lx ctx (W.register id r) = (.err e, W1))
    (v : Val) (lx' : Lx) (W' : World) (h : recoverDefault R (n + 1) dv id r body lx ctx W = (.ok v lx', W')) :
    lx'.recover = some id := by
  simp only [recoverDefault, hbody] at h
  split at h
  · cases h
  · split at h
    · next lx'' W3 hadv =>
      cases h
      exact advanceToRecover_recover R _ _ _ _ hadv
    · cases h

/-- **Own token, whatever state, position form** (any wrapped parser): started on
`lx` carrying *any* stored recover state `rs`, if the wrapped parser fails the
combinator returns the lexer peeked at *its own* recovery point in the view of `lx`
(`K`, `j` describe `lx`; they do not depend on `rs`), in *its own* recovering state. -/
theorem recoverDefault_fail_sink_any_state {m : Metrics} {len : Nat} {f : Option Nat} (R : RunEnv)
    (ok : ScanOK R.E m len) {K : List (RawTok Tok)} {j : Nat} {lx : Lx} (hat : AtIdx R.E m len f K j lx)
    (rs : Option Nat) (n : Nat) (dv : Val) (id : Nat) (r : Rec) (body : G) (ctx : Ctx) (W W1 : World) (e : PErr)
    (hW : specOf W id = none ∨ specOf W id = some r)
    (hbody : run R n body (lx.setRecoverState rs) ctx (W.register id r) = (.err e, W1))
    (hflag : isBefore r = true ∨ FlagClear id W1) (hsink : ctx.sink = true) :
    match recPoint r (K.drop j) with
    | some p => ∃ lx', recoverDefault R (n + 1) dv id r body (lx.setRecoverState rs) ctx W =
          (.ok dv lx', logged W1 ctx e) ∧
        Peeked R.E m len f K (j + p) lx' ∧ lx'.recover = some id
    | none => ∃ W', recoverDefault R (n + 1) dv id r body (lx.setRecoverState rs) ctx W = (.err ⟨[], .recover⟩, W') ∧
        (W' = logged W1 ctx e ∨
          (isAfter r = true ∧ W' = { logged W1 ctx e with found := id :: W1.found })) := by
  have := recoverDefault_fail_sink' R ok (setRecoverState_at rs hat) n dv id r body ctx W W1 e hW hbody hflag hsink
  split at this
  · next p hp =>
    obtain ⟨lx', h, hpk⟩ := this
    rw [hp]
    exact ⟨lx', h, hpk, recoverDefault_recovered_state R n dv id r body _ ctx W W1 e hbody _ _ _ h⟩
  · next hp =>
    rw [hp]
    exact this

/-- `one(k)` hands the stored recover state on (so does every parser that never calls
`set_recover_state`; shown here for the parser used in the examples) -/
theorem one_keeps_recover (R : RunEnv) (n k : Nat) (lx : Lx) (ctx : Ctx) (W : World) (v : Val) (lx' : Lx) (W' : World)
    (h : run R n (.one k) lx ctx W = (.ok v lx', W')) : lx'.recover = lx.recover := by
  cases n with
  | zero => simp [run] at h
  | succ n =>
    simp only [run] at h
    have hn := next_recover (E := R.E) lx
    generalize lx.next R.E = nx at h hn
    obtain ⟨o, l1⟩ := nx
    cases o with
    | none => simp at h
    | some t =>
      simp only at h hn
      split at h
      · cases h; exact hn
      · cases h

/-! ### two recovering combinators in sequence -/

section Seq
variable {m : Metrics} {len : Nat} {f : Option Nat}

/-- `both(first, ·)` after `first` returned the value `d` -/
def pairWith (d : Val) : RRes × World → RRes × World
  | (.ok x l, W) => (.ok (.pair d x) l, W)
  | r => r

/-- `both(recover₁, right(mid, recover₂))`: the first recovering combinator returned
`lx1` (after a recovery `lx1` is in the recovering state of closure `i1`:
`recoverDefault_recovered_state`), `mid` went from `lx1` to `lx2` (no stabilising
parser in between, so `lx2` still carries whatever state `lx1` had — no hypothesis on
it), the parser wrapped by the second fails from `lx2`.  Then the whole sequence
reports that error once and returns the lexer peeked at the recovery point of the
*second* closure computed from where *its* wrapped parser started (`K`, `j2` describe
`lx2`), in the recovering state of the second closure. -/
theorem sequence_two_recoveries (R : RunEnv) (ok : ScanOK R.E m len) {K : List (RawTok Tok)} {j2 : Nat}
    {lx lx1 lx2 : Lx} (n v1 i1 : Nat) (a1 : G) (r1 : Rec) (mid : G) (v2 i2 : Nat) (a2 : G) (r2 : Rec) (ctx : Ctx)
    (W W1 W2 W3 : World) (d1 vm : Val) (e2 : PErr) (hsink : ctx.sink = true)
    (h1 : run R (n + 4) (.recover v1 i1 a1 r1) lx ctx W = (.ok d1 lx1, W1))
    (hmid : run R (n + 2) mid lx1 ctx W1 = (.ok vm lx2, W2))
    (hat2 : AtIdx R.E m len f K j2 lx2)
    (hW : specOf W2 i2 = none ∨ specOf W2 i2 = some r2)
    (hbody2 : run R n (bodyOf v2 a2) lx2 ctx (W2.register i2 r2) = (.err e2, W3))
    (hflag : isBefore r2 = true ∨ FlagClear i2 W3) :
    match recPoint r2 (K.drop j2) with
    | some p => ∃ lx',
        run R (n + 5) (.both (.recover v1 i1 a1 r1) (.right mid (.recover v2 i2 a2 r2))) lx ctx W =
          (.ok (.pair d1 (dvOf v2)) lx', logged W3 ctx e2) ∧
        Peeked R.E m len f K (j2 + p) lx' ∧ lx'.recover = some i2
    | none => ∃ W',
        run R (n + 5) (.both (.recover v1 i1 a1 r1) (.right mid (.recover v2 i2 a2 r2))) lx ctx W =
          (.err ⟨[], .recover⟩, W') ∧
        (W' = logged W3 ctx e2 ∨ (isAfter r2 = true ∧ W' = { logged W3 ctx e2 with found := i2 :: W3.found })) := by
  have hrd := recoverDefault_fail_sink' R ok hat2 n (dvOf v2) i2 r2 (bodyOf v2 a2) ctx W2 W3 e2 hW hbody2 hflag hsink
  have hunf : run R (n + 5) (.both (.recover v1 i1 a1 r1) (.right mid (.recover v2 i2 a2 r2))) lx ctx W =
      pairWith d1 (run R (n + 2) (.recover v2 i2 a2 r2) lx2 ctx W2) := by
    have hb : run R (n + 3) (.both mid (.recover v2 i2 a2 r2)) lx1 ctx W1 =
        pairWith vm (run R (n + 2) (.recover v2 i2 a2 r2) lx2 ctx W2) := by
      rw [run]; simp only [hmid]
      generalize run R (n + 2) (.recover v2 i2 a2 r2) lx2 ctx W2 = x
      obtain ⟨rx, Wx⟩ := x
      cases rx <;> rfl
    have hri : run R (n + 4) (.right mid (.recover v2 i2 a2 r2)) lx1 ctx W1 =
        run R (n + 2) (.recover v2 i2 a2 r2) lx2 ctx W2 := by
      rw [run]; simp only [hb]
      generalize run R (n + 2) (.recover v2 i2 a2 r2) lx2 ctx W2 = x
      obtain ⟨rx, Wx⟩ := x
      cases rx <;> rfl
    rw [run]; simp only [h1, hri]
    generalize run R (n + 2) (.recover v2 i2 a2 r2) lx2 ctx W2 = x
    obtain ⟨rx, Wx⟩ := x
    cases rx <;> rfl
  rw [hunf, run_recover]
  split at hrd
  · next p hp =>
    obtain ⟨lx', h, hpk⟩ := hrd
    rw [hp]
    exact ⟨lx', by rw [h]; rfl, hpk, recoverDefault_recovered_state R n _ i2 r2 _ lx2 ctx W2 W3 e2 hbody2 _ _ _ h⟩
  · next hp =>
    obtain ⟨W', h, hW'⟩ := hrd
    rw [hp]
    exact ⟨W', by rw [h]; rfl, hW'⟩

end Seq

/-! ### the three excluded combinators do read the stored state (witnesses)

Text `; a` (kinds 5 0), closure 7 = `recover_before(a)` registered.
`stabilize(one(a))`: on the fresh lexer (no stored state) `advance_to_recover` is the
identity, the retry is skipped, the error comes back; on the same lexer carrying the
state of closure 7 it walks to `a` and the retry succeeds.  `list(one(a), ',')`
without a sink: the same through the `stabilize` inside `list`.  (`probe` prints the
`r=` field of the lexer it is given.) -/
namespace Reads
open Tephra.BracketRefine.Witness

def R : RunEnv := ⟨tabEnv [5, 0], []⟩
def m0 : Metrics := ⟨.lf, 4⟩
def lx0 : Lx := Lexer.new 0 m0 2
def ctx1 : Ctx := ⟨true, [], false⟩
def ctx0 : Ctx := ⟨false, [], false⟩
def W7 : World := ⟨[(7, .before 0)], [], [], []⟩
def isOk : RRes → Bool
  | .ok _ _ => true
  | _ => false
def isErr : RRes → Bool
  | .err _ => true
  | _ => false

set_option maxRecDepth 4000 in
theorem stabilize_reads :
    isErr (run R 6 (.stabilize (.one 0)) lx0 ctx1 W7).1 = true ∧
    isOk (run R 6 (.stabilize (.one 0)) (lx0.setRecoverState (some 7)) ctx1 W7).1 = true := by
  constructor
  · simp [isErr, run, stabLoop, advanceToRecover, R, tabEnv, scanTab, lx0, Lexer.new, Lexer.next, Lexer.nextLoop,
      Lexer.filtered, Pos.zero, m0]
  · simp [isOk, run, stabLoop, advanceToRecover, recoverLoop, askRecover, W7, R, tabEnv, scanTab, lx0, Lexer.new,
      Lexer.next, Lexer.nextLoop, Lexer.peek, Lexer.bufferNext, Lexer.bufferLoop, Lexer.filtered,
      Lexer.setRecoverState, Pos.zero, m0, Ctx.withoutSink]

set_option maxRecDepth 8000 in
theorem list_reads :
    isErr (run R 9 (.list 1 9 0 none (.one 0) 3 [8]) lx0 ctx0 W7).1 = true ∧
    isOk (run R 9 (.list 1 9 0 none (.one 0) 3 [8]) (lx0.setRecoverState (some 7)) ctx0 W7).1 = true := by
  constructor
  · simp [isErr, run, listLoop, stabValue, recoverDefault, sendError, hiBelow, advanceToRecover, R, tabEnv, scanTab,
      lx0, Lexer.new, Lexer.next, Lexer.peek, Lexer.bufferNext, Lexer.bufferLoop, World.register, W7, ctx0,
      Lexer.filtered, Pos.zero, m0]
  · simp [isOk, run, listLoop, stabValue, recoverDefault, sendError, hiBelow, hiReached, advanceToRecover,
      recoverLoop, askRecover, W7, R, tabEnv, scanTab, lx0, Lexer.new, Lexer.next, Lexer.peek, Lexer.bufferNext,
      Lexer.bufferLoop, Lexer.filtered, World.register, ctx0, Lexer.setRecoverState, Pos.zero, m0, Ctx.withoutSink]

/-- hence the statement of `run_blind` is false for `stabilize` and for `list` -/
theorem not_blind_stabilize :
    ¬ PRq (run R 6 (.stabilize (.one 0)) lx0 ctx1 W7) (run R 6 (.stabilize (.one 0)) (lx0.setRecoverState (some 7)) ctx1 W7) := by
  intro h
  obtain ⟨h1, h2⟩ := stabilize_reads
  refine h.elim (fun v l r W hx hy => ?_) (fun e W hx hy => ?_) (fun W hx hy => ?_) (fun W hx hy => ?_)
  · rw [hx] at h1; cases h1
  · rw [hy] at h2; cases h2
  · rw [hx] at h1; cases h1
  · rw [hx] at h1; cases h1

theorem not_blind_list :
    ¬ PRq (run R 9 (.list 1 9 0 none (.one 0) 3 [8]) lx0 ctx0 W7)
      (run R 9 (.list 1 9 0 none (.one 0) 3 [8]) (lx0.setRecoverState (some 7)) ctx0 W7) := by
  intro h
  obtain ⟨h1, h2⟩ := list_reads
  refine h.elim (fun v l r W hx hy => ?_) (fun e W hx hy => ?_) (fun W hx hy => ?_) (fun W hx hy => ?_)
  · rw [hx] at h1; cases h1
  · rw [hy] at h2; cases h2
  · rw [hx] at h1; cases h1
  · rw [hx] at h1; cases h1

end Reads

/-! ### witness: a composite wrapped parser (`invoke_explained_peg` is not vacuous)

Text `a b` (kinds 0 12 1, harness filter table), unfiltered lexer,
`recover(both(one(b), maybe(one(a))), recover_before(b))` with a sink, invoked twice:
the first invocation's wrapped parser fails on `a`, one report, placeholder, lexer
peeked at `b` (index 2 of the view); the second one's wrapped parser succeeds. -/
namespace Comp
open Tephra.PegRefine.Witness

def lxN : Lx := Lexer.new 0 mW 3
def ctx1 : Ctx := ⟨true, [], false⟩
def bodyC : G := .both (.one 1) (.maybe (.one 0))
def gC : G := .recover 1 7 bodyC (.before 1)
def eC : PErr := ⟨[], .unexp ⟨⟨0,0,0⟩, ⟨0,0,0⟩⟩ ⟨⟨0,0,0⟩, ⟨1,0,1⟩⟩ (.token 1) (.token ⟨0, 0⟩)⟩
def WC : World := ⟨[(7, .before 1)], [], [eC], []⟩
def lxB : Lx :=
  { metrics := mW, len := 3, scanner := 0, filter := none, recover := some 7,
    buffer := some ⟨0, ⟨2,0,2⟩, ⟨3,0,3⟩, ⟨1, 0⟩⟩, parseStart := ⟨0,0,0⟩, tokenStart := ⟨1,0,1⟩, cursor := ⟨2,0,2⟩ }
def lxE : Lx :=
  { metrics := mW, len := 3, scanner := 0, filter := none, recover := some 7,
    buffer := none, parseStart := ⟨0,0,0⟩, tokenStart := ⟨2,0,2⟩, cursor := ⟨3,0,3⟩ }

theorem body_in_fragment : pegWithRep bodyC = true := rfl

set_option maxRecDepth 4000 in
theorem first (n : Nat) : run RW (n + 6) gC lxN ctx1 World.init = (.ok .dflt lxB, WC) := by
  simp [run, gC, bodyC, recoverDefault, advanceToRecover, recoverLoop, askRecover, sendError, World.register,
    World.init, RW, EW, scanW, lxN, Lexer.new, Lexer.next, Lexer.nextLoop, Lexer.peek, Lexer.bufferNext,
    Lexer.bufferLoop, Lexer.filtered, Lexer.setRecoverState, Pos.zero, mkErr, Ctx.apply, ctx1, mW, lxB, WC, eC,
    Lexer.parseSpan, Lexer.tokenSpan, Span.enclosing]

set_option maxRecDepth 4000 in
theorem second (n : Nat) : run RW (n + 6) gC lxB ctx1 WC = (.ok (.pair (.tok ⟨1, 0⟩) .none) lxE, WC) := by
  simp [run, gC, bodyC, recoverDefault, World.register, WC, RW, EW, Lexer.next, ctx1, mW, lxB, lxE, Ctx.withoutSink]

theorem twice : Fam.RunF.invoke RW gC ctx1 2 lxN World.init =
    ([.ok .dflt lxB, .ok (.pair (.tok ⟨1, 0⟩) .none) lxE], WC) := by
  have h1 := first 3994
  have h2 := second 3994
  simp only [Fam.RunF.invoke, Fam.RunF.fuel]
  simp only [h1, h2]

end Comp

/-! ### witness: two recovering combinators in sequence

Text `a ; b , c` (kinds 0 5 1 6 2),
`both(recover(one(x), before(';')), right(one(';'), recover(one(x), before(','))))`
with a sink.  The first recovers at `;` (index 1) and leaves the lexer in the
recovering state of closure 7; `one(';')` hands that state on; the second wrapped
parser fails on `b` (index 2) and the second combinator resumes at `,` (index 3 =
2 + its recovery point 1), in the state of closure 8.  From index 2 the *first*
closure has no recovery point at all. -/
namespace Seq2
open Tephra.BracketRefine.Witness

def R : RunEnv := ⟨tabEnv [0, 5, 1, 6, 2], []⟩
def m0 : Metrics := ⟨.lf, 4⟩
def lx0 : Lx := Lexer.new 0 m0 5
def ctx1 : Ctx := ⟨true, [], false⟩
def rec1 : G := .recover 1 7 (.one 9) (.before 5)
def rec2 : G := .recover 1 8 (.one 9) (.before 6)
def g : G := .both rec1 (.right (.one 5) rec2)
def e1 : PErr := ⟨[], .unexp ⟨⟨0,0,0⟩, ⟨0,0,0⟩⟩ ⟨⟨0,0,0⟩, ⟨1,0,1⟩⟩ (.token 9) (.token ⟨0, 0⟩)⟩
def e2 : PErr := ⟨[], .unexp ⟨⟨0,0,0⟩, ⟨2,0,2⟩⟩ ⟨⟨2,0,2⟩, ⟨3,0,3⟩⟩ (.token 9) (.token ⟨1, 0⟩)⟩
def W1 : World := ⟨[(7, .before 5)], [], [e1], []⟩
def lx1 : Lx :=
  { metrics := m0, len := 5, scanner := 0, filter := none, recover := some 7,
    buffer := some ⟨0, ⟨1,0,1⟩, ⟨2,0,2⟩, ⟨5, 0⟩⟩, parseStart := ⟨0,0,0⟩, tokenStart := ⟨0,0,0⟩, cursor := ⟨1,0,1⟩ }
def lx2 : Lx :=
  { metrics := m0, len := 5, scanner := 0, filter := none, recover := some 7,
    buffer := none, parseStart := ⟨0,0,0⟩, tokenStart := ⟨1,0,1⟩, cursor := ⟨2,0,2⟩ }
def K : List (RawTok Tok) :=
  [⟨⟨0, 0⟩, ⟨0,0,0⟩, ⟨1,0,1⟩⟩, ⟨⟨5, 0⟩, ⟨1,0,1⟩, ⟨2,0,2⟩⟩, ⟨⟨1, 0⟩, ⟨2,0,2⟩, ⟨3,0,3⟩⟩, ⟨⟨6, 0⟩, ⟨3,0,3⟩, ⟨4,0,4⟩⟩,
   ⟨⟨2, 0⟩, ⟨4,0,4⟩, ⟨5,0,5⟩⟩]

theorem ok0 : ScanOK R.E m0 5 := tab_ok [0, 5, 1, 6, 2] m0

theorem view0 : kept R.E m0 5 lx0 = K := by
  simp [kept, LexIter.rawAt, Spec.rawFrom, R, tabEnv, scanTab, lx0, Lexer.new, Pos.zero, LexIter.keepOf, K]

set_option maxRecDepth 4000 in
theorem h1 (n : Nat) : run R (n + 4) rec1 lx0 ctx1 World.init = (.ok .dflt lx1, W1) := by
  simp [run, rec1, recoverDefault, advanceToRecover, recoverLoop, askRecover, sendError, World.register, World.init,
    R, tabEnv, scanTab, lx0, Lexer.new, Lexer.next, Lexer.nextLoop, Lexer.peek, Lexer.bufferNext, Lexer.bufferLoop,
    Lexer.filtered, Lexer.setRecoverState, Pos.zero, mkErr, Ctx.apply, ctx1, m0, lx1, W1, e1,
    Lexer.parseSpan, Lexer.tokenSpan, Span.enclosing]

theorem hmid (n : Nat) : run R (n + 2) (.one 5) lx1 ctx1 W1 = (.ok (.tok ⟨5, 0⟩) lx2, W1) := by
  simp [run, lx1, lx2, Lexer.next]

set_option maxRecDepth 4000 in
theorem hbody2 (n : Nat) :
    run R (n + 1) (bodyOf 1 (.one 9)) lx2 ctx1 (W1.register 8 (.before 6)) = (.err e2, W1.register 8 (.before 6)) := by
  simp [run, bodyOf, lx2, Lexer.next, Lexer.nextLoop, R, tabEnv, scanTab, Lexer.filtered, mkErr, e2, m0,
    Lexer.parseSpan, Lexer.tokenSpan, Span.enclosing]

theorem hat2 : AtIdx R.E m0 5 none K 2 lx2 :=
  ⟨⟨rfl, rfl, rfl, by simp [lx2], by simp [lx2], by simp [lx2]⟩, by
    simp [kept, LexIter.rawAt, Spec.rawFrom, R, tabEnv, scanTab, lx2, LexIter.keepOf, K]⟩

/-- the second closure's recovery point from where its wrapped parser started -/
theorem point2 : recPoint (.before 6) (K.drop 2) = some 1 := by
  simp [recPoint, K, List.findIdx?_cons]

/-- the first closure has none from there -/
theorem point1 : recPoint (.before 5) (K.drop 2) = none := by
  simp [recPoint, K, List.findIdx?_cons]

theorem spec2 : specOf W1 8 = none := by simp [RecoverFrame.specOf, W1]

end Seq2

end Tephra.RecoverSeq
