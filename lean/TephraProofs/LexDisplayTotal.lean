/-
  TephraProofs.LexDisplayTotal — `impl Display for Lexer`
  (`TephraModel.LexDisplay.lexerDisplay` / `renderLexer`) never panics on a lexer
  whose parse start and cursor are canonical positions of the text.

  The route is the one of `ReportTotal`: the display span is
  `Span::enclosing(parse_start, cursor)`, whose ends are the two positions in byte
  order, so it is a pair of aligned cuts of the text (`ReportPf.span_cut`);
  `SpanDisplay::new` succeeds on it (`RenderPf.spanDisplay_new_ok`, i.e. C18_widen) and
  the display renders whatever its highlights are (`RenderPf.writeSpanDisplay_ok`, i.e.
  C18_split / C16_render_total), as long as no highlight carries two messages — the
  three or four highlights `Highlight::new` builds carry one — and fewer than 256 of
  them are multi-line.

  No ordering of the stored positions is needed: `Span::enclosing` orders its
  arguments itself, and the renderer asks nothing of where a highlight lies (the
  `peek` highlight lies beyond the displayed lines whenever the buffered token is on a
  later line than the cursor).
-/
import TephraModel.LexDisplay
import TephraProofs.ReportTotal
import TephraProofs.LexInv

set_option linter.unusedVariables false

namespace Tephra.LexDisplayPf
open Tephra Tephra.Render Tephra.Spec Tephra.RenderPf Tephra.ReportPf Tephra.LexDisplay

variable {σ τ : Type}

theorem infoHighlight_msgOK (sp : Span) (msg : String) : MsgOK (infoHighlight sp msg) := Or.inl rfl

theorem lexerHighlights_msgOK (dbg : String) (lx : Lexer σ τ) :
    ∀ h ∈ lexerHighlights dbg lx, MsgOK h := by
  intro h hh
  unfold lexerHighlights at hh
  split at hh <;>
    simp only [List.cons_append, List.nil_append, List.append_nil, List.mem_cons, List.not_mem_nil,
      or_false] at hh
  · rcases hh with rfl | rfl | rfl | rfl <;> exact infoHighlight_msgOK _ _
  · rcases hh with rfl | rfl | rfl <;> exact infoHighlight_msgOK _ _

theorem lexerHighlights_length (dbg : String) (lx : Lexer σ τ) :
    (lexerHighlights dbg lx).length ≤ 4 := by
  unfold lexerHighlights
  split <;> simp

theorem lexerHighlights_multi (dbg : String) (lx : Lexer σ τ) :
    ((lexerHighlights dbg lx).filter (·.isMultiline)).length < 256 := by
  have h1 := List.length_filter_le (fun h : Highlight => h.isMultiline) (lexerHighlights dbg lx)
  have h2 := lexerHighlights_length dbg lx
  omega

/-- The display `Display for Lexer` builds exists and is written without panic (any painter,
colour on or off), when the parse start and the cursor are canonical positions of the text. -/
theorem lexerDisplay_ok (paint : Style → String → String) (color : Bool) (m : Metrics) (t : Text)
    (hwf : Text.WF t) (dbg : String) (name : Option String) (lx : Lexer σ τ)
    (hs : Canon m t lx.parseStart) (hc : Canon m t lx.cursor) :
    ∃ cd, lexerDisplay ⟨t, m, Pos.zero⟩ dbg lx name = .ok cd ∧
      ∃ s, writeCodeDisplay paint ⟨t, m, Pos.zero⟩ { cd with colorEnabled := color } = .ok s := by
  have hp := LexInv.enclosing_pos (P := Canon m t) hs hc
  obtain ⟨a, mid, z, rfl, ha1, ha2, hx⟩ :=
    span_cut m t hwf (Span.enclosing lx.parseStart lx.cursor) hp.1 hp.2
      (RunSpans.enclosing_le _ _)
  let sd : SpanDisplay :=
    ⟨name, widenSpec m a mid z, lexerHighlights dbg lx, [], gutterWidth (canon m (a ++ mid)).line⟩
  have hnew : lexerDisplay ⟨a ++ mid ++ z, m, Pos.zero⟩ dbg lx name =
      .ok { message := "Lexer", mtype := .note, codeId := none, spans := [sd], notes := [],
            colorEnabled := true } := by
    simp only [lexerDisplay, hx, spanDisplay_new_ok m a mid z hwf ha1 ha2 name, sd]
  refine ⟨_, hnew, ?_⟩
  apply writeCodeDisplay_ok
  intro sd' hsd
  simp only [List.mem_singleton] at hsd
  subst hsd
  exact writeSpanDisplay_ok paint color m a mid z hwf _ rfl (lexerHighlights_msgOK dbg lx)
    (lexerHighlights_multi dbg lx)

/-- `format!("{}", lexer)` never panics. -/
theorem renderLexer_ok (m : Metrics) (t : Text) (hwf : Text.WF t) (dbg : String)
    (name : Option String) (lx : Lexer σ τ)
    (hs : Canon m t lx.parseStart) (hc : Canon m t lx.cursor) :
    ∃ s, renderLexer ⟨t, m, Pos.zero⟩ dbg lx name = .ok s := by
  obtain ⟨cd, hcd, s, hs'⟩ := lexerDisplay_ok plainPaint true m t hwf dbg name lx hs hc
  exact ⟨s, by simp only [renderLexer, hcd, hs']⟩

/-- for a source given as a value: offset zero -/
theorem renderLexer_ok_src (src : Source) (hoff : src.offset = Pos.zero) (hwf : Text.WF src.text)
    (dbg : String) (name : Option String) (lx : Lexer σ τ)
    (hp : PosOK (fun p => isCanon src.metrics src.text p = true) lx) :
    ∃ s, renderLexer src dbg lx name = .ok s := by
  obtain ⟨t, m, off⟩ := src
  simp only at hoff hwf hp
  subst hoff
  exact renderLexer_ok m t hwf dbg name lx hp.1 hp.2.2.1

end Tephra.LexDisplayPf
