/-
  C19 lemmas: every `ColumnMetrics` navigation method, called at the canonical
  position of an aligned cut `pre ++ suf`, returns what `Spec.navSpec` requires.
-/
import TephraProofs.Canon

namespace Tephra
open Tephra.Spec

/-! ### Bytes, well-formedness, the `Res` monad -/

@[simp] theorem bytes_nil : bytes ([] : Text) = 0 := rfl
@[simp] theorem bytes_cons (c : Ch) (r : Text) : bytes (c :: r) = c.size + bytes r := by
  simp [bytes]
@[simp] theorem bytes_append (a b : Text) : bytes (a ++ b) = bytes a + bytes b := by
  simp [bytes, List.map_append, List.sum_append]

theorem WF_cons {c : Ch} {r : Text} : Text.WF (c :: r) ↔ c.WF ∧ Text.WF r := by
  simp [Text.WF]

theorem WF_append {a b : Text} : Text.WF (a ++ b) ↔ Text.WF a ∧ Text.WF b := by
  simp only [Text.WF, List.mem_append]
  constructor
  · intro h; exact ⟨fun c hc => h c (Or.inl hc), fun c hc => h c (Or.inr hc)⟩
  · rintro ⟨h1, h2⟩ c (hc | hc); exact h1 c hc; exact h2 c hc

theorem WF_nil : Text.WF [] := by simp [Text.WF]

theorem bytes_eq_zero {t : Text} (hwf : Text.WF t) : bytes t = 0 ↔ t = [] := by
  cases t with
  | nil => simp
  | cons c r => have := (hwf c (by simp)).1; simp; omega

theorem bytes_pos {t : Text} (hwf : Text.WF t) (h : t ≠ []) : 0 < bytes t := by
  cases t with
  | nil => exact absurd rfl h
  | cons c r => have := (hwf c (by simp)).1; simp; omega

@[simp] theorem Res.ok_bind {α β} (a : α) (f : α → Res β) : (Res.ok a >>= f) = f a := rfl
@[simp] theorem Res.ok_bind' {α β} (a : α) (f : α → Res β) : (Res.ok a).bind f = f a := rfl
@[simp] theorem Res.pure_eq {α} (a : α) : (pure a : Res α) = Res.ok a := rfl

theorem csub_ok {a b : Nat} (h : b ≤ a) : csub a b = .ok (a - b) := by simp [csub, h]

/-! ### Slicing at the cut -/

theorem splitAtByte_zero (t : Text) : splitAtByte t 0 = some ([], t) := by
  cases t <;> simp [splitAtByte]

theorem splitAtByte_append {pre suf : Text} (hwf : Text.WF pre) :
    splitAtByte (pre ++ suf) (bytes pre) = some (pre, suf) := by
  induction pre with
  | nil => simp [splitAtByte_zero]
  | cons c r ih =>
    have h1 := (hwf c (by simp)).1
    obtain ⟨k, hk⟩ : ∃ k, bytes (c :: r) = k + 1 := ⟨c.size + bytes r - 1, by simp; omega⟩
    have hk' : k + 1 - c.size = bytes r := by simp at hk; omega
    have hle : c.size ≤ k + 1 := by simp at hk; omega
    rw [List.cons_append, hk, splitAtByte]
    simp only [hle, if_true, hk', ih (fun x hx => hwf x (by simp [hx]))]

@[simp] theorem canonFrom_byte (m : Metrics) (p : Pos) (t : Text) :
    (canonFrom m p t).byte = p.byte + bytes t := rfl

@[simp] theorem canon_byte (m : Metrics) (t : Text) : (canon m t).byte = bytes t := by
  simp [canon, Pos.zero]

@[simp] theorem canonFrom_nil (m : Metrics) (p : Pos) : canonFrom m p [] = p := by
  simp [canonFrom, linesOf, colWidth]

@[simp] theorem canon_nil (m : Metrics) : canon m [] = Pos.zero := by simp [canon]

/-! ### Alignment -/

theorem aligned_nil_left (m : Metrics) (b : Text) : aligned m [] b = true := by
  unfold aligned; split <;> simp

theorem aligned_nil_right (m : Metrics) (a : Text) : aligned m a [] = true := by
  unfold aligned; split <;> simp

theorem aligned_append_left (m : Metrics) (x : Text) {a : Text} (b : Text) (h : a ≠ []) :
    aligned m (x ++ a) b = aligned m a b := by
  unfold aligned
  have : (x ++ a).getLast? = a.getLast? := by
    rw [List.getLast?_append]
    cases h' : a.getLast? with
    | none => simp at h'; exact absurd h' h
    | some v => simp
  rw [this]

theorem aligned_append_right (m : Metrics) (a : Text) {b : Text} (y : Text) (h : b ≠ []) :
    aligned m a (b ++ y) = aligned m a b := by
  unfold aligned
  have : (b ++ y).head? = b.head? := by
    cases b with
    | nil => exact absurd rfl h
    | cons c r => simp
  rw [this]

/-- Alignment is inherited by a suffix of the left part. -/
theorem aligned_suffix_left {m : Metrics} {x a b : Text} (h : aligned m (x ++ a) b = true) :
    aligned m a b = true := by
  by_cases ha : a = []
  · subst ha; exact aligned_nil_left m b
  · rwa [aligned_append_left m x b ha] at h

/-- Alignment is inherited by a prefix of the right part. -/
theorem aligned_prefix_right {m : Metrics} {a b y : Text} (h : aligned m a (b ++ y) = true) :
    aligned m a b = true := by
  by_cases hb : b = []
  · subst hb; exact aligned_nil_right m a
  · rwa [aligned_append_right m a y hb] at h

theorem aligned_tail {m : Metrics} {c : Ch} {r b : Text} (h : aligned m (c :: r) b = true) :
    aligned m r b = true := aligned_suffix_left (x := [c]) h

/-! ### Line endings across a cut; forward measurement composes -/

theorem stripCodes_append_right {t rest : Text} {ks : List Nat} (b : Text)
    (h : stripCodes t ks = some rest) : stripCodes (t ++ b) ks = some (rest ++ b) := by
  induction ks generalizing t with
  | nil => simp [stripCodes] at h ⊢; simp [h]
  | cons k ks ih =>
    cases t with
    | nil => simp [stripCodes] at h
    | cons c r =>
      simp only [stripCodes, List.cons_append] at h ⊢
      split at h
      · rename_i hc; simp [hc, ih h]
      · simp at h

theorem stripCodes_of_map (l x : Text) : stripCodes (l ++ x) (l.map (·.code)) = some x := by
  induction l with
  | nil => simp [stripCodes]
  | cons c r ih => simp [stripCodes, ih]

theorem lbLen_pos (m : Metrics) : 0 < lbLen m := by
  unfold lbLen lbCodes; split <;> simp

/-- At an aligned cut a line ending found in `a ++ b` at the head of a non-empty `a` lies inside `a`. -/
theorem breakAt_append {m : Metrics} {a b : Text} (ha : a ≠ []) (hal : aligned m a b = true) :
    breakAt m (a ++ b) = (breakAt m a).map (· ++ b) := by
  obtain ⟨le, tab⟩ := m
  cases a with
  | nil => exact absurd rfl ha
  | cons c r =>
    cases le
    · simp [breakAt, lbCodes, stripCodes]
    · simp [breakAt, lbCodes, stripCodes]
    · cases r with
      | cons d r' =>
        simp [breakAt, lbCodes, stripCodes]
        split
        · split <;> simp
        · simp
      | nil =>
        cases b with
        | nil => simp [breakAt, lbCodes, stripCodes]
        | cons e b' =>
          simp [aligned] at hal
          simp [breakAt, lbCodes, stripCodes]
          intro h1 h2; omega


theorem breakAt_split {m : Metrics} {t rest : Text} (h : breakAt m t = some rest) :
    t = t.take (lbLen m) ++ rest ∧ (t.take (lbLen m)).map (·.code) = lbCodes m :=
  stripCodes_append h

theorem breakAt_WF {m : Metrics} {t rest : Text} (hwf : Text.WF t) (h : breakAt m t = some rest) :
    Text.WF rest := by
  obtain ⟨h1, _⟩ := breakAt_split h
  rw [h1] at hwf; exact (WF_append.mp hwf).2

/-- Forward measurement composes across an aligned cut. -/
theorem canonFrom_append {m : Metrics} (p : Pos) {a b : Text} (hwf : Text.WF (a ++ b))
    (hal : aligned m a b = true) :
    canonFrom m p (a ++ b) = canonFrom m (canonFrom m p a) b := by
  induction hn : a.length using Nat.strongRecOn generalizing a p with
  | _ n ih =>
    cases a with
    | nil => simp
    | cons c r =>
      have hb := breakAt_append (m := m) (a := c :: r) (b := b) (by simp) hal
      have hwa := (WF_append.mp hwf).1
      cases hbr : breakAt m (c :: r) with
      | some rest' =>
        rw [hbr] at hb; simp only [Option.map_some] at hb
        have hlen := breakAt_length hbr
        obtain ⟨h1, _⟩ := breakAt_split hbr
        rw [canonFrom_break hwf hb, canonFrom_break hwa hbr]
        refine ih rest'.length (by omega) _ (breakAt_WF hwf hb) ?_ rfl
        rw [h1] at hal; exact aligned_suffix_left hal
      | none =>
        rw [hbr] at hb; simp only [Option.map_none] at hb
        have hc := (WF_cons.mp hwa).1
        rw [List.cons_append] at hb ⊢
        rw [canonFrom_nobreak hc hb, canonFrom_nobreak hc hbr]
        refine ih r.length (by simp at hn; omega) _ ?_ (aligned_tail hal) rfl
        rw [List.cons_append] at hwf; exact (WF_cons.mp hwf).2

theorem canon_append {m : Metrics} {a b : Text} (hwf : Text.WF (a ++ b))
    (hal : aligned m a b = true) : canon m (a ++ b) = canonFrom m (canon m a) b :=
  canonFrom_append _ hwf hal

/-! ### One forward step -/

theorem aligned_of_codes {m : Metrics} {u : Text} (x : Text) (h : u.map (·.code) = lbCodes m) :
    aligned m u x = true := by
  obtain ⟨le, tab⟩ := m
  cases le <;> simp [aligned]
  simp [lbCodes] at h
  match u, h with
  | [], h => simp at h
  | [_], h => simp at h
  | _ :: _ :: _ :: _, h => simp at h
  | [c, d], h =>
    simp at h
    cases x <;> simp [h.2]

theorem aligned_single_of_nobreak {m : Metrics} {c : Ch} {rest : Text}
    (h : breakAt m (c :: rest) = none) : aligned m [c] rest = true := by
  obtain ⟨le, tab⟩ := m
  cases le <;> simp [aligned]
  cases rest with
  | nil => simp
  | cons d r =>
    simp [breakAt, lbCodes, stripCodes] at h ⊢
    by_cases hc : c.code = 13 <;> simp_all

theorem breakAt_nil (m : Metrics) : breakAt m [] = none := by
  unfold breakAt lbCodes; split <;> simp [stripCodes]

theorem firstUnit_nil (m : Metrics) : firstUnit m [] = none := by
  simp [firstUnit, breakAt_nil]

theorem canonFrom_unit_break {m : Metrics} (p : Pos) {u : Text} (hwf : Text.WF u)
    (h : u.map (·.code) = lbCodes m) :
    canonFrom m p u = { byte := p.byte + lbLen m, line := p.line + 1, col := 0 } := by
  have hb : breakAt m u = some [] := by
    have := stripCodes_of_map u []
    rw [h] at this; simpa [breakAt] using this
  rw [canonFrom_break hwf hb, canonFrom_nil]

theorem canonFrom_single {m : Metrics} (p : Pos) {c : Ch} (hwf : c.WF)
    (h : breakAt m [c] = none) : canonFrom m p [c] = stepCh m p c := by
  rw [canonFrom_nobreak hwf h, canonFrom_nil]

/-- One forward step = the canonical position after the first unit. -/
theorem stepSuf_some {m : Metrics} {p q : Pos} {suf rest : Text} (hwf : Text.WF suf)
    (h : stepSuf m p suf = some (q, rest)) :
    ∃ u, firstUnit m suf = some u ∧ suf = u ++ rest ∧ u ≠ [] ∧ aligned m u rest = true ∧
      q = canonFrom m p u := by
  unfold stepSuf at h
  unfold firstUnit
  split at h
  · rename_i r hb
    simp at h; obtain ⟨rfl, rfl⟩ := h
    obtain ⟨h1, h2⟩ := breakAt_split hb
    have hl : suf.length - r.length = lbLen m := by
      have := stripCodes_length hb; unfold lbLen; omega
    have hne : suf.take (lbLen m) ≠ [] := by
      intro h0; rw [h0] at h2; have := lbLen_pos m; unfold lbLen at this
      simp at h2; rw [h2] at this; simp at this
    have hwu : Text.WF (suf.take (lbLen m)) := by rw [h1] at hwf; exact (WF_append.mp hwf).1
    refine ⟨suf.take (lbLen m), by simp [hb, hl], h1, hne, aligned_of_codes _ h2, ?_⟩
    rw [canonFrom_unit_break p hwu h2]
  · rename_i hb
    split at h
    · simp at h
    · rename_i c r
      simp at h; obtain ⟨rfl, rfl⟩ := h
      have hal := aligned_single_of_nobreak hb
      have hb1 : breakAt m [c] = none := by
        have := breakAt_append (m := m) (a := [c]) (b := r) (by simp) hal
        rw [List.singleton_append, hb] at this; simpa using this.symm
      refine ⟨[c], by simp [hb], rfl, by simp, hal, ?_⟩
      rw [canonFrom_single p (WF_cons.mp hwf).1 hb1]

theorem stepSuf_none {m : Metrics} {p : Pos} {suf : Text} (h : stepSuf m p suf = none) :
    suf = [] := by
  unfold stepSuf at h
  split at h
  · simp at h
  · split at h
    · rfl
    · simp at h

theorem firstUnit_eq_none {m : Metrics} {suf : Text} (h : firstUnit m suf = none) : suf = [] := by
  unfold firstUnit at h
  split at h
  · simp at h
  · cases suf <;> simp at h; rfl

theorem stepSuf_nil (m : Metrics) (p : Pos) : stepSuf m p [] = none := by
  simp [stepSuf, breakAt_nil]

/-- Closed form of one step. -/
theorem stepSuf_eq {m : Metrics} (p : Pos) {suf : Text} (hwf : Text.WF suf) :
    stepSuf m p suf = (firstUnit m suf).map fun u => (canonFrom m p u, suf.drop u.length) := by
  cases hs : stepSuf m p suf with
  | none => have := stepSuf_none hs; subst this; simp [firstUnit_nil]
  | some qr =>
    obtain ⟨q, rest⟩ := qr
    obtain ⟨u, h1, h2, _, _, h5⟩ := stepSuf_some hwf hs
    simp [h1, h5]; rw [h2]; simp

/-! ### Forward group -/

theorem firstUnit_some {m : Metrics} {suf u : Text} (hwf : Text.WF suf)
    (h : firstUnit m suf = some u) :
    ∃ rest, suf = u ++ rest ∧ u ≠ [] ∧ aligned m u rest = true := by
  have hs := stepSuf_eq (m := m) Pos.zero hwf
  rw [h] at hs
  obtain ⟨u', h1, h2, h3, h4, _⟩ := stepSuf_some hwf hs
  rw [h] at h1; cases h1
  exact ⟨_, h2, h3, h4⟩

theorem canon_append_prefix {m : Metrics} {pre x y : Text} (hwf : Text.WF (pre ++ (x ++ y)))
    (hal : aligned m pre (x ++ y) = true) :
    canon m (pre ++ x) = canonFrom m (canon m pre) x := by
  apply canon_append
  · rw [← List.append_assoc] at hwf; exact (WF_append.mp hwf).1
  · exact aligned_prefix_right hal

theorem split_cut (m : Metrics) {pre suf : Text} (hwf : Text.WF (pre ++ suf)) :
    splitAtByte (pre ++ suf) (canon m pre).byte = some (pre, suf) := by
  rw [canon_byte]; exact splitAtByte_append (WF_append.mp hwf).1

/-- (1) `next_position`. -/
theorem nextPosition_cut {m : Metrics} {pre suf : Text} (hwf : Text.WF (pre ++ suf))
    (hal : aligned m pre suf = true) :
    nextPosition m (pre ++ suf) (canon m pre)
      = .ok ((firstUnit m suf).map fun u => canon m (pre ++ u)) := by
  have hws := (WF_append.mp hwf).2
  unfold nextPosition
  rw [split_cut m hwf]
  simp only [stepSuf_eq _ hws]
  cases hu : firstUnit m suf with
  | none => simp
  | some u =>
    obtain ⟨rest, h1, _, _⟩ := firstUnit_some hws hu
    subst h1
    simp [canon_append_prefix hwf hal]

@[simp] theorem head!_cons' {α} [Inhabited α] (a : α) (l : List α) : (a :: l).head! = a := rfl

@[simp] theorem getLast!_concat' {α} [Inhabited α] (a : α) (l : List α) :
    (l ++ [a]).getLast! = a := by
  exact List.getLast!_of_getLast? List.getLast?_concat

theorem breakAt_none_prefix {m : Metrics} {a b : Text} (h : breakAt m (a ++ b) = none) :
    breakAt m a = none := by
  cases ha : breakAt m a with
  | none => rfl
  | some r => have := stripCodes_append_right b ha; unfold breakAt at h; rw [h] at this; cases this

theorem aligned_of_breakAt {m : Metrics} (a : Text) {b r : Text} (h : breakAt m b = some r) :
    aligned m a b = true := by
  obtain ⟨le, tab⟩ := m
  cases le <;> simp [aligned]
  cases b with
  | nil => simp
  | cons c b' =>
    simp [breakAt, lbCodes, stripCodes] at h
    cases hl : a.getLast? <;> simp
    omega

theorem curLineSuf_nil (m : Metrics) : curLineSuf m [] = [] := by simp [curLineSuf, linesOf]

/-- The current-line part of a suffix is a prefix of it, followed by nothing or a line ending. -/
theorem curLineSuf_split (m : Metrics) (suf : Text) :
    ∃ rest, suf = curLineSuf m suf ++ rest ∧
      ((rest = [] ∧ linesOf m suf = [curLineSuf m suf]) ∨
       (∃ r', breakAt m rest = some r' ∧ linesOf m suf = curLineSuf m suf :: linesOf m r')) := by
  induction suf with
  | nil => exact ⟨[], by simp [curLineSuf_nil], Or.inl ⟨rfl, by simp [curLineSuf_nil, linesOf]⟩⟩
  | cons c r ih =>
    cases hb : breakAt m (c :: r) with
    | some r' =>
      have hl := linesOf_break hb
      have hc : curLineSuf m (c :: r) = [] := by simp [curLineSuf, hl]
      exact ⟨c :: r, by simp [hc], Or.inr ⟨r', hb, by rw [hc, hl]⟩⟩
    | none =>
      obtain ⟨l, ls, h1, h2⟩ := linesOf_nobreak hb
      have hc : curLineSuf m (c :: r) = c :: l := by simp [curLineSuf, h2]
      have hc' : curLineSuf m r = l := by simp [curLineSuf, h1]
      obtain ⟨rest, e, hcase⟩ := ih
      rw [hc'] at e hcase
      refine ⟨rest, by rw [hc]; simp [← e], ?_⟩
      rw [hc, h2]
      rcases hcase with ⟨h3, h4⟩ | ⟨r', h3, h4⟩
      · left; rw [h1] at h4; simp at h4; exact ⟨h3, by simp [h4]⟩
      · right; rw [h1] at h4; simp at h4; exact ⟨r', h3, by simp [h4]⟩

/-- (12) `is_line_break`. -/
theorem isLineBreak_cut {m : Metrics} {pre suf : Text} (hwf : Text.WF (pre ++ suf)) :
    isLineBreak m (pre ++ suf) (canon m pre).byte
      = .ok (decide ((linesOf m suf).length > 1) && (curLineSuf m suf).isEmpty) := by
  unfold isLineBreak
  rw [split_cut m hwf]
  congr 1
  cases suf with
  | nil => simp [breakAt_nil, linesOf]
  | cons c r =>
    cases hb : breakAt m (c :: r) with
    | some r' =>
      have := linesOf_ne_nil m r'
      simp [curLineSuf, linesOf_break hb]
      cases h : linesOf m r' <;> simp_all
    | none =>
      obtain ⟨l, ls, h1, h2⟩ := linesOf_nobreak hb
      simp [curLineSuf, h2, hb]

theorem lineEndSuf_eq (m : Metrics) (p : Pos) (suf : Text) (hwf : Text.WF suf) :
    lineEndSuf m p suf = canonFrom m p (curLineSuf m suf) := by
  induction suf generalizing p with
  | nil => simp [lineEndSuf, curLineSuf_nil]
  | cons c r ih =>
    rw [lineEndSuf]
    cases hb : breakAt m (c :: r) with
    | some r' => simp [curLineSuf, linesOf_break hb]
    | none =>
      obtain ⟨l, ls, h1, h2⟩ := linesOf_nobreak hb
      have hc' : curLineSuf m r = l := by simp [curLineSuf, h1]
      obtain ⟨rest, e, _⟩ := curLineSuf_split m r
      rw [hc'] at e
      have hb' : breakAt m (c :: l) = none := by
        rw [e] at hb; exact breakAt_none_prefix (a := c :: l) (b := rest) hb
      simp only [curLineSuf, h2, head!_cons']
      rw [canonFrom_nobreak (WF_cons.mp hwf).1 hb', ih _ (WF_cons.mp hwf).2, hc']

/-- (4) `line_end_position`. -/
theorem lineEndPosition_cut {m : Metrics} {pre suf : Text} (hwf : Text.WF (pre ++ suf))
    (hal : aligned m pre suf = true) :
    lineEndPosition m (pre ++ suf) (canon m pre) = .ok (canon m (pre ++ curLineSuf m suf)) := by
  have hws := (WF_append.mp hwf).2
  unfold lineEndPosition
  split
  · rename_i h
    have : suf = [] := by
      simp at h; exact (bytes_eq_zero hws).mp (by omega)
    subst this; simp [curLineSuf_nil]
  · rw [split_cut m hwf]
    simp only [lineEndSuf_eq m _ suf hws]
    obtain ⟨rest, e, _⟩ := curLineSuf_split m suf
    rw [e] at hwf hal
    rw [canon_append_prefix hwf hal]

/-- (8) `end_position`. -/
theorem endPosition_cut {m : Metrics} {pre suf : Text} (hwf : Text.WF (pre ++ suf))
    (hal : aligned m pre suf = true) :
    endPosition m (pre ++ suf) (canon m pre) = .ok (canon m (pre ++ suf)) := by
  have hws := (WF_append.mp hwf).2
  unfold endPosition
  split
  · rename_i h
    have : suf = [] := by
      simp at h; exact (bytes_eq_zero hws).mp (by omega)
    subst this; simp
  · rw [split_cut m hwf]
    simp only [endSuf_eq_canonFrom m _ suf hws, canon_append hwf hal]

theorem take_unit {u rest : Text} :
    (u ++ rest).take ((u ++ rest).length - ((u ++ rest).drop u.length).length) = u := by
  simp

/-- (11) `next_position_after_chars_matching`. -/
theorem nextPositionAfterCharsMatching_cut {m : Metrics} {pre suf : Text} (f : Ch → Bool)
    (hwf : Text.WF (pre ++ suf)) (hal : aligned m pre suf = true) :
    nextPositionAfterCharsMatching m f (pre ++ suf) (canon m pre)
      = .ok (match firstUnit m suf with
             | some u => if u.all f then some (canon m (pre ++ u)) else none
             | none => none) := by
  have hws := (WF_append.mp hwf).2
  unfold nextPositionAfterCharsMatching
  rw [split_cut m hwf]
  simp only [stepSuf_eq _ hws]
  cases hu : firstUnit m suf with
  | none => simp
  | some u =>
    obtain ⟨rest, h1, _, _⟩ := firstUnit_some hws hu
    subst h1
    simp only [Option.map_some, take_unit, canon_append_prefix hwf hal]

theorem firstUnit_break {m : Metrics} {t r : Text} (h : breakAt m t = some r) :
    firstUnit m t = some (t.take (lbLen m)) := by
  have hl : t.length - r.length = lbLen m := by
    have := stripCodes_length h; unfold lbLen; omega
  simp [firstUnit, h, hl]

/-- (6) `next_line_start_position`. -/
theorem nextLineStartPosition_cut {m : Metrics} {pre suf : Text} (hwf : Text.WF (pre ++ suf))
    (hal : aligned m pre suf = true) :
    nextLineStartPosition m (pre ++ suf) (canon m pre)
      = .ok (if (linesOf m suf).length ≤ 1 then none
             else some (canon m (pre ++ suf.take ((curLineSuf m suf).length + lbLen m)))) := by
  unfold nextLineStartPosition
  rw [lineEndPosition_cut hwf hal]
  simp only [Res.ok_bind]
  obtain ⟨rest, e, hcase⟩ := curLineSuf_split m suf
  generalize curLineSuf m suf = sl at e hcase ⊢
  subst e
  have hal2 : aligned m (pre ++ sl) rest = true := by
    rcases hcase with ⟨h3, _⟩ | ⟨r', h3, _⟩
    · subst h3; exact aligned_nil_right _ _
    · exact aligned_of_breakAt _ h3
  have hwf2 : Text.WF ((pre ++ sl) ++ rest) := by rwa [List.append_assoc]
  have := nextPosition_cut hwf2 hal2
  rw [List.append_assoc] at this
  rw [this]
  rcases hcase with ⟨h3, h4⟩ | ⟨r', h3, h4⟩
  · subst h3; simp at h4; simp [firstUnit_nil, h4]
  · have := linesOf_ne_nil m r'
    have hlen : ¬ ((linesOf m (sl ++ rest)).length ≤ 1) := by
      rw [h4]; cases h : linesOf m r' <;> simp_all
    simp only [firstUnit_break h3, hlen, if_false, Option.map_some]
    simp [List.take_append, List.take_of_length_le]

theorem matchingRun_nil (m : Metrics) (f : Ch → Bool) : matchingRun m f [] = [] := by
  rw [matchingRun]; split
  · rfl
  · rename_i u h; simp [firstUnit_nil] at h

theorem matchingRun_step {m : Metrics} (f : Ch → Bool) {u rest : Text}
    (hu : firstUnit m (u ++ rest) = some u) (hne : u ≠ []) :
    matchingRun m f (u ++ rest) = if u.all f then u ++ matchingRun m f rest else [] := by
  rw [matchingRun]; split
  · rename_i h; rw [hu] at h; cases h
  · rename_i u' h
    rw [hu] at h; cases h
    have : u.length ≠ 0 := by simpa using hne
    simp [this]

theorem matchingRun_prefix {m : Metrics} (f : Ch → Bool) (suf : Text) (hwf : Text.WF suf) :
    ∃ y, suf = matchingRun m f suf ++ y := by
  induction hn : suf.length using Nat.strongRecOn generalizing suf with
  | _ n ih =>
    cases hu : firstUnit m suf with
    | none => have := firstUnit_eq_none hu; subst this; exact ⟨[], by simp [matchingRun_nil]⟩
    | some u =>
      obtain ⟨rest, h1, h2, h3⟩ := firstUnit_some hwf hu
      subst h1
      rw [matchingRun_step f hu h2]
      split
      · obtain ⟨y, hy⟩ := ih rest.length (by
          have : 0 < u.length := List.length_pos_iff.mpr h2
          simp at hn; omega) rest (WF_append.mp hwf).2 rfl
        exact ⟨y, by rw [List.append_assoc, ← hy]⟩
      · exact ⟨_, rfl⟩

theorem afterMatchingSuf_eq (m : Metrics) (f : Ch → Bool) (p : Pos) (suf : Text)
    (hwf : Text.WF suf) :
    afterMatchingSuf m f p suf = canonFrom m p (matchingRun m f suf) := by
  fun_induction afterMatchingSuf m f p suf with
  | case1 p suf h =>
    have := stepSuf_none h; subst this; simp [matchingRun_nil]
  | case2 p suf q rest h hall ih =>
    obtain ⟨u, h1, h2, h3, h4, h5⟩ := stepSuf_some hwf h
    subst h2
    have hall' : u.all f = true := by simpa using hall
    rw [matchingRun_step f h1 h3, if_pos hall', ih (WF_append.mp hwf).2, h5]
    obtain ⟨y, hy⟩ := matchingRun_prefix (m := m) f rest (WF_append.mp hwf).2
    symm; apply canonFrom_append
    · rw [hy, ← List.append_assoc] at hwf; exact (WF_append.mp hwf).1
    · rw [hy] at h4; exact aligned_prefix_right h4
  | case3 p suf q rest h hall =>
    obtain ⟨u, h1, h2, h3, h4, h5⟩ := stepSuf_some hwf h
    subst h2
    have hall' : ¬ (u.all f = true) := by simpa using hall
    rw [matchingRun_step f h1 h3, if_neg hall']; simp

/-- (10) `position_after_chars_matching`. -/
theorem positionAfterCharsMatching_cut {m : Metrics} {pre suf : Text} (f : Ch → Bool)
    (hwf : Text.WF (pre ++ suf)) (hal : aligned m pre suf = true) :
    positionAfterCharsMatching m f (pre ++ suf) (canon m pre)
      = .ok (if (matchingRun m f suf).isEmpty then none
             else some (canon m (pre ++ matchingRun m f suf))) := by
  have hws := (WF_append.mp hwf).2
  unfold positionAfterCharsMatching
  rw [split_cut m hwf]
  simp only [afterMatchingSuf_eq m f _ suf hws]
  obtain ⟨y, hy⟩ := matchingRun_prefix (m := m) f suf hws
  generalize matchingRun m f suf = run at hy ⊢
  subst hy
  rw [canon_append_prefix hwf hal]
  have hwr : Text.WF run := (WF_append.mp hws).1
  congr 1
  by_cases hr : run = []
  · subst hr; simp
  · have hb := bytes_pos hwr hr
    have hne : canonFrom m (canon m pre) run ≠ canon m pre := by
      intro h; have := congrArg Pos.byte h; simp at this; omega
    simp [hne, hr]

theorem stripCodes_of_codes {l : Text} {ks : List Nat} (x : Text) (h : l.map (·.code) = ks) :
    stripCodes (l ++ x) ks = some x := by
  subst h; exact stripCodes_of_map l x

theorem stripCodes_pat {pat pat' u : Text} (h : stripCodes pat (u.map (·.code)) = some pat') :
    ∃ pt, pat = pt ++ pat' ∧ pt.map (·.code) = u.map (·.code) ∧ pt.length = u.length := by
  obtain ⟨h1, h2⟩ := stripCodes_append h
  refine ⟨_, h1, h2, ?_⟩
  have := congrArg List.length h2
  simpa using this

/-- The two shapes of a unit. -/
theorem unit_shape {m : Metrics} {suf u : Text} (h : firstUnit m suf = some u) :
    (∃ c, u = [c]) ∨ (m.le = .crlf ∧ ∃ c d, u = [c, d] ∧ c.code = 13 ∧ d.code = 10) := by
  unfold firstUnit at h
  split at h
  · rename_i r hb
    obtain ⟨h1, h2⟩ := breakAt_split hb
    have hl : suf.length - r.length = lbLen m := by
      have := stripCodes_length hb; unfold lbLen; omega
    rw [hl] at h; simp at h; rw [h] at h2
    obtain ⟨le, tab⟩ := m
    cases le <;> simp [lbCodes] at h2
    · left; match u, h2 with
      | [c], _ => exact ⟨c, rfl⟩
    · left; match u, h2 with
      | [c], _ => exact ⟨c, rfl⟩
    · right; refine ⟨rfl, ?_⟩
      match u, h2 with
      | [], h2 => simp at h2
      | [_], h2 => simp at h2
      | _ :: _ :: _ :: _, h2 => simp at h2
      | [c, d], h2 => simp at h2; exact ⟨c, d, rfl, h2.1, h2.2⟩
  · cases suf <;> simp at h
    left; exact ⟨_, h.symm⟩

/-- What `position_after_str` must find at the head of `suf`. -/
def StrAt (m : Metrics) (suf pat : Text) : Prop :=
  pat.length ≤ suf.length ∧ (suf.take pat.length).map (·.code) = pat.map (·.code) ∧
    aligned m (suf.take pat.length) (suf.drop pat.length) = true

instance (m : Metrics) (suf pat : Text) : Decidable (StrAt m suf pat) := by
  unfold StrAt; exact inferInstance

/-- A pattern that does not start with the first unit does not match at an aligned end. -/
theorem not_StrAt_of_strip_none {m : Metrics} {u rest pat : Text} (hpat : pat ≠ [])
    (hu : firstUnit m (u ++ rest) = some u)
    (hs : stripCodes pat (u.map (·.code)) = none) : ¬ StrAt m (u ++ rest) pat := by
  rintro ⟨h1, h2, h3⟩
  by_cases hlen : u.length ≤ pat.length
  · -- the pattern starts with the unit's codes
    have hp : pat = pat.take u.length ++ pat.drop u.length := (List.take_append_drop _ _).symm
    have hc : (pat.take u.length).map (·.code) = u.map (·.code) := by
      have := congrArg (List.take u.length) h2
      rw [← List.map_take, ← List.map_take, List.take_take, Nat.min_eq_left hlen] at this
      simpa using this.symm
    have := stripCodes_of_codes (pat.drop u.length) hc
    rw [← hp, hs] at this; cases this
  · rcases unit_shape hu with ⟨c, rfl⟩ | ⟨hle, c, d, rfl, hc, hd⟩
    · have : 0 < pat.length := List.length_pos_iff.mpr hpat
      simp only [List.length_singleton] at hlen; omega
    · have hk : pat.length = 1 := by
        have : 0 < pat.length := List.length_pos_iff.mpr hpat
        simp only [List.length_cons, List.length_nil] at hlen; omega
      rw [hk] at h3
      obtain ⟨le, tab⟩ := m
      simp at hle; subst hle
      simp [aligned, hc, hd] at h3

/-- Matching `pt ++ pat'` at `u ++ rest` when `pt` matches the unit `u` exactly. -/
theorem StrAt_step {m : Metrics} {u rest pt pat' : Text} (hc : pt.map (·.code) = u.map (·.code))
    (hl : pt.length = u.length) (hne : pat' ≠ []) :
    StrAt m (u ++ rest) (pt ++ pat') ↔ StrAt m rest pat' := by
  have hk : 0 < pat'.length := List.length_pos_iff.mpr hne
  unfold StrAt
  have e1 : (u ++ rest).take (pt ++ pat').length = u ++ rest.take pat'.length := by
    simp [List.take_append, hl, List.take_of_length_le]
  have e2 : (u ++ rest).drop (pt ++ pat').length = rest.drop pat'.length := by
    simp [List.drop_append, hl, List.drop_of_length_le]
  rw [e1, e2]
  constructor
  · rintro ⟨h1, h2, h3⟩
    have h1' : pat'.length ≤ rest.length := by simp only [List.length_append] at h1; omega
    have hne' : rest.take pat'.length ≠ [] := by
      intro h0; have := congrArg List.length h0
      rw [List.length_take, List.length_nil] at this; omega
    refine ⟨h1', ?_, ?_⟩
    · simpa [hc] using h2
    · rwa [aligned_append_left m u _ hne'] at h3
  · rintro ⟨h1, h2, h3⟩
    have hne' : rest.take pat'.length ≠ [] := by
      intro h0; have := congrArg List.length h0
      rw [List.length_take, List.length_nil] at this; omega
    refine ⟨by simp only [List.length_append]; omega, by simp [hc, h2], ?_⟩
    rwa [aligned_append_left m u _ hne']

theorem afterStrSuf_eq (m : Metrics) (p : Pos) (suf pat : Text) (hwf : Text.WF suf)
    (hpat : pat ≠ []) :
    afterStrSuf m p suf pat =
      if StrAt m suf pat then some (canonFrom m p (suf.take pat.length)) else none := by
  fun_induction afterStrSuf m p suf pat with
  | case1 p suf pat h =>
    have := stepSuf_none h; subst this
    have : 0 < pat.length := List.length_pos_iff.mpr hpat
    have : ¬ StrAt m [] pat := by rintro ⟨h1, _⟩; simp only [List.length_nil] at h1; omega
    simp [this]
  | case2 p suf pat q rest h hs =>
    obtain ⟨u, h1, h2, h3, h4, h5⟩ := stepSuf_some hwf h
    subst h2
    simp only [List.length_append, Nat.add_sub_cancel, List.take_left'] at hs
    simp [not_StrAt_of_strip_none hpat h1 hs]
  | case3 p suf pat q rest h pat' hs hemp =>
    obtain ⟨u, h1, h2, h3, h4, h5⟩ := stepSuf_some hwf h
    subst h2
    simp only [List.length_append, Nat.add_sub_cancel, List.take_left'] at hs
    obtain ⟨pt, e, hc, hl⟩ := stripCodes_pat hs
    have : pat' = [] := by simpa using hemp
    subst this; simp at e; subst e
    have : StrAt m (u ++ rest) pat := ⟨by simp [hl], by simp [hl, hc], by simp [hl, h4]⟩
    simp [this, hl, h5]
  | case4 p suf pat q rest h pat' hs hemp ih =>
    obtain ⟨u, h1, h2, h3, h4, h5⟩ := stepSuf_some hwf h
    subst h2
    simp only [List.length_append, Nat.add_sub_cancel, List.take_left'] at hs
    obtain ⟨pt, e, hc, hl⟩ := stripCodes_pat hs
    have hne : pat' ≠ [] := by simpa using hemp
    subst e
    rw [ih (WF_append.mp hwf).2 hne]
    by_cases hS : StrAt m rest pat'
    · have hS' := (StrAt_step (m := m) (rest := rest) hc hl hne).mpr hS
      simp only [hS, hS', if_true]
      have e1 : (u ++ rest).take (pt ++ pat').length = u ++ rest.take pat'.length := by
        simp [List.take_append, hl, List.take_of_length_le]
      rw [e1, h5]
      congr 1; symm
      have hr : rest = rest.take pat'.length ++ rest.drop pat'.length :=
        (List.take_append_drop _ _).symm
      apply canonFrom_append
      · rw [hr, ← List.append_assoc] at hwf; exact (WF_append.mp hwf).1
      · rw [hr] at h4; exact aligned_prefix_right h4
    · have hS' := fun h => hS ((StrAt_step (m := m) (rest := rest) hc hl hne).mp h)
      simp only [hS, if_false]; rw [if_neg hS']

theorem afterStrSuf_nil_pat (m : Metrics) (p : Pos) (suf : Text) (hwf : Text.WF suf) :
    afterStrSuf m p suf [] = none := by
  rw [afterStrSuf]
  split
  · rfl
  · rename_i q rest h
    obtain ⟨u, h1, h2, h3, h4, h5⟩ := stepSuf_some hwf h
    subst h2
    cases u with
    | nil => exact absurd rfl h3
    | cons c r =>
      have : r.length + rest.length + 1 - rest.length = (r.length + 1) := by omega
      simp [this, stripCodes]

/-- (9) `position_after_str`. -/
theorem positionAfterStr_cut {m : Metrics} {pre suf : Text} (pat : Text)
    (hwf : Text.WF (pre ++ suf)) (hal : aligned m pre suf = true) :
    positionAfterStr m (pre ++ suf) (canon m pre) pat
      = .ok (if pat.isEmpty then none
             else if decide (pat.length ≤ suf.length)
                  && (suf.take pat.length).map (·.code) == pat.map (·.code)
                  && aligned m (pre ++ suf.take pat.length) (suf.drop pat.length)
             then some (canon m (pre ++ suf.take pat.length)) else none) := by
  have hws := (WF_append.mp hwf).2
  unfold positionAfterStr
  rw [split_cut m hwf]
  simp only
  congr 1
  by_cases hp : pat = []
  · subst hp; simp [afterStrSuf_nil_pat m _ suf hws]
  · have hpe : pat.isEmpty = false := by simpa using hp
    rw [afterStrSuf_eq m _ suf pat hws hp]
    simp only [hpe, Bool.false_eq_true, if_false]
    have hk : 0 < pat.length := List.length_pos_iff.mpr hp
    by_cases hlen : pat.length ≤ suf.length
    · have hne : suf.take pat.length ≠ [] := by
        intro h0; have := congrArg List.length h0
        rw [List.length_take, List.length_nil] at this; omega
      have hs : suf = suf.take pat.length ++ suf.drop pat.length :=
        (List.take_append_drop _ _).symm
      have hc : canon m (pre ++ suf.take pat.length)
          = canonFrom m (canon m pre) (suf.take pat.length) := by
        rw [hs] at hwf hal; exact canon_append_prefix hwf hal
      rw [aligned_append_left m pre _ hne, hc]
      unfold StrAt
      simp only [hlen, true_and, decide_true, Bool.true_and, Bool.and_eq_true, beq_iff_eq]
    · have : ¬ StrAt m suf pat := fun h => hlen h.1
      simp [this, hlen]

/-! ### Backward group: the prefix side -/

theorem bytes_reverse (t : Text) : bytes t.reverse = bytes t := by
  induction t with
  | nil => rfl
  | cons c r ih => simp [ih]; omega

theorem WF_reverse {t : Text} : Text.WF t.reverse ↔ Text.WF t := by simp [Text.WF]

theorem codes_ne_nil {m : Metrics} {brk : Text} (h : brk.map (·.code) = lbCodes m) : brk ≠ [] := by
  intro h0; subst h0
  have := lbLen_pos m; unfold lbLen at this; rw [← h] at this; simp at this

theorem codes_length {m : Metrics} {brk : Text} (h : brk.map (·.code) = lbCodes m) :
    brk.length = lbLen m := by
  have := congrArg List.length h; simpa [lbLen] using this

/-- The prefix ends with a line ending: split it off. -/
theorem breakBefore_split {m : Metrics} {pre rr : Text} (h : breakBefore m pre.reverse = some rr) :
    ∃ a brk, pre = a ++ brk ∧ rr = a.reverse ∧ brk.map (·.code) = lbCodes m := by
  obtain ⟨h1, h2⟩ := stripCodes_append h
  refine ⟨rr.reverse, (pre.reverse.take (lbCodes m).reverse.length).reverse, ?_, by simp, ?_⟩
  · have := congrArg List.reverse h1
    simpa using this
  · rw [List.map_reverse, h2]; simp

theorem breakBefore_of_codes {m : Metrics} (a : Text) {brk : Text}
    (h : brk.map (·.code) = lbCodes m) : breakBefore m (a ++ brk).reverse = some a.reverse := by
  unfold breakBefore
  rw [List.reverse_append]
  apply stripCodes_of_codes
  rw [List.map_reverse, h]

theorem aligned_of_breakBefore {m : Metrics} {lsp rr : Text} (x : Text)
    (h : breakBefore m lsp.reverse = some rr) : aligned m lsp x = true := by
  obtain ⟨a, brk, rfl, _, hc⟩ := breakBefore_split h
  rw [aligned_append_left m a x (codes_ne_nil hc)]
  exact aligned_of_codes x hc

/-- The prefix does not end with a line ending: its last character is a unit of its own. -/
theorem nobreak_last {m : Metrics} {c : Ch} {ra : Text} (x : Text)
    (h : breakBefore m (c :: ra) = none) :
    aligned m ra.reverse (c :: x) = true ∧ breakAt m [c] = none := by
  obtain ⟨le, tab⟩ := m
  cases le
  · simp [breakBefore, breakAt, lbCodes, stripCodes, aligned] at h ⊢; exact h
  · simp [breakBefore, breakAt, lbCodes, stripCodes, aligned] at h ⊢; exact h
  · cases ra with
    | nil => simp [breakAt, lbCodes, stripCodes, aligned]
    | cons d r =>
      simp [breakBefore, breakAt, lbCodes, stripCodes, aligned] at h ⊢
      by_cases hc : c.code = 10 <;> simp_all

theorem linesOf_codes {m : Metrics} {brk : Text} (h : brk.map (·.code) = lbCodes m) :
    linesOf m brk = [[], []] := by
  have hb : breakAt m brk = some [] := by
    have := stripCodes_of_codes [] h; simpa [breakAt] using this
  rw [linesOf_break hb]; simp [linesOf]

theorem linesOf_single {m : Metrics} {c : Ch} (h : breakAt m [c] = none) :
    linesOf m [c] = [[c]] := by
  obtain ⟨l, ls, h1, h2⟩ := linesOf_nobreak h
  simp [linesOf] at h1; obtain ⟨rfl, rfl⟩ := h1; exact h2

theorem snoc_inj {α} {a b : List α} {x y : α} (h : a ++ [x] = b ++ [y]) : a = b ∧ x = y := by
  have := List.append_inj' h rfl
  simpa using this

theorem linesOf_snoc (m : Metrics) (t : Text) : ∃ ia la, linesOf m t = ia ++ [la] := by
  rcases List.eq_nil_or_concat (linesOf m t) with h | ⟨l, b, h⟩
  · exact absurd h (linesOf_ne_nil m t)
  · exact ⟨l, b, by simpa using h⟩

/-- Lines of a concatenation at an aligned cut: the last line of the left part and the
first line of the right part are joined. -/
theorem linesOf_append {m : Metrics} {a b : Text} (hal : aligned m a b = true)
    {ia : List Text} {la hb : Text} {tb : List Text}
    (h1 : linesOf m a = ia ++ [la]) (h2 : linesOf m b = hb :: tb) :
    linesOf m (a ++ b) = ia ++ (la ++ hb) :: tb := by
  induction hn : a.length using Nat.strongRecOn generalizing a ia la with
  | _ n ih =>
    cases a with
    | nil =>
      simp [linesOf] at h1
      have := snoc_inj (a := []) (b := ia) (by simpa using h1)
      obtain ⟨rfl, rfl⟩ := this
      simp [h2]
    | cons c r =>
      have hbr := breakAt_append (m := m) (a := c :: r) (b := b) (by simp) hal
      cases hb' : breakAt m (c :: r) with
      | some rest' =>
        rw [hb'] at hbr; simp only [Option.map_some] at hbr
        have hlen := breakAt_length hb'
        obtain ⟨e, _⟩ := breakAt_split hb'
        obtain ⟨ia', la', h3⟩ := linesOf_snoc m rest'
        rw [linesOf_break hb', h3] at h1
        obtain ⟨rfl, rfl⟩ := snoc_inj (a := [] :: ia') (by simpa using h1)
        rw [linesOf_break hbr]
        have hal' : aligned m rest' b = true := by rw [e] at hal; exact aligned_suffix_left hal
        rw [ih rest'.length (by omega) hal' h3 rfl]; simp
      | none =>
        rw [hb'] at hbr; simp only [Option.map_none] at hbr
        rw [List.cons_append] at hbr ⊢
        obtain ⟨l, ls, h3, h4⟩ := linesOf_nobreak hb'
        obtain ⟨l', ls', h5, h6⟩ := linesOf_nobreak hbr
        obtain ⟨ia', la', h7⟩ := linesOf_snoc m r
        have h8 := ih r.length (by simp at hn; omega) (aligned_tail hal) h7 rfl
        rw [h6]; rw [h4] at h1; rw [h5] at h8; rw [h3] at h7
        cases ia' with
        | nil =>
          simp at h7 h8; obtain ⟨rfl, rfl⟩ := h7; obtain ⟨rfl, rfl⟩ := h8
          obtain ⟨rfl, rfl⟩ := snoc_inj (a := []) (by simpa using h1)
          simp
        | cons x xs =>
          simp at h7 h8; obtain ⟨rfl, rfl⟩ := h7; obtain ⟨rfl, rfl⟩ := h8
          obtain ⟨rfl, rfl⟩ := snoc_inj (a := (c :: l') :: xs) (by simpa using h1)
          simp

/-- A cut just before a line ending is aligned. -/
theorem aligned_codes_right {m : Metrics} (a : Text) {brk : Text}
    (hc : brk.map (·.code) = lbCodes m) : aligned m a brk = true := by
  have hb : breakAt m brk = some [] := by
    have := stripCodes_of_codes [] hc; simpa [breakAt] using this
  exact aligned_of_breakAt a hb

/-- Last-line decomposition of a prefix, as computed by the backward walk of
`line_start_position` (stated on the reversed prefix `rp`). -/
theorem lastLine_decomp (m : Metrics) (rp : Text) (hwf : Text.WF rp) :
    ∃ lsp cl ia, rp.reverse = lsp ++ cl ∧ linesOf m rp.reverse = ia ++ [cl] ∧
      linesOf m lsp = ia ++ [[]] ∧ lineStartRev m rp (bytes rp) = (bytes lsp, lsp.reverse) ∧
      (lsp = [] ∨ ∃ rr, breakBefore m lsp.reverse = some rr) := by
  induction rp with
  | nil => exact ⟨[], [], [], by simp [linesOf, lineStartRev]⟩
  | cons c r ih =>
    rw [lineStartRev]
    cases hb : breakBefore m (c :: r) with
    | some rr =>
      have hb' : breakBefore m ((c :: r).reverse).reverse = some rr := by simpa using hb
      obtain ⟨a, brk, e, _, hc⟩ := breakBefore_split hb'
      obtain ⟨ia, la, h1⟩ := linesOf_snoc m a
      have hl := linesOf_append (aligned_codes_right a hc) h1 (linesOf_codes hc)
      refine ⟨(c :: r).reverse, [], ia ++ [la], by simp, ?_, ?_, ?_, Or.inr ⟨rr, hb'⟩⟩
      · rw [e, hl]; simp
      · rw [e, hl]; simp
      · simp [bytes_reverse]; omega
    | none =>
      obtain ⟨lsp, cl, ia, h1, h2, h3, h4, h5⟩ := ih (WF_cons.mp hwf).2
      obtain ⟨hal, hb1⟩ := nobreak_last [] hb
      refine ⟨lsp, cl ++ [c], ia, by simp [h1], ?_, h3, ?_, h5⟩
      · rw [List.reverse_cons]
        have := linesOf_append hal h2 (linesOf_single hb1)
        simpa using this
      · simp only [bytes_cons, Nat.add_sub_cancel_left]; exact h4

theorem linesOf_eq_nil_line {m : Metrics} {t : Text} (h : linesOf m t = [[]]) : t = [] := by
  cases t with
  | nil => rfl
  | cons c r =>
    cases hb : breakAt m (c :: r) with
    | some r' =>
      rw [linesOf_break hb] at h
      have := linesOf_ne_nil m r'
      simp at h; exact absurd h this
    | none =>
      obtain ⟨l, ls, _, h2⟩ := linesOf_nobreak hb
      rw [h2] at h; simp at h

/-- The part of a prefix before its current line (what `navSpec` calls `lineStartPre`). -/
def lineStartPre (m : Metrics) (pre : Text) : Text :=
  pre.take (pre.length - (curLinePre m pre).length)

theorem lineStart_facts (m : Metrics) (pre : Text) (hwf : Text.WF pre) :
    pre = lineStartPre m pre ++ curLinePre m pre ∧
    lineStartRev m pre.reverse (bytes pre)
      = (bytes (lineStartPre m pre), (lineStartPre m pre).reverse) ∧
    canon m (lineStartPre m pre) = ⟨bytes (lineStartPre m pre), (canon m pre).line, 0⟩ ∧
    (lineStartPre m pre = [] ∨ ∃ rr, breakBefore m (lineStartPre m pre).reverse = some rr) ∧
    (lineStartPre m pre = [] ↔ (linesOf m pre).length ≤ 1) := by
  obtain ⟨lsp, cl, ia, h1, h2, h3, h4, h5⟩ := lastLine_decomp m pre.reverse (WF_reverse.mpr hwf)
  simp only [List.reverse_reverse, bytes_reverse] at h1 h2 h4
  have hcl : curLinePre m pre = cl := by simp [curLinePre, h2]
  have hls : lineStartPre m pre = lsp := by
    unfold lineStartPre; rw [hcl, h1]; simp
  rw [hls, hcl]
  refine ⟨h1, h4, ?_, h5, ?_⟩
  · have e1 : ∀ (x : Text), (ia ++ [x]).getLast! = x := fun x => getLast!_concat' x ia
    cases ia <;> simp only [canon, canonFrom, h2, h3, e1] <;> simp [Pos.zero, colWidth]
  · rw [h2]
    constructor
    · intro h; subst h; simp [linesOf] at h3
      simp [h3]
    · intro h
      have : ia = [] := by cases ia with
        | nil => rfl
        | cons x xs => simp at h
      subst this
      exact linesOf_eq_nil_line (by simpa using h3)

/-- (3) `line_start_position`. -/
theorem lineStartPosition_cut {m : Metrics} {pre suf : Text} (hwf : Text.WF (pre ++ suf)) :
    lineStartPosition m (pre ++ suf) (canon m pre) = .ok (canon m (lineStartPre m pre)) := by
  have hwp := (WF_append.mp hwf).1
  obtain ⟨h1, h2, h3, _, _⟩ := lineStart_facts m pre hwp
  unfold lineStartPosition
  split
  · rename_i h0
    have : pre = [] := (bytes_eq_zero hwp).mp (by simpa using h0)
    subst this
    simp [lineStartPre, Pos.zero]
  · rw [split_cut m hwf]
    simp only [canon_byte, h2, h3]

theorem firstUnit_append {m : Metrics} {x y : Text} (hx : x ≠ []) (hal : aligned m x y = true) :
    firstUnit m (x ++ y) = firstUnit m x := by
  unfold firstUnit
  rw [breakAt_append hx hal]
  cases hb : breakAt m x with
  | some r =>
    have := breakAt_length hb
    simp only [Option.map_some, List.length_append]
    have e : x.length + y.length - (r.length + y.length) = x.length - r.length := by omega
    rw [e, List.take_append_of_le_length (by omega)]
  | none =>
    cases x with
    | nil => exact absurd rfl hx
    | cons c r => simp

/-- The re-measuring loop of `previous_position` reaches any aligned offset ahead of it. -/
theorem measureTo_eq (m : Metrics) (target : Nat) (p : Pos) (suf : Text) :
    ∀ x y, suf = x ++ y → target = p.byte + bytes x → Text.WF suf → aligned m x y = true →
      measureTo m target p suf = .ok (canonFrom m p x) := by
  fun_induction measureTo m target p suf with
  | case1 p suf h =>
    intro x y e ht hwf _
    subst e
    have : x = [] := (bytes_eq_zero (WF_append.mp hwf).1).mp (by omega)
    subst this; simp
  | case2 p suf h hs =>
    intro x y e ht hwf _
    have := stepSuf_none hs; subst this
    have : x = [] := by cases x with
      | nil => rfl
      | cons c r => simp at e
    subst this; simp at ht; exact absurd ht.symm h
  | case3 p suf h q rest hs ih =>
    intro x y e ht hwf hal
    subst e
    have hwx := (WF_append.mp hwf).1
    have hx : x ≠ [] := by rintro rfl; simp at ht; exact h ht.symm
    obtain ⟨u, h1, h2, h3, h4, h5⟩ := stepSuf_some hwf hs
    rw [firstUnit_append hx hal] at h1
    obtain ⟨x', e1, _, hal'⟩ := firstUnit_some hwx h1
    subst e1
    rw [List.append_assoc] at h2
    have e2 := List.append_cancel_left h2
    subst e2
    have hw' : Text.WF (x' ++ y) := by
      rw [List.append_assoc] at hwf; exact (WF_append.mp hwf).2
    rw [ih x' y rfl (by rw [h5]; simp at ht ⊢; omega) hw'
      (aligned_suffix_left hal), h5, canonFrom_append p hwx hal']

theorem lineStartPosition_gen {m : Metrics} {pre suf : Text} (l c : Nat)
    (hwf : Text.WF (pre ++ suf)) :
    lineStartPosition m (pre ++ suf) ⟨bytes pre, l, c⟩
      = .ok ⟨bytes (lineStartPre m pre), l, 0⟩ := by
  have hwp := (WF_append.mp hwf).1
  obtain ⟨h1, h2, h3, _, _⟩ := lineStart_facts m pre hwp
  unfold lineStartPosition
  split
  · rename_i h0
    have : pre = [] := (bytes_eq_zero hwp).mp (by simpa using h0)
    subst this
    simp [lineStartPre]
  · simp only [splitAtByte_append hwp, h2]

theorem bytes_codes {m : Metrics} {brk : Text} (hwf : Text.WF brk)
    (hc : brk.map (·.code) = lbCodes m) : bytes brk = lbLen m := by
  have hb : breakAt m brk = some [] := by
    have := stripCodes_of_codes [] hc; simpa [breakAt] using this
  simpa using breakAt_bytes hwf hb

theorem lastUnit_nil (m : Metrics) : lastUnit m [] = none := by
  have : breakBefore m [] = none := by
    unfold breakBefore lbCodes; split <;> simp [stripCodes]
  simp [lastUnit, this]

theorem lastUnit_break {m : Metrics} (a : Text) {brk : Text}
    (hc : brk.map (·.code) = lbCodes m) : lastUnit m (a ++ brk) = some brk := by
  unfold lastUnit
  rw [breakBefore_of_codes a hc]; simp

theorem lastUnit_nobreak {m : Metrics} {c : Ch} {ra : Text}
    (h : breakBefore m (c :: ra) = none) : lastUnit m (ra.reverse ++ [c]) = some [c] := by
  simp [lastUnit, h]

/-- (2) `previous_position`. -/
theorem previousPosition_cut {m : Metrics} {pre suf : Text} (hwf : Text.WF (pre ++ suf)) :
    previousPosition m (pre ++ suf) (canon m pre)
      = .ok ((lastUnit m pre).map fun u => canon m (pre.take (pre.length - u.length))) := by
  have hwp := (WF_append.mp hwf).1
  unfold previousPosition
  rw [split_cut m hwf]
  simp only
  cases hb : breakBefore m pre.reverse with
  | some rr =>
    obtain ⟨a, brk, e, hrr, hc⟩ := breakBefore_split hb
    subst e
    have hwa := (WF_append.mp hwp).1
    have hwb := (WF_append.mp hwp).2
    have hcan : canon m (a ++ brk) = ⟨bytes a + lbLen m, (canon m a).line + 1, 0⟩ := by
      rw [canon_append hwp (aligned_codes_right a hc), canonFrom_unit_break _ hwb hc]; simp
    simp only [hcan, csub_ok (Nat.le_add_left _ _), Nat.add_sub_cancel, Res.ok_bind]
    have hwf' : Text.WF (a ++ (brk ++ suf)) := by rwa [← List.append_assoc]
    obtain ⟨h1, _, h3, h4, _⟩ := lineStart_facts m a hwa
    have hls := lineStartPosition_gen (m := m) (canon m a).line 0 hwf'
    rw [← List.append_assoc] at hls
    rw [hls, List.append_assoc, splitAtByte_append hwa]
    simp only [Res.ok_bind, ← h3]
    have hal : aligned m (lineStartPre m a) (curLinePre m a) = true := by
      rcases h4 with h0 | ⟨rr', h0⟩
      · rw [h0]; exact aligned_nil_left _ _
      · exact aligned_of_breakBefore _ h0
    have hend := endPosition_cut (m := m) (pre := lineStartPre m a) (suf := curLinePre m a)
      (by rw [← h1]; exact hwa) hal
    rw [← h1] at hend
    rw [hend, lastUnit_break a hc]
    simp
  | none =>
    simp only
    cases hr : pre.reverse with
    | nil =>
      have : pre = [] := by simpa using hr
      subst this; simp [lastUnit_nil]
    | cons c ra =>
      have e : pre = ra.reverse ++ [c] := by
        have := congrArg List.reverse hr; simpa using this
      rw [hr] at hb
      obtain ⟨hal, hb1⟩ := nobreak_last suf hb
      subst e
      have hwa := (WF_append.mp hwp).1
      have hwc : c.WF := (WF_append.mp hwp).2 c (by simp)
      have hcan : canon m (ra.reverse ++ [c]) = stepCh m (canon m ra.reverse) c := by
        rw [canon_append hwp (aligned_prefix_right (b := [c]) (y := suf) hal),
          canonFrom_single _ hwc hb1]
      rw [lastUnit_nobreak hb]
      simp only [Option.map_some, List.length_append, List.length_singleton, Nat.add_sub_cancel,
        List.take_left']
      split
      · -- tab: re-measure the line from its start
        rename_i h9
        have hs1 : c.size = 1 := hwc.2 (Or.inl h9)
        rw [lineStartPosition_cut hwf]
        have hbp : 1 ≤ (canon m (ra.reverse ++ [c])).byte := by simp [hs1]
        simp only [Res.ok_bind, csub_ok hbp]
        obtain ⟨h1, _, _, h4, _⟩ := lineStart_facts m (ra.reverse ++ [c]) hwp
        generalize lineStartPre m (ra.reverse ++ [c]) = lsp at h1 h4 ⊢
        generalize curLinePre m (ra.reverse ++ [c]) = cl at h1
        -- the current line is not empty: it contains the tab
        rcases List.eq_nil_or_concat cl with h0 | ⟨cl', c', h0⟩
        · exfalso
          subst h0; simp at h1
          rcases h4 with h0 | ⟨rr', h0⟩
          · rw [h0] at h1; simp at h1
          · rw [← h1] at h0; simp at h0; rw [h0] at hb; cases hb
        · subst h0
          have : ra.reverse = lsp ++ cl' ∧ c = c' := by
            apply snoc_inj; simpa using h1
          obtain ⟨e1, rfl⟩ := this
          have hal1 : aligned m lsp (cl' ++ ([c] ++ suf)) = true := by
            rcases h4 with h0 | ⟨rr', h0⟩
            · rw [h0]; exact aligned_nil_left _ _
            · exact aligned_of_breakBefore _ h0
          have hwf1 : Text.WF (lsp ++ (cl' ++ ([c] ++ suf))) := by
            have := hwf; rw [e1] at this; simpa using this
          have hsp : splitAtByte (ra.reverse ++ [c] ++ suf) (canon m lsp).byte
              = some (lsp, cl' ++ ([c] ++ suf)) := by
            have := split_cut m hwf1; rw [← this]; congr 1; rw [e1]; simp
          rw [hsp]
          simp only
          have hal2 : aligned m cl' ([c] ++ suf) = true := by
            rw [e1] at hal; exact aligned_suffix_left hal
          rw [measureTo_eq m _ (canon m lsp) _ cl' ([c] ++ suf) rfl
            (by rw [e1]; simp [hs1]) (WF_append.mp hwf1).2 hal2]
          simp only [Res.ok_bind']
          rw [← canon_append_prefix hwf1 hal1, e1]
      · rename_i h9
        have hb' : c.size ≤ (canon m (ra.reverse ++ [c])).byte := by simp
        have hc' : c.width ≤ (canon m (ra.reverse ++ [c])).col := by
          rw [hcan]; simp [stepCh, h9]
        simp only [csub_ok hb', csub_ok hc', Res.ok_bind]
        rw [hcan]; simp [stepCh, h9]
        cases hq : canon m ra.reverse
        have := congrArg Pos.byte hq
        simp at this
        simp [← this]

/-- (5) `previous_line_end_position`. -/
theorem previousLineEndPosition_cut {m : Metrics} {pre suf : Text} (hwf : Text.WF (pre ++ suf)) :
    previousLineEndPosition m (pre ++ suf) (canon m pre)
      = .ok (if (linesOf m pre).length ≤ 1 then none
             else some (canon m ((lineStartPre m pre).take
                    ((lineStartPre m pre).length - lbLen m)))) := by
  have hwp := (WF_append.mp hwf).1
  unfold previousLineEndPosition
  rw [lineStartPosition_cut hwf]
  simp only [Res.ok_bind]
  obtain ⟨h1, _, _, h4, h5⟩ := lineStart_facts m pre hwp
  have hwf1 : Text.WF (lineStartPre m pre ++ (curLinePre m pre ++ suf)) := by
    rw [← List.append_assoc, ← h1]; exact hwf
  have hp := previousPosition_cut (m := m) hwf1
  rw [← List.append_assoc, ← h1] at hp
  rw [hp]
  rcases h4 with h0 | ⟨rr, h0⟩
  · have := h5.mp h0
    simp [h0, lastUnit_nil, this]
  · obtain ⟨a, brk, e, _, hc⟩ := breakBefore_split h0
    have hne : lineStartPre m pre ≠ [] := by
      rw [e]; have := codes_ne_nil hc; simp [this]
    have hlen : ¬ (linesOf m pre).length ≤ 1 := fun h => hne (h5.mpr h)
    rw [if_neg hlen, e, lastUnit_break a hc, ← codes_length hc]
    simp

/-- A non-empty prefix has a last unit; removing it leaves a shorter prefix. -/
theorem lastUnit_some_of_ne {m : Metrics} {pre : Text} (hne : pre ≠ []) :
    ∃ a u, pre = a ++ u ∧ u ≠ [] ∧ lastUnit m pre = some u := by
  cases hb : breakBefore m pre.reverse with
  | some rr =>
    obtain ⟨a, brk, e, _, hc⟩ := breakBefore_split hb
    exact ⟨a, brk, e, codes_ne_nil hc, by rw [e]; exact lastUnit_break a hc⟩
  | none =>
    cases hr : pre.reverse with
    | nil => simp at hr; exact absurd hr hne
    | cons c ra =>
      have e : pre = ra.reverse ++ [c] := by
        have := congrArg List.reverse hr; simpa using this
      rw [hr] at hb
      exact ⟨ra.reverse, [c], e, by simp, by rw [e]; exact lastUnit_nobreak hb⟩

/-- (7) `start_position`. -/
theorem startPosition_cut {m : Metrics} {pre suf : Text} (hwf : Text.WF (pre ++ suf)) :
    startPosition m (pre ++ suf) (canon m pre) = .ok Pos.zero := by
  induction hn : pre.length using Nat.strongRecOn generalizing pre suf with
  | _ n ih =>
    have hwp := (WF_append.mp hwf).1
    rw [startPosition]
    split
    · rename_i h0
      have : pre = [] := (bytes_eq_zero hwp).mp (by simpa using h0)
      subst this; simp
    · rename_i h0
      have hne : pre ≠ [] := by rintro rfl; simp [Pos.zero] at h0
      obtain ⟨a, u, e, hu, hlu⟩ := lastUnit_some_of_ne (m := m) hne
      subst e
      have hbu := bytes_pos (WF_append.mp hwp).2 hu
      have hlt : (canon m a).byte < (canon m (a ++ u)).byte := by simp; omega
      simp only [previousPosition_cut hwf, hlu, Option.map_some, List.length_append,
        Nat.add_sub_cancel, List.take_left', dif_pos hlt]
      rw [List.append_assoc] at hwf ⊢
      have hl : 0 < u.length := List.length_pos_iff.mpr hu
      exact ih a.length (by simp at hn; omega) hwf rfl

/-! ### Round trips -/

/-- Converse of `nobreak_last`. -/
theorem nobreak_first {m : Metrics} {c : Ch} {pre x : Text}
    (hal : aligned m pre (c :: x) = true) (h : breakAt m [c] = none) :
    breakBefore m (c :: pre.reverse) = none := by
  obtain ⟨le, tab⟩ := m
  cases le
  · simp [breakBefore, breakAt, lbCodes, stripCodes] at h ⊢; exact h
  · simp [breakBefore, breakAt, lbCodes, stripCodes] at h ⊢; exact h
  · rcases List.eq_nil_or_concat pre with rfl | ⟨a, d, rfl⟩
    · simp [breakBefore, lbCodes, stripCodes]
    · simp [aligned] at hal
      simp [breakBefore, lbCodes, stripCodes]
      intro h10 h13; omega

theorem firstUnit_cases {m : Metrics} {suf u : Text} (h : firstUnit m suf = some u) :
    u.map (·.code) = lbCodes m ∨ ∃ c, u = [c] ∧ breakAt m [c] = none := by
  unfold firstUnit at h
  split at h
  · rename_i r hb
    obtain ⟨_, h2⟩ := breakAt_split hb
    have hl : suf.length - r.length = lbLen m := by
      have := stripCodes_length hb; unfold lbLen; omega
    rw [hl] at h; simp at h; rw [h] at h2
    exact Or.inl h2
  · rename_i hb
    cases suf with
    | nil => simp at h
    | cons c r =>
      simp at h
      exact Or.inr ⟨c, h.symm, breakAt_none_prefix (a := [c]) (b := r) hb⟩

theorem lastUnit_cases {m : Metrics} {pre u : Text} (h : lastUnit m pre = some u) :
    ∃ a, pre = a ++ u ∧
      (u.map (·.code) = lbCodes m ∨ ∃ c, u = [c] ∧ breakBefore m (c :: a.reverse) = none) := by
  cases hb : breakBefore m pre.reverse with
  | some rr =>
    obtain ⟨a, brk, e, _, hc⟩ := breakBefore_split hb
    subst e
    rw [lastUnit_break a hc] at h; cases h
    exact ⟨a, rfl, Or.inl hc⟩
  | none =>
    cases hr : pre.reverse with
    | nil =>
      have : pre = [] := by simpa using hr
      subst this; rw [lastUnit_nil] at h; cases h
    | cons c ra =>
      have e : pre = ra.reverse ++ [c] := by
        have := congrArg List.reverse hr; simpa using this
      rw [hr] at hb
      subst e
      rw [lastUnit_nobreak hb] at h; cases h
      exact ⟨ra.reverse, rfl, Or.inr ⟨c, rfl, by simpa using hb⟩⟩

theorem firstUnit_self_of_codes {m : Metrics} {u : Text} (hc : u.map (·.code) = lbCodes m) :
    firstUnit m u = some u := by
  have hb : breakAt m u = some [] := by
    have := stripCodes_of_codes [] hc; simpa [breakAt] using this
  simp [firstUnit, hb]

/-- Stepping forward over the first unit and then back returns to the cut. -/
theorem lastUnit_after_firstUnit {m : Metrics} {pre suf u : Text}
    (hal : aligned m pre suf = true) (hwf : Text.WF suf) (h : firstUnit m suf = some u) :
    lastUnit m (pre ++ u) = some u := by
  obtain ⟨rest, e, _, _⟩ := firstUnit_some hwf h
  rcases firstUnit_cases h with hc | ⟨c, rfl, hb⟩
  · exact lastUnit_break pre hc
  · subst e
    have := nobreak_first (x := rest) (by simpa using hal) hb
    have h2 := lastUnit_nobreak this
    simpa using h2

/-- Stepping back over the last unit and then forward returns to the (aligned) cut. -/
theorem firstUnit_after_lastUnit {m : Metrics} {a u suf : Text}
    (hal : aligned m (a ++ u) suf = true) (h : lastUnit m (a ++ u) = some u) :
    firstUnit m (u ++ suf) = some u ∧ aligned m a (u ++ suf) = true := by
  obtain ⟨a', e, hcase⟩ := lastUnit_cases h
  have : a' = a := List.append_cancel_right e.symm
  subst this
  rcases hcase with hc | ⟨c, rfl, hb⟩
  · have hne := codes_ne_nil hc
    refine ⟨?_, ?_⟩
    · rw [firstUnit_append hne (aligned_suffix_left hal)]; exact firstUnit_self_of_codes hc
    · rw [aligned_append_right m a' suf hne]; exact aligned_codes_right a' hc
  · obtain ⟨h1, h2⟩ := nobreak_last suf hb
    refine ⟨?_, by simpa using h1⟩
    rw [firstUnit_append (by simp) (aligned_suffix_left hal)]
    simp [firstUnit, h2]

end Tephra
