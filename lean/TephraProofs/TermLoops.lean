/-
  TephraProofs.TermLoops — C02, part 3: the recovery loops terminate by the
  measure `len - cursor`: `recoverLoop` (`advance_to_recover`), `matchLoop`
  (`match_nested_brackets`), and the retry loops of `stabilize` and of `list`'s
  value parser — a retry only ever starts from a strictly later position.
-/
import TephraProofs.TermWorld

namespace Tephra.Term
open Tephra

variable {R : RunEnv} {m : Metrics} {len : Nat} {T : Nat → Rec}

/-! ### `advance_to_recover` -/

/-- `recoverLoop` returns `none` both at the end of the text and when its fuel is
exhausted; it never does the latter: from `len - cursor + 1` on, the result does not
depend on the fuel. -/
theorem recoverLoop_fuel (ok : ScanOK R.E m len) (id : Nat) : ∀ n k (lx : Lx) W, WF m len lx →
    len - lx.cursor.byte + 1 ≤ n → n ≤ k → recoverLoop R id k lx W = recoverLoop R id n lx W := by
  intro n
  induction n with
  | zero => intro k lx W _ h; omega
  | succ n ih =>
    intro k lx W wf hn hk
    obtain ⟨k', rfl⟩ : ∃ k', k = k' + 1 := ⟨k - 1, by omega⟩
    simp only [recoverLoop]
    split
    · rfl
    · next t lx' hp =>
      split
      · rfl
      · have hnx := next_after_peek ok wf hp
        exact ih k' _ _ hnx.1 (by have := hnx.1.cur; omega) (by omega)

/-- `advance_to_recover` gives its loop `len + 2` units of fuel, one more than it can use. -/
theorem advanceToRecover_enough (ok : ScanOK R.E m len) (id : Nat) (lx : Lx) (W : World) (wf : WF m len lx)
    (k : Nat) (hk : lx.len + 2 ≤ k) : recoverLoop R id k lx W = recoverLoop R id (lx.len + 2) lx W :=
  recoverLoop_fuel ok id _ _ lx W wf (by have := wf.hlen; omega) hk

/-! ### `match_nested_brackets` -/

theorem matchLoop_terminates (ok : ScanOK R.E m len) (opens closes abort : List Nat) (sp : Span) :
    ∀ n (lexer : Lx) ol opened, WF m len lexer → len - lexer.cursor.byte + 1 ≤ n →
      matchLoop R opens closes abort sp n lexer ol opened ≠ .fuel := by
  intro n
  induction n with
  | zero => intro lexer ol opened _ h; omega
  | succ n ih =>
    intro lexer ol opened wf hn
    simp only [matchLoop]
    split
    · repeat' split
      all_goals simp
    · next tok lexer' hp =>
      have hnx := next_after_peek ok wf hp
      have ih' := fun ol' opened' => ih (lexer'.next R.E).2 ol' opened' hnx.1 (by have := hnx.1.cur; omega)
      repeat' split
      all_goals first | exact ih' _ _ | simp

/-! ### the retry loop of `stabilize` -/

/-- a stabilising retry happens only from a strictly later position. -/
theorem retry_progress (ok : ScanOK R.E m len) {lx lx1 : Lx} {W W1} (wf : WF m len lx)
    (h : advanceToRecover R lx W = (some lx1, W1)) (hc : ¬ (lx1.cursor == lx.cursor) = true) :
    WF m len lx1 ∧ lx.cursor.byte < lx1.cursor.byte := by
  have := advanceToRecover_wf ok wf h
  refine ⟨this.1, ?_⟩
  rcases this.2 with h' | h'
  · exact absurd (by simp [h']) hc
  · exact h'

/-- **`stabilize` terminates**: if every attempt of the body does (with fuel `k`), the
retry loop does with `len - cursor + 1 + k`: each retry starts strictly later. -/
theorem stabLoop_terminates (ok : ScanOK R.E m len) {k : Nat} {a : G} {ctx : Ctx} (hca : Consistent T a)
    (hk : ∀ lx1 W1, WF m len lx1 → WOK T W1 → (run R k (.unrecoverable a) lx1 ctx W1).1 ≠ .fuel) :
    ∀ d (lx : Lx) res W, WF m len lx → WOK T W → len - lx.cursor.byte ≤ d → res ≠ .fuel →
      ∀ n, d + 1 + k ≤ n → (stabLoop R n a lx ctx res W).1 ≠ .fuel := by
  intro d
  induction d with
  | zero =>
    intro lx res W wf hw hd hres n hn
    obtain ⟨n', rfl⟩ : ∃ n', n = n' + 1 := ⟨n - 1, by omega⟩
    cases res with
    | ok v l => simp [stabLoop]
    | panic => simp [stabLoop]
    | fuel => exact absurd rfl hres
    | err e =>
      simp only [stabLoop]
      split
      · next lx1 W1 hadv =>
        split
        · simp
        · next hc =>
          have := retry_progress ok wf hadv hc
          have := this.1.cur
          omega
      · simp
  | succ d ih =>
    intro lx res W wf hw hd hres n hn
    obtain ⟨n', rfl⟩ : ∃ n', n = n' + 1 := ⟨n - 1, by omega⟩
    cases res with
    | ok v l => simp [stabLoop]
    | panic => simp [stabLoop]
    | fuel => exact absurd rfl hres
    | err e =>
      simp only [stabLoop]
      split
      · next lx1 W1 hadv =>
        split
        · simp
        · next hc =>
          have hp := retry_progress ok wf hadv hc
          have hw1 : WOK T W1 := by
            have := WOK_advance (R := R) (lx := lx) hw
            rwa [hadv] at this
          have hr : (run R n' (.unrecoverable a) lx1 ctx W1).1 ≠ .fuel := by
            rw [run_fuel_mono R (by omega : k ≤ n') _ _ _ _ (hk lx1 W1 hp.1 hw1)]
            exact hk lx1 W1 hp.1 hw1
          have hw2 := (wok_all (R := R) (T := T) n').run (.unrecoverable a) lx1 ctx W1
            (by simpa [Consistent] using hca) hw1
          exact ih lx1 _ _ hp.1 hw2 (by omega) hr n' (by omega)
      · simp

/-- the same for the retry loop around `recover_default` used by `list`. -/
theorem stabValue_terminates (ok : ScanOK R.E m len) {k : Nat} {dv : Val} {id : Nat} {pat : Rec} {body : G}
    {ctx : Ctx} (hT : T id = pat) (hcb : Consistent T body)
    (hk : ∀ lx1 W1, WF m len lx1 → WOK T W1 →
      (recoverDefault R k dv id pat body lx1 ctx.withoutSink W1).1 ≠ .fuel) :
    ∀ d (lx : Lx) res W, WF m len lx → WOK T W → len - lx.cursor.byte ≤ d → res ≠ .fuel →
      ∀ n, d + 1 + k ≤ n → (stabValue R n dv id pat body lx ctx res W).1 ≠ .fuel := by
  intro d
  induction d with
  | zero =>
    intro lx res W wf hw hd hres n hn
    obtain ⟨n', rfl⟩ : ∃ n', n = n' + 1 := ⟨n - 1, by omega⟩
    cases res with
    | ok v l => simp [stabValue]
    | panic => simp [stabValue]
    | fuel => exact absurd rfl hres
    | err e =>
      simp only [stabValue]
      split
      · next lx1 W1 hadv =>
        split
        · simp
        · next hc =>
          have := retry_progress ok wf hadv hc
          have := this.1.cur
          omega
      · simp
  | succ d ih =>
    intro lx res W wf hw hd hres n hn
    obtain ⟨n', rfl⟩ : ∃ n', n = n' + 1 := ⟨n - 1, by omega⟩
    cases res with
    | ok v l => simp [stabValue]
    | panic => simp [stabValue]
    | fuel => exact absurd rfl hres
    | err e =>
      simp only [stabValue]
      split
      · next lx1 W1 hadv =>
        split
        · simp
        · next hc =>
          have hp := retry_progress ok wf hadv hc
          have hw1 : WOK T W1 := by
            have := WOK_advance (R := R) (lx := lx) hw
            rwa [hadv] at this
          have hr : (recoverDefault R n' dv id pat body lx1 ctx.withoutSink W1).1 ≠ .fuel := by
            rw [(mono_all R k n' (by omega)).recoverDefault _ _ _ _ _ _ _ (hk lx1 W1 hp.1 hw1)]
            exact hk lx1 W1 hp.1 hw1
          have hw2 := (wok_all (R := R) (T := T) n').recoverDefault dv id pat body lx1 ctx.withoutSink W1 hT hcb hw1
          exact ih lx1 _ _ hp.1 hw2 (by omega) hr n' (by omega)
      · simp

/-! ### the separator step of `list` -/

section
variable {σ τ : Type} {E : LexEnv σ τ}

theorem peek_buf_token {lx lx' : Lexer σ τ} {t : τ} (h : lx.peek E = (some t, lx')) :
    ∃ b, lx'.buffer = some b ∧ b.token = t := by
  unfold Lexer.peek at h
  split at h
  · cases h
  · simp only [Prod.mk.injEq] at h
    obtain ⟨h1, h2⟩ := h
    subst h2
    cases hb : (lx.bufferNext E).buffer with
    | none => rw [hb] at h1; cases h1
    | some b => rw [hb] at h1; exact ⟨b, rfl, by simpa using h1⟩

theorem peek_of_buf {lx : Lexer σ τ} {b} (wf : WF m len lx) (hb : lx.buffer = some b) :
    lx.peek E = (some b.token, lx) := by
  have hlt := wf.lt_of_buf hb
  have hl := wf.hlen
  unfold Lexer.peek Lexer.bufferNext
  rw [if_neg (by omega)]
  simp [hb]

theorem next_of_buf {lx : Lexer σ τ} {b} (wf : WF m len lx) (hb : lx.buffer = some b) :
    ∃ lxn, lx.next E = (some b.token, lxn) ∧ WF m len lxn ∧ lx.cursor.byte < lxn.cursor.byte ∧
      lxn.recover = lx.recover := by
  have hlt := wf.lt_of_buf hb
  have hl := wf.hlen
  have hbb := wf.buf b hb
  unfold Lexer.next
  rw [if_neg (by omega)]
  simp only [hb]
  exact ⟨_, rfl, ⟨wf.hmet, wf.hlen, hbb.2.2, fun b h => by simp at h⟩, by simp; omega, rfl⟩

theorem lookup_register {W : World} {id : Nat} {pat : Rec} (hw : WOK T W) (hT : T id = pat) :
    (((W.register id pat).specs.find? (·.1 == id)).map (·.2) : Option Rec) = some pat := by
  unfold World.register
  split
  · next hany =>
    cases hf : W.specs.find? (·.1 == id) with
    | none =>
      rw [List.find?_eq_none] at hf
      simp only [List.any_eq_true] at hany
      obtain ⟨p, hp, hpe⟩ := hany
      exact absurd hpe (hf p hp)
    | some p =>
      have hm := List.mem_of_find?_eq_some hf
      have hp := List.find?_some hf
      simp only [beq_iff_eq] at hp
      simp only [Option.map_some]
      rw [hw p hm, hp, hT]
  · simp


/-- the separator step of `list` consumes input: either the separator itself, or — when it
recovers — at least the offending token (its own pattern `sep_or_abort` rejects it). -/
theorem sep_progress (ok : ScanOK R.E m len) {n id sep : Nat} {abort : List Nat} {lexer1 lexer2 lexer3 : Lx}
    {t2 : Tok} {ctx : Ctx} {W1 W2 : World} {v : Val}
    (wf1 : WF m len lexer1) (hw : WOK T W1) (hT : T id = .sepOrAbort sep abort)
    (hp : lexer1.peek R.E = (some t2, lexer2)) (hab : ¬ abort.contains t2.kind = true)
    (h : recoverDefault R n .dflt id (.sepOrAbort sep abort) (.discard (.one sep)) lexer2 ctx W1 =
      (.ok v lexer3, W2)) :
    lexer2.cursor.byte < lexer3.cursor.byte := by
  have hpw := peek_wf ok wf1
  simp only [hp] at hpw
  have wf2 := hpw.1
  obtain ⟨b, hb, hbt⟩ := peek_buf_token hp
  subst hbt
  obtain ⟨lxn, hnext, wfn, hlt, _⟩ := next_of_buf (E := R.E) wf2 hb
  cases n with
  | zero => simp [recoverDefault] at h
  | succ n1 =>
  cases n1 with
  | zero => simp [recoverDefault, run] at h
  | succ n2 =>
  cases n2 with
  | zero => simp [recoverDefault, run] at h
  | succ n3 =>
  simp only [recoverDefault, run, hnext] at h
  by_cases hk : (b.token.kind == sep) = true
  · simp only [hk, if_true] at h
    cases h
    exact hlt
  · simp only [hk, Bool.false_eq_true, if_false] at h
    have hse := sendError_specs ctx
      (mkErr (ErrBody.unexp (Lexer.parseSpan lexer2) lxn.tokenSpan (Expected.token sep) (Found.token b.token)))
      (W1.register id (Rec.sepOrAbort sep abort))
    split at h
    · cases h
    · next e' Ws hs =>
      rw [hs] at hse
      simp only at hse
      -- the recovery scan
      have wfb : WF m len (lexer2.setRecoverState (some id)) := setRecoverState_wf _ wf2
      have hbb : (lexer2.setRecoverState (some id)).buffer = some b := hb
      have hpk := peek_of_buf (E := R.E) wfb hbb
      obtain ⟨lxb, hnb, wfnb, hltb, _⟩ := next_of_buf (E := R.E) wfb hbb
      have hlook : ((Ws.specs.find? (·.1 == id)).map (·.2) : Option Rec) = some (.sepOrAbort sep abort) := by
        rw [hse]; exact lookup_register hw hT
      have hask : askRecover Ws id b.token = (false, Ws) := by
        unfold askRecover
        rw [hlook]
        have h1 : (b.token.kind == sep) = false := by simpa using hk
        have h2 : abort.contains b.token.kind = false := by simpa using hab
        simp only [h1, h2, Bool.or_self]
      have hadv : advanceToRecover R (lexer2.setRecoverState (some id)) Ws =
          recoverLoop R id ((lexer2.setRecoverState (some id)).len + 1) lxb Ws := by
        unfold advanceToRecover
        show recoverLoop R id ((lexer2.setRecoverState (some id)).len + 2) _ Ws = _
        rw [recoverLoop, hpk]
        simp only [hask, Bool.false_eq_true, if_false, hnb]
      rw [hadv] at h
      split at h
      · next lx' W3 hrl =>
        cases h
        have := recoverLoop_wf ok _ _ _ _ _ _ wfnb hrl
        have := this.2.le
        have hcur : (lexer2.setRecoverState (some id)).cursor = lexer2.cursor := rfl
        rw [hcur] at hltb
        omega
      · cases h

end

end Tephra.Term
