/-
  TephraProofs.ListRefine — C11: the list loop of list.rs (`listLoop`, `stabValue`,
  `recoverDefault` over `up_to(item, sep_or_abort)`) against the segment-by-segment
  specification `Spec.listSpec`.

  Parts
  A. `recover` is untouched by the lexer methods.
  B. bridge between `AtIdx K j lx` (BracketRefine) and `Abs lx s` (PegAbs).
  C. the hypotheses on the item parser (`ItemHyp`: fragment, non-nullable, local),
     the segment judge, one run of `up_to(item, sep_or_abort)`.
  D. one value round (`C11_value_step`).
  E. the separator step, the loop (`Walk`), the loop theorem.
  F. `Walk` against `Spec.listSpec` (pure list reasoning).
  G. the top-level theorems.
-/
import TephraProofs.RunMatchers
import TephraProofs.PegRefine
import TephraProofs.BracketRefine
import TephraProofs.RecoverProof
import TephraProofs.TermFuel
import TephraProofs.Frame
import TephraProofs.WorldFrame
import TephraProofs.PegFuel
import TephraModel.Spec.ListSpec
import TephraProofs.ListWalk

set_option linter.unusedVariables false
set_option linter.unusedSimpArgs false

namespace Tephra.ListRefine
open Tephra Tephra.Spec Tephra.LexIter Tephra.PegRefine Tephra.BracketRefine Tephra.RecoverProof
open Tephra.Term (listFinish listItem listDv listLoop_succ)
open Tephra.RecoverFrame (specOf)

/-! ### A. `recover` is untouched by the lexer methods -/

section RecoverFrame
variable {σ τ : Type} {E : LexEnv σ τ}

@[simp] theorem bufferLoop_recover (behind : Bool) (lx : Lexer σ τ) (ps : σ) (pc : Pos) :
    (Lexer.bufferLoop E behind lx ps pc).recover = lx.recover := by
  fun_induction Lexer.bufferLoop E behind lx ps pc with
  | case1 => rfl
  | case2 lx ps pc tok adv ps' heq hf lx' hg ih => rw [ih]; cases behind <;> simp [lx']
  | case3 lx ps pc tok adv ps' heq hf lx' hg => cases behind <;> simp [lx']
  | case4 => rfl

@[simp] theorem bufferNext_recover (lx : Lexer σ τ) : (lx.bufferNext E).recover = lx.recover := by
  unfold Lexer.bufferNext; split <;> simp

@[simp] theorem peek_recover (lx : Lexer σ τ) : (lx.peek E).2.recover = lx.recover := by
  unfold Lexer.peek; split <;> simp

@[simp] theorem nextLoop_recover (behind : Bool) (lx : Lexer σ τ) :
    (Lexer.nextLoop E behind lx).2.recover = lx.recover := by
  fun_induction Lexer.nextLoop E behind lx with
  | case1 => rfl
  | case2 lx tok adv s' heq hf lx' hg ih => rw [ih]; cases behind <;> simp [lx']
  | case3 lx tok adv s' heq hf lx' hg => cases behind <;> simp [lx']
  | case4 => rfl

@[simp] theorem next_recover (lx : Lexer σ τ) : (lx.next E).2.recover = lx.recover := by
  unfold Lexer.next
  split
  · rfl
  · split <;> simp

@[simp] theorem intoSublexer_recover (lx : Lexer σ τ) : (lx.intoSublexer E).recover = lx.recover := by
  simp [Lexer.intoSublexer, Lexer.startSublex]

theorem peek_recover' {lx lx' : Lexer σ τ} {o : Option τ} (h : lx.peek E = (o, lx')) : lx'.recover = lx.recover := by
  have := peek_recover (E := E) lx; rwa [h] at this

theorem next_recover' {lx lx' : Lexer σ τ} {o : Option τ} (h : lx.next E = (o, lx')) : lx'.recover = lx.recover := by
  have := next_recover (E := E) lx; rwa [h] at this

end RecoverFrame

/-! ### B. `AtIdx` and `Abs` -/

section Bridge
variable {E : LexEnv Nat Tok} {m : Metrics} {len : Nat} {f : Option Nat}

/-- the reference-evaluator state of a lexer: everything from its scanner/cursor on -/
def stOf (E : LexEnv Nat Tok) (m : Metrics) (len : Nat) (f : Option Nat) (lx : Lx) : PState :=
  ⟨rawAt E m len lx.scanner lx.cursor, termOf len (endPos lx.cursor (rawAt E m len lx.scanner lx.cursor)), f⟩

theorem abs_of_inv (hp : PassOK E) {lx : Lx} (inv : Inv E m len f lx) : Abs E m len lx (stOf E m len f lx) := by
  refine ⟨inv, ?_, rfl⟩
  show List.dropWhile _ _ = D E m len lx
  unfold D
  rw [inv.hfil, nkeeps_fun hp]
  rfl

theorem kept_of_abs (hp : PassOK E) {lx : Lx} {s : PState} (a : Abs E m len lx s) : kept E m len lx = s.view := by
  rw [a.view hp, keeps_fun hp, a.filter]; rfl

theorem atIdx_of_abs (hp : PassOK E) {lx : Lx} {s : PState} {K : List (RawTok Tok)} {j : Nat}
    (a : Abs E m len lx s) (hf : s.filter = f) (hv : s.view = K.drop j) : AtIdx E m len f K j lx :=
  ⟨hf ▸ a.inv, by rw [kept_of_abs hp a, hv]⟩

theorem abs_of_atIdx (hp : PassOK E) {lx : Lx} {K : List (RawTok Tok)} {j : Nat} (h : AtIdx E m len f K j lx) :
    ∃ s, Abs E m len lx s ∧ s.filter = f ∧ s.view = K.drop j := by
  refine ⟨_, abs_of_inv hp h.inv, rfl, ?_⟩
  rw [← kept_of_abs hp (abs_of_inv hp h.inv), h.kept]

end Bridge

/-! ### C. the item parser -/

/-- the isolated state of a segment, as `Spec.evalSegment` builds it -/
def iso (f : Option Nat) (seg : List (RawTok Tok)) : PState := ⟨seg, .eot, f⟩

/-- **Hypotheses of C11 on the item parser**, stated on the reference evaluator.
* `frag`: the item is in the fragment on which `run` refines `Spec.peg` (`C07_partial`);
* `nonnull`: it consumes at least one kept token whenever it succeeds;
* `local_ok` / `local_fail`: LOCALITY — its verdict on a stream is its verdict on the
  tokens before the first separator / abort token taken in isolation, and what it
  leaves of the stream is what it leaves of that segment followed by the rest.  This
  contains separator/abort-freeness (nothing from the separator on is consumed) and
  excludes items that look past their segment without consuming (`end_of_text`,
  negative lookahead through `implies`, `seq_count` before a rejected byte): see
  `C11_needs_locality`. -/
structure ItemHyp (text : Text) (f : Option Nat) (a : G) (sep : Nat) (abort : List Nat) : Prop where
  frag : pegWithRep a = true
  nonnull : ∀ k (s : PState) v s', s.filter = f → peg text k a s = .ok v s' → s'.view.length < s.view.length
  local_ok : ∀ k (s : PState) v s', s.filter = f → peg text k a s = .ok v s' →
    ∃ t', peg text k a (iso f (segOf sep abort s.view)) = .ok v t' ∧
      s'.view = t'.view ++ tailOf sep abort s.view ∧ ∀ r ∈ t'.view, bnd sep abort r.tok.kind = false
  local_fail : ∀ k (s : PState), s.filter = f → peg text k a s = .fail →
    peg text k a (iso f (segOf sep abort s.view)) = .fail

/-- The fuel `4000` of `Spec.evalSegment` decides every segment of the stream `K` the
way any other sufficient fuel does.  (For items without a stop parser this is
`peg … 4000 … ≠ .fuel`, see `specFuelOK_of_ne_fuel`.) -/
def SpecFuelOK (text : Text) (f : Option Nat) (a : G) (K : List (RawTok Tok)) : Prop :=
  ∀ seg, seg <:+: K → ∀ k r, peg text k a (iso f seg) = r → r ≠ .fuel → peg text 4000 a (iso f seg) = r

theorem specFuelOK_of_ne_fuel {text : Text} {f : Option Nat} {a : G} {K : List (RawTok Tok)}
    (hu : PegFuel.noUntil a = true)
    (h : ∀ seg, seg <:+: K → peg text 4000 a (iso f seg) ≠ .fuel) : SpecFuelOK text f a K := by
  intro seg hseg k r hr hne
  subst hr
  exact PegFuel.peg_fuel_agree text k 4000 a _ hu hne (h seg hseg)

section Judge
variable {text : Text} {f : Option Nat} {a : G} {K : List (RawTok Tok)}

theorem judge_good (hF : SpecFuelOK text f a K) {seg : List (RawTok Tok)} (hseg : seg <:+: K) {k x t'}
    (h : peg text k a (iso f seg) = .ok x t') (hv : t'.view = []) : evalSegment text f a seg = some x := by
  have := hF seg hseg k _ h (by simp)
  unfold evalSegment
  simp only [iso] at this
  rw [this]
  simp [hv]

theorem judge_left (hF : SpecFuelOK text f a K) {seg : List (RawTok Tok)} (hseg : seg <:+: K) {k x t'}
    (h : peg text k a (iso f seg) = .ok x t') (hv : t'.view ≠ []) : evalSegment text f a seg = none := by
  have := hF seg hseg k _ h (by simp)
  unfold evalSegment
  simp only [iso] at this
  rw [this]
  simp [hv]

theorem judge_fail (hF : SpecFuelOK text f a K) {seg : List (RawTok Tok)} (hseg : seg <:+: K) {k}
    (h : peg text k a (iso f seg) = .fail) : evalSegment text f a seg = none := by
  have := hF seg hseg k _ h (by simp)
  unfold evalSegment
  simp only [iso] at this
  rw [this]

end Judge

theorem seg_infix (sep : Nat) (abort : List Nat) (K : List (RawTok Tok)) (j : Nat) :
    segOf sep abort (K.drop j) <:+: K :=
  List.IsInfix.trans (List.takeWhile_prefix _).isInfix (List.drop_suffix j K).isInfix

/-- the item as the list runs it (`list` / `list_bounded` wrap values in `Some`) -/
def itemOf (v : Nat) (a : G) : G := if v < 2 then G.someOf a else a
/-- the entry for a good segment -/
def wrapV (v : Nat) (x : Val) : Val := if v < 2 then Val.some x else x

theorem listItem_eq (v : Nat) (a : G) (sep : Nat) (abort : List Nat) :
    listItem v a sep abort = .upTo (itemOf v a) (sep :: abort) := rfl

theorem withRep_supported : ∀ g, pegWithRep g = true → supported g = true := by
  intro g
  induction g <;> simp_all [pegWithRep, supported]

theorem itemOf_supported {v : Nat} {a : G} (h : pegWithRep a = true) : supported (itemOf v a) = true := by
  unfold itemOf; split <;> simp [supported, withRep_supported a h]

section Item
variable {R : RunEnv} {m : Metrics} {len : Nat}

/-- the item as the list runs it, against the reference evaluator on the bare item -/
theorem item_sim (ok : ScanOK R.E m len) (hp : PassOK R.E) {a : G} (hfrag : pegWithRep a = true) (v n k : Nat)
    (hk : 2 * n ≤ k) {lx : Lx} {s : PState} (ab : Abs R.E m len lx s) (ctx : Ctx) (W : World) :
    (∃ x lx' s', run R n (itemOf v a) lx ctx W = (.ok (wrapV v x) lx', W) ∧ peg R.text k a s = .ok x s' ∧
        Abs R.E m len lx' s') ∨
    (∃ e, run R n (itemOf v a) lx ctx W = (.err e, W) ∧ peg R.text k a s = .fail) ∨
    (run R n (itemOf v a) lx ctx W).1 = .fuel := by
  have hw := RecoverFrame.run_supported_world R n (itemOf v a) lx ctx W (itemOf_supported hfrag)
  by_cases hv : v < 2
  · simp only [itemOf, wrapV, if_pos hv] at hw ⊢
    cases n with
    | zero => right; right; simp [run]
    | succ n =>
      have hsim := rep_sim ok hp n n (Nat.le_refl n) k (by omega) a lx s ctx W hfrag ab
      simp only [run] at hw ⊢
      rcases hsim.cases with ⟨x, lx', W', s', h1, h2, h3⟩ | ⟨e, W', h1, h2⟩ | ⟨W', h1⟩
      · rw [h1] at hw ⊢
        simp only at hw
        subst hw
        exact Or.inl ⟨x, lx', s', rfl, h2, h3⟩
      · rw [h1] at hw ⊢
        simp only at hw
        subst hw
        exact Or.inr (Or.inl ⟨e, rfl, h2⟩)
      · rw [h1]
        exact Or.inr (Or.inr rfl)
  · simp only [itemOf, wrapV, if_neg hv] at hw ⊢
    have hsim := rep_sim ok hp n n (Nat.le_refl n) k hk a lx s ctx W hfrag ab
    rcases hsim.cases with ⟨x, lx', W', s', h1, h2, h3⟩ | ⟨e, W', h1, h2⟩ | ⟨W', h1⟩
    · rw [h1] at hw ⊢
      simp only at hw
      subst hw
      exact Or.inl ⟨x, lx', s', rfl, h2, h3⟩
    · rw [h1] at hw ⊢
      simp only at hw
      subst hw
      exact Or.inr (Or.inl ⟨e, rfl, h2⟩)
    · rw [h1]
      exact Or.inr (Or.inr rfl)

theorem view_of_pop_some {s : PState} {r s'} (h : s.pop = some (r, s')) : s.view = r :: s'.view := by
  obtain ⟨post, h', rfl⟩ := pop_some_iff.mp h
  simp only [PState.skipFiltered] at h'
  have hk : (!keeps s.filter r.tok) = false :=
    dropWhile_cons_inv (p := fun r : RawTok Tok => !keeps s.filter r.tok) h'
  have := filter_dropWhile (fun r : RawTok Tok => keeps s.filter r.tok) s.rest
  unfold PState.view
  rw [← this, h']
  simp at hk
  simp [hk]

theorem drop_seg (sep : Nat) (abort : List Nat) (K : List (RawTok Tok)) (j : Nat) :
    K.drop (j + (segOf sep abort (K.drop j)).length) = tailOf sep abort (K.drop j) := by
  have h := seg_tail sep abort (K.drop j)
  rw [← List.drop_drop]
  generalize K.drop j = V at h ⊢
  have : V.drop (segOf sep abort V).length = (segOf sep abort V ++ tailOf sep abort V).drop (segOf sep abort V).length := by
    rw [h]
  rw [this, List.drop_left]

theorem contains_bnd (sep : Nat) (abort : List Nat) (k : Nat) : (sep :: abort).contains k = bnd sep abort k := by
  unfold bnd
  rw [List.contains_cons]

/-- **One run of `up_to(item, sep_or_abort)`** on a lexer at index `j` of the stream `K`:
it succeeds exactly when the judge accepts the segment starting at `j`, leaving the
lexer at the end of the segment; otherwise it fails; the world is untouched. -/
theorem upTo_step (ok : ScanOK R.E m len) (hp : PassOK R.E) {f : Option Nat} {a : G} {sep : Nat} {abort : List Nat}
    (H : ItemHyp R.text f a sep abort) {K : List (RawTok Tok)} (hF : SpecFuelOK R.text f a K)
    {j : Nat} {lx : Lx} (hat : AtIdx R.E m len f K j lx) (v n : Nat) (ctx : Ctx) (W : World) :
    (∃ x lx2, run R n (listItem v a sep abort) lx ctx W = (.ok (wrapV v x) lx2, W) ∧
        evalSegment R.text f a (segOf sep abort (K.drop j)) = some x ∧
        AtIdx R.E m len f K (j + (segOf sep abort (K.drop j)).length) lx2) ∨
    (∃ e, run R n (listItem v a sep abort) lx ctx W = (.err e, W) ∧
        evalSegment R.text f a (segOf sep abort (K.drop j)) = none) ∨
    (run R n (listItem v a sep abort) lx ctx W).1 = .fuel := by
  obtain ⟨s, ab, hsf, hsv⟩ := abs_of_atIdx hp hat
  have hinf := seg_infix sep abort K j
  cases n with
  | zero => right; right; simp [run]
  | succ n =>
    rw [listItem_eq]
    simp only [run]
    rcases item_sim ok hp H.frag v n (2 * n) (Nat.le_refl _) ab ctx W with
      ⟨x, lx', s', h1, h2, ab'⟩ | ⟨e, h1, h2⟩ | h1
    · rw [h1]
      simp only
      obtain ⟨t', ht, hview, hmem⟩ := H.local_ok _ s x s' hsf h2
      rw [hsv] at ht hview
      have hfil' : s'.filter = f := by
        have := (Frame.run_frame R n (itemOf v a) lx ctx W _ lx' (by rw [h1])).1
        rw [ab'.filter, this, hat.inv.hfil]
      rcases peek_cases ok hp ab' with ⟨lxp, hpk, abp, hpop⟩ | ⟨lxp, r, s'', lxn, hpk, abp, hpop, _, _⟩
      · -- end of the stream
        rw [hpk]
        simp only
        have hv0 := view_nil_of_pop_none hpop
        rw [hv0] at hview
        have ht0 : t'.view = [] := by
          cases h : t'.view with
          | nil => rfl
          | cons _ _ => rw [h] at hview; simp at hview
        have htl : tailOf sep abort (K.drop j) = [] := by
          rw [ht0] at hview; simpa using hview.symm
        refine Or.inl ⟨x, lxp, rfl, judge_good hF hinf ht ht0, atIdx_of_abs hp abp hfil' ?_⟩
        rw [hv0, drop_seg, htl]
      · rw [hpk]
        simp only
        have hv1 := view_of_pop_some hpop
        rw [contains_bnd]
        by_cases hb : bnd sep abort r.tok.kind = true
        · rw [if_pos hb]
          have ht0 : t'.view = [] := by
            cases h : t'.view with
            | nil => rfl
            | cons r0 rest =>
              rw [h, hv1] at hview
              simp only [List.cons_append, List.cons.injEq] at hview
              have := hmem r0 (by rw [h]; simp)
              rw [← hview.1, hb] at this
              cases this
          refine Or.inl ⟨x, lxp, rfl, judge_good hF hinf ht ht0, atIdx_of_abs hp abp hfil' ?_⟩
          rw [drop_seg, hview, ht0]; rfl
        · rw [if_neg hb]
          have ht1 : t'.view ≠ [] := by
            intro h0
            rw [h0, hv1] at hview
            simp only [List.nil_append] at hview
            exact hb (tail_head hview.symm)
          exact Or.inr (Or.inl ⟨_, rfl, judge_left hF hinf ht ht1⟩)
    · rw [h1]
      simp only
      have := H.local_fail _ s hsf h2
      rw [hsv] at this
      exact Or.inr (Or.inl ⟨e, rfl, judge_fail hF hinf this⟩)
    · right; right
      rcases hr : run R n (itemOf v a) lx ctx W with ⟨r, W'⟩
      rw [hr] at h1
      simp only at h1
      subst h1
      rfl

/-! ### D. one value round -/

theorem findIdx_bnd (sep : Nat) (abort : List Nat) : ∀ V : List (RawTok Tok),
    V.findIdx? (fun x => x.tok.kind == sep || abort.contains x.tok.kind) =
      if tailOf sep abort V = [] then none else some (segOf sep abort V).length := by
  intro V
  show V.findIdx? (fun x => bnd sep abort x.tok.kind) = _
  induction V with
  | nil => simp [tailOf]
  | cons r t ih =>
    rw [List.findIdx?_cons]
    cases hb : bnd sep abort r.tok.kind
    · simp only [Bool.false_eq_true, if_false]
      rw [ih]
      simp only [tailOf, segOf, List.dropWhile_cons, List.takeWhile_cons, hb]
      simp only [Bool.not_false, if_true, List.length_cons]
      split <;> simp_all
    · simp [tailOf, segOf, hb]

/-- the list's recovery closure -/
abbrev patOf (sep : Nat) (abort : List Nat) : Rec := .sepOrAbort sep abort

theorem recPoint_pat (sep : Nat) (abort : List Nat) (V : List (RawTok Tok)) :
    Fam.Oracles.recPoint (patOf sep abort) V =
      if tailOf sep abort V = [] then none else some (segOf sep abort V).length := by
  unfold Fam.Oracles.recPoint patOf
  exact findIdx_bnd sep abort V

/-- `recover_default(up_to(item, sep_or_abort), recover_pat)` on a lexer at index `j` -/
def firstTry (R : RunEnv) (n v id : Nat) (a : G) (sep : Nat) (abort : List Nat) (lx : Lx) (ctx : Ctx) (W : World) :
    RRes × World :=
  recoverDefault R n (listDv v) id (patOf sep abort) (listItem v a sep abort) lx ctx W

/-- `stabilize(recover_default(up_to(item, sep_or_abort), recover_pat))`: one value of the list -/
def valueRound (R : RunEnv) (n v id : Nat) (a : G) (sep : Nat) (abort : List Nat) (lx : Lx) (ctx : Ctx) (W : World) :
    RRes × World :=
  stabValue R n (listDv v) id (patOf sep abort) (listItem v a sep abort) lx ctx
    (firstTry R n v id a sep abort lx ctx W).1 (firstTry R n v id a sep abort lx ctx W).2

theorem recoverDefault_fuel {n : Nat} {dv : Val} {id : Nat} {r : Rec} {body : G} {lx : Lx} {ctx : Ctx} {W : World}
    (h : (run R n body lx ctx (W.register id r)).1 = .fuel) :
    (recoverDefault R (n + 1) dv id r body lx ctx W).1 = .fuel := by
  simp only [recoverDefault]
  rcases hr : run R n body lx ctx (W.register id r) with ⟨x, W'⟩
  rw [hr] at h
  simp only at h
  subst h
  rfl

theorem recoverDefault_ok {n : Nat} {dv : Val} {id : Nat} {r : Rec} {body : G} {lx : Lx} {ctx : Ctx} {W W' : World}
    {y : Val} {lx' : Lx} (h : run R n body lx ctx (W.register id r) = (.ok y lx', W')) :
    recoverDefault R (n + 1) dv id r body lx ctx W = (.ok y lx', W') := by
  simp only [recoverDefault, h]

section Round
variable (ok : ScanOK R.E m len) (hp : PassOK R.E) {f : Option Nat} {a : G} {sep : Nat} {abort : List Nat}
  (H : ItemHyp R.text f a sep abort) {K : List (RawTok Tok)} (hF : SpecFuelOK R.text f a K)
include ok hp H hF

/-- `recover_default(up_to(item, …), pat)` with a sink -/
theorem firstTry_sink {j : Nat} {lx : Lx} (hat : AtIdx R.E m len f K j lx) (v n id : Nat) (ctx : Ctx) (W : World)
    (hW : specOf W id = none ∨ specOf W id = some (patOf sep abort)) (hsink : ctx.sink = true) :
    (∃ x lx', firstTry R n v id a sep abort lx ctx W = (.ok (wrapV v x) lx', W.register id (patOf sep abort)) ∧
        evalSegment R.text f a (segOf sep abort (K.drop j)) = some x ∧
        AtIdx R.E m len f K (j + (segOf sep abort (K.drop j)).length) lx') ∨
    (evalSegment R.text f a (segOf sep abort (K.drop j)) = none ∧ tailOf sep abort (K.drop j) ≠ [] ∧
      ∃ e lx', firstTry R n v id a sep abort lx ctx W =
          (.ok (listDv v) lx', logged (W.register id (patOf sep abort)) ctx e) ∧
        AtIdx R.E m len f K (j + (segOf sep abort (K.drop j)).length) lx') ∨
    (evalSegment R.text f a (segOf sep abort (K.drop j)) = none ∧ tailOf sep abort (K.drop j) = [] ∧
      ∃ e, firstTry R n v id a sep abort lx ctx W =
          (.err ⟨[], .recover⟩, logged (W.register id (patOf sep abort)) ctx e)) ∨
    (firstTry R n v id a sep abort lx ctx W).1 = .fuel := by
  unfold firstTry
  cases n with
  | zero => right; right; right; simp [recoverDefault]
  | succ n =>
    rcases upTo_step ok hp H hF hat v n ctx (W.register id (patOf sep abort)) with
      ⟨x, lx2, h1, h2, h3⟩ | ⟨e, h1, h2⟩ | h1
    · exact Or.inl ⟨x, lx2, recoverDefault_ok h1, h2, h3⟩
    · have := recoverDefault_fail_sink' R ok hat n (listDv v) id (patOf sep abort) (listItem v a sep abort) ctx W _ e
        hW h1 (Or.inl rfl) hsink
      rw [recPoint_pat] at this
      by_cases htl : tailOf sep abort (K.drop j) = []
      · rw [if_pos htl] at this
        obtain ⟨W', h3, h4⟩ := this
        rcases h4 with rfl | ⟨h4, _⟩
        · exact Or.inr (Or.inr (Or.inl ⟨h2, htl, e, h3⟩))
        · simp [isAfter] at h4
      · rw [if_neg htl] at this
        obtain ⟨lx', h3, h4⟩ := this
        exact Or.inr (Or.inl ⟨h2, htl, e, lx', h3, h4.at_⟩)
    · exact Or.inr (Or.inr (Or.inr (recoverDefault_fuel h1)))

/-- `recover_default(up_to(item, …), pat)` without a sink -/
theorem firstTry_nosink {j : Nat} {lx : Lx} (hat : AtIdx R.E m len f K j lx) (v n id : Nat) (ctx : Ctx) (W : World)
    (hsink : ctx.sink = false) :
    (∃ x lx', firstTry R n v id a sep abort lx ctx W = (.ok (wrapV v x) lx', W.register id (patOf sep abort)) ∧
        evalSegment R.text f a (segOf sep abort (K.drop j)) = some x ∧
        AtIdx R.E m len f K (j + (segOf sep abort (K.drop j)).length) lx') ∨
    (evalSegment R.text f a (segOf sep abort (K.drop j)) = none ∧
      ∃ e, firstTry R n v id a sep abort lx ctx W = (.err e, W.register id (patOf sep abort))) ∨
    (firstTry R n v id a sep abort lx ctx W).1 = .fuel := by
  unfold firstTry
  cases n with
  | zero => right; right; simp [recoverDefault]
  | succ n =>
    rcases upTo_step ok hp H hF hat v n ctx (W.register id (patOf sep abort)) with
      ⟨x, lx2, h1, h2, h3⟩ | ⟨e, h1, h2⟩ | h1
    · exact Or.inl ⟨x, lx2, recoverDefault_ok h1, h2, h3⟩
    · exact Or.inr (Or.inl ⟨h2, e, recoverDefault_fail_nosink R n _ id _ _ lx ctx W _ e h1 hsink⟩)
    · exact Or.inr (Or.inr (recoverDefault_fuel h1))

end Round

theorem setRecover_at {f : Option Nat} {K : List (RawTok Tok)} {j : Nat} {lx : Lx} (o : Option Nat)
    (h : AtIdx R.E m len f K j lx) : AtIdx R.E m len f K j (lx.setRecoverState o) :=
  ⟨⟨h.inv.hmet, h.inv.hlen, h.inv.hfil, h.inv.ps_le, h.inv.ts, h.inv.buf⟩, h.kept⟩

/-- `stabilize` around a first attempt that succeeded: the recovering state is cleared -/
theorem stabValue_ok (n : Nat) (dv : Val) (id : Nat) (pat : Rec) (body : G) (lx : Lx) (ctx : Ctx) (y : Val) (lx' : Lx)
    (W : World) : stabValue R (n + 1) dv id pat body lx ctx (.ok y lx') W = (.ok y (lx'.setRecoverState none), W) := by
  simp [stabValue]

/-- `stabilize` around a failed first attempt, entered without a recovering state: no retry -/
theorem stabValue_err (n : Nat) (dv : Val) (id : Nat) (pat : Rec) (body : G) (lx : Lx) (ctx : Ctx) (e : PErr)
    (W : World) (hrec : lx.recover = none) :
    stabValue R (n + 1) dv id pat body lx ctx (.err e) W = (.err e, W) := by
  simp [stabValue, advanceToRecover, hrec]

theorem stabValue_fuel (n : Nat) (dv : Val) (id : Nat) (pat : Rec) (body : G) (lx : Lx) (ctx : Ctx)
    (W : World) : (stabValue R n dv id pat body lx ctx .fuel W).1 = .fuel := by
  cases n <;> simp [stabValue]

section Round2
variable (ok : ScanOK R.E m len) (hp : PassOK R.E) {f : Option Nat} {a : G} {sep : Nat} {abort : List Nat}
  (H : ItemHyp R.text f a sep abort) {K : List (RawTok Tok)} (hF : SpecFuelOK R.text f a K)
include ok hp H hF

/-- **C11, one round of the loop, with a sink.**  On a lexer at index `j` of the stream
`K` (not recovering), with `seg` the tokens from `j` up to the next separator / abort
token or the end: a good segment yields its value, nothing logged; a bad segment
followed by a separator / abort token yields the placeholder and exactly one logged
error; in both cases the returned lexer sits at the end of the segment and is not
recovering.  A bad segment that runs to the end of the stream makes the round fail
with the recovery error (after logging the item's error): finding F21. -/
theorem value_step_sink {j : Nat} {lx : Lx} (hat : AtIdx R.E m len f K j lx) (hrec : lx.recover = none)
    (v n id : Nat) (ctx : Ctx) (W : World)
    (hW : specOf W id = none ∨ specOf W id = some (patOf sep abort)) (hsink : ctx.sink = true) :
    (∃ x lx', valueRound R n v id a sep abort lx ctx W = (.ok (wrapV v x) lx', W.register id (patOf sep abort)) ∧
        evalSegment R.text f a (segOf sep abort (K.drop j)) = some x ∧
        AtIdx R.E m len f K (j + (segOf sep abort (K.drop j)).length) lx' ∧ lx'.recover = none) ∨
    (evalSegment R.text f a (segOf sep abort (K.drop j)) = none ∧ tailOf sep abort (K.drop j) ≠ [] ∧
      ∃ e lx', valueRound R n v id a sep abort lx ctx W =
          (.ok (listDv v) lx', logged (W.register id (patOf sep abort)) ctx e) ∧
        AtIdx R.E m len f K (j + (segOf sep abort (K.drop j)).length) lx' ∧ lx'.recover = none) ∨
    (evalSegment R.text f a (segOf sep abort (K.drop j)) = none ∧ tailOf sep abort (K.drop j) = [] ∧
      ∃ e, valueRound R n v id a sep abort lx ctx W =
          (.err ⟨[], .recover⟩, logged (W.register id (patOf sep abort)) ctx e)) ∨
    (valueRound R n v id a sep abort lx ctx W).1 = .fuel := by
  unfold valueRound
  cases n with
  | zero => right; right; right; simp [stabValue]
  | succ n =>
    rcases firstTry_sink ok hp H hF hat v (n + 1) id ctx W hW hsink with
      ⟨x, lx', h1, h2, h3⟩ | ⟨h2, htl, e, lx', h1, h3⟩ | ⟨h2, htl, e, h1⟩ | h1
    · rw [h1, stabValue_ok]
      exact Or.inl ⟨x, _, rfl, h2, setRecover_at none h3, rfl⟩
    · rw [h1, stabValue_ok]
      exact Or.inr (Or.inl ⟨h2, htl, e, _, rfl, setRecover_at none h3, rfl⟩)
    · rw [h1, stabValue_err _ _ _ _ _ _ _ _ _ hrec]
      exact Or.inr (Or.inr (Or.inl ⟨h2, htl, e, rfl⟩))
    · rw [h1]
      exact Or.inr (Or.inr (Or.inr (stabValue_fuel _ _ _ _ _ _ _ _)))

/-- **C11, one round of the loop, without a sink**: a good segment yields its value;
a bad one fails the round with the item's (or the boundary) error. -/
theorem value_step_nosink {j : Nat} {lx : Lx} (hat : AtIdx R.E m len f K j lx) (hrec : lx.recover = none)
    (v n id : Nat) (ctx : Ctx) (W : World) (hsink : ctx.sink = false) :
    (∃ x lx', valueRound R n v id a sep abort lx ctx W = (.ok (wrapV v x) lx', W.register id (patOf sep abort)) ∧
        evalSegment R.text f a (segOf sep abort (K.drop j)) = some x ∧
        AtIdx R.E m len f K (j + (segOf sep abort (K.drop j)).length) lx' ∧ lx'.recover = none) ∨
    (evalSegment R.text f a (segOf sep abort (K.drop j)) = none ∧
      ∃ e, valueRound R n v id a sep abort lx ctx W = (.err e, W.register id (patOf sep abort))) ∨
    (valueRound R n v id a sep abort lx ctx W).1 = .fuel := by
  unfold valueRound
  cases n with
  | zero => right; right; simp [stabValue]
  | succ n =>
    rcases firstTry_nosink ok hp H hF hat v (n + 1) id ctx W hsink with
      ⟨x, lx', h1, h2, h3⟩ | ⟨h2, e, h1⟩ | h1
    · rw [h1, stabValue_ok]
      exact Or.inl ⟨x, _, rfl, h2, setRecover_at none h3, rfl⟩
    · rw [h1, stabValue_err _ _ _ _ _ _ _ _ _ hrec]
      exact Or.inr (Or.inl ⟨h2, e, rfl⟩)
    · rw [h1]
      exact Or.inr (Or.inr (stabValue_fuel _ _ _ _ _ _ _ _))

end Round2

/-! ### E. the loop -/

section Steps
variable (ok : ScanOK R.E m len) (hp : PassOK R.E) {f : Option Nat} {K : List (RawTok Tok)}
include ok hp

/-- `peek` on a lexer at index `j` -/
theorem peek_at {j : Nat} {lx : Lx} (hat : AtIdx R.E m len f K j lx) :
    (∃ lxp, lx.peek R.E = (none, lxp) ∧ AtIdx R.E m len f K j lxp ∧ K.drop j = [] ∧ lxp.recover = lx.recover) ∨
    (∃ lxp r, lx.peek R.E = (some r.tok, lxp) ∧ AtIdx R.E m len f K j lxp ∧ K.drop j = r :: K.drop (j + 1) ∧
      (lxp.next R.E).1 = some r.tok ∧ AtIdx R.E m len f K (j + 1) (lxp.next R.E).2 ∧ lxp.isEmpty = false ∧
      lxp.recover = lx.recover) := by
  obtain ⟨s, ab, hsf, hsv⟩ := abs_of_atIdx hp hat
  rcases peek_cases ok hp ab with ⟨lxp, hpk, abp, hpop⟩ | ⟨lxp, r, s', lxn, hpk, abp, hpop, hnx, abn⟩
  · refine Or.inl ⟨lxp, hpk, atIdx_of_abs hp abp hsf hsv, ?_, peek_recover' hpk⟩
    rw [← hsv]; exact view_nil_of_pop_none hpop
  · have hv1 := view_of_pop_some hpop
    rw [hsv] at hv1
    obtain ⟨_, _, hdrop⟩ := drop_cons_inv hv1
    have hsf' : s'.filter = f := by
      obtain ⟨post, _, rfl⟩ := pop_some_iff.mp hpop
      exact hsf
    refine Or.inr ⟨lxp, r, hpk, atIdx_of_abs hp abp hsf hsv, by rw [hdrop]; exact hv1, by rw [hnx], ?_, ?_,
      peek_recover' hpk⟩
    · rw [hnx]; exact atIdx_of_abs hp abn hsf' hdrop.symm
    · cases he : lxp.isEmpty with
      | false => rfl
      | true =>
        have := (isEmpty_abs ok abp he).1
        rw [hpop] at this; cases this

omit ok hp in
/-- the separator step: `recover_default(discard(one(sep)), pat)` on a lexer peeked at a separator -/
theorem sep_step {lx : Lx} {r : RawTok Tok} {sep : Nat}
    (hnx : (lx.next R.E).1 = some r.tok) (hk : r.tok.kind = sep) (n id : Nat) (pat : Rec) (ctx : Ctx) (W : World) :
    (recoverDefault R n .dflt id pat (.discard (.one sep)) lx ctx W).1 = .fuel ∨
    recoverDefault R n .dflt id pat (.discard (.one sep)) lx ctx W = (.ok .unit (lx.next R.E).2, W.register id pat) := by
  rcases hn : lx.next R.E with ⟨o, lx'⟩
  rw [hn] at hnx
  simp only at hnx
  subst hnx
  match n with
  | 0 => left; simp [recoverDefault]
  | 1 => left; simp [recoverDefault, run]
  | 2 => left; simp [recoverDefault, run]
  | n + 3 =>
    right
    simp [recoverDefault, run, hn, hk]

end Steps

/-- the value the list records for an entry -/
def render (v : Nat) : Option Val → Val
  | some x => wrapV v x
  | none => listDv v

theorem listLoop_succ' (n v id lo : Nat) (hi : Option Nat) (a : G) (sep : Nat) (abort : List Nat)
    (lexer : Lx) (ctx : Ctx) (W : World) (vals : List Val) :
    listLoop R (n+1) v id lo hi a sep abort lexer ctx W vals =
    match lexer.peek R.E with
    | (Option.none, lexer) => listFinish ctx lo hi lexer vals W
    | (Option.some tok, lexer) =>
      if abort.contains tok.kind then
        if vals.isEmpty then listFinish ctx lo hi lexer vals W
        else
          match run R n (.stabilize (.maybe (listItem v a sep abort))) lexer ctx W with
          | (.ok (.some x) _, W1) => listFinish ctx lo hi lexer (x :: vals) W1
          | (.ok _ _, W1) => listFinish ctx lo hi lexer vals W1
          | r => r
      else
        match valueRound R n v id a sep abort lexer ctx W with
        | (.ok x lexer1, W1) =>
          if hiReached hi (x :: vals).length then listFinish ctx lo hi lexer1 (x :: vals) W1 else
          match lexer1.peek R.E with
          | (Option.none, lexer2) => listFinish ctx lo hi lexer2 (x :: vals) W1
          | (Option.some t2, lexer2) =>
            if abort.contains t2.kind then listFinish ctx lo hi lexer2 (x :: vals) W1
            else if lexer2.isEmpty then listFinish ctx lo hi lexer2 (x :: vals) W1
            else
              match recoverDefault R n .dflt id (patOf sep abort) (.discard (.one sep)) lexer2 ctx W1 with
              | (.ok _ lexer3, W2) =>
                listLoop R n v id lo hi a sep abort (lexer3.intoSublexer R.E) ctx W2 (x :: vals)
              | r => r
        | r => r := by
  rw [listLoop_succ]
  rfl

theorem judge_nil {text : Text} {f : Option Nat} {a : G} {sep : Nat} {abort : List Nat}
    (H : ItemHyp text f a sep abort) : evalSegment text f a [] = none := by
  unfold evalSegment
  split
  · next val s1 h =>
    have := H.nonnull 4000 ⟨[], .eot, f⟩ val s1 rfl h
    simp [PState.view] at this
  · rfl

theorem seg_of_bnd {sep : Nat} {abort : List Nat} {r : RawTok Tok} {V} (h : bnd sep abort r.tok.kind = true) :
    segOf sep abort (r :: V) = [] := by
  simp [segOf, h]

theorem bnd_of_abort {sep : Nat} {abort : List Nat} {k : Nat} (h : abort.contains k = true) : bnd sep abort k = true := by
  unfold bnd; rw [h]; simp

section Trailing
variable (ok : ScanOK R.E m len) (hp : PassOK R.E) {f : Option Nat} {a : G} {sep : Nat} {abort : List Nat}
  (H : ItemHyp R.text f a sep abort) {K : List (RawTok Tok)} (hF : SpecFuelOK R.text f a K)
include ok hp H hF

/-- the attempt at a trailing value in front of an abort token: nothing (the item is not nullable) -/
theorem trailing_step {j : Nat} {lx : Lx} {r : RawTok Tok} (hat : AtIdx R.E m len f K j lx)
    (hdrop : K.drop j = r :: K.drop (j + 1)) (hab : abort.contains r.tok.kind = true) (v n : Nat) (ctx : Ctx)
    (W : World) :
    (run R n (.stabilize (.maybe (listItem v a sep abort))) lx ctx W).1 = .fuel ∨
    run R n (.stabilize (.maybe (listItem v a sep abort))) lx ctx W = (.ok .none (lx.setRecoverState none), W) := by
  have hseg : segOf sep abort (K.drop j) = [] := by rw [hdrop]; exact seg_of_bnd (bnd_of_abort hab)
  match n with
  | 0 => left; simp [run]
  | 1 => left; simp [run, stabLoop]
  | n + 2 =>
    simp only [run]
    rcases upTo_step ok hp H hF hat v n ctx.withoutSink W with ⟨x, lx2, h1, h2, h3⟩ | ⟨e, h1, h2⟩ | h1
    · rw [hseg, judge_nil H] at h2; cases h2
    · right
      rw [h1]
      simp [stabLoop]
    · left
      rcases hr : run R n (listItem v a sep abort) lx ctx.withoutSink W with ⟨x, W'⟩
      rw [hr] at h1
      simp only at h1
      subst h1
      simp [stabLoop]

end Trailing

section RoundOut
variable (ok : ScanOK R.E m len) (hp : PassOK R.E) {f : Option Nat} {a : G} {sep : Nat} {abort : List Nat}
  (H : ItemHyp R.text f a sep abort) {K : List (RawTok Tok)} (hF : SpecFuelOK R.text f a K)
include ok hp H hF

/-- one value round, sink or not, in the form the loop uses -/
theorem round_out {j : Nat} {lx : Lx} (hat : AtIdx R.E m len f K j lx) (hrec : lx.recover = none)
    (v n id : Nat) (ctx : Ctx) (W : World)
    (hW : specOf W id = none ∨ specOf W id = some (patOf sep abort)) :
    (∃ x lx1 W1 pre, valueRound R n v id a sep abort lx ctx W = (.ok x lx1, W1) ∧
        render v (evalSegment R.text f a (segOf sep abort (K.drop j))) = x ∧
        W1.log = W.log ++ pre ∧ pre.length = nbad [evalSegment R.text f a (segOf sep abort (K.drop j))] ∧
        (ctx.sink = false → evalSegment R.text f a (segOf sep abort (K.drop j)) ≠ none) ∧
        (evalSegment R.text f a (segOf sep abort (K.drop j)) = none → tailOf sep abort (K.drop j) ≠ []) ∧
        AtIdx R.E m len f K (j + (segOf sep abort (K.drop j)).length) lx1 ∧ lx1.recover = none ∧
        specOf W1 id = some (patOf sep abort)) ∨
    (ctx.sink = true ∧ evalSegment R.text f a (segOf sep abort (K.drop j)) = none ∧
      tailOf sep abort (K.drop j) = [] ∧
      ∃ W1 pre, valueRound R n v id a sep abort lx ctx W = (.err ⟨[], .recover⟩, W1) ∧
        W1.log = W.log ++ pre ∧ pre.length = 1) ∨
    (ctx.sink = false ∧ evalSegment R.text f a (segOf sep abort (K.drop j)) = none ∧
      ∃ e W1, valueRound R n v id a sep abort lx ctx W = (.err e, W1) ∧ W1.log = W.log) ∨
    (valueRound R n v id a sep abort lx ctx W).1 = .fuel := by
  have hspec := specOf_register hW
  cases hsink : ctx.sink with
  | true =>
    rcases value_step_sink ok hp H hF hat hrec v n id ctx W hW hsink with
      ⟨x, lx', h1, h2, h3, h4⟩ | ⟨h2, htl, e, lx', h1, h3, h4⟩ | ⟨h2, htl, e, h1⟩ | h1
    · refine Or.inl ⟨_, lx', _, [], h1, by rw [h2]; rfl, by simp [WorldFrame.register_log], by rw [h2]; rfl, by simp [WorldFrame.register_log], by rw [h2]; simp, h3, h4,
        hspec⟩
    · refine Or.inl ⟨_, lx', _, [ctx.apply e], h1, by rw [h2]; rfl, by simp [WorldFrame.register_log], by rw [h2]; rfl, by simp [WorldFrame.register_log],
        fun _ => htl, h3, h4, by simpa using hspec⟩
    · exact Or.inr (Or.inl ⟨rfl, h2, htl, _, [ctx.apply e], h1, by simp [WorldFrame.register_log], rfl⟩)
    · exact Or.inr (Or.inr (Or.inr h1))
  | false =>
    rcases value_step_nosink ok hp H hF hat hrec v n id ctx W hsink with
      ⟨x, lx', h1, h2, h3, h4⟩ | ⟨h2, e, h1⟩ | h1
    · refine Or.inl ⟨_, lx', _, [], h1, by rw [h2]; rfl, by simp [WorldFrame.register_log], by rw [h2]; rfl, by rw [h2]; simp,
        by rw [h2]; simp, h3, h4, hspec⟩
    · exact Or.inr (Or.inr (Or.inl ⟨rfl, h2, e, _, h1, by simp [WorldFrame.register_log]⟩))
    · exact Or.inr (Or.inr (Or.inr h1))

end RoundOut

/-- What the loop returns when, from index `j` with the values `vals` (newest first) and
log `log`, the rest of the stream walks as `w`. -/
def LoopOut (R : RunEnv) (m : Metrics) (len : Nat) (f : Option Nat) (K : List (RawTok Tok)) (v : Nat) (ctx : Ctx)
    (lo : Nat) (hi : Option Nat) (w : WalkRes) (j : Nat) (vals : List Val) (log : List PErr)
    (res : RRes × World) : Prop :=
  res.1 = .fuel ∨
  (w.f21 = false ∧ (ctx.sink = false → none ∉ w.ents) ∧
    ∃ errs W' lxf, W'.log = log ++ errs ∧ errs.length = nbad w.ents ∧ AtIdx R.E m len f K (j + w.cons) lxf ∧
      lxf.recover = none ∧ res = listFinish ctx lo hi lxf ((w.ents.map (render v)).reverse ++ vals) W') ∨
  (ctx.sink = true ∧ w.f21 = true ∧ ∃ errs W', res = (.err ⟨[], .recover⟩, W') ∧ W'.log = log ++ errs ∧
      errs.length = nbad w.ents) ∨
  (ctx.sink = false ∧ none ∈ w.ents ∧ ∃ e W', res = (.err e, W') ∧ W'.log = log)

theorem LoopOut.lift {f : Option Nat} {K : List (RawTok Tok)} {v : Nat} {ctx : Ctx} {lo : Nat} {hi : Option Nat}
    {w' : WalkRes} {j c0 : Nat} {x : Val} {vals : List Val} {log0 log1 pre : List PErr} {res : RRes × World}
    {e : Option Val}
    (h : LoopOut R m len f K v ctx lo hi w' (j + c0) (x :: vals) log1 res)
    (hlog : log1 = log0 ++ pre) (hpre : pre.length = nbad [e]) (hx : render v e = x)
    (hs : ctx.sink = false → e ≠ none) :
    LoopOut R m len f K v ctx lo hi ⟨e :: w'.ents, c0 + w'.cons, w'.f21⟩ j vals log0 res := by
  rcases h with h | ⟨h1, h2, errs, W', lxf, h3, h4, h5, h6, h7⟩ | ⟨h1, h2, errs, W', h3, h4, h5⟩ |
    ⟨h1, h2, e', W', h3, h4⟩
  · exact Or.inl h
  · refine Or.inr (Or.inl ⟨h1, ?_, pre ++ errs, W', lxf, ?_, ?_, ?_, h6, ?_⟩)
    · intro hsk hm
      rcases List.mem_cons.mp hm with h' | h'
      · exact hs hsk h'.symm
      · exact h2 hsk h'
    · rw [h3, hlog, List.append_assoc]
    · rw [List.length_append, hpre, h4, ← nbad_cons]
    · rw [← Nat.add_assoc]; exact h5
    · rw [h7]
      simp [hx]
  · refine Or.inr (Or.inr (Or.inl ⟨h1, h2, pre ++ errs, W', h3, ?_, ?_⟩))
    · rw [h4, hlog, List.append_assoc]
    · rw [List.length_append, hpre, h5, ← nbad_cons]
  · have : pre = [] := by
      have := hs h1
      cases e with
      | none => exact absurd rfl this
      | some _ => simpa [nbad] using hpre
    subst this
    refine Or.inr (Or.inr (Or.inr ⟨h1, List.mem_cons_of_mem _ h2, e', W', h3, ?_⟩))
    rw [h4, hlog]; simp

theorem fst_fuel_of {r : RRes × World} {g : RRes × World → RRes × World} (h : r.1 = .fuel)
    (hg : ∀ W, g (.fuel, W) = (.fuel, W)) : (g r).1 = .fuel := by
  obtain ⟨x, W⟩ := r
  simp only at h
  subst h
  rw [hg]

theorem budget_one {hi : Option Nat} {c : Nat} (hlen : ∀ h, hi = some h → c < h) :
    (hi.map (· - c) == some 1) = hiReached hi (c + 1) := by
  cases hi with
  | none => rfl
  | some h =>
    have := hlen h rfl
    simp only [Option.map_some, hiReached]
    by_cases h1 : h - c = 1
    · rw [h1]; simp; omega
    · have : ¬ (c + 1 ≥ h) := by omega
      simp [h1, this]

theorem budget_next (hi : Option Nat) (c : Nat) :
    (hi.map (· - c)).map (· - 1) = hi.map (· - (c + 1)) := by
  cases hi with
  | none => rfl
  | some h => simp; omega

section Loop
variable (ok : ScanOK R.E m len) (hp : PassOK R.E) {f : Option Nat} {a : G} {sep : Nat} {abort : List Nat}
  (H : ItemHyp R.text f a sep abort) {K : List (RawTok Tok)} (hF : SpecFuelOK R.text f a K)
include ok hp H hF

/-- **The loop of `list_bounded_default`** from a lexer at index `j` of the stream `K`,
not recovering, with `vals` already taken: it returns what `walk` says about the rest
of the stream. -/
theorem loop_spec (v id lo : Nat) (hi : Option Nat) (ctx : Ctx) :
    ∀ (n j : Nat) (lexer : Lx) (vals : List Val) (W : World), AtIdx R.E m len f K j lexer →
      lexer.recover = none → (∀ h, hi = some h → vals.length < h) →
      (specOf W id = none ∨ specOf W id = some (patOf sep abort)) →
      LoopOut R m len f K v ctx lo hi
        (walk (evalSegment R.text f a) sep abort (hi.map (· - vals.length)) (K.drop j)) j vals W.log
        (listLoop R n v id lo hi a sep abort lexer ctx W vals) := by
  intro n
  induction n with
  | zero => intro j lexer vals W _ _ _ _; left; simp [listLoop]
  | succ n ih =>
    intro j lexer vals W hat hrec hlen hW
    rw [listLoop_succ']
    have finishHere : ∀ (lxp : Lx) (W1 : World), AtIdx R.E m len f K j lxp → lxp.recover = none → W1.log = W.log →
        LoopOut R m len f K v ctx lo hi ⟨[], 0, false⟩ j vals W.log (listFinish ctx lo hi lxp vals W1) := by
      intro lxp W1 h1 h2 h3
      exact Or.inr (Or.inl ⟨rfl, fun _ h => by simp at h, [], W1, lxp, by simp [h3], rfl, h1, h2, by simp⟩)
    rcases peek_at ok hp hat with ⟨lxp, hpk, hatp, hdrop, hrp⟩ | ⟨lxp, r, hpk, hatp, hdrop, hnx, hatn, hemp, hrp⟩
    · rw [hpk, hdrop, walk_nil]
      exact finishHere lxp W hatp (hrp.trans hrec) rfl
    · rw [hpk]
      simp only
      by_cases hab : abort.contains r.tok.kind = true
      · rw [if_pos hab, hdrop, walk_abort _ _ _ _ hab]
        by_cases hv : vals.isEmpty = true
        · rw [if_pos hv]
          exact finishHere lxp W hatp (hrp.trans hrec) rfl
        · rw [if_neg hv]
          rcases trailing_step ok hp H hF hatp hdrop hab v n ctx W with h1 | h1
          · left
            rcases hr : run R n (.stabilize (.maybe (listItem v a sep abort))) lxp ctx W with ⟨x, W'⟩
            rw [hr] at h1
            simp only at h1
            subst h1
            rfl
          · rw [h1]
            exact finishHere lxp W hatp (hrp.trans hrec) rfl
      · have hab' : abort.contains r.tok.kind = false := by simpa using hab
        rw [if_neg hab]
        rcases round_out ok hp H hF hatp (hrp.trans hrec) v n id ctx W hW with
          ⟨x, lx1, W1, pre, h1, hx, hlog, hpre, hsk, hnone, hat1, hrec1, hspec1⟩ |
          ⟨hsink, hj, htl, W1, pre, h1, hlog, hpre⟩ | ⟨hsink, hj, e, W1, h1, hlog⟩ | h1
        · -- a value (or a placeholder) was taken
          rw [h1]
          simp only
          rw [hdrop] at hx hpre hsk hnone hat1 ⊢
          have htlK := drop_seg sep abort K j
          rw [hdrop] at htlK
          generalize hV : K.drop (j + 1) = V' at *
          generalize hseg : segOf sep abort (r :: V') = seg at *
          generalize hjd : evalSegment R.text f a seg = e at *
          have hone := budget_one hlen
          -- the single-entry outcome
          have single : ∀ (lxf : Lx), AtIdx R.E m len f K (j + seg.length) lxf → lxf.recover = none →
              LoopOut R m len f K v ctx lo hi ⟨[e], seg.length, false⟩ j vals W.log
                (listFinish ctx lo hi lxf (x :: vals) W1) := by
            intro lxf g1 g2
            refine Or.inr (Or.inl ⟨rfl, ?_, pre, W1, lxf, hlog, hpre, g1, g2, by simp [hx]⟩)
            intro hs hm
            simp only [List.mem_singleton] at hm
            exact hsk hs hm.symm
          by_cases hr : hiReached hi (x :: vals).length = true
          · rw [if_pos hr]
            cases htl : tailOf sep abort (r :: V') with
            | nil =>
              rw [walk_end _ _ _ _ hab' htl, hseg, hjd]
              have : e.isNone = false := by
                cases e with
                | none => exact absurd htl (hnone rfl)
                | some _ => rfl
              rw [this]
              exact single lx1 hat1 hrec1
            | cons t tl =>
              rw [walk_stop _ _ _ _ hab' htl (by
                rw [hone]
                have : hiReached hi (vals.length + 1) = true := by simpa using hr
                rw [this]; rfl), hseg, hjd]
              exact single lx1 hat1 hrec1
          · rw [if_neg hr]
            rcases peek_at ok hp hat1 with ⟨lxp2, hpk2, hatp2, hdrop2, hrp2⟩ |
              ⟨lxp2, r2, hpk2, hatp2, hdrop2, hnx2, hatn2, hemp2, hrp2⟩
            · rw [hpk2]
              simp only
              have htl : tailOf sep abort (r :: V') = [] := by rw [← htlK, hdrop2]
              rw [walk_end _ _ _ _ hab' htl, hseg, hjd]
              have : e.isNone = false := by
                cases e with
                | none => exact absurd htl (hnone rfl)
                | some _ => rfl
              rw [this]
              exact single lxp2 hatp2 (hrp2.trans hrec1)
            · rw [hpk2]
              simp only
              have htl : tailOf sep abort (r :: V') = r2 :: K.drop (j + seg.length + 1) := by rw [← htlK, hdrop2]
              by_cases hab2 : abort.contains r2.tok.kind = true
              · rw [if_pos hab2]
                rw [walk_stop _ _ _ _ hab' htl (by rw [hab2]; simp), hseg, hjd]
                exact single lxp2 hatp2 (hrp2.trans hrec1)
              · have hab2' : abort.contains r2.tok.kind = false := by simpa using hab2
                rw [if_neg hab2, hemp2]
                simp only [Bool.false_eq_true, if_false]
                have hk2 : r2.tok.kind = sep := by
                  have := tail_head htl
                  simp only [bnd, hab2', Bool.or_false] at this
                  simpa using this
                have hs' : (Option.map (· - vals.length) hi == some 1 || abort.contains r2.tok.kind) = false := by
                  rw [hone, hab2']
                  simpa using hr
                rw [walk_step _ _ _ _ hab' htl hs', hseg, hjd, budget_next]
                rcases sep_step hnx2 hk2 n id (patOf sep abort) ctx W1 with g | g
                · left
                  rcases hrd : recoverDefault R n .dflt id (patOf sep abort) (.discard (.one sep)) lxp2 ctx W1 with
                    ⟨y, W'⟩
                  rw [hrd] at g
                  simp only at g
                  subst g
                  rfl
                · rw [g]
                  simp only
                  have hih := ih (j + seg.length + 1) ((lxp2.next R.E).2.intoSublexer R.E) (x :: vals)
                    (W1.register id (patOf sep abort)) (intoSublexer_at ok hatn2)
                    (by rw [intoSublexer_recover, next_recover, hrp2, hrec1])
                    (by
                      intro h hh
                      subst hh
                      simp only [hiReached, List.length_cons] at hr ⊢
                      simp at hr
                      omega)
                    (Or.inr (specOf_register (Or.inr hspec1)))
                  have := LoopOut.lift (j := j) (c0 := seg.length + 1) (log0 := W.log) (pre := pre) (e := e)
                    (by rw [← Nat.add_assoc]; exact hih)
                    (by rw [WorldFrame.register_log, hlog]) hpre hx hsk
                  exact this
        · -- F21
          rw [h1]
          simp only
          rw [hdrop] at hj htl
          rw [hdrop, walk_end _ _ _ _ hab' htl, hj]
          exact Or.inr (Or.inr (Or.inl ⟨hsink, rfl, pre, W1, rfl, hlog, by rw [hpre]; rfl⟩))
        · -- no sink, bad segment
          rw [h1]
          simp only
          rw [hdrop] at hj
          have hmem : none ∈ (walk (evalSegment R.text f a) sep abort (hi.map (· - vals.length))
              (r :: K.drop (j + 1))).ents := by
            cases htl : tailOf sep abort (r :: K.drop (j + 1)) with
            | nil => rw [walk_end _ _ _ _ hab' htl, hj]; simp
            | cons t tl =>
              cases hs' : (Option.map (· - vals.length) hi == some 1 || abort.contains t.tok.kind) with
              | true => rw [walk_stop _ _ _ _ hab' htl hs', hj]; simp
              | false => rw [walk_step _ _ _ _ hab' htl hs', hj]; simp
          rw [hdrop]
          exact Or.inr (Or.inr (Or.inr ⟨hsink, hmem, e, W1, rfl, hlog⟩))
        · left
          rcases hr : valueRound R n v id a sep abort lxp ctx W with ⟨y, W'⟩
          rw [hr] at h1
          simp only at h1
          subst h1
          rfl

end Loop

/-! ### G. the combinator -/

/-- `list` / `list_default` ignore the bounds -/
def effLo (v lo : Nat) : Nat := if v % 2 == 0 then 0 else lo
def effHi (v : Nat) (hi : Option Nat) : Option Nat := if v % 2 == 0 then none else hi

theorem run_list_eq (n v id lo : Nat) (hi : Option Nat) (a : G) (sep : Nat) (abort : List Nat) (lx : Lx) (ctx : Ctx)
    (W : World) (hhi : effHi v hi ≠ some 0) (hlo : hiBelow (effHi v hi) (effLo v lo) = false) :
    run R (n + 1) (.list v id lo hi a sep abort) lx ctx W =
      listLoop R n v id (effLo v lo) (effHi v hi) a sep abort lx ctx W [] := by
  simp only [run]
  show (match effHi v hi with
    | some 0 => (RRes.ok (.list []) lx, W)
    | _ => if hiBelow (effHi v hi) (effLo v lo) then (RRes.panic, W) else
        listLoop R n v id (effLo v lo) (effHi v hi) a sep abort lx ctx W []) = _
  rw [hlo]
  split
  · next h => exact absurd h hhi
  · rfl

section Top
variable (ok : ScanOK R.E m len) (hp : PassOK R.E) {f : Option Nat} {a : G} {sep : Nat} {abort : List Nat}
  (H : ItemHyp R.text f a sep abort) {K : List (RawTok Tok)} (hF : SpecFuelOK R.text f a K)
include ok hp H hF

/-- the combinator from a lexer at index `j`, in terms of `walk` -/
theorem run_list_walk (n v id lo : Nat) (hi : Option Nat) {j : Nat} {lx : Lx} (ctx : Ctx) (W : World)
    (hhi : effHi v hi ≠ some 0) (hlo : hiBelow (effHi v hi) (effLo v lo) = false)
    (hat : AtIdx R.E m len f K j lx) (hrec : lx.recover = none)
    (hW : specOf W id = none ∨ specOf W id = some (patOf sep abort)) :
    LoopOut R m len f K v ctx (effLo v lo) (effHi v hi)
      (walk (evalSegment R.text f a) sep abort (effHi v hi) (K.drop j)) j [] W.log
      (run R (n + 1) (.list v id lo hi a sep abort) lx ctx W) := by
  rw [run_list_eq n v id lo hi a sep abort lx ctx W hhi hlo]
  have := loop_spec ok hp H hF v id (effLo v lo) (effHi v hi) ctx n j lx [] W hat hrec
    (by
      intro h hh
      cases h with
      | zero => exact absurd hh hhi
      | succ _ => simp)
    hW
  have e : (effHi v hi).map (· - ([] : List Val).length) = effHi v hi := by
    cases effHi v hi <;> simp
  rw [e] at this
  exact this

end Top

theorem listFinish_clean (ctx : Ctx) (lo : Nat) (hi : Option Nat) (lxf : Lx) (vals : List Val) (W : World)
    (h : vals = [] ∨ lxf.recover = none) :
    listFinish ctx lo hi lxf vals W =
      if vals.length < lo then
        (if ctx.sink then
          (.ok (.list vals.reverse) lxf,
            { W with log := W.log ++ [ctx.apply (mkErr (.count lxf.parseSpan vals.length lo hi))] })
         else (.err (mkErr (.count lxf.parseSpan vals.length lo hi)), W))
      else (.ok (.list vals.reverse) lxf, W) := by
  unfold listFinish
  have : (!(vals.isEmpty || lxf.recover.isNone)) = false := by
    rcases h with h | h
    · subst h; rfl
    · rw [h]; simp
  rw [this]
  simp only [Bool.false_eq_true, if_false]
  split
  · unfold sendError
    cases ctx.sink <;> rfl
  · rfl

theorem listFinish_no_panic (ctx : Ctx) (lo : Nat) (hi : Option Nat) (lxf : Lx) (vals : List Val) (W : World)
    (h : vals = [] ∨ lxf.recover = none) : (listFinish ctx lo hi lxf vals W).1 ≠ .panic := by
  rw [listFinish_clean ctx lo hi lxf vals W h]
  split
  · split <;> simp
  · simp

theorem LoopOut.no_panic {f : Option Nat} {K : List (RawTok Tok)} {v : Nat} {ctx : Ctx} {lo : Nat} {hi : Option Nat}
    {w : WalkRes} {j : Nat} {vals : List Val} {log : List PErr} {res : RRes × World}
    (h : LoopOut R m len f K v ctx lo hi w j vals log res) : res.1 ≠ .panic := by
  rcases h with h | ⟨_, _, errs, W', lxf, _, _, _, h6, h7⟩ | ⟨_, _, errs, W', h3, _⟩ | ⟨_, _, e', W', h3, _⟩
  · rw [h]; simp
  · rw [h7]; exact listFinish_no_panic _ _ _ _ _ _ (Or.inr h6)
  · rw [h3]; simp
  · rw [h3]; simp

theorem nbad_zero_iff (l : List (Option Val)) : nbad l = 0 ↔ none ∉ l := by
  induction l with
  | nil => simp [nbad]
  | cons e t ih =>
    rw [nbad_cons, List.mem_cons]
    cases e with
    | none => simp [nbad]
    | some x =>
      have : nbad [some x] = 0 := by simp [nbad]
      rw [this, Nat.zero_add, ih]
      simp

/-- the conclusion of C11 with a sink: the list succeeds with the rendering of the entries of
`listSpec`, the returned lexer continues after the consumed tokens, the log has grown by one
error per bad segment, then the count error when there are fewer than `lo` entries. -/
def SinkConcl (R : RunEnv) (m : Metrics) (len : Nat) (f : Option Nat) (K : List (RawTok Tok)) (a : G) (sep : Nat)
    (abort : List Nat) (n v id lo : Nat) (hi : Option Nat) (j : Nat) (lx : Lx) (ctx : Ctx) (W : World) : Prop :=
  ∃ lx' W' errs,
    run R (n + 1) (.list v id lo hi a sep abort) lx ctx W =
      (.ok (.list ((listSpec R.text f (effHi v hi) a sep abort (K.drop j)).entries.map (render v))) lx', W') ∧
    AtIdx R.E m len f K (j + (listSpec R.text f (effHi v hi) a sep abort (K.drop j)).consumed) lx' ∧
    lx'.recover = none ∧
    errs.length = (listSpec R.text f (effHi v hi) a sep abort (K.drop j)).nbad ∧
    W'.log = W.log ++ errs ++
      (if (listSpec R.text f (effHi v hi) a sep abort (K.drop j)).entries.length < effLo v lo then
        [ctx.apply (mkErr (.count lx'.parseSpan
          (listSpec R.text f (effHi v hi) a sep abort (K.drop j)).entries.length (effLo v lo) (effHi v hi)))]
       else [])

section Final
variable (ok : ScanOK R.E m len) (hp : PassOK R.E) {f : Option Nat} {a : G} {sep : Nat} {abort : List Nat}
  (H : ItemHyp R.text f a sep abort) {K : List (RawTok Tok)} (hF : SpecFuelOK R.text f a K)
include ok hp H hF

/-- **C11 with a sink** (F21 excluded). -/
theorem list_sink (n v id lo : Nat) (hi : Option Nat) {j : Nat} {lx : Lx} (ctx : Ctx) (W : World)
    (hhi : effHi v hi ≠ some 0) (hlo : hiBelow (effHi v hi) (effLo v lo) = false)
    (hat : AtIdx R.E m len f K j lx) (hrec : lx.recover = none)
    (hW : specOf W id = none ∨ specOf W id = some (patOf sep abort)) (hsink : ctx.sink = true)
    (hne : (run R (n + 1) (.list v id lo hi a sep abort) lx ctx W).1 ≠ .fuel)
    (hF21 : (listSpec R.text f (effHi v hi) a sep abort (K.drop j)).lastBadAtEnd = false) :
    SinkConcl R m len f K a sep abort n v id lo hi j lx ctx W := by
  unfold SinkConcl
  obtain ⟨w1, w2, w3⟩ := walk_listSpec R.text f a sep abort (effHi v hi) hhi (K.drop j)
  rcases run_list_walk ok hp H hF n v id lo hi ctx W hhi hlo hat hrec hW with
    h | ⟨_, _, errs, W', lxf, h3, h4, h5, h6, h7⟩ | ⟨_, h2, _⟩ | ⟨h1, _⟩
  · exact absurd h hne
  · rw [w1] at h4 h7
    rw [w2] at h5
    rw [listFinish_clean _ _ _ _ _ _ (Or.inr h6), hsink] at h7
    simp only [List.append_nil, List.length_reverse, List.length_map, List.reverse_reverse, if_true] at h7
    by_cases hc : (listSpec R.text f (effHi v hi) a sep abort (K.drop j)).entries.length < effLo v lo
    · rw [if_pos hc] at h7
      refine ⟨lxf, _, errs, h7, h5, h6, h4, ?_⟩
      rw [if_pos hc, h3]
    · rw [if_neg hc] at h7
      refine ⟨lxf, _, errs, h7, h5, h6, h4, ?_⟩
      rw [if_neg hc, h3]; simp
  · rw [w3, hF21] at h2; cases h2
  · rw [hsink] at h1; cases h1

/-- **C11 without a sink.** -/
theorem list_nosink (n v id lo : Nat) (hi : Option Nat) {j : Nat} {lx : Lx} (ctx : Ctx) (W : World)
    (hhi : effHi v hi ≠ some 0) (hlo : hiBelow (effHi v hi) (effLo v lo) = false)
    (hat : AtIdx R.E m len f K j lx) (hrec : lx.recover = none)
    (hW : specOf W id = none ∨ specOf W id = some (patOf sep abort)) (hsink : ctx.sink = false)
    (hne : (run R (n + 1) (.list v id lo hi a sep abort) lx ctx W).1 ≠ .fuel) :
    ((listSpec R.text f (effHi v hi) a sep abort (K.drop j)).nbad = 0 ∧
      effLo v lo ≤ (listSpec R.text f (effHi v hi) a sep abort (K.drop j)).entries.length →
      ∃ lx' W', run R (n + 1) (.list v id lo hi a sep abort) lx ctx W =
          (.ok (.list ((listSpec R.text f (effHi v hi) a sep abort (K.drop j)).entries.map (render v))) lx', W') ∧
        AtIdx R.E m len f K (j + (listSpec R.text f (effHi v hi) a sep abort (K.drop j)).consumed) lx' ∧
        lx'.recover = none ∧ W'.log = W.log) ∧
    (¬ ((listSpec R.text f (effHi v hi) a sep abort (K.drop j)).nbad = 0 ∧
      effLo v lo ≤ (listSpec R.text f (effHi v hi) a sep abort (K.drop j)).entries.length) →
      ∃ e W', run R (n + 1) (.list v id lo hi a sep abort) lx ctx W = (.err e, W') ∧ W'.log = W.log ∧
        ((listSpec R.text f (effHi v hi) a sep abort (K.drop j)).nbad = 0 →
          ∃ sp, e = mkErr (.count sp (listSpec R.text f (effHi v hi) a sep abort (K.drop j)).entries.length
            (effLo v lo) (effHi v hi)))) := by
  obtain ⟨w1, w2, w3⟩ := walk_listSpec R.text f a sep abort (effHi v hi) hhi (K.drop j)
  have hnb : (listSpec R.text f (effHi v hi) a sep abort (K.drop j)).nbad =
      nbad (listSpec R.text f (effHi v hi) a sep abort (K.drop j)).entries := rfl
  rcases run_list_walk ok hp H hF n v id lo hi ctx W hhi hlo hat hrec hW with
    h | ⟨_, hgood, errs, W', lxf, h3, h4, h5, h6, h7⟩ | ⟨h1, _⟩ | ⟨_, hbad, e, W', h3, h4⟩
  · exact absurd h hne
  · rw [w1] at h4 h7 hgood
    rw [w2] at h5
    have hz : nbad (listSpec R.text f (effHi v hi) a sep abort (K.drop j)).entries = 0 :=
      (nbad_zero_iff _).mpr (hgood hsink)
    have herrs : errs = [] := List.eq_nil_of_length_eq_zero (by rw [h4, hz])
    subst herrs
    rw [listFinish_clean _ _ _ _ _ _ (Or.inr h6), hsink] at h7
    simp only [List.append_nil, List.length_reverse, List.length_map, List.reverse_reverse] at h7 h3
    constructor
    · rintro ⟨_, hlo'⟩
      rw [if_neg (by omega)] at h7
      exact ⟨lxf, W', h7, h5, h6, h3⟩
    · intro hnot
      have hc : (listSpec R.text f (effHi v hi) a sep abort (K.drop j)).entries.length < effLo v lo := by
        apply Nat.lt_of_not_le
        intro hle
        exact hnot ⟨by rw [hnb, hz], hle⟩
      rw [if_pos hc] at h7
      simp only [Bool.false_eq_true, if_false] at h7
      exact ⟨_, W', h7, h3, fun _ => ⟨_, rfl⟩⟩
  · rw [hsink] at h1; cases h1
  · rw [w1] at hbad
    have hnz : nbad (listSpec R.text f (effHi v hi) a sep abort (K.drop j)).entries ≠ 0 :=
      fun h0 => (nbad_zero_iff _).mp h0 hbad
    constructor
    · rintro ⟨h0, _⟩
      exact absurd (hnb ▸ h0) hnz
    · intro _
      exact ⟨e, W', h3, h4, fun h0 => absurd (hnb ▸ h0) hnz⟩

/-- **C11, no panic** (F21 cases included): entered with a lexer that is not recovering,
the combinator does not panic — in particular the `debug_assert` of `finish` holds. -/
theorem list_no_panic (n v id lo : Nat) (hi : Option Nat) {j : Nat} {lx : Lx} (ctx : Ctx) (W : World)
    (hlo : hiBelow (effHi v hi) (effLo v lo) = false)
    (hat : AtIdx R.E m len f K j lx) (hrec : lx.recover = none)
    (hW : specOf W id = none ∨ specOf W id = some (patOf sep abort)) :
    (run R n (.list v id lo hi a sep abort) lx ctx W).1 ≠ .panic := by
  cases n with
  | zero => simp [run]
  | succ n =>
    by_cases hhi : effHi v hi = some 0
    · simp only [run]
      show (match effHi v hi with
        | some 0 => (RRes.ok (.list []) lx, W)
        | _ => if hiBelow (effHi v hi) (effLo v lo) then (RRes.panic, W) else
            listLoop R n v id (effLo v lo) (effHi v hi) a sep abort lx ctx W []).1 ≠ _
      rw [hhi]
      simp
    · exact (run_list_walk ok hp H hF n v id lo hi ctx W hhi hlo hat hrec hW).no_panic

end Final

section NoValue
variable (ok : ScanOK R.E m len) (hp : PassOK R.E) {f : Option Nat} {K : List (RawTok Tok)}
include ok hp

/-- Entered with ANY lexer (possibly still recovering from an earlier error) in front of
the end of the stream or of an abort token, the loop takes no value and returns through
`finish` with an empty vector: the `debug_assert` holds by its first disjunct. -/
theorem loop_no_value_no_panic {j : Nat} {lexer : Lx} (hat : AtIdx R.E m len f K j lexer)
    (n v id lo : Nat) (hi : Option Nat) (a : G) (sep : Nat) (abort : List Nat) (ctx : Ctx) (W : World)
    (h : K.drop j = [] ∨ ∃ r rest, K.drop j = r :: rest ∧ abort.contains r.tok.kind = true) :
    (listLoop R n v id lo hi a sep abort lexer ctx W []).1 ≠ .panic := by
  cases n with
  | zero => simp [listLoop]
  | succ n =>
    rw [listLoop_succ']
    rcases peek_at ok hp hat with ⟨lxp, hpk, _, _, _⟩ | ⟨lxp, r, hpk, _, hdrop, _⟩
    · rw [hpk]
      exact listFinish_no_panic _ _ _ _ _ _ (Or.inl rfl)
    · rw [hpk]
      simp only
      rcases h with h | ⟨r', rest, h, hab⟩
      · rw [h] at hdrop; cases hdrop
      · rw [h] at hdrop
        injection hdrop with e1 e2
        subst e1
        rw [if_pos hab]
        simp only [List.isEmpty_nil, if_true]
        exact listFinish_no_panic _ _ _ _ _ _ (Or.inl rfl)

end NoValue

/-! ### no panic from ANY entry lexer (recovering or not) -/

/-- the stream at `j` ends or continues with a separator / abort token -/
def NextBnd (sep : Nat) (abort : List Nat) (K : List (RawTok Tok)) (j : Nat) : Prop :=
  K.drop j = [] ∨ ∃ b rest, K.drop j = b :: rest ∧ bnd sep abort b.tok.kind = true

theorem nextBnd_seg (sep : Nat) (abort : List Nat) (K : List (RawTok Tok)) (j : Nat) :
    NextBnd sep abort K (j + (segOf sep abort (K.drop j)).length) := by
  unfold NextBnd
  rw [drop_seg]
  cases h : tailOf sep abort (K.drop j) with
  | nil => exact Or.inl rfl
  | cons b rest => exact Or.inr ⟨b, rest, rfl, tail_head h⟩

section Any
variable (ok : ScanOK R.E m len) (hp : PassOK R.E) {f : Option Nat} {K : List (RawTok Tok)}
include ok hp

theorem recoverLoop_at (id : Nat) : ∀ (n j : Nat) (lx : Lx) (W : World) (lx1 : Lx) (W1 : World),
    AtIdx R.E m len f K j lx → recoverLoop R id n lx W = (some lx1, W1) → ∃ j1, AtIdx R.E m len f K j1 lx1 := by
  intro n
  induction n with
  | zero => intro j lx W lx1 W1 _ h; simp [recoverLoop] at h
  | succ n ih =>
    intro j lx W lx1 W1 hat h
    simp only [recoverLoop] at h
    rcases peek_at ok hp hat with ⟨lxp, hpk, _, _, _⟩ | ⟨lxp, r, hpk, hatp, _, _, hatn, _, _⟩
    · rw [hpk] at h; simp at h
    · rw [hpk] at h
      simp only at h
      split at h
      · cases h; exact ⟨j, hatp⟩
      · exact ih (j + 1) _ _ lx1 W1 hatn h

theorem advance_at {j : Nat} {lx lx1 : Lx} {W W1 : World} (hat : AtIdx R.E m len f K j lx)
    (h : advanceToRecover R lx W = (some lx1, W1)) : ∃ j1, AtIdx R.E m len f K j1 lx1 := by
  unfold advanceToRecover at h
  split at h
  · cases h; exact ⟨j, hat⟩
  · exact recoverLoop_at ok hp _ _ j lx W lx1 W1 hat h

end Any

section Shape
variable (ok : ScanOK R.E m len) (hp : PassOK R.E) {f : Option Nat} {a : G} (sep : Nat) (abort : List Nat)
  (hfrag : pegWithRep a = true)

/-- the lexer's remaining stream ends or continues with a separator / abort token -/
def NextB (R : RunEnv) (m : Metrics) (len : Nat) (sep : Nat) (abort : List Nat) (lx : Lx) : Prop :=
  kept R.E m len lx = [] ∨ ∃ b rest, kept R.E m len lx = b :: rest ∧ bnd sep abort b.tok.kind = true

omit ok hp hfrag in
theorem atIdx_self {lx : Lx} (inv : Inv R.E m len f lx) : AtIdx R.E m len f (kept R.E m len lx) 0 lx :=
  ⟨inv, by simp⟩

include ok hp hfrag

/-- `up_to(item, sep_or_abort)` from any well-formed lexer, shape only: a success leaves a
well-formed lexer in front of a separator / abort token or the end; the world is untouched. -/
theorem upTo_shape {lx : Lx} (inv : Inv R.E m len f lx) (v n : Nat) (ctx : Ctx) (W : World) :
    (∃ y lx2, run R n (listItem v a sep abort) lx ctx W = (.ok y lx2, W) ∧ Inv R.E m len f lx2 ∧
        NextB R m len sep abort lx2) ∨
    (∃ e, run R n (listItem v a sep abort) lx ctx W = (.err e, W)) ∨
    (run R n (listItem v a sep abort) lx ctx W).1 = .fuel := by
  have ab := abs_of_inv hp inv
  cases n with
  | zero => right; right; simp [run]
  | succ n =>
    rw [listItem_eq]
    simp only [run]
    rcases item_sim ok hp hfrag v n (2 * n) (Nat.le_refl _) ab ctx W with
      ⟨x, lx', s', h1, h2, ab'⟩ | ⟨e, h1, h2⟩ | h1
    · rw [h1]
      simp only
      have hfil' : s'.filter = f := by
        have := (Frame.run_frame R n (itemOf v a) lx ctx W _ lx' (by rw [h1])).1
        rw [ab'.filter, this, inv.hfil]
      rcases peek_cases ok hp ab' with ⟨lxp, hpk, abp, hpop⟩ | ⟨lxp, r, s'', lxn, hpk, abp, hpop, _, _⟩
      · rw [hpk]
        simp only
        refine Or.inl ⟨_, lxp, rfl, hfil' ▸ abp.inv, Or.inl ?_⟩
        rw [kept_of_abs hp abp]; exact view_nil_of_pop_none hpop
      · rw [hpk]
        simp only
        rw [contains_bnd]
        by_cases hb : bnd sep abort r.tok.kind = true
        · rw [if_pos hb]
          refine Or.inl ⟨_, lxp, rfl, hfil' ▸ abp.inv, Or.inr ⟨r, s''.view, ?_, hb⟩⟩
          rw [kept_of_abs hp abp]; exact view_of_pop_some hpop
        · rw [if_neg hb]
          exact Or.inr (Or.inl ⟨_, rfl⟩)
    · rw [h1]
      exact Or.inr (Or.inl ⟨e, rfl⟩)
    · right; right
      rcases hr : run R n (itemOf v a) lx ctx W with ⟨r, W'⟩
      rw [hr] at h1
      simp only at h1
      subst h1
      rfl

/-- the first attempt at a value, shape only -/
theorem firstTry_shape {lx : Lx} (inv : Inv R.E m len f lx) (v n id : Nat) (ctx : Ctx) (W : World)
    (hW : specOf W id = none ∨ specOf W id = some (patOf sep abort)) :
    (firstTry R n v id a sep abort lx ctx W).1 = .fuel ∨
    (∃ x lx' W', firstTry R n v id a sep abort lx ctx W = (.ok x lx', W') ∧
      specOf W' id = some (patOf sep abort) ∧ Inv R.E m len f lx' ∧ NextB R m len sep abort lx') ∨
    (∃ e W', firstTry R n v id a sep abort lx ctx W = (.err e, W') ∧ specOf W' id = some (patOf sep abort)) := by
  have hspec := specOf_register hW
  unfold firstTry
  cases n with
  | zero => left; simp [recoverDefault]
  | succ n =>
    rcases upTo_shape ok hp sep abort hfrag inv v n ctx (W.register id (patOf sep abort)) with
      ⟨y, lx2, h1, h2, h3⟩ | ⟨e, h1⟩ | h1
    · exact Or.inr (Or.inl ⟨y, lx2, _, recoverDefault_ok h1, hspec, h2, h3⟩)
    · cases hsink : ctx.sink with
      | false =>
        exact Or.inr (Or.inr ⟨e, _, recoverDefault_fail_nosink R n _ id _ _ lx ctx W _ e h1 hsink, hspec⟩)
      | true =>
        have := recoverDefault_fail_sink' R ok (atIdx_self inv) n (listDv v) id (patOf sep abort)
          (listItem v a sep abort) ctx W _ e hW h1 (Or.inl rfl) hsink
        rw [recPoint_pat] at this
        simp only [List.drop_zero] at this
        by_cases htl : tailOf sep abort (kept R.E m len lx) = []
        · rw [if_pos htl] at this
          obtain ⟨W', h3, h4⟩ := this
          rcases h4 with rfl | ⟨h4, _⟩
          · exact Or.inr (Or.inr ⟨_, _, h3, by simpa using hspec⟩)
          · simp [isAfter] at h4
        · rw [if_neg htl] at this
          obtain ⟨lx', h3, h4⟩ := this
          refine Or.inr (Or.inl ⟨_, lx', _, h3, by simpa using hspec, h4.at_.inv, ?_⟩)
          have hk := h4.at_.kept
          have hd := drop_seg sep abort (kept R.E m len lx) 0
          simp only [List.drop_zero, Nat.zero_add] at hd
          rw [Nat.zero_add, hd] at hk
          cases htl' : tailOf sep abort (kept R.E m len lx) with
          | nil => exact absurd htl' htl
          | cons b rest =>
            rw [htl'] at hk
            exact Or.inr ⟨b, rest, hk, tail_head htl'⟩
    · exact Or.inl (recoverDefault_fuel h1)

/-- `stabilize` around the value, from any well-formed lexer (recovering or not): it never
panics, and a value comes with a well-formed lexer that is not recovering and sits in front
of a separator / abort token or the end. -/
theorem stabValue_shape (v id : Nat) (ctx : Ctx) : ∀ (n : Nat) (lx : Lx) (res : RRes) (W : World),
    Inv R.E m len f lx →
    (res = .fuel ∨ (∃ x lx', res = .ok x lx' ∧ Inv R.E m len f lx' ∧ NextB R m len sep abort lx') ∨
      (∃ e, res = .err e)) →
    (res ≠ .fuel → specOf W id = some (patOf sep abort)) →
    (stabValue R n (listDv v) id (patOf sep abort) (listItem v a sep abort) lx ctx res W).1 = .fuel ∨
    (∃ x lx1 W1, stabValue R n (listDv v) id (patOf sep abort) (listItem v a sep abort) lx ctx res W =
        (.ok x lx1, W1) ∧ specOf W1 id = some (patOf sep abort) ∧ lx1.recover = none ∧
        Inv R.E m len f lx1 ∧ NextB R m len sep abort lx1) ∨
    (∃ e W1, stabValue R n (listDv v) id (patOf sep abort) (listItem v a sep abort) lx ctx res W = (.err e, W1)) := by
  intro n
  induction n with
  | zero => intro lx res W _ _ _; left; simp [stabValue]
  | succ n ih =>
    intro lx res W inv hres hw
    rcases hres with rfl | ⟨x, lx', rfl, h1, h2⟩ | ⟨e, rfl⟩
    · left; simp [stabValue]
    · right; left
      refine ⟨x, _, W, stabValue_ok _ _ _ _ _ _ _ _ _ _, hw (by simp), rfl,
        (setRecover_at none (atIdx_self h1)).inv, ?_⟩
      exact h2
    · have hspecW := hw (by simp)
      simp only [stabValue]
      rcases hadv : advanceToRecover R lx W with ⟨_ | lx1, W1⟩
      · exact Or.inr (Or.inr ⟨_, _, rfl⟩)
      · simp only
        split
        · exact Or.inr (Or.inr ⟨_, _, rfl⟩)
        · obtain ⟨j1, hat1⟩ := advance_at ok hp (atIdx_self inv) hadv
          have inv1 := hat1.inv
          have hspec1 : specOf W1 id = some (patOf sep abort) :=
            RecoverFrame.advanceToRecover_SR' hadv id _ hspecW
          have hft := firstTry_shape ok hp sep abort hfrag inv1 v n id ctx.withoutSink W1 (Or.inr hspec1)
          exact ih lx1 (firstTry R n v id a sep abort lx1 ctx.withoutSink W1).1
            (firstTry R n v id a sep abort lx1 ctx.withoutSink W1).2 inv1
            (by
              rcases hft with h | ⟨x, lx', W', h, _, hj⟩ | ⟨e', W', h, _⟩
              · exact Or.inl h
              · rw [h]; exact Or.inr (Or.inl ⟨x, lx', rfl, hj⟩)
              · rw [h]; exact Or.inr (Or.inr ⟨e', rfl⟩))
            (by
              intro hne
              rcases hft with h | ⟨x, lx', W', h, hs, _⟩ | ⟨e', W', h, hs⟩
              · exact absurd h hne
              · rw [h]; exact hs
              · rw [h]; exact hs)

/-- the attempt at a trailing value, shape only -/
theorem trailing_shape {lx : Lx} (inv : Inv R.E m len f lx) (v n : Nat) (ctx : Ctx) (W : World) :
    (run R n (.stabilize (.maybe (listItem v a sep abort))) lx ctx W).1 = .fuel ∨
    ∃ y lx' W', run R n (.stabilize (.maybe (listItem v a sep abort))) lx ctx W = (.ok y lx', W') := by
  match n with
  | 0 => left; simp [run]
  | 1 => left; simp [run, stabLoop]
  | n + 2 =>
    simp only [run]
    rcases upTo_shape ok hp sep abort hfrag inv v n ctx.withoutSink W with ⟨y, lx2, h1, _, _⟩ | ⟨e, h1⟩ | h1
    · right; rw [h1]; simp [stabLoop]
    · right; rw [h1]; simp [stabLoop]
    · left
      rcases hr : run R n (listItem v a sep abort) lx ctx.withoutSink W with ⟨x, W'⟩
      rw [hr] at h1
      simp only at h1
      subst h1
      simp [stabLoop]

/-- **The loop never panics**: entered with a well-formed lexer that is not recovering, or with
no value taken yet (then the lexer may still be recovering from an earlier error).  Only the
fragment hypothesis on the item is needed. -/
theorem loop_np (v id lo : Nat) (hi : Option Nat) (ctx : Ctx) : ∀ (n : Nat) (lexer : Lx) (vals : List Val) (W : World),
    Inv R.E m len f lexer → (vals = [] ∨ lexer.recover = none) →
    (specOf W id = none ∨ specOf W id = some (patOf sep abort)) →
    (listLoop R n v id lo hi a sep abort lexer ctx W vals).1 ≠ .panic := by
  intro n
  induction n with
  | zero => intro lexer vals W _ _ _; simp [listLoop]
  | succ n ih =>
    intro lexer vals W inv hvr hW
    rw [listLoop_succ']
    rcases peek_at ok hp (atIdx_self inv) with ⟨lxp, hpk, hatp, _, hrp⟩ | ⟨lxp, r, hpk, hatp, hdrop, hnx, hatn, hemp, hrp⟩
    · rw [hpk]
      exact listFinish_no_panic _ _ _ _ _ _ (hvr.imp (fun h => h) (fun h => hrp.trans h))
    · rw [hpk]
      simp only
      have hfin : ∀ W1, (listFinish ctx lo hi lxp vals W1).1 ≠ .panic :=
        fun W1 => listFinish_no_panic _ _ _ _ _ _ (hvr.imp (fun h => h) (fun h => hrp.trans h))
      by_cases hab : abort.contains r.tok.kind = true
      · rw [if_pos hab]
        split
        · exact hfin W
        · next hve =>
          have hrec : lxp.recover = none := by
            rcases hvr with h | h
            · subst h; simp at hve
            · exact hrp.trans h
          rcases trailing_shape ok hp sep abort hfrag hatp.inv v n ctx W with h1 | ⟨y, lx', W', h1⟩
          · rcases hr : run R n (.stabilize (.maybe (listItem v a sep abort))) lxp ctx W with ⟨x, W'⟩
            rw [hr] at h1
            simp only at h1
            subst h1
            simp
          · rw [h1]
            cases y <;> exact listFinish_no_panic _ _ _ _ _ _ (Or.inr hrec)
      · rw [if_neg hab]
        have hft := firstTry_shape ok hp sep abort hfrag hatp.inv v n id ctx W hW
        have hsv := stabValue_shape ok hp sep abort hfrag v id ctx n lxp (firstTry R n v id a sep abort lxp ctx W).1
          (firstTry R n v id a sep abort lxp ctx W).2 hatp.inv
          (by
            rcases hft with h | ⟨x, lx', W', h, _, hj⟩ | ⟨e', W', h, _⟩
            · exact Or.inl h
            · rw [h]; exact Or.inr (Or.inl ⟨x, lx', rfl, hj⟩)
            · rw [h]; exact Or.inr (Or.inr ⟨e', rfl⟩))
          (by
            intro hne
            rcases hft with h | ⟨x, lx', W', h, hs, _⟩ | ⟨e', W', h, hs⟩
            · exact absurd h hne
            · rw [h]; exact hs
            · rw [h]; exact hs)
        have hvr' : valueRound R n v id a sep abort lxp ctx W =
            stabValue R n (listDv v) id (patOf sep abort) (listItem v a sep abort) lxp ctx
              (firstTry R n v id a sep abort lxp ctx W).1 (firstTry R n v id a sep abort lxp ctx W).2 := rfl
        rw [← hvr'] at hsv
        rcases hsv with h | ⟨x, lx1, W1, h, hspec1, hrec1, inv1, hnb⟩ | ⟨e, W1, h⟩
        · rcases hr : valueRound R n v id a sep abort lxp ctx W with ⟨y, W'⟩
          rw [hr] at h
          simp only at h
          subst h
          simp
        · rw [h]
          simp only
          split
          · exact listFinish_no_panic _ _ _ _ _ _ (Or.inr hrec1)
          · rcases peek_at ok hp (atIdx_self inv1) with ⟨lxp2, hpk2, _, _, hrp2⟩ |
              ⟨lxp2, r2, hpk2, hatp2, hdrop2, hnx2, hatn2, hemp2, hrp2⟩
            · rw [hpk2]
              exact listFinish_no_panic _ _ _ _ _ _ (Or.inr (hrp2.trans hrec1))
            · rw [hpk2]
              simp only
              split
              · exact listFinish_no_panic _ _ _ _ _ _ (Or.inr (hrp2.trans hrec1))
              · next hab2 =>
                rw [hemp2]
                simp only [Bool.false_eq_true, if_false]
                have hk2 : r2.tok.kind = sep := by
                  simp only [List.drop_zero] at hdrop2
                  rcases hnb with h0 | ⟨b, rest, h0, hb⟩
                  · rw [h0] at hdrop2; cases hdrop2
                  · rw [h0] at hdrop2
                    injection hdrop2 with e1 _
                    subst e1
                    have hab2' : abort.contains b.tok.kind = false := by simpa using hab2
                    simp only [bnd, hab2', Bool.or_false] at hb
                    simpa using hb
                rcases sep_step hnx2 hk2 n id (patOf sep abort) ctx W1 with g | g
                · rcases hrd : recoverDefault R n .dflt id (patOf sep abort) (.discard (.one sep)) lxp2 ctx W1 with
                    ⟨y, W'⟩
                  rw [hrd] at g
                  simp only at g
                  subst g
                  simp
                · rw [g]
                  simp only
                  exact ih _ (x :: vals) _ (intoSublexer_at ok hatn2).inv
                    (Or.inr (by rw [intoSublexer_recover, next_recover, hrp2, hrec1]))
                    (Or.inr (specOf_register (Or.inr hspec1)))
        · rw [h]; simp

/-- **C11 / C01 for `list*`: the combinator never panics**, from any well-formed lexer
(recovering or not), with or without a sink, for every item of the fragment `pegWithRep`
and bounds `lo ≤ hi`. -/
theorem list_no_panic_frag (n v id lo : Nat) (hi : Option Nat) {lx : Lx} (ctx : Ctx) (W : World)
    (hlo : hiBelow (effHi v hi) (effLo v lo) = false) (inv : Inv R.E m len f lx)
    (hW : specOf W id = none ∨ specOf W id = some (patOf sep abort)) :
    (run R n (.list v id lo hi a sep abort) lx ctx W).1 ≠ .panic := by
  cases n with
  | zero => simp [run]
  | succ n =>
    by_cases hhi : effHi v hi = some 0
    · simp only [run]
      show (match effHi v hi with
        | some 0 => (RRes.ok (.list []) lx, W)
        | _ => if hiBelow (effHi v hi) (effLo v lo) then (RRes.panic, W) else
            listLoop R n v id (effLo v lo) (effHi v hi) a sep abort lx ctx W []).1 ≠ _
      rw [hhi]
      simp
    · rw [run_list_eq n v id lo hi a sep abort lx ctx W hhi hlo]
      exact loop_np ok hp sep abort hfrag v id _ _ ctx n lx [] W inv (Or.inl rfl) hW

end Shape

end Item

end Tephra.ListRefine
