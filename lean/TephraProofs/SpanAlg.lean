/-
  Lemmas for C17: under coherence, the derived `Ord` on positions is the order
  of byte offsets, and each `Span` operation satisfies its interval-algebra
  statement.
-/
import TephraModel.Fam.SpanOps

set_option linter.unusedSimpArgs false
set_option linter.unusedSectionVars false

namespace Tephra
open Tephra.Spec

/-- coherence of a pair -/
def CohP (a b : Pos) : Prop := a.byte = b.byte → a = b

theorem Pos.lt_iff_of_coh {a b : Pos} (h : CohP a b) : Pos.lt a b = decide (a.byte < b.byte) := by
  unfold Pos.lt
  by_cases h1 : a.byte < b.byte
  · simp [h1]
  · by_cases h2 : a.byte = b.byte
    · have := h h2; subst this; simp
    · have : ¬ (a.byte == b.byte) = true := by simpa using h2
      simp [h1, h2]

theorem Pos.le_iff_of_coh {a b : Pos} (h : CohP a b) : Pos.le a b = decide (a.byte ≤ b.byte) := by
  unfold Pos.le
  rw [Pos.lt_iff_of_coh h]
  by_cases h2 : a.byte = b.byte
  · have := h h2; subst this; simp
  · have hne : a ≠ b := fun e => h2 (by rw [e])
    have : (a == b) = false := by simpa using hne
    simp [this]; omega

/-- All pairwise coherence facts of the four operand endpoints. -/
structure Coh4 (a b c d : Pos) : Prop where
  ab : CohP a b
  ac : CohP a c
  ad : CohP a d
  ba : CohP b a
  bc : CohP b c
  bd : CohP b d
  ca : CohP c a
  cb : CohP c b
  cd : CohP c d
  da : CohP d a
  db : CohP d b
  dc : CohP d c

theorem coh_pair {ps : List Pos} (h : coh ps = true) {a b : Pos} (ha : a ∈ ps) (hb : b ∈ ps) :
    CohP a b := by
  unfold coh at h
  rw [List.all_eq_true] at h
  have h1 := h a ha
  rw [List.all_eq_true] at h1
  have h2 := h1 b hb
  intro hbyte
  simp [hbyte] at h2
  exact h2

theorem coh4_of_coh {a b c d : Pos} (h : coh [a, b, c, d] = true) : Coh4 a b c d := by
  constructor <;> apply coh_pair h <;> simp

end Tephra

namespace Tephra
open Tephra.Spec

section
variable {a b c d : Pos} (H : Coh4 a b c d) (hab : a.byte ≤ b.byte) (hcd : c.byte ≤ d.byte)
include H hab hcd

theorem enclose_ok : encloseOK ⟨a, b⟩ ⟨c, d⟩ (Span.enclose ⟨a, b⟩ ⟨c, d⟩) = true := by
  simp only [Span.enclose, Span.enclosing, encloseOK, resultWF, spanWF, fromOperands,
    Pos.lt_iff_of_coh H.ac, Pos.lt_iff_of_coh H.db]
  by_cases h1 : a.byte < c.byte <;> by_cases h2 : d.byte < b.byte <;>
    simp [h1, h2] <;> (split <;> simp <;> omega)

theorem contains_iff (p : Pos) (h1 : CohP a p) (h2 : CohP p b) :
    Span.contains ⟨a, b⟩ p = (decide (a.byte ≤ p.byte) && decide (p.byte ≤ b.byte)) := by
  simp only [Span.contains, Pos.le_iff_of_coh h1, Pos.le_iff_of_coh h2]

theorem intersects_iff : Span.intersects ⟨a, b⟩ ⟨c, d⟩ = touch ⟨a, b⟩ ⟨c, d⟩ := by
  simp only [Span.intersects, Span.contains, touch,
    Pos.le_iff_of_coh H.ac, Pos.le_iff_of_coh H.cb, Pos.le_iff_of_coh H.ad, Pos.le_iff_of_coh H.db,
    Pos.le_iff_of_coh H.ca, Pos.le_iff_of_coh H.cb, Pos.le_iff_of_coh H.da, Pos.le_iff_of_coh H.bd]
  by_cases h : max a.byte c.byte ≤ min b.byte d.byte
  · simp [h]; omega
  · simp [h]; omega

theorem intersect_ok : intersectOK ⟨a, b⟩ ⟨c, d⟩ (Span.intersect ⟨a, b⟩ ⟨c, d⟩) = true := by
  simp only [Span.intersect, Span.contains, Span.enclosing, intersectOK, resultWF, spanWF,
    fromOperands, touch,
    Pos.le_iff_of_coh H.ac, Pos.le_iff_of_coh H.cb, Pos.le_iff_of_coh H.ad, Pos.le_iff_of_coh H.db,
    Pos.le_iff_of_coh H.ca, Pos.le_iff_of_coh H.da, Pos.le_iff_of_coh H.bd]
  by_cases h1 : a.byte ≤ c.byte <;> by_cases h2 : c.byte ≤ b.byte <;>
  by_cases h3 : c.byte ≤ a.byte <;> by_cases h4 : a.byte ≤ d.byte <;>
  by_cases h5 : d.byte ≤ b.byte <;> by_cases h6 : b.byte ≤ d.byte <;>
    simp [h1, h2, h3, h4, h5, h6] <;> first | omega | (split <;> simp <;> omega)

theorem union_ok : unionOK ⟨a, b⟩ ⟨c, d⟩ (Span.union ⟨a, b⟩ ⟨c, d⟩) = true := by
  unfold Span.union unionOK
  rw [intersects_iff H hab hcd]
  by_cases h : touch ⟨a, b⟩ ⟨c, d⟩ = true
  · simp only [h, if_true]; exact enclose_ok H hab hcd
  · simp [h]

theorem adjacent_ok : adjacentOK ⟨a, b⟩ ⟨c, d⟩ (Span.adjacent ⟨a, b⟩ ⟨c, d⟩) = true := by
  simp only [adjacentOK, Span.adjacent]
  have e1 : (a == d) = (a.byte == d.byte) := by
    by_cases h : a.byte = d.byte
    · have := H.ad h; rw [this]; simp
    · have : a ≠ d := fun e => h (by rw [e])
      rw [beq_eq_false_iff_ne.mpr this, beq_eq_false_iff_ne.mpr h]
  have e2 : (b == c) = (b.byte == c.byte) := by
    by_cases h : b.byte = c.byte
    · have := H.bc h; rw [this]; simp
    · have : b ≠ c := fun e => h (by rw [e])
      rw [beq_eq_false_iff_ne.mpr this, beq_eq_false_iff_ne.mpr h]
  simp [e1, e2]

omit H hab hcd in
theorem enclosing_of_le {p q : Pos} (h : p.byte ≤ q.byte) : Span.enclosing p q = ⟨p, q⟩ := by
  unfold Span.enclosing
  have : ¬ p.byte > q.byte := by omega
  simp [this]

theorem minus_ok : minusOK ⟨a, b⟩ ⟨c, d⟩ (Span.minus ⟨a, b⟩ ⟨c, d⟩) = true := by
  simp only [Span.minus, Pos.min, Pos.max, minusOK, resultWF, spanWF, fromOperands,
    Pos.lt_iff_of_coh H.ac, Pos.lt_iff_of_coh H.db, Pos.le_iff_of_coh H.cb, Pos.le_iff_of_coh H.da]
  by_cases h1 : a.byte < c.byte <;> by_cases h2 : d.byte < b.byte <;>
  by_cases h3 : c.byte ≤ b.byte <;> by_cases h4 : d.byte ≤ a.byte <;>
    simp only [h1, h2, h3, h4, decide_true, decide_false, if_true, if_false, Bool.false_eq_true,
      List.nil_append, List.cons_append, List.append_nil] <;>
    (try rw [enclosing_of_le (p := a) (q := c) (by omega)]) <;>
    (try rw [enclosing_of_le (p := a) (q := b) (by omega)]) <;>
    (try rw [enclosing_of_le (p := d) (q := b) (by omega)]) <;>
    simp (config := {decide := true}) [List.all_eq_true, covers, inSpan, inInterior] <;>
    (try omega) <;>
    (try (refine ⟨?_, ?_⟩ <;> (try omega) <;> (try (intro q _; omega))))

end
end Tephra
