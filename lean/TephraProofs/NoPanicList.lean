/-
  TephraProofs.NoPanicList — C01, interpreter part: the facts behind the
  `debug_assert!` of `list_bounded_default` (the `finish` step of `listLoop`
  panics exactly when some value has been collected and the lexer still carries
  a recover state).

  * `Sett ks lx`: the lexer is *settled*: its lookahead holds a token whose kind
    is in `ks`, or there is no lookahead and no kept token remains.  This is what
    the value step of the list establishes with `ks = sep :: abort`
    (`recoverDefault_sett`: by `up_to` when the item parser succeeds, by
    `advance_to_recover` with the list's own closure otherwise), and
    `stabilize` keeps it while clearing the recover state (`stabValue_sett`).
  * From a settled lexer whose next token is not an abort token, the separator
    step `recover_default(discard(one(sep)))` succeeds without recovering, hence
    hands back a lexer without recover state (`sepStep_recover`).
-/
import TephraProofs.RunMatchers
import TephraProofs.TermWorld
import TephraProofs.RecoverFrame
import TephraProofs.PegAbs

set_option linter.unusedVariables false

namespace Tephra.NoPanic
open Tephra Tephra.Term Tephra.LexIter Tephra.RecoverFrame

variable {R : RunEnv} {m : Metrics} {len : Nat}

/-! ### the lookahead loop, once more -/

/-- a lookahead found by `buffer_next` is a kept token of the raw stream -/
theorem bufferLoop_sound (ok : ScanOK R.E m len) (behind : Bool) (lx : Lx) (ps : Nat) (pc : Pos)
    (hm : lx.metrics = m) (hl : lx.len = len) (hb : lx.buffer = none)
    (h : (Lexer.bufferLoop R.E behind lx ps pc).buffer.isSome = true) :
    (rawAt R.E m len ps pc).dropWhile (fun r => !keepOf R.E lx.filter r.tok) ≠ [] := by
  fun_induction Lexer.bufferLoop R.E behind lx ps pc with
  | case1 lx ps pc s' heq => rw [hb] at h; cases h
  | case2 lx ps pc tok adv ps' heq hf lx' hg ih =>
    subst hm
    have hk : keepOf R.E lx.filter tok = false := by
      rw [filtered_eq] at hf; simpa using hf
    have hfil : lx'.filter = lx.filter := by cases behind <;> simp [lx']
    have := ih (by cases behind <;> simp [lx']) (by cases behind <;> simp [lx', hl])
      (by cases behind <;> simp [lx', hb]) h
    rw [hfil] at this
    rw [rawAt_some ok heq]
    simpa [hk] using this
  | case3 lx ps pc tok adv ps' heq hf lx' hg =>
    subst hm
    have := ok.progress _ _ _ _ _ heq
    omega
  | case4 lx ps pc tok adv ps' heq hf =>
    subst hm
    have hk : keepOf R.E lx.filter tok = true := by
      rw [filtered_eq] at hf; simpa using hf
    rw [rawAt_some ok heq]
    simp [hk]

/-- `buffer_next` in "behind" mode that finds nothing leaves the lexer where no kept token remains -/
theorem bufferLoop_true_quiet (ok : ScanOK R.E m len) (lx : Lx) (ps : Nat) (pc : Pos)
    (hm : lx.metrics = m) (hl : lx.len = len) (hps : ps = lx.scanner) (hpc : pc = lx.cursor)
    (h : (Lexer.bufferLoop R.E true lx ps pc).buffer = none) :
    D R.E m len (Lexer.bufferLoop R.E true lx ps pc) = [] := by
  fun_induction Lexer.bufferLoop R.E true lx ps pc with
  | case1 lx ps pc s' heq =>
    subst hm hps hpc
    simp [D, rawAt_none heq]
  | case2 lx ps pc tok adv ps' heq hf lx' hg ih =>
    exact ih (by simp [lx', hm]) (by simp [lx', hl]) (by simp [lx']) (by simp [lx']) h
  | case3 lx ps pc tok adv ps' heq hf lx' hg =>
    subst hm
    have := ok.progress _ _ _ _ _ heq
    omega
  | case4 lx ps pc tok adv ps' heq hf => simp at h

/-! ### settled lexers -/

/-- the lookahead holds a token of `ks`, or no kept token remains -/
def Sett (R : RunEnv) (m : Metrics) (len : Nat) (ks : List Nat) (lx : Lx) : Prop :=
  (∃ b, lx.buffer = some b ∧ ks.contains b.token.kind = true) ∨ (lx.buffer = none ∧ D R.E m len lx = [])

theorem Sett.setRecoverState {ks : List Nat} {lx : Lx} (s : Sett R m len ks lx) (r : Option Nat) :
    Sett R m len ks (lx.setRecoverState r) := s

theorem peek_buffer {lx lx' : Lx} {t : Tok} (e : lx.peek R.E = (some t, lx')) :
    ∃ b, lx'.buffer = some b ∧ b.token = t := by
  unfold Lexer.peek at e
  split at e
  · cases e
  · simp only [Prod.mk.injEq] at e
    obtain ⟨e1, e2⟩ := e
    subst e2
    cases hb : (lx.bufferNext R.E).buffer with
    | none => rw [hb] at e1; simp at e1
    | some b => rw [hb] at e1; exact ⟨b, rfl, by simpa using e1⟩

theorem sett_of_peek_some {ks : List Nat} {lx lx' : Lx} {t : Tok} (e : lx.peek R.E = (some t, lx'))
    (hk : ks.contains t.kind = true) : Sett R m len ks lx' := by
  obtain ⟨b, hb, ht⟩ := peek_buffer e
  exact Or.inl ⟨b, hb, by rw [ht]; exact hk⟩

theorem sett_of_peek_none (ok : ScanOK R.E m len) {lx lx' : Lx} (wf : WF m len lx)
    (e : lx.peek R.E = (none, lx')) (ks : List Nat) : Sett R m len ks lx' := by
  right
  unfold Lexer.peek at e
  split at e
  · next hend =>
    cases e
    rw [wf.hlen] at hend
    refine ⟨?_, PegRefine.D_atEnd ok hend⟩
    cases hb : lx.buffer with
    | none => rfl
    | some b => have := wf.lt_of_buf hb; omega
  · simp only [Prod.mk.injEq] at e
    obtain ⟨e1, e2⟩ := e
    subst e2
    have hnone : (lx.bufferNext R.E).buffer = none := by
      cases hb : (lx.bufferNext R.E).buffer with
      | none => rfl
      | some b => rw [hb] at e1; simp at e1
    refine ⟨hnone, ?_⟩
    unfold Lexer.bufferNext at hnone ⊢
    split
    · next hs => rw [if_pos hs] at hnone; rw [hnone] at hs; cases hs
    · next hs =>
      rw [if_neg hs] at hnone
      have hbuf : lx.buffer = none := by simpa using hs
      cases hbeh : (lx.parseStart == lx.cursor)
      · rw [hbeh] at hnone
        rcases bufferLoop_ahead ok lx lx.scanner lx.cursor wf.hmet wf.hlen with h | ⟨b, h1, _⟩
        · rw [h]
          apply Classical.byContradiction
          intro hD
          have := PegRefine.bufferLoop_complete ok false lx lx.scanner lx.cursor wf.hmet wf.hlen hD
          rw [hnone] at this; cases this
        · rw [h1] at hnone; cases hnone
      · rw [hbeh] at hnone
        exact bufferLoop_true_quiet ok lx lx.scanner lx.cursor wf.hmet wf.hlen rfl rfl hnone

/-- the token a settled lexer shows next is in `ks` -/
theorem sett_peek (ok : ScanOK R.E m len) {ks : List Nat} {lx lx' : Lx} {t : Tok} (hm : lx.metrics = m)
    (hl : lx.len = len) (s : Sett R m len ks lx) (h : lx.peek R.E = (some t, lx')) :
    ks.contains t.kind = true := by
  unfold Lexer.peek at h
  split at h
  · cases h
  · simp only [Prod.mk.injEq] at h
    obtain ⟨h1, h2⟩ := h
    rcases s with ⟨b, hb, hk⟩ | ⟨hb, hD⟩
    · have : lx.bufferNext R.E = lx := by unfold Lexer.bufferNext; simp [hb]
      rw [this, hb] at h1
      simp only [Option.map_some, Option.some.injEq] at h1
      rw [← h1]; exact hk
    · exfalso
      have hs : (lx.bufferNext R.E).buffer.isSome = true := by
        cases hx : (lx.bufferNext R.E).buffer with
        | none => rw [hx] at h1; simp at h1
        | some b => rfl
      unfold Lexer.bufferNext at hs
      rw [if_neg (by simp [hb])] at hs
      exact bufferLoop_sound ok _ lx _ _ hm hl hb hs hD

/-! ### `advance_to_recover` stops in front of a token its closure accepts -/

theorem recoverLoop_hit (id : Nat) : ∀ n (lx : Lx) (W : World) (lx' : Lx) (W' : World),
    recoverLoop R id n lx W = (some lx', W') →
    ∃ (lxp : Lx) (t : Tok) (Wp : World), lxp.peek R.E = (some t, lx') ∧ (askRecover Wp id t).1 = true ∧
      Wp.specs = W.specs := by
  intro n
  induction n with
  | zero => intro lx W lx' W' h; simp [recoverLoop] at h
  | succ n ih =>
    intro lx W lx' W' h
    simp only [recoverLoop] at h
    split at h
    · cases h
    · next t lx1 hp =>
      split at h
      · next hb =>
        cases h
        exact ⟨lx, t, W, hp, hb, rfl⟩
      · obtain ⟨lxp, t', Wp, h1, h2, h3⟩ := ih _ _ _ _ h
        exact ⟨lxp, t', Wp, h1, h2, by rw [h3]; simp⟩

theorem askRecover_sepOrAbort {W : World} {id sep : Nat} {abort : List Nat}
    (hs : specOf W id = some (.sepOrAbort sep abort)) (t : Tok) :
    (askRecover W id t).1 = (t.kind == sep || abort.contains t.kind) := by
  unfold RecoverFrame.specOf at hs
  unfold askRecover
  rw [hs]

theorem specOf_of_specs_eq {W W' : World} (h : W'.specs = W.specs) (id : Nat) : specOf W' id = specOf W id := by
  unfold RecoverFrame.specOf; rw [h]

/-- a registered closure of a consistent world is the table's -/
theorem specOf_register_wok {T : Nat → Rec} {W : World} {id : Nat} {r : Rec} (hw : WOK T W) (hT : T id = r) :
    specOf (W.register id r) id = some r := by
  cases hs : specOf W id with
  | none => exact specOf_register_self hs
  | some r' =>
    have : r' = r := by
      unfold RecoverFrame.specOf at hs
      cases hf : W.specs.find? (·.1 == id) with
      | none => rw [hf] at hs; cases hs
      | some p =>
        rw [hf] at hs
        simp only [Option.map_some, Option.some.injEq] at hs
        have hmem := List.mem_of_find?_eq_some hf
        have hid : p.1 = id := by simpa using List.find?_some hf
        rw [← hs, hw p hmem, hid, hT]
    subst this
    exact register_SR W id r' id r' hs

/-! ### the value step of `list` -/

/-- `up_to(item, ks)` hands back a settled lexer -/
theorem upTo_sett (ok : ScanOK R.E m len) {n : Nat} {item : G} {ks : List Nat} {lx : Lx} {ctx : Ctx} {W : World}
    {v : Val} {lx' : Lx} {W' : World} (wf : WF m len lx)
    (h : run R n (.upTo item ks) lx ctx W = (.ok v lx', W')) : Sett R m len ks lx' := by
  cases n with
  | zero => simp [run] at h
  | succ n =>
    simp only [run] at h
    split at h
    · next v1 lx1 W1 heq =>
      have hwf1 : WF m len lx1 := ((cur_all ok n).run item lx ctx W wf v1 lx1 (by rw [heq])).1
      split at h
      · next lx2 hp =>
        cases h
        exact sett_of_peek_none ok hwf1 hp ks
      · next t lx2 hp =>
        split at h
        · next hk =>
          cases h
          exact sett_of_peek_some hp hk
        · cases h
    · next hn => exact (hn _ _ _ h).elim

/-- `recover_default(up_to(item, sep :: abort), sep_or_abort)` hands back a settled lexer -/
theorem recoverDefault_sett (ok : ScanOK R.E m len) {T : Nat → Rec} {n : Nat} {dv : Val} {id sep : Nat}
    {abort : List Nat} {item : G} {lx : Lx} {ctx : Ctx} {W : World} {v : Val} {lx' : Lx} {W' : World}
    (wf : WF m len lx) (hw : WOK T W) (hT : T id = .sepOrAbort sep abort)
    (h : recoverDefault R n dv id (.sepOrAbort sep abort) (.upTo item (sep :: abort)) lx ctx W = (.ok v lx', W')) :
    Sett R m len (sep :: abort) lx' := by
  cases n with
  | zero => simp [recoverDefault] at h
  | succ n =>
    simp only [recoverDefault] at h
    split at h
    · next e W1 hrun =>
      split at h
      · cases h
      · next W2 hsend =>
        split at h
        · next lx'' W3 hadv =>
          cases h
          have hspec : specOf W2 id = some (.sepOrAbort sep abort) := by
            have h0 := specOf_register_wok hw hT
            have h1 := run_specs_stable R n (.upTo item (sep :: abort)) lx ctx _ id _ h0
            rw [hrun] at h1
            exact sendError_SR hsend id _ h1
          unfold advanceToRecover at hadv
          simp only [Lexer.setRecoverState] at hadv
          obtain ⟨lxp, t, Wp, hp, hask, hsp⟩ := recoverLoop_hit id _ _ _ _ _ hadv
          rw [askRecover_sepOrAbort (by rw [specOf_of_specs_eq hsp]; exact hspec)] at hask
          exact sett_of_peek_some hp (by simpa [List.contains_cons] using hask)
        · cases h
    · next hn => exact upTo_sett ok wf h

/-- `stabilize` around the value step clears the recover state and keeps the lexer settled -/
theorem stabValue_sett (ok : ScanOK R.E m len) {T : Nat → Rec} {dv : Val} {id sep : Nat} {abort : List Nat}
    {item : G} {ctx : Ctx} (hT : T id = .sepOrAbort sep abort) (hc : Consistent T item) :
    ∀ n (lx : Lx) (res : RRes) (W : World) (x : Val) (lexer1 : Lx) (W1 : World), WF m len lx → WOK T W →
      (∀ v l, res = .ok v l → Sett R m len (sep :: abort) l) →
      stabValue R n dv id (.sepOrAbort sep abort) (.upTo item (sep :: abort)) lx ctx res W = (.ok x lexer1, W1) →
      lexer1.recover = none ∧ Sett R m len (sep :: abort) lexer1 := by
  intro n
  induction n with
  | zero => intro lx res W x lexer1 W1 _ _ _ h; simp [stabValue] at h
  | succ n ih =>
    intro lx res W x lexer1 W1 wf hw hres h
    cases res with
    | ok v0 l0 =>
      simp only [stabValue, Prod.mk.injEq, RRes.ok.injEq] at h
      obtain ⟨⟨_, h2⟩, _⟩ := h
      subst h2
      exact ⟨rfl, (hres v0 l0 rfl).setRecoverState none⟩
    | panic => simp [stabValue] at h
    | fuel => simp [stabValue] at h
    | err e =>
      simp only [stabValue] at h
      split at h
      · next lx1 W2 hadv =>
        have ha := advanceToRecover_wf ok wf hadv
        have hw2 : WOK T W2 := by
          have := WOK_advance (R := R) (lx := lx) hw
          rw [hadv] at this; exact this
        split at h
        · cases h
        · have hcb : Consistent T (.upTo item (sep :: abort)) := by simpa [Consistent] using hc
          refine ih lx1 _ _ x lexer1 W1 ha.1
            ((wok_all n).recoverDefault dv id _ _ lx1 ctx.withoutSink W2 hT hcb hw2) ?_ h
          intro v l hv
          exact recoverDefault_sett ok ha.1 hw2 hT (Prod.ext hv rfl)
      · cases h

/-! ### the separator step of `list` -/

theorem next_of_buffer {lx : Lx} {b : Buf Nat Tok} (hb : lx.buffer = some b) (hne : lx.isEmpty = false) :
    (lx.next R.E).1 = some b.token ∧ (lx.next R.E).2.recover = lx.recover := by
  have : ¬ lx.len ≤ lx.cursor.byte := by simpa [Lexer.isEmpty] using hne
  unfold Lexer.next
  rw [if_neg this, hb]
  exact ⟨rfl, rfl⟩

theorem run_discard_one (sep : Nat) {lx lx' : Lx} {t : Tok} (ctx : Ctx) (W : World)
    (hn : lx.next R.E = (some t, lx')) (hk : t.kind = sep) : ∀ n,
    run R n (.discard (.one sep)) lx ctx W = (.fuel, W) ∨ run R n (.discard (.one sep)) lx ctx W = (.ok .unit lx', W) := by
  intro n
  cases n with
  | zero => left; simp [run]
  | succ n =>
    cases n with
    | zero => left; simp [run]
    | succ n => right; simp [run, hn, hk]

/-- after a value, when the next token is not an abort token, the separator step does not recover -/
theorem sepStep_recover (ok : ScanOK R.E m len) {n id sep : Nat} {pat : Rec} {abort : List Nat} {ctx : Ctx}
    {W1 W2 : World} {lexer1 lexer2 lexer3 : Lx} {t2 : Tok} {v : Val} (wf : WF m len lexer1)
    (s : Sett R m len (sep :: abort) lexer1) (hp : lexer1.peek R.E = (some t2, lexer2))
    (hab : abort.contains t2.kind = false) (hne : lexer2.isEmpty = false) (hr : lexer1.recover = none)
    (h : recoverDefault R n .dflt id pat (.discard (.one sep)) lexer2 ctx W1 = (.ok v lexer3, W2)) :
    lexer3.recover = none := by
  have hk : t2.kind = sep := by
    have := sett_peek ok wf.hmet wf.hlen s hp
    simp only [List.contains_cons, Bool.or_eq_true, hab, Bool.false_eq_true, or_false, beq_iff_eq] at this
    exact this
  obtain ⟨b, hb, hbt⟩ := peek_buffer hp
  have hr2 : lexer2.recover = none := by
    have := (peek_wf ok wf).2.2.2
    rw [hp] at this
    rw [this, hr]
  have hnx := next_of_buffer (R := R) hb hne
  have hn : lexer2.next R.E = (some t2, (lexer2.next R.E).2) := by
    rw [← hbt]; exact Prod.ext hnx.1 rfl
  cases n with
  | zero => simp [recoverDefault] at h
  | succ n =>
    simp only [recoverDefault] at h
    rcases run_discard_one sep ctx (W1.register id pat) hn hk n with hrun | hrun
    · rw [hrun] at h; cases h
    · rw [hrun] at h
      simp only [Prod.mk.injEq, RRes.ok.injEq] at h
      rw [← h.1.2, hnx.2, hr2]

/-! ### `finish` -/

theorem listFinish_np {ctx : Ctx} {lo : Nat} {hi : Option Nat} {lexer : Lx} {vals : List Val} {W : World}
    (h : vals ≠ [] → lexer.recover = none) : (listFinish ctx lo hi lexer vals W).1 ≠ .panic := by
  unfold listFinish
  have hcond : (!(vals.isEmpty || lexer.recover.isNone)) = false := by
    cases vals with
    | nil => simp
    | cons a l => simp [h (by simp)]
  rw [hcond]
  simp only [Bool.false_eq_true, if_false]
  repeat' split
  all_goals simp

end Tephra.NoPanic
