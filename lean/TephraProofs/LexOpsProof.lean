/-
  TephraProofs.LexOpsProof — C05: lookahead and cloning are unobservable in the
  delivered token stream of a sub-lex-free operation history.

  Route.  `nb lx` is `lx` without its lookahead buffer.  `Good raw lx` says that
  `lx` sits on a suffix of the raw stream `raw`, that its buffer (if any) is
  exactly what `bufferNext` computes from `nb lx`, and — the key clause — that
  while the parse span has not begun (`parseStart = cursor`) the next raw token
  is not rejected by the current filter.  Under `Good` every operation gives the
  same output and the same `nb`-state on `lx` and on `nb lx` (`op_nb`), a
  lookahead only fills the buffer (`peek_good`), and `Good` is preserved
  (`op_good`).  Hence the full history and its projection stay in lock step
  (`main`), fork bodies acting on clones only.

  `ScanFinal` (a refusal of the scanner is final) is needed for the key clause to
  survive a failed advance; without it the statement is false
  (`TephraProps/C05.lean`, `C05_needs_final_refusal`).
-/
import TephraModel.LexOps
import TephraProofs.LexIter

namespace Tephra
open Tephra.Spec

/-- Refusal is final: once the scanner declines at a position, it declines there
in the state it was left in. -/
structure ScanFinal {σ τ} (E : LexEnv σ τ) (m : Metrics) : Prop where
  final : ∀ s p s', E.scan s m p = (none, s') → (E.scan s' m p).1 = none

namespace LexOpsProof
open LexIter
variable {σ τ : Type} {E : LexEnv σ τ} {m : Metrics} {len : Nat}

/-! ### buffers -/

/-- the lexer without its lookahead. -/
def nb (lx : Lexer σ τ) : Lexer σ τ := { lx with buffer := none }

@[simp] theorem nb_metrics (lx : Lexer σ τ) : (nb lx).metrics = lx.metrics := rfl
@[simp] theorem nb_len (lx : Lexer σ τ) : (nb lx).len = lx.len := rfl
@[simp] theorem nb_scanner (lx : Lexer σ τ) : (nb lx).scanner = lx.scanner := rfl
@[simp] theorem nb_filter (lx : Lexer σ τ) : (nb lx).filter = lx.filter := rfl
@[simp] theorem nb_parseStart (lx : Lexer σ τ) : (nb lx).parseStart = lx.parseStart := rfl
@[simp] theorem nb_tokenStart (lx : Lexer σ τ) : (nb lx).tokenStart = lx.tokenStart := rfl
@[simp] theorem nb_cursor (lx : Lexer σ τ) : (nb lx).cursor = lx.cursor := rfl
@[simp] theorem nb_buffer (lx : Lexer σ τ) : (nb lx).buffer = none := rfl
@[simp] theorem nb_nb (lx : Lexer σ τ) : nb (nb lx) = nb lx := rfl

theorem nb_of_none {lx : Lexer σ τ} (h : lx.buffer = none) : nb lx = lx := by
  cases lx; simp_all [nb]

theorem nb_withBuf (lx : Lexer σ τ) (ob : Option (Buf σ τ)) : nb { lx with buffer := ob } = nb lx := rfl

theorem eq_withBuf {lx : Lexer σ τ} {b} (h : lx.buffer = some b) :
    lx = { nb lx with buffer := some b } := by
  cases lx; simp_all [nb]

theorem tokenSpan_nb {a b : Lexer σ τ} (h : nb a = nb b) : a.tokenSpan = b.tokenSpan := by
  have h1 : (nb a).tokenStart = (nb b).tokenStart := by rw [h]
  have h2 : (nb a).cursor = (nb b).cursor := by rw [h]
  simp only [nb_tokenStart, nb_cursor] at h1 h2
  unfold Lexer.tokenSpan
  rw [h1, h2]

theorem filtered_false_of_keep {lx : Lexer σ τ} {tok : τ} (h : keepOf E lx.filter tok = true) :
    lx.filtered E tok = false := by
  rw [filtered_eq, h]; rfl

theorem keep_of_filtered_false {lx : Lexer σ τ} {tok : τ} (h : ¬ lx.filtered E tok = true) :
    keepOf E lx.filter tok = true := by
  rw [filtered_eq] at h; simpa using h

theorem keep_false_of_filtered {lx : Lexer σ τ} {tok : τ} (h : lx.filtered E tok = true) :
    keepOf E lx.filter tok = false := by
  rw [filtered_eq] at h; simpa using h

/-! ### one step of the two loops -/

theorem bufferLoop_miss {behind : Bool} {lx : Lexer σ τ} {ps : σ} {pc : Pos} {s'}
    (h : E.scan ps lx.metrics pc = (none, s')) : Lexer.bufferLoop E behind lx ps pc = lx := by
  rw [Lexer.bufferLoop]; simp [h]

theorem bufferLoop_hit {behind : Bool} {lx : Lexer σ τ} {ps : σ} {pc : Pos} {tok adv s'}
    (h : E.scan ps lx.metrics pc = (some (tok, adv), s')) (hf : lx.filtered E tok = false) :
    Lexer.bufferLoop E behind lx ps pc = { lx with buffer := some ⟨s', pc, adv, tok⟩ } := by
  rw [Lexer.bufferLoop]; simp [h, hf]

theorem nextLoop_miss {behind : Bool} {lx : Lexer σ τ} {s'}
    (h : E.scan lx.scanner lx.metrics lx.cursor = (none, s')) :
    Lexer.nextLoop E behind lx = (none, { lx with scanner := s' }) := by
  rw [Lexer.nextLoop]; simp [h]

theorem nextLoop_hit {behind : Bool} {lx : Lexer σ τ} {tok adv s'}
    (h : E.scan lx.scanner lx.metrics lx.cursor = (some (tok, adv), s')) (hf : lx.filtered E tok = false) :
    Lexer.nextLoop E behind lx =
      (some tok, { lx with scanner := s', parseStart := if behind then lx.tokenStart else lx.parseStart,
                           tokenStart := lx.cursor, cursor := adv }) := by
  rw [Lexer.nextLoop]; simp [h, hf]

/-! ### the invariant -/

/-- `lx` sits on a suffix of `raw`; its buffer is what `bufferNext` computes; while
the parse span has not begun, the next raw token is not rejected. -/
structure Good (E : LexEnv σ τ) (m : Metrics) (len : Nat) (raw : List (RawTok τ)) (lx : Lexer σ τ) : Prop where
  hmet : lx.metrics = m
  hlen : lx.len = len
  hps : lx.parseStart = lx.cursor ∨ lx.parseStart.byte < lx.cursor.byte
  ts : lx.parseStart = lx.cursor → lx.tokenStart = lx.cursor
  key : lx.parseStart = lx.cursor → ∀ tok adv s',
    E.scan lx.scanner m lx.cursor = (some (tok, adv), s') → keepOf E lx.filter tok = true
  suf : rawAt E m len lx.scanner lx.cursor <:+ raw
  buf : lx.buffer = none ∨ Lexer.bufferNext E (nb lx) = lx

/-- `Good` without the key clause, for a lexer without lookahead. -/
structure Pre (E : LexEnv σ τ) (m : Metrics) (len : Nat) (raw : List (RawTok τ)) (lx : Lexer σ τ) : Prop where
  hmet : lx.metrics = m
  hlen : lx.len = len
  hps : lx.parseStart = lx.cursor ∨ lx.parseStart.byte < lx.cursor.byte
  ts : lx.parseStart = lx.cursor → lx.tokenStart = lx.cursor
  suf : rawAt E m len lx.scanner lx.cursor <:+ raw
  nobuf : lx.buffer = none

variable {raw : List (RawTok τ)}

theorem Good.toNb {lx : Lexer σ τ} (g : Good E m len raw lx) : Good E m len raw (nb lx) :=
  ⟨g.hmet, g.hlen, g.hps, g.ts, g.key, g.suf, Or.inl rfl⟩

theorem Good.toPre {lx : Lexer σ τ} (g : Good E m len raw lx) : Pre E m len raw (nb lx) :=
  ⟨g.hmet, g.hlen, g.hps, g.ts, g.suf, rfl⟩

theorem good_new (s0 : σ) : Good E m len (rawAt E m len s0 Pos.zero) (Lexer.new s0 m len) :=
  ⟨rfl, rfl, Or.inl rfl, fun _ => rfl, fun _ _ _ _ _ => rfl, List.suffix_refl _, Or.inl rfl⟩

/-- What an advance reports: a delivered token is a raw token, with its span. -/
def TokOK (raw : List (RawTok τ)) (r : Option τ × Lexer σ τ) : Prop :=
  ∀ t, r.1 = some t → ∃ x ∈ raw, x.tok = t ∧ r.2.tokenSpan = ⟨x.start, x.stop⟩

/-! ### `next_nonfiltered`, unbuffered loop -/

theorem pos_ne_of_byte_lt {a b : Pos} (h : a.byte < b.byte) : a ≠ b := by
  intro e; rw [e] at h; omega

theorem nextLoop_good (ok : ScanOK E m len) (fin : ScanFinal E m) (behind : Bool) (lx : Lexer σ τ)
    (hm : lx.metrics = m) (hl : lx.len = len) (hbuf : lx.buffer = none)
    (hb : behind = true → lx.parseStart = lx.cursor ∧ lx.tokenStart = lx.cursor)
    (hnb : behind = false → lx.parseStart.byte < lx.cursor.byte)
    (hsuf : rawAt E m len lx.scanner lx.cursor <:+ raw) :
    Good E m len raw (Lexer.nextLoop E behind lx).2 ∧ TokOK raw (Lexer.nextLoop E behind lx) ∧
    (Lexer.nextLoop E behind lx).2.filter = lx.filter := by
  fun_induction Lexer.nextLoop E behind lx with
  | case1 lx s' heq =>
    subst hm
    refine ⟨⟨rfl, hl, ?_, ?_, ?_, ?_, Or.inl hbuf⟩, (fun t h => by simp at h), rfl⟩
    · cases behind
      · exact Or.inr (hnb rfl)
      · exact Or.inl (hb rfl).1
    · intro h
      cases behind
      · have := hnb rfl; have h' : lx.parseStart = lx.cursor := h; rw [h'] at this; omega
      · exact (hb rfl).2
    · intro _ tok adv s'' hs
      have := fin.final _ _ _ heq
      have hs' : E.scan s' lx.metrics lx.cursor = (some (tok, adv), s'') := hs
      rw [hs'] at this; cases this
    · have := fin.final _ _ _ heq
      generalize hx : E.scan s' lx.metrics lx.cursor = x at this
      obtain ⟨a, s''⟩ := x
      simp only at this
      subst this
      show rawAt E lx.metrics len s' lx.cursor <:+ raw
      rw [rawAt_none hx]
      exact List.nil_suffix
  | case2 lx tok adv s' heq hf lx' hg ih =>
    subst hm
    have hr := rawAt_some ok heq
    have hsuf' : rawAt E lx.metrics len s' adv <:+ raw :=
      List.IsSuffix.trans (by rw [hr]; exact List.suffix_cons _ _) hsuf
    have := ih (by cases behind <;> simp [lx']) (by cases behind <;> simp [lx', hl])
      (by cases behind <;> simp [lx', hbuf])
      (by cases behind <;> simp [lx'])
      (by
        cases behind
        · intro _; have := hnb rfl; simp [lx']; omega
        · intro h; cases h)
      (by cases behind <;> simpa [lx'] using hsuf')
    refine ⟨this.1, this.2.1, ?_⟩
    rw [this.2.2]; cases behind <;> simp [lx']
  | case3 lx tok adv s' heq hf lx' hg =>
    subst hm
    have := ok.progress _ _ _ _ _ heq
    omega
  | case4 lx tok adv s' heq hf ps =>
    subst hm
    have hp := ok.progress _ _ _ _ _ heq
    have hr := rawAt_some ok heq
    have hlt : ps.byte < adv.byte := by
      cases behind
      · have := hnb rfl; simp [ps]; omega
      · have := (hb rfl).2; simp [ps, this]; omega
    refine ⟨⟨rfl, hl, Or.inr hlt, ?_, ?_, ?_, Or.inl hbuf⟩, ?_, rfl⟩
    · intro h; exact absurd h (pos_ne_of_byte_lt hlt)
    · intro h; exact absurd h (pos_ne_of_byte_lt hlt)
    · exact List.IsSuffix.trans (by rw [hr]; exact List.suffix_cons _ _) hsuf
    · intro t ht
      cases ht
      refine ⟨⟨tok, lx.cursor, adv⟩, ?_, rfl, ?_⟩
      · exact hsuf.subset (by rw [hr]; simp)
      · exact enclosing_le (by show lx.cursor.byte ≤ adv.byte; omega)

/-! ### `buffer_next` -/

/-- The eager loop (`behind`): the lexer is moved over the rejected tokens to a
point `(s, c)` where the scanner declines or produces a kept token (buffered). -/
theorem bufferLoop_true_spec (ok : ScanOK E m len) (lx : Lexer σ τ) (ps : σ) (pc : Pos)
    (hm : lx.metrics = m) (hl : lx.len = len) (hps : ps = lx.scanner) (hpc : pc = lx.cursor)
    (hP : lx.parseStart = lx.cursor) (hT : lx.tokenStart = lx.cursor) (hbuf : lx.buffer = none)
    (hsuf : rawAt E m len lx.scanner lx.cursor <:+ raw) :
    ∃ s c, rawAt E m len s c <:+ raw ∧
      ((Lexer.bufferLoop E true lx ps pc =
          { lx with scanner := s, cursor := c, parseStart := c, tokenStart := c } ∧
        (E.scan s m c).1 = none) ∨
       (∃ tok adv s', E.scan s m c = (some (tok, adv), s') ∧ keepOf E lx.filter tok = true ∧
          Lexer.bufferLoop E true lx ps pc =
            { lx with scanner := s, cursor := c, parseStart := c, tokenStart := c,
                      buffer := some ⟨s', c, adv, tok⟩ })) := by
  fun_induction Lexer.bufferLoop E true lx ps pc with
  | case1 lx ps pc s' heq =>
    subst hm hps hpc
    refine ⟨lx.scanner, lx.cursor, hsuf, Or.inl ⟨?_, by rw [heq]⟩⟩
    cases lx; simp_all
  | case2 lx ps pc tok adv ps' heq hf lx' hg ih =>
    subst hm hps hpc
    have hr := rawAt_some ok heq
    have hsuf' : rawAt E lx.metrics len ps' adv <:+ raw :=
      List.IsSuffix.trans (by rw [hr]; exact List.suffix_cons _ _) hsuf
    obtain ⟨s, c, h1, h2⟩ := ih (by simp [lx']) (by simp [lx', hl]) (by simp [lx'])
      (by simp [lx']) (by simp [lx']) (by simp [lx']) (by simp [lx', hbuf]) (by simpa [lx'] using hsuf')
    refine ⟨s, c, h1, ?_⟩
    rcases h2 with ⟨e, hn⟩ | ⟨tok', adv', s'', hs, hk, e⟩
    · exact Or.inl ⟨by rw [e]; simp [lx'], hn⟩
    · exact Or.inr ⟨tok', adv', s'', hs, by simpa [lx'] using hk, by rw [e]; simp [lx']⟩
  | case3 lx ps pc tok adv ps' heq hf lx' hg =>
    subst hm hps hpc
    have := ok.progress _ _ _ _ _ heq
    omega
  | case4 lx ps pc tok adv ps' heq hf =>
    subst hm hps hpc
    refine ⟨lx.scanner, lx.cursor, hsuf, Or.inr ⟨tok, adv, ps', heq, keep_of_filtered_false hf, ?_⟩⟩
    cases lx; simp_all

/-- The lazy loop (not `behind`) buffers exactly the token the unbuffered advance
loop would deliver, with the same scanner state and positions. -/
theorem bufferLoop_false_next (ok : ScanOK E m len) (lx : Lexer σ τ) (ps : σ) (pc : Pos) (b : Buf σ τ)
    (hm : lx.metrics = m) (hl : lx.len = len) (hbuf : lx.buffer = none)
    (h : Lexer.bufferLoop E false lx ps pc = { lx with buffer := some b }) :
    Lexer.nextLoop E false { lx with scanner := ps, cursor := pc } =
      (some b.token, { lx with scanner := b.peekScanner, tokenStart := b.peekStart, cursor := b.peekCursor }) := by
  fun_induction Lexer.bufferLoop E false lx ps pc with
  | case1 lx ps pc s' heq =>
    have : lx.buffer = some b := by rw [h]
    rw [hbuf] at this; cases this
  | case2 lx ps pc tok adv ps' heq hf lx' hg ih =>
    have hlx : lx' = lx := by simp [lx']
    rw [hlx] at ih h
    have := ih hm hl hbuf h
    rw [Lexer.nextLoop]
    simp only [heq]
    have hf' : Lexer.filtered E ({ lx with scanner := ps, cursor := pc } : Lexer σ τ) tok = true := hf
    simp only [hf', if_true]
    rw [dif_pos hg]
    exact this
  | case3 lx ps pc tok adv ps' heq hf lx' hg =>
    subst hm
    have := ok.progress _ _ _ _ _ heq
    omega
  | case4 lx ps pc tok adv ps' heq hf =>
    have e : some (⟨ps', pc, adv, tok⟩ : Buf σ τ) = some b := by
      have := congrArg Lexer.buffer h
      simpa using this
    cases e
    have hf0 : lx.filtered E tok = false := by simpa using hf
    have hf' : Lexer.filtered E ({ lx with scanner := ps, cursor := pc } : Lexer σ τ) tok = false := hf0
    rw [nextLoop_hit (by exact heq) hf']
    simp

theorem bufferNext_of_some {lx : Lexer σ τ} {b} (h : lx.buffer = some b) : lx.bufferNext E = lx := by
  unfold Lexer.bufferNext; simp [h]

theorem bufferNext_of_none {lx : Lexer σ τ} (h : lx.buffer = none) :
    lx.bufferNext E = Lexer.bufferLoop E (lx.parseStart == lx.cursor) lx lx.scanner lx.cursor := by
  unfold Lexer.bufferNext; simp [h]

theorem bufferNext_behind_hit {lx : Lexer σ τ} {tok adv s'} (hb : lx.buffer = none)
    (hs : E.scan lx.scanner lx.metrics lx.cursor = (some (tok, adv), s'))
    (hk : keepOf E lx.filter tok = true) :
    lx.bufferNext E = { lx with buffer := some ⟨s', lx.cursor, adv, tok⟩ } := by
  rw [bufferNext_of_none hb]
  exact bufferLoop_hit hs (filtered_false_of_keep hk)

/-- `buffer_next` on a lexer without lookahead establishes the invariant (this is
what `set_filter` relies on: the eager skip re-establishes the key clause). -/
theorem bn_establish (ok : ScanOK E m len) {lx : Lexer σ τ} (p : Pre E m len raw lx) :
    Good E m len raw (lx.bufferNext E) := by
  have hbn := bufferNext_of_none (E := E) p.nobuf
  cases hbeh : (lx.parseStart == lx.cursor)
  · have hne : lx.parseStart ≠ lx.cursor := by simpa using hbeh
    rw [hbeh] at hbn
    rcases bufferLoop_ahead ok lx lx.scanner lx.cursor p.hmet p.hlen with h | ⟨b, h1, _⟩
    · rw [hbn, h]
      exact ⟨p.hmet, p.hlen, p.hps, p.ts, fun e => absurd e hne, p.suf, Or.inl p.nobuf⟩
    · have e : lx.bufferNext E = { lx with buffer := some b } := by rw [hbn, h1]
      rw [e]
      refine ⟨p.hmet, p.hlen, p.hps, p.ts, fun e => absurd e hne, p.suf, Or.inr ?_⟩
      show Lexer.bufferNext E (nb lx) = _
      rw [nb_of_none p.nobuf, e]
  · have he : lx.parseStart = lx.cursor := by simpa using hbeh
    rw [hbeh] at hbn
    obtain ⟨s, c, hsuf, h⟩ := bufferLoop_true_spec (raw := raw) ok lx lx.scanner lx.cursor p.hmet p.hlen
      rfl rfl he (p.ts he) p.nobuf p.suf
    rcases h with ⟨e, hn⟩ | ⟨tok, adv, s', hs, hk, e⟩
    · rw [hbn, e]
      refine ⟨p.hmet, p.hlen, Or.inl rfl, fun _ => rfl, ?_, hsuf, Or.inl p.nobuf⟩
      intro _ tok adv s' hs
      have hs' : E.scan s m c = (some (tok, adv), s') := hs
      rw [hs'] at hn; cases hn
    · rw [hbn, e]
      refine ⟨p.hmet, p.hlen, Or.inl rfl, fun _ => rfl, ?_, hsuf, Or.inr ?_⟩
      · intro _ tok' adv' s'' hs2
        have hs' : E.scan s m c = (some (tok', adv'), s'') := hs2
        rw [hs] at hs'; cases hs'
        exact hk
      · let lx1 : Lexer σ τ := { lx with scanner := s, cursor := c, parseStart := c, tokenStart := c }
        have h1 : lx1.bufferNext E = { lx1 with buffer := some ⟨s', c, adv, tok⟩ } :=
          bufferNext_behind_hit (lx := lx1) p.nobuf
            (by show E.scan s lx.metrics c = _; rw [p.hmet]; exact hs) hk
        show Lexer.bufferNext E (nb lx1) = _
        rw [nb_of_none (show lx1.buffer = none from p.nobuf)]
        exact h1

/-- Under the invariant a lookahead only fills the buffer. -/
theorem bn_shape (ok : ScanOK E m len) {lx : Lexer σ τ} (g : Good E m len raw lx) (hb : lx.buffer = none) :
    lx.bufferNext E = lx ∨ ∃ b, lx.bufferNext E = { lx with buffer := some b } := by
  rw [bufferNext_of_none hb]
  cases hbeh : (lx.parseStart == lx.cursor)
  · rcases bufferLoop_ahead ok lx lx.scanner lx.cursor g.hmet g.hlen with h | ⟨b, h1, _⟩
    · exact Or.inl h
    · exact Or.inr ⟨b, h1⟩
  · have he : lx.parseStart = lx.cursor := by simpa using hbeh
    generalize hx : E.scan lx.scanner lx.metrics lx.cursor = x
    obtain ⟨o, s'⟩ := x
    cases o with
    | none => exact Or.inl (bufferLoop_miss hx)
    | some ta =>
      obtain ⟨tok, adv⟩ := ta
      have hk := g.key he tok adv s' (by rw [← g.hmet]; exact hx)
      exact Or.inr ⟨_, bufferLoop_hit hx (filtered_false_of_keep hk)⟩

theorem bn_good (ok : ScanOK E m len) {lx : Lexer σ τ} (g : Good E m len raw lx) :
    Good E m len raw (lx.bufferNext E) ∧ nb (lx.bufferNext E) = nb lx := by
  cases hb : lx.buffer with
  | some b => rw [bufferNext_of_some hb]; exact ⟨g, rfl⟩
  | none =>
    have p : Pre E m len raw lx := ⟨g.hmet, g.hlen, g.hps, g.ts, g.suf, hb⟩
    refine ⟨bn_establish ok p, ?_⟩
    rcases bn_shape ok g hb with h | ⟨b, h⟩
    · rw [h]
    · rw [h]; rfl

theorem bn_nb {lx : Lexer σ τ} (g : Good E m len raw lx) :
    lx.bufferNext E = (nb lx).bufferNext E := by
  cases hb : lx.buffer with
  | none => rw [nb_of_none hb]
  | some b =>
    rcases g.buf with h | h
    · rw [hb] at h; cases h
    · rw [h, bufferNext_of_some hb]

/-! ### `peek` -/

theorem peek_good (ok : ScanOK E m len) {lx : Lexer σ τ} (g : Good E m len raw lx) :
    Good E m len raw (lx.peek E).2 ∧ nb (lx.peek E).2 = nb lx := by
  unfold Lexer.peek
  split
  · exact ⟨g, rfl⟩
  · exact bn_good ok g

theorem peek_eq_nb {lx : Lexer σ τ} (g : Good E m len raw lx) (hend : ¬ lx.len ≤ lx.cursor.byte) :
    lx.peek E = (nb lx).peek E := by
  have hend' : ¬ (nb lx).len ≤ (nb lx).cursor.byte := hend
  unfold Lexer.peek
  rw [if_neg hend, if_neg hend', bn_nb g]

theorem peek_nb {lx : Lexer σ τ} (g : Good E m len raw lx) :
    (lx.peek E).1 = ((nb lx).peek E).1 ∧ nb (lx.peek E).2 = nb ((nb lx).peek E).2 := by
  by_cases hend : lx.len ≤ lx.cursor.byte
  · have hend' : (nb lx).len ≤ (nb lx).cursor.byte := hend
    unfold Lexer.peek
    rw [if_pos hend, if_pos hend']
    exact ⟨rfl, rfl⟩
  · rw [peek_eq_nb g hend]; exact ⟨rfl, rfl⟩

/-! ### `is_empty_with_filter` -/

theorem emptyQ_good (ok : ScanOK E m len) {lx : Lexer σ τ} (g : Good E m len raw lx) :
    Good E m len raw (lx.isEmptyWithFilter E).2 ∧ nb (lx.isEmptyWithFilter E).2 = nb lx :=
  bn_good ok g

theorem emptyQ_nb {lx : Lexer σ τ} (g : Good E m len raw lx) :
    (lx.isEmptyWithFilter E).1 = ((nb lx).isEmptyWithFilter E).1 ∧
      nb (lx.isEmptyWithFilter E).2 = nb ((nb lx).isEmptyWithFilter E).2 := by
  unfold Lexer.isEmptyWithFilter
  rw [bn_nb g]
  exact ⟨rfl, rfl⟩

/-! ### `next` -/

theorem next_withBuf (ok : ScanOK E m len) {lx : Lexer σ τ} (g : Good E m len raw lx)
    (hnb : lx.buffer = none) (b : Buf σ τ)
    (h : lx.bufferNext E = { lx with buffer := some b }) (hend : ¬ lx.len ≤ lx.cursor.byte) :
    Lexer.next E { lx with buffer := some b } = lx.next E := by
  have hl : Lexer.next E { lx with buffer := some b } = (some b.token,
      { lx with buffer := none, scanner := b.peekScanner, tokenStart := b.peekStart,
                parseStart := if lx.parseStart = lx.cursor then b.peekStart else lx.parseStart,
                cursor := b.peekCursor }) := by
    unfold Lexer.next; simp [hend]
  have hr : lx.next E = Lexer.nextLoop E (lx.parseStart == lx.cursor) lx := by
    unfold Lexer.next; simp [hend, hnb]
  rw [hl, hr]
  rw [bufferNext_of_none hnb] at h
  cases hbeh : (lx.parseStart == lx.cursor)
  · have hne : lx.parseStart ≠ lx.cursor := by simpa using hbeh
    rw [hbeh] at h
    have := bufferLoop_false_next ok lx lx.scanner lx.cursor b g.hmet g.hlen hnb h
    have e : ({ lx with scanner := lx.scanner, cursor := lx.cursor } : Lexer σ τ) = lx := rfl
    rw [e] at this
    rw [this, if_neg hne]
    cases lx; simp_all
  · have he : lx.parseStart = lx.cursor := by simpa using hbeh
    rw [hbeh] at h
    generalize hx : E.scan lx.scanner lx.metrics lx.cursor = x
    obtain ⟨o, s'⟩ := x
    cases o with
    | none =>
      rw [bufferLoop_miss hx] at h
      have := congrArg Lexer.buffer h
      rw [hnb] at this; cases this
    | some ta =>
      obtain ⟨tok, adv⟩ := ta
      have hk := g.key he tok adv s' (by rw [← g.hmet]; exact hx)
      rw [bufferLoop_hit hx (filtered_false_of_keep hk)] at h
      have e : some (⟨s', lx.cursor, adv, tok⟩ : Buf σ τ) = some b := by
        have := congrArg Lexer.buffer h
        simpa using this
      cases e
      rw [nextLoop_hit hx (filtered_false_of_keep hk), if_pos he]
      have := g.ts he
      cases lx; simp_all

theorem next_eq_nb (ok : ScanOK E m len) {lx : Lexer σ τ} (g : Good E m len raw lx)
    (hend : ¬ lx.len ≤ lx.cursor.byte) : lx.next E = (nb lx).next E := by
  cases hb : lx.buffer with
  | none => rw [nb_of_none hb]
  | some b =>
    have hbn : (nb lx).bufferNext E = lx := by
      rcases g.buf with h | h
      · rw [hb] at h; cases h
      · exact h
    have := next_withBuf ok g.toNb rfl b (by rw [hbn]; exact eq_withBuf hb) hend
    rw [← this]
    congr 1
    exact eq_withBuf hb

theorem next_good (ok : ScanOK E m len) (fin : ScanFinal E m) {lx : Lexer σ τ}
    (g : Good E m len raw lx) : Good E m len raw (lx.next E).2 ∧ TokOK raw (lx.next E) := by
  by_cases hend : lx.len ≤ lx.cursor.byte
  · have : lx.next E = (none, lx) := by unfold Lexer.next; rw [if_pos hend]
    rw [this]
    exact ⟨g, fun t h => by simp at h⟩
  · rw [next_eq_nb ok g hend]
    have : (nb lx).next E = Lexer.nextLoop E ((nb lx).parseStart == (nb lx).cursor) (nb lx) := by
      unfold Lexer.next; simp [hend]
    rw [this]
    have := nextLoop_good (raw := raw) ok fin ((nb lx).parseStart == (nb lx).cursor) (nb lx) g.hmet g.hlen rfl
      (by
        intro h
        have he : lx.parseStart = lx.cursor := by simpa using h
        exact ⟨he, g.ts he⟩)
      (by
        intro h
        have hne : lx.parseStart ≠ lx.cursor := by simpa using h
        rcases g.hps with e | e
        · exact absurd e hne
        · exact e)
      g.suf
    exact ⟨this.1, this.2.1⟩

theorem next_nb (ok : ScanOK E m len) {lx : Lexer σ τ} (g : Good E m len raw lx) :
    (lx.next E).1 = ((nb lx).next E).1 ∧ nb (lx.next E).2 = nb ((nb lx).next E).2 := by
  by_cases hend : lx.len ≤ lx.cursor.byte
  · have h1 : lx.next E = (none, lx) := by unfold Lexer.next; rw [if_pos hend]
    have hend' : (nb lx).len ≤ (nb lx).cursor.byte := hend
    have h2 : (nb lx).next E = (none, nb lx) := by unfold Lexer.next; rw [if_pos hend']
    rw [h1, h2]; exact ⟨rfl, rfl⟩
  · rw [next_eq_nb ok g hend]; exact ⟨rfl, rfl⟩

theorem next_at_end {lx : Lexer σ τ} (hend : lx.len ≤ lx.cursor.byte) : lx.next E = (none, lx) := by
  unfold Lexer.next; rw [if_pos hend]

theorem peek_at_end {lx : Lexer σ τ} (hend : lx.len ≤ lx.cursor.byte) : lx.peek E = (none, lx) := by
  unfold Lexer.peek; rw [if_pos hend]

/-! ### `next_if` -/

theorem nextIf_good (ok : ScanOK E m len) (fin : ScanFinal E m) (p : τ → Bool) {lx : Lexer σ τ}
    (g : Good E m len raw lx) : Good E m len raw (lx.nextIf E p).2 ∧ TokOK raw (lx.nextIf E p) := by
  have hp := (peek_good ok g).1
  unfold Lexer.nextIf
  split
  · next t lx' heq =>
    rw [heq] at hp
    split
    · exact next_good ok fin hp
    · exact ⟨hp, fun t h => by simp at h⟩
  · next lx' heq =>
    rw [heq] at hp
    exact ⟨hp, fun t h => by simp at h⟩

theorem nextIf_nb (p : τ → Bool) {lx : Lexer σ τ} (g : Good E m len raw lx) :
    (lx.nextIf E p).1 = ((nb lx).nextIf E p).1 ∧ nb (lx.nextIf E p).2 = nb ((nb lx).nextIf E p).2 := by
  by_cases hend : lx.len ≤ lx.cursor.byte
  · have hend' : (nb lx).len ≤ (nb lx).cursor.byte := hend
    unfold Lexer.nextIf
    rw [peek_at_end hend, peek_at_end hend']
    exact ⟨rfl, rfl⟩
  · unfold Lexer.nextIf
    rw [peek_eq_nb g hend]
    exact ⟨rfl, rfl⟩

/-! ### `advance_to` -/

theorem advanceTo_good (ok : ScanOK E m len) (fin : ScanFinal E m) (p : τ → Bool) (lx : Lexer σ τ)
    (g : Good E m len raw lx) : Good E m len raw (lx.advanceTo E p).2 := by
  fun_induction Lexer.advanceTo E p lx with
  | case1 lx lx' hn => have := (next_good ok fin g).1; rw [hn] at this; exact this
  | case2 lx t lx' hn hp => have := (next_good ok fin g).1; rw [hn] at this; exact this
  | case3 lx t lx' hn hp hg ih => have := (next_good ok fin g).1; rw [hn] at this; exact ih this
  | case4 lx t lx' hn hp hg => have := (next_good ok fin g).1; rw [hn] at this; exact this

theorem advanceTo_unfold (p : τ → Bool) (lx : Lexer σ τ) :
    lx.advanceTo E p =
      match lx.next E with
      | (none, lx') => (false, lx')
      | (some t, lx') =>
        if p t then (true, lx')
        else if lx.cursor.byte < lx'.cursor.byte ∧ lx'.len = lx.len ∧ lx'.cursor.byte ≤ lx.len then
          lx'.advanceTo E p
        else (false, lx') := by
  rw [Lexer.advanceTo.eq_1]
  split
  · next lx' h0 => rw [h0]
  · next t lx' h0 => rw [h0]; simp

theorem advanceTo_congr (p : τ → Bool) (a b : Lexer σ τ) (hn : a.next E = b.next E)
    (hc : a.cursor = b.cursor) (hl : a.len = b.len) : a.advanceTo E p = b.advanceTo E p := by
  rw [advanceTo_unfold p a, advanceTo_unfold p b, hn, hc, hl]

theorem advanceTo_at_end (p : τ → Bool) (lx : Lexer σ τ) (hend : lx.len ≤ lx.cursor.byte) :
    lx.advanceTo E p = (false, lx) := by
  have hn := next_at_end (E := E) hend
  fun_cases Lexer.advanceTo E p lx <;> simp_all

theorem advanceTo_nb (ok : ScanOK E m len) (p : τ → Bool) {lx : Lexer σ τ} (g : Good E m len raw lx) :
    (lx.advanceTo E p).1 = ((nb lx).advanceTo E p).1 ∧
      nb (lx.advanceTo E p).2 = nb ((nb lx).advanceTo E p).2 := by
  by_cases hend : lx.len ≤ lx.cursor.byte
  · have hend' : (nb lx).len ≤ (nb lx).cursor.byte := hend
    rw [advanceTo_at_end p lx hend, advanceTo_at_end p (nb lx) hend']
    exact ⟨rfl, rfl⟩
  · rw [advanceTo_congr p lx (nb lx) (next_eq_nb ok g hend) rfl rfl]
    exact ⟨rfl, rfl⟩

/-! ### `advance_up_to` -/

theorem advanceUpTo_good (ok : ScanOK E m len) (fin : ScanFinal E m) (p : τ → Bool) (lx : Lexer σ τ)
    (g : Good E m len raw lx) : Good E m len raw (lx.advanceUpTo E p).2 := by
  fun_induction Lexer.advanceUpTo E p lx with
  | case1 lx lx' hpk => have := (peek_good ok g).1; rw [hpk] at this; exact this
  | case2 lx t lx' hpk hp => have := (peek_good ok g).1; rw [hpk] at this; exact this
  | case3 lx t lx' hpk hp o lx'' hn hg ih =>
    have h1 := (peek_good ok g).1
    rw [hpk] at h1
    have h2 := (next_good ok fin h1).1
    rw [hn] at h2
    exact ih h2
  | case4 lx t lx' hpk hp o lx'' hn hg =>
    have h1 := (peek_good ok g).1
    rw [hpk] at h1
    have h2 := (next_good ok fin h1).1
    rw [hn] at h2
    exact h2

theorem advanceUpTo_congr (p : τ → Bool) (a b : Lexer σ τ) (hn : a.peek E = b.peek E)
    (hc : a.cursor = b.cursor) (hl : a.len = b.len) : a.advanceUpTo E p = b.advanceUpTo E p := by
  rw [Lexer.advanceUpTo.eq_1 E p a, Lexer.advanceUpTo.eq_1 E p b]
  rw [hn, hc, hl]

theorem advanceUpTo_at_end (p : τ → Bool) (lx : Lexer σ τ) (hend : lx.len ≤ lx.cursor.byte) :
    lx.advanceUpTo E p = (false, lx) := by
  rw [Lexer.advanceUpTo.eq_1, peek_at_end hend]

theorem advanceUpTo_nb (p : τ → Bool) {lx : Lexer σ τ} (g : Good E m len raw lx) :
    (lx.advanceUpTo E p).1 = ((nb lx).advanceUpTo E p).1 ∧
      nb (lx.advanceUpTo E p).2 = nb ((nb lx).advanceUpTo E p).2 := by
  by_cases hend : lx.len ≤ lx.cursor.byte
  · have hend' : (nb lx).len ≤ (nb lx).cursor.byte := hend
    rw [advanceUpTo_at_end p lx hend, advanceUpTo_at_end p (nb lx) hend']
    exact ⟨rfl, rfl⟩
  · rw [advanceUpTo_congr p lx (nb lx) (peek_eq_nb g hend) rfl rfl]
    exact ⟨rfl, rfl⟩

/-! ### filter changes -/

theorem setFilter_good (ok : ScanOK E m len) (f : Option Nat) {lx : Lexer σ τ}
    (g : Good E m len raw lx) : Good E m len raw (lx.setFilter E f).2 :=
  bn_establish (lx := { lx with filter := f, buffer := none }) ok ⟨g.hmet, g.hlen, g.hps, g.ts, g.suf, rfl⟩

theorem setFilter_nb (f : Option Nat) (lx : Lexer σ τ) : lx.setFilter E f = (nb lx).setFilter E f := rfl

theorem withFilter_good (ok : ScanOK E m len) (f : Option Nat) {lx : Lexer σ τ}
    (g : Good E m len raw lx) : Good E m len raw (lx.withFilter E f) :=
  (bn_good ok (setFilter_good ok f g)).1

theorem withFilter_nb (f : Option Nat) (lx : Lexer σ τ) : lx.withFilter E f = (nb lx).withFilter E f := rfl

/-! ### operations -/

open LexOps

def isFork : Op τ → Bool
  | .forkBegin | .forkEnd => true
  | _ => false

def isMetricsOp : Op τ → Bool
  | .withLineEnding _ | .withTabWidth _ | .withMetrics _ _ => true
  | _ => false

/-- lookahead / span queries: erased by `project`, allowed outside forks. -/
def isLook : Op τ → Bool
  | .peek | .emptyQ | .spans => true
  | _ => false

/-- the span reported for an advance, as `deliveredAux` computes it. -/
def spanOf (o : Out τ × Lexer σ τ) : Option Span :=
  match o.1 with
  | .tok (some _) => some o.2.tokenSpan
  | _ => none

/-- A delivered token is a raw token with that raw token's span. -/
def SeqOK (raw : List (RawTok τ)) (x : Out τ × Option Span) : Prop :=
  ∀ t sp, x = (Out.tok (some t), some sp) → ∃ r ∈ raw, r.tok = t ∧ sp = ⟨r.start, r.stop⟩

theorem seqOK_of_tokOK {r : Option τ × Lexer σ τ} (h : TokOK raw r) :
    SeqOK raw (Out.tok r.1, spanOf (Out.tok r.1, r.2)) := by
  intro t sp e
  have e1 : r.1 = some t := by
    have := congrArg Prod.fst e
    exact Out.tok.inj this
  obtain ⟨x, hx, h1, h2⟩ := h t e1
  refine ⟨x, hx, h1, ?_⟩
  have e2 := congrArg Prod.snd e
  simp only [spanOf, e1] at e2
  rw [← h2]
  exact (Option.some.inj e2).symm

theorem seqOK_flag (b : Bool) (lx : Lexer σ τ) : SeqOK raw (Out.flag b, spanOf (Out.flag b, lx)) := by
  intro t sp e
  have := congrArg Prod.fst e
  cases this

theorem op_good (ok : ScanOK E m len) (fin : ScanFinal E m) {lx : Lexer σ τ} (g : Good E m len raw lx)
    (op : Op τ) (h1 : isFork op = false) (h2 : isSublex op = false) (h3 : isMetricsOp op = false) :
    Good E m len raw (applyOp E lx op).2 ∧
    (isAdvance op = true → SeqOK raw ((applyOp E lx op).1, spanOf (applyOp E lx op))) := by
  cases op with
  | next => exact ⟨(next_good ok fin g).1, fun _ => seqOK_of_tokOK (next_good ok fin g).2⟩
  | peek => exact ⟨(peek_good ok g).1, fun h => by cases h⟩
  | emptyQ => exact ⟨(emptyQ_good ok g).1, fun h => by cases h⟩
  | nextIf p => exact ⟨(nextIf_good ok fin p g).1, fun _ => seqOK_of_tokOK (nextIf_good ok fin p g).2⟩
  | advanceTo p => exact ⟨advanceTo_good ok fin p lx g, fun _ => seqOK_flag _ _⟩
  | advanceUpTo p => exact ⟨advanceUpTo_good ok fin p lx g, fun _ => seqOK_flag _ _⟩
  | setFilter f => exact ⟨setFilter_good ok f g, fun h => by cases h⟩
  | withFilter f => exact ⟨withFilter_good ok f g, fun h => by cases h⟩
  | spans => exact ⟨g, fun h => by cases h⟩
  | startSublex => cases h2
  | intoSublexer => cases h2
  | forkBegin => cases h1
  | forkEnd => cases h1
  | withLineEnding le => cases h3
  | withTabWidth t => cases h3
  | withMetrics le t => cases h3

theorem op_nb (ok : ScanOK E m len) {lx : Lexer σ τ} (g : Good E m len raw lx)
    (op : Op τ) (h1 : isFork op = false) (h2 : isSublex op = false) (h3 : isMetricsOp op = false) :
    (applyOp E lx op).1 = (applyOp E (nb lx) op).1 ∧
      nb (applyOp E lx op).2 = nb (applyOp E (nb lx) op).2 := by
  cases op with
  | next => exact ⟨congrArg Out.tok (next_nb ok g).1, (next_nb ok g).2⟩
  | peek => exact ⟨congrArg Out.tok (peek_nb g).1, (peek_nb g).2⟩
  | emptyQ => exact ⟨congrArg Out.flag (emptyQ_nb g).1, (emptyQ_nb g).2⟩
  | nextIf p => exact ⟨congrArg Out.tok (nextIf_nb p g).1, (nextIf_nb p g).2⟩
  | advanceTo p => exact ⟨congrArg Out.flag (advanceTo_nb ok p g).1, (advanceTo_nb ok p g).2⟩
  | advanceUpTo p => exact ⟨congrArg Out.flag (advanceUpTo_nb p g).1, (advanceUpTo_nb p g).2⟩
  | setFilter f => exact ⟨rfl, rfl⟩
  | withFilter f => exact ⟨rfl, rfl⟩
  | spans => exact ⟨rfl, rfl⟩
  | startSublex => cases h2
  | intoSublexer => cases h2
  | forkBegin => cases h1
  | forkEnd => cases h1
  | withLineEnding le => cases h3
  | withTabWidth t => cases h3
  | withMetrics le t => cases h3

theorem op_look (ok : ScanOK E m len) {lx : Lexer σ τ} (g : Good E m len raw lx)
    (op : Op τ) (h : isLook op = true) : nb (applyOp E lx op).2 = nb lx := by
  cases op with
  | peek => exact (peek_good ok g).2
  | emptyQ => exact (emptyQ_good ok g).2
  | spans => rfl
  | _ => cases h

/-- Two lexers that differ only in their lookahead answer every operation alike. -/
theorem op_rel (ok : ScanOK E m len) {a b : Lexer σ τ} (ga : Good E m len raw a) (gb : Good E m len raw b)
    (hab : nb a = nb b)
    (op : Op τ) (h1 : isFork op = false) (h2 : isSublex op = false) (h3 : isMetricsOp op = false) :
    (applyOp E a op).1 = (applyOp E b op).1 ∧ nb (applyOp E a op).2 = nb (applyOp E b op).2 := by
  have ha := op_nb ok ga op h1 h2 h3
  have hb := op_nb ok gb op h1 h2 h3
  rw [hab] at ha
  exact ⟨ha.1.trans hb.1.symm, ha.2.trans hb.2.symm⟩

/-! ### the interpreter -/

theorem exec_plain (top : Lexer σ τ) (rest : List (Lexer σ τ)) (op : Op τ) (ops : List (Op τ))
    (h : isFork op = false) :
    exec E (top :: rest) (op :: ops) = applyOp E top op :: exec E ((applyOp E top op).2 :: rest) ops := by
  cases op <;> first | rfl | exact Bool.noConfusion h

theorem exec_forkEnd_cons (top r : Lexer σ τ) (rest : List (Lexer σ τ)) (ops : List (Op τ)) :
    exec E (top :: r :: rest) (.forkEnd :: ops) = (.unit, r) :: exec E (r :: rest) ops := rfl

theorem deliveredAux_plain (d : Nat) (op : Op τ) (ops : List (Op τ)) (o : Out τ × Lexer σ τ)
    (os : List (Out τ × Lexer σ τ)) (h : isFork op = false) :
    deliveredAux d (op :: ops) (o :: os) =
      if d == 0 && isAdvance op then (o.1, spanOf o) :: deliveredAux d ops os
      else deliveredAux d ops os := by
  cases op <;> first | rfl | exact Bool.noConfusion h

theorem projectAux_pos (d : Nat) (op : Op τ) (ops : List (Op τ)) (h : isFork op = false) :
    projectAux (d + 1) (op :: ops) = projectAux (d + 1) ops := by
  cases op <;> first | rfl | exact Bool.noConfusion h

theorem projectAux_look (d : Nat) (op : Op τ) (ops : List (Op τ)) (h : isLook op = true) :
    projectAux d (op :: ops) = projectAux d ops := by
  cases op <;> first | rfl | exact Bool.noConfusion h

theorem projectAux_keep (op : Op τ) (ops : List (Op τ)) (h1 : isFork op = false)
    (h2 : isSublex op = false) (h3 : isLook op = false) :
    projectAux 0 (op :: ops) = op :: projectAux 0 ops := by
  cases op <;> first | rfl | exact Bool.noConfusion h1 | exact Bool.noConfusion h2 | exact Bool.noConfusion h3

theorem sublexFreeAux_plain (d : Nat) (op : Op τ) (ops : List (Op τ)) (h : isFork op = false) :
    sublexFreeAux d (op :: ops) = ((decide (d > 0) || !isSublex op) && sublexFreeAux d ops) := by
  cases op <;> first | rfl | exact Bool.noConfusion h

theorem metricsFree_cons (op : Op τ) (ops : List (Op τ)) (h : metricsFree (op :: ops) = true) :
    isMetricsOp op = false ∧ metricsFree ops = true := by
  cases op <;> first | exact ⟨rfl, h⟩ | exact Bool.noConfusion h

theorem look_not_advance (op : Op τ) (h : isLook op = true) : isAdvance op = false := by
  cases op <;> first | rfl | exact Bool.noConfusion h

/-- The lock-step theorem, with the fork stack `stk` above the lexer under
observation. -/
theorem main (ok : ScanOK E m len) (fin : ScanFinal E m) :
    ∀ (ops : List (Op τ)) (stk : List (Lexer σ τ)) (a b : Lexer σ τ),
      Good E m len raw a → Good E m len raw b → nb a = nb b →
      metricsFree ops = true → sublexFreeAux stk.length ops = true →
      deliveredAux stk.length ops (exec E (stk ++ [a]) ops) =
        deliveredAux 0 (projectAux stk.length ops) (exec E [b] (projectAux stk.length ops)) ∧
      ∀ x ∈ deliveredAux stk.length ops (exec E (stk ++ [a]) ops), SeqOK raw x := by
  intro ops
  induction ops with
  | nil =>
    intro stk a b _ _ _ _ _
    exact ⟨by simp [projectAux, deliveredAux], by simp [deliveredAux]⟩
  | cons op ops ih =>
    intro stk a b ga gb hab hm hs
    obtain ⟨hm1, hm2⟩ := metricsFree_cons op ops hm
    cases hf : isFork op with
    | true =>
      cases op with
      | forkBegin =>
        cases stk with
        | nil => exact ih [a] a b ga gb hab hm2 hs
        | cons c cs => exact ih (c :: c :: cs) a b ga gb hab hm2 hs
      | forkEnd =>
        cases stk with
        | nil => exact ih [] a b ga gb hab hm2 hs
        | cons c cs =>
          have hs' : sublexFreeAux cs.length ops = true := hs
          cases cs with
          | nil => exact ih [] a b ga gb hab hm2 hs'
          | cons c' cs' => exact ih (c' :: cs') a b ga gb hab hm2 hs'
      | _ => cases hf
    | false =>
      rw [sublexFreeAux_plain _ _ _ hf] at hs
      simp only [Bool.and_eq_true] at hs
      cases stk with
      | cons c cs =>
        have hs' : sublexFreeAux (cs.length + 1) ops = true := hs.2
        have := ih ((applyOp E c op).2 :: cs) a b ga gb hab hm2 hs'
        show deliveredAux (cs.length + 1) (op :: ops) (exec E (c :: (cs ++ [a])) (op :: ops)) =
            deliveredAux 0 (projectAux (cs.length + 1) (op :: ops))
              (exec E [b] (projectAux (cs.length + 1) (op :: ops))) ∧
          ∀ x ∈ deliveredAux (cs.length + 1) (op :: ops) (exec E (c :: (cs ++ [a])) (op :: ops)), SeqOK raw x
        rw [exec_plain _ _ _ _ hf, deliveredAux_plain _ _ _ _ _ hf, projectAux_pos _ _ _ hf]
        simpa using this
      | nil =>
        have hsub : isSublex op = false := by simpa using hs.1
        have hs' : sublexFreeAux 0 ops = true := hs.2
        have hga := op_good ok fin ga op hf hsub hm1
        show deliveredAux 0 (op :: ops) (exec E [a] (op :: ops)) =
            deliveredAux 0 (projectAux 0 (op :: ops)) (exec E [b] (projectAux 0 (op :: ops))) ∧
          ∀ x ∈ deliveredAux 0 (op :: ops) (exec E [a] (op :: ops)), SeqOK raw x
        rw [exec_plain _ _ _ _ hf, deliveredAux_plain _ _ _ _ _ hf]
        cases hl : isLook op with
        | true =>
          have hnb := op_look ok ga op hl
          have := ih [] (applyOp E a op).2 b hga.1 gb (hnb.trans hab) hm2 hs'
          rw [projectAux_look _ _ _ hl, look_not_advance _ hl]
          simpa using this
        | false =>
          have hgb := op_good ok fin gb op hf hsub hm1
          have hrel := op_rel ok ga gb hab op hf hsub hm1
          have := ih [] (applyOp E a op).2 (applyOp E b op).2 hga.1 hgb.1 hrel.2 hm2 hs'
          rw [projectAux_keep _ _ hf hsub hl, exec_plain _ _ _ _ hf, deliveredAux_plain _ _ _ _ _ hf]
          cases hadv : isAdvance op with
          | false => simpa using this
          | true =>
            have hsp : spanOf (applyOp E a op) = spanOf (applyOp E b op) := by
              unfold spanOf
              rw [hrel.1, tokenSpan_nb hrel.2]
            simp only [beq_self_eq_true, Bool.and_self, if_true, List.mem_cons]
            refine ⟨?_, ?_⟩
            · rw [hrel.1, hsp]
              exact congrArg _ this.1
            · intro x hx
              rcases hx with e | hx
              · rw [e]; exact hga.2 hadv
              · exact this.2 x hx

/-! ### the theorems -/

/-- Lookahead and cloning are unobservable: the advances of a history without
sub-lex marks outside forks deliver what the projected history delivers. -/
theorem partial_ (ok : ScanOK E m len) (fin : ScanFinal E m) (s0 : σ) (ops : List (Op τ))
    (hm : metricsFree ops = true) (hs : sublexFree ops = true) :
    delivered ops (exec E [Lexer.new s0 m len] ops) =
      delivered (project ops) (exec E [Lexer.new s0 m len] (project ops)) :=
  (main ok fin ops [] _ _ (good_new s0) (good_new s0) rfl hm hs).1

/-- Every delivered token is a token of the raw stream, with that token's span. -/
theorem sequential (ok : ScanOK E m len) (fin : ScanFinal E m) (s0 : σ) (ops : List (Op τ))
    (hm : metricsFree ops = true) (hs : sublexFree ops = true) :
    ∀ x ∈ delivered ops (exec E [Lexer.new s0 m len] ops),
      SeqOK (rawFrom E.scan m (len + 1) s0 Pos.zero) x :=
  (main ok fin ops [] _ _ (good_new s0) (good_new s0) rfl hm hs).2

/-! ### witnesses (evaluated) -/

namespace Witness

/-- Text `a ws b`: token 1 at [0,1), token 0 (`ws`) at [1,2), token 2 at [2,3).
A stateless table scanner. -/
def scanT (s : Unit) (_m : Metrics) (p : Pos) : Option (Nat × Pos) × Unit :=
  if p.byte = 0 then (some (1, ⟨1, 0, 1⟩), s)
  else if p.byte = 1 then (some (0, ⟨2, 0, 2⟩), s)
  else if p.byte = 2 then (some (2, ⟨3, 0, 3⟩), s)
  else (none, s)

/-- every filter id rejects exactly the `ws` token. -/
def ET : LexEnv Unit Nat := ⟨scanT, fun _ t => t != 0, fun _ b => ⟨b, 0, b⟩⟩
def mT : Metrics := ⟨.lf, 4⟩

theorem scanT_ok : ScanOK ET mT 3 := by
  constructor
  · intro s p tok adv s' h
    simp only [ET, scanT] at h
    split at h
    · cases h; simp_all
    · split at h
      · cases h; simp_all
      · split at h
        · cases h; simp_all
        · cases h
  · intro s p h
    simp only [ET, scanT]
    rw [if_neg (by omega), if_neg (by omega), if_neg (by omega)]

theorem scanT_final : ScanFinal ET mT := by
  constructor
  intro s p s' h
  cases s; cases s'
  rw [h]

/-- F19: a sub-lex mark followed by a filter change. -/
def opsF19 : List (Op Nat) := [.withFilter (some 0), .next, .startSublex, .setFilter none, .next]

theorem F19_full : (delivered opsF19 (exec ET [Lexer.new () mT 3] opsF19)).map (·.1) =
    [.tok (some 1), .tok (some 2)] := by
  simp [opsF19, LexOps.delivered, deliveredAux, exec, applyOp, Lexer.withFilter, Lexer.setFilter,
    Lexer.bufferNext, Lexer.bufferLoop, Lexer.next, Lexer.startSublex, Lexer.new, ET, scanT,
    Lexer.filtered, isAdvance, Pos.zero]

theorem F19_projected : (delivered (project opsF19) (exec ET [Lexer.new () mT 3] (project opsF19))).map (·.1) =
    [.tok (some 1), .tok (some 0)] := by
  simp [opsF19, project, projectAux, LexOps.delivered, deliveredAux, exec, applyOp, Lexer.withFilter,
    Lexer.setFilter, Lexer.bufferNext, Lexer.bufferLoop, Lexer.next, Lexer.new, ET, scanT,
    Lexer.filtered, isAdvance, Pos.zero]

/-- Text of 2 bytes: `ws` (token 0) at [0,1), `b` (token 1) at [1,2).  The scanner
refuses once: in state 0 it returns `None` and moves to state 1, which scans
normally.  It satisfies `ScanOK` but not `ScanFinal`. -/
def scanR (s : Nat) (_m : Metrics) (p : Pos) : Option (Nat × Pos) × Nat :=
  if p.byte ≥ 2 then (none, s)
  else if s = 0 then (none, 1)
  else if p.byte = 0 then (some (0, ⟨1, 0, 1⟩), s) else (some (1, ⟨2, 0, 2⟩), s)

def ER : LexEnv Nat Nat := ⟨scanR, fun _ t => t != 0, fun _ b => ⟨b, 0, b⟩⟩

theorem scanR_ok : ScanOK ER mT 2 := by
  constructor
  · intro s p tok adv s' h
    simp only [ER, scanR] at h
    split at h
    · cases h
    · split at h
      · cases h
      · split at h <;> (cases h; simp_all <;> omega)
  · intro s p h
    simp only [ER, scanR]
    rw [if_pos h]

/-- a failed advance, then a lookahead, then a filter change: no sub-lex mark. -/
def opsR : List (Op Nat) := [.withFilter (some 0), .next, .peek, .setFilter none, .next]

theorem R_full : (delivered opsR (exec ER [Lexer.new 0 mT 2] opsR)).map (·.1) =
    [.tok none, .tok (some 1)] := by
  simp [opsR, LexOps.delivered, deliveredAux, exec, applyOp, Lexer.withFilter, Lexer.setFilter, Lexer.peek,
    Lexer.bufferNext, Lexer.bufferLoop, Lexer.next, Lexer.nextLoop, Lexer.new, ER, scanR,
    Lexer.filtered, isAdvance, Pos.zero]

theorem R_projected : (delivered (project opsR) (exec ER [Lexer.new 0 mT 2] (project opsR))).map (·.1) =
    [.tok none, .tok (some 0)] := by
  simp [opsR, project, projectAux, LexOps.delivered, deliveredAux, exec, applyOp, Lexer.withFilter,
    Lexer.setFilter, Lexer.bufferNext, Lexer.bufferLoop, Lexer.next, Lexer.nextLoop, Lexer.new, ER, scanR,
    Lexer.filtered, isAdvance, Pos.zero]

/-- a history with lookahead and a clone, for non-vacuity. -/
def opsN : List (Op Nat) :=
  [.withFilter (some 0), .peek, .forkBegin, .next, .next, .forkEnd, .next, .peek, .spans, .next]

theorem N_full : delivered opsN (exec ET [Lexer.new () mT 3] opsN) =
    [(.tok (some 1), some ⟨⟨0, 0, 0⟩, ⟨1, 0, 1⟩⟩), (.tok (some 2), some ⟨⟨2, 0, 2⟩, ⟨3, 0, 3⟩⟩)] := by
  simp [opsN, LexOps.delivered, deliveredAux, exec, applyOp, Lexer.withFilter, Lexer.setFilter, Lexer.peek,
    Lexer.bufferNext, Lexer.bufferLoop, Lexer.next, Lexer.nextLoop, Lexer.new, ET, scanT,
    Lexer.filtered, isAdvance, Pos.zero, Lexer.tokenSpan, Span.enclosing]

end Witness

end LexOpsProof
end Tephra
