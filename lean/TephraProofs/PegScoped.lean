/-
  TephraProofs.PegScoped — C06, the complement of finding F27: `run` refines
  `Spec.peg` on grammars that contain the filter-scoping combinators
  `filter_with` / `unfiltered` (and `sub`), provided every filter scope is entered
  only after a token has been consumed in the current (sub-)parse.

  `Exact lx s` ("consumed and exact"): `lx.parseStart ≠ lx.cursor` — so `buffer_next`
  runs with `behind = false` and never moves the cursor — and the reference state's
  raw rest is *exactly* the raw stream at the lexer's scanner/cursor (no slack of
  leading rejected tokens, which `Abs` alone allows).  It holds after every
  delivered token (`next_exact`), is kept by `peek` (`peek_exact`) and by
  `set_filter` (`setFilter_exact`: the buffer is cleared and re-filled from the
  unchanged cursor, so the new filter sees the very tokens the reference sees).

  `AbsB c` = `Abs`, plus `Exact` when the flag `c` is set.  `out c g` is the flag
  after a success of `g` entered with flag `c`; `scopedG c g` is the fragment:
  `pegWithRep` plus `filter_with`/`unfiltered` at positions where the flag is set
  (and whose body leaves it set), plus `sub` (which clears the flag for its body).

  `scoped_sim`: the simulation, by induction on the fuel, with one generic step
  lemma per combinator (`SimG A`: `PegRefine.Sim` with the relation a parameter).
-/
import TephraProofs.RunMatchers
import TephraProofs.PegAbs
import TephraProofs.PegRefine

namespace Tephra
open Tephra.Spec

namespace PegScoped
open LexIter PegRefine

variable {E : LexEnv Nat Tok} {R : RunEnv} {m : Metrics} {len : Nat}

/-! ### the exact relation -/

/-- Something has been consumed since the start of the current (sub-)parse, and the
reference state's raw rest is the raw stream at the lexer's scanner/cursor. -/
structure Exact (E : LexEnv Nat Tok) (m : Metrics) (len : Nat) (lx : Lx) (s : PState) : Prop where
  consumed : lx.parseStart ≠ lx.cursor
  rest : s.rest = rawAt E m len lx.scanner lx.cursor

/-- `Abs`, and `Exact` when the flag is set. -/
def AbsB (E : LexEnv Nat Tok) (m : Metrics) (len : Nat) (c : Bool) (lx : Lx) (s : PState) : Prop :=
  Abs E m len lx s ∧ (c = true → Exact E m len lx s)

theorem AbsB.mono {c c' : Bool} {lx : Lx} {s : PState} (h : c' = true → c = true)
    (a : AbsB E m len c lx s) : AbsB E m len c' lx s :=
  ⟨a.1, fun hc => a.2 (h hc)⟩

theorem AbsB.weak {c : Bool} {lx : Lx} {s : PState} (a : AbsB E m len c lx s) : AbsB E m len false lx s :=
  ⟨a.1, fun h => nomatch h⟩

/-- After a delivered token the relation is exact. -/
theorem next_exact (ok : ScanOK E m len) {lx : Lx} {s : PState} (a : Abs E m len lx s) {r s' lx'}
    (hpop : s.pop = some (r, s')) (hn : lx.next E = (some r.tok, lx')) : Exact E m len lx' s' := by
  obtain ⟨post, h1, rfl⟩ := pop_some_iff.mp hpop
  rw [a.rest] at h1
  obtain ⟨lx'', e, i', h2, h3, h4, h5, h6, h7, h8⟩ := (next_spec ok a.inv).2 r post h1
  rw [hn] at e
  cases e
  refine ⟨?_, h2.symm⟩
  intro h
  have hb : lx'.parseStart.byte = lx'.cursor.byte := by rw [h]
  rw [h5, h3] at hb
  have := a.inv.ps_le
  split at hb <;> omega

theorem next_cases_x (ok : ScanOK E m len) (hp : PassOK E) {lx : Lx} {s : PState} (a : Abs E m len lx s) :
    (∃ lx', lx.next E = (none, lx') ∧ s.pop = none) ∨
    (∃ r s' lx', lx.next E = (some r.tok, lx') ∧ s.pop = some (r, s') ∧ AbsB E m len true lx' s') := by
  rcases next_cases ok hp a with ⟨lx', hn, hpop⟩ | ⟨r, s', lx', hn, hpop, a', _⟩
  · exact Or.inl ⟨lx', hn, hpop⟩
  · exact Or.inr ⟨r, s', lx', hn, hpop, a', fun _ => next_exact ok a hpop hn⟩

/-- With something consumed, `buffer_next` leaves scanner, cursor and parse start alone. -/
theorem bufferNext_exact (ok : ScanOK E m len) {lx : Lx} {s : PState} (a : Abs E m len lx s)
    (x : Exact E m len lx s) : Exact E m len (lx.bufferNext E) s := by
  have hne : (lx.parseStart == lx.cursor) = false := by simpa using x.consumed
  unfold Lexer.bufferNext
  split
  · exact x
  · rw [hne]
    rcases bufferLoop_ahead ok lx lx.scanner lx.cursor a.inv.hmet a.inv.hlen with h | ⟨b, h1, _⟩
    · rw [h]; exact x
    · rw [h1]; exact ⟨x.consumed, x.rest⟩

theorem peek_exact (ok : ScanOK E m len) {lx : Lx} {s : PState} (a : Abs E m len lx s)
    (x : Exact E m len lx s) : Exact E m len (lx.peek E).2 s := by
  unfold Lexer.peek
  split
  · exact x
  · exact bufferNext_exact ok a x

theorem peek_cases_x (ok : ScanOK E m len) (hp : PassOK E) {c : Bool} {lx : Lx} {s : PState}
    (a : AbsB E m len c lx s) :
    (∃ lxp, lx.peek E = (none, lxp) ∧ AbsB E m len c lxp s ∧ s.pop = none) ∨
    (∃ lxp r s' lx', lx.peek E = (some r.tok, lxp) ∧ AbsB E m len c lxp s ∧ s.pop = some (r, s') ∧
      lxp.next E = (some r.tok, lx') ∧ AbsB E m len true lx' s') := by
  have hx := fun hc => peek_exact ok a.1 (a.2 hc)
  rcases peek_cases ok hp a.1 with ⟨lxp, hpe, ap, hpop⟩ | ⟨lxp, r, s', lx', hpe, ap, hpop, hn, a'⟩
  · rw [hpe] at hx
    exact Or.inl ⟨lxp, hpe, ⟨ap, hx⟩, hpop⟩
  · rw [hpe] at hx
    exact Or.inr ⟨lxp, r, s', lx', hpe, ⟨ap, hx⟩, hpop, hn, a', fun _ => next_exact ok ap hpop hn⟩

/-- `set_filter` in an exact state: the buffer is dropped and re-filled from the same
cursor under the new filter; the reference state just changes its filter. -/
theorem setFilter_exact (ok : ScanOK E m len) (hp : PassOK E) {lx : Lx} {s : PState}
    (a : AbsB E m len true lx s) (f : Option Nat) :
    (lx.setFilter E f).1 = s.filter ∧ AbsB E m len true (lx.setFilter E f).2 { s with filter := f } := by
  obtain ⟨a, x⟩ := a
  have x := x rfl
  refine ⟨a.filter.symm, ?_⟩
  have inv0 : Inv E m len f ({ lx with filter := f, buffer := none } : Lx) :=
    ⟨a.inv.hmet, a.inv.hlen, rfl, a.inv.ps_le, a.inv.ts, fun _ h => nomatch h⟩
  have a0 : Abs E m len ({ lx with filter := f, buffer := none } : Lx) { s with filter := f } := by
    refine ⟨inv0, ?_, a.term⟩
    show s.rest.dropWhile (fun r => !keeps f r.tok) =
      (rawAt E m len lx.scanner lx.cursor).dropWhile (fun r => !keepOf E f r.tok)
    rw [x.rest, nkeeps_fun hp]
  have x0 : Exact E m len ({ lx with filter := f, buffer := none } : Lx) { s with filter := f } :=
    ⟨x.consumed, x.rest⟩
  exact ⟨abs_bufferNext ok a0, fun _ => bufferNext_exact ok a0 x0⟩

/-- `into_sublexer`: the reference evaluator drops the leading rejected tokens. -/
theorem intoSublexer_abs (ok : ScanOK E m len) {lx : Lx} {s : PState} (a : Abs E m len lx s) :
    Abs E m len (lx.intoSublexer E) s.skipFiltered := by
  have inv0 : Inv E m len s.filter ({ lx with parseStart := lx.cursor, tokenStart := lx.cursor } : Lx) :=
    ⟨a.inv.hmet, a.inv.hlen, a.inv.hfil, Nat.le_refl _, fun _ => rfl, a.inv.buf⟩
  have a0 : Abs E m len ({ lx with parseStart := lx.cursor, tokenStart := lx.cursor } : Lx) s.skipFiltered := by
    refine ⟨inv0, ?_, a.term⟩
    show (s.rest.dropWhile (fun r => !keeps s.filter r.tok)).dropWhile (fun r => !keeps s.filter r.tok) = _
    rw [dropWhile_idem]
    exact a.rest
  exact abs_bufferNext ok a0

/-! ### the simulation relation, generic in the state relation -/

/-- `PegRefine.Sim` with the relation between the resulting lexer and reference state a parameter. -/
def SimG (A : Lx → PState → Prop) (r : RRes) (p : PRes) : Prop :=
  match r with
  | .ok v lx' => ∃ s', p = .ok v s' ∧ A lx' s'
  | .err _ => p = .fail
  | .fuel => True
  | .panic => False

/-- `SimG` without the value. -/
def SimVG (A : Lx → PState → Prop) (r : RRes) (p : PRes) : Prop :=
  match r with
  | .ok _ lx' => ∃ v' s', p = .ok v' s' ∧ A lx' s'
  | .err _ => p = .fail
  | .fuel => True
  | .panic => False

section Generic
variable {A A1 A2 B : Lx → PState → Prop}

theorem SimG.cases {x : RRes × World} {p : PRes} (h : SimG A x.1 p) :
    (∃ v lx' W' s', x = (.ok v lx', W') ∧ p = .ok v s' ∧ A lx' s') ∨
    (∃ e W', x = (.err e, W') ∧ p = .fail) ∨ (∃ W', x = (.fuel, W')) := by
  obtain ⟨r, W'⟩ := x
  cases r with
  | ok v lx' =>
    obtain ⟨s', hp, ha⟩ := h
    exact Or.inl ⟨v, lx', W', s', rfl, hp, ha⟩
  | err e => exact Or.inr (Or.inl ⟨e, W', rfl, h⟩)
  | fuel => exact Or.inr (Or.inr ⟨W', rfl⟩)
  | panic => exact h.elim

theorem SimVG.cases {x : RRes × World} {p : PRes} (h : SimVG A x.1 p) :
    (∃ v lx' W' v' s', x = (.ok v lx', W') ∧ p = .ok v' s' ∧ A lx' s') ∨
    (∃ e W', x = (.err e, W') ∧ p = .fail) ∨ (∃ W', x = (.fuel, W')) := by
  obtain ⟨r, W'⟩ := x
  cases r with
  | ok v lx' =>
    obtain ⟨v', s', hp, ha⟩ := h
    exact Or.inl ⟨v, lx', W', v', s', rfl, hp, ha⟩
  | err e => exact Or.inr (Or.inl ⟨e, W', rfl, h⟩)
  | fuel => exact Or.inr (Or.inr ⟨W', rfl⟩)
  | panic => exact h.elim

theorem SimG.mono {r : RRes} {p : PRes} (hAB : ∀ lx s, A lx s → B lx s) (h : SimG A r p) : SimG B r p := by
  cases r with
  | ok v lx' => obtain ⟨s', hp, ha⟩ := h; exact ⟨s', hp, hAB _ _ ha⟩
  | err e => exact h
  | fuel => trivial
  | panic => exact h.elim

theorem SimG.toV {r : RRes} {p : PRes} (h : SimG A r p) : SimVG A r p := by
  cases r with
  | ok v lx' => obtain ⟨s', hp, ha⟩ := h; exact ⟨v, s', hp, ha⟩
  | err e => exact h
  | fuel => trivial
  | panic => exact h.elim

theorem SimVG.triv {r : RRes} {p : PRes} (h : SimVG A r p) : SimVG (fun _ _ => True) r p := by
  cases r with
  | ok v lx' => obtain ⟨v', s', hp, _⟩ := h; exact ⟨v', s', hp, trivial⟩
  | err e => exact h
  | fuel => trivial
  | panic => exact h.elim

syntax "simg_done" : tactic
macro_rules
  | `(tactic| simg_done) => `(tactic| first | exact ⟨_, rfl, by assumption⟩ | rfl | trivial)

theorem step_empty {n k lx ctx W s} (a : A lx s) :
    SimG A (run R (n + 1) .empty lx ctx W).1 (peg R.text (k + 1) .empty s) := by
  simp only [run, peg]
  exact ⟨s, rfl, a⟩

theorem step_map {n k a lx ctx W s}
    (h1 : SimG A (run R n a lx ctx W).1 (peg R.text k a s)) :
    SimG A (run R (n + 1) (.map a) lx ctx W).1 (peg R.text (k + 1) (.map a) s) := by
  simp only [run, peg]
  rcases h1.cases with ⟨v1, lx1, W1, s1, hr, hp, ha⟩ | ⟨e, W1, hr, hp⟩ | ⟨W1, hr⟩
  · rw [hr, hp]; simg_done
  · rw [hr, hp]; simg_done
  · rw [hr]; simg_done

theorem step_someOf {n k a lx ctx W s}
    (h1 : SimG A (run R n a lx ctx W).1 (peg R.text k a s)) :
    SimG A (run R (n + 1) (.someOf a) lx ctx W).1 (peg R.text (k + 1) (.someOf a) s) := by
  simp only [run, peg]
  rcases h1.cases with ⟨v1, lx1, W1, s1, hr, hp, ha⟩ | ⟨e, W1, hr, hp⟩ | ⟨W1, hr⟩
  · rw [hr, hp]; simg_done
  · rw [hr, hp]; simg_done
  · rw [hr]; simg_done

theorem step_discard {n k a lx ctx W s}
    (h1 : SimG A (run R n a lx ctx W).1 (peg R.text k a s)) :
    SimG A (run R (n + 1) (.discard a) lx ctx W).1 (peg R.text (k + 1) (.discard a) s) := by
  simp only [run, peg]
  rcases h1.cases with ⟨v1, lx1, W1, s1, hr, hp, ha⟩ | ⟨e, W1, hr, hp⟩ | ⟨W1, hr⟩
  · rw [hr, hp]; simg_done
  · rw [hr, hp]; simg_done
  · rw [hr]; simg_done

theorem step_both {n k a b lx ctx W s}
    (h1 : SimG A (run R n a lx ctx W).1 (peg R.text k a s))
    (h2 : ∀ lx1 s1 W1, A lx1 s1 → SimG B (run R n b lx1 ctx W1).1 (peg R.text k b s1)) :
    SimG B (run R (n + 1) (.both a b) lx ctx W).1 (peg R.text (k + 1) (.both a b) s) := by
  simp only [run, peg]
  rcases h1.cases with ⟨v1, lx1, W1, s1, hr, hp, ha⟩ | ⟨e, W1, hr, hp⟩ | ⟨W1, hr⟩
  · rw [hr, hp]
    simp only [bindOk]
    rcases (h2 lx1 s1 W1 ha).cases with ⟨v2, lx2, W2, s2, hr2, hp2, ha2⟩ | ⟨e, W2, hr2, hp2⟩ | ⟨W2, hr2⟩
    · rw [hr2, hp2]; simg_done
    · rw [hr2, hp2]; simg_done
    · rw [hr2]; simg_done
  · rw [hr, hp]; simg_done
  · rw [hr]; simg_done

theorem step_center {n k a b c lx ctx W s}
    (h1 : SimG A (run R n a lx ctx W).1 (peg R.text k a s))
    (h2 : ∀ lx1 s1 W1, A lx1 s1 → SimG A1 (run R n b lx1 ctx W1).1 (peg R.text k b s1))
    (h3 : ∀ lx1 s1 W1, A1 lx1 s1 → SimG B (run R n c lx1 ctx W1).1 (peg R.text k c s1)) :
    SimG B (run R (n + 1) (.center a b c) lx ctx W).1 (peg R.text (k + 1) (.center a b c) s) := by
  simp only [run, peg]
  rcases h1.cases with ⟨v1, lx1, W1, s1, hr, hp, ha⟩ | ⟨e, W1, hr, hp⟩ | ⟨W1, hr⟩
  · rw [hr, hp]
    simp only [bindOk]
    rcases (h2 lx1 s1 W1 ha).cases with ⟨v2, lx2, W2, s2, hr2, hp2, ha2⟩ | ⟨e, W2, hr2, hp2⟩ | ⟨W2, hr2⟩
    · rw [hr2, hp2]
      simp only []
      rcases (h3 lx2 s2 W2 ha2).cases with ⟨v3, lx3, W3, s3, hr3, hp3, ha3⟩ | ⟨e, W3, hr3, hp3⟩ | ⟨W3, hr3⟩
      · rw [hr3, hp3]; simg_done
      · rw [hr3, hp3]; simg_done
      · rw [hr3]; simg_done
    · rw [hr2, hp2]; simg_done
    · rw [hr2]; simg_done
  · rw [hr, hp]; simg_done
  · rw [hr]; simg_done

theorem step_either {n k a b lx ctx W s}
    (h1 : SimG A (run R n a lx ctx W).1 (peg R.text k a s))
    (h2 : ∀ W1, SimG A (run R n b lx ctx W1).1 (peg R.text k b s)) :
    SimG A (run R (n + 1) (.either a b) lx ctx W).1 (peg R.text (k + 1) (.either a b) s) := by
  simp only [run, peg]
  rcases h1.cases with ⟨v1, lx1, W1, s1, hr, hp, ha⟩ | ⟨e, W1, hr, hp⟩ | ⟨W1, hr⟩
  · rw [hr, hp]; simg_done
  · rw [hr, hp]; exact h2 W1
  · rw [hr]; simg_done

theorem step_maybe {n k a lx ctx W s} (a0 : A lx s)
    (h1 : SimG A (run R n a lx ctx.withoutSink W).1 (peg R.text k a s)) :
    SimG A (run R (n + 1) (.maybe a) lx ctx W).1 (peg R.text (k + 1) (.maybe a) s) := by
  simp only [run, peg]
  rcases h1.cases with ⟨v1, lx1, W1, s1, hr, hp, ha⟩ | ⟨e, W1, hr, hp⟩ | ⟨W1, hr⟩
  · rw [hr, hp]; simg_done
  · rw [hr, hp]; simg_done
  · rw [hr]; simg_done

theorem step_cond {n k flag a lx ctx W s} (a0 : flag = false → A lx s)
    (h1 : flag = true → SimG A (run R n a lx ctx W).1 (peg R.text k a s)) :
    SimG A (run R (n + 1) (.cond flag a) lx ctx W).1 (peg R.text (k + 1) (.cond flag a) s) := by
  simp only [run, peg]
  cases flag
  · simp only [Bool.false_eq_true, if_false]; exact ⟨_, rfl, a0 rfl⟩
  · simp only [if_true]
    rcases (h1 rfl).cases with ⟨v1, lx1, W1, s1, hr, hp, ha⟩ | ⟨e, W1, hr, hp⟩ | ⟨W1, hr⟩
    · rw [hr, hp]; simg_done
    · rw [hr, hp]; simg_done
    · rw [hr]; simg_done

theorem step_requireIf {n k flag a lx ctx W s}
    (h1 : flag = true → SimG A (run R n a lx ctx W).1 (peg R.text k a s))
    (h2 : flag = false → SimG A (run R n (.maybe a) lx ctx W).1 (peg R.text k (.maybe a) s)) :
    SimG A (run R (n + 1) (.requireIf flag a) lx ctx W).1 (peg R.text (k + 1) (.requireIf flag a) s) := by
  simp only [run, peg]
  cases flag
  · simp only [Bool.false_eq_true, if_false]; exact h2 rfl
  · simp only [if_true]
    rcases (h1 rfl).cases with ⟨v1, lx1, W1, s1, hr, hp, ha⟩ | ⟨e, W1, hr, hp⟩ | ⟨W1, hr⟩
    · rw [hr, hp]; simg_done
    · rw [hr, hp]; simg_done
    · rw [hr]; simg_done

theorem step_left {n k a b lx ctx W s}
    (h1 : SimG A (run R n (.both a b) lx ctx W).1 (peg R.text k (.both a b) s)) :
    SimG A (run R (n + 1) (.left a b) lx ctx W).1 (peg R.text k (.left a b) s) := by
  simp only [run]
  rcases h1.cases with ⟨v1, lx1, W1, s1, hr, hp, ha⟩ | ⟨e, W1, hr, hp⟩ | ⟨W1, hr⟩
  · obtain ⟨x, y, rfl, h, _⟩ := peg_both_ok hp
    rw [hr, h]; simg_done
  · rw [hr, (peg_both_fail hp).1]; simg_done
  · rw [hr]; simg_done

theorem step_right {n k a b lx ctx W s}
    (h1 : SimG A (run R n (.both a b) lx ctx W).1 (peg R.text k (.both a b) s)) :
    SimG A (run R (n + 1) (.right a b) lx ctx W).1 (peg R.text k (.right a b) s) := by
  simp only [run]
  rcases h1.cases with ⟨v1, lx1, W1, s1, hr, hp, ha⟩ | ⟨e, W1, hr, hp⟩ | ⟨W1, hr⟩
  · obtain ⟨x, y, rfl, _, h⟩ := peg_both_ok hp
    rw [hr, h]; simg_done
  · rw [hr, (peg_both_fail hp).2]; simg_done
  · rw [hr]; simg_done

/-- `implies`, seen through its inner `maybe`: the consequent is entered in the state the
antecedent left (relation `A1`), a refused antecedent leaves the entry state (`A`). -/
theorem step_implies {n k a b lx ctx W s} (a0 : A lx s) (hAB : ∀ lx s, A lx s → B lx s)
    (h1 : SimG A1 (run R n a lx ctx.withoutSink W).1 (peg R.text k a s))
    (h2 : ∀ lx1 s1 W1, A1 lx1 s1 → SimG B (run R (n + 1) b lx1 ctx W1).1 (peg R.text k b s1)) :
    SimG B (run R (n + 2) (.implies a b) lx ctx W).1 (peg R.text (k + 1) (.implies a b) s) := by
  simp only [run, peg]
  rcases h1.cases with ⟨v1, lx1, W1, s1, hr, hp, ha⟩ | ⟨e, W1, hr, hp⟩ | ⟨W1, hr⟩
  · rw [hr, hp]
    simp only [bindOk]
    rcases (h2 lx1 s1 W1 ha).cases with ⟨v2, lx2, W2, s2, hr2, hp2, ha2⟩ | ⟨e, W2, hr2, hp2⟩ | ⟨W2, hr2⟩
    · rw [hr2, hp2]; simg_done
    · rw [hr2, hp2]; simg_done
    · rw [hr2]; simg_done
  · rw [hr, hp]; exact ⟨_, rfl, hAB _ _ a0⟩
  · rw [hr]; simg_done

theorem step_antecedent {n k a b lx ctx W s}
    (h1 : SimG A (run R n (.implies a b) lx ctx W).1 (peg R.text k (.implies a b) s)) :
    SimG A (run R (n + 1) (.antecedent a b) lx ctx W).1 (peg R.text k (.antecedent a b) s) := by
  simp only [run]
  rcases h1.cases with ⟨v1, lx1, W1, s1, hr, hp, ha⟩ | ⟨e, W1, hr, hp⟩ | ⟨W1, hr⟩
  · rcases peg_implies_ok hp with ⟨rfl, h, _⟩ | ⟨l, r, rfl, h, _⟩
    · rw [hr, h]; simg_done
    · rw [hr, h]; simg_done
  · rw [hr, (peg_implies_fail hp).1]; simg_done
  · rw [hr]; simg_done

theorem step_consequent {n k a b lx ctx W s}
    (h1 : SimG A (run R n (.implies a b) lx ctx W).1 (peg R.text k (.implies a b) s)) :
    SimG A (run R (n + 1) (.consequent a b) lx ctx W).1 (peg R.text k (.consequent a b) s) := by
  simp only [run]
  rcases h1.cases with ⟨v1, lx1, W1, s1, hr, hp, ha⟩ | ⟨e, W1, hr, hp⟩ | ⟨W1, hr⟩
  · rcases peg_implies_ok hp with ⟨rfl, _, h⟩ | ⟨l, r, rfl, _, h⟩
    · rw [hr, h]; simg_done
    · rw [hr, h]; simg_done
  · rw [hr, (peg_implies_fail hp).2]; simg_done
  · rw [hr]; simg_done

theorem step_condImplies {n k a kd b lx ctx W s} (a0 : A lx s) (hAB : ∀ lx s, A lx s → B lx s)
    (hA1B : ∀ lx s, A1 lx s → B lx s)
    (h1 : SimG A1 (run R n a lx ctx.withoutSink W).1 (peg R.text k a s))
    (h2 : ∀ lx1 s1 W1, A1 lx1 s1 → SimG B (run R (n + 1) b lx1 ctx W1).1 (peg R.text k b s1)) :
    SimG B (run R (n + 2) (.condImplies a kd b) lx ctx W).1 (peg R.text (k + 1) (.condImplies a kd b) s) := by
  simp only [run, peg]
  rcases h1.cases with ⟨v1, lx1, W1, s1, hr, hp, ha⟩ | ⟨e, W1, hr, hp⟩ | ⟨W1, hr⟩
  · rw [hr, hp]
    simp only [bindOk]
    cases v1 with
    | tok t =>
      simp only []
      by_cases hk : t.kind == kd
      · simp only [hk, if_true]
        rcases (h2 lx1 s1 W1 ha).cases with ⟨v2, lx2, W2, s2, hr2, hp2, ha2⟩ | ⟨e, W2, hr2, hp2⟩ | ⟨W2, hr2⟩
        · rw [hr2, hp2]; simg_done
        · rw [hr2, hp2]; simg_done
        · rw [hr2]; simg_done
      · simp only [hk, Bool.false_eq_true, if_false]; exact ⟨_, rfl, hA1B _ _ ha⟩
    | _ => simp only [Bool.false_eq_true, if_false]; exact ⟨_, rfl, hA1B _ _ ha⟩
  · rw [hr, hp]; exact ⟨_, rfl, hAB _ _ a0⟩
  · rw [hr]; simg_done

end Generic

/-! ### primitives -/

theorem AbsB.of_true {c : Bool} {lx : Lx} {s : PState} (a : AbsB E m len true lx s) : AbsB E m len c lx s :=
  a.mono (fun _ => rfl)

section Prim
variable (ok : ScanOK R.E m len) (hp : PassOK R.E)
include ok hp

theorem step_one {n k kd lx ctx W s} (a : Abs R.E m len lx s) :
    SimG (AbsB R.E m len true) (run R (n + 1) (.one kd) lx ctx W).1 (peg R.text (k + 1) (.one kd) s) := by
  simp only [run, peg]
  rcases next_cases_x ok hp a with ⟨lx', hn, hpop⟩ | ⟨r, s', lx', hn, hpop, a'⟩
  · rw [hn, hpop]; rfl
  · rw [hn, hpop]
    by_cases hk : r.tok.kind == kd
    · simp only [hk, if_true]
      exact ⟨s', rfl, a'⟩
    · simp only [hk]
      rfl

theorem step_pred {n k pe lx ctx W s} (a : Abs R.E m len lx s) :
    SimG (AbsB R.E m len true) (run R (n + 1) (.pred pe) lx ctx W).1 (peg R.text (k + 1) (.pred pe) s) := by
  simp only [run, peg]
  rcases next_cases_x ok hp a with ⟨lx', hn, hpop⟩ | ⟨r, s', lx', hn, hpop, a'⟩
  · rw [hn, hpop]; rfl
  · rw [hn, hpop]
    by_cases hk : pe.eval r.tok
    · simp only [hk, if_true]
      exact ⟨s', rfl, a'⟩
    · simp only [hk]
      rfl

theorem step_any {n k ks lx ctx W s} (a : Abs R.E m len lx s) (hks : ks.isEmpty = false) :
    SimG (AbsB R.E m len true) (run R (n + 1) (.any ks) lx ctx W).1 (peg R.text (k + 1) (.any ks) s) := by
  simp only [run, peg, hks, Bool.false_eq_true, if_false]
  rcases peek_cases_x ok hp (c := false) ⟨a, fun h => nomatch h⟩ with
    ⟨lxp, hpe, ap, hpop⟩ | ⟨lxp, r, s', lx', hpe, ap, hpop, hn, a'⟩
  · rw [hpe, hpop]; rfl
  · rw [hpe, hpop]
    simp only []
    cases hf : ks.find? (· == r.tok.kind) with
    | none =>
      have : ks.contains r.tok.kind = false := by rw [contains_find, hf]; rfl
      simp only [this]
      rfl
    | some k' =>
      have hk := find_beq hf
      subst hk
      have : ks.contains r.tok.kind = true := by rw [contains_find, hf]; rfl
      simp only [this, if_true, hn]
      exact ⟨s', rfl, a'⟩

theorem step_anyIndex {n k ks lx ctx W s} (a : Abs R.E m len lx s) (hks : ks.isEmpty = false) :
    SimG (AbsB R.E m len true) (run R (n + 1) (.anyIndex ks) lx ctx W).1
      (peg R.text (k + 1) (.anyIndex ks) s) := by
  simp only [run, peg, hks, Bool.false_eq_true, if_false]
  rcases peek_cases_x ok hp (c := false) ⟨a, fun h => nomatch h⟩ with
    ⟨lxp, hpe, ap, hpop⟩ | ⟨lxp, r, s', lx', hpe, ap, hpop, hn, a'⟩
  · rw [hpe, hpop]; rfl
  · rw [hpe, hpop]
    simp only [position]
    cases hf : ks.findIdx? (· == r.tok.kind) with
    | none => rfl
    | some i =>
      simp only [hn]
      exact ⟨s', rfl, a'⟩

theorem seqLoop_sim (es : Span) : ∀ (ks : List Nat) (c : Bool) (lx : Lx) (s : PState) (acc : List Tok),
    AbsB R.E m len c lx s →
    SimG (AbsB R.E m len (c || !ks.isEmpty)) (seqLoop R es ks lx acc) (pegSeq ks s acc) := by
  intro ks
  induction ks with
  | nil => intro c lx s acc a; exact ⟨s, rfl, a.mono (by simp)⟩
  | cons kd ks ih =>
    intro c lx s acc a
    simp only [seqLoop, pegSeq]
    rcases next_cases_x ok hp a.1 with ⟨lx', hn, hpop⟩ | ⟨r, s', lx', hn, hpop, a'⟩
    · rw [hn, hpop]; rfl
    · rw [hn, hpop]
      by_cases hk : r.tok.kind == kd
      · simp only [hk, if_true]
        exact (ih true lx' s' _ a').mono (fun _ _ h => AbsB.of_true (h.mono (by simp)))
      · simp only [hk]
        rfl

theorem step_seq {n k ks c lx ctx W s} (a : AbsB R.E m len c lx s) :
    SimG (AbsB R.E m len (c || !ks.isEmpty)) (run R (n + 1) (.seq ks) lx ctx W).1
      (peg R.text (k + 1) (.seq ks) s) := by
  simp only [run, peg]
  exact seqLoop_sim ok hp _ ks c lx s [] a

theorem seqCountLoop_sim (es : Span) : ∀ (ks : List Nat) (c : Bool) (lx : Lx) (s : PState) (cnt : Nat),
    AbsB R.E m len c lx s → SimG (AbsB R.E m len c) (seqCountLoop R es ks lx cnt) (pegSeqCount ks s cnt) := by
  intro ks
  induction ks with
  | nil => intro c lx s cnt a; exact ⟨s, rfl, a⟩
  | cons kd ks ih =>
    intro c lx s cnt a
    simp only [seqCountLoop, pegSeqCount]
    by_cases hemp : lx.isEmpty = true
    · obtain ⟨h1, h2⟩ := isEmpty_abs ok a.1 hemp
      simp only [hemp, if_true, h1, h2]
      exact ⟨s, rfl, a⟩
    · simp only [hemp, Bool.false_eq_true, if_false]
      rcases peek_cases_x ok hp a with ⟨lxp, hpe, ap, hpop⟩ | ⟨lxp, r, s', lx', hpe, ap, hpop, hn, a'⟩
      · rw [hpe, hpop]
        simp only []
        have := next_none_end ok ap.1 hpop
        rcases term_cases s.term with ht | ht
        · simp only [this.mpr ht, if_true, ht]
          exact ⟨s, rfl, ap⟩
        · have he : ¬ (lxp.next R.E).2.isEmpty = true := by
            intro h; rw [this.mp h] at ht; cases ht
          simp only [he, ht]
          rfl
      · rw [hpe, hpop]
        simp only []
        by_cases hk : r.tok.kind == kd
        · simp only [hk, if_true, hn]
          exact (ih true lx' s' _ a').mono (fun _ _ h => AbsB.of_true h)
        · simp only [hk]
          exact ⟨s, rfl, ap⟩

theorem step_seqCount {n k ks c lx ctx W s} (a : AbsB R.E m len c lx s) :
    SimG (AbsB R.E m len c) (run R (n + 1) (.seqCount ks) lx ctx W).1 (peg R.text (k + 1) (.seqCount ks) s) := by
  simp only [run, peg]
  exact seqCountLoop_sim ok hp _ ks c lx s 0 a

theorem step_endOfText {n k c lx ctx W s} (a : AbsB R.E m len c lx s) :
    SimG (AbsB R.E m len c) (run R (n + 1) .endOfText lx ctx W).1 (peg R.text (k + 1) .endOfText s) := by
  simp only [run, peg]
  rcases peek_cases_x ok hp a with ⟨lxp, hpe, ap, hpop⟩ | ⟨lxp, r, s', lx', hpe, ap, hpop, hn, a'⟩
  · rw [hpe]
    simp only []
    have := next_none_end ok ap.1 hpop
    have hv := view_nil_of_pop_none hpop
    simp only [hv, List.isEmpty_nil, Bool.true_and]
    rcases term_cases s.term with ht | ht
    · simp only [this.mpr ht, if_true, ht]
      exact ⟨s, rfl, ap⟩
    · have he : ¬ (lxp.next R.E).2.isEmpty = true := by
        intro h; rw [this.mp h] at ht; cases ht
      simp only [he, ht]
      rfl
  · rw [hpe]
    have hv := view_ne_nil_of_pop_some hpop
    have : s.view.isEmpty = false := by
      cases h : s.view with
      | nil => exact absurd h hv
      | cons _ _ => rfl
    simp only [this, Bool.false_and]
    rfl

/-! ### filter scopes and `sub` -/

theorem step_filterWith {n k mask a lx ctx W s} (a0 : AbsB R.E m len true lx s)
    (h1 : ∀ lx1 s1, AbsB R.E m len true lx1 s1 →
      SimG (AbsB R.E m len true) (run R n a lx1 ctx W).1 (peg R.text k a s1)) :
    SimG (AbsB R.E m len true) (run R (n + 1) (.filterWith mask a) lx ctx W).1
      (peg R.text (k + 1) (.filterWith mask a) s) := by
  simp only [run, peg]
  obtain ⟨hold, ab⟩ := setFilter_exact ok hp a0 (some mask)
  rcases hsf : lx.setFilter R.E (some mask) with ⟨old, lx1⟩
  rw [hsf] at hold ab
  simp only at hold ab ⊢
  subst hold
  rcases (h1 lx1 _ ab).cases with ⟨v1, lx2, W1, s1, hr, hpg, ha⟩ | ⟨e, W1, hr, hpg⟩ | ⟨W1, hr⟩
  · rw [hr, hpg]
    simp only [bindOk]
    exact ⟨_, rfl, (setFilter_exact ok hp ha s.filter).2⟩
  · rw [hr, hpg]; rfl
  · rw [hr]; trivial

theorem step_unfiltered {n k a lx ctx W s} (a0 : AbsB R.E m len true lx s)
    (h1 : ∀ lx1 s1, AbsB R.E m len true lx1 s1 →
      SimG (AbsB R.E m len true) (run R n a lx1 ctx W).1 (peg R.text k a s1)) :
    SimG (AbsB R.E m len true) (run R (n + 1) (.unfiltered a) lx ctx W).1
      (peg R.text (k + 1) (.unfiltered a) s) := by
  simp only [run, peg]
  obtain ⟨hold, ab⟩ := setFilter_exact ok hp a0 none
  rcases hsf : lx.setFilter R.E none with ⟨old, lx1⟩
  rw [hsf] at hold ab
  simp only at hold ab ⊢
  subst hold
  rcases (h1 lx1 _ ab).cases with ⟨v1, lx2, W1, s1, hr, hpg, ha⟩ | ⟨e, W1, hr, hpg⟩ | ⟨W1, hr⟩
  · rw [hr, hpg]
    simp only [bindOk]
    exact ⟨_, rfl, (setFilter_exact ok hp ha s.filter).2⟩
  · rw [hr, hpg]; rfl
  · rw [hr]; trivial

omit hp in
theorem step_sub {B : Lx → PState → Prop} {n k a lx ctx W s} (a0 : Abs R.E m len lx s)
    (h1 : ∀ lx1 s1, AbsB R.E m len false lx1 s1 → SimG B (run R n a lx1 ctx W).1 (peg R.text k a s1)) :
    SimG B (run R (n + 1) (.sub a) lx ctx W).1 (peg R.text (k + 1) (.sub a) s) := by
  simp only [run, peg]
  exact h1 _ _ ⟨intoSublexer_abs ok a0, fun h => nomatch h⟩

end Prim

/-! ### repetition, generic in the relation (it is an invariant of the loops) -/

section RepG
variable {A : Lx → PState → Prop}

theorem sepItem_sim {j k a sepR sepP lx ctx W s}
    (hs : SimVG A (run R j sepR lx ctx W).1 (peg R.text k sepP s))
    (ha : ∀ lx1 s1 W1, A lx1 s1 → SimG A (run R j a lx1 ctx W1).1 (peg R.text k a s1)) :
    SimG A (sepItem R (j + 1) a sepR lx ctx W).1
      (bindOk (peg R.text k sepP s) fun _ s1 => peg R.text k a s1) := by
  simp only [sepItem]
  rcases hs.cases with ⟨v1, lx1, W1, v1', s1, hr, hp, h1⟩ | ⟨e, W1, hr, hp⟩ | ⟨W1, hr⟩
  · rw [hr, hp]; exact ha lx1 s1 W1 h1
  · rw [hr, hp]; simg_done
  · rw [hr]; simg_done

/-- "`gR` run with fuel `i ≤ N` agrees with `gP` evaluated with fuel `k ≥ 2 i`". -/
def ItemOK (R : RunEnv) (A : Lx → PState → Prop) (N : Nat) (gR gP : G) (rel : RRes → PRes → Prop) : Prop :=
  ∀ i k, i ≤ N → 2 * i ≤ k → ∀ lx s ctx W, A lx s → rel (run R i gR lx ctx W).1 (peg R.text k gP s)

section Rep
variable {N lo : Nat} {hi : Option Nat} {a sepR sepP st : G} {ctx : Ctx}
variable (hA : ItemOK R A N a a (SimG A)) (hS : ItemOK R A N sepR sepP (SimVG A))
variable (hlh : hiBelow hi lo = false)
include hA hS hlh

omit hlh in
theorem sepItem_ok {j k lx W s} (hj : j ≤ N + 1) (hk : 2 * j ≤ k + 2) (a0 : A lx s) :
    SimG A (sepItem R j a sepR lx ctx W).1
      (bindOk (peg R.text k sepP s) fun _ s1 => peg R.text k a s1) := by
  cases j with
  | zero => simp only [sepItem]; trivial
  | succ i =>
    exact sepItem_sim (hS i k (by omega) (by omega) lx s ctx W a0)
      (fun lx1 s1 W1 a1 => hA i k (by omega) (by omega) lx1 s1 ctx W1 a1)

theorem interLoop_sim : ∀ j, j ≤ N + 1 → ∀ j', 2 * j + 1 ≤ j' → ∀ vals lx s W, vals ≠ [] →
    A lx s →
    SimG A (interLoop R j lo hi a sepR vals lx ctx W).1
      (pegRepLoop R.text j' lo hi none a sepP vals s) := by
  intro j
  induction j with
  | zero => intro _ j' _ vals lx s W _ _; simp only [interLoop]; trivial
  | succ j ih =>
    intro hj j' hj' vals lx s W hne a0
    obtain ⟨j'', rfl⟩ : ∃ x, j' = x + 1 := ⟨j' - 1, by omega⟩
    have hsi := fun W => sepItem_ok (j := j) (k := j'') (lx := lx) (W := W) (s := s) (ctx := ctx)
      hA hS (by omega) (by omega) a0
    have hemp : vals.isEmpty = false := by cases vals <;> simp_all
    simp only [interLoop, pegRepLoop, hemp, Bool.false_eq_true, if_false]
    by_cases hlt : vals.length < lo
    · simp only [hlt, if_true, allows_of_lt hlh hlt, Bool.not_true, Bool.false_eq_true, if_false]
      rcases (hsi W).cases with ⟨v1, lx1, W1, s1, hr, hp, h1⟩ | ⟨e, W1, hr, hp⟩ | ⟨W1, hr⟩
      · rw [hr, hp]; exact ih (by omega) j'' (by omega) _ lx1 s1 W1 (by simp) h1
      · rw [hr, hp]; simg_done
      · rw [hr]; simg_done
    · simp only [hlt, if_false, hiAllows_eq]
      cases hall : Spec.hiAllows hi vals.length
      · simp only [Bool.false_eq_true, if_false, Bool.not_false, if_true]
        exact ⟨s, rfl, a0⟩
      · simp only [if_true, Bool.not_true, Bool.false_eq_true, if_false]
        rcases (hsi W).cases with ⟨v1, lx1, W1, s1, hr, hp, h1⟩ | ⟨e, W1, hr, hp⟩ | ⟨W1, hr⟩
        · rw [hr, hp]
          simp only [hiReached_eq]
          cases hre : Spec.hiAllows hi (vals.length + 1)
          · simp only [Bool.not_false, if_true]
            obtain ⟨x, rfl⟩ : ∃ x, j'' = x + 1 := ⟨j'' - 1, by omega⟩
            rw [pegRepLoop_full (by simpa using hre)]
            exact ⟨s1, rfl, h1⟩
          · simp only [Bool.not_true, Bool.false_eq_true, if_false]
            exact ih (by omega) j'' (by omega) _ lx1 s1 W1 (by simp) h1
        · rw [hr, hp]; exact ⟨s, rfl, a0⟩
        · rw [hr]; simg_done


theorem interLoopStart_sim {n k lx W s} (hn : n ≤ N + 1) (hk : 2 * n + 1 ≤ k) (a0 : A lx s) :
    SimG A (interLoopStart R n lo hi a sepR lx ctx W).1 (pegRep R.text k lo hi none a sepP s) := by
  cases n with
  | zero => simp only [interLoopStart]; trivial
  | succ n =>
    obtain ⟨k, rfl⟩ : ∃ x, k = x + 2 := ⟨k - 2, by omega⟩
    simp only [interLoopStart, pegRep, hlh, Bool.false_eq_true, if_false]
    by_cases h0 : hi = some 0
    · subst h0
      simp only [beq_self_eq_true, if_true]
      exact ⟨s, rfl, a0⟩
    · have h0' : (hi == some 0) = false := by simpa using h0
      have hall : Spec.hiAllows hi 0 = true := by
        cases hi with
        | none => rfl
        | some x =>
          have : x ≠ 0 := by intro e; exact h0 (by rw [e])
          simp [Spec.hiAllows]; omega
      simp only [h0', Bool.false_eq_true, if_false, pegRepLoop, List.length_nil, hall, Bool.not_true,
        List.isEmpty_nil, if_true]
      rcases (hA n k (by omega) (by omega) lx s ctx W a0).cases with
        ⟨v1, lx1, W1, s1, hr, hp, h1⟩ | ⟨e, W1, hr, hp⟩ | ⟨W1, hr⟩
      · rw [hr, hp]
        exact interLoop_sim hA hS hlh n (by omega) k (by omega) _ lx1 s1 W1 (by simp) h1
      · rw [hr, hp]
        simp only []
        cases lo with
        | zero => simp only [beq_self_eq_true, if_true, Nat.lt_irrefl, if_false]; exact ⟨s, rfl, a0⟩
        | succ l => simp only [Nat.zero_lt_succ, if_true]; simg_done
      · rw [hr]; simg_done


section Until
variable (hT : ItemOK R A N st st (SimVG (fun _ _ => True)))
include hT

theorem untilLoop_sim : ∀ j, j ≤ N + 1 → ∀ j', 2 * j + 1 ≤ j' → ∀ vals lx s W, vals ≠ [] →
    A lx s →
    SimG A (untilLoop R j lo hi st a sepR vals lx ctx W).1
      (pegRepLoop R.text j' lo hi (some st) a sepP vals s) := by
  intro j
  induction j with
  | zero => intro _ j' _ vals lx s W _ _; simp only [untilLoop]; trivial
  | succ j ih =>
    intro hj j' hj' vals lx s W hne a0
    obtain ⟨j'', rfl⟩ : ∃ x, j' = x + 1 := ⟨j' - 1, by omega⟩
    have hsi := fun W => sepItem_ok (j := j) (k := j'') (lx := lx) (W := W) (s := s) (ctx := ctx)
      hA hS (by omega) (by omega) a0
    have hst := hT j j'' (by omega) (by omega) lx s ctx W a0
    have hemp : vals.isEmpty = false := by cases vals <;> simp_all
    simp only [untilLoop, pegRepLoop, hemp, Bool.false_eq_true, if_false]
    by_cases hlt : vals.length < lo
    · simp only [hlt, if_true, allows_of_lt hlh hlt, Bool.not_true, Bool.false_eq_true, if_false]
      rcases hst.cases with ⟨v0, lx0, W0, v0', s0, hr0, hp0, _⟩ | ⟨e0, W0, hr0, hp0⟩ | ⟨W0, hr0⟩
      · rw [hr0, hp0]; exact ⟨s, rfl, a0⟩
      · rw [hr0, hp0]
        simp only [Bool.false_eq_true, if_false]
        rcases (hsi W0).cases with ⟨v1, lx1, W1, s1, hr, hp, h1⟩ | ⟨e, W1, hr, hp⟩ | ⟨W1, hr⟩
        · rw [hr, hp]; exact ih (by omega) j'' (by omega) _ lx1 s1 W1 (by simp) h1
        · rw [hr, hp]; simg_done
        · rw [hr]; simg_done
      · rw [hr0]; simg_done
    · simp only [hlt, if_false, hiAllows_eq]
      cases hall : Spec.hiAllows hi vals.length
      · simp only [Bool.false_eq_true, if_false, Bool.not_false, if_true]
        exact ⟨s, rfl, a0⟩
      · simp only [if_true, Bool.not_true, Bool.false_eq_true, if_false]
        rcases hst.cases with ⟨v0, lx0, W0, v0', s0, hr0, hp0, _⟩ | ⟨e0, W0, hr0, hp0⟩ | ⟨W0, hr0⟩
        · rw [hr0, hp0]; exact ⟨s, rfl, a0⟩
        · rw [hr0, hp0]
          simp only [Bool.false_eq_true, if_false]
          rcases (hsi W0).cases with ⟨v1, lx1, W1, s1, hr, hp, h1⟩ | ⟨e, W1, hr, hp⟩ | ⟨W1, hr⟩
          · rw [hr, hp]
            simp only [hiReached_eq]
            cases hre : Spec.hiAllows hi (vals.length + 1)
            · simp only [Bool.not_false, if_true]
              obtain ⟨x, rfl⟩ : ∃ x, j'' = x + 1 := ⟨j'' - 1, by omega⟩
              rw [pegRepLoop_full (by simpa using hre)]
              exact ⟨s1, rfl, h1⟩
            · simp only [Bool.not_true, Bool.false_eq_true, if_false]
              exact ih (by omega) j'' (by omega) _ lx1 s1 W1 (by simp) h1
          · rw [hr, hp]; exact ⟨s, rfl, a0⟩
          · rw [hr]; simg_done
        · rw [hr0]; simg_done

theorem untilStart_sim {n k lx W s} (hn : n ≤ N + 1) (hk : 2 * n + 1 ≤ k) (a0 : A lx s) :
    SimG A (untilStart R n lo hi st a sepR lx ctx W).1 (pegRep R.text k lo hi (some st) a sepP s) := by
  cases n with
  | zero => simp only [untilStart]; trivial
  | succ n =>
    obtain ⟨k, rfl⟩ : ∃ x, k = x + 2 := ⟨k - 2, by omega⟩
    simp only [untilStart, pegRep, hlh, Bool.false_eq_true, if_false]
    by_cases h0 : hi = some 0
    · subst h0
      simp only [beq_self_eq_true, if_true]
      exact ⟨s, rfl, a0⟩
    · have h0' : (hi == some 0) = false := by simpa using h0
      have hall : Spec.hiAllows hi 0 = true := by
        cases hi with
        | none => rfl
        | some x =>
          have : x ≠ 0 := by intro e; exact h0 (by rw [e])
          simp [Spec.hiAllows]; omega
      simp only [h0', Bool.false_eq_true, if_false, pegRepLoop, List.length_nil, hall, Bool.not_true,
        List.isEmpty_nil, if_true]
      rcases (hT n k (by omega) (by omega) lx s ctx W a0).cases with
        ⟨v0, lx0, W0, v0', s0, hr0, hp0, _⟩ | ⟨e0, W0, hr0, hp0⟩ | ⟨W0, hr0⟩
      · rw [hr0, hp0]; exact ⟨s, rfl, a0⟩
      · rw [hr0, hp0]
        simp only [Bool.false_eq_true, if_false]
        rcases (hA n k (by omega) (by omega) lx s ctx W0 a0).cases with
          ⟨v1, lx1, W1, s1, hr, hp, h1⟩ | ⟨e, W1, hr, hp⟩ | ⟨W1, hr⟩
        · rw [hr, hp]
          exact untilLoop_sim hA hS hlh hT n (by omega) k (by omega) _ lx1 s1 W1 (by simp) h1
        · rw [hr, hp]
          simp only []
          cases lo with
          | zero => simp only [beq_self_eq_true, if_true, Nat.lt_irrefl, if_false]; exact ⟨s, rfl, a0⟩
          | succ l => simp only [Nat.zero_lt_succ, if_true]; simg_done
        · rw [hr]; simg_done
      · rw [hr0]; simg_done

end Until

end Rep


theorem countOf_sim {v : Nat} {x : RRes × World} {p : PRes} (h : SimG A x.1 p) :
    SimG A (countOf v x).1 (countOfP v p) := by
  simp only [countOf, countOfP]
  by_cases hv : (v == 0) = true
  · simp only [hv, if_true]; exact h
  · simp only [hv, Bool.false_eq_true, if_false]
    rcases h.cases with ⟨v1, lx1, W1, s1, hr, hp, h1⟩ | ⟨e, W1, hr, hp⟩ | ⟨W1, hr⟩
    · rw [hr, hp]
      cases v1 <;> simg_done
    · rw [hr, hp]; simg_done
    · rw [hr]; simg_done

theorem discard_simV {i g lx ctx W p} (h : SimG A (run R i g lx ctx W).1 p) :
    SimVG A (run R (i + 1) (.discard g) lx ctx W).1 p := by
  simp only [run]
  rcases h.cases with ⟨v1, lx1, W1, s1, hr, hp, h1⟩ | ⟨e, W1, hr, hp⟩ | ⟨W1, hr⟩
  · rw [hr]; exact ⟨v1, s1, hp, h1⟩
  · rw [hr]; exact hp
  · rw [hr]; trivial

end RepG

theorem sepDefault_ok (ok : ScanOK R.E m len) (hp : PassOK R.E) (c : Bool) (N kd : Nat) :
    ItemOK R (AbsB R.E m len c) N (.discard (.one kd)) (.one kd) (SimVG (AbsB R.E m len c)) := by
  intro i k _ hk lx s ctx W a
  cases i with
  | zero => simp only [run]; trivial
  | succ i =>
    cases i with
    | zero => simp only [run]; trivial
    | succ i =>
      obtain ⟨k, rfl⟩ : ∃ x, k = x + 1 := ⟨k - 1, by omega⟩
      exact discard_simV ((step_one ok hp a.1).mono (fun _ _ h => AbsB.of_true h))

/-! ### the fragment -/

/-- The flag "a token has been consumed in the current (sub-)parse and the relation is exact"
after a success of `g` that was entered with the flag `c`. -/
def out : Bool → G → Bool
  | _, .one _ | _, .any _ | _, .anyIndex _ | _, .pred _ => true
  | c, .seq ks => c || !ks.isEmpty
  | c, .left a b | c, .right a b | c, .both a b => out (out c a) b
  | c, .center a b d => out (out (out c a) b) d
  | c, .map a | c, .discard a | c, .someOf a => out c a
  | c, .either a b => out c a && out c b
  | c, .maybe a => c && out c a
  | c, .requireIf flag a => if flag then out c a else c && out c a
  | c, .cond flag a => if flag then out c a else c
  | c, .implies a b | c, .antecedent a b | c, .consequent a b => c && out (out c a) b
  | c, .condImplies a _ b => c && out c a && out (out c a) b
  | c, .filterWith _ a | c, .unfiltered a => out c a
  | _, .sub a => out false a
  | c, .repeat_ _ _ _ a | c, .repeatUntil _ _ _ _ a | c, .intersperseDefault _ _ a _ => c && out c a
  | c, .intersperse _ _ _ a sp | c, .intersperseUntil _ _ _ _ a sp => c && out c a && out c sp
  | c, _ => c

/-- The fragment, relative to the entry flag `c`: `pegWithRep`, plus `filter_with` / `unfiltered`
where the flag is set (their body must leave it set), plus `sub` (its body is entered with the flag
cleared: `sub` restarts the parse span).  The right operand of a sequencing combinator is checked with
the flag its left operand leaves; the parsers of a repetition with the flag that is invariant in the loop. -/
def scopedG : Bool → G → Bool
  | _, .empty | _, .one _ | _, .seq _ | _, .seqCount _ | _, .pred _ | _, .endOfText => true
  | _, .any ks | _, .anyIndex ks => !ks.isEmpty
  | c, .left a b | c, .right a b | c, .both a b => scopedG c a && scopedG (out c a) b
  | c, .center a b d => scopedG c a && scopedG (out c a) b && scopedG (out (out c a) b) d
  | c, .map a | c, .discard a | c, .maybe a | c, .requireIf _ a | c, .cond _ a | c, .someOf a => scopedG c a
  | c, .either a b => scopedG c a && scopedG c b
  | c, .implies a b | c, .antecedent a b | c, .consequent a b => scopedG c a && scopedG (out c a) b
  | c, .condImplies a _ b => scopedG c a && scopedG (out c a) b
  | c, .filterWith _ a | c, .unfiltered a => c && scopedG true a && out true a
  | _, .sub a => scopedG false a
  | c, .repeat_ _ lo hi a => !hiBelow hi lo && scopedG (c && out c a) a
  | c, .repeatUntil _ lo hi st a => !hiBelow hi lo && scopedG (c && out c a) st && scopedG (c && out c a) a
  | c, .intersperse _ lo hi a sp =>
    !hiBelow hi lo && scopedG (c && out c a && out c sp) a && scopedG (c && out c a && out c sp) sp
  | c, .intersperseUntil _ lo hi st a sp =>
    !hiBelow hi lo && scopedG (c && out c a && out c sp) st && scopedG (c && out c a && out c sp) a &&
      scopedG (c && out c a && out c sp) sp
  | c, .intersperseDefault lo hi a _ => !hiBelow hi lo && scopedG (c && out c a) a
  | _, _ => false

/-- `C06_scoped`'s fragment: filter scopes only where a token has certainly been consumed
in the same (sub-)parse. -/
def pegScoped (g : G) : Bool := scopedG false g

theorem loop_flag1 {c : Bool} {o : Bool → Bool} (h : (c && o c) = true) : o (c && o c) = true := by
  cases c <;> simp_all

theorem loop_flag2 {c : Bool} {o1 o2 : Bool → Bool} (h : (c && o1 c && o2 c) = true) :
    o1 (c && o1 c && o2 c) = true ∧ o2 (c && o1 c && o2 c) = true := by
  cases c <;> simp_all

/-! ### the simulation -/

theorem scoped_sim (ok : ScanOK R.E m len) (hp : PassOK R.E) :
    ∀ N n, n ≤ N → ∀ k, 2 * n ≤ k → ∀ g c lx s ctx W, scopedG c g = true → AbsB R.E m len c lx s →
      SimG (AbsB R.E m len (out c g)) (run R n g lx ctx W).1 (peg R.text k g s) := by
  intro N
  induction N with
  | zero =>
    intro n hn k _ g c lx s ctx W _ _
    obtain rfl : n = 0 := by omega
    simp only [run]; trivial
  | succ n ihN =>
    intro n0 hn k hk g c lx s ctx W hg a
    by_cases hlt : n0 ≤ n
    · exact ihN n0 hlt k hk g c lx s ctx W hg a
    obtain rfl : n0 = n + 1 := by omega
    have item : ∀ (J : Bool) g, scopedG J g = true → (J = true → out J g = true) →
        ItemOK R (AbsB R.E m len J) n g g (SimG (AbsB R.E m len J)) :=
      fun J g hg ho i k hi hk lx s ctx W a =>
        (ihN i hi k hk g J lx s ctx W hg a).mono (fun _ _ h => h.mono ho)
    have itemV : ∀ (J : Bool) g, scopedG J g = true → (J = true → out J g = true) →
        ItemOK R (AbsB R.E m len J) n g g (SimVG (AbsB R.E m len J)) :=
      fun J g hg ho i k hi hk lx s ctx W a => (item J g hg ho i k hi hk lx s ctx W a).toV
    have hE : ∀ J : Bool, J = true → out J .empty = true := fun J h => by simpa only [out] using h
    have ih := fun k hk => ihN n (Nat.le_refl n) k hk
    obtain ⟨k, rfl⟩ : ∃ k', k = k' + 1 := ⟨k - 1, by omega⟩
    have hk' : 2 * n ≤ k := by omega
    have hk1 : 2 * n ≤ k + 1 := by omega
    have hk2 : 2 * n + 1 ≤ k := by omega
    cases g with
    | empty => simp only [out]; exact step_empty a
    | one kd => simp only [out]; exact step_one ok hp a.1
    | any ks => simp only [out]; exact step_any ok hp a.1 (by simpa [scopedG] using hg)
    | anyIndex ks => simp only [out]; exact step_anyIndex ok hp a.1 (by simpa [scopedG] using hg)
    | seq ks => simp only [out]; exact step_seq ok hp a
    | seqCount ks => simp only [out]; exact step_seqCount ok hp a
    | pred pe => simp only [out]; exact step_pred ok hp a.1
    | endOfText => simp only [out]; exact step_endOfText ok hp a
    | left x y =>
      simp only [scopedG, Bool.and_eq_true] at hg
      have := ih (k + 1) hk1 (.both x y) c lx s ctx W (by simp [scopedG, hg]) a
      simp only [out] at this ⊢
      exact step_left this
    | right x y =>
      simp only [scopedG, Bool.and_eq_true] at hg
      have := ih (k + 1) hk1 (.both x y) c lx s ctx W (by simp [scopedG, hg]) a
      simp only [out] at this ⊢
      exact step_right this
    | both x y =>
      simp only [scopedG, Bool.and_eq_true] at hg
      simp only [out]
      exact step_both (ih k hk' x c lx s ctx W hg.1 a)
        (fun lx1 s1 W1 a1 => ih k hk' y (out c x) lx1 s1 ctx W1 hg.2 a1)
    | center x y z =>
      simp only [scopedG, Bool.and_eq_true] at hg
      simp only [out]
      exact step_center (ih k hk' x c lx s ctx W hg.1.1 a)
        (fun lx1 s1 W1 a1 => ih k hk' y (out c x) lx1 s1 ctx W1 hg.1.2 a1)
        (fun lx1 s1 W1 a1 => ih k hk' z (out (out c x) y) lx1 s1 ctx W1 hg.2 a1)
    | map x => simp only [out]; exact step_map (ih k hk' x c lx s ctx W hg a)
    | discard x => simp only [out]; exact step_discard (ih k hk' x c lx s ctx W hg a)
    | someOf x => simp only [out]; exact step_someOf (ih k hk' x c lx s ctx W hg a)
    | either x y =>
      simp only [scopedG, Bool.and_eq_true] at hg
      simp only [out]
      exact step_either
        ((ih k hk' x c lx s ctx W hg.1 a).mono (fun _ _ h => h.mono (by simp; intro h1 _; exact h1)))
        (fun W1 => (ih k hk' y c lx s ctx W1 hg.2 a).mono (fun _ _ h => h.mono (by simp)))
    | maybe x =>
      simp only [scopedG] at hg
      simp only [out]
      exact step_maybe (a.mono (by simp; intro h1 _; exact h1))
        ((ih k hk' x c lx s _ W hg a).mono (fun _ _ h => h.mono (by simp)))
    | requireIf flag x =>
      simp only [scopedG] at hg
      cases flag
      · have := ih k hk' (.maybe x) c lx s ctx W hg a
        simp only [out, Bool.false_eq_true, if_false] at this ⊢
        exact step_requireIf (fun h => nomatch h) (fun _ => this)
      · simp only [out, if_true]
        exact step_requireIf (fun _ => ih k hk' x c lx s ctx W hg a) (fun h => nomatch h)
    | cond flag x =>
      simp only [scopedG] at hg
      cases flag
      · simp only [out, Bool.false_eq_true, if_false]
        exact step_cond (fun _ => a) (fun h => nomatch h)
      · simp only [out, if_true]
        exact step_cond (fun h => nomatch h) (fun _ => ih k hk' x c lx s ctx W hg a)
    | implies x y =>
      simp only [scopedG, Bool.and_eq_true] at hg
      simp only [out]
      cases n with
      | zero => simp only [run]; trivial
      | succ n' =>
        exact step_implies (A := AbsB R.E m len c) (A1 := AbsB R.E m len (out c x)) a
          (fun _ _ h => h.mono (by simp; intro h1 _; exact h1))
          (ihN n' (by omega) k (by omega) x c lx s _ W hg.1 a)
          (fun lx1 s1 W1 a1 => (ih k hk' y (out c x) lx1 s1 ctx W1 hg.2 a1).mono
            (fun _ _ h => h.mono (by simp)))
    | antecedent x y =>
      simp only [scopedG, Bool.and_eq_true] at hg
      have := ih (k + 1) hk1 (.implies x y) c lx s ctx W (by simp [scopedG, hg]) a
      simp only [out] at this ⊢
      exact step_antecedent this
    | consequent x y =>
      simp only [scopedG, Bool.and_eq_true] at hg
      have := ih (k + 1) hk1 (.implies x y) c lx s ctx W (by simp [scopedG, hg]) a
      simp only [out] at this ⊢
      exact step_consequent this
    | condImplies x kd y =>
      simp only [scopedG, Bool.and_eq_true] at hg
      simp only [out]
      cases n with
      | zero => simp only [run]; trivial
      | succ n' =>
        exact step_condImplies (A := AbsB R.E m len c) (A1 := AbsB R.E m len (out c x)) a
          (fun _ _ h => h.mono (by simp; intro h1 _ _; exact h1))
          (fun _ _ h => h.mono (by simp; intro _ h1 _; exact h1))
          (ihN n' (by omega) k (by omega) x c lx s _ W hg.1 a)
          (fun lx1 s1 W1 a1 => (ih k hk' y (out c x) lx1 s1 ctx W1 hg.2 a1).mono
            (fun _ _ h => h.mono (by simp)))
    | filterWith mask x =>
      simp only [scopedG, Bool.and_eq_true] at hg
      obtain ⟨⟨rfl, hx⟩, ho⟩ := hg
      simp only [out, ho]
      refine step_filterWith ok hp a (fun lx1 s1 a1 => ?_)
      have := ih k hk' x true lx1 s1 ctx W hx a1
      rw [ho] at this
      exact this
    | unfiltered x =>
      simp only [scopedG, Bool.and_eq_true] at hg
      obtain ⟨⟨rfl, hx⟩, ho⟩ := hg
      simp only [out, ho]
      refine step_unfiltered ok hp a (fun lx1 s1 a1 => ?_)
      have := ih k hk' x true lx1 s1 ctx W hx a1
      rw [ho] at this
      exact this
    | sub x =>
      simp only [scopedG] at hg
      simp only [out]
      exact step_sub ok a.1 (fun lx1 s1 a1 => ih k hk' x false lx1 s1 ctx W hg a1)
    | repeat_ v lo hi x =>
      simp only [scopedG, Bool.and_eq_true, Bool.not_eq_true'] at hg
      simp only [run, peg, out]
      exact countOf_sim (interLoopStart_sim (item _ x hg.2 (loop_flag1 (o := fun c => out c x)))
        (itemV _ .empty rfl (hE _)) hg.1 (Nat.le_succ n) hk2 (a.mono (by simp; intro h1 _; exact h1)))
    | intersperse v lo hi x sp =>
      simp only [scopedG, Bool.and_eq_true, Bool.not_eq_true'] at hg
      simp only [run, peg, out]
      exact countOf_sim (interLoopStart_sim
        (item _ x hg.1.2 (fun h => (loop_flag2 (o1 := fun c => out c x) (o2 := fun c => out c sp) h).1))
        (itemV _ sp hg.2 (fun h => (loop_flag2 (o1 := fun c => out c x) (o2 := fun c => out c sp) h).2))
        hg.1.1 (Nat.le_succ n) hk2 (a.mono (by simp; intro h1 _ _; exact h1)))
    | intersperseDefault lo hi x sepk =>
      simp only [scopedG, Bool.and_eq_true, Bool.not_eq_true'] at hg
      simp only [run, peg, out]
      exact interLoopStart_sim (item _ x hg.2 (loop_flag1 (o := fun c => out c x)))
        (sepDefault_ok ok hp _ n sepk) hg.1 (Nat.le_succ n) hk2 (a.mono (by simp; intro h1 _; exact h1))
    | repeatUntil v lo hi st x =>
      simp only [scopedG, Bool.and_eq_true, Bool.not_eq_true'] at hg
      simp only [run, peg, out]
      exact countOf_sim (untilStart_sim (item _ x hg.2 (loop_flag1 (o := fun c => out c x)))
        (itemV _ .empty rfl (hE _)) hg.1.1
        (fun i k hi hk lx s ctx W a => (ihN i hi k hk st _ lx s ctx W hg.1.2 a).toV.triv)
        (Nat.le_succ n) hk2 (a.mono (by simp; intro h1 _; exact h1)))
    | intersperseUntil v lo hi st x sp =>
      simp only [scopedG, Bool.and_eq_true, Bool.not_eq_true'] at hg
      simp only [run, peg, out]
      exact countOf_sim (untilStart_sim
        (item _ x hg.1.2 (fun h => (loop_flag2 (o1 := fun c => out c x) (o2 := fun c => out c sp) h).1))
        (itemV _ sp hg.2 (fun h => (loop_flag2 (o1 := fun c => out c x) (o2 := fun c => out c sp) h).2))
        hg.1.1.1
        (fun i k hi hk lx s ctx W a => (ihN i hi k hk st _ lx s ctx W hg.1.1.2 a).toV.triv)
        (Nat.le_succ n) hk2 (a.mono (by simp; intro h1 _ _; exact h1)))
    | _ => simp [scopedG] at hg

/-! ### the fragment extends `pegWithRep`; the flag only helps -/

theorem withRep_scoped : ∀ (g : G) (c : Bool), pegWithRep g = true → scopedG c g = true := by
  intro g
  induction g <;> intro c h <;> simp only [pegWithRep, Bool.and_eq_true, Bool.false_eq_true] at h <;>
    simp only [scopedG, Bool.and_eq_true] <;> grind

theorem out_mono : ∀ (g : G) {c c' : Bool}, (c = true → c' = true) → out c g = true → out c' g = true := by
  intro g
  induction g <;> intro c c' h <;> simp only [out] <;> try exact h
  all_goals grind

theorem scopedG_mono : ∀ (g : G) {c c' : Bool}, (c = true → c' = true) → scopedG c g = true →
    scopedG c' g = true := by
  intro g
  induction g <;> intro c c' h <;> simp only [scopedG, Bool.and_eq_true] <;> try exact id
  all_goals grind [out_mono]

/-! ### witnesses (evaluated) -/

namespace Witness
open PegRefine.Witness

def rVal : RRes → Option Val
  | .ok v _ => some v
  | _ => none

def pVal : PRes → Option Val
  | .ok v _ => some v
  | _ => none

/-- kinds of the raw tokens left in the reference state, and its filter -/
def pRest : PRes → Option (List Nat × Option Nat)
  | .ok _ s => some (s.rest.map (·.tok.kind), s.filter)
  | _ => none

def isFailP : PRes → Bool
  | .fail => true
  | _ => false

/-- `both(one(a), unfiltered(one(ws)))`: the filter scope is entered after `a` was consumed. -/
def gS : G := .both (.one 0) (.unfiltered (.one 12))

theorem gS_scoped : pegScoped gS = true := by decide

set_option maxRecDepth 4000 in
/-- on `a ws b` with the whitespace filter the model delivers `(a, ws)` … -/
theorem runS : rVal (run RW 5 gS lxW ctxW World.init).1 = some (.pair (.tok ⟨0, 0⟩) (.tok ⟨12, 0⟩)) := by
  simp [rVal, run, gS, lxW, ctxW, RW, EW, scanW, mW, Lexer.withFilter, Lexer.setFilter, Lexer.new,
    Lexer.bufferNext, Lexer.bufferLoop, Lexer.next, Lexer.filtered, passesMask, classOf, Pos.zero]

/-- … and so does the reference evaluator, leaving `b` under the restored filter. -/
theorem pegS : pVal (peg RW.text 10 gS sW) = some (.pair (.tok ⟨0, 0⟩) (.tok ⟨12, 0⟩)) ∧
    pRest (peg RW.text 10 gS sW) = some ([1], some 1) := by
  constructor <;> rfl

/-- No filter installed. -/
def sN : PState := ⟨rawW, .eot, none⟩

theorem absN : Abs EW mW 3 (Lexer.new 0 mW 3) sN := by
  have := abs_new (E := EW) (m := mW) (len := 3) 0 passW
  rw [rawW_eq] at this
  exact this

/-- Why the body of a filter scope must leave the flag set (`out true a`): in
`both(one(a), both(filter_with(ws-filter, sub(empty)), one(ws)))` the scope is entered after `a`
was consumed, but its body ends with an empty sub-parse, so the filter is *restored* at a parse start.
`sub` on a lexer that holds a lookahead (`b`, buffered when the filter was installed) does not skip
the whitespace, the reference `sub` drops it: the model accepts, the reference evaluator fails. -/
def gT : G := .both (.one 0) (.both (.filterWith 1 (.sub .empty)) (.one 12))

theorem gT_not_scoped : scopedG true gT = false := by decide

theorem pegT : isFailP (peg RW.text 12 gT sN) = true := by rfl

set_option maxRecDepth 4000 in
theorem runT : rVal (run RW 6 gT (Lexer.new 0 mW 3) ctxW World.init).1 =
    some (.pair (.tok ⟨0, 0⟩) (.pair .unit (.tok ⟨12, 0⟩))) := by
  simp [rVal, run, gT, ctxW, RW, EW, scanW, mW, Lexer.setFilter, Lexer.new, Lexer.intoSublexer,
    Lexer.startSublex, Lexer.bufferNext, Lexer.bufferLoop, Lexer.next, Lexer.nextLoop, Lexer.filtered,
    passesMask, classOf, Pos.zero]

/-- Why the body of `sub` is checked with the flag cleared: `sub` entered with a buffered lookahead
(`seq_count` has peeked `b`) does not skip the whitespace, the reference `sub` drops it; an `unfiltered`
directly inside then sees different streams. -/
def gU : G := .both (.one 0) (.both (.seqCount [5]) (.sub (.unfiltered (.one 12))))

theorem gU_not_scoped : scopedG true gU = false := by decide

theorem pegU : isFailP (peg RW.text 12 gU sW) = true := by rfl

set_option maxRecDepth 4000 in
theorem runU : rVal (run RW 6 gU lxW ctxW World.init).1 =
    some (.pair (.tok ⟨0, 0⟩) (.pair (.count 0) (.tok ⟨12, 0⟩))) := by
  simp [rVal, run, seqCountLoop, gU, lxW, ctxW, RW, EW, scanW, mW, Lexer.withFilter, Lexer.setFilter, Lexer.new,
    Lexer.intoSublexer, Lexer.startSublex, Lexer.peek, Lexer.isEmpty, Lexer.bufferNext, Lexer.bufferLoop,
    Lexer.next, Lexer.filtered, passesMask, classOf, Pos.zero]

end Witness

end PegScoped
end Tephra
