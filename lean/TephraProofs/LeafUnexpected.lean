/-
  TephraProofs.LeafUnexpected — C13, the unexpected-token clauses for the
  primitive leaves `one`, `any`, `any_index`, `seq`, `pred`, `end_of_text`.

  For a lexer related (`PegRefine.Abs`) to a state `s` of the reference
  evaluator: when a leaf fails with `UnexpectedToken { es, ts, exp, found }`,
  `found = Token t` means `t` is the first kept token of the stream the leaf
  could not accept (`s.pop`; for `seq ks` the first kept token after the
  matching prefix, `seqStop ks s`), `ts` is exactly that token's span, `es` is
  the parse span before the call and ends at or before the token's start;
  `found = EndOfText` means no kept token remains.
-/
import TephraProofs.RunMatchers
import TephraProofs.PegAbs

set_option linter.unusedVariables false

namespace Tephra
open Tephra.Spec

namespace LeafErr
open LexIter PegRefine

variable {R : RunEnv} {m : Metrics} {len : Nat}

theorem parseSpan_eq {f} {lx : Lx} (inv : Inv R.E m len f lx) : lx.parseSpan = ⟨lx.parseStart, lx.cursor⟩ :=
  LexIter.enclosing_le inv.ps_le

theorem next_some_info (ok : ScanOK R.E m len) (hp : PassOK R.E) {lx : Lx} {s : PState}
    (a : Abs R.E m len lx s) {t : Tok} {lx' : Lx} (e : lx.next R.E = (some t, lx')) :
    ∃ r s', s.pop = some (r, s') ∧ r.tok = t ∧ Abs R.E m len lx' s' ∧ lx'.tokenSpan = ⟨r.start, r.stop⟩ ∧
      lx.cursor.byte ≤ r.start.byte ∧ lx.cursor.byte ≤ lx'.cursor.byte := by
  rcases next_cases ok hp a with ⟨lx1, e1, _⟩ | ⟨r, s', lx1, e1, hpop, a', hts⟩
  · rw [e] at e1; cases e1
  · rw [e] at e1; cases e1
    obtain ⟨post, h1, _⟩ := pop_some_iff.mp hpop
    rw [a.rest] at h1
    obtain ⟨lx2, e2, _, _, h3, _, _, h6, h7, _⟩ := (next_spec ok a.inv).2 r post h1
    rw [e] at e2; cases e2
    exact ⟨r, s', hpop, rfl, a', hts, h6, by rw [h3]; omega⟩

theorem next_none_info (ok : ScanOK R.E m len) (hp : PassOK R.E) {lx : Lx} {s : PState}
    (a : Abs R.E m len lx s) {lx' : Lx} (e : lx.next R.E = (none, lx')) : s.pop = none := by
  rcases next_cases ok hp a with ⟨lx1, e1, h⟩ | ⟨r, s', lx1, e1, _⟩
  · exact h
  · rw [e] at e1; cases e1

theorem peek_buffer {lx lx' : Lx} {t : Tok} (e : lx.peek R.E = (some t, lx')) :
    ∃ b, lx'.buffer = some b ∧ b.token = t := by
  unfold Lexer.peek at e
  split at e
  · cases e
  · simp only [Prod.mk.injEq] at e
    obtain ⟨e1, e2⟩ := e
    subst e2
    cases hb : (lx.bufferNext R.E).buffer with
    | none => rw [hb] at e1; simp at e1
    | some b => rw [hb] at e1; exact ⟨b, rfl, by simpa using e1⟩

theorem peek_some_info (ok : ScanOK R.E m len) (hp : PassOK R.E) {lx : Lx} {s : PState}
    (a : Abs R.E m len lx s) {t : Tok} {lx' : Lx} (e : lx.peek R.E = (some t, lx')) :
    ∃ r s', s.pop = some (r, s') ∧ r.tok = t ∧ lx'.peekTokenSpan = some ⟨r.start, r.stop⟩ ∧
      lx.cursor.byte ≤ r.start.byte := by
  rcases peek_cases ok hp a with ⟨lxp, e1, _⟩ | ⟨lxp, r, s', lx1, e1, ap, hpop, _, _⟩
  · rw [e] at e1; cases e1
  · rw [e] at e1; cases e1
    obtain ⟨b, hb, _⟩ := peek_buffer e
    obtain ⟨post, h1, _⟩ := pop_some_iff.mp hpop
    have h1' := h1
    rw [a.rest] at h1
    obtain ⟨_, _, _, _, _, _, _, h6, _, _⟩ := (next_spec ok a.inv).2 r post h1
    rw [ap.rest] at h1'
    obtain ⟨g1, _, g3, _⟩ := ap.inv.buf b hb
    rw [g1] at h1'
    cases h1'
    refine ⟨_, s', hpop, rfl, ?_, h6⟩
    unfold Lexer.peekTokenSpan
    rw [hb]
    simp only [Option.bind_some]
    rw [if_neg (by intro h; rw [h] at g3; omega), LexIter.enclosing_le (by omega)]

theorem peek_none_info (ok : ScanOK R.E m len) (hp : PassOK R.E) {lx : Lx} {s : PState}
    (a : Abs R.E m len lx s) {lx' : Lx} (e : lx.peek R.E = (none, lx')) : s.pop = none := by
  rcases peek_cases ok hp a with ⟨lxp, e1, _, h⟩ | ⟨lxp, r, s', lx1, e1, _⟩
  · exact h
  · rw [e] at e1; cases e1

/-- What an `UnexpectedToken { es, ts, .., found }` error of a leaf run on `lx`
(related to `s`) says about the state `s1` at which the leaf stopped. -/
def Unexp (lx : Lx) (s1 : PState) (es ts : Span) (found : Found) : Prop :=
  es = lx.parseSpan ∧
  (∀ t, found = .token t → ∃ r s', s1.pop = some (r, s') ∧ r.tok = t ∧ ts = ⟨r.start, r.stop⟩ ∧
    es.e.byte ≤ ts.s.byte) ∧
  (found = .eot → s1.pop = none)

theorem one_unexpected (ok : ScanOK R.E m len) (hp : PassOK R.E) {lx : Lx} {s : PState}
    (a : Abs R.E m len lx s) (n k : Nat) (ctx : Ctx) (W : World) {es ts : Span} {exp : Expected} {found : Found}
    (h : (run R (n + 1) (.one k) lx ctx W).1 = .err ⟨[], .unexp es ts exp found⟩) :
    Unexp lx s es ts found ∧ exp = .token k ∧ ∀ t, found = .token t → (t.kind == k) = false := by
  simp only [run] at h
  split at h
  · next t lx' e =>
    obtain ⟨r, s', hpop, rfl, _, hts, hle, _⟩ := next_some_info ok hp a e
    split at h
    · simp at h
    · next hk =>
      simp only [mkErr, RRes.err.injEq, PErr.mk.injEq, ErrBody.unexp.injEq, true_and] at h
      obtain ⟨rfl, rfl, rfl, rfl⟩ := h
      refine ⟨⟨rfl, ?_, by simp⟩, rfl, ?_⟩
      · intro t ht; cases ht
        exact ⟨r, s', hpop, rfl, hts, by rw [hts, parseSpan_eq a.inv]; exact hle⟩
      · intro t ht; cases ht; simpa using hk
  · next lx' e =>
    simp only [mkErr, RRes.err.injEq, PErr.mk.injEq, ErrBody.unexp.injEq, true_and] at h
    obtain ⟨rfl, rfl, rfl, rfl⟩ := h
    exact ⟨⟨rfl, by simp, fun _ => next_none_info ok hp a e⟩, rfl, by simp⟩

theorem pred_unexpected (ok : ScanOK R.E m len) (hp : PassOK R.E) {lx : Lx} {s : PState}
    (a : Abs R.E m len lx s) (n : Nat) (p : PE) (ctx : Ctx) (W : World) {es ts : Span} {exp : Expected}
    {found : Found}
    (h : (run R (n + 1) (.pred p) lx ctx W).1 = .err ⟨[], .unexp es ts exp found⟩) :
    Unexp lx s es ts found ∧ exp = .other ∧ ∀ t, found = .token t → p.eval t = false := by
  simp only [run] at h
  split at h
  · next lx' e =>
    simp only [mkErr, RRes.err.injEq, PErr.mk.injEq, ErrBody.unexp.injEq, true_and] at h
    obtain ⟨rfl, rfl, rfl, rfl⟩ := h
    exact ⟨⟨rfl, by simp, fun _ => next_none_info ok hp a e⟩, rfl, by simp⟩
  · next t lx' e =>
    obtain ⟨r, s', hpop, rfl, _, hts, hle, _⟩ := next_some_info ok hp a e
    split at h
    · simp at h
    · next hk =>
      simp only [mkErr, RRes.err.injEq, PErr.mk.injEq, ErrBody.unexp.injEq, true_and] at h
      obtain ⟨rfl, rfl, rfl, rfl⟩ := h
      refine ⟨⟨rfl, ?_, by simp⟩, rfl, ?_⟩
      · intro t ht; cases ht
        exact ⟨r, s', hpop, rfl, hts, by rw [hts, parseSpan_eq a.inv]; exact hle⟩
      · intro t ht; cases ht; simpa using hk

theorem any_unexpected (ok : ScanOK R.E m len) (hp : PassOK R.E) {lx : Lx} {s : PState}
    (a : Abs R.E m len lx s) (n : Nat) (ks : List Nat) (ctx : Ctx) (W : World) {es ts : Span} {exp : Expected}
    {found : Found}
    (h : (run R (n + 1) (.any ks) lx ctx W).1 = .err ⟨[], .unexp es ts exp found⟩) :
    Unexp lx s es ts found ∧ exp = .tokens ks ∧ ∀ t, found = .token t → ks.find? (· == t.kind) = none := by
  simp only [run] at h
  split at h
  · simp at h
  split at h
  · next t lx' e =>
    obtain ⟨r, s', hpop, rfl, hpts, hle⟩ := peek_some_info ok hp a e
    split at h
    · simp at h
    · next hk =>
      simp only [mkErr, hpts, Option.getD_some, RRes.err.injEq, PErr.mk.injEq, ErrBody.unexp.injEq, true_and] at h
      obtain ⟨rfl, rfl, rfl, rfl⟩ := h
      refine ⟨⟨rfl, ?_, by simp⟩, rfl, ?_⟩
      · intro t ht; cases ht
        exact ⟨r, s', hpop, rfl, rfl, by rw [parseSpan_eq a.inv]; exact hle⟩
      · intro t ht; cases ht; exact hk
  · next lx' e =>
    simp only [mkErr, RRes.err.injEq, PErr.mk.injEq, ErrBody.unexp.injEq, true_and] at h
    obtain ⟨rfl, rfl, rfl, rfl⟩ := h
    exact ⟨⟨rfl, by simp, fun _ => peek_none_info ok hp a e⟩, rfl, by simp⟩

theorem anyIndex_unexpected (ok : ScanOK R.E m len) (hp : PassOK R.E) {lx : Lx} {s : PState}
    (a : Abs R.E m len lx s) (n : Nat) (ks : List Nat) (ctx : Ctx) (W : World) {es ts : Span} {exp : Expected}
    {found : Found}
    (h : (run R (n + 1) (.anyIndex ks) lx ctx W).1 = .err ⟨[], .unexp es ts exp found⟩) :
    Unexp lx s es ts found ∧ exp = .tokens ks ∧ ∀ t, found = .token t → position ks t.kind = none := by
  simp only [run] at h
  split at h
  · simp at h
  split at h
  · next t lx' e =>
    obtain ⟨r, s', hpop, rfl, hpts, hle⟩ := peek_some_info ok hp a e
    split at h
    · simp at h
    · next hk =>
      simp only [mkErr, hpts, Option.getD_some, RRes.err.injEq, PErr.mk.injEq, ErrBody.unexp.injEq, true_and] at h
      obtain ⟨rfl, rfl, rfl, rfl⟩ := h
      refine ⟨⟨rfl, ?_, by simp⟩, rfl, ?_⟩
      · intro t ht; cases ht
        exact ⟨r, s', hpop, rfl, rfl, by rw [parseSpan_eq a.inv]; exact hle⟩
      · intro t ht; cases ht; exact hk
  · next lx' e =>
    simp only [mkErr, RRes.err.injEq, PErr.mk.injEq, ErrBody.unexp.injEq, true_and] at h
    obtain ⟨rfl, rfl, rfl, rfl⟩ := h
    exact ⟨⟨rfl, by simp, fun _ => peek_none_info ok hp a e⟩, rfl, by simp⟩

/-- `end_of_text` never reports `found = EndOfText` in an `UnexpectedToken`
(a stream that stops early is `UnrecognizedToken`). -/
theorem endOfText_unexpected (ok : ScanOK R.E m len) (hp : PassOK R.E) {lx : Lx} {s : PState}
    (a : Abs R.E m len lx s) (n : Nat) (ctx : Ctx) (W : World) {es ts : Span} {exp : Expected}
    {found : Found}
    (h : (run R (n + 1) .endOfText lx ctx W).1 = .err ⟨[], .unexp es ts exp found⟩) :
    Unexp lx s es ts found ∧ exp = .eot ∧ ∃ t, found = .token t := by
  simp only [run] at h
  split at h
  · next t lx' e =>
    obtain ⟨r, s', hpop, rfl, hpts, hle⟩ := peek_some_info ok hp a e
    simp only [mkErr, hpts, Option.getD_some, RRes.err.injEq, PErr.mk.injEq, ErrBody.unexp.injEq, true_and] at h
    obtain ⟨rfl, rfl, rfl, rfl⟩ := h
    refine ⟨⟨rfl, ?_, by simp⟩, rfl, _, rfl⟩
    intro t ht; cases ht
    exact ⟨r, s', hpop, rfl, rfl, by rw [parseSpan_eq a.inv]; exact hle⟩
  · split at h
    · simp at h
    · simp [mkErr] at h

/-- The state at which greedy `seq ks` stops on `s`: the kinds still to match
and the state whose first kept token is the one that did not match (or that
has no kept token left).  `([], _)` = everything matched. -/
def seqStop : List Nat → PState → List Nat × PState
  | [], s => ([], s)
  | k :: ks, s =>
    match s.pop with
    | some (r, s') => if r.tok.kind == k then seqStop ks s' else (k :: ks, s)
    | none => (k :: ks, s)

theorem seqLoop_unexpected (ok : ScanOK R.E m len) (hp : PassOK R.E) (es0 : Span) (c : Nat) (ks : List Nat)
    (lx : Lx) (s : PState) (acc : List Tok) (a : Abs R.E m len lx s) (hc : c ≤ lx.cursor.byte)
    {es ts : Span} {exp : Expected} {found : Found}
    (h : seqLoop R es0 ks lx acc = .err ⟨[], .unexp es ts exp found⟩) :
    es = es0 ∧ ∃ k' rest, (seqStop ks s).1 = k' :: rest ∧ exp = .token k' ∧
      (∀ t, found = .token t → ∃ r s', (seqStop ks s).2.pop = some (r, s') ∧ r.tok = t ∧
        (t.kind == k') = false ∧ ts = ⟨r.start, r.stop⟩ ∧ c ≤ ts.s.byte) ∧
      (found = .eot → (seqStop ks s).2.pop = none) := by
  induction ks generalizing lx s acc with
  | nil => simp [seqLoop] at h
  | cons k ks ih =>
    simp only [seqLoop] at h
    split at h
    · next t lx' e =>
      obtain ⟨r, s', hpop, rfl, a', hts, hle, hmono⟩ := next_some_info ok hp a e
      split at h
      · next hk =>
        have := ih lx' s' _ a' (by omega) h
        simpa only [seqStop, hpop, hk, if_true] using this
      · next hk =>
        simp only [mkErr, RRes.err.injEq, PErr.mk.injEq, ErrBody.unexp.injEq, true_and] at h
        obtain ⟨rfl, rfl, rfl, rfl⟩ := h
        refine ⟨rfl, k, ks, by simp [seqStop, hpop, hk], rfl, ?_, by simp⟩
        intro t ht; cases ht
        refine ⟨r, s', by simp [seqStop, hpop, hk], rfl, by simpa using hk, hts, ?_⟩
        rw [hts]; show c ≤ r.start.byte; omega
    · next lx' e =>
      have hpop := next_none_info ok hp a e
      simp only [mkErr, RRes.err.injEq, PErr.mk.injEq, ErrBody.unexp.injEq, true_and] at h
      obtain ⟨rfl, rfl, rfl, rfl⟩ := h
      exact ⟨rfl, k, ks, by simp [seqStop, hpop], rfl, by simp, fun _ => by simp [seqStop, hpop]⟩

theorem seq_unexpected (ok : ScanOK R.E m len) (hp : PassOK R.E) {lx : Lx} {s : PState}
    (a : Abs R.E m len lx s) (n : Nat) (ks : List Nat) (ctx : Ctx) (W : World) {es ts : Span} {exp : Expected}
    {found : Found}
    (h : (run R (n + 1) (.seq ks) lx ctx W).1 = .err ⟨[], .unexp es ts exp found⟩) :
    Unexp lx (seqStop ks s).2 es ts found ∧ ∃ k' rest, (seqStop ks s).1 = k' :: rest ∧ exp = .token k' ∧
      ∀ t, found = .token t → (t.kind == k') = false := by
  simp only [run] at h
  obtain ⟨rfl, k', rest, h1, h2, h3, h4⟩ :=
    seqLoop_unexpected ok hp lx.parseSpan lx.cursor.byte ks lx s [] a (Nat.le_refl _) h
  refine ⟨⟨rfl, ?_, h4⟩, k', rest, h1, h2, ?_⟩
  · intro t ht
    obtain ⟨r, s', g1, g2, _, g4, g5⟩ := h3 t ht
    exact ⟨r, s', g1, g2, g4, by rw [parseSpan_eq a.inv]; exact g5⟩
  · intro t ht
    obtain ⟨r, s', _, _, g3, _⟩ := h3 t ht
    exact g3

/-- the six primitive leaves -/
def isLeaf : G → Bool
  | .one _ | .any _ | .anyIndex _ | .seq _ | .pred _ | .endOfText => true
  | _ => false

/-- the state whose first kept token a failing leaf reports -/
def leafStop : G → PState → PState
  | .seq ks, s => (seqStop ks s).2
  | _, s => s

theorem leaf_unexpected (ok : ScanOK R.E m len) (hp : PassOK R.E) {lx : Lx} {s : PState}
    (a : Abs R.E m len lx s) (n : Nat) (g : G) (hg : isLeaf g = true) (ctx : Ctx) (W : World) {es ts : Span}
    {exp : Expected} {found : Found}
    (h : (run R (n + 1) g lx ctx W).1 = .err ⟨[], .unexp es ts exp found⟩) :
    Unexp lx (leafStop g s) es ts found := by
  cases g
  case one k => exact (one_unexpected ok hp a _ _ _ _ h).1
  case any ks => exact (any_unexpected ok hp a _ _ _ _ h).1
  case anyIndex ks => exact (anyIndex_unexpected ok hp a _ _ _ _ h).1
  case seq ks => exact (seq_unexpected ok hp a _ _ _ _ h).1
  case pred p => exact (pred_unexpected ok hp a _ _ _ _ h).1
  case endOfText => exact (endOfText_unexpected ok hp a _ _ _ h).1
  all_goals simp [isLeaf] at hg

end LeafErr
end Tephra
