/-
  `previous_position` / `previous_line_end_position` of a window, for every start
  column (after the repair of finding F13c in ef86ab4: a result on the window's first
  line is re-measured from the window's start position).
-/
import TephraProofs.Window

set_option linter.unusedSimpArgs false
set_option linter.unusedSectionVars false
set_option linter.unusedVariables false

namespace Tephra.LinesPf
open Tephra.Spec

/-- canonical position in a document whose first line has number `l0` -/
abbrev cf (m : Metrics) (l0 : Nat) (x : Text) : Pos := canonFrom m ⟨0, l0, 0⟩ x

theorem cf_eq (m : Metrics) (l0 : Nat) (x : Text) :
    cf m l0 x = ⟨bytes x, l0 + ((linesOf m x).length - 1), colWidth m.tab 0 (curLinePre m x)⟩ := by
  simp only [cf, canonFrom, curLinePre]
  split <;> simp

theorem cf_nil (m : Metrics) (l0 : Nat) : cf m l0 [] = ⟨0, l0, 0⟩ := by simp [cf]

theorem canonFrom_col_endsBreak {m : Metrics} {x : Text} (p : Pos) (hwf : Text.WF x)
    (h : EndsBreak m x) : (canonFrom m p x).col = 0 := by
  obtain ⟨u, B, rfl, hB⟩ := h
  have hb : breakAt m B = some [] := by simpa using breakAt_of_map (m := m) [] hB
  rw [canonFrom_append m u B p hwf (aligned_of_starts_break hb),
    canonFrom_break (Text.WF_append.mp hwf).2 hb]
  simp

theorem aligned_of_pre0 {m : Metrics} {pre0 : Text} (h : pre0 = [] ∨ EndsBreak m pre0) (y : Text) :
    aligned m pre0 y = true := by
  rcases h with rfl | ⟨u, B, rfl, hB⟩
  · simp
  · exact aligned_of_ends_break hB

theorem endPosition_cut {m : Metrics} {x y : Text} {p : Pos} (hwf : Text.WF (x ++ y))
    (hp : p.byte = bytes x) : endPosition m (x ++ y) p = .ok (canonFrom m p y) := by
  obtain ⟨hw1, hw2⟩ := Text.WF_append.mp hwf
  unfold endPosition
  split
  · rename_i h
    have : y = [] := bytes_eq_zero hw2 (by simp [hp] at h; omega)
    subst this; simp
  · simp [hp, splitAtByte_append y hw1, endSuf_eq_canonFrom m p y hw2]

theorem breakBefore_split {m : Metrics} {pre r : Text} (h : breakBefore m pre.reverse = some r) :
    ∃ u B, pre = u ++ B ∧ B.map (·.code) = lbCodes m ∧ B.length = lbLen m ∧ r = u.reverse := by
  obtain ⟨h1, h2⟩ := stripCodes_append h
  refine ⟨r.reverse, (pre.reverse.take (lbCodes m).reverse.length).reverse, ?_, ?_, ?_, by simp⟩
  · have := congrArg List.reverse h1
    simpa using this
  · rw [List.map_reverse, h2]; simp
  · have := congrArg List.length h2
    simp only [List.length_map, List.length_reverse] at this
    simp only [List.length_reverse, lbLen]; exact this

/-- the last character is not (the end of) a line ending -/
theorem lastChar_facts {m : Metrics} {c : Ch} {R : Text} (h : breakBefore m (c :: R) = none) :
    breakAt m [c] = none ∧ aligned m R.reverse [c] = true := by
  rcases hle : m.le with _ | _ | _
  · simp [breakBefore, breakAt, lbCodes, hle, stripCodes, aligned] at h ⊢; exact h
  · simp [breakBefore, breakAt, lbCodes, hle, stripCodes, aligned] at h ⊢; exact h
  · refine ⟨by simp [breakAt, lbCodes, hle, stripCodes], ?_⟩
    cases R with
    | nil => simp
    | cons d R' =>
      simp [breakBefore, lbCodes, hle, stripCodes] at h
      simp only [aligned, hle]
      have : (d :: R').reverse.getLast? = some d := by simp
      rw [this]
      simp
      by_cases h10 : c.code = 10
      · exact Or.inl (h h10)
      · exact Or.inr h10

theorem aligned_of_last_tab {m : Metrics} {x : Text} {c : Ch} (hc : c.code = 9) (y : Text) :
    aligned m (x ++ [c]) y = true := by
  unfold aligned
  split
  · rw [getLast?_append_ne _ (by simp)]
    cases y with
    | nil => simp
    | cons d y' => simp [hc]
  · rfl

/-- the re-measuring loop over a run without line endings that is followed by a tab -/
theorem measureTo_walk {m : Metrics} {c : Ch} (hc : c.code = 9) (suf : Text) :
    ∀ (x : Text) (p : Pos), Text.WF x → NoBreak m (x ++ [c]) →
      measureTo m (p.byte + bytes x) p (x ++ c :: suf) = .ok (walk m p x) := by
  intro x
  induction x with
  | nil => intro p _ _; simpa [walk] using measureTo_here m p (c :: suf)
  | cons d x' ih =>
    intro p hwf hnb
    obtain ⟨hwd, hwx⟩ := Text.WF_cons.mp hwf
    obtain ⟨hb, hnb'⟩ := NoBreak_cons (by simpa using hnb)
    have hal : aligned m (d :: (x' ++ [c])) suf = true := by
      rw [← List.cons_append]
      exact aligned_of_last_tab (x := d :: x') hc suf
    have hb' : breakAt m (d :: (x' ++ c :: suf)) = none := by
      have := breakAt_none_append hb hal
      simpa using this
    have hne : ¬ p.byte = p.byte + bytes (d :: x') := by
      have := hwd.1; simp; omega
    have hstep : stepSuf m p (d :: (x' ++ c :: suf)) = some (stepCh m p d, x' ++ c :: suf) := by
      simp [stepSuf, hb']
    have hbyte : (stepCh m p d).byte = p.byte + d.size := by
      unfold stepCh; split
      · rename_i h9; simp [hwd.2 (Or.inl h9)]
      · rfl
    rw [List.cons_append, measureTo]
    simp only [hne, if_false]
    split
    · rename_i hs; rw [hstep] at hs; simp at hs
    · rename_i q rest hs
      rw [hstep] at hs; simp at hs
      obtain ⟨rfl, rfl⟩ := hs
      have := ih (stepCh m p d) hwx hnb'
      rw [hbyte] at this
      have e : p.byte + bytes (d :: x') = p.byte + d.size + bytes x' := by simp; omega
      rw [e, this]
      simp [walk]

theorem cf_append {m : Metrics} (l0 : Nat) {x y : Text} (hwf : Text.WF (x ++ y))
    (ha : aligned m x y = true) : cf m l0 (x ++ y) = canonFrom m (cf m l0 x) y :=
  canonFrom_append m x y _ hwf ha

theorem lastUnit_nil (m : Metrics) : lastUnit m [] = none := by
  have : breakBefore m [] = none := by
    unfold breakBefore lbCodes; split <;> simp [stripCodes]
  simp [lastUnit, this]

/-- canonical position in a document whose first line has number `l0` and starts at column `c0` -/
abbrev cg (m : Metrics) (l0 c0 : Nat) (x : Text) : Pos := canonFrom m ⟨0, l0, c0⟩ x

theorem cg_append {m : Metrics} (l0 c0 : Nat) {x y : Text} (hwf : Text.WF (x ++ y))
    (ha : aligned m x y = true) : cg m l0 c0 (x ++ y) = canonFrom m (cg m l0 c0 x) y :=
  canonFrom_append m x y _ hwf ha

/-- after the first line the start column plays no role -/
theorem cg_col_of_multi {m : Metrics} (l0 c0 : Nat) {x : Text} (h : (linesOf m x).length ≠ 1) :
    (cg m l0 c0 x).col = (cf m l0 x).col := by
  simp [cg, cf, canonFrom, h]

theorem cg_line (m : Metrics) (l0 c0 : Nat) (x : Text) :
    (cg m l0 c0 x).line = l0 + ((linesOf m x).length - 1) := rfl

/-- measuring the last line of `u` from column 0 at its start -/
theorem endPosition_lineStart {m : Metrics} {u : Text} (hwf : Text.WF u) (l : Nat) :
    endPosition m u ⟨bytes u - bytes (curLinePre m u), l, 0⟩ =
      .ok ⟨bytes u, l, colWidth m.tab 0 (curLinePre m u)⟩ := by
  obtain ⟨u0, clu, I, h1, _, _, _, h5, h6, _, _⟩ := last_split m u
  have hb : bytes u - bytes clu = bytes u0 := by rw [h1]; simp
  rw [h6, hb]
  conv => lhs; rw [h1]
  rw [endPosition_cut (by rw [← h1]; exact hwf) rfl, canonFrom_noBreak _ h5, h1]
  simp

theorem endPosition_zero {m : Metrics} {x : Text} (hwf : Text.WF x) (l c : Nat) :
    endPosition m x ⟨0, l, c⟩ = .ok (canonFrom m ⟨0, l, c⟩ x) := by
  have := endPosition_cut (m := m) (x := []) (y := x) (p := ⟨0, l, c⟩) (by simpa using hwf)
    (by simp)
  simpa using this

/-- `previous_position` at a cut of a document starting at line `l0`, column `c0`: the raw
answer has the right byte and line; its column is right, or is the column measured from 0
(the latter when it was re-measured from a line start, or is the end of the previous line). -/
theorem prev_cg {m : Metrics} (l0 c0 : Nat) {pre suf : Text} (hwf : Text.WF (pre ++ suf)) :
    ∃ r, previousPosition m (pre ++ suf) (cg m l0 c0 pre) = .ok r ∧
      (lastUnit m pre = none → r = none) ∧
      ∀ u, lastUnit m pre = some u → ∃ p, r = some p ∧
        p.byte = bytes (pre.take (pre.length - u.length)) ∧
        p.line = (cg m l0 c0 (pre.take (pre.length - u.length))).line ∧
        (p.col = (cg m l0 c0 (pre.take (pre.length - u.length))).col ∨
         p.col = (cf m l0 (pre.take (pre.length - u.length))).col) := by
  obtain ⟨hw1, hw2⟩ := Text.WF_append.mp hwf
  unfold previousPosition
  simp only [canonFrom_byte, Nat.zero_add, splitAtByte_append suf hw1]
  cases hbb : breakBefore m pre.reverse with
  | some r =>
    obtain ⟨u, B, rfl, hBc, hBl, rfl⟩ := breakBefore_split hbb
    obtain ⟨hwu, hwB⟩ := Text.WF_append.mp hw1
    have hb : breakAt m B = some [] := by simpa using breakAt_of_map (m := m) [] hBc
    have hbytes : bytes B = lbLen m := by simpa using breakAt_bytes hwB hb
    have hcg : cg m l0 c0 (u ++ B) =
        ⟨(cg m l0 c0 u).byte + lbLen m, (cg m l0 c0 u).line + 1, 0⟩ := by
      rw [cg_append l0 c0 hw1 (aligned_of_starts_break hb), canonFrom_break hwB hb]; simp
    have hlu : lastUnit m (u ++ B) = some B := by
      simp only [lastUnit, hbb]; simp
    have hls : lineStartPosition m (u ++ (B ++ suf)) ⟨bytes u, (cg m l0 c0 u).line, 0⟩ =
        .ok ⟨bytes u - bytes (curLinePre m u), (cg m l0 c0 u).line, 0⟩ :=
      lineStartPosition_cut hwu rfl
    have e1 : csub (bytes (u ++ B)) (lbLen m) = .ok (bytes u) := by
      rw [csub_le (by simp; omega)]; simp [hbytes]
    have e2 : csub (cg m l0 c0 (u ++ B)).line 1 = .ok (cg m l0 c0 u).line := by
      rw [hcg]; simp [csub]
    have e3 : (u ++ B).take ((u ++ B).length - B.length) = u := by simp
    refine ⟨some ⟨bytes u, (cg m l0 c0 u).line, colWidth m.tab 0 (curLinePre m u)⟩, ?_, ?_, ?_⟩
    · simp only [e1, e2, Res.ok_bind, Res.pure_eq]
      rw [List.append_assoc, hls]
      simp only [Res.ok_bind, splitAtByte_append _ hwu, endPosition_lineStart hwu]
    · rw [hlu]; simp
    · intro u' hu'
      rw [hlu] at hu'; injection hu' with hu'; subst hu'
      rw [e3]
      exact ⟨_, rfl, rfl, rfl, Or.inr (by rw [cf_eq])⟩
  | none =>
    cases hrev : pre.reverse with
    | nil =>
      have : pre = [] := by simpa using hrev
      subst this
      exact ⟨none, rfl, fun _ => rfl, by simp [lastUnit_nil]⟩
    | cons c R =>
      have hpre : pre = R.reverse ++ [c] := by
        have := congrArg List.reverse hrev; simpa using this
      have hbb0 := hbb
      rw [hrev] at hbb
      obtain ⟨hb1, hal⟩ := lastChar_facts hbb
      have hwR : Text.WF R.reverse := by rw [hpre] at hw1; exact (Text.WF_append.mp hw1).1
      have hwc : c.WF := by
        rw [hpre] at hw1; exact (Text.WF_cons.mp (Text.WF_append.mp hw1).2).1
      have hcg : cg m l0 c0 pre = stepCh m (cg m l0 c0 R.reverse) c := by
        rw [hpre, cg_append l0 c0 (by rw [← hpre]; exact hw1) hal, canonFrom_nobreak hwc hb1]; simp
      have hline : (cg m l0 c0 pre).line = (cg m l0 c0 R.reverse).line := by
        rw [hcg]; unfold stepCh; split <;> rfl
      have hlu : lastUnit m pre = some [c] := by
        simp only [lastUnit, hbb0]
        rw [hpre]; simp
      have htake : pre.take (pre.length - [c].length) = R.reverse := by rw [hpre]; simp
      by_cases h9 : c.code = 9
      · -- a tab: re-measured from the line start (column 0)
        obtain ⟨pre0, cl, I, h1, _, _, h4, h5, h6, h7, _⟩ := last_split m pre
        have hb0 : bytes pre - bytes cl = bytes pre0 := by rw [h1]; simp
        have hls : lineStartPosition m (pre ++ suf) (cg m l0 c0 pre) =
            .ok ⟨bytes pre0, (cg m l0 c0 pre).line, 0⟩ := by
          rw [lineStartPosition_cut hw1 (by simp), h6, hb0]
        have hclne : cl ≠ [] := by
          intro e; subst e
          simp at h1; subst h1
          rcases h4 with h4 | h4
          · rw [h4] at hrev; simp at hrev
          · obtain ⟨c', r', hr1, hr2⟩ := breakBefore_of_endsBreak h4
            rw [hrev] at hr1; rw [← hr1, hbb] at hr2; simp at hr2
        obtain ⟨cl'', d, hcl⟩ : ∃ cl'' d, cl = cl'' ++ [d] := by
          rcases List.eq_nil_or_concat cl with h | ⟨a, b, h⟩
          · exact absurd h hclne
          · exact ⟨a, b, by simpa using h⟩
        have hd : d = c ∧ R.reverse = pre0 ++ cl'' := by
          have : pre0 ++ cl'' ++ [d] = R.reverse ++ [c] := by
            rw [← hpre, h1, hcl]; simp
          have h2 := List.append_inj' this rfl
          exact ⟨by simpa using h2.2, h2.1.symm⟩
        obtain ⟨rfl, hR⟩ := hd
        have hw0 : Text.WF pre0 := by rw [h1] at hw1; exact (Text.WF_append.mp hw1).1
        have hwcl'' : Text.WF cl'' := by
          rw [hR] at hwR; exact (Text.WF_append.mp hwR).2
        have hsize : d.size = 1 := hwc.2 (Or.inl h9)
        have e1 : csub (bytes pre) 1 = .ok (bytes pre0 + bytes cl'') := by
          rw [csub_le (by rw [hpre]; simp; omega)]
          rw [h1, hcl]; simp [hsize]
        have hsplit : splitAtByte (pre ++ suf) (bytes pre0) = some (pre0, cl'' ++ d :: suf) := by
          have : pre ++ suf = pre0 ++ (cl'' ++ d :: suf) := by rw [h1, hcl]; simp
          rw [this]; exact splitAtByte_append (cl'' ++ d :: suf) hw0
        have hnb : NoBreak m cl'' := NoBreak_of_append_left (by rw [← hcl]; exact h5)
        have hmeas : measureTo m (bytes pre0 + bytes cl'') ⟨bytes pre0, (cg m l0 c0 pre).line, 0⟩
            (cl'' ++ d :: suf) = .ok (walk m ⟨bytes pre0, (cg m l0 c0 pre).line, 0⟩ cl'') :=
          measureTo_walk (m := m) h9 suf cl'' ⟨bytes pre0, (cg m l0 c0 pre).line, 0⟩ hwcl''
            (by rw [← hcl]; exact h5)
        have hcol0 : (cf m l0 pre0).col = 0 := by
          rcases h4 with rfl | h4
          · simp
          · exact canonFrom_col_endsBreak _ hw0 h4
        refine ⟨some (walk m ⟨bytes pre0, (cg m l0 c0 pre).line, 0⟩ cl''), ?_, ?_, ?_⟩
        · simp only [if_pos h9, hls, Res.ok_bind, e1, hsplit, hmeas, Res.ok_bind']
        · rw [hlu]; simp
        · intro u' hu'
          rw [hlu] at hu'; injection hu' with hu'; subst hu'
          rw [htake]
          refine ⟨_, rfl, ?_, ?_, Or.inr ?_⟩
          · rw [walk_eq m cl'' _ hwcl'', hR]; simp
          · rw [walk_eq m cl'' _ hwcl'', hline]
          · rw [walk_eq m cl'' _ hwcl'', hR,
              cf_append l0 (by rw [← hR]; exact hwR) (aligned_of_pre0 h4 cl''),
              canonFrom_noBreak _ hnb, hcol0]
      · -- an ordinary character
        have e1 : csub (bytes pre) c.size = .ok (bytes R.reverse) := by
          rw [csub_le (by rw [hpre]; simp)]; rw [hpre]; simp
        have hcol : (cg m l0 c0 pre).col = (cg m l0 c0 R.reverse).col + c.width := by
          rw [hcg]; simp [stepCh, h9]
        have e2 : csub (cg m l0 c0 pre).col c.width = .ok (cg m l0 c0 R.reverse).col := by
          rw [hcol, csub_le (by omega)]; simp
        refine ⟨some ⟨bytes R.reverse, (cg m l0 c0 pre).line, (cg m l0 c0 R.reverse).col⟩,
          ?_, ?_, ?_⟩
        · simp only [if_neg h9, e1, e2, Res.ok_bind, Res.pure_eq]
        · rw [hlu]; simp
        · intro u' hu'
          rw [hlu] at hu'; injection hu' with hu'; subst hu'
          rw [htake]
          exact ⟨_, rfl, rfl, hline, Or.inl rfl⟩

/-! ### the window -/

theorem shift_cg {m : Metrics} {wa x : Text} (hwf : Text.WF (wa ++ x))
    (ha : aligned m wa x = true) :
    canon m (wa ++ x) =
      ⟨(cg m (canon m wa).line (canon m wa).col x).byte + bytes wa,
        (cg m (canon m wa).line (canon m wa).col x).line,
        (cg m (canon m wa).line (canon m wa).col x).col⟩ := by
  rw [canon_append hwf ha, canonFrom_rebase]
  congr 1

theorem keepIfIn_some_lt {w : Span} {q : Pos} (h : q.byte < w.s.byte) :
    keepIfIn w (some q) = none := by
  simp [keepIfIn]; intro _; omega

theorem lastUnit_suffix {m : Metrics} {x u : Text} (h : lastUnit m x = some u) :
    ∃ r, x = r ++ u ∧ u ≠ [] := by
  unfold lastUnit at h
  split at h
  · rename_i r hb
    obtain ⟨u', B, rfl, hBc, hBl, rfl⟩ := breakBefore_split hb
    simp at h; subst h
    refine ⟨u', rfl, ?_⟩
    intro e; subst e; have := lbLen_pos m; simp at hBl; omega
  · rcases List.eq_nil_or_concat x with rfl | ⟨a, b, rfl⟩
    · simp at h
    · simp at h; subst h; exact ⟨a, by simp, by simp⟩

theorem breakBefore_none_append {m : Metrics} {c : Ch} {R : Text} {wa : Text}
    (h : breakBefore m (c :: R) = none) (ha : aligned m wa (c :: R).reverse = true) :
    breakBefore m (c :: (R ++ wa.reverse)) = none := by
  rcases hle : m.le with _ | _ | _
  · simp [breakBefore, lbCodes, hle, stripCodes] at h ⊢; exact h
  · simp [breakBefore, lbCodes, hle, stripCodes] at h ⊢; exact h
  · cases R with
    | cons d R' => simp [breakBefore, lbCodes, hle, stripCodes] at h ⊢; exact h
    | nil =>
      rcases List.eq_nil_or_concat wa with rfl | ⟨a, b, rfl⟩
      · simpa using h
      · simp only [aligned, hle] at ha
        rw [List.concat_eq_append, getLast?_append_ne _ (by simp)] at ha
        simp at ha
        simp [breakBefore, lbCodes, hle, stripCodes]
        intro h10 h13
        rcases ha with ha | ha
        · exact ha h13
        · exact ha h10

theorem lastUnit_append {m : Metrics} {wa pre' : Text} (hne : pre' ≠ [])
    (ha : aligned m wa pre' = true) : lastUnit m (wa ++ pre') = lastUnit m pre' := by
  cases hb : breakBefore m pre'.reverse with
  | some r =>
    have hb' : breakBefore m (wa ++ pre').reverse = some (r ++ wa.reverse) := by
      rw [List.reverse_append]; exact stripCodes_append_right _ hb
    obtain ⟨u, B, rfl, _, _, rfl⟩ := breakBefore_split hb
    simp only [lastUnit, hb, hb']
    have e : wa ++ (u ++ B) = (wa ++ u) ++ B := by simp
    have e2 : (u.reverse ++ wa.reverse).length = (wa ++ u).length := by simp; omega
    rw [e, e2]; simp
  | none =>
    cases hrev : pre'.reverse with
    | nil => simp at hrev; exact absurd hrev hne
    | cons c R =>
      rw [hrev] at hb
      have hpre : pre' = (c :: R).reverse := by rw [← hrev]; simp
      have hb' : breakBefore m (wa ++ pre').reverse = none := by
        rw [List.reverse_append, hrev]
        exact breakBefore_none_append hb (by rw [← hpre]; exact ha)
      have hb0 : breakBefore m pre'.reverse = none := by rw [hrev]; exact hb
      simp only [lastUnit, hb0, hb', getLast?_append_ne _ hne]

section fields
variable {m : Metrics} {wa pre' suf' wz : Text}

/-- answer of the window's `previous_position` (any start column): the parent's -/
theorem win_prev (hwf : Text.WF (wa ++ pre' ++ suf'))
    (ha1 : aligned m wa pre' = true) :
    Source.previousPosition ⟨pre' ++ suf', m, canon m wa⟩ (canon m (wa ++ pre')) =
      .ok ((lastUnit m pre').map fun u => canon m (wa ++ pre'.take (pre'.length - u.length))) := by
  obtain ⟨hw12, hw3⟩ := Text.WF_append.mp hwf
  obtain ⟨hw1, hw2⟩ := Text.WF_append.mp hw12
  have hp : (⟨(canon m (wa ++ pre')).byte - (canon m wa).byte, (canon m (wa ++ pre')).line,
      (canon m (wa ++ pre')).col⟩ : Pos) = cg m (canon m wa).line (canon m wa).col pre' := by
    rw [shift_cg hw12 ha1]; apply Pos.ext' <;> simp
  obtain ⟨r, hr, hnone, hsome⟩ :=
    prev_cg (m := m) (canon m wa).line (canon m wa).col (Text.WF_append.mpr ⟨hw2, hw3⟩)
  unfold Source.previousPosition
  simp only
  rw [withByteOffset_eq (by simp) (by rw [hp]; exact hr)]
  simp only [Res.ok_bind]
  cases hu : lastUnit m pre' with
  | none => rw [hnone hu]; simp
  | some u =>
    obtain ⟨p, rfl, hpb, hpl, hpc⟩ := hsome u hu
    obtain ⟨x, d, hpre, hx⟩ : ∃ x d, pre' = x ++ d ∧ pre'.take (pre'.length - u.length) = x :=
      ⟨_, _, (List.take_append_drop (pre'.length - u.length) pre').symm, rfl⟩
    simp only [Option.map_some, canon_byte]
    rw [hx] at hpb hpl hpc ⊢
    have hwx' : Text.WF x := by rw [hpre] at hw2; exact (Text.WF_append.mp hw2).1
    have hwx : Text.WF (wa ++ x) := Text.WF_append.mpr ⟨hw1, hwx'⟩
    have hax : aligned m wa x = true := by
      rw [hpre] at ha1; exact aligned_of_append_right ha1
    have hsplit : splitAtByte (pre' ++ suf') (bytes x) = some (x, d ++ suf') := by
      rw [hpre, List.append_assoc]; exact splitAtByte_append _ hwx'
    have hsh := shift_cg hwx hax
    by_cases hcond : p.line = (canon m wa).line ∧ (canon m wa).col ≠ 0
    · have hcs : csub (p.byte + bytes wa) (bytes wa) = .ok (bytes x) := by
        rw [csub_le (by omega), hpb]; simp
      rw [if_pos hcond]
      simp only [hcs, hsplit, endPosition_zero hwx']
      rw [hsh]
    · rw [if_neg hcond, hsh]
      congr 2
      apply Pos.ext'
      · simp [hpb]
      · exact hpl
      · rcases hpc with hpc | hpc
        · exact hpc
        · rw [hpc]
          by_cases hc0 : (canon m wa).col = 0
          · rw [hc0]
          · have hne : (linesOf m x).length ≠ 1 := by
              intro h1
              apply hcond
              refine ⟨?_, hc0⟩
              rw [hpl, cg_line, h1]; simp
            exact (cg_col_of_multi _ _ hne).symm

theorem wfield_prev (hwf : Text.WF (wa ++ (pre' ++ suf') ++ wz))
    (hw1 : aligned m wa (pre' ++ suf' ++ wz) = true) :
    Source.previousPosition ⟨pre' ++ suf', m, canon m wa⟩ (canon m (wa ++ pre')) =
      .ok (keepIfIn ⟨canon m wa, canon m (wa ++ (pre' ++ suf'))⟩
        (navSpec m (wa ++ pre') (suf' ++ wz) [] (fun _ => true)).prev) := by
  have hwf' : Text.WF (wa ++ pre' ++ suf') := by
    have := (Text.WF_append.mp hwf).1; simpa [List.append_assoc] using this
  have hal : aligned m wa pre' = true := by
    rw [List.append_assoc] at hw1; exact aligned_of_append_right hw1
  rw [win_prev hwf' hal]
  simp only [navSpec]
  by_cases hne : pre' = []
  · subst hne
    simp only [lastUnit_nil, Option.map_none, List.append_nil]
    cases hu : lastUnit m wa with
    | none => simp [keepIfIn]
    | some u =>
      obtain ⟨r, hr, hune⟩ := lastUnit_suffix hu
      have hwu : Text.WF u := by
        have := (Text.WF_append.mp (Text.WF_append.mp hwf').1).1
        rw [hr] at this; exact (Text.WF_append.mp this).2
      have := bytes_pos hwu hune
      have htk : wa.take (wa.length - u.length) = r := by rw [hr]; simp
      simp only [Option.map_some, htk]
      have hb := congrArg bytes hr
      rw [bytes_append] at hb
      simp [keepIfIn]; intro _; omega
  · rw [lastUnit_append hne hal]
    cases hu : lastUnit m pre' with
    | none => simp [keepIfIn]
    | some u =>
      obtain ⟨r, hr, hune⟩ := lastUnit_suffix hu
      have htk : (wa ++ pre').take ((wa ++ pre').length - u.length) =
          wa ++ pre'.take (pre'.length - u.length) := by
        rw [hr]
        have e : wa ++ (r ++ u) = (wa ++ r) ++ u := by simp
        rw [e, List.take_left' (by simp; omega), List.take_left' (by simp)]
      simp only [Option.map_some, htk]
      rw [keepIfIn_some (by simp)]
      simp only [canon_byte, bytes_append]
      have := bytes_take_le (pre'.length - u.length) pre'
      omega

/-! ### previous line end -/

theorem lastUnit_endsBreak {u B : Text} (hB : B.map (·.code) = lbCodes m) :
    lastUnit m (u ++ B) = some B := by
  have hs : breakBefore m (u ++ B).reverse = some u.reverse := by
    unfold breakBefore
    rw [List.reverse_append]
    apply stripCodes_of_map
    rw [List.map_reverse, hB]
  simp only [lastUnit, hs]; simp

theorem bytes_take_lt {x : Text} {n : Nat} (hwf : Text.WF x) (h : n < x.length) :
    bytes (x.take n) < bytes x := by
  have e := congrArg bytes (List.take_append_drop n x)
  rw [bytes_append] at e
  have hd : x.drop n ≠ [] := by
    intro hn
    have := congrArg List.length hn
    simp at this; omega
  have hw : Text.WF (x.drop n) := by
    rw [← List.take_append_drop n x] at hwf; exact (Text.WF_append.mp hwf).2
  have := bytes_pos hw hd
  omega

theorem wfield_prevLineEnd
    (hwf : Text.WF (wa ++ (pre' ++ suf') ++ wz))
    (hw1 : aligned m wa (pre' ++ suf' ++ wz) = true) :
    Source.previousLineEndPosition ⟨pre' ++ suf', m, canon m wa⟩ (canon m (wa ++ pre')) =
      .ok (keepIfIn ⟨canon m wa, canon m (wa ++ (pre' ++ suf'))⟩
        (navSpec m (wa ++ pre') (suf' ++ wz) [] (fun _ => true)).prevLineEnd) := by
  have hwf' : Text.WF (wa ++ pre' ++ suf') := by
    have := (Text.WF_append.mp hwf).1; simpa [List.append_assoc] using this
  obtain ⟨hw12, hw3⟩ := Text.WF_append.mp hwf'
  obtain ⟨hwa, hw2⟩ := Text.WF_append.mp hw12
  have hal : aligned m wa pre' = true := by
    rw [List.append_assoc] at hw1; exact aligned_of_append_right hw1
  obtain ⟨p0, cl, I, h1, h2, h3, h4, h5, h6, h7, h8⟩ := last_split m pre'
  -- the window's own line start is the canonical position of the cut before the current line
  have hls : Source.lineStartPosition ⟨pre' ++ suf', m, canon m wa⟩ (canon m (wa ++ pre')) =
      .ok (canon m (wa ++ p0)) := by
    rw [win_lineStart hw12 hal suf', h6, h7]
    split
    · rename_i hl1
      have := take_curLinePre_of_single hl1
      rw [h6, h7] at this
      rw [this]; simp
    · rfl
  have etext : pre' ++ suf' = p0 ++ (cl ++ suf') := by rw [h1]; simp
  have hwfp : Text.WF (wa ++ p0 ++ (cl ++ suf')) := by
    rw [List.append_assoc, ← etext, ← List.append_assoc]; exact hwf'
  have hal0 : aligned m wa p0 = true := by rw [h1] at hal; exact aligned_of_append_right hal
  have hprev : Source.previousPosition ⟨pre' ++ suf', m, canon m wa⟩ (canon m (wa ++ p0)) =
      .ok ((lastUnit m p0).map fun u => canon m (wa ++ p0.take (p0.length - u.length))) := by
    rw [etext]; exact win_prev hwfp hal0
  unfold Source.previousLineEndPosition
  simp only [hls, Res.ok_bind, hprev]
  simp only [navSpec, curLinePre_append hal]
  by_cases hI : I = []
  · -- the cut is on the window's first line
    have hp0 := h8.mp hI
    subst hI; subst hp0
    have hlen1 : (linesOf m pre').length = 1 := by rw [h2]; simp
    simp only [lastUnit_nil, Option.map_none, hlen1, if_true]
    split
    · simp [keepIfIn]
    · rename_i hgt
      obtain ⟨wa0, cla, Ia, e1, e2, _, _, _, e6, e7, e8⟩ := last_split m wa
      have hlw : (linesOf m (wa ++ pre')).length = (linesOf m wa).length := by
        rw [linesOf_append_length hal, hlen1]; simp
      have hne : wa0 ≠ [] := by
        intro e0
        have := e8.mpr e0
        rw [hlw, e2, this] at hgt; simp at hgt
      have e : (wa ++ pre').take ((wa ++ pre').length - (curLinePre m wa ++ pre').length) = wa0 := by
        rw [← e7, e6]
        have : (wa ++ pre').length - (cla ++ pre').length = wa.length - cla.length := by
          simp; omega
        rw [this, List.take_append_of_le_length (by omega)]
      rw [e, keepIfIn_some_lt]
      simp only [canon_byte]
      have hw0 : Text.WF wa0 := by rw [e1] at hwa; exact (Text.WF_append.mp hwa).1
      have hl0 : 0 < wa0.length := List.length_pos_iff.mpr hne
      have h9 := bytes_take_lt (n := wa0.length - lbLen m) hw0 (by have := lbLen_pos m; omega)
      have h10 := congrArg bytes e1
      rw [bytes_append] at h10
      omega
  · -- a line ending inside the window before the cut
    have hp0 : p0 ≠ [] := fun e => hI (h8.mpr e)
    obtain ⟨u, B, rfl, hBc⟩ : EndsBreak m p0 := by
      rcases h4 with h4 | h4; exact absurd h4 hp0; exact h4
    have hBl : B.length = lbLen m := by
      have := congrArg List.length hBc; simpa [lbLen] using this
    have hlen : ¬ (linesOf m pre').length = 1 := by
      rw [h2]; cases I with
      | nil => exact absurd rfl hI
      | cons i I' => simp
    have hlen2 : ¬ (linesOf m (wa ++ pre')).length ≤ 1 := by
      rw [linesOf_append_length hal]
      have := linesOf_length_pos m wa
      have := linesOf_length_pos m pre'
      omega
    have hcl : cl.length ≤ pre'.length := by rw [h1]; simp; omega
    have e : (wa ++ pre').take ((wa ++ pre').length - (curLinePre m pre').length) =
        wa ++ (u ++ B) := by
      rw [h6, List.take_append]
      have k1 : (wa ++ pre').length - cl.length - wa.length = pre'.length - cl.length := by
        simp; omega
      have k2 : wa.length ≤ (wa ++ pre').length - cl.length := by simp; omega
      rw [k1, List.take_of_length_le k2, h7]
    have e2 : (wa ++ (u ++ B)).take ((wa ++ (u ++ B)).length - lbLen m) = wa ++ u := by
      have : wa ++ (u ++ B) = (wa ++ u) ++ B := by simp
      rw [this, List.take_left' (by simp [hBl]; omega)]
    have e3 : (u ++ B).take ((u ++ B).length - B.length) = u := by
      rw [List.take_left' (by simp)]
    simp only [lastUnit_endsBreak hBc, Option.map_some, if_neg hlen, if_neg hlen2, e, e2, e3]
    rw [keepIfIn_some (by simp)]
    simp only [canon_byte, bytes_append]
    have := congrArg bytes h1
    simp only [bytes_append] at this
    omega

end fields

end Tephra.LinesPf
