/-
  TephraProofs.RunSpans — the interpreter half of C03 and the first clause of
  C13: every span in every error `run` returns or sends to the sink, and every
  span captured in a value, is built from positions stored in a lexer.

  One induction on the fuel (`SpAt`, as `Frame.FrameAt`) for a position
  predicate `P` closed under the scanner and a span predicate `Q` that holds of
  every `Span.enclosing a b` with `P a`, `P b`.  Instances:
  `Q := SpanP P` (both endpoints satisfy `P`) and `P := True`,
  `Q x := x.s.byte ≤ x.e.byte` (start ≤ end).
-/
import TephraModel.Run
import TephraProofs.RunMatchers
import TephraProofs.LexInv

set_option linter.unusedVariables false

namespace Tephra

/-- both endpoints of a span satisfy `P` -/
def SpanP (P : Pos → Prop) (x : Span) : Prop := P x.s ∧ P x.e

/-- every span field of the error satisfies `Q`, every position field `P`; a count error reports
fewer items than the minimum (the only way `list` builds one — `RepeatCountError`'s description
unwraps the maximum otherwise) -/
def ErrQ (Q : Span → Prop) (P : Pos → Prop) : ErrBody → Prop
  | .unexp es ts _ _ => Q es ∧ Q ts
  | .unrec es => Q es
  | .recover => True
  | .boundary es endp => Q es ∧ P endp
  | .bracketNone s => Q s
  | .bracketUnclosed s => Q s
  | .bracketUnopened s => Q s
  | .bracketMismatch s e => Q s ∧ Q e
  | .count es found min _ => Q es ∧ found < min
  | .probe _ => True

mutual
/-- every `spanned` span inside the value satisfies `Q` -/
def ValQ (Q : Span → Prop) : Val → Prop
  | .pair a b => ValQ Q a ∧ ValQ Q b
  | .some a => ValQ Q a
  | .list l => ValsQ Q l
  | .spanned s a => Q s ∧ ValQ Q a
  | .mapped a => ValQ Q a
  | .dflt => True
  | .unit => True
  | .tok _ => True
  | .idx _ => True
  | .count _ => True
  | .toks _ => True
  | .none => True
  | .text _ => True
def ValsQ (Q : Span → Prop) : List Val → Prop
  | [] => True
  | v :: l => ValQ Q v ∧ ValsQ Q l
end

/-- every span / position field of the error satisfies `P` -/
def ErrP (P : Pos → Prop) : ErrBody → Prop := ErrQ (SpanP P) P
/-- every span inside the value has both endpoints in `P` -/
def ValP (P : Pos → Prop) : Val → Prop := ValQ (SpanP P)
/-- every span field of the error has start ≤ end -/
def ErrWF : ErrBody → Prop := ErrQ (fun x => x.s.byte ≤ x.e.byte) (fun _ => True)
/-- every span inside the value has start ≤ end -/
def ValWF : Val → Prop := ValQ (fun x => x.s.byte ≤ x.e.byte)

namespace RunSpans
open LexInv

theorem ValsQ_iff (Q : Span → Prop) (l : List Val) : ValsQ Q l ↔ ∀ v ∈ l, ValQ Q v := by
  induction l with
  | nil => simp [ValsQ]
  | cons a l ih => simp [ValsQ, ih]

theorem ValsQ_reverse {Q : Span → Prop} {l : List Val} (h : ValsQ Q l) : ValsQ Q l.reverse := by
  rw [ValsQ_iff] at *
  intro v hv; exact h v (List.mem_reverse.mp hv)

theorem enclosing_le (a b : Pos) : (Span.enclosing a b).s.byte ≤ (Span.enclosing a b).e.byte := by
  unfold Span.enclosing
  split <;> simp <;> omega

theorem at_eq_enclosing (p : Pos) : Span.at_ p = Span.enclosing p p := by
  simp [Span.at_, Span.enclosing]

section
variable {R : RunEnv} {P : Pos → Prop} {Q : Span → Prop} {m : Metrics}

/-- the lexer invariant carried through `run`: stored positions in `P`, metrics `m` -/
def LI (P : Pos → Prop) (m : Metrics) (lx : Lx) : Prop := PosOK P lx ∧ lx.metrics = m

theorem LI.closed {lx : Lx} (hc : Closed R.E P m) (h : LI P m lx) : Closed R.E P lx.metrics := by
  rw [h.2]; exact hc

theorem LI_peek (hc : Closed R.E P m) {lx : Lx} (h : LI P m lx) : LI P m (lx.peek R.E).2 :=
  ⟨peek_pos lx (h.closed hc) h.1, by simp [h.2]⟩
theorem LI_next (hc : Closed R.E P m) {lx : Lx} (h : LI P m lx) : LI P m (lx.next R.E).2 :=
  ⟨next_pos lx (h.closed hc) h.1, by simp [h.2]⟩
theorem LI_peek' (hc : Closed R.E P m) {lx lx' : Lx} {o : Option Tok} (h : LI P m lx)
    (he : lx.peek R.E = (o, lx')) : LI P m lx' := by
  have := LI_peek hc h; rwa [he] at this
theorem LI_next' (hc : Closed R.E P m) {lx lx' : Lx} {o : Option Tok} (h : LI P m lx)
    (he : lx.next R.E = (o, lx')) : LI P m lx' := by
  have := LI_next hc h; rwa [he] at this
theorem LI_setFilter (hc : Closed R.E P m) {lx : Lx} (f : Option Nat) (h : LI P m lx) :
    LI P m (lx.setFilter R.E f).2 :=
  ⟨setFilter_pos f lx (h.closed hc) h.1, by simp [h.2]⟩
theorem LI_intoSublexer (hc : Closed R.E P m) {lx : Lx} (h : LI P m lx) : LI P m (lx.intoSublexer R.E) :=
  ⟨intoSublexer_pos lx (h.closed hc) h.1, by simp [h.2]⟩
theorem LI_setRecoverState {lx : Lx} (r : Option Nat) (h : LI P m lx) : LI P m (lx.setRecoverState r) := h
theorem LI_advanceTo (hc : Closed R.E P m) {lx : Lx} (pred : Tok → Bool) (h : LI P m lx) :
    LI P m (lx.advanceTo R.E pred).2 :=
  ⟨advanceTo_pos pred lx (h.closed hc) h.1, by simp [h.2]⟩

/-- `Q` holds of every span built by `Span.enclosing` from `P` positions -/
def QEncl (P : Pos → Prop) (Q : Span → Prop) : Prop := ∀ a b, P a → P b → Q (Span.enclosing a b)

theorem tokenSpan_Q (hQ : QEncl P Q) {lx : Lx} (h : LI P m lx) : Q lx.tokenSpan := hQ _ _ h.1.2.1 h.1.2.2.1
theorem parseSpan_Q (hQ : QEncl P Q) {lx : Lx} (h : LI P m lx) : Q lx.parseSpan := hQ _ _ h.1.1 h.1.2.2.1
theorem at_Q (hQ : QEncl P Q) {p : Pos} (h : P p) : Q (Span.at_ p) := by
  rw [at_eq_enclosing]; exact hQ _ _ h h
theorem peekTokenSpan_Q (hQ : QEncl P Q) {lx : Lx} (h : LI P m lx) {sp : Span}
    (hsp : lx.peekTokenSpan = some sp) : Q sp := by
  unfold Lexer.peekTokenSpan at hsp
  cases hb : lx.buffer with
  | none => rw [hb] at hsp; cases hsp
  | some b =>
    rw [hb] at hsp
    obtain ⟨b1, b2⟩ := h.1.2.2.2 b hb
    simp only [Option.bind_some] at hsp
    split at hsp
    · cases hsp
    · cases hsp; exact hQ _ _ b1 b2
theorem peekTokenSpan_getD_Q (hQ : QEncl P Q) {lx : Lx} (h : LI P m lx) :
    Q (lx.peekTokenSpan.getD lx.tokenSpan) := by
  cases hs : lx.peekTokenSpan with
  | none => exact tokenSpan_Q hQ h
  | some sp => exact peekTokenSpan_Q hQ h hs
/-- the start position used by `spanned` / `text` -/
theorem spanStart_P {lx : Lx} (h : LI P m lx) :
    P (lx.peekTokenSpan.getD (Span.at_ lx.tokenSpan.e)).s := by
  cases hs : lx.peekTokenSpan with
  | none => exact (tokenSpan_pos h.1).2
  | some sp => exact (peekTokenSpan_pos h.1 sp hs).1

/-! ### results and worlds -/

/-- every error in the sink log is good -/
def LogOK (P : Pos → Prop) (Q : Span → Prop) (W : World) : Prop := ∀ e ∈ W.log, ErrQ Q P e.body

/-- a result is good: the lexer handed back satisfies the invariant, the value
and the error carry good spans only -/
def ResOK (P : Pos → Prop) (Q : Span → Prop) (m : Metrics) : RRes → Prop
  | .ok v lx' => LI P m lx' ∧ ValQ Q v
  | .err e => ErrQ Q P e.body
  | .panic => True
  | .fuel => True

def Good (P : Pos → Prop) (Q : Span → Prop) (m : Metrics) (r : RRes × World) : Prop :=
  ResOK P Q m r.1 ∧ LogOK P Q r.2

@[simp] theorem ResOK_ok (v : Val) (lx : Lx) : ResOK P Q m (.ok v lx) ↔ LI P m lx ∧ ValQ Q v := Iff.rfl
@[simp] theorem ResOK_err (e : PErr) : ResOK P Q m (.err e) ↔ ErrQ Q P e.body := Iff.rfl
@[simp] theorem ResOK_panic : ResOK P Q m .panic := trivial
@[simp] theorem ResOK_fuel : ResOK P Q m .fuel := trivial
@[simp] theorem Good_mk (r : RRes) (W : World) : Good P Q m (r, W) ↔ ResOK P Q m r ∧ LogOK P Q W := Iff.rfl

theorem LogOK_of_log_eq {W W' : World} (h : W'.log = W.log) (hW : LogOK P Q W) : LogOK P Q W' := by
  unfold LogOK; rw [h]; exact hW

theorem sendError_spec {c : Ctx} {e : PErr} {W W' : World} {o : Option PErr}
    (h : sendError c e W = (o, W')) (he : ErrQ Q P e.body) (hW : LogOK P Q W) :
    LogOK P Q W' ∧ ∀ e', o = some e' → ErrQ Q P e'.body := by
  unfold sendError at h
  split at h
  · cases h
    refine ⟨?_, by simp⟩
    intro x hx
    simp only [List.mem_append, List.mem_singleton] at hx
    rcases hx with hx | hx
    · exact hW x hx
    · subst hx; exact he
  · cases h
    exact ⟨hW, by intro e' h; cases h; exact he⟩

theorem register_LogOK {W : World} (id : Nat) (r : Rec) (hW : LogOK P Q W) : LogOK P Q (W.register id r) := by
  refine LogOK_of_log_eq ?_ hW
  unfold World.register; split <;> rfl

theorem askRecover_log (W : World) (id : Nat) (t : Tok) : (askRecover W id t).2.log = W.log := by
  unfold askRecover
  split <;> try rfl
  all_goals (split <;> try rfl)
  all_goals (split <;> rfl)

/-! ### `advance_to_recover`, bracket matching -/

theorem recoverLoop_spec (hc : Closed R.E P m) (id : Nat) (n : Nat) (lx : Lx) (W : World)
    (h : LI P m lx) (hW : LogOK P Q W) :
    (∀ lx', (recoverLoop R id n lx W).1 = some lx' → LI P m lx') ∧ LogOK P Q (recoverLoop R id n lx W).2 := by
  induction n generalizing lx W with
  | zero => simp [recoverLoop, hW]
  | succ n ih =>
    simp only [recoverLoop]
    split
    · simp [hW]
    · next t lx1 hp =>
      have h1 := LI_peek' hc h hp
      have hW1 : LogOK P Q (askRecover W id t).2 := LogOK_of_log_eq (askRecover_log _ _ _) hW
      split
      · refine ⟨?_, hW1⟩
        intro lx' he; cases he; exact h1
      · exact ih _ _ (LI_next hc h1) hW1

theorem advanceToRecover_spec (hc : Closed R.E P m) {lx : Lx} {W W' : World} {o : Option Lx}
    (he : advanceToRecover R lx W = (o, W')) (h : LI P m lx) (hW : LogOK P Q W) :
    (∀ lx', o = some lx' → LI P m lx') ∧ LogOK P Q W' := by
  unfold advanceToRecover at he
  split at he
  · cases he; exact ⟨by intro lx' h'; cases h'; exact h, hW⟩
  · have := recoverLoop_spec (Q := Q) hc ‹Nat› (lx.len + 2) lx W h hW
    rw [he] at this; exact this

/-- the result of the bracket matcher is good -/
def MatchOK (P : Pos → Prop) (Q : Span → Prop) (m : Metrics) : MatchRes → Prop
  | .found o c _ => LI P m o ∧ LI P m c
  | .err e => ErrQ Q P e
  | .panic => True
  | .fuel => True

theorem matchLoop_spec (hc : Closed R.E P m) (hQ : QEncl P Q) (opens closes abort : List Nat) (sp : Span)
    (hsp : Q sp) (n : Nat) (lexer : Lx) (openLexer : Option Lx) (opened : List (Nat × Nat))
    (hl : LI P m lexer) (ho : ∀ ol, openLexer = some ol → LI P m ol) :
    MatchOK P Q m (matchLoop R opens closes abort sp n lexer openLexer opened) := by
  induction n generalizing lexer openLexer opened with
  | zero => simp [matchLoop, MatchOK]
  | succ n ih =>
    simp only [matchLoop]
    split
    · split
      · exact hsp
      · next ol =>
        split
        · next s hs => exact peekTokenSpan_Q hQ (ho ol rfl) hs
        · trivial
    · next tok lexer1 hp =>
      have h1 := LI_peek' hc hl hp
      have h2 := LI_next hc h1
      split
      · split
        · split
          · next s hs => exact peekTokenSpan_Q hQ h1 hs
          · trivial
        · split
          · split
            · next a b ha hb =>
              cases openLexer with
              | none => simp at ha
              | some ol =>
                simp only [Option.bind_some] at ha
                exact ⟨peekTokenSpan_Q hQ (ho ol rfl) ha, peekTokenSpan_Q hQ h1 hb⟩
            · trivial
          · split
            · exact ih _ _ _ h2 ho
            · split
              · split
                · next ol => exact ⟨ho ol rfl, h1⟩
                · trivial
              · exact ih _ _ _ h2 ho
      · split
        · refine ih _ _ _ h2 ?_
          intro ol hol
          split at hol
          · cases hol; exact h1
          · cases hol; exact ho _ rfl
        · split
          · split
            · next s hs => exact peekTokenSpan_Q hQ h1 hs
            · trivial
          · exact ih _ _ _ h2 ho

/-! ### the fuel-independent members of the mutual block -/

theorem seqLoop_spec (hc : Closed R.E P m) (hQ : QEncl P Q) (es : Span) (hes : Q es) (ks : List Nat) (lx : Lx)
    (acc : List Tok) (h : LI P m lx) : ResOK P Q m (seqLoop R es ks lx acc) := by
  induction ks generalizing lx acc with
  | nil => simp [seqLoop, h, ValQ]
  | cons k ks ih =>
    simp only [seqLoop]
    split
    · next t lx1 hn =>
      have h1 := LI_next' hc h hn
      split
      · exact ih _ _ h1
      · exact ⟨hes, tokenSpan_Q hQ h1⟩
    · next lx1 hn => exact ⟨hes, tokenSpan_Q hQ (LI_next' hc h hn)⟩

theorem seqCountLoop_spec (hc : Closed R.E P m) (es : Span) (hes : Q es) (ks : List Nat) (lx : Lx)
    (c : Nat) (h : LI P m lx) : ResOK P Q m (seqCountLoop R es ks lx c) := by
  induction ks generalizing lx c with
  | nil => simp [seqCountLoop, h, ValQ]
  | cons k ks ih =>
    simp only [seqCountLoop]
    split
    · simp [h, ValQ]
    · split
      · next t lx1 hp =>
        have h1 := LI_peek' hc h hp
        split
        · exact ih _ _ (LI_next hc h1)
        · simp [h1, ValQ]
      · next lx1 hp =>
        have h1 := LI_peek' hc h hp
        split
        · simp [h1, ValQ]
        · exact hes

theorem countOf_spec (v : Nat) (r : RRes × World) (h : Good P Q m r) : Good P Q m (countOf v r) := by
  unfold countOf
  split
  · exact h
  · split
    · exact ⟨⟨h.1.1, trivial⟩, h.2⟩
    · exact h

/-! ### the interpreter -/

structure SpAt (R : RunEnv) (P : Pos → Prop) (Q : Span → Prop) (m : Metrics) (n : Nat) : Prop where
  run : ∀ g lx ctx W, LI P m lx → LogOK P Q W → Good P Q m (run R n g lx ctx W)
  sepItem : ∀ a sep lx ctx W, LI P m lx → LogOK P Q W → Good P Q m (sepItem R n a sep lx ctx W)
  interLoopStart : ∀ lo hi a sep lx ctx W, LI P m lx → LogOK P Q W →
    Good P Q m (interLoopStart R n lo hi a sep lx ctx W)
  interLoop : ∀ lo hi a sep vals lx ctx W, LI P m lx → LogOK P Q W → ValsQ Q vals →
    Good P Q m (interLoop R n lo hi a sep vals lx ctx W)
  untilStart : ∀ lo hi stop a sep lx ctx W, LI P m lx → LogOK P Q W →
    Good P Q m (untilStart R n lo hi stop a sep lx ctx W)
  untilLoop : ∀ lo hi stop a sep vals lx ctx W, LI P m lx → LogOK P Q W → ValsQ Q vals →
    Good P Q m (untilLoop R n lo hi stop a sep vals lx ctx W)
  recoverDefault : ∀ dv id r body lx ctx W, LI P m lx → LogOK P Q W → ValQ Q dv →
    Good P Q m (recoverDefault R n dv id r body lx ctx W)
  stabLoop : ∀ a lx ctx res W, LI P m lx → LogOK P Q W → ResOK P Q m res →
    Good P Q m (stabLoop R n a lx ctx res W)
  listLoop : ∀ v id lo hi a sep abort lx ctx W vals, LI P m lx → LogOK P Q W → ValsQ Q vals →
    Good P Q m (listLoop R n v id lo hi a sep abort lx ctx W vals)
  stabValue : ∀ dv id pat body lx ctx res W, LI P m lx → LogOK P Q W → ValQ Q dv → ResOK P Q m res →
    Good P Q m (stabValue R n dv id pat body lx ctx res W)

theorem spAt_zero : SpAt R P Q m 0 := by
  constructor <;> intros <;>
    simp_all [run, sepItem, interLoopStart, interLoop, untilStart, untilLoop, recoverDefault, stabLoop, listLoop,
      stabValue]

/-- goodness of `run … = (r, W')` in the shape the `split`s leave it -/
theorem Good_of_eq {x r : RRes × World} (h : Good P Q m x) (he : x = r) : Good P Q m r := he ▸ h

theorem run_step (hc : Closed R.E P m) (hQ : QEncl P Q) (n : Nat) (ih : SpAt R P Q m n) (g : G) (lx : Lx)
    (ctx : Ctx) (W : World) (hl : LI P m lx) (hW : LogOK P Q W) : Good P Q m (run R (n + 1) g lx ctx W) := by
  obtain ⟨ihr, ihsep, ihis, ihil, ihus, ihul, ihrd, ihsl, ihll, ihsv⟩ := ih
  have hpk := @LI_peek' R P m hc
  have hnx := @LI_next' R P m hc
  have hpk2 := @LI_peek R P m hc
  have hnx2 := @LI_next R P m hc
  have hts := @tokenSpan_Q P Q m hQ
  have hps := @parseSpan_Q P Q m hQ
  have hpts := @peekTokenSpan_getD_Q P Q m hQ
  cases g <;> simp only [run]
  case empty => exact ⟨⟨hl, trivial⟩, hW⟩
  case one k =>
    split
    · next t lx' hn =>
      have h1 := hnx hl hn
      split
      · exact ⟨⟨h1, trivial⟩, hW⟩
      · exact ⟨⟨hps hl, hts h1⟩, hW⟩
    · next lx' hn => exact ⟨⟨hps hl, hts (hnx hl hn)⟩, hW⟩
  case any ks =>
    split
    · exact ⟨trivial, hW⟩
    · split
      · next t lx' hp =>
        have h1 := hpk hl hp
        split
        · exact ⟨⟨hnx2 h1, trivial⟩, hW⟩
        · exact ⟨⟨hps hl, hpts h1⟩, hW⟩
      · next lx' hp => exact ⟨⟨hps hl, hts (hpk hl hp)⟩, hW⟩
  case anyIndex ks =>
    split
    · exact ⟨trivial, hW⟩
    · split
      · next t lx' hp =>
        have h1 := hpk hl hp
        split
        · exact ⟨⟨hnx2 h1, trivial⟩, hW⟩
        · exact ⟨⟨hps hl, hpts h1⟩, hW⟩
      · next lx' hp => exact ⟨⟨hps hl, hts (hpk hl hp)⟩, hW⟩
  case seq ks => exact ⟨seqLoop_spec hc hQ _ (hps hl) _ _ _ hl, hW⟩
  case seqCount ks => exact ⟨seqCountLoop_spec hc _ (hps hl) _ _ _ hl, hW⟩
  case pred p =>
    split
    · next lx' hn => exact ⟨⟨hps hl, hts (hnx hl hn)⟩, hW⟩
    · next t lx' hn =>
      have h1 := hnx hl hn
      split
      · exact ⟨⟨h1, trivial⟩, hW⟩
      · exact ⟨⟨hps hl, hts h1⟩, hW⟩
  case endOfText =>
    split
    · next t lx' hp => exact ⟨⟨hps hl, hpts (hpk hl hp)⟩, hW⟩
    · next lx' hp =>
      split
      · exact ⟨⟨hpk hl hp, trivial⟩, hW⟩
      · exact ⟨hps hl, hW⟩
  case both a b =>
    split
    · next v1 lx1 W1 h1 =>
      have g1 := Good_of_eq (ihr a lx ctx W hl hW) h1
      split
      · next v2 lx2 W2 h2 =>
        have g2 := Good_of_eq (ihr b lx1 ctx W1 g1.1.1 g1.2) h2
        exact ⟨⟨g2.1.1, g1.1.2, g2.1.2⟩, g2.2⟩
      · exact ihr _ _ _ _ g1.1.1 g1.2
    · exact ihr _ _ _ _ hl hW
  case left a b =>
    split
    · next v1 v2 lx2 W2 h =>
      have g := Good_of_eq (ihr _ lx ctx W hl hW) h
      exact ⟨⟨g.1.1, g.1.2.1⟩, g.2⟩
    · exact ihr _ _ _ _ hl hW
  case right a b =>
    split
    · next v1 v2 lx2 W2 h =>
      have g := Good_of_eq (ihr _ lx ctx W hl hW) h
      exact ⟨⟨g.1.1, g.1.2.2⟩, g.2⟩
    · exact ihr _ _ _ _ hl hW
  case center a b c =>
    split
    · next v1 lx1 W1 h1 =>
      have g1 := Good_of_eq (ihr a lx ctx W hl hW) h1
      split
      · next v2 lx2 W2 h2 =>
        have g2 := Good_of_eq (ihr b lx1 ctx W1 g1.1.1 g1.2) h2
        split
        · next v3 lx3 W3 h3 =>
          have g3 := Good_of_eq (ihr c lx2 ctx W2 g2.1.1 g2.2) h3
          exact ⟨⟨g3.1.1, g2.1.2⟩, g3.2⟩
        · exact ihr _ _ _ _ g2.1.1 g2.2
      · exact ihr _ _ _ _ g1.1.1 g1.2
    · exact ihr _ _ _ _ hl hW
  case map a =>
    split
    · next v lx1 W1 h =>
      have g := Good_of_eq (ihr a lx ctx W hl hW) h
      exact ⟨⟨g.1.1, g.1.2⟩, g.2⟩
    · exact ihr _ _ _ _ hl hW
  case someOf a =>
    split
    · next v lx1 W1 h =>
      have g := Good_of_eq (ihr a lx ctx W hl hW) h
      exact ⟨⟨g.1.1, g.1.2⟩, g.2⟩
    · exact ihr _ _ _ _ hl hW
  case discard a =>
    split
    · next v lx1 W1 h =>
      have g := Good_of_eq (ihr a lx ctx W hl hW) h
      exact ⟨⟨g.1.1, trivial⟩, g.2⟩
    · exact ihr _ _ _ _ hl hW
  case either a b =>
    split
    · next e W1 h =>
      have g := Good_of_eq (ihr a lx ctx W hl hW) h
      exact ihr _ _ _ _ hl g.2
    · exact ihr _ _ _ _ hl hW
  case maybe a =>
    split
    · next v lx1 W1 h =>
      have g := Good_of_eq (ihr a lx _ W hl hW) h
      exact ⟨⟨g.1.1, g.1.2⟩, g.2⟩
    · next e W1 h =>
      have g := Good_of_eq (ihr a lx _ W hl hW) h
      exact ⟨⟨hl, trivial⟩, g.2⟩
    · exact ihr _ _ _ _ hl hW
  case unrecoverable a => exact ihr _ _ _ _ hl hW
  case raw a => exact ihr _ _ _ _ hl hW
  case requireIf flag a =>
    split
    · split
      · next v lx1 W1 h =>
        have g := Good_of_eq (ihr a lx ctx W hl hW) h
        exact ⟨⟨g.1.1, g.1.2⟩, g.2⟩
      · exact ihr _ _ _ _ hl hW
    · exact ihr _ _ _ _ hl hW
  case cond flag a =>
    split
    · split
      · next v lx1 W1 h =>
        have g := Good_of_eq (ihr a lx ctx W hl hW) h
        exact ⟨⟨g.1.1, g.1.2⟩, g.2⟩
      · exact ihr _ _ _ _ hl hW
    · exact ⟨⟨hl, trivial⟩, hW⟩
  case implies a b =>
    split
    · next lx1 W1 h => exact Good_of_eq (ihr _ lx ctx W hl hW) h
    · next l lx1 W1 h =>
      have g1 := Good_of_eq (ihr _ lx ctx W hl hW) h
      split
      · next r lx2 W2 h2 =>
        have g2 := Good_of_eq (ihr b lx1 ctx W1 g1.1.1 g1.2) h2
        exact ⟨⟨g2.1.1, g1.1.2, g2.1.2⟩, g2.2⟩
      · exact ihr _ _ _ _ g1.1.1 g1.2
    · exact ihr _ _ _ _ hl hW
  case antecedent a b =>
    split
    · next l r lx2 W2 h =>
      have g := Good_of_eq (ihr _ lx ctx W hl hW) h
      exact ⟨⟨g.1.1, g.1.2.1⟩, g.2⟩
    · exact ihr _ _ _ _ hl hW
  case consequent a b =>
    split
    · next l r lx2 W2 h =>
      have g := Good_of_eq (ihr _ lx ctx W hl hW) h
      exact ⟨⟨g.1.1, g.1.2.2⟩, g.2⟩
    · exact ihr _ _ _ _ hl hW
  case condImplies a k b =>
    split
    · next lx1 W1 h => exact Good_of_eq (ihr _ lx ctx W hl hW) h
    · next l lx1 W1 h =>
      have g1 := Good_of_eq (ihr _ lx ctx W hl hW) h
      split <;> split
      all_goals first
        | exact ⟨⟨g1.1.1, g1.1.2, trivial⟩, g1.2⟩
        | (split
           · next r lx2 W2 h2 =>
             have g2 := Good_of_eq (ihr b lx1 ctx W1 g1.1.1 g1.2) h2
             exact ⟨⟨g2.1.1, g1.1.2, g2.1.2⟩, g2.2⟩
           · exact ihr _ _ _ _ g1.1.1 g1.2)
    · exact ihr _ _ _ _ hl hW
  case filterWith mask a =>
    have h1 := LI_setFilter hc (Option.some mask) hl
    split
    · next v lx2 W2 h =>
      have g := Good_of_eq (ihr a _ ctx W h1 hW) h
      exact ⟨⟨LI_setFilter hc _ g.1.1, g.1.2⟩, g.2⟩
    · exact ihr _ _ _ _ h1 hW
  case unfiltered a =>
    have h1 := LI_setFilter hc Option.none hl
    split
    · next v lx2 W2 h =>
      have g := Good_of_eq (ihr a _ ctx W h1 hW) h
      exact ⟨⟨LI_setFilter hc _ g.1.1, g.1.2⟩, g.2⟩
    · exact ihr _ _ _ _ h1 hW
  case sub a => exact ihr _ _ _ _ (LI_intoSublexer hc hl) hW
  case spanned a =>
    have h1 := hpk2 hl
    split
    · next v lx2 W2 h =>
      have g := Good_of_eq (ihr a _ ctx W h1 hW) h
      refine ⟨⟨g.1.1, hQ _ _ (spanStart_P h1) ?_, g.1.2⟩, g.2⟩
      split
      · exact spanStart_P h1
      · exact (parseSpan_pos g.1.1.1).2
    · exact ihr _ _ _ _ h1 hW
  case text a =>
    have h1 := hpk2 hl
    split
    · next v lx2 W2 h =>
      have g := Good_of_eq (ihr a _ ctx W h1 hW) h
      split
      · exact ⟨⟨g.1.1, trivial⟩, g.2⟩
      · exact ⟨trivial, g.2⟩
    · exact ihr _ _ _ _ h1 hW
  case repeat_ v lo hi a => exact countOf_spec _ _ (ihis _ _ _ _ _ _ _ hl hW)
  case intersperse v lo hi a sep => exact countOf_spec _ _ (ihis _ _ _ _ _ _ _ hl hW)
  case intersperseDefault lo hi a sepk => exact ihis _ _ _ _ _ _ _ hl hW
  case repeatUntil v lo hi stop a => exact countOf_spec _ _ (ihus _ _ _ _ _ _ _ _ hl hW)
  case intersperseUntil v lo hi stop a sep => exact countOf_spec _ _ (ihus _ _ _ _ _ _ _ _ hl hW)
  case recover v id a r =>
    split
    · exact ihrd _ _ _ _ _ _ _ hl hW trivial
    · exact ihrd _ _ _ _ _ _ _ hl hW trivial
  case stabilize a =>
    have g := ihr a lx ctx W hl hW
    exact ihsl _ _ _ _ _ hl g.2 g.1
  case bracket v opens a closes abort =>
    split
    · exact ⟨trivial, hW⟩
    · have hm := matchLoop_spec hc hQ opens closes abort (Span.at_ lx.cursor) (at_Q hQ hl.1.2.2.1) (lx.len + 2)
        lx Option.none [] hl (by simp)
      split
      · exact ⟨trivial, hW⟩
      · exact ⟨trivial, hW⟩
      · next e he => rw [he] at hm; exact ⟨hm, hW⟩
      · next o c idx he =>
        rw [he] at hm
        have hin := LI_intoSublexer hc (hnx2 hm.1)
        have hcl := hnx2 hm.2
        split
        · next x lx' W1 h =>
          have g := Good_of_eq (ihr _ _ ctx W hin hW) h
          refine ⟨⟨hcl, ?_⟩, g.2⟩
          split
          · exact ⟨g.1.2, trivial⟩
          · exact g.1.2
        · next e W1 h =>
          have g := Good_of_eq (ihr _ _ ctx W hin hW) h
          split
          · next e' W2 hs =>
            have := sendError_spec hs g.1 g.2
            exact ⟨this.2 _ rfl, this.1⟩
          · next W2 hs =>
            have := sendError_spec hs g.1 g.2
            refine ⟨⟨hcl, ?_⟩, this.1⟩
            split <;> split <;> simp [ValQ]
        · exact ihr _ _ _ _ hin hW
  case upTo a abort =>
    split
    · next v lx1 W1 h =>
      have g := Good_of_eq (ihr a lx ctx W hl hW) h
      split
      · next lx2 hp => exact ⟨⟨hpk g.1.1 hp, g.1.2⟩, g.2⟩
      · next t lx2 hp =>
        have h2 := hpk g.1.1 hp
        split
        · exact ⟨⟨h2, g.1.2⟩, g.2⟩
        · exact ⟨⟨hps h2, (LI_advanceTo hc _ h2).1.2.2.1⟩, g.2⟩
    · exact ihr _ _ _ _ hl hW
  case list v id lo hi a sep abort =>
    generalize (if (v % 2 == 0) = true then Option.none else hi) = hi'
    generalize (if (v % 2 == 0) = true then 0 else lo) = lo'
    split
    · exact ⟨⟨hl, trivial⟩, hW⟩
    · split
      · exact ⟨trivial, hW⟩
      · exact ihll _ _ _ _ _ _ _ _ _ _ _ hl hW trivial
  case probe tag =>
    exact ⟨⟨hl, trivial⟩, LogOK_of_log_eq rfl
      (sendError_spec (P := P) (Q := Q) (rfl : sendError ctx (mkErr (.probe tag)) W = (_, _)) trivial hW).1⟩
  case ctxPushed tag a => exact ihr _ _ _ _ hl hW
  case ctxPush tag a => exact ihr _ _ _ _ hl hW
  case ctxLocked flag a => exact ihr _ _ _ _ hl hW

theorem spAt_succ (hc : Closed R.E P m) (hQ : QEncl P Q) (n : Nat) (ih : SpAt R P Q m n) : SpAt R P Q m (n + 1) := by
  have hrun := run_step hc hQ n ih
  obtain ⟨ihr, ihsep, ihis, ihil, ihus, ihul, ihrd, ihsl, ihll, ihsv⟩ := ih
  have hpk := @LI_peek' R P m hc
  have hnx2 := @LI_next R P m hc
  have hps := @parseSpan_Q P Q m hQ
  refine ⟨hrun, ?_, ?_, ?_, ?_, ?_, ?_, ?_, ?_, ?_⟩
  · intro a sep lx ctx W hl hW; simp only [sepItem]
    split
    · next v lx1 W1 h =>
      have g := Good_of_eq (ihr sep lx ctx W hl hW) h
      exact ihr _ _ _ _ g.1.1 g.2
    · exact ihr _ _ _ _ hl hW
  · intro lo hi a sep lx ctx W hl hW; simp only [interLoopStart]
    split
    · exact ⟨trivial, hW⟩
    split
    · exact ⟨⟨hl, trivial⟩, hW⟩
    split
    · next v lx1 W1 h =>
      have g := Good_of_eq (ihr a lx ctx W hl hW) h
      exact ihil _ _ _ _ _ _ _ _ g.1.1 g.2 ⟨g.1.2, trivial⟩
    · next e W1 h =>
      have g := Good_of_eq (ihr a lx ctx W hl hW) h
      split
      · exact ⟨⟨hl, trivial⟩, g.2⟩
      · exact g
    · exact ihr _ _ _ _ hl hW
  · intro lo hi a sep vals lx ctx W hl hW hv; simp only [interLoop]
    split
    · split
      · next v lx1 W1 h =>
        have g := Good_of_eq (ihsep a sep lx ctx W hl hW) h
        exact ihil _ _ _ _ _ _ _ _ g.1.1 g.2 ⟨g.1.2, hv⟩
      · exact ihsep _ _ _ _ _ hl hW
    · split
      · split
        · next v lx1 W1 h =>
          have g := Good_of_eq (ihsep a sep lx ctx W hl hW) h
          split
          · exact ⟨⟨g.1.1, ValsQ_reverse (l := v :: vals) ⟨g.1.2, hv⟩⟩, g.2⟩
          · exact ihil _ _ _ _ _ _ _ _ g.1.1 g.2 ⟨g.1.2, hv⟩
        · next e W1 h =>
          have g := Good_of_eq (ihsep a sep lx ctx W hl hW) h
          exact ⟨⟨hl, ValsQ_reverse hv⟩, g.2⟩
        · exact ihsep _ _ _ _ _ hl hW
      · exact ⟨⟨hl, ValsQ_reverse hv⟩, hW⟩
  · intro lo hi stop a sep lx ctx W hl hW; simp only [untilStart]
    split
    · exact ⟨trivial, hW⟩
    split
    · exact ⟨⟨hl, trivial⟩, hW⟩
    split
    · next v lxs W0 h =>
      have g0 := Good_of_eq (ihr stop lx ctx W hl hW) h
      exact ⟨⟨hl, trivial⟩, g0.2⟩
    · next e W0 h =>
      have g0 := Good_of_eq (ihr stop lx ctx W hl hW) h
      split
      · next v lx1 W1 h1 =>
        have g1 := Good_of_eq (ihr a lx ctx W0 hl g0.2) h1
        exact ihul _ _ _ _ _ _ _ _ _ g1.1.1 g1.2 ⟨g1.1.2, trivial⟩
      · next e1 W1 h1 =>
        have g1 := Good_of_eq (ihr a lx ctx W0 hl g0.2) h1
        split
        · exact ⟨⟨hl, trivial⟩, g1.2⟩
        · exact g1
      · exact ihr _ _ _ _ hl g0.2
    · exact ihr _ _ _ _ hl hW
  · intro lo hi stop a sep vals lx ctx W hl hW hv; simp only [untilLoop]
    split
    · split
      · next v lxs W0 h =>
        have g0 := Good_of_eq (ihr stop lx ctx W hl hW) h
        exact ⟨⟨hl, ValsQ_reverse hv⟩, g0.2⟩
      · next e W0 h =>
        have g0 := Good_of_eq (ihr stop lx ctx W hl hW) h
        split
        · next v lx1 W1 h1 =>
          have g := Good_of_eq (ihsep a sep lx ctx W0 hl g0.2) h1
          exact ihul _ _ _ _ _ _ _ _ _ g.1.1 g.2 ⟨g.1.2, hv⟩
        · exact ihsep _ _ _ _ _ hl g0.2
      · exact ihr _ _ _ _ hl hW
    · split
      · split
        · next v lxs W0 h =>
          have g0 := Good_of_eq (ihr stop lx ctx W hl hW) h
          exact ⟨⟨hl, ValsQ_reverse hv⟩, g0.2⟩
        · next e W0 h =>
          have g0 := Good_of_eq (ihr stop lx ctx W hl hW) h
          split
          · next v lx1 W1 h1 =>
            have g := Good_of_eq (ihsep a sep lx ctx W0 hl g0.2) h1
            split
            · exact ⟨⟨g.1.1, ValsQ_reverse (l := v :: vals) ⟨g.1.2, hv⟩⟩, g.2⟩
            · exact ihul _ _ _ _ _ _ _ _ _ g.1.1 g.2 ⟨g.1.2, hv⟩
          · next e1 W1 h1 =>
            have g := Good_of_eq (ihsep a sep lx ctx W0 hl g0.2) h1
            exact ⟨⟨hl, ValsQ_reverse hv⟩, g.2⟩
          · exact ihsep _ _ _ _ _ hl g0.2
        · exact ihr _ _ _ _ hl hW
      · exact ⟨⟨hl, ValsQ_reverse hv⟩, hW⟩
  · intro dv id r body lx ctx W hl hW hdv; simp only [recoverDefault]
    have hW' := register_LogOK id r hW
    split
    · next e W1 h =>
      have g := Good_of_eq (ihr body lx ctx _ hl hW') h
      split
      · next e' W2 hs =>
        have := sendError_spec hs g.1 g.2
        exact ⟨this.2 _ rfl, this.1⟩
      · next W2 hs =>
        have s := sendError_spec hs g.1 g.2
        split
        · next lx' W3 ha =>
          have := advanceToRecover_spec hc ha (LI_setRecoverState _ hl) s.1
          exact ⟨⟨this.1 _ rfl, hdv⟩, this.2⟩
        · next W3 ha =>
          have := advanceToRecover_spec hc ha (LI_setRecoverState _ hl) s.1
          exact ⟨trivial, this.2⟩
    · exact ihr _ _ _ _ hl hW'
  · intro a lx ctx res W hl hW hres
    cases res <;> simp only [stabLoop]
    · exact ⟨⟨LI_setRecoverState _ hres.1, hres.2⟩, hW⟩
    · split
      · next lx1 W1 ha =>
        have s := advanceToRecover_spec hc ha hl hW
        split
        · exact ⟨hres, s.2⟩
        · have g := ihr (.unrecoverable a) lx1 ctx W1 (s.1 _ rfl) s.2
          exact ihsl _ _ _ _ _ (s.1 _ rfl) g.2 g.1
      · next W1 ha => exact ⟨trivial, (advanceToRecover_spec hc ha hl hW).2⟩
    · exact ⟨trivial, hW⟩
    · exact ⟨trivial, hW⟩
  · intro v id lo hi a sep abort lx ctx W vals hl hW hv
    simp only [listLoop]
    have hfin : ∀ (lexer : Lx) (vals : List Val) (W : World), LI P m lexer → ValsQ Q vals → LogOK P Q W →
        Good P Q m (if (!(vals.isEmpty || lexer.recover.isNone)) = true then (RRes.panic, W)
          else
            if vals.length < lo then
              match sendError ctx (mkErr (ErrBody.count lexer.parseSpan vals.length lo hi)) W with
              | (Option.some e', W1) => (RRes.err e', W1)
              | (Option.none, W1) => (RRes.ok (Val.list vals.reverse) lexer, W1)
            else (RRes.ok (Val.list vals.reverse) lexer, W)) := by
      intro lexer vals W hl hv hW
      split
      · exact ⟨trivial, hW⟩
      · split
        · next hlt =>
          split
          · next e' W1 hs =>
            have := sendError_spec (P := P) (Q := Q) hs ⟨hps hl, hlt⟩ hW
            exact ⟨this.2 _ rfl, this.1⟩
          · next W1 hs =>
            have := sendError_spec (P := P) (Q := Q) hs ⟨hps hl, hlt⟩ hW
            exact ⟨⟨hl, ValsQ_reverse hv⟩, this.1⟩
        · exact ⟨⟨hl, ValsQ_reverse hv⟩, hW⟩
    split
    · next lexer hp => exact hfin _ _ _ (hpk hl hp) hv hW
    · next tok lexer hp =>
      have h0 := hpk hl hp
      split
      · split
        · exact hfin _ _ _ h0 hv hW
        · split
          · next x lx' W1 h =>
            have g := Good_of_eq (ihr _ lexer ctx W h0 hW) h
            exact hfin _ _ _ h0 ⟨g.1.2, hv⟩ g.2
          · next v' lx' W1 h =>
            have g := Good_of_eq (ihr _ lexer ctx W h0 hW) h
            exact hfin _ _ _ h0 hv g.2
          · exact ihr _ _ _ _ h0 hW
      · have hdv : ValQ Q (if v < 2 then Val.none else Val.dflt) := by split <;> trivial
        have g1 := ihrd (if v < 2 then Val.none else Val.dflt) id (Rec.sepOrAbort sep abort)
          ((if v < 2 then a.someOf else a).upTo (sep :: abort)) lexer ctx W h0 hW hdv
        have g2 := ihsv (if v < 2 then Val.none else Val.dflt) id (Rec.sepOrAbort sep abort)
          ((if v < 2 then a.someOf else a).upTo (sep :: abort)) lexer ctx _ _ h0 g1.2 hdv g1.1
        split
        · next x lexer1 W1 hs =>
          have g := Good_of_eq g2 hs
          have hv' : ValsQ Q (x :: vals) := ⟨g.1.2, hv⟩
          split
          · exact hfin _ _ _ g.1.1 hv' g.2
          · split
            · next lexer2 hp2 => exact hfin _ _ _ (hpk g.1.1 hp2) hv' g.2
            · next t2 lexer2 hp2 =>
              have h2 := hpk g.1.1 hp2
              split
              · exact hfin _ _ _ h2 hv' g.2
              · split
                · exact hfin _ _ _ h2 hv' g.2
                · have g3 := ihrd Val.dflt id (Rec.sepOrAbort sep abort) (G.one sep).discard lexer2 ctx W1 h2 g.2 trivial
                  split
                  · next v1 lexer3 W2 hr =>
                    have g4 := Good_of_eq g3 hr
                    exact ihll _ _ _ _ _ _ _ _ _ _ _ (LI_intoSublexer hc g4.1.1) g4.2 hv'
                  · exact g3
        · exact g2
  · intro dv id pat body lx ctx res W hl hW hdv hres
    cases res <;> simp only [stabValue]
    · exact ⟨⟨LI_setRecoverState _ hres.1, hres.2⟩, hW⟩
    · split
      · next lx1 W1 ha =>
        have s := advanceToRecover_spec hc ha hl hW
        split
        · exact ⟨hres, s.2⟩
        · have g := ihrd dv id pat body lx1 ctx.withoutSink W1 (s.1 _ rfl) s.2 hdv
          exact ihsv _ _ _ _ _ _ _ _ (s.1 _ rfl) g.2 hdv g.1
      · next W1 ha => exact ⟨trivial, (advanceToRecover_spec hc ha hl hW).2⟩
    · exact ⟨trivial, hW⟩
    · exact ⟨trivial, hW⟩

theorem spAt (hc : Closed R.E P m) (hQ : QEncl P Q) : ∀ n, SpAt R P Q m n
  | 0 => spAt_zero
  | n + 1 => spAt_succ hc hQ n (spAt hc hQ n)

end

theorem QEncl_SpanP (P : Pos → Prop) : QEncl P (SpanP P) := fun _ _ ha hb => enclosing_pos ha hb

theorem QEncl_le : QEncl (fun _ => True) (fun x => x.s.byte ≤ x.e.byte) := fun a b _ _ => enclosing_le a b

/-- Every span of every error returned or logged, every span captured in a
value, and every position of the lexer handed back, satisfy `P`. -/
theorem run_spans (R : RunEnv) (P : Pos → Prop) (n : Nat) (g : G) (lx : Lx) (ctx : Ctx) (W : World)
    (hc : Closed R.E P lx.metrics) (hp : PosOK P lx) (hW : ∀ e ∈ W.log, ErrP P e.body) :
    (∀ v lx', (run R n g lx ctx W).1 = .ok v lx' → PosOK P lx' ∧ ValP P v) ∧
    (∀ e, (run R n g lx ctx W).1 = .err e → ErrP P e.body) ∧
    (∀ e ∈ (run R n g lx ctx W).2.log, ErrP P e.body) := by
  have h := (spAt (Q := SpanP P) hc (QEncl_SpanP P) n).run g lx ctx W ⟨hp, rfl⟩ hW
  refine ⟨?_, ?_, h.2⟩
  · intro v lx' he
    have h1 := h.1; rw [he] at h1
    exact ⟨h1.1.1, h1.2⟩
  · intro e he
    have h1 := h.1; rw [he] at h1
    exact h1

/-- Every span of every error returned or logged and every span captured in a
value has start ≤ end. -/
theorem run_wf (R : RunEnv) (n : Nat) (g : G) (lx : Lx) (ctx : Ctx) (W : World)
    (hW : ∀ e ∈ W.log, ErrWF e.body) :
    (∀ v lx', (run R n g lx ctx W).1 = .ok v lx' → ValWF v) ∧
    (∀ e, (run R n g lx ctx W).1 = .err e → ErrWF e.body) ∧
    (∀ e ∈ (run R n g lx ctx W).2.log, ErrWF e.body) := by
  have hc : Closed R.E (fun _ => True) lx.metrics := fun _ _ _ _ _ _ _ => trivial
  have hp : PosOK (fun _ => True) lx := ⟨trivial, trivial, trivial, fun _ _ => ⟨trivial, trivial⟩⟩
  have h := (spAt hc QEncl_le n).run g lx ctx W ⟨hp, rfl⟩ hW
  refine ⟨?_, ?_, h.2⟩
  · intro v lx' he
    have h1 := h.1; rw [he] at h1
    exact h1.2
  · intro e he
    have h1 := h.1; rw [he] at h1
    exact h1

end RunSpans
end Tephra
