/-
  TephraProofs.TermWitness — C02: a consequence of finding F07r for termination.

  `repeat(0, None, recover_option(stabilize(one(a)), recover_after(';')))` on the text
  `d ; c ;` (token kinds 3 5 2 5, table scanner, no filter) with a sink never returns.

  * iteration 1 (from the start): `one(a)` fails on `d`, the report goes to the sink,
    `advance_to_recover` skips `d ;` and stops peeked at `c` (cursor 2, recover state
    of closure 7, flag clear): `ok(None)`.
  * every later iteration (lexer `lxS`, flag clear): `one(a)` fails on `c`; the retry
    loop of `stabilize` asks the lexer (which carries the state of closure 7) to advance:
    the scan sees `c`, then `;` (flag set), then the end of the text: `Err(RecoverError)`
    **with the flag left set** (F07r).  The enclosing `recover_option` sends that error
    to the sink and asks the same closure, from the lexer it was given: the closure,
    flag set, answers "finished" on the very first token `c` and resets the flag.  The
    combinator returns `ok(None)` with the lexer it was given — the repetition body
    succeeds without consuming anything, from a state equal to the one it started in
    (only the sink log is one entry longer).

  `first_iter`, `stuck_iter` (symbolic fuel, symbolic log), `body_not_productive`,
  `hang` (`∀ n`), `not_repOK`; contrasts: `noStab_*` (no nested `stabilize`: terminates,
  flag left set), `short_*` (same grammar, text `d ; c`: terminates), `before_*`
  (`recover_before(';')` body: does NOT terminate either — it never consumes the `;`;
  this is the legitimate use of the productivity hypothesis, independent of F07r).
-/
import TephraProofs.RunMatchers
import TephraProofs.Termination
import TephraProofs.BracketRefine

set_option linter.unusedVariables false
set_option linter.unusedSimpArgs false

namespace Tephra.TermWitness
open Tephra Tephra.Term Tephra.BracketRefine.Witness Tephra.LexIter

/-- text `d ; c ;`: kinds 3 5 2 5, one byte each -/
def R : RunEnv := ⟨tabEnv [3, 5, 2, 5], []⟩
def m0 : Metrics := ⟨.lf, 4⟩
def lx0 : Lx := Lexer.new 0 m0 4
def ctx1 : Ctx := ⟨true, [], false⟩
/-- `recover_option(stabilize(one(a)), recover_after(';'))`, closure id 7 -/
def body : G := .recover 0 7 (.stabilize (.one 0)) (.after 5)
/-- `repeat(0, None, body)` -/
def g : G := .repeat_ 0 0 none body

theorem ok0 : ScanOK R.E m0 4 := tab_ok [3, 5, 2, 5] m0

def P (b : Nat) : Pos := ⟨b, 0, b⟩

/-- the lexers of this text that occur: stored recover state, lookahead, parse start,
token start, cursor -/
def mk (rec : Option Nat) (buf : Option (Buf Nat Tok)) (ps ts cur : Nat) : Lx :=
  { metrics := m0, len := 4, scanner := 0, filter := none, recover := rec, buffer := buf,
    parseStart := P ps, tokenStart := P ts, cursor := P cur }

/-- lookahead: the token of kind `k` at byte `i` -/
def bf (i k : Nat) : Buf Nat Tok := ⟨0, P i, P (i + 1), ⟨k, 0⟩⟩

/-- the stuck lexer: after `d ;`, peeked at `c`, recover state of closure 7 -/
def lxS : Lx := mk (some 7) (some (bf 2 2)) 0 1 2

theorem lx0_eq : lx0 = mk none none 0 0 0 := rfl

theorem wfS : WF m0 4 lxS := by
  refine ⟨rfl, rfl, by decide, ?_⟩
  intro b hb
  cases hb
  decide

/-! ### lexer steps (by evaluation) -/

theorem next_00 (r : Option Nat) : (mk r none 0 0 0).next R.E = (some ⟨3, 0⟩, mk r none 0 0 1) := by
  simp [mk, P, R, Lexer.next, Lexer.nextLoop, tabEnv, scanTab, Lexer.filtered]

theorem peek_00 (r : Option Nat) : (mk r none 0 0 0).peek R.E = (some ⟨3, 0⟩, mk r (some (bf 0 3)) 0 0 0) := by
  simp [mk, P, bf, R, Lexer.peek, Lexer.bufferNext, Lexer.bufferLoop, tabEnv, scanTab, Lexer.filtered]

theorem next_b0 (r : Option Nat) : ((mk r (some (bf 0 3)) 0 0 0).next R.E).2 = mk r none 0 0 1 := by
  simp [mk, P, bf, Lexer.next]

theorem peek_01 (r : Option Nat) : (mk r none 0 0 1).peek R.E = (some ⟨5, 0⟩, mk r (some (bf 1 5)) 0 0 1) := by
  simp [mk, P, bf, R, Lexer.peek, Lexer.bufferNext, Lexer.bufferLoop, tabEnv, scanTab, Lexer.filtered]

theorem next_b1 (r : Option Nat) : ((mk r (some (bf 1 5)) 0 0 1).next R.E).2 = mk r none 0 1 2 := by
  simp [mk, P, bf, Lexer.next]

theorem peek_12 (r : Option Nat) : (mk r none 0 1 2).peek R.E = (some ⟨2, 0⟩, mk r (some (bf 2 2)) 0 1 2) := by
  simp [mk, P, bf, R, Lexer.peek, Lexer.bufferNext, Lexer.bufferLoop, tabEnv, scanTab, Lexer.filtered]

theorem peek_S : lxS.peek R.E = (some ⟨2, 0⟩, lxS) := by
  simp [lxS, mk, P, bf, Lexer.peek, Lexer.bufferNext]

theorem next_S : lxS.next R.E = (some ⟨2, 0⟩, mk (some 7) none 0 2 3) := by
  simp [lxS, mk, P, bf, Lexer.next]

theorem peek_23 (r : Option Nat) : (mk r none 0 2 3).peek R.E = (some ⟨5, 0⟩, mk r (some (bf 3 5)) 0 2 3) := by
  simp [mk, P, bf, R, Lexer.peek, Lexer.bufferNext, Lexer.bufferLoop, tabEnv, scanTab, Lexer.filtered]

theorem next_b3 (r : Option Nat) : ((mk r (some (bf 3 5)) 0 2 3).next R.E).2 = mk r none 0 3 4 := by
  simp [mk, P, bf, Lexer.next]

theorem peek_34 (r : Option Nat) : (mk r none 0 3 4).peek R.E = (none, mk r none 0 3 4) := by
  simp [mk, P, Lexer.peek]

/-! ### worlds: closure 7 registered, flag clear (`WS`) / set (`WA`) -/

def WS (L : List PErr) (Pr : List String) : World := ⟨[(7, .after 5)], [], L, Pr⟩
def WA (L : List PErr) (Pr : List String) : World := ⟨[(7, .after 5)], [7], L, Pr⟩

theorem ask_other (L Pr) (t : Tok) (ht : (t.kind == 5) = false) : askRecover (WS L Pr) 7 t = (false, WS L Pr) := by
  simp [askRecover, WS, ht]

theorem ask_semi (L Pr) : askRecover (WS L Pr) 7 ⟨5, 0⟩ = (false, WA L Pr) := by
  simp [askRecover, WS, WA]

theorem ask_armed (L Pr) (t : Tok) : askRecover (WA L Pr) 7 t = (true, WS L Pr) := by
  simp [askRecover, WS, WA]

theorem reg_init : World.init.register 7 (.after 5) = WS [] [] := by
  simp [World.register, World.init, WS]

theorem reg_S (L Pr) : (WS L Pr).register 7 (.after 5) = WS L Pr := by
  simp [World.register, WS]

/-- the report of iteration 1: `one(a)` found `d` -/
def e0 : PErr := ⟨[], .unexp ⟨P 0, P 0⟩ ⟨P 0, P 1⟩ (.token 0) (.token ⟨3, 0⟩)⟩
/-- the error of `one(a)` on `c` (never reported: `stabilize` replaces it) -/
def eC : PErr := ⟨[], .unexp ⟨P 0, P 2⟩ ⟨P 2, P 3⟩ (.token 0) (.token ⟨2, 0⟩)⟩
/-- the report of every later iteration: the recovery error of the nested `stabilize` -/
def eR : PErr := ⟨[], .recover⟩

theorem send1 (e : PErr) (W : World) : sendError ctx1 e W = (none, { W with log := W.log ++ [e] }) := by
  cases e
  simp [sendError, ctx1, Ctx.apply]

/-- iteration 1, the recovery scan: `d` no, `;` arms the flag, `c` fires and resets it -/
theorem adv_first (L Pr) : advanceToRecover R (lx0.setRecoverState (some 7)) (WS L Pr) = (some lxS, WS L Pr) := by
  have h0 : lx0.setRecoverState (some 7) = mk (some 7) none 0 0 0 := rfl
  rw [h0]
  have hrec : (mk (some 7) none 0 0 0).recover = some 7 := rfl
  have hlen : (mk (some 7) none 0 0 0).len = 4 := rfl
  unfold advanceToRecover
  rw [hrec, hlen]
  simp only [recoverLoop, peek_00, ask_other L Pr ⟨3, 0⟩ rfl, next_b0, peek_01, ask_semi, next_b1, peek_12, ask_armed]
  simp [lxS]

/-- a later iteration, the scan of the nested `stabilize`: `c` no, `;` arms the flag,
end of text: `Err(RecoverError)` and the flag stays set (F07r) -/
theorem adv_stab (L Pr) : advanceToRecover R lxS (WS L Pr) = (none, WA L Pr) := by
  have hrec : lxS.recover = some 7 := rfl
  have hlen : lxS.len = 4 := rfl
  unfold advanceToRecover
  rw [hrec, hlen]
  simp only [recoverLoop, peek_S, ask_other L Pr ⟨2, 0⟩ rfl, next_S, peek_23, ask_semi, next_b3, peek_34]
  simp

/-- a later iteration, the scan of `recover_option` itself, entered with the flag set:
"finished" at the first token, without moving -/
theorem adv_armed (L Pr) : advanceToRecover R lxS (WA L Pr) = (some lxS, WS L Pr) := by
  have hrec : lxS.recover = some 7 := rfl
  have hlen : lxS.len = 4 := rfl
  unfold advanceToRecover
  rw [hrec, hlen]
  simp only [recoverLoop, peek_S, ask_armed]
  simp

/-! ### the iterations -/

theorem one_first (n : Nat) (W : World) : run R (n + 1) (.one 0) lx0 ctx1 W = (.err e0, W) := by
  rw [lx0_eq]
  simp only [run, next_00]
  simp [mkErr, e0, mk, P, Lexer.parseSpan, Lexer.tokenSpan, Span.enclosing]

theorem one_S (n : Nat) (W : World) : run R (n + 1) (.one 0) lxS ctx1 W = (.err eC, W) := by
  simp only [run, next_S]
  simp [mkErr, eC, lxS, mk, P, Lexer.parseSpan, Lexer.tokenSpan, Span.enclosing]

/-- `stabilize(one(a))` at the start: no recover state in the lexer, one attempt -/
theorem stab_first (n : Nat) (W : World) : run R (n + 2) (.stabilize (.one 0)) lx0 ctx1 W = (.err e0, W) := by
  have hrec : lx0.recover = none := rfl
  simp only [run, one_first, stabLoop, advanceToRecover, hrec]
  simp

/-- `stabilize(one(a))` on the stuck lexer: recovery error, flag left set -/
theorem stab_S (n : Nat) (L Pr) :
    run R (n + 2) (.stabilize (.one 0)) lxS ctx1 (WS L Pr) = (.err eR, WA L Pr) := by
  simp only [run, one_S, stabLoop, adv_stab]
  rfl

/-- **iteration 1** -/
theorem first_iter (n : Nat) : run R (n + 5) body lx0 ctx1 World.init = (.ok .none lxS, WS [e0] []) := by
  unfold body
  rw [run]
  simp only [Nat.zero_mod, beq_self_eq_true, if_true]
  rw [recoverDefault, reg_init]
  simp only [run, stab_first, send1]
  have : ({ WS [] [] with log := (WS [] []).log ++ [e0] } : World) = WS [e0] [] := rfl
  rw [this, adv_first]

/-- **every later iteration**: from the stuck lexer and a world with the flag clear
(any log, any probe log), the body returns `ok(None)` with the *same* lexer and the
same world but for one more entry in the log. -/
theorem stuck_iter (n : Nat) (L Pr) :
    run R (n + 5) body lxS ctx1 (WS L Pr) = (.ok .none lxS, WS (L ++ [eR]) Pr) := by
  have hbase : lxS.setRecoverState (some 7) = lxS := rfl
  unfold body
  rw [run]
  simp only [Nat.zero_mod, beq_self_eq_true, if_true]
  rw [recoverDefault, reg_S, hbase]
  simp only [run, stab_S, send1]
  have : ({ WA L Pr with log := (WA L Pr).log ++ [eR] } : World) = WA (L ++ [eR]) Pr := rfl
  rw [this, adv_armed]

/-! ### task 1: the body is not productive -/

/-- the concrete instance: from the well-formed lexer `lxS` and the world reached after
iteration 1, the body succeeds and returns the very lexer it was given. -/
theorem body_stuck :
    WF m0 4 lxS ∧ (run R 5 body lxS ctx1 (WS [e0] [])).1 = .ok .none lxS ∧
      (run R 5 body lx0 ctx1 World.init) = (.ok .none lxS, WS [e0] []) :=
  ⟨wfS, by rw [stuck_iter 0], first_iter 0⟩

theorem body_not_productive : ¬ Prog R m0 4 body := by
  intro h
  have := h 5 lxS ctx1 (WS [e0] []) .none lxS wfS (by rw [stuck_iter 0])
  exact Nat.lt_irrefl _ this

theorem not_repOK : ¬ RepOK R m0 4 g := fun h => body_not_productive h.1

/-! ### task 2: the repetition never returns -/

/-- `countOf` keeps "out of fuel". -/
theorem countOf_fuel_eq {v : Nat} {r : RRes × World} (h : r.1 = .fuel) : (countOf v r).1 = .fuel := by
  obtain ⟨r1, W1⟩ := r
  simp only at h
  subst h
  unfold countOf
  split <;> rfl

/-- a result that is "out of fuel" passes through the `| r => r` arms -/
theorem fst_fuel {r : RRes × World} (h : r.1 = .fuel) : ∃ W, r = (.fuel, W) := by
  obtain ⟨r1, W1⟩ := r
  exact ⟨W1, by simp only at h; rw [h]⟩

section Generic
variable {R : RunEnv} {body : G} {lxS : Lx} {ctx : Ctx} {Inv : World → Prop} {k : Nat}

/-- one round of the loop of `repeat`, at any fuel: out of fuel, or back at the same lexer
in a world satisfying the invariant. -/
theorem sepItem_inplace (step : ∀ n W, Inv W → ∃ v W', run R (n + k) body lxS ctx W = (.ok v lxS, W') ∧ Inv W')
    (n : Nat) (W : World) (hW : Inv W) :
    (sepItem R n body .empty lxS ctx W).1 = .fuel ∨
      ∃ v W', sepItem R n body .empty lxS ctx W = (.ok v lxS, W') ∧ Inv W' := by
  obtain ⟨v, W', hr, hW'⟩ := step (n + 1) W hW
  have hk : sepItem R (n + k + 2) body .empty lxS ctx W = (.ok v lxS, W') := by
    rw [sepItem]
    have he : run R (n + k + 1) .empty lxS ctx W = (.ok .unit lxS, W) := by rw [run]
    simp only [he]
    rw [show n + k + 1 = n + 1 + k by omega]
    exact hr
  by_cases hf : (sepItem R n body .empty lxS ctx W).1 = .fuel
  · exact Or.inl hf
  · right
    refine ⟨v, W', ?_, hW'⟩
    rw [← (mono_all R n (n + k + 2) (by omega)).sepItem _ _ _ _ _ hf, hk]

/-- **the loop invariant**: if from `lxS`, in every world satisfying `Inv`, the repeated
parser succeeds and returns `lxS` in a world satisfying `Inv`, then the loop of an
unbounded `repeat` started there produces no result — whatever the fuel, the lower
bound, and the values accumulated so far. -/
theorem interLoop_inplace (step : ∀ n W, Inv W → ∃ v W', run R (n + k) body lxS ctx W = (.ok v lxS, W') ∧ Inv W')
    (lo : Nat) : ∀ (n : Nat) (vals : List Val) (W : World), Inv W →
      (interLoop R n lo none body .empty vals lxS ctx W).1 = .fuel := by
  intro n
  induction n with
  | zero => intro vals W _; rw [interLoop]
  | succ n ih =>
    intro vals W hW
    rw [interLoop]
    simp only [hiAllows, if_true, hiReached, Bool.false_eq_true, if_false]
    rcases sepItem_inplace step n W hW with h | ⟨v, W', h, hW'⟩
    · obtain ⟨W2, h2⟩ := fst_fuel h
      rw [h2]
      split <;> rfl
    · rw [h]
      simp only [ih _ _ hW', ite_self]

/-- **necessity of productivity, in general**: an unbounded `repeat` whose repeated parser,
after a first successful iteration, succeeds in place from an invariant set of worlds
exhausts every fuel. -/
theorem repeat_inplace_hang (step : ∀ n W, Inv W → ∃ v W', run R (n + k) body lxS ctx W = (.ok v lxS, W') ∧ Inv W')
    {lx0 : Lx} {W0 W1 : World} {k0 : Nat} {v0 : Val}
    (first : ∀ n, run R (n + k0) body lx0 ctx W0 = (.ok v0 lxS, W1)) (h1 : Inv W1) (v lo : Nat) :
    ∀ n, (run R n (.repeat_ v lo none body) lx0 ctx W0).1 = .fuel := by
  intro n
  cases n with
  | zero => rw [run]
  | succ n =>
    rw [run]
    apply countOf_fuel_eq
    cases n with
    | zero => rw [interLoopStart]
    | succ n =>
      rw [interLoopStart]
      have hn : ((none : Option Nat) == some 0) = false := rfl
      simp only [hiBelow, Bool.false_eq_true, if_false, hn]
      by_cases hf : (run R n body lx0 ctx W0).1 = .fuel
      · obtain ⟨W2, h2⟩ := fst_fuel hf
        rw [h2]
      · have := run_fuel_mono R (show n ≤ n + k0 by omega) body lx0 ctx W0 hf
        rw [first] at this
        rw [← this]
        exact interLoop_inplace step lo _ _ _ h1

end Generic

/-- worlds with closure 7 registered as `after ';'` and the flag clear -/
def Stuck (W : World) : Prop := ∃ L Pr, W = WS L Pr

/-- one iteration from the stuck state: `ok`, same lexer, stuck again (the log one longer) -/
theorem stuck_step (n : Nat) (W : World) (h : Stuck W) :
    ∃ v W', run R (n + 5) body lxS ctx1 W = (.ok v lxS, W') ∧ Stuck W' := by
  obtain ⟨L, Pr, rfl⟩ := h
  exact ⟨.none, _, stuck_iter n L Pr, _, _, rfl⟩

/-- the loop of `repeat` from the stuck state -/
theorem interLoop_stuck (n : Nat) (vals : List Val) (L Pr) :
    (interLoop R n 0 none body .empty vals lxS ctx1 (WS L Pr)).1 = .fuel :=
  interLoop_inplace stuck_step 0 n vals _ ⟨L, Pr, rfl⟩

/-- **the hang**: the parse exhausts every fuel. -/
theorem hang : ∀ n, (run R n g lx0 ctx1 World.init).1 = .fuel :=
  repeat_inplace_hang stuck_step first_iter ⟨_, _, rfl⟩ 0 0

/-! ### contrast 1: without the nested `stabilize` the same text terminates

`repeat(0, None, recover_option(one(a), recover_after(';')))`: the second iteration's own
recovery scan runs off the end (and leaves the flag set — F07r again, harmless here): the
iteration fails, the repetition returns `[None]`. -/

def bodyN : G := .recover 0 7 (.one 0) (.after 5)
def gN : G := .repeat_ 0 0 none bodyN

theorem noStab_first (n : Nat) : run R (n + 4) bodyN lx0 ctx1 World.init = (.ok .none lxS, WS [e0] []) := by
  unfold bodyN
  rw [run]
  simp only [Nat.zero_mod, beq_self_eq_true, if_true]
  rw [recoverDefault, reg_init]
  simp only [run, one_first, send1]
  have : ({ WS [] [] with log := (WS [] []).log ++ [e0] } : World) = WS [e0] [] := rfl
  rw [this, adv_first]

theorem noStab_second (n : Nat) (L Pr) :
    run R (n + 4) bodyN lxS ctx1 (WS L Pr) = (.err eR, WA (L ++ [eC]) Pr) := by
  have hbase : lxS.setRecoverState (some 7) = lxS := rfl
  unfold bodyN
  rw [run]
  simp only [Nat.zero_mod, beq_self_eq_true, if_true]
  rw [recoverDefault, reg_S, hbase]
  simp only [run, one_S, send1]
  have : ({ WS L Pr with log := (WS L Pr).log ++ [eC] } : World) = WS (L ++ [eC]) Pr := rfl
  rw [this, adv_stab]
  rfl

theorem noStab_terminates (n : Nat) :
    run R (n + 8) gN lx0 ctx1 World.init = (.ok (.list [.none]) lxS, WA [e0, eC] []) := by
  unfold gN
  rw [run, interLoopStart]
  have hn : ((none : Option Nat) == some 0) = false := rfl
  simp only [hiBelow, Bool.false_eq_true, if_false, hn]
  rw [show n + 6 = (n + 2) + 4 by omega, noStab_first]
  simp only
  rw [interLoop]
  simp only [List.length_cons, List.length_nil, Nat.not_lt_zero, if_false, hiAllows, if_true]
  rw [sepItem]
  have he : run R (n + 4) .empty lxS ctx1 (WS [e0] []) = (.ok .unit lxS, WS [e0] []) := by rw [run]
  simp only [he, noStab_second]
  simp [countOf]

/-! ### contrast 2: the same grammar on `d ; c` (no `;` after the second item) terminates

The scan of the nested `stabilize` sees no `;`: the flag is clear when it runs off the
end, the enclosing `recover_option` finds no recovery point either, the iteration fails
and the repetition returns `[None]`. -/

namespace Short

def R3 : RunEnv := ⟨tabEnv [3, 5, 2], []⟩
def lx3 : Lx := Lexer.new 0 m0 3

def mk3 (rec : Option Nat) (buf : Option (Buf Nat Tok)) (ps ts cur : Nat) : Lx :=
  { metrics := m0, len := 3, scanner := 0, filter := none, recover := rec, buffer := buf,
    parseStart := P ps, tokenStart := P ts, cursor := P cur }

def lxT : Lx := mk3 (some 7) (some (bf 2 2)) 0 1 2

theorem lx3_eq : lx3 = mk3 none none 0 0 0 := rfl

theorem next_00 (r : Option Nat) : (mk3 r none 0 0 0).next R3.E = (some ⟨3, 0⟩, mk3 r none 0 0 1) := by
  simp [mk3, P, R3, Lexer.next, Lexer.nextLoop, tabEnv, scanTab, Lexer.filtered]

theorem peek_00 (r : Option Nat) : (mk3 r none 0 0 0).peek R3.E = (some ⟨3, 0⟩, mk3 r (some (bf 0 3)) 0 0 0) := by
  simp [mk3, P, bf, R3, Lexer.peek, Lexer.bufferNext, Lexer.bufferLoop, tabEnv, scanTab, Lexer.filtered]

theorem next_b0 (r : Option Nat) : ((mk3 r (some (bf 0 3)) 0 0 0).next R3.E).2 = mk3 r none 0 0 1 := by
  simp [mk3, P, bf, Lexer.next]

theorem peek_01 (r : Option Nat) : (mk3 r none 0 0 1).peek R3.E = (some ⟨5, 0⟩, mk3 r (some (bf 1 5)) 0 0 1) := by
  simp [mk3, P, bf, R3, Lexer.peek, Lexer.bufferNext, Lexer.bufferLoop, tabEnv, scanTab, Lexer.filtered]

theorem next_b1 (r : Option Nat) : ((mk3 r (some (bf 1 5)) 0 0 1).next R3.E).2 = mk3 r none 0 1 2 := by
  simp [mk3, P, bf, Lexer.next]

theorem peek_12 (r : Option Nat) : (mk3 r none 0 1 2).peek R3.E = (some ⟨2, 0⟩, mk3 r (some (bf 2 2)) 0 1 2) := by
  simp [mk3, P, bf, R3, Lexer.peek, Lexer.bufferNext, Lexer.bufferLoop, tabEnv, scanTab, Lexer.filtered]

theorem peek_T : lxT.peek R3.E = (some ⟨2, 0⟩, lxT) := by
  simp [lxT, mk3, P, bf, Lexer.peek, Lexer.bufferNext]

theorem next_T : lxT.next R3.E = (some ⟨2, 0⟩, mk3 (some 7) none 0 2 3) := by
  simp [lxT, mk3, P, bf, Lexer.next]

theorem peek_23 (r : Option Nat) : (mk3 r none 0 2 3).peek R3.E = (none, mk3 r none 0 2 3) := by
  simp [mk3, P, Lexer.peek]

theorem adv_first (L Pr) : advanceToRecover R3 (lx3.setRecoverState (some 7)) (WS L Pr) = (some lxT, WS L Pr) := by
  have h0 : lx3.setRecoverState (some 7) = mk3 (some 7) none 0 0 0 := rfl
  rw [h0]
  have hrec : (mk3 (some 7) none 0 0 0).recover = some 7 := rfl
  have hlen : (mk3 (some 7) none 0 0 0).len = 3 := rfl
  unfold advanceToRecover
  rw [hrec, hlen]
  simp only [recoverLoop, peek_00, ask_other L Pr ⟨3, 0⟩ rfl, next_b0, peek_01, ask_semi, next_b1, peek_12, ask_armed]
  simp [lxT]

/-- no `;` ahead: the scan runs off the end with the flag clear -/
theorem adv_T (L Pr) : advanceToRecover R3 lxT (WS L Pr) = (none, WS L Pr) := by
  have hrec : lxT.recover = some 7 := rfl
  have hlen : lxT.len = 3 := rfl
  unfold advanceToRecover
  rw [hrec, hlen]
  simp only [recoverLoop, peek_T, ask_other L Pr ⟨2, 0⟩ rfl, next_T, peek_23]
  simp

theorem one_first (n : Nat) (W : World) : run R3 (n + 1) (.one 0) lx3 ctx1 W = (.err e0, W) := by
  rw [lx3_eq]
  simp only [run, next_00]
  simp [mkErr, e0, mk3, P, Lexer.parseSpan, Lexer.tokenSpan, Span.enclosing]

theorem one_T (n : Nat) (W : World) : run R3 (n + 1) (.one 0) lxT ctx1 W = (.err eC, W) := by
  simp only [run, next_T]
  simp [mkErr, eC, lxT, mk3, P, Lexer.parseSpan, Lexer.tokenSpan, Span.enclosing]

theorem stab_first (n : Nat) (W : World) : run R3 (n + 2) (.stabilize (.one 0)) lx3 ctx1 W = (.err e0, W) := by
  have hrec : lx3.recover = none := rfl
  simp only [run, one_first, stabLoop, advanceToRecover, hrec]
  simp

theorem stab_T (n : Nat) (L Pr) :
    run R3 (n + 2) (.stabilize (.one 0)) lxT ctx1 (WS L Pr) = (.err eR, WS L Pr) := by
  simp only [run, one_T, stabLoop, adv_T]
  rfl

theorem first_iter (n : Nat) : run R3 (n + 5) body lx3 ctx1 World.init = (.ok .none lxT, WS [e0] []) := by
  unfold body
  rw [run]
  simp only [Nat.zero_mod, beq_self_eq_true, if_true]
  rw [recoverDefault, reg_init]
  simp only [run, stab_first, send1]
  have : ({ WS [] [] with log := (WS [] []).log ++ [e0] } : World) = WS [e0] [] := rfl
  rw [this, adv_first]

theorem second_iter (n : Nat) (L Pr) :
    run R3 (n + 5) body lxT ctx1 (WS L Pr) = (.err eR, WS (L ++ [eR]) Pr) := by
  have hbase : lxT.setRecoverState (some 7) = lxT := rfl
  unfold body
  rw [run]
  simp only [Nat.zero_mod, beq_self_eq_true, if_true]
  rw [recoverDefault, reg_S, hbase]
  simp only [run, stab_T, send1]
  have : ({ WS L Pr with log := (WS L Pr).log ++ [eR] } : World) = WS (L ++ [eR]) Pr := rfl
  rw [this, adv_T]
  rfl

theorem terminates (n : Nat) :
    run R3 (n + 9) g lx3 ctx1 World.init = (.ok (.list [.none]) lxT, WS [e0, eR] []) := by
  unfold g
  rw [run, interLoopStart]
  have hn : ((none : Option Nat) == some 0) = false := rfl
  simp only [hiBelow, Bool.false_eq_true, if_false, hn]
  rw [show n + 7 = (n + 2) + 5 by omega, first_iter]
  simp only
  rw [interLoop]
  simp only [List.length_cons, List.length_nil, Nat.not_lt_zero, if_false, hiAllows, if_true]
  rw [sepItem]
  have he : run R3 (n + 5) .empty lxT ctx1 (WS [e0] []) = (.ok .unit lxT, WS [e0] []) := by rw [run]
  simp only [he, second_iter]
  simp [countOf]

end Short

/-! ### not a contrast: a `recover_before(';')` body hangs too, for a reason of its own

`repeat(0, None, recover_option(stabilize(one(a)), recover_before(';')))` on `d ; c ;`:
iteration 1 stops peeked at the first `;` (before it); every later iteration fails on
`;`, `stabilize` is told "finished" at once (same position: one attempt), the report is
sent, and `recover_option` recovers before the same `;` again: `ok(None)` in place.  No
flag is involved: the grammar never consumes the recovery token, and the productivity
hypothesis of C02 excludes it on that ground. -/

namespace Before

def bodyB : G := .recover 0 7 (.stabilize (.one 0)) (.before 5)
def gB : G := .repeat_ 0 0 none bodyB
def lxB : Lx := mk (some 7) (some (bf 1 5)) 0 0 1
def WB (L : List PErr) (Pr : List String) : World := ⟨[(7, .before 5)], [], L, Pr⟩
def eS : PErr := ⟨[], .unexp ⟨P 0, P 1⟩ ⟨P 1, P 2⟩ (.token 0) (.token ⟨5, 0⟩)⟩

theorem ask_B (L Pr) (t : Tok) : askRecover (WB L Pr) 7 t = (t.kind == 5, WB L Pr) := by
  simp [askRecover, WB]

theorem reg_init : World.init.register 7 (.before 5) = WB [] [] := by
  simp [World.register, World.init, WB]

theorem reg_B (L Pr) : (WB L Pr).register 7 (.before 5) = WB L Pr := by
  simp [World.register, WB]

theorem peek_B : lxB.peek R.E = (some ⟨5, 0⟩, lxB) := by
  simp [lxB, mk, P, bf, Lexer.peek, Lexer.bufferNext]

theorem next_B : lxB.next R.E = (some ⟨5, 0⟩, mk (some 7) none 0 1 2) := by
  simp [lxB, mk, P, bf, Lexer.next]

theorem adv_first (L Pr) : advanceToRecover R (lx0.setRecoverState (some 7)) (WB L Pr) = (some lxB, WB L Pr) := by
  have h0 : lx0.setRecoverState (some 7) = mk (some 7) none 0 0 0 := rfl
  rw [h0]
  have hrec : (mk (some 7) none 0 0 0).recover = some 7 := rfl
  have hlen : (mk (some 7) none 0 0 0).len = 4 := rfl
  unfold advanceToRecover
  rw [hrec, hlen]
  simp only [recoverLoop, peek_00, ask_B, next_b0, peek_01]
  simp [lxB]

theorem adv_B (L Pr) : advanceToRecover R lxB (WB L Pr) = (some lxB, WB L Pr) := by
  have hrec : lxB.recover = some 7 := rfl
  have hlen : lxB.len = 4 := rfl
  unfold advanceToRecover
  rw [hrec, hlen]
  simp only [recoverLoop, peek_B, ask_B]
  simp

theorem one_B (n : Nat) (W : World) : run R (n + 1) (.one 0) lxB ctx1 W = (.err eS, W) := by
  simp only [run, next_B]
  simp [mkErr, eS, lxB, mk, P, Lexer.parseSpan, Lexer.tokenSpan, Span.enclosing]

theorem stab_B (n : Nat) (L Pr) :
    run R (n + 2) (.stabilize (.one 0)) lxB ctx1 (WB L Pr) = (.err eS, WB L Pr) := by
  simp only [run, one_B, stabLoop, adv_B]
  simp

theorem first_iter (n : Nat) : run R (n + 5) bodyB lx0 ctx1 World.init = (.ok .none lxB, WB [e0] []) := by
  unfold bodyB
  rw [run]
  simp only [Nat.zero_mod, beq_self_eq_true, if_true]
  rw [recoverDefault, reg_init]
  simp only [run, stab_first, send1]
  have : ({ WB [] [] with log := (WB [] []).log ++ [e0] } : World) = WB [e0] [] := rfl
  rw [this, adv_first]

theorem stuck_iter (n : Nat) (L Pr) :
    run R (n + 5) bodyB lxB ctx1 (WB L Pr) = (.ok .none lxB, WB (L ++ [eS]) Pr) := by
  have hbase : lxB.setRecoverState (some 7) = lxB := rfl
  unfold bodyB
  rw [run]
  simp only [Nat.zero_mod, beq_self_eq_true, if_true]
  rw [recoverDefault, reg_B, hbase]
  simp only [run, stab_B, send1]
  have : ({ WB L Pr with log := (WB L Pr).log ++ [eS] } : World) = WB (L ++ [eS]) Pr := rfl
  rw [this, adv_B]

theorem hang : ∀ n, (run R n gB lx0 ctx1 World.init).1 = .fuel :=
  repeat_inplace_hang (Inv := fun W => ∃ L Pr, W = WB L Pr)
    (fun n W ⟨L, Pr, h⟩ => ⟨.none, _, h ▸ stuck_iter n L Pr, _, _, rfl⟩) first_iter ⟨_, _, rfl⟩ 0 0

end Before

end Tephra.TermWitness
