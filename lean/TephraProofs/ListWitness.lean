/-
  TephraProofs.ListWitness — C11: concrete instances, proved by evaluation.
  * `F21.*`: text ` ` (one whitespace token, no filter), `list_bounded(1, Some(1), one(a), ',', [';'])`
    with a sink: the model returns `Err(RecoverError)` although `listSpec` has one (bad) entry.
  * `EndOfText.*`: item `left(one(a), end_of_text)` on `a,a`: the hypotheses of C11 as first
    stated (fragment, non-nullable, separator/abort-free) hold, locality does not, and the
    model and `listSpec` disagree (not an F21 case).
  * `Lookahead.*`, `Rejected.*`: the two other ways to look past the segment.
  * `Good.*`: a run to which the theorems apply (non-vacuity).
-/
import TephraProofs.RunMatchers
import TephraProofs.ListLocal

set_option linter.unusedVariables false
set_option linter.unusedSimpArgs false

namespace Tephra.ListWitness
open Tephra Tephra.Spec Tephra.ListRefine Tephra.BracketRefine Tephra.BracketRefine.Witness Tephra.LexIter
open Tephra.PegRefine Tephra.ListLocal

/-- table scanner with the harness filter table -/
def tabM (tab : List Nat) : LexEnv Nat Tok := ⟨scanTab tab, passesMask, fun _ b => ⟨b, 0, b⟩⟩

theorem tabM_ok (tab : List Nat) (m : Metrics) (len : Nat) (hlen : tab.length ≤ len) : ScanOK (tabM tab) m len := by
  constructor
  · intro s p tok adv s' h
    simp only [tabM, scanTab] at h
    split at h
    · next k hk =>
      cases h
      have : p.byte < tab.length := by
        apply Nat.lt_of_not_le; intro hle
        rw [List.getElem?_eq_none hle] at hk; cases hk
      simp; omega
    · cases h
  · intro s p h
    simp only [tabM, scanTab]
    rw [List.getElem?_eq_none (by omega)]

theorem tabM_pass (tab : List Nat) : PassOK (tabM tab) := fun _ _ => rfl

def m0 : Metrics := ⟨.lf, 4⟩
def sinkCtx : Ctx := ⟨true, [], false⟩

def isRecoverErr : RRes → Bool
  | .err ⟨[], .recover⟩ => true
  | _ => false

/-- number of entries of a successful list -/
def okLen : RRes → Option Nat
  | .ok (.list l) _ => some l.length
  | _ => none

/-- which entries of a successful list are placeholders -/
def okDflt : RRes → Option (List Bool)
  | .ok (.list l) _ => some (l.map fun x => match x with | .dflt => true | _ => false)
  | _ => none

theorem atIdx_new (tab : List Nat) (len : Nat) (K : List (RawTok Tok))
    (hK : kept (tabM tab) m0 len (Lexer.new 0 m0 len) = K) :
    AtIdx (tabM tab) m0 len none K 0 (Lexer.new 0 m0 len) :=
  ⟨inv_fresh 0 none, by rw [hK]; rfl⟩

/-! ### F21 -/
namespace F21
def R : RunEnv := ⟨tabM [12], [⟨32, 1, 1⟩]⟩
def lx : Lx := Lexer.new 0 m0 1
def g : G := .list 1 1 1 (some 1) (.one 0) 4 [5]
def K : List (RawTok Tok) := [⟨⟨12, 0⟩, ⟨0, 0, 0⟩, ⟨1, 0, 1⟩⟩]

set_option maxRecDepth 8000 in
theorem run_eq : isRecoverErr (run R 8 g lx sinkCtx World.init).1 = true ∧
    (run R 8 g lx sinkCtx World.init).2.log.length = 1 := by
  simp [isRecoverErr, run, g, R, tabM, scanTab, m0, lx, sinkCtx, listLoop, stabValue, recoverDefault, hiBelow, hiReached,
    advanceToRecover, recoverLoop, askRecover, World.register, World.init, sendError, mkErr,
    Lexer.new, Lexer.bufferNext, Lexer.bufferLoop, Lexer.peek, Lexer.setRecoverState,
    Lexer.next, Lexer.nextLoop, Lexer.filtered, Pos.zero]

theorem kept_eq : kept R.E m0 1 lx = K := by
  simp [kept, rawAt, rawFrom, R, tabM, scanTab, lx, Lexer.new, K, Pos.zero, keepOf]

theorem spec_eq : (listSpec R.text none (some 1) (.one 0) 4 [5] K).entries.map Option.isNone = [true] ∧
    (listSpec R.text none (some 1) (.one 0) 4 [5] K).lastBadAtEnd = true ∧
    (listSpec R.text none (some 1) (.one 0) 4 [5] K).consumed = 1 := ⟨by rfl, by rfl, by rfl⟩
end F21

/-! ### an item that looks past its segment: `end_of_text` -/
namespace EndOfText
def R : RunEnv := ⟨tabM [0, 4, 0], [⟨97, 1, 1⟩, ⟨44, 1, 1⟩, ⟨97, 1, 1⟩]⟩
def lx : Lx := Lexer.new 0 m0 3
def a : G := .left (.one 0) .endOfText
def g : G := .list 3 1 0 none a 4 [5]
def K : List (RawTok Tok) :=
  [⟨⟨0, 0⟩, ⟨0, 0, 0⟩, ⟨1, 0, 1⟩⟩, ⟨⟨4, 0⟩, ⟨1, 0, 1⟩, ⟨2, 0, 2⟩⟩, ⟨⟨0, 0⟩, ⟨2, 0, 2⟩, ⟨3, 0, 3⟩⟩]

set_option maxRecDepth 16000 in
/-- the model: two entries, the first a placeholder, one error reported -/
theorem run_eq : okDflt (run R 10 g lx sinkCtx World.init).1 = some [true, false] ∧
    (run R 10 g lx sinkCtx World.init).2.log.length = 1 := by
  simp [okDflt, run, g, a, R, tabM, scanTab, m0, lx, sinkCtx, listLoop, stabValue, recoverDefault, hiBelow, hiReached,
    advanceToRecover, recoverLoop, askRecover, World.register, World.init, sendError, mkErr,
    Lexer.new, Lexer.bufferNext, Lexer.bufferLoop, Lexer.peek, Lexer.setRecoverState, Lexer.isEmpty,
    Lexer.intoSublexer, Lexer.startSublex,
    Lexer.next, Lexer.nextLoop, Lexer.filtered, Pos.zero]

theorem kept_eq : kept R.E m0 3 lx = K := by
  simp [kept, rawAt, rawFrom, R, tabM, scanTab, lx, Lexer.new, K, Pos.zero, keepOf]

/-- the specification: two good entries, nothing to report, not an F21 case -/
theorem spec_eq : (listSpec R.text none none a 4 [5] K).nbad = 0 ∧
    (listSpec R.text none none a 4 [5] K).entries.length = 2 ∧
    (listSpec R.text none none a 4 [5] K).lastBadAtEnd = false := ⟨by rfl, by rfl, by rfl⟩

theorem bindOk_fuel {r : PRes} {k : Val → PState → PRes} (h : bindOk r k = .fuel) :
    r = .fuel ∨ ∃ v s, r = .ok v s ∧ k v s = .fuel := by
  cases r with
  | ok v s => exact Or.inr ⟨v, s, rfl, h⟩
  | fuel => exact Or.inl rfl
  | fail => cases h
  | unsupported => cases h

/-- whenever the item succeeds it has consumed exactly one token, of kind `a` -/
theorem a_shape (text : Text) (k : Nat) (s : PState) (v : Val) (s' : PState) (h : peg text k a s = .ok v s') :
    ∃ r, s.pop = some (r, s') ∧ r.tok.kind = 0 := by
  match k with
  | 0 => simp [peg] at h
  | 1 => simp [peg, a, bindOk] at h
  | k + 2 =>
    simp only [peg, a] at h
    obtain ⟨v1, s1, e1, h⟩ := bindOk_ok h
    obtain ⟨v2, s2, e2, h⟩ := bindOk_ok h
    cases h
    split at e2
    · cases e2
      split at e1
      · next r s1' hp =>
        split at e1
        · next hk => cases e1; exact ⟨r, hp, by simpa using hk⟩
        · cases e1
      · cases e1
    · cases e2

theorem a_fuel (text : Text) (k : Nat) (s : PState) : peg text (k + 3) a s ≠ .fuel := by
  intro h
  simp only [peg, a] at h
  rcases bindOk_fuel h with h | ⟨v1, s1, _, h⟩
  · split at h
    · split at h <;> cases h
    · cases h
  · rcases bindOk_fuel h with h | ⟨v2, s2, _, h⟩
    · split at h <;> cases h
    · cases h

theorem a_fuelOK (K' : List (RawTok Tok)) : SpecFuelOK R.text none a K' :=
  specFuelOK_of_ne_fuel rfl (fun seg _ => a_fuel R.text 3997 _)

end EndOfText

/-! ### negative lookahead through `implies _ F` with an always-failing `F` -/
namespace Lookahead
def F : G := .pred (.and (.var 0) (.not (.var 0)))
def a : G := .left (.one 0) (.implies (.one 4) F)
def g : G := .list 3 1 0 none a 4 [5]

set_option maxRecDepth 16000 in
theorem run_eq : okDflt (run EndOfText.R 12 g EndOfText.lx sinkCtx World.init).1 = some [true, false] ∧
    (run EndOfText.R 12 g EndOfText.lx sinkCtx World.init).2.log.length = 1 := by
  simp [okDflt, run, g, a, F, EndOfText.R, tabM, scanTab, m0, EndOfText.lx, sinkCtx, listLoop, stabValue, recoverDefault,
    hiBelow, hiReached, PE.eval,
    advanceToRecover, recoverLoop, askRecover, World.register, World.init, sendError, mkErr,
    Lexer.new, Lexer.bufferNext, Lexer.bufferLoop, Lexer.peek, Lexer.setRecoverState, Lexer.isEmpty,
    Lexer.intoSublexer, Lexer.startSublex,
    Lexer.next, Lexer.nextLoop, Lexer.filtered, Pos.zero]

theorem spec_eq : (listSpec EndOfText.R.text none none a 4 [5] EndOfText.K).nbad = 0 ∧
    (listSpec EndOfText.R.text none none a 4 [5] EndOfText.K).entries.length = 2 ∧
    (listSpec EndOfText.R.text none none a 4 [5] EndOfText.K).lastBadAtEnd = false := ⟨by rfl, by rfl, by rfl⟩
end Lookahead

/-! ### `seq_count` in front of a byte the scanner rejects -/
namespace Rejected
/-- text `a#`: one token, then a byte the scanner rejects -/
def R : RunEnv := ⟨tabM [0], [⟨97, 1, 1⟩, ⟨35, 1, 1⟩]⟩
def lx : Lx := Lexer.new 0 m0 2
def a : G := .right (.one 0) (.seqCount [1])
def g : G := .list 3 1 0 none a 4 [5]
def K : List (RawTok Tok) := [⟨⟨0, 0⟩, ⟨0, 0, 0⟩, ⟨1, 0, 1⟩⟩]

set_option maxRecDepth 16000 in
theorem run_eq : isRecoverErr (run R 12 g lx sinkCtx World.init).1 = true ∧
    (run R 12 g lx sinkCtx World.init).2.log.length = 1 := by
  simp [isRecoverErr, run, seqCountLoop, g, a, R, tabM, scanTab, m0, lx, sinkCtx, listLoop, stabValue, recoverDefault,
    hiBelow, hiReached,
    advanceToRecover, recoverLoop, askRecover, World.register, World.init, sendError, mkErr,
    Lexer.new, Lexer.bufferNext, Lexer.bufferLoop, Lexer.peek, Lexer.setRecoverState, Lexer.isEmpty,
    Lexer.intoSublexer, Lexer.startSublex,
    Lexer.next, Lexer.nextLoop, Lexer.filtered, Pos.zero]

theorem kept_eq : kept R.E m0 2 lx = K := by
  simp [kept, rawAt, rawFrom, R, tabM, scanTab, lx, Lexer.new, K, Pos.zero, keepOf]

theorem spec_eq : (listSpec R.text none none a 4 [5] K).nbad = 0 ∧
    (listSpec R.text none none a 4 [5] K).entries.length = 1 ∧
    (listSpec R.text none none a 4 [5] K).lastBadAtEnd = false := ⟨by rfl, by rfl, by rfl⟩
end Rejected

/-! ### a run covered by the theorems: `a,b;` with item `one(a)` -/
namespace Good
def R : RunEnv := ⟨tabM [0, 4, 1, 5], [⟨97, 1, 1⟩, ⟨44, 1, 1⟩, ⟨98, 1, 1⟩, ⟨59, 1, 1⟩]⟩
def lx : Lx := Lexer.new 0 m0 4
def a : G := .one 0
def g : G := .list 3 1 0 none a 4 [5]
def K : List (RawTok Tok) :=
  [⟨⟨0, 0⟩, ⟨0, 0, 0⟩, ⟨1, 0, 1⟩⟩, ⟨⟨4, 0⟩, ⟨1, 0, 1⟩, ⟨2, 0, 2⟩⟩, ⟨⟨1, 0⟩, ⟨2, 0, 2⟩, ⟨3, 0, 3⟩⟩,
   ⟨⟨5, 0⟩, ⟨3, 0, 3⟩, ⟨4, 0, 4⟩⟩]

theorem item : ItemHyp R.text none a 4 [5] := itemHyp_of_syntax R.text none a 4 [5] rfl rfl

theorem fuelOK (K' : List (RawTok Tok)) : SpecFuelOK R.text none a K' :=
  specFuelOK_of_ne_fuel rfl (fun seg _ => by
    show peg R.text (3999 + 1) (.one 0) _ ≠ .fuel
    simp only [peg]
    split
    · split <;> simp
    · simp)

theorem kept_eq : kept R.E m0 4 lx = K := by
  simp [kept, rawAt, rawFrom, R, tabM, scanTab, lx, Lexer.new, K, Pos.zero, keepOf]

set_option maxRecDepth 16000 in
theorem run_ne_fuel : (run R 10 g lx sinkCtx World.init).1 ≠ .fuel := by
  simp [run, g, a, R, tabM, scanTab, m0, lx, sinkCtx, listLoop, stabValue, recoverDefault, hiBelow, hiReached,
    advanceToRecover, recoverLoop, askRecover, World.register, World.init, sendError, mkErr,
    Lexer.new, Lexer.bufferNext, Lexer.bufferLoop, Lexer.peek, Lexer.setRecoverState, Lexer.isEmpty,
    Lexer.intoSublexer, Lexer.startSublex, Lexer.advanceTo,
    Lexer.next, Lexer.nextLoop, Lexer.filtered, Pos.zero]

theorem spec_eq : (listSpec R.text none none a 4 [5] K).nbad = 1 ∧
    (listSpec R.text none none a 4 [5] K).entries.length = 2 ∧
    (listSpec R.text none none a 4 [5] K).consumed = 3 ∧
    (listSpec R.text none none a 4 [5] K).lastBadAtEnd = false := ⟨by rfl, by rfl, by rfl, by rfl⟩
end Good

end Tephra.ListWitness
