/-
  TephraProofs.PegFuel — the fuel of the reference evaluator `Spec.peg` is not a
  bound on behaviour, on grammars without a stop parser (`repeat_until`,
  `intersperse_until`): a result other than `.fuel` obtained with fuel `n` is the
  result with every `m ≥ n`.

  (With a stop parser this is false for `Spec.pegRepLoop`: a stop parser that runs
  out of fuel is read as "did not stop".)
-/
import TephraProofs.RunMatchers
import TephraModel.Spec.Peg

set_option linter.unusedVariables false

namespace Tephra.PegFuel
open Tephra Tephra.Spec

/-- no `repeat_until` / `intersperse_until` anywhere in the grammar -/
def noUntil : G → Bool
  | .repeatUntil .. | .intersperseUntil .. => false
  | .left a b | .right a b | .both a b | .either a b | .implies a b | .antecedent a b | .consequent a b =>
    noUntil a && noUntil b
  | .center a b c => noUntil a && noUntil b && noUntil c
  | .map a | .discard a | .maybe a | .requireIf _ a | .cond _ a | .filterWith _ a | .unfiltered a | .sub a
  | .spanned a | .text a | .someOf a => noUntil a
  | .condImplies a _ b => noUntil a && noUntil b
  | .repeat_ _ _ _ a => noUntil a
  | .intersperse _ _ _ a sp => noUntil a && noUntil sp
  | .intersperseDefault _ _ a _ => noUntil a
  | _ => true

structure PMono (text : Text) (n m : Nat) : Prop where
  peg : ∀ g s, noUntil g = true → peg text n g s ≠ .fuel → peg text m g s = peg text n g s
  rep : ∀ lo hi a sep s, noUntil a = true → noUntil sep = true → pegRep text n lo hi none a sep s ≠ .fuel →
    pegRep text m lo hi none a sep s = pegRep text n lo hi none a sep s
  loop : ∀ lo hi a sep vals s, noUntil a = true → noUntil sep = true →
    pegRepLoop text n lo hi none a sep vals s ≠ .fuel →
    pegRepLoop text m lo hi none a sep vals s = pegRepLoop text n lo hi none a sep vals s

theorem bindOk_ne_fuel {r : PRes} {k : Val → PState → PRes} (h : bindOk r k ≠ .fuel) : r ≠ .fuel := by
  intro e; subst e; simp [bindOk] at h

theorem countOfP_ne_fuel {v : Nat} {r : PRes} (h : countOfP v r ≠ .fuel) : r ≠ .fuel := by
  intro e; subst e; unfold countOfP at h; split at h <;> simp at h

theorem pmono_zero (text : Text) (m : Nat) : PMono text 0 m := by
  constructor <;> intros <;> simp_all [peg, pegRep, pegRepLoop]

theorem bindOk_congr {r r' : PRes} {k k' : Val → PState → PRes} (hne : bindOk r k ≠ .fuel)
    (hr : r ≠ .fuel → r' = r) (hk : ∀ v s, r = .ok v s → k v s ≠ .fuel → k' v s = k v s) :
    bindOk r' k' = bindOk r k := by
  have := hr (bindOk_ne_fuel hne)
  subst this
  cases r' with
  | ok v s => exact hk v s rfl hne
  | _ => rfl

macro "nu_tac" : tactic => `(tactic|
  (first | assumption | exact (And.left ‹_ ∧ _›) | exact (And.right ‹_ ∧ _›)
         | exact (And.left (And.left ‹(_ ∧ _) ∧ _›)) | exact (And.right (And.left ‹(_ ∧ _) ∧ _›)) | rfl))

theorem peg_step {text n m} (h : PMono text n m) : ∀ g s, noUntil g = true → peg text (n+1) g s ≠ .fuel →
    peg text (m+1) g s = peg text (n+1) g s := by
  obtain ⟨h1, h2, h3⟩ := h
  intro g s hg hne
  cases g <;> simp only [noUntil, Bool.and_eq_true] at hg <;> simp only [peg] at hne ⊢
  case repeat_ v lo hi a => rw [h2 _ _ _ _ _ hg rfl (countOfP_ne_fuel hne)]
  case intersperse v lo hi a sp => rw [h2 _ _ _ _ _ hg.1 hg.2 (countOfP_ne_fuel hne)]
  case intersperseDefault lo hi a sp => exact h2 _ _ _ _ _ hg rfl hne
  all_goals first
    | rfl
    | (refine bindOk_congr hne (h1 _ _ (by nu_tac)) (fun _ _ _ hne => ?_)
       first
        | rfl
        | (refine bindOk_congr hne (h1 _ _ (by nu_tac)) (fun _ _ _ hne => ?_)
           first
            | rfl
            | (refine bindOk_congr hne (h1 _ _ (by nu_tac)) (fun _ _ _ hne => ?_); rfl)))
    | grind [noUntil]
    | grind [bindOk_congr, noUntil]

theorem rep_step {text n m} (h : PMono text n m) : ∀ lo hi a sep s, noUntil a = true → noUntil sep = true →
    pegRep text (n+1) lo hi none a sep s ≠ .fuel →
    pegRep text (m+1) lo hi none a sep s = pegRep text (n+1) lo hi none a sep s := by
  obtain ⟨h1, h2, h3⟩ := h
  intro lo hi a sep s ha hs hne
  simp only [pegRep] at hne ⊢
  split
  · rfl
  · next hh => rw [if_neg hh] at hne; exact h3 _ _ _ _ _ _ ha hs hne

theorem loop_step {text n m} (h : PMono text n m) : ∀ lo hi a sep vals s, noUntil a = true → noUntil sep = true →
    pegRepLoop text (n+1) lo hi none a sep vals s ≠ .fuel →
    pegRepLoop text (m+1) lo hi none a sep vals s = pegRepLoop text (n+1) lo hi none a sep vals s := by
  obtain ⟨h1, h2, h3⟩ := h
  intro lo hi a sep vals s ha hs hne
  simp only [pegRepLoop] at hne ⊢
  by_cases hA : (!Spec.hiAllows hi vals.length) = true
  · simp only [hA, if_true]
  · simp only [hA] at hne ⊢
    simp only [Bool.false_eq_true, if_false] at hne ⊢
    by_cases hv : vals.isEmpty = true
    · simp only [hv, if_true] at hne ⊢
      have hx : peg text n a s ≠ .fuel := by
        intro e; rw [e] at hne; exact hne rfl
      rw [h1 _ _ ha hx]
      cases hr : peg text n a s with
      | ok v s1 => rw [hr] at hne; exact h3 _ _ _ _ _ _ ha hs hne
      | _ => rfl
    · simp only [hv] at hne ⊢
      simp only [Bool.false_eq_true, if_false] at hne ⊢
      have hx : (bindOk (peg text n sep s) fun _ s1 => peg text n a s1) ≠ .fuel := by
        intro e; rw [e] at hne; exact hne rfl
      have : (bindOk (peg text m sep s) fun _ s1 => peg text m a s1) =
          (bindOk (peg text n sep s) fun _ s1 => peg text n a s1) :=
        bindOk_congr hx (h1 _ _ hs) (fun _ _ _ h' => h1 _ _ ha h')
      rw [this]
      cases hr : (bindOk (peg text n sep s) fun _ s1 => peg text n a s1) with
      | ok v s1 => rw [hr] at hne; exact h3 _ _ _ _ _ _ ha hs hne
      | _ => rfl


theorem pmono_all (text : Text) : ∀ n m, n ≤ m → PMono text n m := by
  intro n
  induction n with
  | zero => intro m _; exact pmono_zero text m
  | succ n ih =>
    intro m hm
    obtain ⟨m', rfl⟩ : ∃ m', m = m' + 1 := ⟨m - 1, by omega⟩
    have h := ih m' (by omega)
    exact ⟨peg_step h, rep_step h, loop_step h⟩

/-- **Fuel monotonicity of the reference evaluator** (no stop parsers). -/
theorem peg_fuel_mono (text : Text) {n m : Nat} (hm : n ≤ m) (g : G) (s : PState) (hg : noUntil g = true)
    (h : peg text n g s ≠ .fuel) : peg text m g s = peg text n g s :=
  (pmono_all text n m hm).peg g s hg h

/-- Two fuels that both suffice give the same answer. -/
theorem peg_fuel_agree (text : Text) (n m : Nat) (g : G) (s : PState) (hg : noUntil g = true)
    (hn : peg text n g s ≠ .fuel) (hm : peg text m g s ≠ .fuel) : peg text m g s = peg text n g s := by
  rcases Nat.le_total n m with h | h
  · exact peg_fuel_mono text h g s hg hn
  · exact (peg_fuel_mono text h g s hg hm).symm

end Tephra.PegFuel
