/-
  TephraProofs.TermFuel — C02, part 1: the fuel of `run` is not a bound on
  behaviour.  If a call does not run out of fuel with `n`, it returns the very
  same result with every `m ≥ n` (all functions of the mutual block, and
  `matchLoop`).

  Route: `MonoAt R n m` is the statement for one pair of fuels, for all ten
  fuelled functions at once; `mono_step : MonoAt R n m → MonoAt R (n+1) (m+1)`
  (one small lemma per constructor of `G` and per loop function: unfold one step
  on both sides, split along the `n`-side, rewrite the `m`-side calls with the
  hypothesis); `mono_all` by induction on `n`.
-/
import TephraProofs.RunMatchers

set_option linter.unusedVariables false

namespace Tephra.Term
open Tephra

/-- Fuel monotonicity between two given fuels, for every fuelled function of the mutual block. -/
structure MonoAt (R : RunEnv) (n m : Nat) : Prop where
  run : ∀ g lx ctx W, (run R n g lx ctx W).1 ≠ .fuel → run R m g lx ctx W = run R n g lx ctx W
  listLoop : ∀ v id lo hi a sep abort lexer ctx W vals,
    (listLoop R n v id lo hi a sep abort lexer ctx W vals).1 ≠ .fuel →
      listLoop R m v id lo hi a sep abort lexer ctx W vals = listLoop R n v id lo hi a sep abort lexer ctx W vals
  stabValue : ∀ dv id pat body lx ctx res W, (stabValue R n dv id pat body lx ctx res W).1 ≠ .fuel →
    stabValue R m dv id pat body lx ctx res W = stabValue R n dv id pat body lx ctx res W
  recoverDefault : ∀ dv id r body lx ctx W, (recoverDefault R n dv id r body lx ctx W).1 ≠ .fuel →
    recoverDefault R m dv id r body lx ctx W = recoverDefault R n dv id r body lx ctx W
  stabLoop : ∀ a lx ctx res W, (stabLoop R n a lx ctx res W).1 ≠ .fuel →
    stabLoop R m a lx ctx res W = stabLoop R n a lx ctx res W
  untilStart : ∀ lo hi stop a sep lx ctx W, (untilStart R n lo hi stop a sep lx ctx W).1 ≠ .fuel →
    untilStart R m lo hi stop a sep lx ctx W = untilStart R n lo hi stop a sep lx ctx W
  untilLoop : ∀ lo hi stop a sep vals lx ctx W, (untilLoop R n lo hi stop a sep vals lx ctx W).1 ≠ .fuel →
    untilLoop R m lo hi stop a sep vals lx ctx W = untilLoop R n lo hi stop a sep vals lx ctx W
  sepItem : ∀ a sep lx ctx W, (sepItem R n a sep lx ctx W).1 ≠ .fuel →
    sepItem R m a sep lx ctx W = sepItem R n a sep lx ctx W
  interLoopStart : ∀ lo hi a sep lx ctx W, (interLoopStart R n lo hi a sep lx ctx W).1 ≠ .fuel →
    interLoopStart R m lo hi a sep lx ctx W = interLoopStart R n lo hi a sep lx ctx W
  interLoop : ∀ lo hi a sep vals lx ctx W, (interLoop R n lo hi a sep vals lx ctx W).1 ≠ .fuel →
    interLoop R m lo hi a sep vals lx ctx W = interLoop R n lo hi a sep vals lx ctx W

theorem countOf_fuel {v : Nat} {r : RRes × World} (h : (countOf v r).1 ≠ .fuel) : r.1 ≠ .fuel := by
  intro hr
  apply h
  obtain ⟨r, W⟩ := r
  simp only at hr
  subst hr
  unfold countOf
  split <;> rfl

theorem stabLoop_res {R n a lx ctx res W} (h : (stabLoop R n a lx ctx res W).1 ≠ .fuel) : res ≠ .fuel := by
  intro hr
  subst hr
  cases n <;> simp [stabLoop] at h

theorem stabValue_res {R n dv id pat body lx ctx res W}
    (h : (stabValue R n dv id pat body lx ctx res W).1 ≠ .fuel) : res ≠ .fuel := by
  intro hr
  subst hr
  cases n <;> simp [stabValue] at h

/-- unfold one step on both sides, split along the `n`-side, close with the hypotheses. -/
macro "fm_tac" : tactic => `(tactic|
  (first | done | ((repeat' split at $(Lean.mkIdent `hne):ident) <;> (first | (simp_all; done) | (simp_all [Nat.not_lt_of_le]; done)))))

theorem run_step_empty {R n m} (h : MonoAt R n m)  : ∀ lx ctx W,
    (run R (n+1) (.empty ) lx ctx W).1 ≠ .fuel →
      run R (m+1) (.empty ) lx ctx W = run R (n+1) (.empty ) lx ctx W := by
  obtain ⟨h1, h2, h3, h4, h5, h6, h7, h8, h9, h10⟩ := h
  intro lx ctx W hne
  simp only [run] at hne ⊢
  fm_tac

theorem run_step_one {R n m} (h : MonoAt R n m) {k} : ∀ lx ctx W,
    (run R (n+1) (.one k) lx ctx W).1 ≠ .fuel →
      run R (m+1) (.one k) lx ctx W = run R (n+1) (.one k) lx ctx W := by
  obtain ⟨h1, h2, h3, h4, h5, h6, h7, h8, h9, h10⟩ := h
  intro lx ctx W hne
  simp only [run] at hne ⊢
  fm_tac

theorem run_step_any {R n m} (h : MonoAt R n m) {ks} : ∀ lx ctx W,
    (run R (n+1) (.any ks) lx ctx W).1 ≠ .fuel →
      run R (m+1) (.any ks) lx ctx W = run R (n+1) (.any ks) lx ctx W := by
  obtain ⟨h1, h2, h3, h4, h5, h6, h7, h8, h9, h10⟩ := h
  intro lx ctx W hne
  simp only [run] at hne ⊢
  fm_tac

theorem run_step_anyIndex {R n m} (h : MonoAt R n m) {ks} : ∀ lx ctx W,
    (run R (n+1) (.anyIndex ks) lx ctx W).1 ≠ .fuel →
      run R (m+1) (.anyIndex ks) lx ctx W = run R (n+1) (.anyIndex ks) lx ctx W := by
  obtain ⟨h1, h2, h3, h4, h5, h6, h7, h8, h9, h10⟩ := h
  intro lx ctx W hne
  simp only [run] at hne ⊢
  fm_tac

theorem run_step_seq {R n m} (h : MonoAt R n m) {ks} : ∀ lx ctx W,
    (run R (n+1) (.seq ks) lx ctx W).1 ≠ .fuel →
      run R (m+1) (.seq ks) lx ctx W = run R (n+1) (.seq ks) lx ctx W := by
  obtain ⟨h1, h2, h3, h4, h5, h6, h7, h8, h9, h10⟩ := h
  intro lx ctx W hne
  simp only [run] at hne ⊢
  fm_tac

theorem run_step_seqCount {R n m} (h : MonoAt R n m) {ks} : ∀ lx ctx W,
    (run R (n+1) (.seqCount ks) lx ctx W).1 ≠ .fuel →
      run R (m+1) (.seqCount ks) lx ctx W = run R (n+1) (.seqCount ks) lx ctx W := by
  obtain ⟨h1, h2, h3, h4, h5, h6, h7, h8, h9, h10⟩ := h
  intro lx ctx W hne
  simp only [run] at hne ⊢
  fm_tac

theorem run_step_pred {R n m} (h : MonoAt R n m) {p} : ∀ lx ctx W,
    (run R (n+1) (.pred p) lx ctx W).1 ≠ .fuel →
      run R (m+1) (.pred p) lx ctx W = run R (n+1) (.pred p) lx ctx W := by
  obtain ⟨h1, h2, h3, h4, h5, h6, h7, h8, h9, h10⟩ := h
  intro lx ctx W hne
  simp only [run] at hne ⊢
  fm_tac

theorem run_step_endOfText {R n m} (h : MonoAt R n m)  : ∀ lx ctx W,
    (run R (n+1) (.endOfText ) lx ctx W).1 ≠ .fuel →
      run R (m+1) (.endOfText ) lx ctx W = run R (n+1) (.endOfText ) lx ctx W := by
  obtain ⟨h1, h2, h3, h4, h5, h6, h7, h8, h9, h10⟩ := h
  intro lx ctx W hne
  simp only [run] at hne ⊢
  fm_tac

theorem run_step_left {R n m} (h : MonoAt R n m) {a b} : ∀ lx ctx W,
    (run R (n+1) (.left a b) lx ctx W).1 ≠ .fuel →
      run R (m+1) (.left a b) lx ctx W = run R (n+1) (.left a b) lx ctx W := by
  obtain ⟨h1, h2, h3, h4, h5, h6, h7, h8, h9, h10⟩ := h
  intro lx ctx W hne
  simp only [run] at hne ⊢
  fm_tac

theorem run_step_right {R n m} (h : MonoAt R n m) {a b} : ∀ lx ctx W,
    (run R (n+1) (.right a b) lx ctx W).1 ≠ .fuel →
      run R (m+1) (.right a b) lx ctx W = run R (n+1) (.right a b) lx ctx W := by
  obtain ⟨h1, h2, h3, h4, h5, h6, h7, h8, h9, h10⟩ := h
  intro lx ctx W hne
  simp only [run] at hne ⊢
  fm_tac

theorem run_step_both {R n m} (h : MonoAt R n m) {a b} : ∀ lx ctx W,
    (run R (n+1) (.both a b) lx ctx W).1 ≠ .fuel →
      run R (m+1) (.both a b) lx ctx W = run R (n+1) (.both a b) lx ctx W := by
  obtain ⟨h1, h2, h3, h4, h5, h6, h7, h8, h9, h10⟩ := h
  intro lx ctx W hne
  simp only [run] at hne ⊢
  fm_tac

theorem run_step_center {R n m} (h : MonoAt R n m) {a b c} : ∀ lx ctx W,
    (run R (n+1) (.center a b c) lx ctx W).1 ≠ .fuel →
      run R (m+1) (.center a b c) lx ctx W = run R (n+1) (.center a b c) lx ctx W := by
  obtain ⟨h1, h2, h3, h4, h5, h6, h7, h8, h9, h10⟩ := h
  intro lx ctx W hne
  simp only [run] at hne ⊢
  fm_tac

theorem run_step_map {R n m} (h : MonoAt R n m) {a} : ∀ lx ctx W,
    (run R (n+1) (.map a) lx ctx W).1 ≠ .fuel →
      run R (m+1) (.map a) lx ctx W = run R (n+1) (.map a) lx ctx W := by
  obtain ⟨h1, h2, h3, h4, h5, h6, h7, h8, h9, h10⟩ := h
  intro lx ctx W hne
  simp only [run] at hne ⊢
  fm_tac

theorem run_step_discard {R n m} (h : MonoAt R n m) {a} : ∀ lx ctx W,
    (run R (n+1) (.discard a) lx ctx W).1 ≠ .fuel →
      run R (m+1) (.discard a) lx ctx W = run R (n+1) (.discard a) lx ctx W := by
  obtain ⟨h1, h2, h3, h4, h5, h6, h7, h8, h9, h10⟩ := h
  intro lx ctx W hne
  simp only [run] at hne ⊢
  fm_tac

theorem run_step_either {R n m} (h : MonoAt R n m) {a b} : ∀ lx ctx W,
    (run R (n+1) (.either a b) lx ctx W).1 ≠ .fuel →
      run R (m+1) (.either a b) lx ctx W = run R (n+1) (.either a b) lx ctx W := by
  obtain ⟨h1, h2, h3, h4, h5, h6, h7, h8, h9, h10⟩ := h
  intro lx ctx W hne
  simp only [run] at hne ⊢
  fm_tac

theorem run_step_maybe {R n m} (h : MonoAt R n m) {a} : ∀ lx ctx W,
    (run R (n+1) (.maybe a) lx ctx W).1 ≠ .fuel →
      run R (m+1) (.maybe a) lx ctx W = run R (n+1) (.maybe a) lx ctx W := by
  obtain ⟨h1, h2, h3, h4, h5, h6, h7, h8, h9, h10⟩ := h
  intro lx ctx W hne
  simp only [run] at hne ⊢
  fm_tac

theorem run_step_requireIf {R n m} (h : MonoAt R n m) {flag a} : ∀ lx ctx W,
    (run R (n+1) (.requireIf flag a) lx ctx W).1 ≠ .fuel →
      run R (m+1) (.requireIf flag a) lx ctx W = run R (n+1) (.requireIf flag a) lx ctx W := by
  obtain ⟨h1, h2, h3, h4, h5, h6, h7, h8, h9, h10⟩ := h
  intro lx ctx W hne
  simp only [run] at hne ⊢
  fm_tac

theorem run_step_cond {R n m} (h : MonoAt R n m) {flag a} : ∀ lx ctx W,
    (run R (n+1) (.cond flag a) lx ctx W).1 ≠ .fuel →
      run R (m+1) (.cond flag a) lx ctx W = run R (n+1) (.cond flag a) lx ctx W := by
  obtain ⟨h1, h2, h3, h4, h5, h6, h7, h8, h9, h10⟩ := h
  intro lx ctx W hne
  simp only [run] at hne ⊢
  fm_tac

theorem run_step_implies {R n m} (h : MonoAt R n m) {a b} : ∀ lx ctx W,
    (run R (n+1) (.implies a b) lx ctx W).1 ≠ .fuel →
      run R (m+1) (.implies a b) lx ctx W = run R (n+1) (.implies a b) lx ctx W := by
  obtain ⟨h1, h2, h3, h4, h5, h6, h7, h8, h9, h10⟩ := h
  intro lx ctx W hne
  simp only [run] at hne ⊢
  fm_tac

theorem run_step_antecedent {R n m} (h : MonoAt R n m) {a b} : ∀ lx ctx W,
    (run R (n+1) (.antecedent a b) lx ctx W).1 ≠ .fuel →
      run R (m+1) (.antecedent a b) lx ctx W = run R (n+1) (.antecedent a b) lx ctx W := by
  obtain ⟨h1, h2, h3, h4, h5, h6, h7, h8, h9, h10⟩ := h
  intro lx ctx W hne
  simp only [run] at hne ⊢
  fm_tac

theorem run_step_consequent {R n m} (h : MonoAt R n m) {a b} : ∀ lx ctx W,
    (run R (n+1) (.consequent a b) lx ctx W).1 ≠ .fuel →
      run R (m+1) (.consequent a b) lx ctx W = run R (n+1) (.consequent a b) lx ctx W := by
  obtain ⟨h1, h2, h3, h4, h5, h6, h7, h8, h9, h10⟩ := h
  intro lx ctx W hne
  simp only [run] at hne ⊢
  fm_tac

theorem run_step_condImplies {R n m} (h : MonoAt R n m) {a k b} : ∀ lx ctx W,
    (run R (n+1) (.condImplies a k b) lx ctx W).1 ≠ .fuel →
      run R (m+1) (.condImplies a k b) lx ctx W = run R (n+1) (.condImplies a k b) lx ctx W := by
  obtain ⟨h1, h2, h3, h4, h5, h6, h7, h8, h9, h10⟩ := h
  intro lx ctx W hne
  simp only [run] at hne ⊢
  fm_tac

theorem run_step_filterWith {R n m} (h : MonoAt R n m) {mask a} : ∀ lx ctx W,
    (run R (n+1) (.filterWith mask a) lx ctx W).1 ≠ .fuel →
      run R (m+1) (.filterWith mask a) lx ctx W = run R (n+1) (.filterWith mask a) lx ctx W := by
  obtain ⟨h1, h2, h3, h4, h5, h6, h7, h8, h9, h10⟩ := h
  intro lx ctx W hne
  simp only [run] at hne ⊢
  fm_tac

theorem run_step_unfiltered {R n m} (h : MonoAt R n m) {a} : ∀ lx ctx W,
    (run R (n+1) (.unfiltered a) lx ctx W).1 ≠ .fuel →
      run R (m+1) (.unfiltered a) lx ctx W = run R (n+1) (.unfiltered a) lx ctx W := by
  obtain ⟨h1, h2, h3, h4, h5, h6, h7, h8, h9, h10⟩ := h
  intro lx ctx W hne
  simp only [run] at hne ⊢
  fm_tac

theorem run_step_sub {R n m} (h : MonoAt R n m) {a} : ∀ lx ctx W,
    (run R (n+1) (.sub a) lx ctx W).1 ≠ .fuel →
      run R (m+1) (.sub a) lx ctx W = run R (n+1) (.sub a) lx ctx W := by
  obtain ⟨h1, h2, h3, h4, h5, h6, h7, h8, h9, h10⟩ := h
  intro lx ctx W hne
  simp only [run] at hne ⊢
  fm_tac

theorem run_step_spanned {R n m} (h : MonoAt R n m) {a} : ∀ lx ctx W,
    (run R (n+1) (.spanned a) lx ctx W).1 ≠ .fuel →
      run R (m+1) (.spanned a) lx ctx W = run R (n+1) (.spanned a) lx ctx W := by
  obtain ⟨h1, h2, h3, h4, h5, h6, h7, h8, h9, h10⟩ := h
  intro lx ctx W hne
  simp only [run] at hne ⊢
  fm_tac

theorem run_step_text {R n m} (h : MonoAt R n m) {a} : ∀ lx ctx W,
    (run R (n+1) (.text a) lx ctx W).1 ≠ .fuel →
      run R (m+1) (.text a) lx ctx W = run R (n+1) (.text a) lx ctx W := by
  obtain ⟨h1, h2, h3, h4, h5, h6, h7, h8, h9, h10⟩ := h
  intro lx ctx W hne
  simp only [run] at hne ⊢
  fm_tac

theorem run_step_repeat_ {R n m} (h : MonoAt R n m) {v lo hi a} : ∀ lx ctx W,
    (run R (n+1) (.repeat_ v lo hi a) lx ctx W).1 ≠ .fuel →
      run R (m+1) (.repeat_ v lo hi a) lx ctx W = run R (n+1) (.repeat_ v lo hi a) lx ctx W := by
  obtain ⟨h1, h2, h3, h4, h5, h6, h7, h8, h9, h10⟩ := h
  intro lx ctx W hne
  simp only [run] at hne ⊢
  rw [h9 _ _ _ _ _ _ _ (countOf_fuel hne)]

theorem run_step_repeatUntil {R n m} (h : MonoAt R n m) {v lo hi stop a} : ∀ lx ctx W,
    (run R (n+1) (.repeatUntil v lo hi stop a) lx ctx W).1 ≠ .fuel →
      run R (m+1) (.repeatUntil v lo hi stop a) lx ctx W = run R (n+1) (.repeatUntil v lo hi stop a) lx ctx W := by
  obtain ⟨h1, h2, h3, h4, h5, h6, h7, h8, h9, h10⟩ := h
  intro lx ctx W hne
  simp only [run] at hne ⊢
  rw [h6 _ _ _ _ _ _ _ _ (countOf_fuel hne)]

theorem run_step_intersperse {R n m} (h : MonoAt R n m) {v lo hi a sep} : ∀ lx ctx W,
    (run R (n+1) (.intersperse v lo hi a sep) lx ctx W).1 ≠ .fuel →
      run R (m+1) (.intersperse v lo hi a sep) lx ctx W = run R (n+1) (.intersperse v lo hi a sep) lx ctx W := by
  obtain ⟨h1, h2, h3, h4, h5, h6, h7, h8, h9, h10⟩ := h
  intro lx ctx W hne
  simp only [run] at hne ⊢
  rw [h9 _ _ _ _ _ _ _ (countOf_fuel hne)]

theorem run_step_intersperseUntil {R n m} (h : MonoAt R n m) {v lo hi stop a sep} : ∀ lx ctx W,
    (run R (n+1) (.intersperseUntil v lo hi stop a sep) lx ctx W).1 ≠ .fuel →
      run R (m+1) (.intersperseUntil v lo hi stop a sep) lx ctx W = run R (n+1) (.intersperseUntil v lo hi stop a sep) lx ctx W := by
  obtain ⟨h1, h2, h3, h4, h5, h6, h7, h8, h9, h10⟩ := h
  intro lx ctx W hne
  simp only [run] at hne ⊢
  rw [h6 _ _ _ _ _ _ _ _ (countOf_fuel hne)]

theorem run_step_intersperseDefault {R n m} (h : MonoAt R n m) {lo hi a sepk} : ∀ lx ctx W,
    (run R (n+1) (.intersperseDefault lo hi a sepk) lx ctx W).1 ≠ .fuel →
      run R (m+1) (.intersperseDefault lo hi a sepk) lx ctx W = run R (n+1) (.intersperseDefault lo hi a sepk) lx ctx W := by
  obtain ⟨h1, h2, h3, h4, h5, h6, h7, h8, h9, h10⟩ := h
  intro lx ctx W hne
  simp only [run] at hne ⊢
  fm_tac

theorem run_step_raw {R n m} (h : MonoAt R n m) {a} : ∀ lx ctx W,
    (run R (n+1) (.raw a) lx ctx W).1 ≠ .fuel →
      run R (m+1) (.raw a) lx ctx W = run R (n+1) (.raw a) lx ctx W := by
  obtain ⟨h1, h2, h3, h4, h5, h6, h7, h8, h9, h10⟩ := h
  intro lx ctx W hne
  simp only [run] at hne ⊢
  fm_tac

theorem run_step_unrecoverable {R n m} (h : MonoAt R n m) {a} : ∀ lx ctx W,
    (run R (n+1) (.unrecoverable a) lx ctx W).1 ≠ .fuel →
      run R (m+1) (.unrecoverable a) lx ctx W = run R (n+1) (.unrecoverable a) lx ctx W := by
  obtain ⟨h1, h2, h3, h4, h5, h6, h7, h8, h9, h10⟩ := h
  intro lx ctx W hne
  simp only [run] at hne ⊢
  fm_tac

theorem run_step_recover {R n m} (h : MonoAt R n m) {v id a r} : ∀ lx ctx W,
    (run R (n+1) (.recover v id a r) lx ctx W).1 ≠ .fuel →
      run R (m+1) (.recover v id a r) lx ctx W = run R (n+1) (.recover v id a r) lx ctx W := by
  obtain ⟨h1, h2, h3, h4, h5, h6, h7, h8, h9, h10⟩ := h
  intro lx ctx W hne
  simp only [run] at hne ⊢
  fm_tac

theorem run_step_stabilize {R n m} (h : MonoAt R n m) {a} : ∀ lx ctx W,
    (run R (n+1) (.stabilize a) lx ctx W).1 ≠ .fuel →
      run R (m+1) (.stabilize a) lx ctx W = run R (n+1) (.stabilize a) lx ctx W := by
  obtain ⟨h1, h2, h3, h4, h5, h6, h7, h8, h9, h10⟩ := h
  intro lx ctx W hne
  simp only [run] at hne ⊢
  have hr := stabLoop_res hne
  have e1 := h1 a lx ctx W hr
  rw [e1]
  exact h5 _ _ _ _ _ hne

theorem run_step_bracket {R n m} (h : MonoAt R n m) {v opens a closes abort} : ∀ lx ctx W,
    (run R (n+1) (.bracket v opens a closes abort) lx ctx W).1 ≠ .fuel →
      run R (m+1) (.bracket v opens a closes abort) lx ctx W = run R (n+1) (.bracket v opens a closes abort) lx ctx W := by
  obtain ⟨h1, h2, h3, h4, h5, h6, h7, h8, h9, h10⟩ := h
  intro lx ctx W hne
  simp only [run] at hne ⊢
  fm_tac

theorem run_step_list {R n m} (h : MonoAt R n m) {v id lo hi a sep abort} : ∀ lx ctx W,
    (run R (n+1) (.list v id lo hi a sep abort) lx ctx W).1 ≠ .fuel →
      run R (m+1) (.list v id lo hi a sep abort) lx ctx W = run R (n+1) (.list v id lo hi a sep abort) lx ctx W := by
  obtain ⟨h1, h2, h3, h4, h5, h6, h7, h8, h9, h10⟩ := h
  intro lx ctx W hne
  simp only [run] at hne ⊢
  fm_tac

theorem run_step_upTo {R n m} (h : MonoAt R n m) {a abort} : ∀ lx ctx W,
    (run R (n+1) (.upTo a abort) lx ctx W).1 ≠ .fuel →
      run R (m+1) (.upTo a abort) lx ctx W = run R (n+1) (.upTo a abort) lx ctx W := by
  obtain ⟨h1, h2, h3, h4, h5, h6, h7, h8, h9, h10⟩ := h
  intro lx ctx W hne
  simp only [run] at hne ⊢
  fm_tac

theorem run_step_probe {R n m} (h : MonoAt R n m) {tag} : ∀ lx ctx W,
    (run R (n+1) (.probe tag) lx ctx W).1 ≠ .fuel →
      run R (m+1) (.probe tag) lx ctx W = run R (n+1) (.probe tag) lx ctx W := by
  obtain ⟨h1, h2, h3, h4, h5, h6, h7, h8, h9, h10⟩ := h
  intro lx ctx W hne
  simp only [run] at hne ⊢
  fm_tac

theorem run_step_ctxPushed {R n m} (h : MonoAt R n m) {tag a} : ∀ lx ctx W,
    (run R (n+1) (.ctxPushed tag a) lx ctx W).1 ≠ .fuel →
      run R (m+1) (.ctxPushed tag a) lx ctx W = run R (n+1) (.ctxPushed tag a) lx ctx W := by
  obtain ⟨h1, h2, h3, h4, h5, h6, h7, h8, h9, h10⟩ := h
  intro lx ctx W hne
  simp only [run] at hne ⊢
  fm_tac

theorem run_step_ctxPush {R n m} (h : MonoAt R n m) {tag a} : ∀ lx ctx W,
    (run R (n+1) (.ctxPush tag a) lx ctx W).1 ≠ .fuel →
      run R (m+1) (.ctxPush tag a) lx ctx W = run R (n+1) (.ctxPush tag a) lx ctx W := by
  obtain ⟨h1, h2, h3, h4, h5, h6, h7, h8, h9, h10⟩ := h
  intro lx ctx W hne
  simp only [run] at hne ⊢
  fm_tac

theorem run_step_ctxLocked {R n m} (h : MonoAt R n m) {flag a} : ∀ lx ctx W,
    (run R (n+1) (.ctxLocked flag a) lx ctx W).1 ≠ .fuel →
      run R (m+1) (.ctxLocked flag a) lx ctx W = run R (n+1) (.ctxLocked flag a) lx ctx W := by
  obtain ⟨h1, h2, h3, h4, h5, h6, h7, h8, h9, h10⟩ := h
  intro lx ctx W hne
  simp only [run] at hne ⊢
  fm_tac

theorem run_step_someOf {R n m} (h : MonoAt R n m) {a} : ∀ lx ctx W,
    (run R (n+1) (.someOf a) lx ctx W).1 ≠ .fuel →
      run R (m+1) (.someOf a) lx ctx W = run R (n+1) (.someOf a) lx ctx W := by
  obtain ⟨h1, h2, h3, h4, h5, h6, h7, h8, h9, h10⟩ := h
  intro lx ctx W hne
  simp only [run] at hne ⊢
  fm_tac

theorem run_step {R n m} (h : MonoAt R n m) : ∀ g lx ctx W,
    (run R (n+1) g lx ctx W).1 ≠ .fuel → run R (m+1) g lx ctx W = run R (n+1) g lx ctx W := by
  intro g
  cases g
  · exact run_step_empty h
  · exact run_step_one h
  · exact run_step_any h
  · exact run_step_anyIndex h
  · exact run_step_seq h
  · exact run_step_seqCount h
  · exact run_step_pred h
  · exact run_step_endOfText h
  · exact run_step_left h
  · exact run_step_right h
  · exact run_step_both h
  · exact run_step_center h
  · exact run_step_map h
  · exact run_step_discard h
  · exact run_step_either h
  · exact run_step_maybe h
  · exact run_step_requireIf h
  · exact run_step_cond h
  · exact run_step_implies h
  · exact run_step_antecedent h
  · exact run_step_consequent h
  · exact run_step_condImplies h
  · exact run_step_filterWith h
  · exact run_step_unfiltered h
  · exact run_step_sub h
  · exact run_step_spanned h
  · exact run_step_text h
  · exact run_step_repeat_ h
  · exact run_step_repeatUntil h
  · exact run_step_intersperse h
  · exact run_step_intersperseUntil h
  · exact run_step_intersperseDefault h
  · exact run_step_raw h
  · exact run_step_unrecoverable h
  · exact run_step_recover h
  · exact run_step_stabilize h
  · exact run_step_bracket h
  · exact run_step_list h
  · exact run_step_upTo h
  · exact run_step_probe h
  · exact run_step_ctxPushed h
  · exact run_step_ctxPush h
  · exact run_step_ctxLocked h
  · exact run_step_someOf h
/-- the `finish` closure of `listLoop` -/
def listFinish (ctx : Ctx) (lo : Nat) (hi : Option Nat) (lexer : Lx) (vals : List Val) (W : World) : RRes × World :=
  if !(vals.isEmpty || lexer.recover.isNone) then (RRes.panic, W) else
  if vals.length < lo then
    match sendError ctx (mkErr (.count lexer.parseSpan vals.length lo hi)) W with
    | (Option.some e', W1) => (RRes.err e', W1)
    | (Option.none, W1) => (RRes.ok (.list vals.reverse) lexer, W1)
  else (RRes.ok (.list vals.reverse) lexer, W)

/-- the item parser, default value and recovery pattern of `listLoop` -/
def listItem (v : Nat) (a : G) (sep : Nat) (abort : List Nat) : G :=
  .upTo (if v < 2 then G.someOf a else a) (sep :: abort)
def listDv (v : Nat) : Val := if v < 2 then Val.none else Val.dflt

theorem listLoop_succ (R : RunEnv) (n v id lo : Nat) (hi : Option Nat) (a : G) (sep : Nat) (abort : List Nat)
    (lexer : Lx) (ctx : Ctx) (W : World) (vals : List Val) :
    listLoop R (n+1) v id lo hi a sep abort lexer ctx W vals =
    match lexer.peek R.E with
    | (Option.none, lexer) => listFinish ctx lo hi lexer vals W
    | (Option.some tok, lexer) =>
      if abort.contains tok.kind then
        if vals.isEmpty then listFinish ctx lo hi lexer vals W
        else
          match run R n (.stabilize (.maybe (listItem v a sep abort))) lexer ctx W with
          | (.ok (.some x) _, W1) => listFinish ctx lo hi lexer (x :: vals) W1
          | (.ok _ _, W1) => listFinish ctx lo hi lexer vals W1
          | r => r
      else
        match stabValue R n (listDv v) id (.sepOrAbort sep abort) (listItem v a sep abort) lexer ctx
            (recoverDefault R n (listDv v) id (.sepOrAbort sep abort) (listItem v a sep abort) lexer ctx W).1
            (recoverDefault R n (listDv v) id (.sepOrAbort sep abort) (listItem v a sep abort) lexer ctx W).2 with
        | (.ok x lexer1, W1) =>
          if hiReached hi (x :: vals).length then listFinish ctx lo hi lexer1 (x :: vals) W1 else
          match lexer1.peek R.E with
          | (Option.none, lexer2) => listFinish ctx lo hi lexer2 (x :: vals) W1
          | (Option.some t2, lexer2) =>
            if abort.contains t2.kind then listFinish ctx lo hi lexer2 (x :: vals) W1
            else if lexer2.isEmpty then listFinish ctx lo hi lexer2 (x :: vals) W1
            else
              match recoverDefault R n .dflt id (.sepOrAbort sep abort) (.discard (.one sep)) lexer2 ctx W1 with
              | (.ok _ lexer3, W2) =>
                listLoop R n v id lo hi a sep abort (lexer3.intoSublexer R.E) ctx W2 (x :: vals)
              | r => r
        | r => r := by
  rw [listLoop]
  rfl


theorem sepItem_step {R n m} (h : MonoAt R n m) : ∀ a sep lx ctx W, (sepItem R (n+1) a sep lx ctx W).1 ≠ .fuel →
    sepItem R (m+1) a sep lx ctx W = sepItem R (n+1) a sep lx ctx W := by
  obtain ⟨h1, h2, h3, h4, h5, h6, h7, h8, h9, h10⟩ := h
  intro a sep lx ctx W hne
  simp only [sepItem] at hne ⊢
  fm_tac

theorem interLoopStart_step {R n m} (h : MonoAt R n m) : ∀ lo hi a sep lx ctx W,
    (interLoopStart R (n+1) lo hi a sep lx ctx W).1 ≠ .fuel →
    interLoopStart R (m+1) lo hi a sep lx ctx W = interLoopStart R (n+1) lo hi a sep lx ctx W := by
  obtain ⟨h1, h2, h3, h4, h5, h6, h7, h8, h9, h10⟩ := h
  intro lo hi a sep lx ctx W hne
  simp only [interLoopStart] at hne ⊢
  fm_tac

theorem interLoop_step {R n m} (h : MonoAt R n m) : ∀ lo hi a sep vals lx ctx W,
    (interLoop R (n+1) lo hi a sep vals lx ctx W).1 ≠ .fuel →
    interLoop R (m+1) lo hi a sep vals lx ctx W = interLoop R (n+1) lo hi a sep vals lx ctx W := by
  obtain ⟨h1, h2, h3, h4, h5, h6, h7, h8, h9, h10⟩ := h
  intro lo hi a sep vals lx ctx W hne
  simp only [interLoop] at hne ⊢
  fm_tac

theorem untilStart_step {R n m} (h : MonoAt R n m) : ∀ lo hi stop a sep lx ctx W,
    (untilStart R (n+1) lo hi stop a sep lx ctx W).1 ≠ .fuel →
    untilStart R (m+1) lo hi stop a sep lx ctx W = untilStart R (n+1) lo hi stop a sep lx ctx W := by
  obtain ⟨h1, h2, h3, h4, h5, h6, h7, h8, h9, h10⟩ := h
  intro lo hi stop a sep lx ctx W hne
  simp only [untilStart] at hne ⊢
  fm_tac

theorem untilLoop_step {R n m} (h : MonoAt R n m) : ∀ lo hi stop a sep vals lx ctx W,
    (untilLoop R (n+1) lo hi stop a sep vals lx ctx W).1 ≠ .fuel →
    untilLoop R (m+1) lo hi stop a sep vals lx ctx W = untilLoop R (n+1) lo hi stop a sep vals lx ctx W := by
  obtain ⟨h1, h2, h3, h4, h5, h6, h7, h8, h9, h10⟩ := h
  intro lo hi stop a sep vals lx ctx W hne
  simp only [untilLoop] at hne ⊢
  fm_tac

theorem recoverDefault_step {R n m} (h : MonoAt R n m) : ∀ dv id r body lx ctx W,
    (recoverDefault R (n+1) dv id r body lx ctx W).1 ≠ .fuel →
    recoverDefault R (m+1) dv id r body lx ctx W = recoverDefault R (n+1) dv id r body lx ctx W := by
  obtain ⟨h1, h2, h3, h4, h5, h6, h7, h8, h9, h10⟩ := h
  intro dv id r body lx ctx W hne
  simp only [recoverDefault] at hne ⊢
  fm_tac

theorem stabLoop_step {R n m} (h : MonoAt R n m) : ∀ a lx ctx res W,
    (stabLoop R (n+1) a lx ctx res W).1 ≠ .fuel →
    stabLoop R (m+1) a lx ctx res W = stabLoop R (n+1) a lx ctx res W := by
  obtain ⟨h1, h2, h3, h4, h5, h6, h7, h8, h9, h10⟩ := h
  intro a lx ctx res W hne
  cases res with
  | ok v lx' => simp [stabLoop]
  | panic => simp [stabLoop]
  | fuel => simp [stabLoop] at hne
  | err e =>
    simp only [stabLoop] at hne ⊢
    rcases hadv : advanceToRecover R lx W with ⟨_ | lx1, W1⟩
    · rfl
    · simp only [hadv] at hne ⊢
      split
      · rfl
      · next hc =>
        rw [if_neg hc] at hne
        have hr := stabLoop_res hne
        rw [h1 _ _ _ _ hr]
        exact h5 _ _ _ _ _ hne

theorem stabValue_step {R n m} (h : MonoAt R n m) : ∀ dv id pat body lx ctx res W,
    (stabValue R (n+1) dv id pat body lx ctx res W).1 ≠ .fuel →
    stabValue R (m+1) dv id pat body lx ctx res W = stabValue R (n+1) dv id pat body lx ctx res W := by
  obtain ⟨h1, h2, h3, h4, h5, h6, h7, h8, h9, h10⟩ := h
  intro dv id pat body lx ctx res W hne
  cases res with
  | ok v lx' => simp [stabValue]
  | panic => simp [stabValue]
  | fuel => simp [stabValue] at hne
  | err e =>
    simp only [stabValue] at hne ⊢
    rcases hadv : advanceToRecover R lx W with ⟨_ | lx1, W1⟩
    · rfl
    · simp only [hadv] at hne ⊢
      split
      · rfl
      · next hc =>
        rw [if_neg hc] at hne
        have hr := stabValue_res hne
        rw [h4 _ _ _ _ _ _ _ hr]
        exact h3 _ _ _ _ _ _ _ _ hne


theorem listLoop_step {R n m} (h : MonoAt R n m) : ∀ v id lo hi a sep abort lexer ctx W vals,
    (listLoop R (n+1) v id lo hi a sep abort lexer ctx W vals).1 ≠ .fuel →
      listLoop R (m+1) v id lo hi a sep abort lexer ctx W vals =
        listLoop R (n+1) v id lo hi a sep abort lexer ctx W vals := by
  obtain ⟨h1, h2, h3, h4, h5, h6, h7, h8, h9, h10⟩ := h
  intro v id lo hi a sep abort lexer ctx W vals hne
  rw [listLoop_succ] at hne ⊢
  rw [listLoop_succ]
  have key : ∀ lexer' : Lx,
      (stabValue R n (listDv v) id (.sepOrAbort sep abort) (listItem v a sep abort) lexer' ctx
        (recoverDefault R n (listDv v) id (.sepOrAbort sep abort) (listItem v a sep abort) lexer' ctx W).1
        (recoverDefault R n (listDv v) id (.sepOrAbort sep abort) (listItem v a sep abort) lexer' ctx W).2).1 ≠ .fuel →
      stabValue R m (listDv v) id (.sepOrAbort sep abort) (listItem v a sep abort) lexer' ctx
        (recoverDefault R m (listDv v) id (.sepOrAbort sep abort) (listItem v a sep abort) lexer' ctx W).1
        (recoverDefault R m (listDv v) id (.sepOrAbort sep abort) (listItem v a sep abort) lexer' ctx W).2 =
      stabValue R n (listDv v) id (.sepOrAbort sep abort) (listItem v a sep abort) lexer' ctx
        (recoverDefault R n (listDv v) id (.sepOrAbort sep abort) (listItem v a sep abort) lexer' ctx W).1
        (recoverDefault R n (listDv v) id (.sepOrAbort sep abort) (listItem v a sep abort) lexer' ctx W).2 := by
    intro lexer' hsv
    rw [h4 _ _ _ _ _ _ _ (stabValue_res hsv)]
    exact h3 _ _ _ _ _ _ _ _ hsv
  fm_tac


theorem mono_step {R n m} (h : MonoAt R n m) : MonoAt R (n+1) (m+1) :=
  ⟨run_step h, listLoop_step h, stabValue_step h, recoverDefault_step h, stabLoop_step h, untilStart_step h,
   untilLoop_step h, sepItem_step h, interLoopStart_step h, interLoop_step h⟩

theorem mono_zero (R : RunEnv) (m : Nat) : MonoAt R 0 m := by
  constructor <;> intros <;> simp_all [run, listLoop, stabValue, recoverDefault, stabLoop, untilStart, untilLoop,
    sepItem, interLoopStart, interLoop]

theorem mono_all (R : RunEnv) : ∀ n m, n ≤ m → MonoAt R n m := by
  intro n
  induction n with
  | zero => intro m _; exact mono_zero R m
  | succ n ih =>
    intro m hm
    obtain ⟨m', rfl⟩ : ∃ m', m = m' + 1 := ⟨m - 1, by omega⟩
    exact mono_step (ih m' (by omega))

/-- **Fuel monotonicity of `run`.** -/
theorem run_fuel_mono (R : RunEnv) {n m : Nat} (hm : n ≤ m) (g : G) (lx : Lx) (ctx : Ctx) (W : World)
    (h : (run R n g lx ctx W).1 ≠ .fuel) : run R m g lx ctx W = run R n g lx ctx W :=
  (mono_all R n m hm).run g lx ctx W h

/-! ### `matchLoop` -/

theorem matchLoop_fuel_mono (R : RunEnv) (opens closes abort : List Nat) (sp : Span) :
    ∀ n m, n ≤ m → ∀ lexer ol opened, matchLoop R opens closes abort sp n lexer ol opened ≠ .fuel →
      matchLoop R opens closes abort sp m lexer ol opened = matchLoop R opens closes abort sp n lexer ol opened := by
  intro n
  induction n with
  | zero => intro m _ lexer ol opened h; simp [matchLoop] at h
  | succ n ih =>
    intro m hm lexer ol opened hne
    obtain ⟨m', rfl⟩ : ∃ m', m = m' + 1 := ⟨m - 1, by omega⟩
    have ih' := ih m' (by omega)
    simp only [matchLoop] at hne ⊢
    fm_tac

end Tephra.Term
