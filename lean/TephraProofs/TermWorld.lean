/-
  TephraProofs.TermWorld — the recovery-closure table of the `World` stays
  consistent: every `(id, r)` ever registered by a grammar whose recover/list
  nodes agree with a table `T : id ↦ Rec` satisfies `r = T id` (`WOK`).  In the
  Rust every closure is its own object, so such a table always exists; in the
  model it is the hypothesis that two nodes sharing an `id` carry the same
  predicate (`Consistent`).  Needed for the termination of `list`, whose progress
  argument looks inside its own recovery predicate.
-/
import TephraProofs.TermRun

set_option linter.unusedVariables false

namespace Tephra.Term
open Tephra

/-- every registered closure is the one the table `T` gives to its id. -/
def WOK (T : Nat → Rec) (W : World) : Prop := ∀ p ∈ W.specs, p.2 = T p.1

/-- the recover/list nodes of a grammar agree with the table `T`. -/
def Consistent (T : Nat → Rec) : G → Prop
  | .empty  => True
  | .one _ => True
  | .any _ => True
  | .anyIndex _ => True
  | .seq _ => True
  | .seqCount _ => True
  | .pred _ => True
  | .endOfText  => True
  | .left a b => Consistent T a ∧ Consistent T b
  | .right a b => Consistent T a ∧ Consistent T b
  | .both a b => Consistent T a ∧ Consistent T b
  | .center a b c => Consistent T a ∧ Consistent T b ∧ Consistent T c
  | .map a => Consistent T a
  | .discard a => Consistent T a
  | .either a b => Consistent T a ∧ Consistent T b
  | .maybe a => Consistent T a
  | .requireIf _ a => Consistent T a
  | .cond _ a => Consistent T a
  | .implies a b => Consistent T a ∧ Consistent T b
  | .antecedent a b => Consistent T a ∧ Consistent T b
  | .consequent a b => Consistent T a ∧ Consistent T b
  | .condImplies a _ b => Consistent T a ∧ Consistent T b
  | .filterWith _ a => Consistent T a
  | .unfiltered a => Consistent T a
  | .sub a => Consistent T a
  | .spanned a => Consistent T a
  | .text a => Consistent T a
  | .repeat_ _ _ _ a => Consistent T a
  | .repeatUntil _ _ _ stop a => Consistent T stop ∧ Consistent T a
  | .intersperse _ _ _ a sep => Consistent T a ∧ Consistent T sep
  | .intersperseUntil _ _ _ stop a sep => Consistent T stop ∧ Consistent T a ∧ Consistent T sep
  | .intersperseDefault _ _ a _ => Consistent T a
  | .raw a => Consistent T a
  | .unrecoverable a => Consistent T a
  | .recover _ id a r => T id = r ∧ Consistent T a
  | .stabilize a => Consistent T a
  | .bracket _ _ a _ _ => Consistent T a
  | .list _ id _ _ a sep abort => T id = .sepOrAbort sep abort ∧ Consistent T a
  | .upTo a _ => Consistent T a
  | .probe _ => True
  | .ctxPushed _ a => Consistent T a
  | .ctxPush _ a => Consistent T a
  | .ctxLocked _ a => Consistent T a
  | .someOf a => Consistent T a

variable {R : RunEnv} {T : Nat → Rec}

theorem WOK_init : WOK T World.init := by intro p hp; cases hp

theorem WOK_of_specs {W W' : World} (h : W'.specs = W.specs) (hw : WOK T W) : WOK T W' := by
  unfold WOK; rw [h]; exact hw

theorem WOK_register {W : World} {id r} (hw : WOK T W) (h : T id = r) : WOK T (W.register id r) := by
  unfold World.register
  split
  · exact hw
  · intro p hp
    simp only [List.mem_cons] at hp
    rcases hp with rfl | hp
    · exact h.symm
    · exact hw p hp

theorem sendError_specs (c : Ctx) (e : PErr) (W : World) : (sendError c e W).2.specs = W.specs := by
  unfold sendError; split <;> rfl

theorem askRecover_specs (W : World) (id : Nat) (t : Tok) : (askRecover W id t).2.specs = W.specs := by
  unfold askRecover
  repeat' split
  all_goals rfl

theorem recoverLoop_specs (id : Nat) : ∀ n (lx : Lx) W, (recoverLoop R id n lx W).2.specs = W.specs := by
  intro n
  induction n with
  | zero => intro lx W; rfl
  | succ n ih =>
    intro lx W
    simp only [recoverLoop]
    split
    · rfl
    · next t lx' hp =>
      have ha := askRecover_specs W id t
      split
      · exact ha
      · rw [ih]; exact ha

theorem advanceToRecover_specs (lx : Lx) (W : World) : (advanceToRecover R lx W).2.specs = W.specs := by
  unfold advanceToRecover
  split
  · rfl
  · exact recoverLoop_specs _ _ _ _

theorem WOK_sendError {c e} {W : World} (hw : WOK T W) : WOK T (sendError c e W).2 :=
  WOK_of_specs (sendError_specs c e W) hw

theorem WOK_advance {lx : Lx} {W : World} (hw : WOK T W) : WOK T (advanceToRecover R lx W).2 :=
  WOK_of_specs (advanceToRecover_specs lx W) hw

theorem WOK_countOf {v r} (h : WOK T r.2) : WOK T (countOf v r).2 := by
  unfold countOf
  split
  · exact h
  · split
    · exact h
    · exact h

theorem WOK_probes {W : World} {l} (hw : WOK T W) : WOK T { W with probes := l } := hw

/-- `WOK` is preserved by every fuelled function at fuel `n`. -/
structure WokAt (R : RunEnv) (T : Nat → Rec) (n : Nat) : Prop where
  run : ∀ g lx ctx W, Consistent T g → WOK T W → WOK T (run R n g lx ctx W).2
  listLoop : ∀ v id lo hi a sep abort lexer ctx W vals, T id = .sepOrAbort sep abort → Consistent T a → WOK T W →
    WOK T (listLoop R n v id lo hi a sep abort lexer ctx W vals).2
  stabValue : ∀ dv id pat body lx ctx res W, T id = pat → Consistent T body → WOK T W →
    WOK T (stabValue R n dv id pat body lx ctx res W).2
  recoverDefault : ∀ dv id r body lx ctx W, T id = r → Consistent T body → WOK T W →
    WOK T (recoverDefault R n dv id r body lx ctx W).2
  stabLoop : ∀ a lx ctx res W, Consistent T a → WOK T W → WOK T (stabLoop R n a lx ctx res W).2
  untilStart : ∀ lo hi stop a sep lx ctx W, Consistent T stop → Consistent T a → Consistent T sep → WOK T W →
    WOK T (untilStart R n lo hi stop a sep lx ctx W).2
  untilLoop : ∀ lo hi stop a sep vals lx ctx W, Consistent T stop → Consistent T a → Consistent T sep → WOK T W →
    WOK T (untilLoop R n lo hi stop a sep vals lx ctx W).2
  sepItem : ∀ a sep lx ctx W, Consistent T a → Consistent T sep → WOK T W → WOK T (sepItem R n a sep lx ctx W).2
  interLoopStart : ∀ lo hi a sep lx ctx W, Consistent T a → Consistent T sep → WOK T W →
    WOK T (interLoopStart R n lo hi a sep lx ctx W).2
  interLoop : ∀ lo hi a sep vals lx ctx W, Consistent T a → Consistent T sep → WOK T W →
    WOK T (interLoop R n lo hi a sep vals lx ctx W).2

macro "wok_tac" : tactic => `(tactic|
  (first | done | ((repeat' split) <;> grind [Consistent])))

theorem run_wok_empty {n} (ih : WokAt R T n)  :
    ∀ lx ctx W, Consistent T (.empty ) → WOK T W → WOK T (run R (n+1) (.empty ) lx ctx W).2 := by
  obtain ⟨h1, h2, h3, h4, h5, h6, h7, h8, h9, h10⟩ := ih
  have fS := @WOK_sendError T
  have fA := @WOK_advance R T
  have fR := @WOK_register T
  intro lx ctx W hc hw
  simp only [run, Consistent] at hc ⊢
  wok_tac

theorem run_wok_one {n} (ih : WokAt R T n) {k} :
    ∀ lx ctx W, Consistent T (.one k) → WOK T W → WOK T (run R (n+1) (.one k) lx ctx W).2 := by
  obtain ⟨h1, h2, h3, h4, h5, h6, h7, h8, h9, h10⟩ := ih
  have fS := @WOK_sendError T
  have fA := @WOK_advance R T
  have fR := @WOK_register T
  intro lx ctx W hc hw
  simp only [run, Consistent] at hc ⊢
  wok_tac

theorem run_wok_any {n} (ih : WokAt R T n) {ks} :
    ∀ lx ctx W, Consistent T (.any ks) → WOK T W → WOK T (run R (n+1) (.any ks) lx ctx W).2 := by
  obtain ⟨h1, h2, h3, h4, h5, h6, h7, h8, h9, h10⟩ := ih
  have fS := @WOK_sendError T
  have fA := @WOK_advance R T
  have fR := @WOK_register T
  intro lx ctx W hc hw
  simp only [run, Consistent] at hc ⊢
  wok_tac

theorem run_wok_anyIndex {n} (ih : WokAt R T n) {ks} :
    ∀ lx ctx W, Consistent T (.anyIndex ks) → WOK T W → WOK T (run R (n+1) (.anyIndex ks) lx ctx W).2 := by
  obtain ⟨h1, h2, h3, h4, h5, h6, h7, h8, h9, h10⟩ := ih
  have fS := @WOK_sendError T
  have fA := @WOK_advance R T
  have fR := @WOK_register T
  intro lx ctx W hc hw
  simp only [run, Consistent] at hc ⊢
  wok_tac

theorem run_wok_seq {n} (ih : WokAt R T n) {ks} :
    ∀ lx ctx W, Consistent T (.seq ks) → WOK T W → WOK T (run R (n+1) (.seq ks) lx ctx W).2 := by
  obtain ⟨h1, h2, h3, h4, h5, h6, h7, h8, h9, h10⟩ := ih
  have fS := @WOK_sendError T
  have fA := @WOK_advance R T
  have fR := @WOK_register T
  intro lx ctx W hc hw
  simp only [run, Consistent] at hc ⊢
  wok_tac

theorem run_wok_seqCount {n} (ih : WokAt R T n) {ks} :
    ∀ lx ctx W, Consistent T (.seqCount ks) → WOK T W → WOK T (run R (n+1) (.seqCount ks) lx ctx W).2 := by
  obtain ⟨h1, h2, h3, h4, h5, h6, h7, h8, h9, h10⟩ := ih
  have fS := @WOK_sendError T
  have fA := @WOK_advance R T
  have fR := @WOK_register T
  intro lx ctx W hc hw
  simp only [run, Consistent] at hc ⊢
  wok_tac

theorem run_wok_pred {n} (ih : WokAt R T n) {p} :
    ∀ lx ctx W, Consistent T (.pred p) → WOK T W → WOK T (run R (n+1) (.pred p) lx ctx W).2 := by
  obtain ⟨h1, h2, h3, h4, h5, h6, h7, h8, h9, h10⟩ := ih
  have fS := @WOK_sendError T
  have fA := @WOK_advance R T
  have fR := @WOK_register T
  intro lx ctx W hc hw
  simp only [run, Consistent] at hc ⊢
  wok_tac

theorem run_wok_endOfText {n} (ih : WokAt R T n)  :
    ∀ lx ctx W, Consistent T (.endOfText ) → WOK T W → WOK T (run R (n+1) (.endOfText ) lx ctx W).2 := by
  obtain ⟨h1, h2, h3, h4, h5, h6, h7, h8, h9, h10⟩ := ih
  have fS := @WOK_sendError T
  have fA := @WOK_advance R T
  have fR := @WOK_register T
  intro lx ctx W hc hw
  simp only [run, Consistent] at hc ⊢
  wok_tac

theorem run_wok_left {n} (ih : WokAt R T n) {a b} :
    ∀ lx ctx W, Consistent T (.left a b) → WOK T W → WOK T (run R (n+1) (.left a b) lx ctx W).2 := by
  obtain ⟨h1, h2, h3, h4, h5, h6, h7, h8, h9, h10⟩ := ih
  have fS := @WOK_sendError T
  have fA := @WOK_advance R T
  have fR := @WOK_register T
  intro lx ctx W hc hw
  simp only [run, Consistent] at hc ⊢
  wok_tac

theorem run_wok_right {n} (ih : WokAt R T n) {a b} :
    ∀ lx ctx W, Consistent T (.right a b) → WOK T W → WOK T (run R (n+1) (.right a b) lx ctx W).2 := by
  obtain ⟨h1, h2, h3, h4, h5, h6, h7, h8, h9, h10⟩ := ih
  have fS := @WOK_sendError T
  have fA := @WOK_advance R T
  have fR := @WOK_register T
  intro lx ctx W hc hw
  simp only [run, Consistent] at hc ⊢
  wok_tac

theorem run_wok_both {n} (ih : WokAt R T n) {a b} :
    ∀ lx ctx W, Consistent T (.both a b) → WOK T W → WOK T (run R (n+1) (.both a b) lx ctx W).2 := by
  obtain ⟨h1, h2, h3, h4, h5, h6, h7, h8, h9, h10⟩ := ih
  have fS := @WOK_sendError T
  have fA := @WOK_advance R T
  have fR := @WOK_register T
  intro lx ctx W hc hw
  simp only [run, Consistent] at hc ⊢
  wok_tac

theorem run_wok_center {n} (ih : WokAt R T n) {a b c} :
    ∀ lx ctx W, Consistent T (.center a b c) → WOK T W → WOK T (run R (n+1) (.center a b c) lx ctx W).2 := by
  obtain ⟨h1, h2, h3, h4, h5, h6, h7, h8, h9, h10⟩ := ih
  have fS := @WOK_sendError T
  have fA := @WOK_advance R T
  have fR := @WOK_register T
  intro lx ctx W hc hw
  simp only [run, Consistent] at hc ⊢
  wok_tac

theorem run_wok_map {n} (ih : WokAt R T n) {a} :
    ∀ lx ctx W, Consistent T (.map a) → WOK T W → WOK T (run R (n+1) (.map a) lx ctx W).2 := by
  obtain ⟨h1, h2, h3, h4, h5, h6, h7, h8, h9, h10⟩ := ih
  have fS := @WOK_sendError T
  have fA := @WOK_advance R T
  have fR := @WOK_register T
  intro lx ctx W hc hw
  simp only [run, Consistent] at hc ⊢
  wok_tac

theorem run_wok_discard {n} (ih : WokAt R T n) {a} :
    ∀ lx ctx W, Consistent T (.discard a) → WOK T W → WOK T (run R (n+1) (.discard a) lx ctx W).2 := by
  obtain ⟨h1, h2, h3, h4, h5, h6, h7, h8, h9, h10⟩ := ih
  have fS := @WOK_sendError T
  have fA := @WOK_advance R T
  have fR := @WOK_register T
  intro lx ctx W hc hw
  simp only [run, Consistent] at hc ⊢
  wok_tac

theorem run_wok_either {n} (ih : WokAt R T n) {a b} :
    ∀ lx ctx W, Consistent T (.either a b) → WOK T W → WOK T (run R (n+1) (.either a b) lx ctx W).2 := by
  obtain ⟨h1, h2, h3, h4, h5, h6, h7, h8, h9, h10⟩ := ih
  have fS := @WOK_sendError T
  have fA := @WOK_advance R T
  have fR := @WOK_register T
  intro lx ctx W hc hw
  simp only [run, Consistent] at hc ⊢
  wok_tac

theorem run_wok_maybe {n} (ih : WokAt R T n) {a} :
    ∀ lx ctx W, Consistent T (.maybe a) → WOK T W → WOK T (run R (n+1) (.maybe a) lx ctx W).2 := by
  obtain ⟨h1, h2, h3, h4, h5, h6, h7, h8, h9, h10⟩ := ih
  have fS := @WOK_sendError T
  have fA := @WOK_advance R T
  have fR := @WOK_register T
  intro lx ctx W hc hw
  simp only [run, Consistent] at hc ⊢
  wok_tac

theorem run_wok_requireIf {n} (ih : WokAt R T n) {flag a} :
    ∀ lx ctx W, Consistent T (.requireIf flag a) → WOK T W → WOK T (run R (n+1) (.requireIf flag a) lx ctx W).2 := by
  obtain ⟨h1, h2, h3, h4, h5, h6, h7, h8, h9, h10⟩ := ih
  have fS := @WOK_sendError T
  have fA := @WOK_advance R T
  have fR := @WOK_register T
  intro lx ctx W hc hw
  simp only [run, Consistent] at hc ⊢
  wok_tac

theorem run_wok_cond {n} (ih : WokAt R T n) {flag a} :
    ∀ lx ctx W, Consistent T (.cond flag a) → WOK T W → WOK T (run R (n+1) (.cond flag a) lx ctx W).2 := by
  obtain ⟨h1, h2, h3, h4, h5, h6, h7, h8, h9, h10⟩ := ih
  have fS := @WOK_sendError T
  have fA := @WOK_advance R T
  have fR := @WOK_register T
  intro lx ctx W hc hw
  simp only [run, Consistent] at hc ⊢
  wok_tac

theorem run_wok_implies {n} (ih : WokAt R T n) {a b} :
    ∀ lx ctx W, Consistent T (.implies a b) → WOK T W → WOK T (run R (n+1) (.implies a b) lx ctx W).2 := by
  obtain ⟨h1, h2, h3, h4, h5, h6, h7, h8, h9, h10⟩ := ih
  have fS := @WOK_sendError T
  have fA := @WOK_advance R T
  have fR := @WOK_register T
  intro lx ctx W hc hw
  simp only [run, Consistent] at hc ⊢
  wok_tac

theorem run_wok_antecedent {n} (ih : WokAt R T n) {a b} :
    ∀ lx ctx W, Consistent T (.antecedent a b) → WOK T W → WOK T (run R (n+1) (.antecedent a b) lx ctx W).2 := by
  obtain ⟨h1, h2, h3, h4, h5, h6, h7, h8, h9, h10⟩ := ih
  have fS := @WOK_sendError T
  have fA := @WOK_advance R T
  have fR := @WOK_register T
  intro lx ctx W hc hw
  simp only [run, Consistent] at hc ⊢
  wok_tac

theorem run_wok_consequent {n} (ih : WokAt R T n) {a b} :
    ∀ lx ctx W, Consistent T (.consequent a b) → WOK T W → WOK T (run R (n+1) (.consequent a b) lx ctx W).2 := by
  obtain ⟨h1, h2, h3, h4, h5, h6, h7, h8, h9, h10⟩ := ih
  have fS := @WOK_sendError T
  have fA := @WOK_advance R T
  have fR := @WOK_register T
  intro lx ctx W hc hw
  simp only [run, Consistent] at hc ⊢
  wok_tac

theorem run_wok_condImplies {n} (ih : WokAt R T n) {a k b} :
    ∀ lx ctx W, Consistent T (.condImplies a k b) → WOK T W → WOK T (run R (n+1) (.condImplies a k b) lx ctx W).2 := by
  obtain ⟨h1, h2, h3, h4, h5, h6, h7, h8, h9, h10⟩ := ih
  have fS := @WOK_sendError T
  have fA := @WOK_advance R T
  have fR := @WOK_register T
  intro lx ctx W hc hw
  simp only [run, Consistent] at hc ⊢
  wok_tac

theorem run_wok_filterWith {n} (ih : WokAt R T n) {mask a} :
    ∀ lx ctx W, Consistent T (.filterWith mask a) → WOK T W → WOK T (run R (n+1) (.filterWith mask a) lx ctx W).2 := by
  obtain ⟨h1, h2, h3, h4, h5, h6, h7, h8, h9, h10⟩ := ih
  have fS := @WOK_sendError T
  have fA := @WOK_advance R T
  have fR := @WOK_register T
  intro lx ctx W hc hw
  simp only [run, Consistent] at hc ⊢
  wok_tac

theorem run_wok_unfiltered {n} (ih : WokAt R T n) {a} :
    ∀ lx ctx W, Consistent T (.unfiltered a) → WOK T W → WOK T (run R (n+1) (.unfiltered a) lx ctx W).2 := by
  obtain ⟨h1, h2, h3, h4, h5, h6, h7, h8, h9, h10⟩ := ih
  have fS := @WOK_sendError T
  have fA := @WOK_advance R T
  have fR := @WOK_register T
  intro lx ctx W hc hw
  simp only [run, Consistent] at hc ⊢
  wok_tac

theorem run_wok_sub {n} (ih : WokAt R T n) {a} :
    ∀ lx ctx W, Consistent T (.sub a) → WOK T W → WOK T (run R (n+1) (.sub a) lx ctx W).2 := by
  obtain ⟨h1, h2, h3, h4, h5, h6, h7, h8, h9, h10⟩ := ih
  have fS := @WOK_sendError T
  have fA := @WOK_advance R T
  have fR := @WOK_register T
  intro lx ctx W hc hw
  simp only [run, Consistent] at hc ⊢
  wok_tac

theorem run_wok_spanned {n} (ih : WokAt R T n) {a} :
    ∀ lx ctx W, Consistent T (.spanned a) → WOK T W → WOK T (run R (n+1) (.spanned a) lx ctx W).2 := by
  obtain ⟨h1, h2, h3, h4, h5, h6, h7, h8, h9, h10⟩ := ih
  have fS := @WOK_sendError T
  have fA := @WOK_advance R T
  have fR := @WOK_register T
  intro lx ctx W hc hw
  simp only [run, Consistent] at hc ⊢
  wok_tac

theorem run_wok_text {n} (ih : WokAt R T n) {a} :
    ∀ lx ctx W, Consistent T (.text a) → WOK T W → WOK T (run R (n+1) (.text a) lx ctx W).2 := by
  obtain ⟨h1, h2, h3, h4, h5, h6, h7, h8, h9, h10⟩ := ih
  have fS := @WOK_sendError T
  have fA := @WOK_advance R T
  have fR := @WOK_register T
  intro lx ctx W hc hw
  simp only [run, Consistent] at hc ⊢
  wok_tac

theorem run_wok_repeat_ {n} (ih : WokAt R T n) {v lo hi a} :
    ∀ lx ctx W, Consistent T (.repeat_ v lo hi a) → WOK T W → WOK T (run R (n+1) (.repeat_ v lo hi a) lx ctx W).2 := by
  obtain ⟨h1, h2, h3, h4, h5, h6, h7, h8, h9, h10⟩ := ih
  have fS := @WOK_sendError T
  have fA := @WOK_advance R T
  have fR := @WOK_register T
  intro lx ctx W hc hw
  simp only [run, Consistent] at hc ⊢
  exact WOK_countOf (h9 _ _ _ _ _ _ _ hc trivial hw)

theorem run_wok_repeatUntil {n} (ih : WokAt R T n) {v lo hi stop a} :
    ∀ lx ctx W, Consistent T (.repeatUntil v lo hi stop a) → WOK T W → WOK T (run R (n+1) (.repeatUntil v lo hi stop a) lx ctx W).2 := by
  obtain ⟨h1, h2, h3, h4, h5, h6, h7, h8, h9, h10⟩ := ih
  have fS := @WOK_sendError T
  have fA := @WOK_advance R T
  have fR := @WOK_register T
  intro lx ctx W hc hw
  simp only [run, Consistent] at hc ⊢
  exact WOK_countOf (h6 _ _ _ _ _ _ _ _ hc.1 hc.2 trivial hw)

theorem run_wok_intersperse {n} (ih : WokAt R T n) {v lo hi a sep} :
    ∀ lx ctx W, Consistent T (.intersperse v lo hi a sep) → WOK T W → WOK T (run R (n+1) (.intersperse v lo hi a sep) lx ctx W).2 := by
  obtain ⟨h1, h2, h3, h4, h5, h6, h7, h8, h9, h10⟩ := ih
  have fS := @WOK_sendError T
  have fA := @WOK_advance R T
  have fR := @WOK_register T
  intro lx ctx W hc hw
  simp only [run, Consistent] at hc ⊢
  exact WOK_countOf (h9 _ _ _ _ _ _ _ hc.1 hc.2 hw)

theorem run_wok_intersperseUntil {n} (ih : WokAt R T n) {v lo hi stop a sep} :
    ∀ lx ctx W, Consistent T (.intersperseUntil v lo hi stop a sep) → WOK T W → WOK T (run R (n+1) (.intersperseUntil v lo hi stop a sep) lx ctx W).2 := by
  obtain ⟨h1, h2, h3, h4, h5, h6, h7, h8, h9, h10⟩ := ih
  have fS := @WOK_sendError T
  have fA := @WOK_advance R T
  have fR := @WOK_register T
  intro lx ctx W hc hw
  simp only [run, Consistent] at hc ⊢
  exact WOK_countOf (h6 _ _ _ _ _ _ _ _ hc.1 hc.2.1 hc.2.2 hw)

theorem run_wok_intersperseDefault {n} (ih : WokAt R T n) {lo hi a sepk} :
    ∀ lx ctx W, Consistent T (.intersperseDefault lo hi a sepk) → WOK T W → WOK T (run R (n+1) (.intersperseDefault lo hi a sepk) lx ctx W).2 := by
  obtain ⟨h1, h2, h3, h4, h5, h6, h7, h8, h9, h10⟩ := ih
  have fS := @WOK_sendError T
  have fA := @WOK_advance R T
  have fR := @WOK_register T
  intro lx ctx W hc hw
  simp only [run, Consistent] at hc ⊢
  exact h9 _ _ _ _ _ _ _ hc trivial hw

theorem run_wok_raw {n} (ih : WokAt R T n) {a} :
    ∀ lx ctx W, Consistent T (.raw a) → WOK T W → WOK T (run R (n+1) (.raw a) lx ctx W).2 := by
  obtain ⟨h1, h2, h3, h4, h5, h6, h7, h8, h9, h10⟩ := ih
  have fS := @WOK_sendError T
  have fA := @WOK_advance R T
  have fR := @WOK_register T
  intro lx ctx W hc hw
  simp only [run, Consistent] at hc ⊢
  wok_tac

theorem run_wok_unrecoverable {n} (ih : WokAt R T n) {a} :
    ∀ lx ctx W, Consistent T (.unrecoverable a) → WOK T W → WOK T (run R (n+1) (.unrecoverable a) lx ctx W).2 := by
  obtain ⟨h1, h2, h3, h4, h5, h6, h7, h8, h9, h10⟩ := ih
  have fS := @WOK_sendError T
  have fA := @WOK_advance R T
  have fR := @WOK_register T
  intro lx ctx W hc hw
  simp only [run, Consistent] at hc ⊢
  wok_tac

theorem run_wok_recover {n} (ih : WokAt R T n) {v id a r} :
    ∀ lx ctx W, Consistent T (.recover v id a r) → WOK T W → WOK T (run R (n+1) (.recover v id a r) lx ctx W).2 := by
  obtain ⟨h1, h2, h3, h4, h5, h6, h7, h8, h9, h10⟩ := ih
  have fS := @WOK_sendError T
  have fA := @WOK_advance R T
  have fR := @WOK_register T
  intro lx ctx W hc hw
  simp only [run, Consistent] at hc ⊢
  wok_tac

theorem run_wok_stabilize {n} (ih : WokAt R T n) {a} :
    ∀ lx ctx W, Consistent T (.stabilize a) → WOK T W → WOK T (run R (n+1) (.stabilize a) lx ctx W).2 := by
  obtain ⟨h1, h2, h3, h4, h5, h6, h7, h8, h9, h10⟩ := ih
  have fS := @WOK_sendError T
  have fA := @WOK_advance R T
  have fR := @WOK_register T
  intro lx ctx W hc hw
  simp only [run, Consistent] at hc ⊢
  wok_tac

theorem run_wok_bracket {n} (ih : WokAt R T n) {v opens a closes abort} :
    ∀ lx ctx W, Consistent T (.bracket v opens a closes abort) → WOK T W → WOK T (run R (n+1) (.bracket v opens a closes abort) lx ctx W).2 := by
  obtain ⟨h1, h2, h3, h4, h5, h6, h7, h8, h9, h10⟩ := ih
  have fS := @WOK_sendError T
  have fA := @WOK_advance R T
  have fR := @WOK_register T
  intro lx ctx W hc hw
  simp only [run, Consistent] at hc ⊢
  have hb : Consistent T (if (v % 2 == 0) = true then a.someOf else a) := by
    split <;> simpa [Consistent] using hc
  wok_tac

theorem run_wok_list {n} (ih : WokAt R T n) {v id lo hi a sep abort} :
    ∀ lx ctx W, Consistent T (.list v id lo hi a sep abort) → WOK T W → WOK T (run R (n+1) (.list v id lo hi a sep abort) lx ctx W).2 := by
  obtain ⟨h1, h2, h3, h4, h5, h6, h7, h8, h9, h10⟩ := ih
  have fS := @WOK_sendError T
  have fA := @WOK_advance R T
  have fR := @WOK_register T
  intro lx ctx W hc hw
  simp only [run, Consistent] at hc ⊢
  wok_tac

theorem run_wok_upTo {n} (ih : WokAt R T n) {a abort} :
    ∀ lx ctx W, Consistent T (.upTo a abort) → WOK T W → WOK T (run R (n+1) (.upTo a abort) lx ctx W).2 := by
  obtain ⟨h1, h2, h3, h4, h5, h6, h7, h8, h9, h10⟩ := ih
  have fS := @WOK_sendError T
  have fA := @WOK_advance R T
  have fR := @WOK_register T
  intro lx ctx W hc hw
  simp only [run, Consistent] at hc ⊢
  wok_tac

theorem run_wok_probe {n} (ih : WokAt R T n) {tag} :
    ∀ lx ctx W, Consistent T (.probe tag) → WOK T W → WOK T (run R (n+1) (.probe tag) lx ctx W).2 := by
  obtain ⟨h1, h2, h3, h4, h5, h6, h7, h8, h9, h10⟩ := ih
  have fS := @WOK_sendError T
  have fA := @WOK_advance R T
  have fR := @WOK_register T
  intro lx ctx W hc hw
  simp only [run]
  exact WOK_of_specs (by simp [sendError_specs]) hw

theorem run_wok_ctxPushed {n} (ih : WokAt R T n) {tag a} :
    ∀ lx ctx W, Consistent T (.ctxPushed tag a) → WOK T W → WOK T (run R (n+1) (.ctxPushed tag a) lx ctx W).2 := by
  obtain ⟨h1, h2, h3, h4, h5, h6, h7, h8, h9, h10⟩ := ih
  have fS := @WOK_sendError T
  have fA := @WOK_advance R T
  have fR := @WOK_register T
  intro lx ctx W hc hw
  simp only [run, Consistent] at hc ⊢
  wok_tac

theorem run_wok_ctxPush {n} (ih : WokAt R T n) {tag a} :
    ∀ lx ctx W, Consistent T (.ctxPush tag a) → WOK T W → WOK T (run R (n+1) (.ctxPush tag a) lx ctx W).2 := by
  obtain ⟨h1, h2, h3, h4, h5, h6, h7, h8, h9, h10⟩ := ih
  have fS := @WOK_sendError T
  have fA := @WOK_advance R T
  have fR := @WOK_register T
  intro lx ctx W hc hw
  simp only [run, Consistent] at hc ⊢
  wok_tac

theorem run_wok_ctxLocked {n} (ih : WokAt R T n) {flag a} :
    ∀ lx ctx W, Consistent T (.ctxLocked flag a) → WOK T W → WOK T (run R (n+1) (.ctxLocked flag a) lx ctx W).2 := by
  obtain ⟨h1, h2, h3, h4, h5, h6, h7, h8, h9, h10⟩ := ih
  have fS := @WOK_sendError T
  have fA := @WOK_advance R T
  have fR := @WOK_register T
  intro lx ctx W hc hw
  simp only [run, Consistent] at hc ⊢
  wok_tac

theorem run_wok_someOf {n} (ih : WokAt R T n) {a} :
    ∀ lx ctx W, Consistent T (.someOf a) → WOK T W → WOK T (run R (n+1) (.someOf a) lx ctx W).2 := by
  obtain ⟨h1, h2, h3, h4, h5, h6, h7, h8, h9, h10⟩ := ih
  have fS := @WOK_sendError T
  have fA := @WOK_advance R T
  have fR := @WOK_register T
  intro lx ctx W hc hw
  simp only [run, Consistent] at hc ⊢
  wok_tac

/-! ### the loop functions -/

theorem sepItem_wok {n} (ih : WokAt R T n) : ∀ a sep lx ctx W, Consistent T a → Consistent T sep → WOK T W →
    WOK T (sepItem R (n+1) a sep lx ctx W).2 := by
  obtain ⟨h1, h2, h3, h4, h5, h6, h7, h8, h9, h10⟩ := ih
  intro a sep lx ctx W hca hcs hw
  simp only [sepItem]
  wok_tac

theorem interLoopStart_wok {n} (ih : WokAt R T n) : ∀ lo hi a sep lx ctx W, Consistent T a → Consistent T sep →
    WOK T W → WOK T (interLoopStart R (n+1) lo hi a sep lx ctx W).2 := by
  obtain ⟨h1, h2, h3, h4, h5, h6, h7, h8, h9, h10⟩ := ih
  intro lo hi a sep lx ctx W hca hcs hw
  simp only [interLoopStart]
  wok_tac

theorem interLoop_wok {n} (ih : WokAt R T n) : ∀ lo hi a sep vals lx ctx W, Consistent T a → Consistent T sep →
    WOK T W → WOK T (interLoop R (n+1) lo hi a sep vals lx ctx W).2 := by
  obtain ⟨h1, h2, h3, h4, h5, h6, h7, h8, h9, h10⟩ := ih
  intro lo hi a sep vals lx ctx W hca hcs hw
  simp only [interLoop]
  wok_tac

theorem untilStart_wok {n} (ih : WokAt R T n) : ∀ lo hi stop a sep lx ctx W, Consistent T stop → Consistent T a →
    Consistent T sep → WOK T W → WOK T (untilStart R (n+1) lo hi stop a sep lx ctx W).2 := by
  obtain ⟨h1, h2, h3, h4, h5, h6, h7, h8, h9, h10⟩ := ih
  intro lo hi stop a sep lx ctx W hct hca hcs hw
  simp only [untilStart]
  wok_tac

theorem untilLoop_wok {n} (ih : WokAt R T n) : ∀ lo hi stop a sep vals lx ctx W, Consistent T stop →
    Consistent T a → Consistent T sep → WOK T W → WOK T (untilLoop R (n+1) lo hi stop a sep vals lx ctx W).2 := by
  obtain ⟨h1, h2, h3, h4, h5, h6, h7, h8, h9, h10⟩ := ih
  intro lo hi stop a sep vals lx ctx W hct hca hcs hw
  simp only [untilLoop]
  wok_tac

theorem recoverDefault_wok {n} (ih : WokAt R T n) : ∀ dv id r body lx ctx W, T id = r → Consistent T body →
    WOK T W → WOK T (recoverDefault R (n+1) dv id r body lx ctx W).2 := by
  obtain ⟨h1, h2, h3, h4, h5, h6, h7, h8, h9, h10⟩ := ih
  have fS := @WOK_sendError T
  have fA := @WOK_advance R T
  intro dv id r body lx ctx W hT hc hw
  have hreg := WOK_register hw hT
  simp only [recoverDefault]
  wok_tac

theorem stabLoop_wok {n} (ih : WokAt R T n) : ∀ a lx ctx res W, Consistent T a → WOK T W →
    WOK T (stabLoop R (n+1) a lx ctx res W).2 := by
  obtain ⟨h1, h2, h3, h4, h5, h6, h7, h8, h9, h10⟩ := ih
  intro a lx ctx res W hc hw
  cases res with
  | ok v l => simpa [stabLoop] using hw
  | panic => simpa [stabLoop] using hw
  | fuel => simpa [stabLoop] using hw
  | err e =>
    simp only [stabLoop]
    have ha := WOK_advance (R := R) (lx := lx) hw
    split
    · next lx1 W1 hadv =>
      rw [hadv] at ha
      split
      · exact ha
      · exact h5 _ _ _ _ _ hc (h1 (.unrecoverable a) lx1 ctx W1 (by simpa [Consistent] using hc) ha)
    · next W1 hadv => rw [hadv] at ha; exact ha

theorem stabValue_wok {n} (ih : WokAt R T n) : ∀ dv id pat body lx ctx res W, T id = pat → Consistent T body →
    WOK T W → WOK T (stabValue R (n+1) dv id pat body lx ctx res W).2 := by
  obtain ⟨h1, h2, h3, h4, h5, h6, h7, h8, h9, h10⟩ := ih
  intro dv id pat body lx ctx res W hT hc hw
  cases res with
  | ok v l => simpa [stabValue] using hw
  | panic => simpa [stabValue] using hw
  | fuel => simpa [stabValue] using hw
  | err e =>
    simp only [stabValue]
    have ha := WOK_advance (R := R) (lx := lx) hw
    split
    · next lx1 W1 hadv =>
      rw [hadv] at ha
      split
      · exact ha
      · exact h3 _ _ _ _ _ _ _ _ hT hc (h4 dv id pat body lx1 ctx.withoutSink W1 hT hc ha)
    · next W1 hadv => rw [hadv] at ha; exact ha

theorem listFinish_wok {ctx lo hi} {lexer : Lx} {vals} {W : World} (hw : WOK T W) :
    WOK T (listFinish ctx lo hi lexer vals W).2 := by
  unfold listFinish
  have hs := WOK_sendError (c := ctx) (e := mkErr (.count lexer.parseSpan vals.length lo hi)) hw
  repeat' split
  all_goals first | exact hw | simp_all

theorem listItem_consistent {v a sep abort} (hc : Consistent T a) : Consistent T (listItem v a sep abort) := by
  unfold listItem
  split <;> simpa [Consistent] using hc

theorem listLoop_wok {n} (ih : WokAt R T n) : ∀ v id lo hi a sep abort lexer ctx W vals,
    T id = .sepOrAbort sep abort → Consistent T a → WOK T W →
    WOK T (listLoop R (n+1) v id lo hi a sep abort lexer ctx W vals).2 := by
  obtain ⟨h1, h2, h3, h4, h5, h6, h7, h8, h9, h10⟩ := ih
  intro v id lo hi a sep abort lexer ctx W vals hT hc hw
  have hci := listItem_consistent (v := v) (sep := sep) (abort := abort) hc
  have hcs : Consistent T (.stabilize (.maybe (listItem v a sep abort))) := by simpa [Consistent] using hci
  have hcd : Consistent T (.discard (.one sep)) := by simp [Consistent]
  have fF := @listFinish_wok T
  rw [listLoop_succ]
  split
  · exact listFinish_wok hw
  · next tok lexer' heq =>
    split
    · split
      · exact listFinish_wok hw
      · have hr := h1 _ lexer' ctx W hcs hw
        split
        · next hq => rw [hq] at hr; exact listFinish_wok hr
        · next hq => rw [hq] at hr; exact listFinish_wok hr
        · exact hr
    · have hrd := h4 (listDv v) id (.sepOrAbort sep abort) (listItem v a sep abort) lexer' ctx W hT hci hw
      have hsv := h3 (listDv v) id (.sepOrAbort sep abort) (listItem v a sep abort) lexer' ctx
        (recoverDefault R n (listDv v) id (.sepOrAbort sep abort) (listItem v a sep abort) lexer' ctx W).1 _ hT hci hrd
      split
      · next x lexer1 W1 hs =>
        rw [hs] at hsv
        split
        · exact listFinish_wok hsv
        · split
          · exact listFinish_wok hsv
          · split
            · exact listFinish_wok hsv
            · split
              · exact listFinish_wok hsv
              · next t2 lexer2 _ _ _ =>
                have hr2 := h4 .dflt id (.sepOrAbort sep abort) (.discard (.one sep)) lexer2 ctx W1 hT hcd hsv
                split
                · next hq => rw [hq] at hr2; exact h2 _ _ _ _ _ _ _ _ _ _ _ hT hc hr2
                · exact hr2
      · exact hsv

theorem run_wok {n} (ih : WokAt R T n) : ∀ g lx ctx W, Consistent T g → WOK T W →
    WOK T (run R (n+1) g lx ctx W).2 := by
  intro g
  cases g
  · exact run_wok_empty ih
  · exact run_wok_one ih
  · exact run_wok_any ih
  · exact run_wok_anyIndex ih
  · exact run_wok_seq ih
  · exact run_wok_seqCount ih
  · exact run_wok_pred ih
  · exact run_wok_endOfText ih
  · exact run_wok_left ih
  · exact run_wok_right ih
  · exact run_wok_both ih
  · exact run_wok_center ih
  · exact run_wok_map ih
  · exact run_wok_discard ih
  · exact run_wok_either ih
  · exact run_wok_maybe ih
  · exact run_wok_requireIf ih
  · exact run_wok_cond ih
  · exact run_wok_implies ih
  · exact run_wok_antecedent ih
  · exact run_wok_consequent ih
  · exact run_wok_condImplies ih
  · exact run_wok_filterWith ih
  · exact run_wok_unfiltered ih
  · exact run_wok_sub ih
  · exact run_wok_spanned ih
  · exact run_wok_text ih
  · exact run_wok_repeat_ ih
  · exact run_wok_repeatUntil ih
  · exact run_wok_intersperse ih
  · exact run_wok_intersperseUntil ih
  · exact run_wok_intersperseDefault ih
  · exact run_wok_raw ih
  · exact run_wok_unrecoverable ih
  · exact run_wok_recover ih
  · exact run_wok_stabilize ih
  · exact run_wok_bracket ih
  · exact run_wok_list ih
  · exact run_wok_upTo ih
  · exact run_wok_probe ih
  · exact run_wok_ctxPushed ih
  · exact run_wok_ctxPush ih
  · exact run_wok_ctxLocked ih
  · exact run_wok_someOf ih

theorem wok_step {n} (ih : WokAt R T n) : WokAt R T (n+1) :=
  ⟨run_wok ih, listLoop_wok ih, stabValue_wok ih, recoverDefault_wok ih, stabLoop_wok ih,
   untilStart_wok ih, untilLoop_wok ih, sepItem_wok ih, interLoopStart_wok ih, interLoop_wok ih⟩

theorem wok_zero : WokAt R T 0 := by
  constructor <;> intros <;> simpa [run, listLoop, stabValue, recoverDefault, stabLoop, untilStart, untilLoop,
    sepItem, interLoopStart, interLoop]

theorem wok_all : ∀ n, WokAt R T n := by
  intro n
  induction n with
  | zero => exact wok_zero
  | succ n ih => exact wok_step ih

end Tephra.Term
