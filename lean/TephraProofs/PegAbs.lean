/-
  TephraProofs.PegAbs — C06 / C07 / C14: the interpreter `run` against the
  reference PEG evaluator `Spec.peg`.

  `Abs lx s` relates a lexer to a state of the reference evaluator: same filter,
  the state's remaining raw tokens and the raw stream at the lexer's
  scanner/cursor agree once their leading rejected tokens are dropped, the
  lookahead buffer (if any) holds the first kept token, and `s.term` says
  whether the scan chain from the lexer's position reaches the end of the text.

  Bridges: `next_abs` (`Lexer.next` = `PState.pop`), `peek_abs` (`Lexer.peek`
  shows the token `pop` would deliver and keeps the relation), `next_none_end`
  (after a refused advance, `is_empty` = "the stream ended at the end of text").
-/
import TephraProofs.RunMatchers
import TephraModel.Run
import TephraModel.Spec.Peg
import TephraProofs.LexIter
import TephraProofs.LexInv

namespace Tephra
open Tephra.Spec

namespace PegRefine
open LexIter

variable {E : LexEnv Nat Tok} {m : Metrics} {len : Nat}

/-! ### how a raw stream ends -/

/-- the position at which the scan chain `l` starting at `p` stops -/
def endPos {τ} (p : Pos) : List (RawTok τ) → Pos
  | [] => p
  | r :: l => endPos r.stop l

def termOf (len : Nat) (p : Pos) : Term := if len ≤ p.byte then .eot else .rejected

theorem termOf_eot {len : Nat} {p : Pos} : termOf len p = .eot ↔ len ≤ p.byte := by
  unfold termOf; split <;> simp_all

theorem termOf_rejected {len : Nat} {p : Pos} : termOf len p = .rejected ↔ ¬ len ≤ p.byte := by
  unfold termOf; split <;> simp_all

theorem endPos_some (ok : ScanOK E m len) {s p tok adv s'}
    (h : E.scan s m p = (some (tok, adv), s')) :
    endPos p (rawAt E m len s p) = endPos adv (rawAt E m len s' adv) := by
  rw [rawAt_some ok h]; rfl

/-- The filter table of the environment is the harness table the reference
evaluator uses (`Spec.keeps` is defined with `passesMask`). -/
def PassOK (E : LexEnv Nat Tok) : Prop := ∀ k t, E.passes k t = passesMask k t

theorem keeps_eq (hp : PassOK E) (f : Option Nat) (t : Tok) : keeps f t = keepOf E f t := by
  cases f <;> simp [keeps, keepOf, hp _ _]

theorem keeps_fun (hp : PassOK E) (f : Option Nat) :
    (fun r : RawTok Tok => keeps f r.tok) = (fun r => keepOf E f r.tok) := by
  funext r; exact keeps_eq hp f r.tok

theorem nkeeps_fun (hp : PassOK E) (f : Option Nat) :
    (fun r : RawTok Tok => !keeps f r.tok) = (fun r => !keepOf E f r.tok) := by
  funext r; rw [keeps_eq hp f r.tok]

/-! ### the abstraction relation -/

structure Abs (E : LexEnv Nat Tok) (m : Metrics) (len : Nat) (lx : Lx) (s : PState) : Prop where
  inv : Inv E m len s.filter lx
  rest : s.skipFiltered.rest = D E m len lx
  term : s.term = termOf len (endPos lx.cursor (rawAt E m len lx.scanner lx.cursor))

theorem Abs.filter {lx : Lx} {s : PState} (a : Abs E m len lx s) : s.filter = lx.filter :=
  a.inv.hfil.symm

/-- The relation on the filtered views. -/
theorem Abs.view (hp : PassOK E) {lx : Lx} {s : PState} (a : Abs E m len lx s) :
    s.view = (rawAt E m len lx.scanner lx.cursor).filter (fun r => keeps s.filter r.tok) := by
  have h := congrArg (List.filter (fun r : RawTok Tok => keeps s.filter r.tok)) a.rest
  simp only [PState.skipFiltered, D] at h
  rw [a.inv.hfil, ← nkeeps_fun hp] at h
  rw [filter_dropWhile (fun r : RawTok Tok => keeps s.filter r.tok),
    filter_dropWhile (fun r : RawTok Tok => keeps s.filter r.tok)] at h
  exact h

theorem pop_nil {s : PState} (h : s.skipFiltered.rest = []) : s.pop = none := by
  unfold PState.pop; rw [h]

theorem pop_cons {s : PState} {r post} (h : s.skipFiltered.rest = r :: post) :
    s.pop = some (r, { s with rest := post }) := by
  unfold PState.pop; rw [h]

theorem pop_none_iff {s : PState} : s.pop = none ↔ s.skipFiltered.rest = [] := by
  unfold PState.pop
  split <;> simp_all

theorem pop_some_iff {s : PState} {r s'} :
    s.pop = some (r, s') ↔ ∃ post, s.skipFiltered.rest = r :: post ∧ s' = { s with rest := post } := by
  unfold PState.pop
  split
  · simp_all
  · next r' rest' h =>
    rw [h]
    constructor
    · intro e; cases e; exact ⟨_, rfl, rfl⟩
    · rintro ⟨post, e, rfl⟩; cases e; rfl

theorem view_nil_of_pop_none {s : PState} (h : s.pop = none) : s.view = [] := by
  have h' := pop_none_iff.mp h
  have := filter_dropWhile (fun r : RawTok Tok => keeps s.filter r.tok) s.rest
  unfold PState.view
  rw [← this]
  simp only [PState.skipFiltered] at h'
  rw [h']; rfl

theorem view_ne_nil_of_pop_some {s : PState} {x} (h : s.pop = some x) : s.view ≠ [] := by
  obtain ⟨r, s'⟩ := x
  obtain ⟨post, h', _⟩ := pop_some_iff.mp h
  simp only [PState.skipFiltered] at h'
  have hk : (!keeps s.filter r.tok) = false :=
    dropWhile_cons_inv (p := fun r : RawTok Tok => !keeps s.filter r.tok) h'
  have := filter_dropWhile (fun r : RawTok Tok => keeps s.filter r.tok) s.rest
  unfold PState.view
  rw [← this]
  rw [h']
  simp at hk
  simp [hk]

/-! ### `buffer_next` finds the first kept token and does not change how the stream ends -/

theorem bufferLoop_complete (ok : ScanOK E m len) (behind : Bool) (lx : Lx) (ps : Nat) (pc : Pos)
    (hm : lx.metrics = m) (hl : lx.len = len)
    (h : (rawAt E m len ps pc).dropWhile (fun r => !keepOf E lx.filter r.tok) ≠ []) :
    (Lexer.bufferLoop E behind lx ps pc).buffer.isSome = true := by
  fun_induction Lexer.bufferLoop E behind lx ps pc with
  | case1 lx ps pc s' heq =>
    subst hm
    rw [rawAt_none heq] at h
    exact absurd rfl h
  | case2 lx ps pc tok adv ps' heq hf lx' hg ih =>
    subst hm
    have hk : keepOf E lx.filter tok = false := by
      rw [filtered_eq] at hf; simpa using hf
    have hfil : lx'.filter = lx.filter := by cases behind <;> simp [lx']
    apply ih (by cases behind <;> simp [lx']) (by cases behind <;> simp [lx', hl])
    rw [hfil]
    rw [rawAt_some ok heq] at h
    simpa [hk] using h
  | case3 lx ps pc tok adv ps' heq hf lx' hg =>
    subst hm
    have := ok.progress _ _ _ _ _ heq
    omega
  | case4 lx ps pc tok adv ps' heq hf => rfl

theorem bufferLoop_true_end (ok : ScanOK E m len) (lx : Lx) (ps : Nat) (pc : Pos)
    (hm : lx.metrics = m) (hl : lx.len = len) (hps : ps = lx.scanner) (hpc : pc = lx.cursor) :
    endPos (Lexer.bufferLoop E true lx ps pc).cursor
        (rawAt E m len (Lexer.bufferLoop E true lx ps pc).scanner (Lexer.bufferLoop E true lx ps pc).cursor) =
      endPos lx.cursor (rawAt E m len lx.scanner lx.cursor) := by
  fun_induction Lexer.bufferLoop E true lx ps pc with
  | case1 lx ps pc s' heq => rfl
  | case2 lx ps pc tok adv ps' heq hf lx' hg ih =>
    subst hm hps hpc
    rw [ih (by simp [lx']) (by simp [lx', hl]) (by simp [lx']) (by simp [lx'])]
    rw [endPos_some ok heq]
    simp [lx']
  | case3 lx ps pc tok adv ps' heq hf lx' hg =>
    subst hm
    have := ok.progress _ _ _ _ _ heq
    omega
  | case4 lx ps pc tok adv ps' heq hf => rfl

theorem bufferNext_end (ok : ScanOK E m len) {f} {lx : Lx} (inv : Inv E m len f lx) :
    endPos (lx.bufferNext E).cursor (rawAt E m len (lx.bufferNext E).scanner (lx.bufferNext E).cursor) =
      endPos lx.cursor (rawAt E m len lx.scanner lx.cursor) := by
  unfold Lexer.bufferNext
  split
  · rfl
  · cases hbeh : (lx.parseStart == lx.cursor)
    · rcases bufferLoop_ahead ok lx lx.scanner lx.cursor inv.hmet inv.hlen with h | ⟨b, h1, _⟩
      · rw [h]
      · rw [h1]
    · exact bufferLoop_true_end ok lx lx.scanner lx.cursor inv.hmet inv.hlen rfl rfl

theorem bufferNext_complete (ok : ScanOK E m len) {f} {lx : Lx} (inv : Inv E m len f lx)
    (h : D E m len lx ≠ []) : (lx.bufferNext E).buffer.isSome = true := by
  unfold Lexer.bufferNext
  split
  · assumption
  · exact bufferLoop_complete ok _ lx lx.scanner lx.cursor inv.hmet inv.hlen h

/-! ### `peek` -/

theorem D_atEnd (ok : ScanOK E m len) {lx : Lx} (h : len ≤ lx.cursor.byte) : D E m len lx = [] := by
  simp [D, rawAt_atEnd ok h]

theorem peek_abs (ok : ScanOK E m len) {lx : Lx} {s : PState} (a : Abs E m len lx s) :
    Abs E m len (lx.peek E).2 s ∧ (lx.peek E).1 = s.pop.map (·.1.tok) := by
  unfold Lexer.peek
  split
  · next hend =>
    rw [a.inv.hlen] at hend
    refine ⟨a, ?_⟩
    have : s.skipFiltered.rest = [] := by rw [a.rest]; exact D_atEnd ok hend
    rw [pop_nil this]; rfl
  · next hend =>
    obtain ⟨i1, d1, _⟩ := bufferNext_spec ok a.inv
    refine ⟨⟨i1, by rw [d1]; exact a.rest, by rw [bufferNext_end ok a.inv]; exact a.term⟩, ?_⟩
    show (lx.bufferNext E).buffer.map (·.token) = _
    cases hD : D E m len lx with
    | nil =>
      have : s.skipFiltered.rest = [] := by rw [a.rest]; exact hD
      rw [pop_nil this]
      cases hb : (lx.bufferNext E).buffer with
      | none => rfl
      | some b =>
        have := (i1.buf b hb).1
        rw [d1, hD] at this; cases this
    | cons r post =>
      have : s.skipFiltered.rest = r :: post := by rw [a.rest]; exact hD
      rw [pop_cons this]
      have hc := bufferNext_complete ok a.inv (by rw [hD]; simp)
      cases hb : (lx.bufferNext E).buffer with
      | none => rw [hb] at hc; cases hc
      | some b =>
        have := (i1.buf b hb).1
        rw [d1, hD] at this
        cases this
        rfl

/-! ### `next` -/

theorem endPos_dropWhile {τ} (q : RawTok τ → Bool) : ∀ (l : List (RawTok τ)) (p : Pos) {r post},
    l.dropWhile q = r :: post → endPos p l = endPos r.stop post := by
  intro l
  induction l with
  | nil => intro p r post h; simp at h
  | cons a t ih =>
    intro p r post h
    rw [List.dropWhile_cons] at h
    split at h
    · exact ih a.stop h
    · cases h; rfl

theorem next_abs (ok : ScanOK E m len) (hp : PassOK E) {lx : Lx} {s : PState} (a : Abs E m len lx s) :
    (s.pop = none → (lx.next E).1 = none) ∧
    (∀ r s', s.pop = some (r, s') → ∃ lx', lx.next E = (some r.tok, lx') ∧ Abs E m len lx' s' ∧
      lx'.tokenSpan = ⟨r.start, r.stop⟩) := by
  obtain ⟨n1, n2⟩ := next_spec ok a.inv
  refine ⟨fun h => n1 (by rw [← a.rest]; exact pop_none_iff.mp h), ?_⟩
  intro r s' h
  obtain ⟨post, h1, rfl⟩ := pop_some_iff.mp h
  rw [a.rest] at h1
  obtain ⟨lx', e, i', h2, h3, h4, h5, h6, h7, h8⟩ := n2 r post h1
  refine ⟨lx', e, ⟨i', ?_, ?_⟩, ?_⟩
  · show post.dropWhile (fun r => !keeps s.filter r.tok) = D E m len lx'
    unfold D
    rw [h2, i'.hfil, nkeeps_fun hp]
  · show s.term = _
    rw [a.term, h2, h3]
    congr 1
    exact endPos_dropWhile _ _ _ h1
  · unfold Lexer.tokenSpan; rw [h3, h4]; exact enclosing_le (by omega)

theorem next_cases (ok : ScanOK E m len) (hp : PassOK E) {lx : Lx} {s : PState} (a : Abs E m len lx s) :
    (∃ lx', lx.next E = (none, lx') ∧ s.pop = none) ∨
    (∃ r s' lx', lx.next E = (some r.tok, lx') ∧ s.pop = some (r, s') ∧ Abs E m len lx' s' ∧
      lx'.tokenSpan = ⟨r.start, r.stop⟩) := by
  obtain ⟨n1, n2⟩ := next_abs ok hp a
  cases hpop : s.pop with
  | none =>
    have h := n1 hpop
    rcases hn : lx.next E with ⟨o, lx'⟩
    rw [hn] at h
    simp only at h
    subst h
    exact Or.inl ⟨lx', rfl, rfl⟩
  | some x =>
    obtain ⟨r, s'⟩ := x
    obtain ⟨lx', e, a', h⟩ := n2 r s' hpop
    exact Or.inr ⟨r, s', lx', e, rfl, a', h⟩

theorem peek_cases (ok : ScanOK E m len) (hp : PassOK E) {lx : Lx} {s : PState} (a : Abs E m len lx s) :
    (∃ lxp, lx.peek E = (none, lxp) ∧ Abs E m len lxp s ∧ s.pop = none) ∨
    (∃ lxp r s' lx', lx.peek E = (some r.tok, lxp) ∧ Abs E m len lxp s ∧ s.pop = some (r, s') ∧
      lxp.next E = (some r.tok, lx') ∧ Abs E m len lx' s') := by
  obtain ⟨ap, hpk⟩ := peek_abs ok a
  rcases hpe : lx.peek E with ⟨o, lxp⟩
  rw [hpe] at ap hpk
  simp only at ap hpk
  cases hpop : s.pop with
  | none =>
    have : o = none := by rw [hpk, hpop]; rfl
    subst this
    exact Or.inl ⟨lxp, rfl, ap, rfl⟩
  | some x =>
    obtain ⟨r, s'⟩ := x
    have : o = some r.tok := by rw [hpk, hpop]; rfl
    subst this
    obtain ⟨lx', e, a', _⟩ := (next_abs ok hp ap).2 r s' hpop
    exact Or.inr ⟨lxp, r, s', lx', rfl, ap, rfl, e, a'⟩

/-! ### after a refused advance -/

theorem nextLoop_end (ok : ScanOK E m len) (behind : Bool) (lx : Lx)
    (hm : lx.metrics = m) (hl : lx.len = len) (h : D E m len lx = []) :
    (Lexer.nextLoop E behind lx).2.cursor = endPos lx.cursor (rawAt E m len lx.scanner lx.cursor) ∧
    (Lexer.nextLoop E behind lx).2.len = lx.len := by
  fun_induction Lexer.nextLoop E behind lx with
  | case1 lx s' heq =>
    subst hm
    rw [rawAt_none heq]
    exact ⟨rfl, rfl⟩
  | case2 lx tok adv s' heq hf lx' hg ih =>
    subst hm
    have hk : keepOf E lx.filter tok = false := by
      rw [filtered_eq] at hf; simpa using hf
    have hD : D E lx.metrics len lx' = D E lx.metrics len lx := by
      cases behind <;> simp [lx', D, rawAt_some ok heq, hk]
    have := ih (by cases behind <;> simp [lx']) (by cases behind <;> simp [lx', hl]) (by rw [hD]; exact h)
    rw [this.1, this.2, endPos_some ok heq]
    cases behind <;> simp [lx']
  | case3 lx tok adv s' heq hf lx' hg =>
    subst hm
    have := ok.progress _ _ _ _ _ heq
    omega
  | case4 lx tok adv s' heq hf ps =>
    subst hm
    have hk : keepOf E lx.filter tok = true := by
      rw [filtered_eq] at hf; simpa using hf
    simp [D, rawAt_some ok heq, hk] at h

theorem D_nil_of_pop_none {lx : Lx} {s : PState} (a : Abs E m len lx s) (h : s.pop = none) :
    D E m len lx = [] := by
  rw [← a.rest]; exact pop_none_iff.mp h

/-- After an advance that delivers nothing, `is_empty` says whether the stream
ended at the end of the text. -/
theorem next_none_end (ok : ScanOK E m len) {lx : Lx} {s : PState} (a : Abs E m len lx s)
    (h : s.pop = none) : ((lx.next E).2.isEmpty = true ↔ s.term = .eot) := by
  have hD := D_nil_of_pop_none a h
  rw [a.term, termOf_eot]
  unfold Lexer.next
  split
  · next hend =>
    have hend' : len ≤ lx.cursor.byte := by rw [← a.inv.hlen]; exact hend
    rw [rawAt_atEnd ok hend']
    simp [Lexer.isEmpty, endPos, hend, hend']
  · next hend =>
    split
    · next b hb =>
      have := (a.inv.buf b hb).1
      rw [hD] at this; cases this
    · next hb =>
      obtain ⟨h1, h2⟩ := nextLoop_end ok (lx.parseStart == lx.cursor) lx a.inv.hmet a.inv.hlen hD
      unfold Lexer.isEmpty
      rw [h1, h2, a.inv.hlen]
      simp

theorem isEmpty_abs (ok : ScanOK E m len) {lx : Lx} {s : PState} (a : Abs E m len lx s)
    (h : lx.isEmpty = true) : s.pop = none ∧ s.term = .eot := by
  have hend : len ≤ lx.cursor.byte := by
    rw [← a.inv.hlen]; simpa [Lexer.isEmpty] using h
  refine ⟨pop_nil (by rw [a.rest]; exact D_atEnd ok hend), ?_⟩
  rw [a.term, termOf_eot, rawAt_atEnd ok hend]
  exact hend

/-! ### initial states -/

theorem endPos_eq_getLast {τ} : ∀ (l : List (RawTok τ)) (p : Pos),
    endPos p l = (l.getLast?.map (·.stop)).getD p := by
  intro l
  induction l with
  | nil => intro p; rfl
  | cons a t ih =>
    intro p
    show endPos a.stop t = _
    rw [ih]
    cases t with
    | nil => rfl
    | cons b u =>
      rw [List.getLast?_cons_cons]
      cases h : (b :: u).getLast? with
      | none => simp at h
      | some x => rfl

/-- The state of the reference evaluator for a raw stream `raw` from `p` under filter `f`. -/
def stateOf (len : Nat) (raw : List (RawTok Tok)) (p : Pos) (f : Option Nat) : PState :=
  ⟨raw, termOf len (endPos p raw), f⟩

theorem abs_fresh (s0 : Nat) (f : Option Nat) (hp : PassOK E) :
    Abs E m len (fresh s0 m len f) (stateOf len (rawAt E m len s0 Pos.zero) Pos.zero f) :=
  ⟨inv_fresh s0 f, by
    show List.dropWhile _ _ = D E m len (fresh s0 m len f)
    rw [D_fresh, nkeeps_fun hp]; rfl, rfl⟩

theorem abs_bufferNext (ok : ScanOK E m len) {lx : Lx} {s : PState} (a : Abs E m len lx s) :
    Abs E m len (lx.bufferNext E) s := by
  obtain ⟨i1, d1, _⟩ := bufferNext_spec ok a.inv
  exact ⟨i1, by rw [d1]; exact a.rest, by rw [bufferNext_end ok a.inv]; exact a.term⟩

/-- A fresh lexer is related to the whole raw stream. -/
theorem abs_new (s0 : Nat) (hp : PassOK E) :
    Abs E m len (Lexer.new s0 m len) (stateOf len (rawAt E m len s0 Pos.zero) Pos.zero none) :=
  abs_fresh s0 none hp

/-- A fresh lexer after `with_filter(f)` is related to the whole raw stream under `f`
(the harness starts every filtered case this way). -/
theorem abs_withFilter (ok : ScanOK E m len) (hp : PassOK E) (s0 : Nat) (f : Option Nat) :
    Abs E m len ((Lexer.new s0 m len).withFilter E f) (stateOf len (rawAt E m len s0 Pos.zero) Pos.zero f) :=
  abs_bufferNext ok (abs_bufferNext ok (abs_fresh s0 f hp))

end PegRefine
end Tephra
